import Std.Data.HashSet
import IwModel.Model.KvApi
import IwModel.Model.FormatEnc
/-! An independent reader of the iwkv file format (src/kv/data-format.txt, iwkv_internal.h,
iwfsmfile.c header) and the well-formedness audit of property C06.

`parse` walks a file image the way a foreign tool would: allocator header, KV header, database
chain, the level-0 node chain of every database, every node record and its data block.
`audit` then checks the structure the property names: links of every level against the level-0
chain, back links and per-level counters, node contents (non-empty, sorted, globally ordered, cached
lowest-key prefix), slot geometry inside data blocks, and the allocation ledger: the set of blocks
marked in the free-space bitmap equals exactly the blocks occupied by header, bitmap, database
blocks, metadata blocks, node pages in use and data blocks. -/
namespace IwModel.Format
open IwModel IwModel.FormatEnc

abbrev Img := FormatEnc.Mem

/-- the image of a real file -/
def imgOf (a : ByteArray) : Img := ⟨a.size, fun i => if h : i < a.size then (a[i]'h).toNat else 0⟩

def byteAt (m : Img) (i : Nat) : Nat := m.get i

def slice (m : Img) (off len : Nat) : Bytes := m.slice off len

def leAt (m : Img) (off width : Nat) : Nat := leDec (slice m off width)

def inFile (m : Img) (off len : Nat) : Bool := off + len ≤ m.size

/-- a node: its record, the header and index of its data block, and the records it holds -/
structure Sblk extends SblkRec, KvIndex where
  blk : Nat              -- block number of the node record
  recs : List (Bytes × Bytes)          -- (stored key, value) in `pi` order
deriving Repr

structure DbImg extends DbHdr where
  blk : Nat
  nodes : List Sblk      -- level-0 chain
deriving Repr

structure FileImg where
  fsm : FsmHdr
  size : Nat
  firstDb : Nat
  dbs : List DbImg
deriving Repr

def bs : Nat := 2 ^ Gen.IWKV_FSM_BPOW       -- block size of the KV layer (128)

def fsmMagic : Nat := Gen.IWFSM_MAGICK
def kvMagic : Nat := Gen.IWKV_MAGIC
def dbMagic : Nat := Gen.IWDB_MAGIC
def fsmHdrSize : Nat := Gen.IWFSM_CUSTOM_HDR_DATA_OFFSET

def parseFsm (m : Img) : Except String FsmHdr :=
  if !inFile m 0 fsmHdrSize then .error "file shorter than the allocator header"
  else match decFsmHdr (slice m 0 fsmHdrSize) with
    | some h => .ok h
    | none => .error "bad allocator magic"

/-- one key/value pair of a data block: `[klen:vn, key, value]`, `len` bytes long -/
def parseKv (m : Img) (at_ len : Nat) : Except String (Bytes × Bytes) :=
  match decKvE (slice m at_ (max len Gen.IW_VNUMBUFSZ)) len with
  | .ok r => .ok r
  | .error .unterminated => .error "unterminated key length"
  | .error (.nofit klen) => .error s!"key of {klen} bytes does not fit its {len}-byte slot"

/-- records of a node in `pi` order -/
def parseRecs (m : Img) (blk ka : Nat) (ki : KvIndex) (pi : List Nat) : Except String (List (Bytes × Bytes)) :=
  pi.mapM fun s =>
    match ki.slots[s]? with
    | none => throw s!"node {blk}: slot number {s}"
    | some (off, len) =>
      if len = 0 ∨ off = 0 ∨ off > 2 ^ ki.szpow then throw s!"node {blk}: slot {s} is empty or outside (off {off} len {len})"
      else parseKv m (ka + 2 ^ ki.szpow - off) len

/-- why `decSblk` rejected a node record -/
def sblkErr (m : Img) (blk : Nat) : String :=
  let a := blk * bs
  let lvl := byteAt m (a + Gen.SOFF_LVL_U1)
  let lkl := byteAt m (a + Gen.SOFF_LKL_U1)
  let pnum := byteAt m (a + Gen.SOFF_PNUM_U1)
  if lvl ≥ Gen.SLEVELS then s!"node {blk}: level {lvl}"
  else if lkl > Gen.PREFIX_KEY_LEN_V2 then s!"node {blk}: lkl {lkl}"
  else s!"node {blk}: pnum {pnum}"

def parseSblk (m : Img) (blk : Nat) : Except String Sblk :=
  let a := blk * bs
  if !inFile m a Gen.SBLK_SZ then .error s!"node record {blk} outside the file" else
  match decSblk (slice m a Gen.SBLK_SZ) with
  | none => .error (sblkErr m blk)
  | some r =>
    let ka := r.kblk * bs
    if !inFile m ka Gen.KVBLK_HDRSZ then .error s!"node {blk}: data block {r.kblk} outside the file" else
    let szpow := byteAt m ka
    if szpow > 40 ∨ !inFile m ka (2 ^ szpow) then .error s!"node {blk}: data block of 2^{szpow} bytes outside the file" else
    match decKvIndexE (slice m ka kvIndexMax) with
    | .error (.slot .off) => .error "bad slot offset"
    | .error (.slot .len) => .error "bad slot length"
    | .error (.size idxsz occ) => .error s!"node {blk}: index size field {idxsz} but index occupies {occ}"
    | .ok ki =>
      match parseRecs m blk ka ki r.pi with
      | .error e => .error e
      | .ok recs => .ok { toSblkRec := r, toKvIndex := ki, blk, recs }

def parseChain (m : Img) : Nat → Nat → List Sblk → Except String (List Sblk)
  | 0, blk, _ => if blk = 0 then .ok [] else .error "level-0 chain longer than the file can hold (cycle?)"
  | fuel + 1, blk, acc =>
    if blk = 0 then .ok acc.reverse
    else
      match parseSblk m blk with
      | .error e => .error e
      | .ok s =>
        match s.n with
        | nx :: _ => parseChain m fuel nx (s :: acc)
        | [] => .error "node without links"

def parseDb (m : Img) (blk : Nat) : Except String DbImg :=
  let a := blk * bs
  if !inFile m a Gen.DOFF_END then .error s!"database block {blk} outside the file" else
  match decDbHdr (slice m a Gen.DOFF_END) with
  | none => .error s!"database block {blk}: bad magic"
  | some h =>
    match parseChain m (m.size / Gen.SBLK_SZ + 1) (h.n.headD 0) [] with
    | .error e => .error e
    | .ok nodes => .ok { toDbHdr := h, blk, nodes }

def parseDbs (m : Img) : Nat → Nat → List DbImg → Except String (List DbImg)
  | 0, blk, acc => if blk = 0 then .ok acc.reverse else .error "database chain too long (cycle?)"
  | fuel + 1, blk, acc =>
    if blk = 0 then .ok acc.reverse
    else do
      let d ← parseDb m blk
      parseDbs m fuel d.next (d :: acc)

def parse (m : Img) : Except String FileImg := do
  let fsm ← parseFsm m
  if fsm.bpow ≠ Gen.IWKV_FSM_BPOW then throw s!"block size 2^{fsm.bpow}"
  if !inFile m fsmHdrSize 12 then throw "no KV header"
  if leAt m fsmHdrSize 4 ≠ kvMagic then throw "bad KV magic"
  let first := leAt m (fsmHdrSize + 4) 8
  if first % bs ≠ 0 then throw "first database address not block aligned"
  let dbs ← parseDbs m (m.size / Gen.DB_SZ + 1) (first / bs) []
  return { fsm, size := m.size, firstDb := first / bs, dbs }

/-! ### Audit -/

def ekeyOf (flags : Nat) (stored : Bytes) : Option KvApi.EKey :=
  if KvApi.isCompound flags then
    match Vnum.dec stored with
    | some (c, st) => if st < stored.length then some (stored.drop st, c) else none
    | none => none
  else some (stored, 0)

/-- subsequence of the level-0 chain holding the nodes of level `≥ i`, as block numbers -/
def levelChain (nodes : List Sblk) (i : Nat) : List Nat := (nodes.filter (·.lvl ≥ i)).map (·.blk)

/-- follow `n[i]` links from `start` through the parsed nodes -/
def followLevel (nodes : List Sblk) (i : Nat) : Nat → Nat → List Nat
  | 0, _ => []
  | fuel + 1, blk =>
    if blk = 0 then [] else
    match nodes.find? (·.blk = blk) with
    | some s => blk :: followLevel nodes i fuel (s.n.getD i 0)
    | none => [blk]      -- dangling: shows up as a mismatch

def rangeBlocks (off len : Nat) : List Nat := (List.range len).map (· + off)

/-- some element occurs twice -/
def hasDup : List Nat → Bool
  | [] => false
  | a :: as => as.contains a || hasDup as

/-- slots in use, with their numbers -/
def usedSlots (s : Sblk) : List ((Nat × Nat) × Nat) := s.slots.zipIdx.filter fun x => x.1.2 ≠ 0

/-- a used slot that is not inside the data area of its block -/
def slotOutside (s : Sblk) (x : (Nat × Nat) × Nat) : Bool :=
  x.1.1 = 0 ∨ x.1.1 > 2 ^ s.szpow - (Gen.KVBLK_HDRSZ + s.idxsz) ∨ x.1.2 > x.1.1

/-- byte intervals [start, end) of the used slots inside the block -/
def slotIvs (s : Sblk) : List (Nat × Nat) := (usedSlots s).map fun x => (2 ^ s.szpow - x.1.1, 2 ^ s.szpow - x.1.1 + x.1.2)

def overlap (a b : Nat × Nat) : Bool := a.1 < b.2 ∧ b.1 < a.2

def checkSlots (s : Sblk) : Option String :=
  let used := usedSlots s
  match used.find? (slotOutside s) with
  | some ((off, len), i) => some s!"node {s.blk}: slot {i} (off {off}, len {len}) leaves the data area of its 2^{s.szpow}-byte block"
  | none =>
    let ivs := slotIvs s
    match ivs.zipIdx.find? fun x => ivs.zipIdx.any fun y => x.2 < y.2 ∧ overlap x.1 y.1 with
    | some (iv, _) => some s!"node {s.blk}: overlapping slots at {iv.1}"
    | none =>
      if hasDup s.pi then some s!"node {s.blk}: a slot is referenced twice"
      else if used.length ≠ s.pnum then some s!"node {s.blk}: {used.length} used slots but pnum {s.pnum}"
      else none

/-- links of level `i` against the level-0 chain, and the counter of level `i` -/
def levelErrs (d : DbImg) (i : Nat) : List String :=
  let want := levelChain d.nodes i
  let got := followLevel d.nodes i (d.nodes.length + 2) (d.n.getD i 0)
  let cnt := (d.nodes.filter (·.lvl = i)).length
  (if want ≠ got then [s!"db {d.id}: level {i} chain {got} but nodes of level >= {i} are {want}"] else []) ++
  (if d.c.getD i 0 ≠ cnt then [s!"db {d.id}: counter of level {i} is {d.c.getD i 0}, nodes with that level: {cnt}"] else [])

/-- back links: every node points to its predecessor, the first one to the database block -/
def linkErrs (d : DbImg) : List String :=
  (d.nodes.zip (d.blk :: d.nodes.map (·.blk))).flatMap fun x =>
    if x.1.p0 ≠ x.2 then [s!"db {d.id}: node {x.1.blk} back link {x.1.p0}, predecessor is {x.2}"] else []

/-- tail link: the last node; an empty chain is written as 0 or as the database block itself -/
def tailOk (d : DbImg) : Bool :=
  match (d.nodes.map (·.blk)).getLast? with
  | some b => d.p0 = b
  | none => d.p0 = 0 ∨ d.p0 = d.blk

def tailErrs (d : DbImg) : List String :=
  if !tailOk d then [s!"db {d.id}: tail link {d.p0}, last node is {(d.nodes.map (·.blk)).getLast?.getD 0}"] else []

/-- key order inside and across nodes: `prev` is the last well-formed key seen so far -/
def keyErrs (d : DbImg) (blk : Nat) : Option KvApi.EKey → List (Bytes × Bytes) → List String × Option KvApi.EKey
  | prev, [] => ([], prev)
  | prev, (k, _) :: rest =>
    match ekeyOf d.flags k with
    | none =>
      let r := keyErrs d blk prev rest
      (s!"db {d.id}: node {blk} holds a malformed key" :: r.1, r.2)
    | some ek =>
      let e := match prev with
        | some pk => if !(KvApi.gtE d.flags pk ek) then [s!"db {d.id}: node {blk}: keys out of order"] else []
        | none => []
      let r := keyErrs d blk (some ek) rest
      (e ++ r.1, r.2)

/-- errors of one node apart from the key order -/
def nodeSelfErrs (d : DbImg) (s : Sblk) : List String :=
  (if s.pnum = 0 then [s!"db {d.id}: node {s.blk} is empty"] else []) ++
  (if s.bpos = 0 ∨ s.bpos > Gen.SBLK_PAGE_SBLK_NUM_V2 then [s!"db {d.id}: node {s.blk} page slot {s.bpos}"] else []) ++
  (match checkSlots s with | some e => [e] | none => []) ++
  (match s.recs.head? with
   | some (k, _) =>
     (if s.lk ≠ k.take Gen.PREFIX_KEY_LEN_V2 then [s!"db {d.id}: node {s.blk} cached key is not the prefix of its first key"] else []) ++
     (if (s.flags % 2 = 1) ≠ (k.length ≤ Gen.PREFIX_KEY_LEN_V2) then [s!"db {d.id}: node {s.blk} full-key flag wrong"] else [])
   | none => [])

def nodeErrs (d : DbImg) : Option KvApi.EKey → List Sblk → List String
  | _, [] => []
  | prev, s :: rest =>
    let r := keyErrs d s.blk prev s.recs
    nodeSelfErrs d s ++ r.1 ++ nodeErrs d r.2 rest

def checkDb (d : DbImg) : List String :=
  (List.range Gen.SLEVELS).flatMap (levelErrs d) ++ linkErrs d ++ tailErrs d ++ nodeErrs d none d.nodes

def bitSet (m : Img) (bmoff : Nat) (blk : Nat) : Bool := byteAt m (bmoff + blk / 8) / 2 ^ (blk % 8) % 2 = 1

/-- blocks the structures occupy -/
def ownedBlocks (f : FileImg) : List Nat :=
  let hdrBlocks := (f.fsm.hdrlen + bs - 1) / bs
  let hdr := rangeBlocks 0 hdrBlocks
  let bm := rangeBlocks (f.fsm.bmoff / bs) ((f.fsm.bmlen + bs - 1) / bs)
  let perDb := f.dbs.flatMap fun d =>
    let pages := (d.nodes.map fun s => s.blk - (s.bpos - 1) * (Gen.SBLK_SZ / bs)).eraseDups
    rangeBlocks d.blk (Gen.DB_SZ / bs) ++ rangeBlocks d.metaBlk d.metaBlkn ++
      pages.flatMap (fun p => rangeBlocks p (Gen.SBLK_PAGE_SBLK_NUM_V2 * Gen.SBLK_SZ / bs)) ++
      d.nodes.flatMap (fun s => rangeBlocks s.kblk (2 ^ s.szpow / bs))
  hdr ++ bm ++ perDb

def checkLedger (m : Img) (f : FileImg) : List String :=
  let owned := ownedBlocks f
  let sorted := owned.mergeSort fun a b => a ≤ b
  let dup := (sorted.zip (sorted.drop 1)).find? fun x => x.1 = x.2
  let nblocks := f.fsm.bmlen * 8
  let marked := (List.range nblocks).filter (bitSet m f.fsm.bmoff)
  let e1 := match dup with | some (a, _) => [s!"block {a} belongs to two structures"] | none => []
  let e2 := match sorted.find? (fun b => !(bitSet m f.fsm.bmoff b)) with
    | some b => [s!"block {b} is used by a structure but free in the bitmap"] | none => []
  let ownedS := Std.HashSet.ofList owned
  let e3 := match marked.find? (fun b => !(ownedS.contains b)) with
    | some b => [s!"block {b} is marked allocated but belongs to no structure (leak)"] | none => []
  e1 ++ e2 ++ e3

def audit (m : Img) : Except String (FileImg × List String) := do
  let f ← parse m
  let ids := f.dbs.map (·.id)
  let e0 := if hasDup ids then ["two databases share an id"] else []
  return (f, e0 ++ f.dbs.flatMap checkDb ++ checkLedger m f)

/-- contents as the `dump` op prints them -/
def dumpDb (d : DbImg) : String :=
  "dump" ++ String.join (d.nodes.flatMap (·.recs) |>.map fun (k, v) =>
    match ekeyOf d.flags k with
    | some ek => s!" {KvApi.pkey d.flags ek}={KvApi.pval v}"
    | none => " ?")

def metaOf (m : Img) (d : DbImg) (n : Nat) : Bytes := slice m (d.metaBlk * bs) (min n (d.metaBlkn * bs))

/-! ### The writer: a database image as the list of stores that put it into a file

`dbWrites` lists what the C code has written when a database with these nodes is on disk: the
database block (`_db_save`, database branch of `_sblk_sync_mm`), the metadata, and per node the
stores of `_sblk_sync_mm`, the data-block header + index of `_kvblk_sync_mm` and one record per
live slot at `block_end - off` (`_kvblk_addkv`). Addresses come from the image itself (`blk`, `kblk`,
`metaBlk`, slot offsets): that is the layout. -/

def shift (base : Nat) (ws : List (Nat × Bytes)) : List (Nat × Bytes) := ws.map fun w => (base + w.1, w.2)

def recWrites (s : Sblk) : List (Nat × Bytes) :=
  (s.pi.zip s.recs).map fun x => (s.kblk * bs + 2 ^ s.szpow - (s.slots.getD x.1 (0, 0)).1, encKv x.2.1 x.2.2)

def nodeWrites (s : Sblk) : List (Nat × Bytes) :=
  shift (s.blk * bs) (sblkWrites s.toSblkRec) ++ (s.kblk * bs, encKvIndex s.toKvIndex) :: recWrites s

def dbWrites (d : DbImg) (mdata : Bytes) : List (Nat × Bytes) :=
  (d.blk * bs, encDbHdr d.toDbHdr) :: (d.metaBlk * bs, mdata) :: d.nodes.flatMap nodeWrites

/-- the file after the database has been written over `old` -/
def writeDb (old : Bytes) (d : DbImg) (mdata : Bytes) : Bytes := pokes old (dbWrites d mdata)

/-! ### Layout of a node: records appended to a fresh data block from the block end

`_kvblk_addkv` on a block whose slots `0..j-1` are taken puts the next record into slot `j`
(`zidx` = first free slot) at offset `maxoff + psz` from the block end, `psz` bytes long. -/

def layoutOffs : Nat → List Bytes → List (Nat × Nat)
  | _, [] => []
  | maxoff, e :: es => (maxoff + e.length, e.length) :: layoutOffs (maxoff + e.length) es

def layoutSlots (recs : List (Bytes × Bytes)) : List (Nat × Nat) :=
  layoutOffs 0 (recs.map fun r => encKv r.1 r.2) ++ List.replicate (Gen.KVBLK_IDXNUM - recs.length) (0, 0)

/-- where a node lives: block of its record, its data block (block number, size 2^szpow), page slot -/
structure NodePlace where
  blk : Nat
  kblk : Nat
  szpow : Nat
  bpos : Nat
deriving Repr

/-- image of a node holding `recs` (stored key, value; in key order), filled in that order -/
def mkNode (p : NodePlace) (lvl : Nat) (n : List Nat) (p0 : Nat) (recs : List (Bytes × Bytes)) : Sblk :=
  let k0 := (recs.head?.map (·.1)).getD []
  let lk := k0.take Gen.PREFIX_KEY_LEN_V2
  let slots := layoutSlots recs
  { flags := if k0.length ≤ Gen.PREFIX_KEY_LEN_V2 then Gen.SBLK_FULL_LKEY else 0, lvl, lkl := lk.length,
    pnum := recs.length, p0, kblk := p.kblk,
    piAll := List.range recs.length ++ List.replicate (Gen.KVBLK_IDXNUM - recs.length) 0, n, bpos := p.bpos, lk,
    szpow := p.szpow, idxsz := (encSlots slots).length, slots, blk := p.blk, recs }

/-! ### Layout of a database: a list of nodes (as in `Kv.Db`: level + records) placed in a file -/

/-- a node of the key-value model with its place in the file -/
structure PNode where
  place : NodePlace
  lvl : Nat
  recs : List (Bytes × Bytes)
deriving Repr

/-- where the database block and the metadata blocks are -/
structure DbPlace where
  blk : Nat
  metaBlk : Nat
  metaBlkn : Nat
deriving Repr

/-- block of the first node of level `≥ i` among `rest`, 0 if none: the skip-list link of level `i` -/
def nextAt (i : Nat) (rest : List PNode) : Nat := ((rest.find? (·.lvl ≥ i)).map (·.place.blk)).getD 0

def mkNodes (prev : Nat) : List PNode → List Sblk
  | [] => []
  | x :: rest =>
    mkNode x.place x.lvl ((List.range (x.lvl + 1)).map (nextAt · rest)) prev x.recs :: mkNodes x.place.blk rest

/-- image of a database: header with head links, counters and tail link; nodes threaded by `mkNodes` -/
def mkDb (dp : DbPlace) (flags id next : Nat) (ns : List PNode) : DbImg :=
  { flags, id, next, p0 := (ns.getLast?.map (·.place.blk)).getD 0,
    n := (List.range Gen.SLEVELS).map (nextAt · ns),
    c := (List.range Gen.SLEVELS).map fun i => (ns.filter (·.lvl = i)).length,
    metaBlk := dp.metaBlk, metaBlkn := dp.metaBlkn, blk := dp.blk, nodes := mkNodes dp.blk ns }

/-- byte regions [start, end) a node occupies: its record and its data block -/
def nodeRegions (p : NodePlace) : List (Nat × Nat) :=
  [(p.blk * bs, p.blk * bs + Gen.SBLK_SZ), (p.kblk * bs, p.kblk * bs + 2 ^ p.szpow)]

/-- all regions of a database: header, metadata, nodes -/
def dbRegions (dp : DbPlace) (mlen : Nat) (ns : List PNode) : List (Nat × Nat) :=
  (dp.blk * bs, dp.blk * bs + Gen.DOFF_END) :: (dp.metaBlk * bs, dp.metaBlk * bs + mlen) ::
    ns.flatMap fun x => nodeRegions x.place

/-! ### Re-encoding (`drv fmt reenc`): the encoders of Model/FormatEnc.lean against the bytes of a real file -/

structure ReencCounts where
  dbs : Nat := 0
  nodes : Nat := 0
  idx : Nat := 0
  recs : Nat := 0
deriving Repr

/-- compare `want` with the `want.length` bytes of the file at `addr` -/
def diffAt (m : Img) (what : String) (addr : Nat) (want : Bytes) : Except String Unit :=
  let got := slice m addr want.length
  if got = want then .ok ()
  else
    let i := ((want.zip got).takeWhile fun (a, b) => a = b).length
    .error s!"{what}: byte {i} (file offset {addr + i}) encoder {want.getD i 0} file {got.getD i 0}"

def reencNode (m : Img) (s : Sblk) : Except String Nat := do
  let a := s.blk * bs
  let e := encSblk s.toSblkRec
  -- bytes `_sblk_sync_mm` writes: [0, n[lvl]] and [bpos, lk + lkl); the rest of the record is stale
  let l1 := Gen.SOFF_N0_U4 + 4 * (s.lvl + 1)
  diffAt m s!"node {s.blk} head" a (peek e 0 l1)
  diffAt m s!"node {s.blk} bpos/lk" (a + Gen.SOFF_BPOS_U1_V2) (peek e Gen.SOFF_BPOS_U1_V2 (Gen.SOFF_LK_V2 - Gen.SOFF_BPOS_U1_V2 + s.lkl))
  let ka := s.kblk * bs
  diffAt m s!"node {s.blk} data block {s.kblk} index" ka (encKvIndex (KvIndex.ofSlots s.szpow s.slots))
  if (KvIndex.ofSlots s.szpow s.slots).idxsz ≠ s.idxsz then throw s!"node {s.blk}: encoder index size"
  for (slot, (k, v)) in s.pi.zip s.recs do
    let (off, len) := s.slots.getD slot (0, 0)
    let e := encKv k v
    if e.length ≠ len then throw s!"node {s.blk} slot {slot}: encoder record length {e.length}, slot length {len}"
    diffAt m s!"node {s.blk} slot {slot}" (ka + 2 ^ s.szpow - off) e
  return s.recs.length

def reenc (m : Img) (f : FileImg) : Except String ReencCounts := do
  diffAt m "allocator header" 0 (encFsmHdr f.fsm)
  let mut c : ReencCounts := {}
  for d in f.dbs do
    diffAt m s!"database block {d.blk}" (d.blk * bs) (encDbHdr d.toDbHdr)
    c := { c with dbs := c.dbs + 1 }
    for s in d.nodes do
      let n ← reencNode m s
      c := { c with nodes := c.nodes + 1, idx := c.idx + 1, recs := c.recs + n }
  return c

end IwModel.Format
