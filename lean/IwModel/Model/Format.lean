import IwModel.Model.KvApi
/-! An independent reader of the iwkv file format (src/kv/data-format.txt, iwkv_internal.h,
iwfsmfile.c header) and the well-formedness audit of property C06.

`parse` walks a file image the way a foreign tool would: allocator header, KV header, database
chain, the level-0 node chain of every database, every node record and its data block.
`audit` then checks the structure the property names: links of every level against the level-0
chain, back links and per-level counters, node contents (non-empty, sorted, globally ordered, cached
lowest-key prefix), slot geometry inside data blocks, and the allocation ledger: the set of blocks
marked in the free-space bitmap equals exactly the blocks occupied by header, bitmap, database
blocks, metadata blocks, node pages in use and data blocks. -/
namespace IwModel.Format
open IwModel

abbrev Img := ByteArray

def byteAt (m : Img) (i : Nat) : Nat := if h : i < m.size then (m[i]'h).toNat else 0

def leAt (m : Img) (off width : Nat) : Nat :=
  (List.range width).foldr (fun i acc => byteAt m (off + i) + 256 * acc) 0

def slice (m : Img) (off len : Nat) : Bytes := (List.range len).map fun i => byteAt m (off + i)

def inFile (m : Img) (off len : Nat) : Bool := off + len ≤ m.size

/-- variable-length number at `off`: (value, bytes consumed) -/
def vnumAt (m : Img) (off : Nat) : Option (Nat × Nat) := Vnum.dec (slice m off 10)

structure FsmHdr where
  bpow : Nat
  bmoff : Nat
  bmlen : Nat
  hdrlen : Nat
deriving Repr

structure Sblk where
  blk : Nat              -- block number of the node record
  flags : Nat
  lvl : Nat
  lkl : Nat
  pnum : Nat
  p0 : Nat
  kblk : Nat
  pi : List Nat          -- first `pnum` slot numbers
  n : List Nat           -- next links, levels 0..lvl
  bpos : Nat
  lk : Bytes
  -- data block
  szpow : Nat
  idxsz : Nat
  slots : List (Nat × Nat)             -- 32 (off, len) pairs
  recs : List (Bytes × Bytes)          -- (stored key, value) in `pi` order
deriving Repr

structure DbImg where
  blk : Nat
  flags : Nat
  id : Nat
  next : Nat
  p0 : Nat
  n : List Nat           -- 24 head links
  c : List Nat           -- 24 per-level counters
  metaBlk : Nat
  metaBlkn : Nat
  nodes : List Sblk      -- level-0 chain
deriving Repr

structure FileImg where
  fsm : FsmHdr
  size : Nat
  firstDb : Nat
  dbs : List DbImg
deriving Repr

def bs : Nat := 2 ^ Gen.IWKV_FSM_BPOW       -- block size of the KV layer (128)

def fsmMagic : Nat := Gen.IWFSM_MAGICK
def kvMagic : Nat := Gen.IWKV_MAGIC
def dbMagic : Nat := Gen.IWDB_MAGIC
def fsmHdrSize : Nat := Gen.IWFSM_CUSTOM_HDR_DATA_OFFSET

def parseFsm (m : Img) : Except String FsmHdr :=
  if !inFile m 0 fsmHdrSize then .error "file shorter than the allocator header"
  else if leAt m 0 4 ≠ fsmMagic then .error "bad allocator magic"
  else .ok { bpow := byteAt m 4, bmoff := leAt m 5 8, bmlen := leAt m 13 8, hdrlen := leAt m 73 4 }

/-- one key/value pair of a data block: `[klen:vn, key, value]`, `len` bytes long -/
def parseKv (m : Img) (at_ len : Nat) : Except String (Bytes × Bytes) :=
  match vnumAt m at_ with
  | none => .error "unterminated key length"
  | some (klen, st) =>
    if st + klen > len then .error s!"key of {klen} bytes does not fit its {len}-byte slot"
    else .ok (slice m (at_ + st) klen, slice m (at_ + st + klen) (len - st - klen))

/-- the 32 (offset, length) index pairs of a data block starting at `pos` -/
def parseIdx (m : Img) : Nat → Nat → List (Nat × Nat) → Except String (List (Nat × Nat) × Nat)
  | 0, pos, acc => .ok (acc.reverse, pos)
  | k + 1, pos, acc =>
    match vnumAt m pos with
    | none => .error "bad slot offset"
    | some (off, s1) =>
      match vnumAt m (pos + s1) with
      | none => .error "bad slot length"
      | some (len, s2) => parseIdx m k (pos + s1 + s2) ((off, len) :: acc)

def parseSblk (m : Img) (blk : Nat) : Except String Sblk := do
  let a := blk * bs
  if !inFile m a Gen.SBLK_SZ then throw s!"node record {blk} outside the file"
  let lvl := byteAt m (a + Gen.SOFF_LVL_U1)
  let lkl := byteAt m (a + Gen.SOFF_LKL_U1)
  let pnum := byteAt m (a + Gen.SOFF_PNUM_U1)
  if lvl ≥ Gen.SLEVELS then throw s!"node {blk}: level {lvl}"
  if lkl > Gen.PREFIX_KEY_LEN_V2 then throw s!"node {blk}: lkl {lkl}"
  if pnum > Gen.KVBLK_IDXNUM then throw s!"node {blk}: pnum {pnum}"
  let kblk := leAt m (a + Gen.SOFF_KBLK_U4) 4
  let ka := kblk * bs
  if !inFile m ka Gen.KVBLK_HDRSZ then throw s!"node {blk}: data block {kblk} outside the file"
  let szpow := byteAt m ka
  let idxsz := leAt m (ka + 1) 2
  if szpow > 40 ∨ !inFile m ka (2 ^ szpow) then throw s!"node {blk}: data block of 2^{szpow} bytes outside the file"
  let (slots, endPos) ← parseIdx m Gen.KVBLK_IDXNUM (ka + Gen.KVBLK_HDRSZ) []
  if endPos - (ka + Gen.KVBLK_HDRSZ) ≠ idxsz then throw s!"node {blk}: index size field {idxsz} but index occupies {endPos - (ka + Gen.KVBLK_HDRSZ)}"
  let pi := slice m (a + Gen.SOFF_PI0_U1) pnum
  let recs ← pi.mapM fun s =>
    match slots[s]? with
    | none => throw s!"node {blk}: slot number {s}"
    | some (off, len) =>
      if len = 0 ∨ off = 0 ∨ off > 2 ^ szpow then throw s!"node {blk}: slot {s} is empty or outside (off {off} len {len})"
      else parseKv m (ka + 2 ^ szpow - off) len
  return { blk, flags := byteAt m (a + Gen.SOFF_FLAGS_U1), lvl, lkl, pnum, p0 := leAt m (a + Gen.SOFF_P0_U4) 4, kblk, pi,
           n := (List.range (lvl + 1)).map fun i => leAt m (a + Gen.SOFF_N0_U4 + 4 * i) 4,
           bpos := byteAt m (a + Gen.SOFF_BPOS_U1_V2), lk := slice m (a + Gen.SOFF_LK_V2) lkl,
           szpow, idxsz, slots, recs }

def parseChain (m : Img) : Nat → Nat → List Sblk → Except String (List Sblk)
  | 0, blk, _ => if blk = 0 then .ok [] else .error "level-0 chain longer than the file can hold (cycle?)"
  | fuel + 1, blk, acc =>
    if blk = 0 then .ok acc.reverse
    else do
      let s ← parseSblk m blk
      match s.n with
      | nx :: _ => parseChain m fuel nx (s :: acc)
      | [] => .error "node without links"

def parseDb (m : Img) (blk : Nat) : Except String DbImg := do
  let a := blk * bs
  if !inFile m a Gen.DOFF_END then throw s!"database block {blk} outside the file"
  if leAt m a 4 ≠ dbMagic then throw s!"database block {blk}: bad magic"
  let n := (List.range Gen.SLEVELS).map fun i => leAt m (a + Gen.DOFF_N0_U4 + 4 * i) 4
  let nodes ← parseChain m (m.size / Gen.SBLK_SZ + 1) (n.headD 0) []
  return { blk, flags := byteAt m (a + Gen.DOFF_DBFLG_U1), id := leAt m (a + Gen.DOFF_DBID_U4) 4,
           next := leAt m (a + Gen.DOFF_NEXTDB_U4) 4, p0 := leAt m (a + Gen.DOFF_P0_U4) 4, n,
           c := (List.range Gen.SLEVELS).map fun i => leAt m (a + Gen.DOFF_C0_U4 + 4 * i) 4,
           metaBlk := leAt m (a + Gen.DOFF_METABLK_U4) 4, metaBlkn := leAt m (a + Gen.DOFF_METABLKN_U4) 4, nodes }

def parseDbs (m : Img) : Nat → Nat → List DbImg → Except String (List DbImg)
  | 0, blk, acc => if blk = 0 then .ok acc.reverse else .error "database chain too long (cycle?)"
  | fuel + 1, blk, acc =>
    if blk = 0 then .ok acc.reverse
    else do
      let d ← parseDb m blk
      parseDbs m fuel d.next (d :: acc)

def parse (m : Img) : Except String FileImg := do
  let fsm ← parseFsm m
  if fsm.bpow ≠ Gen.IWKV_FSM_BPOW then throw s!"block size 2^{fsm.bpow}"
  if !inFile m fsmHdrSize 12 then throw "no KV header"
  if leAt m fsmHdrSize 4 ≠ kvMagic then throw "bad KV magic"
  let first := leAt m (fsmHdrSize + 4) 8
  if first % bs ≠ 0 then throw "first database address not block aligned"
  let dbs ← parseDbs m (m.size / Gen.DB_SZ + 1) (first / bs) []
  return { fsm, size := m.size, firstDb := first / bs, dbs }

/-! ### Audit -/

def ekeyOf (flags : Nat) (stored : Bytes) : Option KvApi.EKey :=
  if KvApi.isCompound flags then
    match Vnum.dec stored with
    | some (c, st) => if st < stored.length then some (stored.drop st, c) else none
    | none => none
  else some (stored, 0)

/-- subsequence of the level-0 chain holding the nodes of level `≥ i`, as block numbers -/
def levelChain (nodes : List Sblk) (i : Nat) : List Nat := (nodes.filter (·.lvl ≥ i)).map (·.blk)

/-- follow `n[i]` links from `start` through the parsed nodes -/
def followLevel (nodes : List Sblk) (i : Nat) : Nat → Nat → List Nat
  | 0, _ => []
  | fuel + 1, blk =>
    if blk = 0 then [] else
    match nodes.find? (·.blk = blk) with
    | some s => blk :: followLevel nodes i fuel (s.n.getD i 0)
    | none => [blk]      -- dangling: shows up as a mismatch

def rangeBlocks (off len : Nat) : List Nat := (List.range len).map (· + off)

def checkSlots (s : Sblk) : Option String :=
  let size := 2 ^ s.szpow
  let used := (s.slots.zipIdx.filter fun ((_, len), _) => len ≠ 0)
  let bad := used.find? fun ((off, len), _) => off = 0 ∨ off > size - (Gen.KVBLK_HDRSZ + s.idxsz) ∨ len > off
  match bad with
  | some ((off, len), i) => some s!"node {s.blk}: slot {i} (off {off}, len {len}) leaves the data area of its 2^{s.szpow}-byte block"
  | none =>
    -- pairwise disjoint: sort by offset descending start = size - off
    let ivs := used.map fun ((off, len), _) => (size - off, size - off + len)
    let overl := ivs.zipIdx.find? fun (iv, i) => ivs.zipIdx.any fun (jv, j) => i < j ∧ iv.1 < jv.2 ∧ jv.1 < iv.2
    match overl with
    | some (iv, _) => some s!"node {s.blk}: overlapping slots at {iv.1}"
    | none =>
      if s.pi.eraseDups.length ≠ s.pi.length then some s!"node {s.blk}: a slot is referenced twice"
      else if used.length ≠ s.pnum then some s!"node {s.blk}: {used.length} used slots but pnum {s.pnum}"
      else none

def checkDb (d : DbImg) : List String := Id.run do
  let mut errs : List String := []
  let gt := KvApi.gtE d.flags
  let nodes := d.nodes
  -- levels
  for i in List.range Gen.SLEVELS do
    let want := levelChain nodes i
    let got := followLevel nodes i (nodes.length + 2) (d.n.getD i 0)
    if want ≠ got then errs := errs ++ [s!"db {d.id}: level {i} chain {got} but nodes of level >= {i} are {want}"]
    let cnt := (nodes.filter (·.lvl = i)).length
    if d.c.getD i 0 ≠ cnt then errs := errs ++ [s!"db {d.id}: counter of level {i} is {d.c.getD i 0}, nodes with that level: {cnt}"]
  -- back links
  let blks := nodes.map (·.blk)
  let prevs := d.blk :: blks
  for (s, p) in nodes.zip prevs do
    if s.p0 ≠ p then errs := errs ++ [s!"db {d.id}: node {s.blk} back link {s.p0}, predecessor is {p}"]
  -- tail link: the last node; an empty chain is written as 0 or as the database block itself
  let tailOk := match blks.getLast? with
    | some b => d.p0 = b
    | none => d.p0 = 0 ∨ d.p0 = d.blk
  if !tailOk then errs := errs ++ [s!"db {d.id}: tail link {d.p0}, last node is {blks.getLast?.getD 0}"]
  -- node contents
  let mut prevKey : Option KvApi.EKey := none
  for s in nodes do
    if s.pnum = 0 then errs := errs ++ [s!"db {d.id}: node {s.blk} is empty"]
    if s.bpos = 0 ∨ s.bpos > Gen.SBLK_PAGE_SBLK_NUM_V2 then errs := errs ++ [s!"db {d.id}: node {s.blk} page slot {s.bpos}"]
    match checkSlots s with
    | some e => errs := errs ++ [e]
    | none => pure ()
    match s.recs.head? with
    | some (k, _) =>
      let lk := k.take Gen.PREFIX_KEY_LEN_V2
      if s.lk ≠ lk then errs := errs ++ [s!"db {d.id}: node {s.blk} cached key is not the prefix of its first key"]
      if (s.flags % 2 = 1) ≠ (k.length ≤ Gen.PREFIX_KEY_LEN_V2) then errs := errs ++ [s!"db {d.id}: node {s.blk} full-key flag wrong"]
    | none => pure ()
    for (k, _) in s.recs do
      match ekeyOf d.flags k with
      | none => errs := errs ++ [s!"db {d.id}: node {s.blk} holds a malformed key"]
      | some ek =>
        match prevKey with
        | some pk => if !(gt pk ek) then errs := errs ++ [s!"db {d.id}: node {s.blk}: keys out of order"]
        | none => pure ()
        prevKey := some ek
  return errs

def bitSet (m : Img) (bmoff : Nat) (blk : Nat) : Bool := byteAt m (bmoff + blk / 8) / 2 ^ (blk % 8) % 2 = 1

/-- blocks the structures occupy -/
def ownedBlocks (f : FileImg) : List Nat :=
  let hdrBlocks := (f.fsm.hdrlen + bs - 1) / bs
  let hdr := rangeBlocks 0 hdrBlocks
  let bm := rangeBlocks (f.fsm.bmoff / bs) ((f.fsm.bmlen + bs - 1) / bs)
  let perDb := f.dbs.flatMap fun d =>
    let pages := (d.nodes.map fun s => s.blk - (s.bpos - 1) * (Gen.SBLK_SZ / bs)).eraseDups
    rangeBlocks d.blk (Gen.DB_SZ / bs) ++ rangeBlocks d.metaBlk d.metaBlkn ++
      pages.flatMap (fun p => rangeBlocks p (Gen.SBLK_PAGE_SBLK_NUM_V2 * Gen.SBLK_SZ / bs)) ++
      d.nodes.flatMap (fun s => rangeBlocks s.kblk (2 ^ s.szpow / bs))
  hdr ++ bm ++ perDb

def checkLedger (m : Img) (f : FileImg) : List String :=
  let owned := ownedBlocks f
  let sorted := owned.toArray.qsort (· < ·) |>.toList
  let dup := (sorted.zip (sorted.drop 1)).find? fun (a, b) => a = b
  let nblocks := f.fsm.bmlen * 8
  let marked := (List.range nblocks).filter (bitSet m f.fsm.bmoff)
  let e1 := match dup with | some (a, _) => [s!"block {a} belongs to two structures"] | none => []
  let e2 := match sorted.find? (fun b => !(bitSet m f.fsm.bmoff b)) with
    | some b => [s!"block {b} is used by a structure but free in the bitmap"] | none => []
  let ownedA := sorted.toArray
  let e3 := match marked.find? (fun b => !(ownedA.binSearchContains b (· < ·))) with
    | some b => [s!"block {b} is marked allocated but belongs to no structure (leak)"] | none => []
  e1 ++ e2 ++ e3

def audit (m : Img) : Except String (FileImg × List String) := do
  let f ← parse m
  let ids := f.dbs.map (·.id)
  let e0 := if ids.eraseDups.length ≠ ids.length then ["two databases share an id"] else []
  return (f, e0 ++ f.dbs.flatMap checkDb ++ checkLedger m f)

/-- contents as the `dump` op prints them -/
def dumpDb (d : DbImg) : String :=
  "dump" ++ String.join (d.nodes.flatMap (·.recs) |>.map fun (k, v) =>
    match ekeyOf d.flags k with
    | some ek => s!" {KvApi.pkey d.flags ek}={KvApi.pval v}"
    | none => " ?")

def metaOf (m : Img) (d : DbImg) (n : Nat) : Bytes := slice m (d.metaBlk * bs) (min n (d.metaBlkn * bs))

end IwModel.Format
