import IwModel.Model.Bytes
/-! `iwstrtod` of src/utils/iwconv.c mirrored with Lean `Float` (IEEE-754 binary64, the same libm `pow`),
operation by operation, so that the executable model yields the same bit pattern as the C code, rounding
errors included. Used by the driver only: theorems treat doubles as opaque bit patterns. -/
namespace IwModel.Json

def isSpaceC (c : Nat) : Bool := c = 32 ∨ (9 ≤ c ∧ c ≤ 13)
def isDigitC (c : Nat) : Bool := 48 ≤ c ∧ c ≤ 57

/-- `2.2250738585072011`, `2.2250738585072012`, `1.0e-308` as the compiler reads them -/
def dMinA : Float := Float.ofBits 0x4001ccf385ebc89f
def dMinB : Float := Float.ofBits 0x4001ccf385ebc8a0
def d1em308 : Float := Float.ofBits 0x000730d67819e8d2
def dTenth : Float := Float.ofBits 0x3fb999999999999a

/-- `iwstrtod(str, &end)`: (result, `end - str`, whether `errno` was set to ERANGE).
    `pow` reports a range error when the result overflows to infinity or underflows to zero. -/
def iwstrtod (str : Bytes) : Float × Nat × Bool := Id.run do
  let s := str.toArray
  let ch (i : Nat) : Nat := s.getD i 0
  let mut p := 0
  while isSpaceC (ch p) do p := p + 1
  let mut a := 0
  let mut sign : Float := 1.0
  if ch p = 45 then
    sign := -1.0
    p := p + 1
  else if ch p = 43 then
    p := p + 1
  let mut d : Float := 0.0
  if isDigitC (ch p) then
    d := Float.ofNat (ch p - 48)
    p := p + 1
    while isDigitC (ch p) do
      d := d * 10.0 + Float.ofNat (ch p - 48)
      p := p + 1
    a := p
  else if ch p ≠ 46 then
    return (d, a, false)
  d := d * sign
  if ch p = 46 then
    let mut f : Float := 0.0
    let mut base : Float := dTenth
    p := p + 1
    while isDigitC (ch p) do
      f := f + base * Float.ofNat (ch p - 48)
      base := base / 10.0
      p := p + 1
    d := d + f * sign
    a := p
  if ch p = 69 ∨ ch p = 101 then
    let mut e : Int := 0
    p := p + 1
    let mut esign : Int := 1
    if ch p = 45 then
      esign := -1
      p := p + 1
    else if ch p = 43 then
      p := p + 1
    if isDigitC (ch p) then
      while ch p = 48 do p := p + 1
      if !isDigitC (ch p) then p := p - 1
      e := (ch p : Int) - 48
      p := p + 1
      while isDigitC (ch p) do
        if e < 100000 then e := e * 10 + ((ch p : Int) - 48)
        p := p + 1
      e := e * esign
    else if !isDigitC (ch (a - 1)) then
      return (d, 0, false)
    else if ch p = 0 then
      return (d, a, false)
    if d == dMinA && e == -308 then
      return (0.0, p, true)
    if d == dMinB && e ≤ -308 then
      return (d * d1em308, p, false)
    let pw := Float.pow 10.0 (Float.ofInt e)
    let erange := pw.isInf || pw == 0.0
    d := d * pw
    a := p
    return (d, a, erange)
  else if p > 0 ∧ !isDigitC (ch (p - 1)) then
    return (d, 0, false)
  return (d, a, false)

/-- the `sd` parameter of the parser model -/
def strtodBits (str : Bytes) : Nat × Nat × Bool :=
  let (d, n, er) := iwstrtod str
  (d.toBits.toNat, n, er)

end IwModel.Json
