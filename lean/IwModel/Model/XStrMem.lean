import IwModel.Model.XStr
import IwModel.Model.Arr
/-!
Memory-level model of `src/utils/iwxstr.c`, statement by statement: the heap buffer is a list of `asize`
cells, every `memcpy / memmove / ptr[i] = 0` is **bounds-instrumented** (`Arr.blit`, `Arr.poke`, `copyIn`): an
access outside the allocation - or a read past the end of the source buffer - makes the call `none`, which is
what ASan reports on the implementation.  `realloc` keeps the common prefix and leaves `junk` in new cells.

The formatted-print functions are modelled down to the 1024-byte stack buffer: `vsnprintf(buf, cap, …)` leaves
`min len (cap-1)` bytes plus a NUL in a buffer of `cap` cells and returns the full length `len`; what the
format produces (`out`) is libc's business and a parameter here.

`Props/C18` proves that every function here is fault free and equals the abstract `XStr` function on
`(data, asize, term)`; the abstract model is the one `drv c18` prints, except for the print functions, which the
driver runs through `printfBytes` below.
-/
namespace IwModel.XStr
open Arr

structure XMem where
  /-- `ptr[0 .. asize)` -/
  mem : Bytes
  size : Nat
  deriving Repr

namespace XMem

def asize (x : XMem) : Nat := x.mem.length

/-- what the API shows -/
def data (x : XMem) : Bytes := x.mem.take x.size
/-- is the byte after the data a NUL -/
def term (x : XMem) : Bool := x.mem[x.size]? = some 0
/-- the abstract state (user data aside) -/
def abs (x : XMem) : XStr := { data := x.data, asize := x.asize, term := x.term }

end XMem

/-- `iwxstr_create`: `malloc(siz)`, `ptr[0] = 0` -/
def mcreate (junk : Nat) (siz : Nat) : Option XMem :=
  (poke (List.replicate (if siz = 0 then AUNIT else siz) junk) 0 0).map fun m => { mem := m, size := 0 }

/-- `iwxstr_wrap(buf, size, asize)`: the caller's buffer holds `b` in `asize` cells (at least `size`); it is
reallocated to `size + 1` when there is no room for the terminator -/
def mwrap (junk : Nat) (b : Bytes) (asize : Nat) : Option XMem :=
  let buf := b ++ List.replicate (asize - b.length) junk
  let mem := if b.length ≥ asize then realloc junk buf (b.length + 1) else buf
  (poke mem b.length 0).map fun m => { mem := m, size := b.length }

/-- `iwxstr_clone`: a new buffer of `asize` cells, the data copied, terminator stored (fixed code) -/
def mclone (junk : Nat) (x : XMem) : Option XMem :=
  (if x.size ≠ 0 then copyIn' (List.replicate x.mem.length junk) x.mem x.size else some (List.replicate x.mem.length junk)).bind fun m =>
    (poke m x.size 0).map fun m' => { mem := m', size := x.size }
where
  /-- `memcpy(dst, src, n)` from offset 0 to offset 0 -/
  copyIn' (dst src : Bytes) (n : Nat) : Option Bytes :=
    if n ≤ src.length ∧ n ≤ dst.length then some (src.take n ++ dst.drop n) else none

/-- `memcpy(mem + dst, src, n)`; `none` when the destination range leaves `mem` or more than `src` holds is read -/
def copyIn (mem : Bytes) (dst : Nat) (src : Bytes) (n : Nat) : Option Bytes :=
  if n = 0 then some mem
  else if n ≤ src.length ∧ dst + n ≤ mem.length then some (mem.take dst ++ src.take n ++ mem.drop (dst + n))
  else none

/-- the `if (asize < nsize) { while … ; realloc }` block shared by cat / set_size / unshift / insert -/
def ensure (junk : Nat) (mem : Bytes) (nsize : Nat) : Bytes :=
  if mem.length < nsize then realloc junk mem (grow mem.length nsize) else mem

/-- `iwxstr_cat(xstr, buf, size)`: `buf` is the whole source buffer, `n` the byte count passed -/
def mcat (junk : Nat) (x : XMem) (buf : Bytes) (n : Nat) : Option XMem :=
  let mem := ensure junk x.mem (x.size + n + 1)
  (copyIn mem x.size buf n).bind fun m =>
    (poke m (x.size + n) 0).map fun m' => { mem := m', size := x.size + n }

/-- `iwxstr_unshift` -/
def munshift (junk : Nat) (x : XMem) (buf : Bytes) (n : Nat) : Option XMem :=
  let mem := ensure junk x.mem (x.size + n + 1)
  (if x.size ≠ 0 then blit mem n 0 x.size else some mem).bind fun m =>
    (copyIn m 0 buf n).bind fun m' =>
      (poke m' (x.size + n) 0).map fun m'' => { mem := m'', size := x.size + n }

/-- `iwxstr_shift` -/
def mshift (x : XMem) (n0 : Nat) : Option XMem :=
  if n0 = 0 then some x
  else
    let n := if n0 > x.size then x.size else n0
    (if x.size > n then blit x.mem 0 n (x.size - n) else some x.mem).bind fun m =>
      (poke m (x.size - n) 0).map fun m' => { mem := m', size := x.size - n }

/-- `iwxstr_pop` -/
def mpop (x : XMem) (n0 : Nat) : Option XMem :=
  if n0 = 0 then some x
  else
    let n := if n0 > x.size then x.size else n0
    (poke x.mem (x.size - n) 0).map fun m => { mem := m, size := x.size - n }

/-- `iwxstr_insert`: `(x, false)` = IW_ERROR_OUT_OF_BOUNDS; the NUL after the data is moved along, not stored -/
def minsert (junk : Nat) (x : XMem) (pos : Nat) (buf : Bytes) (n : Nat) : Option (XMem × Bool) :=
  if pos > x.size then some (x, false)
  else if n = 0 then some (x, true)
  else
    let mem := ensure junk x.mem (x.size + n + 1)
    (blit mem (pos + n) pos (x.size - pos + 1)).bind fun m =>
      (copyIn m pos buf n).map fun m' => ({ mem := m', size := x.size + n }, true)

/-- `iwxstr_clear` -/
def mclear (x : XMem) : Option XMem := (poke x.mem 0 0).map fun m => { mem := m, size := 0 }

/-- `iwxstr_set_size` -/
def msetSize (junk : Nat) (x : XMem) (n : Nat) : XMem := { mem := ensure junk x.mem (n + 1), size := n }

/-! ### `iwxstr_printf_va` / `iwxstr_insert_vaprintf` -/

/-- size of the stack buffer `char buf[1024]` -/
def PRINTF_BUF : Nat := 1024

/-- `vsnprintf(buf, cap, fmt, va)` when the format produces `out`: the buffer afterwards, the value returned -/
def vsnprintf (junk : Nat) (cap : Nat) (out : Bytes) : Bytes × Nat :=
  (if cap = 0 then [] else
     let k := min out.length (cap - 1)
     out.take k ++ [0] ++ List.replicate (cap - 1 - k) junk,
   out.length)

/-- the source buffer and the length that `iwxstr_printf_va` / `iwxstr_insert_vaprintf` hand on to
`iwxstr_cat` / `iwxstr_insert`: the stack buffer when `len < sizeof(buf)`, else a heap buffer of `len + 1`
bytes filled by the second `vsnprintf` -/
def printfSource (junk : Nat) (out : Bytes) : Bytes × Nat :=
  let (buf, len) := vsnprintf junk PRINTF_BUF out
  if len ≥ PRINTF_BUF then
    let (wp, len2) := vsnprintf junk (len + 1) out
    (wp, len2)
  else (buf, len)

/-- `iwxstr_printf_va` on the memory-level state -/
def mprintf (junk : Nat) (x : XMem) (out : Bytes) : Option XMem :=
  let (wp, len) := printfSource junk out
  mcat junk x wp len

/-- `iwxstr_insert_vaprintf` on the memory-level state -/
def minsertPrintf (junk : Nat) (x : XMem) (pos : Nat) (out : Bytes) : Option (XMem × Bool) :=
  let (wp, len) := printfSource junk out
  minsert junk x pos wp len

/-- the bytes that reach the string (`len` bytes read from `wp`); `none` = the read leaves the buffer.
`drv c18` appends / inserts exactly this, so a wrong boundary test in the C code shows up as a divergence. -/
def printfBytes (out : Bytes) : Option Bytes :=
  let (wp, len) := printfSource 0xAA out
  if len ≤ wp.length then some (wp.take len) else none

end IwModel.XStr
