import IwModel.Model.KvApi
/-! The *reference map* of property C01, at the level of the public API.

A store is a list of databases; a database is its flags word, its metadata and ONE association
list of (effective key, value), strictly descending under the comparator of the database
(`Kv.specGet/specPut/specDel` of `Model/Kv.lean`: lookup, insert-or-replace and removal in a sorted
list — proved to be an ordered map in `Props/C01.lean` §1 and `store_map_laws`). No nodes, no levels,
no cursors. Every operation returns the canonical result line the harness prints for the real call,
built with the same printers as `Model/KvApi.lean` (`putLine`, `pval`, `keyErrName`).

This file mirrors `checks/kvgen.py` `Ref.apply`, the python reference of the differential run, case
by case. `Props/C01.lean` §6 proves that `KvApi` (the node-level model that is diffed against the C
code) returns exactly these lines and holds exactly these contents, for every history. -/
namespace IwModel.KvApiSpec
open IwModel Kv KvApi

/-- one database of the reference: flags, metadata, sorted records -/
structure SpecDb where
  flags : Nat
  mdata : Bytes
  recs : List (EKey × Bytes)
deriving Repr, DecidableEq

/-- the reference store: (database id, database) in creation order, and the read-only flag of the
    current open -/
structure SpecStore where
  dbs : List (Nat × SpecDb)
  readonly : Bool
deriving Repr, DecidableEq

def SpecStore.empty : SpecStore := ⟨[], false⟩

def sgetDb (s : SpecStore) (id : Nat) : Option SpecDb := (s.dbs.find? (·.1 = id)).map (·.2)

def ssetDb (s : SpecStore) (id : Nat) (d : SpecDb) : SpecStore :=
  { s with dbs := s.dbs.map fun (i, x) => if i = id then (i, d) else (i, x) }

/-- value stored under `k`, if any -/
def SpecDb.lookup (d : SpecDb) (k : EKey) : Option Bytes := specGet (gtE d.flags) d.recs k

/-- insert or replace -/
def SpecDb.insert (d : SpecDb) (k : EKey) (v : Bytes) : SpecDb := { d with recs := specPut (gtE d.flags) d.recs k v }

def SpecDb.erase (d : SpecDb) (k : EKey) : SpecDb := { d with recs := specDel (gtE d.flags) d.recs k }

/-- `iwkv_puth` on the reference. `opflags`: `IWKV_NO_OVERWRITE`, `IWKV_VAL_INCREMENT` (the stored
    value decides the width, the 4- or 8-byte operand is read signed: `KvApi.increment`; increment
    wins over no-overwrite; on an absent key the operand is stored as it is). `ph`: 0 no put handler,
    1 accepting handler (is shown the old value), 2 refusing handler. -/
def sputR (s : SpecStore) (id : Nat) (key : Bytes) (comp : Nat) (val : Bytes) (opflags ph : Nat) : SpecStore × PutRes :=
  match sgetDb s id with
  | none => (s, .nodb)
  | some d =>
    if key.isEmpty then (s, .emptyKey)
    else if s.readonly then (s, .readonly)
    else
    match toEffective d.flags key comp with
    | .error e => (s, .keyErr e)
    | .ok ek =>
      let inc := hasFlag opflags Gen.IWKV_VAL_INCREMENT
      match d.lookup ek with
      | some ov =>
        if hasFlag opflags Gen.IWKV_NO_OVERWRITE && !inc then (s, .exists_)
        else
          match (if inc then increment ov val else some val) with
          | none => (s, .cannotinc)
          | some nv =>
            if ph = 2 then (s, .rejected (some ov))
            else (ssetDb s id (d.insert ek nv), .ok (some ov))
      | none =>
        if ph = 2 then (s, .rejected none)
        else (ssetDb s id (d.insert ek val), .ok none)

def sput (s : SpecStore) (id : Nat) (key : Bytes) (comp : Nat) (val : Bytes) (opflags ph : Nat) : SpecStore × String :=
  let r := sputR s id key comp val opflags ph
  (r.1, putLine ph r.2)

def sget (s : SpecStore) (id : Nat) (key : Bytes) (comp : Nat) : String :=
  match sgetDb s id with
  | none => "get invalid_args -"
  | some d =>
    match toEffective d.flags key comp with
    | .error e => s!"get {keyErrName e} -"
    | .ok ek =>
      match d.lookup ek with
      | some v => s!"get ok {pval v}"
      | none => "get notfound -"

/-- `iwkv_get_copy` into a buffer of `bufsz` bytes: full length and the bytes that fit -/
def sgetCopy (s : SpecStore) (id : Nat) (key : Bytes) (comp : Nat) (bufsz : Nat) : String :=
  match sgetDb s id with
  | none => "getc invalid_args 0 -"
  | some d =>
    match toEffective d.flags key comp with
    | .error e => s!"getc {keyErrName e} 0 -"
    | .ok ek =>
      match d.lookup ek with
      | some v => s!"getc ok {v.length} {pval (v.take bufsz)}"
      | none => "getc notfound 0 -"

def sdel (s : SpecStore) (id : Nat) (key : Bytes) (comp : Nat) : SpecStore × String :=
  match sgetDb s id with
  | none => (s, "del invalid_args")
  | some d =>
    if s.readonly then (s, "del readonly") else
    match toEffective d.flags key comp with
    | .error e => (s, s!"del {keyErrName e}")
    | .ok ek =>
      match d.lookup ek with
      | some _ => (ssetDb s id (d.erase ek), "del ok")
      | none => (s, "del notfound")

/-- `iwkv_db_set_meta` (an empty buffer is accepted and ignored) -/
def smetaSet (s : SpecStore) (id : Nat) (m : Bytes) : SpecStore × String :=
  match sgetDb s id with
  | none => (s, "mset invalid_args")
  | some d =>
    if s.readonly then (s, "mset readonly")
    else if m.isEmpty then (s, "mset ok") else (ssetDb s id { d with mdata := m }, "mset ok")

/-- `iwkv_db_get_meta` as the harness reports it: did at least min(known, bufsz) bytes come back, and
    the first min(returned, known) bytes (the store hands out whole 128-byte blocks) -/
def smetaGet (s : SpecStore) (id : Nat) (bufsz known : Nat) : String :=
  match sgetDb s id with
  | none => "mget invalid_args 0 -"
  | some d =>
    if bufsz = 0 ∨ d.mdata.isEmpty then s!"mget ok {if 0 ≥ min known bufsz then 1 else 0} -"
    else
      let blk := (d.mdata.length + 127) / 128 * 128
      let rsz := min bufsz blk
      s!"mget ok {if rsz ≥ min known bufsz then 1 else 0} {pval (d.mdata.take (min rsz known))}"

/-- `iwkv_db`: fetch (flags must match) or create -/
def sopenDb (s : SpecStore) (id flags : Nat) : SpecStore × String :=
  match sgetDb s id with
  | some d => if d.flags = flags then (s, "db ok") else (s, "db incompat")
  | none =>
    if s.readonly then (s, "db readonly")
    else ({ s with dbs := s.dbs ++ [(id, ⟨flags, [], []⟩)] }, "db ok")

def sdestroyDb (s : SpecStore) (id : Nat) : SpecStore × String :=
  match sgetDb s id with
  | none => (s, "dbdestroy invalid_args")
  | some _ => ({ s with dbs := s.dbs.filter (·.1 ≠ id) }, "dbdestroy ok")

/-! ### what the node-level store holds, seen as a reference store -/

/-- contents of one database of the node-level model: its chain of nodes read front to back -/
def absDb (d : DbSt) : SpecDb := ⟨d.flags, d.mdata, flatten d.db.nodes⟩

/-- the abstraction: forget node boundaries, levels and cursors -/
def absStore (s : Store) : SpecStore := ⟨s.dbs.map fun x => (x.1, absDb x.2), s.readonly⟩

/-! ### histories -/

/-- one call of the public API. `lvl` of a put is the level the skip-list generator draws for a node
    this put may create: the node-level model takes it, the reference ignores it. -/
inductive ApiOp where
  | put (id : Nat) (key : Bytes) (comp : Nat) (val : Bytes) (opflags lvl ph : Nat)
  | get (id : Nat) (key : Bytes) (comp : Nat)
  | getCopy (id : Nat) (key : Bytes) (comp : Nat) (bufsz : Nat)
  | del (id : Nat) (key : Bytes) (comp : Nat)
  | metaSet (id : Nat) (m : Bytes)
  | metaGet (id : Nat) (bufsz known : Nat)
  | openDb (id flags : Nat)
  | destroyDb (id : Nat)
  | reopen (readonly : Bool)        -- close and open again, read-only or not; contents persist
deriving Repr

def stepApi (s : Store) : ApiOp → Store × String
  | .put id key comp val fl lvl ph => KvApi.put s id key comp val fl lvl ph
  | .get id key comp => (s, KvApi.get s id key comp)
  | .getCopy id key comp bufsz => (s, KvApi.getCopy s id key comp bufsz)
  | .del id key comp => KvApi.del s id key comp
  | .metaSet id m => KvApi.metaSet s id m
  | .metaGet id bufsz known => (s, KvApi.metaGet s id bufsz known)
  | .openDb id flags => KvApi.openDb s id flags
  | .destroyDb id => KvApi.destroyDb s id
  | .reopen ro => ({ s with readonly := ro }, "open ok")

def stepSpecApi (s : SpecStore) : ApiOp → SpecStore × String
  | .put id key comp val fl _ ph => sput s id key comp val fl ph
  | .get id key comp => (s, sget s id key comp)
  | .getCopy id key comp bufsz => (s, sgetCopy s id key comp bufsz)
  | .del id key comp => sdel s id key comp
  | .metaSet id m => smetaSet s id m
  | .metaGet id bufsz known => (s, smetaGet s id bufsz known)
  | .openDb id flags => sopenDb s id flags
  | .destroyDb id => sdestroyDb s id
  | .reopen ro => ({ s with readonly := ro }, "open ok")

/-- run a history on the node-level model: final store and every result line -/
def runApi : Store → List ApiOp → Store × List String
  | s, [] => (s, [])
  | s, op :: ops => ((runApi (stepApi s op).1 ops).1, (stepApi s op).2 :: (runApi (stepApi s op).1 ops).2)

/-- run a history on the reference -/
def runSpecApi : SpecStore → List ApiOp → SpecStore × List String
  | s, [] => (s, [])
  | s, op :: ops =>
    ((runSpecApi (stepSpecApi s op).1 ops).1, (stepSpecApi s op).2 :: (runSpecApi (stepSpecApi s op).1 ops).2)

/-- the database a call addresses -/
def ApiOp.db : ApiOp → Option Nat
  | .put id .. | .get id .. | .getCopy id .. | .del id .. | .metaSet id .. | .metaGet id ..
  | .openDb id .. | .destroyDb id => some id
  | .reopen _ => none

/-- the first two words of a successful call's result line -/
def ApiOp.okWord : ApiOp → String
  | .put .. => "put ok" | .get .. => "get ok" | .getCopy .. => "getc ok" | .del .. => "del ok"
  | .metaSet .. => "mset ok" | .metaGet .. => "mget ok" | .openDb .. => "db ok"
  | .destroyDb .. => "dbdestroy ok" | .reopen _ => "open ok"

/-- the result line reports success (begins with `<op> ok`) -/
def lineOk (op : ApiOp) (line : String) : Prop := line.toList.take op.okWord.length = op.okWord.toList

end IwModel.KvApiSpec
