/-! # Task executors (`src/utils/iwstw.c`, `src/utils/iwtp.c`) as transition systems

One step = one critical section of one thread (from `pthread_mutex_lock` to the matching
`pthread_mutex_unlock` or `pthread_cond_wait`), plus the unlocked code that follows it up to the
thread's next lock.  The mutex is the atomicity boundary; the scheduler (`Label`) picks which thread
runs its next section, so the set of label sequences is the set of interleavings.

Condition variables: a waiting thread carries a flag "signalled".  `broadcast` sets the flag of every
waiter of that condition, `signal` of one waiter (chosen by the label).  A waiter can take its next
step only when the flag is set; `Label.spur` sets the flag without a broadcast (POSIX allows spurious
wake-ups).  Core Lean only. -/
namespace IwModel.Exec

abbrev Task := Nat

/-- results of the scheduling calls -/
inductive Rc | ok | invalidState | overflow
  deriving DecidableEq, Repr

/-- API calls a client thread can make -/
inductive Call
  | sched (t : Task)            -- iwstw_schedule / iwtp_schedule
  | only (t : Task)             -- iwstw_schedule_only
  | emptyOnly (t : Task)        -- iwstw_schedule_empty_only
  | shutdown (wait : Bool)      -- iwstw_shutdown / iwtp_shutdown
  deriving DecidableEq, Repr

/-- program counter of a worker thread -/
inductive WPc
  | init (registered : Bool)    -- iwtp only: first section looks the thread up in `tp->threads`
  | pop                         -- before the first lock of the loop body (take the head)
  | run (t : Task)              -- inside the task function, unlocked
  | check                       -- before the second lock of the loop body
  | wait (sig : Bool)           -- in pthread_cond_wait(&cond)
  | exited
  deriving DecidableEq, Repr

/-- program counter of a client thread -/
inductive CPc
  | idle
  | enter (c : Call)                   -- call started, before its first lock
  | blocked (t : Task) (sig : Bool)    -- iwstw_schedule in pthread_cond_wait(&cond_queue)
  | joining (k : Nat)                  -- shutdown: in pthread_join of worker number k
  deriving DecidableEq, Repr

inductive Th | worker (k : Nat) | client (i : Nat)
  deriving DecidableEq, Repr

/-- scheduler choices. `sel` picks the waiter woken by a `pthread_cond_signal` made in that step. -/
inductive Label
  | call (i : Nat) (c : Call)
  | step (th : Th) (sel : Nat)
  | spur (th : Th)
  deriving DecidableEq, Repr

/-- observable events of a step -/
inductive Ev
  | start (t : Task)
  | fin (t : Task)
  | discard (t : Task)                       -- discard callback invoked for t
  | ret (i : Nat) (rc : Rc) (flag : Bool)    -- call returned (flag = *out_scheduled)
  | block (i : Nat)                          -- client went to wait for room in the queue
  | join (i : Nat)                           -- client entered pthread_join of a worker
  | exit (k : Nat)                           -- worker thread function returned
  | spawn (k : Nat)                          -- pthread_create of a further thread (iwtp overflow)
  | bcast (queueCond : Bool)                 -- pthread_cond_broadcast
  | signal (woken : Option Nat)              -- pthread_cond_signal and the worker it woke
  | disabled                                 -- the thread cannot take a step now
  | busy                                     -- `call` for a thread that is inside a call
  | uaf (i : Nat)                            -- the thread would touch the executor after it was freed
  deriving DecidableEq, Repr

/-- the tasks passed to the discard callback during a step -/
def discardsOf (l : List Ev) : List Task :=
  l.filterMap fun e => match e with | .discard t => some t | _ => none

/-- which of the repairs made in /repo the model includes (all `true` = the tree the check runs on) -/
structure Variant where
  /-- iwstw_schedule re-tests `shutdown` after every wake-up from the full-queue wait -/
  recheckShutdown : Bool := true
  /-- the discard loops pass the removed task (not its successor) to the callback -/
  discardRemoved : Bool := true
  /-- iwtp_schedule refuses when `shutdown` is set -/
  tpCheckShutdown : Bool := true
  /-- iwtp_schedule adds the overflow thread it creates to `tp->threads` -/
  tpRegisterOverflow : Bool := true
  deriving DecidableEq, Repr

def Variant.fixed : Variant := {}

def setAt {α} (l : List α) (i : Nat) (x : α) : List α := l.set i x

/-- broadcast on the queue condition: every blocked client becomes signalled -/
def wakeClient : CPc → CPc
  | .blocked t _ => .blocked t true
  | c => c

/-- broadcast on the worker condition -/
def wakeWorker : WPc → WPc
  | .wait _ => .wait true
  | w => w

/-- a worker thread can take a step (it is not blocked in an unsignalled wait and has not returned) -/
def wEnabled : WPc → Bool
  | .wait false => false | .exited => false | _ => true

/-- a client thread can take a step; `exited k` tells whether the k-th thread of the join list has returned -/
def cEnabled (exited : Nat → Bool) : CPc → Bool
  | .idle => false | .enter _ => true | .blocked _ s => s | .joining k => exited k

/-! ## Single thread worker -/

structure Stw where
  v : Variant := {}
  limit : Nat
  blocking : Bool
  hasCb : Bool                 -- iwstw_set_on_task_discard was called
  queue : List Task := []
  cnt : Nat := 0
  queueBlocked : Bool := false
  shutdown : Bool := false
  freed : Bool := false
  w : WPc := .pop
  clients : List CPc
  -- history (ghost) variables
  accepted : List Task := []   -- tasks whose scheduling call returned success, in that order
  started : List Task := []
  finished : List Task := []
  dropped : List Task := []    -- removed from the queue without being run
  reported : List Task := []   -- passed to the discard callback
  crashed : Bool := false      -- NULL dereference in the unrepaired discard loop
  uaf : Bool := false          -- some thread touched the freed object
  deriving Repr

namespace Stw

def init (limit : Nat) (blocking hasCb : Bool) (nclients : Nat) (v : Variant := {}) : Stw :=
  { v, limit, blocking, hasCb, clients := List.replicate nclients .idle }

def client (s : Stw) (i : Nat) : CPc := s.clients.getD i .idle

def full (s : Stw) : Bool := s.limit != 0 && s.cnt + 1 > s.limit

/-- `if (queue_blocked && cnt < queue_limit) { queue_blocked = false; broadcast(cond_queue) }` -/
def unblock (s : Stw) : Stw × List Ev :=
  if s.queueBlocked && s.cnt < s.limit then
    ({ s with queueBlocked := false, clients := s.clients.map wakeClient }, [.bcast true])
  else (s, [])

def workerStep (s : Stw) : Stw × List Ev :=
  match s.w with
  | .init _ => ({ s with w := .pop }, [])
  | .pop =>
    match s.queue with
    | t :: q => ({ s with queue := q, cnt := s.cnt - 1, w := .run t, started := s.started ++ [t] }, [.start t])
    | [] => ({ s with w := .check }, [])
  | .run t => ({ s with w := .check, finished := s.finished ++ [t] }, [.fin t])
  | .check =>
    if s.queue ≠ [] then
      let (s', ev) := s.unblock
      ({ s' with w := .pop }, ev)
    else if s.shutdown then ({ s with w := .exited }, [.exit 0])
    else
      let (s', ev) := s.unblock
      ({ s' with w := .wait false }, ev)
  | .wait true => ({ s with w := .pop }, [])
  | .wait false => (s, [.disabled])
  | .exited => (s, [.disabled])

/-- what the discard loop reports for the queue `q` -/
def discardEvents (s : Stw) (q : List Task) : List Task × Bool :=
  if !s.hasCb then ([], false)
  else if s.v.discardRemoved then (q, false)
  else (q.drop 1, q ≠ [])     -- successor of every element, then NULL->fn

def ret (s : Stw) (i : Nat) (rc : Rc) (flag : Bool := false) : Stw × List Ev :=
  ({ s with clients := setAt s.clients i .idle }, [.ret i rc flag])

/-- append the task, `++cnt`, broadcast(cond), unlock, return 0 -/
def enqueue (s : Stw) (i : Nat) (t : Task) (flag : Bool := false) : Stw × List Ev :=
  let s := { s with queue := s.queue ++ [t], cnt := s.cnt + 1, w := wakeWorker s.w, accepted := s.accepted ++ [t] }
  let (s, ev) := s.ret i .ok flag
  (s, .bcast false :: ev)

/-- the `while (queue_limit && cnt + 1 > queue_limit)` loop of iwstw_schedule, entered with the mutex held -/
def schedLoop (s : Stw) (i : Nat) (t : Task) : Stw × List Ev :=
  if s.full then
    if s.blocking then
      if !s.v.recheckShutdown && s.shutdown then s.ret i .invalidState
      else ({ s with queueBlocked := true, clients := setAt s.clients i (.blocked t false) }, [.block i])
    else s.ret i .overflow
  else s.enqueue i t

def clientStep (s : Stw) (i : Nat) : Stw × List Ev :=
  match s.client i with
  | .idle => (s, [.disabled])
  | .joining _ =>
    if s.w = .exited then
      let (s, ev) := ({ s with freed := true } : Stw).ret i .ok
      (s, ev)
    else (s, [.disabled])
  | .blocked _ false => (s, [.disabled])
  | .blocked t true =>
    if s.freed then ({ s with uaf := true, clients := setAt s.clients i .idle }, [.uaf i])
    else if s.v.recheckShutdown && s.shutdown then s.ret i .invalidState
    else s.schedLoop i t
  | .enter c =>
    if s.freed then ({ s with uaf := true, clients := setAt s.clients i .idle }, [.uaf i])
    else match c with
    | .sched t =>
      if s.shutdown then s.ret i .invalidState else s.schedLoop i t
    | .only t =>
      if s.shutdown then s.ret i .invalidState
      else
        let (rep, crash) := s.discardEvents s.queue
        let s' := { s with dropped := s.dropped ++ s.queue, reported := s.reported ++ rep, crashed := s.crashed || crash,
                           queue := [t], cnt := 1, w := wakeWorker s.w, accepted := s.accepted ++ [t] }
        let (s', ev) := s'.ret i .ok
        (s', rep.map .discard ++ .bcast false :: ev)
    | .emptyOnly t =>
      if s.shutdown then s.ret i .invalidState
      else if s.queue ≠ [] then s.ret i .ok false
      else s.enqueue i t true
    | .shutdown wait =>
      if s.shutdown then s.ret i .ok
      else
        let (rep, crash) := if wait then ([], false) else s.discardEvents s.queue
        let s' := if wait then s else
          { s with dropped := s.dropped ++ s.queue, reported := s.reported ++ rep, crashed := s.crashed || crash,
                   queue := [], cnt := 0 }
        let s' := { s' with shutdown := true, w := wakeWorker s'.w,
                            clients := if s'.blocking then s'.clients.map wakeClient else s'.clients }
        ({ s' with clients := setAt s'.clients i (.joining 0) },
         rep.map .discard ++ .bcast false :: (if s'.blocking then [.bcast true, .join i] else [.join i]))

def step (s : Stw) : Label → Stw × List Ev
  | .call i c =>
    if i < s.clients.length then
      if s.client i = .idle then ({ s with clients := setAt s.clients i (.enter c) }, [])
      else (s, [.busy])
    else (s, [.disabled])
  | .step (.worker k) _ => if k = 0 then s.workerStep else (s, [.disabled])
  | .step (.client i) _ => s.clientStep i
  | .spur (.worker k) =>
    match s.w with
    | .wait _ => if k = 0 then ({ s with w := .wait true }, []) else (s, [.disabled])
    | _ => (s, [.disabled])
  | .spur (.client i) =>
    match s.client i with
    | .blocked t _ => ({ s with clients := setAt s.clients i (.blocked t true) }, [])
    | _ => (s, [.disabled])

def run (s : Stw) (ls : List Label) : Stw := ls.foldl (fun s l => (s.step l).1) s

/-- the thread can make a (non-spurious) move in this state -/
def enabled (s : Stw) : Th → Bool
  | .worker k => k == 0 && wEnabled s.w
  | .client i => cEnabled (fun _ => s.w == .exited) (s.client i)

/-- enabled threads: the worker, then clients by index -/
def enabledList (s : Stw) : List Th :=
  (if wEnabled s.w then [Th.worker 0] else []) ++
  ((List.range s.clients.length).filter fun i => s.enabled (.client i)).map Th.client

end Stw

/-! ## Thread pool -/

/-- indices of the threads blocked in pthread_cond_wait that no signal has reached yet -/
def waitersOf (ws : List WPc) : List Nat := (List.range ws.length).filter fun k => ws.getD k .exited = .wait false

/-- pthread_cond_signal: one of the unsignalled waiters (chosen by `sel`) becomes signalled -/
def signalOne (ws : List WPc) (sel : Nat) : List WPc × Option Nat :=
  let wl := waitersOf ws
  if wl = [] then (ws, none)
  else
    let k := wl.getD (sel % wl.length) 0
    (setAt ws k (.wait true), some k)

structure Tp where
  v : Variant := {}
  nthreads : Nat
  limit : Nat
  factor : Nat                 -- overflow_threads_factor
  queue : List Task := []
  qsize : Nat := 0
  busy : Nat := 0              -- num_threads_busy
  shutdown : Bool := false
  freed : Bool := false
  ws : List WPc                -- every thread started with _worker_fn, in creation order
  threads : List Nat           -- tp->threads: indices (into `ws`) of the registered threads
  joinlist : List Nat := []    -- copy of `threads` made by iwtp_shutdown
  clients : List CPc
  accepted : List Task := []
  started : List Task := []
  finished : List Task := []
  dropped : List Task := []
  uaf : Bool := false
  deriving Repr

namespace Tp

def init (nthreads limit factor nclients : Nat) (v : Variant := {}) : Tp :=
  { v, nthreads, limit, factor, ws := List.replicate nthreads (.init true), threads := List.range nthreads,
    clients := List.replicate nclients .idle }

def client (s : Tp) (i : Nat) : CPc := s.clients.getD i .idle
def worker (s : Tp) (k : Nat) : WPc := s.ws.getD k .exited

/-- indices of the workers blocked in pthread_cond_wait that no signal has reached yet -/
def waiters (s : Tp) : List Nat := waitersOf s.ws

def ret (s : Tp) (i : Nat) (rc : Rc) : Tp × List Ev :=
  ({ s with clients := setAt s.clients i .idle }, [.ret i rc false])

def workerStep (s : Tp) (k : Nat) : Tp × List Ev :=
  match s.worker k with
  | .init true => ({ s with ws := setAt s.ws k .pop }, [])
  | .init false => ({ s with ws := setAt s.ws k .exited }, [.exit k])   -- "should never be happen": not in tp->threads
  | .pop =>
    match s.queue with
    | t :: q => ({ s with busy := s.busy + 1, queue := q, qsize := s.qsize - 1, ws := setAt s.ws k (.run t),
                          started := s.started ++ [t] }, [.start t])
    | [] => ({ s with busy := s.busy + 1, ws := setAt s.ws k .check }, [])
  | .run t => ({ s with ws := setAt s.ws k .check, finished := s.finished ++ [t] }, [.fin t])
  | .check =>
    let s := { s with busy := s.busy - 1 }
    if k ≥ s.nthreads then
      -- overflow thread: leaves after one round; unregisters (and detaches) itself unless a shutdown will join it
      ({ s with ws := setAt s.ws k .exited, threads := if s.shutdown then s.threads else s.threads.erase k }, [.exit k])
    else if s.queue ≠ [] then ({ s with ws := setAt s.ws k .pop }, [])
    else if s.shutdown then ({ s with ws := setAt s.ws k .exited }, [.exit k])
    else ({ s with ws := setAt s.ws k (.wait false) }, [])
  | .wait true => ({ s with ws := setAt s.ws k .pop }, [])
  | .wait false => (s, [.disabled])
  | .exited => (s, [.disabled])

def clientStep (s : Tp) (i : Nat) (sel : Nat) : Tp × List Ev :=
  match s.client i with
  | .idle => (s, [.disabled])
  | .blocked _ _ => (s, [.disabled])
  | .joining k =>
    if s.worker (s.joinlist.getD k 0) = .exited then
      if k + 1 < s.joinlist.length then ({ s with clients := setAt s.clients i (.joining (k + 1)) }, [.join i])
      else ({ s with freed := true }.ret i .ok)
    else (s, [.disabled])
  | .enter c =>
    if s.freed then ({ s with uaf := true, clients := setAt s.clients i .idle }, [.uaf i])
    else match c with
    | .sched t =>
      if s.v.tpCheckShutdown && s.shutdown then s.ret i .invalidState
      else if s.limit != 0 && s.qsize + 1 > s.limit then s.ret i .overflow
      else
        let s := { s with queue := s.queue ++ [t], qsize := s.qsize + 1, accepted := s.accepted ++ [t] }
        -- overflow thread: created but never added to tp->threads
        let (s, ev1) :=
          if s.qsize > 1 && s.busy ≥ s.nthreads && s.threads.length < s.nthreads * (1 + s.factor) then
            ({ s with ws := s.ws ++ [.init s.v.tpRegisterOverflow],
                      threads := if s.v.tpRegisterOverflow then s.threads ++ [s.ws.length] else s.threads },
             [Ev.spawn s.ws.length])
          else (s, [])
        let (ws', woken) := signalOne s.ws sel
        let (s, ev2) := ({ s with ws := ws' }, [Ev.signal woken])
        let (s, ev3) := s.ret i .ok
        (s, ev1 ++ ev2 ++ ev3)
    | .shutdown wait =>
      if s.shutdown then s.ret i .ok
      else
        let s := if wait then s else { s with dropped := s.dropped ++ s.queue, queue := [], qsize := 0 }
        ({ s with shutdown := true, joinlist := s.threads, ws := s.ws.map wakeWorker,
                  clients := setAt s.clients i (.joining 0) }, [.bcast false, .join i])
    | _ => s.ret i .invalidState     -- not part of the pool's API

def step (s : Tp) : Label → Tp × List Ev
  | .call i c =>
    if i < s.clients.length then
      if s.client i = .idle then ({ s with clients := setAt s.clients i (.enter c) }, [])
      else (s, [.busy])
    else (s, [.disabled])
  | .step (.worker k) _ => s.workerStep k
  | .step (.client i) sel => s.clientStep i sel
  | .spur (.worker k) =>
    match s.worker k with
    | .wait _ => ({ s with ws := setAt s.ws k (.wait true) }, [])
    | _ => (s, [.disabled])
  | .spur (.client _) => (s, [.disabled])

def run (s : Tp) (ls : List Label) : Tp := ls.foldl (fun s l => (s.step l).1) s

def enabled (s : Tp) : Th → Bool
  | .worker k => wEnabled (s.worker k)
  | .client i => cEnabled (fun k => s.worker (s.joinlist.getD k 0) == .exited) (s.client i)

/-- enabled threads: workers by index, then clients by index -/
def enabledList (s : Tp) : List Th :=
  (((List.range s.ws.length).filter fun k => s.enabled (.worker k)).map Th.worker) ++
  ((List.range s.clients.length).filter fun i => s.enabled (.client i)).map Th.client

end Tp

end IwModel.Exec
