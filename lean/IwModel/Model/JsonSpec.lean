import IwModel.Model.JsonUnescape
import IwModel.Model.JVal
import IwModel.Model.Conv
/-! Specification side of C13: what a JSON text *is* and which value it *denotes* (RFC 8259), written
generatively.  A `Cst` is a concrete syntax tree: a document together with every spelling choice the grammar
leaves open — white space in every gap, the spelling of each string character (unescaped byte, two-character
escape, `\uXXXX` with any hex case, surrogate pair), the spelling of numbers (`-0`, fraction, exponent with
sign and leading zeros).  `Cst.text` is the byte text, `Cst.value` the denoted value.  The theorems of
Props/C13.lean say that the parser model maps `text` to `value` and that the printer emits `text` of such trees.

Also here: `decode`, the content of a string body as a plain function (the C function without its buffer
bookkeeping), used to state the two-pass theorem. -/
namespace IwModel.Json

/-! ### string bodies -/

abbrev DRes := Except PErr (Bytes × Bytes)

/-- prefix the decoded bytes `bs` to a result -/
@[inline] def pre (bs : Bytes) (r : DRes) : DRes :=
  match r with
  | .error e => .error e
  | .ok (o, rest) => .ok (bs ++ o, rest)

/-- The string content denoted by the text after an opening quote `q`, and the text after the closing quote:
    `_jbl_unescape_json_string` without `d`, `dlen`. -/
def decode (q : Nat) : Bytes → DRes
  | [] => .error .unquoted
  | c :: p =>
    if c = 0 then .error .unquoted
    else if c = q then .ok ([], p)
    else if c = 92 then
      match p with
      | [] => pre [c] (decode q [])
      | e :: r =>
        if e = 92 ∨ e = 47 ∨ e = 34 then pre [e] (decode q r)
        else if e = 117 then
          match r with
          | h1 :: h2 :: h3 :: h4 :: r1 =>
            match hex4 h1 h2 h3 h4 with
            | none => .error .codepoint
            | some cp =>
              if cp / 1024 = 54 then
                match r1 with
                | 92 :: 117 :: g1 :: g2 :: g3 :: g4 :: r2 =>
                  match hex4 g1 g2 g3 g4 with
                  | none => .error .codepoint
                  | some cp2 =>
                    if cp2 / 1024 ≠ 55 then .error .codepoint
                    else if !codepointValid (surrogate cp cp2) then .error .codepoint
                    else pre (encodeChar (surrogate cp cp2)) (decode q r2)
                | _ => .error .codepoint
              else if !codepointValid cp then .error .codepoint
              else pre (encodeChar cp) (decode q r1)
          | _ => .error .codepoint
        else
          match unescLetter e with
          | some b => pre [b] (decode q r)
          | none => pre [c] (decode q (e :: r))
    else pre [c] (decode q p)

/-- what one call of the C function returns, given the decoded content -/
def passOf (dlen d : Nat) (r : DRes) : URes :=
  match r with
  | .error e => .error e
  | .ok (o, rest) => .ok (d + o.length, o.take (dlen - d), rest)

/-! ### spellings of string characters (RFC 8259 section 7) -/

inductive Spell where
  | raw (b : Nat)                                    -- an unescaped byte (UTF-8 sequences are runs of these)
  | esc (l : Nat)                                    -- `\l` with l one of `" \ / b f n r t`
  | u4 (h1 h2 h3 h4 : Nat)                           -- `\uXXXX`, not a surrogate
  | pair (h1 h2 h3 h4 g1 g2 g3 g4 : Nat)             -- `\uD8xx\uDCxx`
deriving Repr, DecidableEq

/-- the character a two-character escape denotes (RFC 8259) -/
def rfcEsc (l : Nat) : Option Nat :=
  if l = 34 ∨ l = 92 ∨ l = 47 then some l
  else if l = 98 then some 8 else if l = 102 then some 12 else if l = 110 then some 10
  else if l = 114 then some 13 else if l = 116 then some 9 else none

def Spell.text : Spell → Bytes
  | .raw b => [b]
  | .esc l => [92, l]
  | .u4 h1 h2 h3 h4 => [92, 117, h1, h2, h3, h4]
  | .pair h1 h2 h3 h4 g1 g2 g3 g4 => [92, 117, h1, h2, h3, h4, 92, 117, g1, g2, g3, g4]

/-- UTF-8 bytes denoted -/
def Spell.value : Spell → Bytes
  | .raw b => [b]
  | .esc l => [(rfcEsc l).getD 0]
  | .u4 h1 h2 h3 h4 => encodeChar ((hex4 h1 h2 h3 h4).getD 0)
  | .pair h1 h2 h3 h4 g1 g2 g3 g4 => encodeChar (surrogate ((hex4 h1 h2 h3 h4).getD 0) ((hex4 g1 g2 g3 g4).getD 0))

def Spell.valid : Spell → Bool
  | .raw b => 32 ≤ b && b < 256 && b ≠ 34 && b ≠ 92
  | .esc l => (rfcEsc l).isSome
  | .u4 h1 h2 h3 h4 =>
    match hex4 h1 h2 h3 h4 with
    | some cp => cp / 1024 ≠ 54 && cp / 1024 ≠ 55
    | none => false
  | .pair h1 h2 h3 h4 g1 g2 g3 g4 =>
    match hex4 h1 h2 h3 h4, hex4 g1 g2 g3 g4 with
    | some hi, some lo => hi / 1024 = 54 && lo / 1024 = 55
    | _, _ => false

def strText (s : List Spell) : Bytes := s.flatMap Spell.text
def strValue (s : List Spell) : Bytes := s.flatMap Spell.value
def strValid (s : List Spell) : Bool := s.all Spell.valid

/-! ### number tokens (RFC 8259 section 6) -/

def isDigit (c : Nat) : Bool := 48 ≤ c && c ≤ 57

/-- a number with a fraction and/or an exponent, or an integer literal beyond int64: read as a double -/
structure NumTok where
  neg : Bool
  ip : Nat                                   -- integer part, written without leading zeros
  frac : Option Bytes                        -- digits after the point
  exp : Option (Nat × Bytes × Bytes)         -- `e`/`E`, sign text (empty, `+` or `-`), digits
deriving Repr

def signText (neg : Bool) : Bytes := if neg then [45] else []

def NumTok.tail (t : NumTok) : Bytes :=
  (match t.frac with | some ds => 46 :: ds | none => []) ++
  (match t.exp with | some (e, s, ds) => e :: (s ++ ds) | none => [])

def NumTok.text (t : NumTok) : Bytes := signText t.neg ++ Conv.digits t.ip ++ t.tail

/-- an integer literal outside int64 (the parser reads such a literal as a double) -/
def NumTok.big (t : NumTok) : Bool := if t.neg then t.ip > 2 ^ 63 else t.ip ≥ 2 ^ 63

def NumTok.valid (t : NumTok) : Bool :=
  (match t.frac with | some ds => !ds.isEmpty && ds.all isDigit | none => true) &&
  (match t.exp with
   | some (e, s, ds) => (e = 101 || e = 69) && (s = [] || s = [43] || s = [45]) && !ds.isEmpty && ds.all isDigit
   | none => true) &&
  (t.frac.isSome || t.exp.isSome || t.big)

/-! ### documents -/

mutual
  inductive Cst where
    | null | tru | fals
    | int (neg : Bool) (n : Nat)                         -- integer literal: optional `-`, decimal digits of n
    | dbl (t : NumTok)
    | str (s : List Spell)
    | arr (ws0 : Bytes) (items : Items)                  -- `ws0` is the white space of an empty array
    | obj (ws0 : Bytes) (ms : Members)
  inductive Items where
    | nil
    | cons (w1 : Bytes) (v : Cst) (w2 : Bytes) (tl : Items)
  inductive Members where
    | nil
    | cons (w1 : Bytes) (k : List Spell) (w2 w3 : Bytes) (v : Cst) (w4 : Bytes) (tl : Members)
end

def Items.isNil : Items → Bool
  | .nil => true
  | .cons .. => false

def Members.isNil : Members → Bool
  | .nil => true
  | .cons .. => false

def quoted (s : List Spell) : Bytes := 34 :: (strText s ++ [34])

mutual
  def Cst.text : Cst → Bytes
    | .null => [110, 117, 108, 108]
    | .tru => [116, 114, 117, 101]
    | .fals => [102, 97, 108, 115, 101]
    | .int neg n => signText neg ++ Conv.digits n
    | .dbl t => t.text
    | .str s => quoted s
    | .arr ws0 items => 91 :: ((if items.isNil then ws0 else []) ++ items.text ++ [93])
    | .obj ws0 ms => 123 :: ((if ms.isNil then ws0 else []) ++ ms.text ++ [125])
  def Items.text : Items → Bytes
    | .nil => []
    | .cons w1 v w2 tl => w1 ++ v.text ++ w2 ++ (if tl.isNil then [] else [44]) ++ tl.text
  def Members.text : Members → Bytes
    | .nil => []
    | .cons w1 k w2 w3 v w4 tl =>
      w1 ++ quoted k ++ w2 ++ [58] ++ w3 ++ v.text ++ w4 ++ (if tl.isNil then [] else [44]) ++ tl.text
end

mutual
  /-- the value denoted; `D` gives the double denoted by a number token (opaque: nearest double of the decimal) -/
  def Cst.value (D : Bytes → Nat) : Cst → JVal
    | .null => .null
    | .tru => .bool true
    | .fals => .bool false
    | .int neg n => .int (if neg then -(n : Int) else (n : Int))
    | .dbl t => .f64 (D t.text)
    | .str s => .str (strValue s)
    | .arr _ items => .arr (items.values D)
    | .obj _ ms => .obj (ms.values D)
  def Items.values (D : Bytes → Nat) : Items → List JVal
    | .nil => []
    | .cons _ v _ tl => v.value D :: tl.values D
  def Members.values (D : Bytes → Nat) : Members → List (Bytes × JVal)
    | .nil => []
    | .cons _ k _ _ v _ tl => (strValue k, v.value D) :: tl.values D
end

/-- JSON white space -/
def isWsByte (c : Nat) : Bool := c = 32 || c = 9 || c = 10 || c = 13
def wsOk (w : Bytes) : Bool := w.all isWsByte

mutual
  /-- grammar side conditions: white space is white space, spellings are valid, integers fit int64.
      `keyNul = false` additionally demands that no object key contains U+0000 (finding F9). -/
  def Cst.valid : Cst → Bool
    | .null | .tru | .fals => true
    | .int neg n => if neg then n ≤ 2 ^ 63 else n < 2 ^ 63
    | .dbl t => t.valid
    | .str s => strValid s
    | .arr ws0 items => wsOk ws0 && items.valid
    | .obj ws0 ms => wsOk ws0 && ms.valid
  def Items.valid : Items → Bool
    | .nil => true
    | .cons w1 v w2 tl => wsOk w1 && v.valid && wsOk w2 && tl.valid
  def Members.valid : Members → Bool
    | .nil => true
    | .cons w1 k w2 w3 v w4 tl =>
      wsOk w1 && strValid k && !(strValue k).contains 0 && wsOk w2 && wsOk w3 && v.valid && wsOk w4 && tl.valid
end

mutual
  /-- every number token with fraction/exponent (or beyond int64) in the tree satisfies `ok` -/
  def Cst.toksOk (ok : NumTok → Bool) : Cst → Bool
    | .dbl t => ok t
    | .arr _ items => items.toksOk ok
    | .obj _ ms => ms.toksOk ok
    | _ => true
  def Items.toksOk (ok : NumTok → Bool) : Items → Bool
    | .nil => true
    | .cons _ v _ tl => v.toksOk ok && tl.toksOk ok
  def Members.toksOk (ok : NumTok → Bool) : Members → Bool
    | .nil => true
    | .cons _ _ _ _ v _ tl => v.toksOk ok && tl.toksOk ok
end

mutual
  /-- nesting depth: scalars 0, a container one more than its deepest child -/
  def Cst.depth : Cst → Nat
    | .arr _ items => items.depth + 1
    | .obj _ ms => ms.depth + 1
    | _ => 0
  def Items.depth : Items → Nat
    | .nil => 0
    | .cons _ v _ tl => max v.depth tl.depth
  def Members.depth : Members → Nat
    | .nil => 0
    | .cons _ _ _ _ v _ tl => max v.depth tl.depth
end

mutual
  /-- fuel the parser model needs (never more than twice the text length) -/
  def Cst.need : Cst → Nat
    | .arr _ items => 1 + items.need
    | .obj _ ms => 1 + ms.need
    | _ => 1
  def Items.need : Items → Nat
    | .nil => 2
    | .cons _ v _ tl => 1 + v.need + tl.need
  def Members.need : Members → Nat
    | .nil => 1
    | .cons _ _ _ _ v _ tl => 1 + v.need + tl.need
end

/-- what may follow a value in a valid text: nothing, white space, `,`, `]`, `}` -/
def delim : Bytes → Bool
  | [] => true
  | c :: _ => isWsByte c || c = 44 || c = 93 || c = 125

end IwModel.Json

namespace IwModel.Json

/-! ### documents handed to the printer -/

mutual
  /-- nesting depth of a value -/
  def depthV : JVal → Nat
    | .arr xs => depthL xs + 1
    | .obj ms => depthM ms + 1
    | _ => 0
  def depthL : List JVal → Nat
    | [] => 0
    | x :: r => max (depthV x) (depthL r)
  def depthM : List (Bytes × JVal) → Nat
    | [] => 0
    | (_, x) :: r => max (depthV x) (depthM r)
end

def bytesOk (s : Bytes) : Bool := s.all (· < 256)

/-- the bit pattern is not NaN / infinity -/
def finiteBits (bits : Nat) : Bool := bits / 2 ^ 52 % 2048 ≠ 2047

mutual
  /-- what a JSON document in a `struct jbl_node` tree holds: int64 integers, finite doubles, byte strings,
      keys that are C strings -/
  def printable : JVal → Bool
    | .f64 b => finiteBits b
    | .int i => -(2 ^ 63 : Int) ≤ i && i < (2 ^ 63 : Int)
    | .str s => bytesOk s
    | .arr xs => printableL xs
    | .obj ms => printableM ms
    | _ => true
  def printableL : List JVal → Bool
    | [] => true
    | x :: r => printable x && printableL r
  def printableM : List (Bytes × JVal) → Bool
    | [] => true
    | (k, x) :: r => bytesOk k && !k.contains 0 && printable x && printableM r
end

mutual
  /-- the document with every double replaced by the value of the number token `N b` printed for it;
      everything else unchanged -/
  def reval (D : Bytes → Nat) (N : Nat → Cst) : JVal → JVal
    | .f64 b => (N b).value D
    | .arr xs => .arr (revalL D N xs)
    | .obj ms => .obj (revalM D N ms)
    | v => v
  def revalL (D : Bytes → Nat) (N : Nat → Cst) : List JVal → List JVal
    | [] => []
    | x :: r => reval D N x :: revalL D N r
  def revalM (D : Bytes → Nat) (N : Nat → Cst) : List (Bytes × JVal) → List (Bytes × JVal)
    | [] => []
    | (k, x) :: r => (k, reval D N x) :: revalM D N r
end

end IwModel.Json
