import IwModel.Model.Bytes
/-! IEEE-754 binary64 arithmetic on bit patterns (`Nat < 2^64`) by exact integer arithmetic:
multiplication, addition, division, conversion of small integers, comparison `==`; all round-to-nearest-even
including subnormal results, overflow to infinity and signed zeros.  Core Lean only.

A finite pattern `b` has magnitude `sig b * 2 ^ ex b` in units of `2^-1074` (the smallest subnormal), so every exact
result of an operation is a rational `n / d` in these units, and one function `roundMag n d` does all the rounding.

This is what the SSE2 instructions `mulsd`/`addsd`/`divsd` compute in the default rounding mode (cross-checked against
the hardware on boundary-biased random pairs by the C13 tie, op `f64`).  NaN *operands* never arise in `iwstrtod`
(a NaN can only be the final result of `inf * 0`); they are propagated quieted, first operand first, but that rule is
not cross-checked. -/
namespace IwModel.SoftF64

def expOf (b : Nat) : Nat := b / 2 ^ 52 % 2048
def manOf (b : Nat) : Nat := b % 2 ^ 52
def isNeg (b : Nat) : Bool := b / 2 ^ 63 % 2 = 1
def isNaN (b : Nat) : Bool := expOf b = 2047 && manOf b ≠ 0
def isInf (b : Nat) : Bool := expOf b = 2047 && manOf b = 0
/-- significand with the hidden bit -/
def sig (b : Nat) : Nat := if expOf b = 0 then manOf b else manOf b + 2 ^ 52
/-- exponent of the unit in the last place above `2^-1074` (0 for subnormals and for the first binade) -/
def ex (b : Nat) : Nat := expOf b - 1
/-- magnitude of a finite pattern in units of `2^-1074` -/
def mag (b : Nat) : Nat := sig b * 2 ^ ex b

def signBit (s : Bool) : Nat := if s then 2 ^ 63 else 0
def infBits : Nat := 0x7FF0000000000000
/-- the default NaN of x86 SSE ("real indefinite") -/
def nanBits : Nat := 0xFFF8000000000000
def quiet (b : Nat) : Nat := if b / 2 ^ 51 % 2 = 1 then b else b + 2 ^ 51

/-- round-half-even of `n / d` -/
def rne (n d : Nat) : Nat :=
  let q := n / d
  let r := n % d
  if 2 * r > d ∨ (2 * r = d ∧ q % 2 = 1) then q + 1 else q

/-- the binade of `n / d`: the largest `t` with `d * 2^(t+52) ≤ n`, or 0 when there is none (subnormal range) -/
def rexp (n d : Nat) : Nat :=
  let t0 := n.log2 - d.log2 - 52
  if d * 2 ^ (t0 + 52) ≤ n then t0 else t0 - 1

/-- bits (without sign) of the double nearest to `n / d` units of `2^-1074`, ties to even, overflow to infinity.
    In binade `t` the significand is `rne (n / (d * 2^t))`; `t * 2^52 + significand` is the encoding (the hidden bit
    carries into the exponent field, also when rounding reaches the next binade). -/
def roundMag (n d : Nat) : Nat :=
  let t := rexp n d
  let b := t * 2 ^ 52 + rne n (d * 2 ^ t)
  if b ≥ infBits then infBits else b

def unit : Nat := 2 ^ 1074

/-- `(double) n` for a natural number -/
def ofNat (n : Nat) : Nat := roundMag (n * unit) 1

/-- `(double) i` -/
def ofInt (i : Int) : Nat := if i < 0 then signBit true + ofNat i.natAbs else ofNat i.natAbs

def mul (a b : Nat) : Nat :=
  if isNaN a then quiet a else if isNaN b then quiet b
  else
    let s := isNeg a != isNeg b
    if isInf a ∨ isInf b then
      (if mag a = 0 ∨ mag b = 0 then nanBits else signBit s + infBits)
    else signBit s + roundMag (mag a * mag b) unit

def add (a b : Nat) : Nat :=
  if isNaN a then quiet a else if isNaN b then quiet b
  else if isInf a then (if isInf b ∧ isNeg a ≠ isNeg b then nanBits else a)
  else if isInf b then b
  else if isNeg a = isNeg b then signBit (isNeg a) + roundMag (mag a + mag b) 1
  else if mag a = mag b then 0
  else if mag a > mag b then signBit (isNeg a) + roundMag (mag a - mag b) 1
  else signBit (isNeg b) + roundMag (mag b - mag a) 1

def div (a b : Nat) : Nat :=
  if isNaN a then quiet a else if isNaN b then quiet b
  else
    let s := isNeg a != isNeg b
    if isInf a then (if isInf b then nanBits else signBit s + infBits)
    else if isInf b then signBit s
    else if mag b = 0 then (if mag a = 0 then nanBits else signBit s + infBits)
    else signBit s + roundMag (mag a * unit) (mag b)

/-- C `a == b` -/
def feq (a b : Nat) : Bool :=
  !isNaN a && !isNaN b && (a = b || (a % 2 ^ 63 = 0 && b % 2 ^ 63 = 0))

end IwModel.SoftF64
