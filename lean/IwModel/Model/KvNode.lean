import IwModel.Model.KvBlk
import IwModel.Model.Cmp
/-! The WRITER of one skip-list NODE RECORD (`struct sblk`, src/kv/iwkv.c) for a database that stays within one node
(at most `KVBLK_IDXNUM` = 32 keys, no split): the fields `_sblk_sync_mm` stores — `flags` (only persistent bit:
`SBLK_FULL_LKEY`), `lkl`, `pnum`, `pi[]`, the cached first key `lk[]`, and the data block (`Model/KvBlk.lean`) — and the
operations that change them, mirrored branch by branch.

C function → model function:
`_sblk_create_v1` → `fresh`, `_sblk_find_pi_mm` → `findPi` (the binary search loop: `findGo`), `_sblk_insert_pi_mm` → `insertPi`,
`_sblk_addkv2` → `addkv2`, `_sblk_addkv` → `addkvIns`, the two `if (idx == 0)` cache refresh blocks of these → `cacheAdd`,
`_sblk_updatekv` → `updatekv`, `_sblk_rmkv` → `rmkv` (cache refresh from the stored key: `cacheRm`), `_sblk_sync_mm` → `sync`,
`_lx_sblk_cmp_key` → `lxCmp`, and the routing of `_lx_put_lw`/`_lx_addkv`, `_lx_del_lw`, `_cursor_get_ge_idx` +
`iwkv_cursor_seth` / `iwkv_cursor_del` on a database with at most one node → `put`, `del`, `curPos`, `curSet`, `curDel`.

State: `pi` is the LIVE part `pi[0 .. pnum)` of the slot order (entries beyond `pnum` are stale in memory and in the file and
never read); `pnum` is kept as its own field and changed by `++`/`--` exactly where the C code does. `lk` is the buffer
`sblk->lk`: a refresh overwrites its first `lkl` bytes (`memcpy`), the rest keeps older bytes; only `lk[0 .. lkl)` is written
to the file. `full` is `flags & SBLK_FULL_LKEY`. Keys in the block are STORED keys (compound prefix `vnum(compound)` included);
operations get the prefix `pre` (empty without `IWDB_COMPOUND_KEYS`) and the key body separately, as `_sblk_addkv*` do.
Comparisons are `_cmp_keys` in byte-string mode (`Cmp.cmpKeys .plain`); the integer and real-number key modes are not
modelled here. Positions are `Nat`; the `int` bounds `lb`, `ub` of the binary search are kept as `lb` and `hi = ub + 1`.
Abstracted: the node's address, level, links and page slot (C06 link model), the block address `kblk` ("the block"), cursors
other than the one an operation goes through, `IW_VNUMSIZE(compound)` = length of the encoded prefix (C19 `vnum_size`). -/
namespace IwModel.KvNode
open IwModel IwModel.FormatEnc IwModel.KvBlk

structure Node where
  full : Bool          -- `flags & SBLK_FULL_LKEY`
  lkl : Nat
  lk : Bytes           -- `sblk->lk`, live part: the first `lkl` bytes
  pnum : Nat
  pi : List Nat        -- `pi[0 .. pnum)`
  blk : KvBlk
deriving Repr, DecidableEq

/-- `PREFIX_KEY_LEN_V2` -/
abbrev P : Nat := Gen.PREFIX_KEY_LEN_V2

/-- `_kvblk_key_peek`: the stored key of a slot (empty for a free slot) -/
def slotKey (b : KvBlk) (i : Nat) : Bytes := (b.slots.getD i Slot.free).key

def slotVal (b : KvBlk) (i : Nat) : Bytes := (b.slots.getD i Slot.free).val

/-- `sblk->pi[i]` -/
def piAt (n : Node) (i : Nat) : Nat := n.pi.getD i 0

/-- stored key at position `i` of the node -/
def keyAt (n : Node) (i : Nat) : Bytes := slotKey n.blk (piAt n i)

/-- stored keys in `pi` order -/
def keys (n : Node) : List Bytes := n.pi.map (slotKey n.blk)

/-- the bytes `_sblk_sync_mm` writes for the cached key -/
def lkLive (n : Node) : Bytes := n.lk.take n.lkl

/-- the persistent flags byte -/
def flagsByte (n : Node) : Nat := if n.full then Gen.SBLK_FULL_LKEY else 0

/-- `_sblk_create_v1` (`kvbpow = 0` is raised to `KVBLK_INISZPOW`): no keys, `flags = SBLK_DURTY`, `pi` zeroed; the record lies
in a zeroed page (`_sblk_create_v2`) -/
def fresh : Node :=
  { full := false, lkl := 0, lk := zeros P, pnum := 0, pi := [], blk := create Gen.KVBLK_INISZPOW }

/-- `_sblk_sync_mm`: node record and, when dirty, header + index of the data block -/
def sync (n : Node) : Node := { n with blk := KvBlk.sync n.blk }

/-- the loop shared by `_sblk_find_pi_mm` and `_sblk_insert_pi_mm`: `cmp i` = `_cmp_keys(stored key at pi[i], lookup key)`,
`lb` as in C, `hi = ub + 1`; result `(found, idx)` -/
def findGo (cmp : Nat → Int) : Nat → Nat → Nat → Bool × Nat
  | 0, lb, _ => (false, lb)
  | fuel + 1, lb, hi =>
    let idx := (hi - 1 + lb) / 2
    let cr := cmp idx
    if cr = 0 then (true, idx)
    else if cr < 0 then
      (if idx + 1 ≥ hi then (false, idx + 1) else findGo cmp fuel (idx + 1) hi)       -- lb = idx + 1; if (lb > ub) { idx = lb; break; }
    else
      (if lb ≥ idx then (false, idx) else findGo cmp fuel lb idx)                      -- ub = idx - 1; if (lb > ub) break;

/-- `_sblk_find_pi_mm` on a node (not the database block); `cmpk st` = `_cmp_keys(dbflg, st, lx->key)` -/
def findPi (n : Node) (cmpk : Bytes → Int) : Bool × Nat :=
  if n.pnum < 1 then (false, 0) else findGo (fun i => cmpk (keyAt n i)) n.pnum 0 n.pnum

/-- `_sblk_insert_pi_mm`: position of the new slot number `nidx` by the same search; `pnum` is incremented unless the key
compares equal to a stored one (never the case for the callers: the key was looked up before) -/
def insertPi (n : Node) (nidx : Nat) (cmpk : Bytes → Int) : Node × Nat :=
  if n.pnum < 1 then ({ n with pi := [nidx], pnum := n.pnum + 1 }, 0)
  else
    let r := findGo (fun i => cmpk (keyAt n i)) n.pnum 0 n.pnum
    let l := n.pi.take r.2 ++ nidx :: n.pi.drop r.2                   -- memmove(pi + idx + 1, pi + idx, nels - idx); pi[idx] = nidx
    if r.1 then ({ n with pi := l.take n.pnum }, r.2) else ({ n with pi := l, pnum := n.pnum + 1 }, r.2)

/-- the `if (idx == 0)` block of `_sblk_addkv` / `_sblk_addkv2`: the inserted key is the first one; `pre` = the encoded compound
part (empty in a database without compound keys), `body` = `key->data` -/
def cacheAdd (n : Node) (pre body : Bytes) : Node :=
  let ksize := body.length + pre.length
  let lkl := min P ksize
  { n with lkl, lk := poke n.lk 0 (pre ++ body.take (lkl - (ksize - body.length))), full := decide (ksize ≤ P) }

/-- the refresh in `_sblk_rmkv` (first key removed, another one follows): from the stored key of the new first slot -/
def cacheRm (n : Node) (key : Bytes) : Node :=
  let lkl := min P key.length
  { n with lkl, lk := poke n.lk 0 (key.take lkl), full := decide (key.length ≤ P) }

inductive Res
  | ok (n : Node)
  | full                       -- _IWKV_RC_KVBLOCK_FULL
  | maxkvsz                    -- IWKV_ERROR_MAXKVSZ
deriving Repr, DecidableEq

/-- `_sblk_addkv2(sblk, idx, key, val, raw_key = false)`: the position is known -/
def addkv2 (n : Node) (idx : Nat) (pre body val : Bytes) : Res :=
  if n.pnum ≥ Gen.KVBLK_IDXNUM then .full else
  match KvBlk.addkv n.blk (pre ++ body) val with
  | .full => .full
  | .maxkvsz => .maxkvsz
  | .ok b kvidx =>
    let n1 := { n with blk := b, pi := n.pi.take idx ++ kvidx :: n.pi.drop idx, pnum := n.pnum + 1 }
    .ok (if idx = 0 then cacheAdd n1 pre body else n1)

/-- `_sblk_addkv(sblk, lx)`: the record is added to the block first, then its position is searched -/
def addkvIns (n : Node) (cmpk : Bytes → Int) (pre body val : Bytes) : Res :=
  if n.pnum ≥ Gen.KVBLK_IDXNUM then .full else
  match KvBlk.addkv n.blk (pre ++ body) val with
  | .full => .full
  | .maxkvsz => .maxkvsz
  | .ok b kvidx =>
    let r := insertPi { n with blk := b } kvidx cmpk
    .ok (if r.2 = 0 then cacheAdd r.1 pre body else r.1)

/-- `_sblk_updatekv(sblk, idx, key, val)`: the record may move to another slot; the cached key is not touched. A refused
update (`IWKV_ERROR_MAXKVSZ`) returns before the node is changed; the block is unchanged then (`updatev_failure_keeps_block`). -/
def updatekv (n : Node) (idx : Nat) (val : Bytes) : Res :=
  match KvBlk.updatev n.blk (piAt n idx) val with
  | .ok b kvidx => .ok { n with blk := b, pi := n.pi.set idx kvidx }
  | .failed _ _ => .maxkvsz

/-- `_sblk_rmkv(sblk, idx)` -/
def rmkv (n : Node) (idx : Nat) : Node :=
  let b := KvBlk.rmkv n.blk (piAt n idx) false
  let n1 := { n with blk := b, pnum := n.pnum - 1, pi := n.pi.eraseIdx idx }
  if idx = 0 then
    (if n1.pnum > 0 then cacheRm n1 (slotKey b (piAt n1 0)) else { n1 with lkl := 0 })
  else n1

/-- `_lx_sblk_cmp_key(lx, sblk)`: the lookup key against the node through the cached first key; falls back to the stored key
of `pi[0]` when the cached bytes tie and the cache is not the whole key -/
def lxCmp (compound : Bool) (n : Node) (k : Bytes) (c2 : Nat) : Int :=
  let lk := lkLive n
  let ksize := k.length + (if compound then Cmp.lkStep lk else 0)
  if n.full ∨ ksize < n.lkl then Cmp.cmpKeys .plain compound lk k c2
  else
    let r := Cmp.cmpPrefix .plain compound lk k c2
    if r = 0 then Cmp.cmpKeys .plain compound (keyAt n 0) k c2 else r

/-! ### a database with at most one node -/

/-- `none` = the chain is empty -/
abbrev Db := Option Node

inductive PutRes
  | ok (d : Db)
  | split                      -- the node holds 32 keys and the key is new: `_lx_split_addkv` makes a second node (outside this model)
  | failed (e : Res)
deriving Repr, DecidableEq

def ofRes : Res → PutRes
  | .ok n => .ok (some (sync n))
  | e => .failed e

/-- `_cmp_keys(dbflg, st, key)` for the lookup key `(k, c)` -/
def cmpOf (compound : Bool) (k : Bytes) (c : Nat) : Bytes → Int := fun st => Cmp.cmpKeys .plain compound st k c

/-- the compound part as `_kvblk_addkv` / `_sblk_addkv` store it in front of the key -/
def preOf (compound : Bool) (c : Nat) : Bytes := if compound then Vnum.enc c else []

/-- `iwkv_put` (`_lx_put_lw`, `_lx_addkv`), no opflags. Empty chain: the second pass creates a node (`_lx_split_addkv`, upper
side) and `_sblk_addkv`s into it. One node: `_lx_roll_forward` compares through the cached key; a key above the first key
leaves `lower` = database head and `upper` = the node → `_sblk_addkv(lx->upper)` if it has room; otherwise `lower` = the node →
`_sblk_find_pi_mm`, then `_sblk_updatekv` or `_sblk_addkv2`. -/
def put (compound : Bool) (d : Db) (k : Bytes) (c : Nat) (val : Bytes) : PutRes :=
  let cmpk := cmpOf compound k c
  let pre := preOf compound c
  match d with
  | none => ofRes (addkvIns fresh cmpk pre k val)
  | some n =>
    if lxCmp compound n k c > 0 then
      (if n.pnum < Gen.KVBLK_IDXNUM then ofRes (addkvIns n cmpk pre k val) else .split)
    else
      let r := findPi n cmpk
      if r.1 then ofRes (updatekv n r.2 val)
      else if n.pnum > Gen.KVBLK_IDXNUM - 1 then .split
      else ofRes (addkv2 n r.2 pre k val)

/-- position of the key in the node, as `_lx_del_lw`, `_lx_get_lr` and `_cursor_get_ge_idx(IWKV_CURSOR_EQ)` find it -/
def curPos (compound : Bool) (d : Db) (k : Bytes) (c : Nat) : Option Nat :=
  match d with
  | none => none
  | some n =>
    if lxCmp compound n k c > 0 then none           -- `lower` is the database block: nothing found there
    else
      let r := findPi n (cmpOf compound k c)
      if r.1 then some r.2 else none

/-- removal of position `pos`: the last key takes the node with it (`_lx_del_sblk_lw`), otherwise `_sblk_rmkv` + sync -/
def rmAt (n : Node) (pos : Nat) : Db :=
  if n.pnum = 1 then none else some (sync (rmkv n pos))

/-- `iwkv_del`; `none` = `IWKV_ERROR_NOTFOUND` -/
def del (compound : Bool) (d : Db) (k : Bytes) (c : Nat) : Option Db :=
  match d, curPos compound d k c with
  | some n, some pos => some (rmAt n pos)
  | _, _ => none

/-- `iwkv_cursor_set` through a cursor standing at position `pos` -/
def curSet (d : Db) (pos : Nat) (val : Bytes) : PutRes :=
  match d with
  | none => .failed .full
  | some n => ofRes (updatekv n pos val)

/-- `iwkv_cursor_del` through a cursor standing at position `pos` -/
def curDel (d : Db) (pos : Nat) : Db :=
  match d with
  | none => none
  | some n => rmAt n pos

/-! ### histories -/

inductive Op
  | put (k : Bytes) (c : Nat) (v : Bytes)
  | del (k : Bytes) (c : Nat)
  | cset (k : Bytes) (c : Nat) (v : Bytes)      -- cursor opened at the key (`IWKV_CURSOR_EQ`), `iwkv_cursor_set`
  | cdel (k : Bytes) (c : Nat)                  -- cursor opened at the key, `iwkv_cursor_del`
deriving Repr

/-- operations that fail (not found, refused, would split) leave the database as it was -/
def step (compound : Bool) (d : Db) : Op → Db
  | .put k c v => match put compound d k c v with
    | .ok d' => d'
    | _ => d
  | .del k c => (del compound d k c).getD d
  | .cset k c v => match curPos compound d k c with
    | some pos => (match curSet d pos v with
      | .ok d' => d'
      | _ => d)
    | none => d
  | .cdel k c => match curPos compound d k c with
    | some pos => curDel d pos
    | none => d

def run (compound : Bool) (d : Db) (ops : List Op) : Db := ops.foldl (step compound) d

end IwModel.KvNode
