/-! # Online backup (C08): the stage machine of `iwal_online_backup` over an abstract write-ahead log

State of the store as far as the backup is concerned:

* `mem`  — what the API reads: the private mapping (main file + everything logged since);
* `main` — the durable main file;
* `log`  — the records of the log, file part first then the buffered part (`flushed` = number of records that
           reached the file);
* `rfo`  — `wal->rollforward_offset`, as an index into `log` (0 = start);
* `stage`— `wal->bkp_stage` (0 none, 1 STARTED, 2 WAL_CLEANUP, 3 MAIN_COPY, 4 WAL_COPY1, 5 WAL_COPY2);
* `imgMain`, `img` — the main-file part of the image (copied during stage 3) and the finished image.

The contents are abstract: `M` with `app : R → M → M`; the driver instantiates them with a key/value map and
put/delete records, the theorems hold for any `M`, `R`, `app`.

Mirrors (src/kv/iwal.c): `_write_wl`/`_flush_wl`, `_onresize`, `_checkpoint_exl` (early return in MAIN_COPY,
optional savepoint, flush, roll-forward), `_rollforward_exl` mode 0 (apply from `rollforward_offset`, then
truncate in stages 0/2, else append a reset mark and move the offset) and mode 2 (image recovery: apply from
the start up to the last savepoint), `_savepoint_exl`, `iwal_online_backup` (five stages, final forced
checkpoint), `_iwkv_check_online_backup` (split of the image). -/
namespace IwModel.Bkp

inductive Rec (R : Type) where
  | op (r : R)      -- the SET/COPY/WRITE records of one completed store operation
  | resize          -- WBRESIZE
  | sp              -- WBSAVEPOINT
  | reset           -- WBRESET
  deriving Repr

structure St (M R : Type) where
  mem : M
  main : M
  log : List (Rec R)
  flushed : Nat
  rfo : Nat
  stage : Nat
  imgMain : Option M
  img : Option (M × List (Rec R))
  forceCp : Bool
  crashed : Bool

variable {M R : Type}

/-- the data records of a log segment, in order -/
def opsOf : List (Rec R) → List R
  | [] => []
  | .op r :: l => r :: opsOf l
  | _ :: l => opsOf l

/-- apply data records in order -/
def replay (app : R → M → M) : List R → M → M
  | [], m => m
  | r :: rs, m => replay app rs (app r m)

/-- `_flush_wl`: everything buffered reaches the file -/
def flush (s : St M R) : St M R := { s with flushed := s.log.length }

/-- append one record to the buffer (`_write_wl`) -/
def append (s : St M R) (r : Rec R) : St M R := { s with log := s.log ++ [r] }

/-- `_rollforward_exl(mode 0)` after the flush: apply the log from the roll-forward offset to the main file;
    then truncate the log (no backup running, or the cleanup stage), or leave it and append a reset mark. -/
def rollforward (app : R → M → M) (s : St M R) : St M R :=
  let main' := replay app (opsOf (s.log.drop s.rfo)) s.main
  if s.log.isEmpty then s      -- empty log file: `_rollforward_exl` returns before doing anything
  else if s.stage == 0 || s.stage == 2 then
    { s with main := main', log := [], flushed := 0, rfo := 0 }
  else
    let log' := s.log ++ [.reset]
    { s with main := main', log := log', flushed := log'.length, rfo := s.log.length }

/-- `_checkpoint_exl(wal, _, noFix)` -/
def checkpoint (app : R → M → M) (noFix : Bool) (s : St M R) : St M R :=
  if s.stage == 3 then s
  else
    let s1 := if noFix then s else { append s .sp with forceCp := false }
    rollforward app (flush s1)

/-- `_savepoint_exl(wal, _, sync = true)` -/
def savepoint (s : St M R) : St M R := flush (append s .sp)

/-- a store operation that changes the contents: the mapping is updated and the records are logged -/
def write (app : R → M → M) (r : R) (s : St M R) : St M R :=
  append { s with mem := app r s.mem } (.op r)

/-- `_onresize`: the file must grow inside a store operation. The resize is logged and a checkpoint without
    savepoint is forced, whose roll-forward performs the growth. In stage 3 that checkpoint returns at once while
    the listener still reports the growth as handled: it never happens and the writer goes on to store past the
    mapping (F25) — `crashed`. -/
def grow (app : R → M → M) (s : St M R) : St M R :=
  let s1 := append s .resize
  if s1.stage == 3 then { s1 with crashed := true } else checkpoint app true s1

/-- `iwal_online_backup`, entry: refuse a second backup, else stage STARTED -/
def bkpStart (s : St M R) : St M R × Bool :=
  if s.stage != 0 then (s, false) else ({ s with stage := 1, imgMain := none }, true)

/-- under the exclusive lock: stage WAL_CLEANUP, checkpoint (applies and truncates the log), stage MAIN_COPY -/
def bkpCleanup (app : R → M → M) (s : St M R) : St M R :=
  { checkpoint app false { s with stage := 2 } with stage := 3 }

/-- the copy of the main file (any moment of stage 3), then stage WAL_COPY1 with a flush of the log buffer -/
def bkpCopyMain (s : St M R) : St M R :=
  flush { s with imgMain := some s.main, stage := 4 }

/-- under the exclusive lock: stage WAL_COPY2 and the final savepoint -/
def bkpFinalSavepoint (s : St M R) : St M R :=
  savepoint { s with stage := 5 }

/-- rest of stage 5: the whole log file is in the image; stage back to 0; a checkpoint is requested -/
def bkpFinish (s : St M R) : St M R :=
  match s.imgMain with
  | some m => { s with img := some (m, s.log.take s.flushed), stage := 0, forceCp := true }
  | none => { s with stage := 0, forceCp := true }

/-- position just after the last savepoint of a log (0 when there is none): `_last_fix_and_reset_points` -/
def lastSp : List (Rec R) → Nat
  | [] => 0
  | l@(_ :: _) =>
    let rec go (i : Nat) (best : Nat) : List (Rec R) → Nat
      | [] => best
      | .sp :: t => go (i + 1) (i + 1) t
      | _ :: t => go (i + 1) best t
    go 0 0 l

/-- opening an image: `_iwkv_check_online_backup` splits it, `_rollforward_exl` mode 2 applies the log from its
    start up to the last savepoint (reset marks are ignored, nothing is applied when there is no savepoint) -/
def recoverImage (app : R → M → M) (img : M × List (Rec R)) : M :=
  replay app (opsOf (img.2.take (lastSp img.2))) img.1

/-- one-letter-per-record view of the log file (what the harness reads from the real file): runs of data
    records collapse to one `d` -/
def skeleton (l : List (Rec R)) : String :=
  let rec go (prevD : Bool) : List (Rec R) → List Char
    | [] => []
    | .op _ :: t => if prevD then go true t else 'd' :: go true t
    | .resize :: t => 'Z' :: go false t
    | .sp :: t => 'S' :: go false t
    | .reset :: t => 'R' :: go false t
  let cs := go false l
  if cs.isEmpty then "-" else String.ofList cs

end IwModel.Bkp
