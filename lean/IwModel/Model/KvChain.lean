import IwModel.Model.KvNode
/-! The WRITER of the node records of a database with ANY number of nodes: the level-0 chain of `struct sblk` records (each as in
`Model/KvNode.lean`: `flags & SBLK_FULL_LKEY`, `lkl`, `lk`, `pnum`, `pi`, its data block with 32 slots), in chain order from the
database block, and the operations that change it — mirrored branch by branch from src/kv/iwkv.c.

C function → model function:
`_lx_find_bounds` / `_lx_roll_forward` (what they yield on level 0) → `lowerCnt`; `_lx_addkv` → `put` (found → `_sblk_updatekv`; full node,
key behind its last key, upper neighbour has room → `_sblk_addkv(lx->upper)`; full node → `_lx_split_addkv`; else `_sblk_addkv2`);
`_lx_split_addkv` → the `uside` branch of `put` (a new node with the one record behind / in front) and `splitMid`: size of the new
block `splitSz` + power of two `powFor`, `_sblk_create(kvbpow)` → `freshPow`, the loop moving the records `pi[pivot .. pnum)` with
`_sblk_addkv2(nb, i - pivot, key, val, raw_key = true)` → `moveGo`, the reset of the moved slots, `zidx = pi[pivot]`, `maxoff`
recomputed, `--pnum` per record → `cutOld`, the new record into the upper half (`idx > pivot`) or the lower half (`idx <= pivot`) by
`_sblk_addkv`; `_lx_del_lw` → `del` (last record of a node: `_lx_del_sblk_lw` takes the node out of the chain), `_cursor_get_ge_idx(EQ)`
→ `curPos`, `iwkv_cursor_set` / `iwkv_cursor_del` → `curSet` / `curDel`; `_kvblk_at_mm` (what the next operation sees of a block this
one leaves behind: `zidx` = first free slot) → `reload`.

Abstracted: node addresses, levels, links and page slots (C06 link model `KvLinks`): the chain is a list, a new node is "at chain
position i". The lookup walks level 0 only: on a chain in key order the walk through the upper levels ends at the same pair
(lower, upper) (link model: every level is a subsequence of level 0). `iwlog2_64` + the `while` loop of `_lx_split_addkv` yield the
least power of two not below `sz` (`powFor`). The records of the upper half are read before their slots are reset (the C loop
interleaves the two; it never reads a slot it has reset). A failing `_sblk_addkv2` inside the move loop (impossible: the new block is
sized for the records, see `Lemmas/KvChain.lean`) makes the put fail with the chain unchanged. -/
namespace IwModel.KvChain
open IwModel IwModel.FormatEnc IwModel.KvBlk IwModel.KvNode

/-- nodes in level-0 order, first = `db->n[0]` -/
abbrev Chain := List Node

/-- `pivot = (KVBLK_IDXNUM / 2) + 1` -/
def pivot : Nat := Gen.KVBLK_IDXNUM / 2 + 1

/-- `_lx_roll_forward` from the database block on level 0: number of nodes passed, i.e. of leading nodes whose first key the lookup
key is not below (`cret <= 0`); `lower` is the last of them (the database block if there is none), `upper` the node after it -/
def lowerCnt (compound : Bool) (k : Bytes) (c : Nat) : Chain → Nat
  | [] => 0
  | n :: t => if lxCmp compound n k c > 0 then 0 else lowerCnt compound k c t + 1

/-- `_sblk_create_v1(kvbpow)`: `kvbpow` below `KVBLK_INISZPOW` is raised to it -/
def freshPow (kvbpow : Nat) : Node := { fresh with blk := create (max kvbpow Gen.KVBLK_INISZPOW) }

/-- `kvbpow = iwlog2_64(sz); while ((1ULL << kvbpow) < sz) kvbpow++;` -/
def powFor (sz : Nat) : Nat := growPow sz 0 sz

/-- `sz` of `_lx_split_addkv`: lengths of the records that move, the new record if it goes to the new node (`lx->key->size` is the
size of the key body), `KVBLK_MAX_NKV_SZ` -/
def splitSz (n : Node) (idx : Nat) (body val : Bytes) : Nat :=
  ((n.pi.drop pivot).map fun s => (n.blk.slots.getD s Slot.free).len).sum +
    (if idx > pivot then vn body.length + body.length + val.length else 0) + Gen.KVBLK_MAX_NKV_SZ

/-- the loop `for (i = pivot; i < end; ++i) _sblk_addkv2(nb, i - pivot, key, val, true)`: `src` = block of the split node, the list =
slot numbers `pi[i]` still to move, `j = i - pivot`; the key is the STORED key (`raw_key`: no compound prefix is added) -/
def moveGo (src : KvBlk) : List Nat → Node → Nat → Option Node
  | [], nb, _ => some nb
  | s :: rest, nb, j =>
    match addkv2 nb j [] (slotKey src s) (slotVal src s) with
    | .ok nb' => moveGo src rest nb' (j + 1)
    | _ => none

/-- `pidx[pi[i]].len = pidx[pi[i]].off = 0` for the moved records -/
def clearSlots (slots : List Slot) (moved : List Nat) : List Slot := moved.foldl (fun s i => s.set i Slot.free) slots

/-- the split node after the loop: `--pnum` per moved record, `zidx = pi[pivot]`, `maxoff` = largest remaining offset; the cached
index size `idxsz` and the block size stay as they were -/
def cutOld (n : Node) : Node :=
  let moved := n.pi.drop pivot
  let slots := clearSlots n.blk.slots moved
  { n with pnum := n.pnum - moved.length, pi := n.pi.take pivot,
           blk := { n.blk with slots, zidx := some (piAt n pivot), maxoff := maxOff slots } }

/-- `_kvblk_at_mm` on the next use of a block: `zidx` = first slot with `len == 0` -/
def reload (n : Node) : Node := { n with blk := { n.blk with zidx := firstFree n.blk.slots } }

/-- the middle branch of `_lx_split_addkv` (`idx != pnum`): (lower half, new node) -/
def splitMid (n : Node) (idx : Nat) (cmpk : Bytes → Int) (pre body val : Bytes) : Option (Node × Node) :=
  let sz := splitSz n idx body val
  match moveGo n.blk (n.pi.drop pivot) (freshPow (powFor sz)) 0 with
  | none => none
  | some nb =>
    let old := cutOld n
    if idx > pivot then
      match addkvIns nb cmpk pre body val with
      | .ok nb' => some (sync (reload old), sync nb')
      | _ => none
    else
      match addkvIns old cmpk pre body val with
      | .ok old' => some (sync old', sync nb)
      | _ => none

inductive PutRes
  | ok (ch : Chain)
  | failed (e : Res)
deriving Repr, DecidableEq

/-- node `i` replaced -/
def setNode (ch : Chain) (i : Nat) : Res → PutRes
  | .ok n => .ok (ch.set i (sync n))
  | e => .failed e

/-- a new node at chain position `i` -/
def insNode (ch : Chain) (i : Nat) : Res → PutRes
  | .ok n => .ok (ch.take i ++ sync n :: ch.drop i)
  | e => .failed e

/-- `lx->upper && lx->upper->pnum < KVBLK_IDXNUM` -/
def hasRoom : Option Node → Bool
  | some u => decide (u.pnum < Gen.KVBLK_IDXNUM)
  | none => false

/-- `iwkv_put` (`_lx_put_lw`, `_lx_addkv`, `_lx_split_addkv`), no opflags. `lower` = database block: `_sblk_find_pi_mm` answers
`(false, KVBLK_IDXNUM)` and its `pnum` reads `KVBLK_IDXNUM`, so the record goes to the first node if that has room, else into a new
node in front of it. A record larger than `IWKV_MAX_KVSZ` is refused before a full node is split. -/
def put (compound : Bool) (ch : Chain) (k : Bytes) (c : Nat) (val : Bytes) : PutRes :=
  let cmpk := cmpOf compound k c
  let pre := preOf compound c
  let cnt := lowerCnt compound k c ch
  if cnt = 0 then
    match ch.head? with
    | some u =>
      if u.pnum < Gen.KVBLK_IDXNUM then setNode ch 0 (addkvIns u cmpk pre k val)
      else insNode ch 0 (addkvIns fresh cmpk pre k val)
    | none => insNode ch 0 (addkvIns fresh cmpk pre k val)
  else
    match ch[cnt - 1]? with
    | none => .failed .full                                 -- not reachable: `cnt ≤ |ch|`
    | some n =>
      let r := findPi n cmpk
      if r.1 then setNode ch (cnt - 1) (updatekv n r.2 val)
      else if n.pnum > Gen.KVBLK_IDXNUM - 1 then
        if r.2 > Gen.KVBLK_IDXNUM - 1 ∧ hasRoom ch[cnt]? = true then
          match ch[cnt]? with
          | some u => setNode ch cnt (addkvIns u cmpk pre k val)                    -- uadd
          | none => .failed .full
        else if recSize (pre ++ k) val > Gen.IWKV_MAX_KVSZ then .failed .maxkvsz
        else if r.2 = n.pnum then insNode ch cnt (addkvIns fresh cmpk pre k val)    -- uside
        else
          match splitMid n r.2 cmpk pre k val with
          | some (o, nb) => .ok (ch.take (cnt - 1) ++ o :: nb :: ch.drop cnt)
          | none => .failed .full
      else setNode ch (cnt - 1) (addkv2 n r.2 pre k val)

/-- (node, position) of the key, as `_lx_del_lw`, `_lx_get_lr` and `_cursor_get_ge_idx(IWKV_CURSOR_EQ)` find it -/
def curPos (compound : Bool) (ch : Chain) (k : Bytes) (c : Nat) : Option (Nat × Nat) :=
  let cnt := lowerCnt compound k c ch
  if cnt = 0 then none
  else
    match ch[cnt - 1]? with
    | none => none
    | some n =>
      let r := findPi n (cmpOf compound k c)
      if r.1 then some (cnt - 1, r.2) else none

/-- removal of position `pos` of node `i`: the last record takes the node out of the chain (`_lx_del_sblk_lw`) -/
def rmAt (ch : Chain) (i pos : Nat) : Chain :=
  match ch[i]? with
  | none => ch
  | some n => if n.pnum = 1 then ch.eraseIdx i else ch.set i (sync (rmkv n pos))

/-- `iwkv_del`; `none` = `IWKV_ERROR_NOTFOUND` -/
def del (compound : Bool) (ch : Chain) (k : Bytes) (c : Nat) : Option Chain :=
  match curPos compound ch k c with
  | some (i, pos) => some (rmAt ch i pos)
  | none => none

/-- `iwkv_cursor_set` through a cursor standing at `(i, pos)` -/
def curSet (ch : Chain) (i pos : Nat) (val : Bytes) : PutRes :=
  match ch[i]? with
  | none => .failed .full
  | some n => setNode ch i (updatekv n pos val)

/-- `iwkv_cursor_del` through a cursor standing at `(i, pos)` -/
def curDel (ch : Chain) (i pos : Nat) : Chain := rmAt ch i pos

/-- operations that fail (not found, refused) leave the chain as it was -/
def step (compound : Bool) (ch : Chain) : KvNode.Op → Chain
  | .put k c v => match put compound ch k c v with
    | .ok ch' => ch'
    | _ => ch
  | .del k c => (del compound ch k c).getD ch
  | .cset k c v => match curPos compound ch k c with
    | some (i, pos) => (match curSet ch i pos v with
      | .ok ch' => ch'
      | _ => ch)
    | none => ch
  | .cdel k c => match curPos compound ch k c with
    | some (i, pos) => curDel ch i pos
    | none => ch

def run (compound : Bool) (ch : Chain) (ops : List KvNode.Op) : Chain := ops.foldl (step compound) ch

end IwModel.KvChain
