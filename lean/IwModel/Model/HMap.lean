import IwModel.Model.Bytes
import IwModel.Gen.C18
/-!
Mechanism model of `src/utils/iwhmap.c`: an array of buckets, each a small vector of entries that grows and
shrinks in steps of `STEPS`, a table that is rehashed up (count > mask) and down (count < mask/2), the
"move the last entry into the hole" removal, and the LRU recency list with the eviction loop of `iwhmap_put`.

Pointers are abstracted: a key is a value of type `κ` (`cmp_fn(a,b) == 0` is `a = b`), a value is a `Nat`
(`0` = NULL), the doubly linked LRU list is the list of its keys (oldest first), an entry knows whether it
owns a node.  Every step returns the tokens handed to `kv_free_fn`, in call order.

The model follows the code after the fix of `iwhmap_clear` (both list ends are reset).
-/
namespace IwModel.HMap

def MIN_BUCKETS : Nat := Gen.C18.MIN_BUCKETS
def STEPS : Nat := Gen.C18.STEPS

/-- what `kv_free_fn` receives -/
inductive Tok (κ : Type) where
  | k (key : κ)
  | v (val : Nat)
  deriving Repr, DecidableEq

structure Entry (κ : Type) where
  key : κ
  val : Nat
  hash : Nat
  node : Bool
  deriving Repr

structure Bucket (κ : Type) where
  ents : List (Entry κ) := []
  total : Nat := 0
  deriving Repr

structure Map (κ : Type) where
  buckets : List (Bucket κ)
  mask : Nat
  count : Nat
  lru : List κ := []
  lruOn : Bool := false
  maxc : Nat := 0
  /-- `!int_key_as_pointer_value`: keys are passed to the free function -/
  ownKeys : Bool := true
  deriving Repr

variable {κ : Type} [DecidableEq κ]

def empty (ownKeys : Bool) : Map κ :=
  { buckets := List.replicate MIN_BUCKETS {}, mask := MIN_BUCKETS - 1, count := 0, ownKeys := ownKeys }

def nBuckets (m : Map κ) : Nat := m.mask + 1

/-- arguments of one `kv_free_fn(key, val)` call that are not NULL -/
def freeToks (own : Bool) (key : Option κ) (val : Nat) : List (Tok κ) :=
  (match key with | some k => if own then [Tok.k k] else [] | none => []) ++ (if val = 0 then [] else [Tok.v val])

def bucketAt (m : Map κ) (i : Nat) : Bucket κ := m.buckets.getD i {}

def setBucket (m : Map κ) (i : Nat) (b : Bucket κ) : Map κ := { m with buckets := m.buckets.set i b }

/-- index of the first entry with this hash and key (`_entry_find`) -/
def findIdx (es : List (Entry κ)) (key : κ) (hash : Nat) : Option Nat :=
  let i := es.findIdx (fun e => e.hash = hash ∧ e.key = key)
  if i < es.length then some i else none

/-- `_entry_add` on one bucket: grow by `STEPS` when `used + 1 >= total`, then find or append.
Returns the bucket, the entry index and whether the entry is new. -/
def bucketAdd (b : Bucket κ) (key : κ) (hash : Nat) : Bucket κ × Nat × Bool :=
  let total := if b.ents.length + 1 ≥ b.total then b.total + STEPS else b.total
  match findIdx b.ents key hash with
  | some i => ({ b with total := total }, i, false)
  | none => ({ ents := b.ents ++ [{ key := key, val := 0, hash := hash, node := false }], total := total }, b.ents.length, true)

/-- `_entry_add`: returns the map, (bucket, entry) position and whether a new entry was appended -/
def entryAdd (m : Map κ) (key : κ) (hash : Nat) : Map κ × Nat × Nat × Bool :=
  let bi := hash &&& m.mask
  let (b, ei, fresh) := bucketAdd (bucketAt m bi) key hash
  ({ setBucket m bi b with count := if fresh then m.count + 1 else m.count }, bi, ei, fresh)

/-- `_rehash`: re-add every entry, bucket by bucket, into a fresh table of `n` buckets -/
def rehash (m : Map κ) (n : Nat) : Map κ :=
  let m0 : Map κ := { m with buckets := List.replicate n {}, mask := n - 1, count := 0 }
  let all := m.buckets.flatMap (·.ents)
  let m1 := all.foldl (fun acc e =>
    let (acc', bi, ei, _) := entryAdd acc e.key e.hash
    let b := bucketAt acc' bi
    setBucket acc' bi { b with ents := b.ents.set ei e }) m0
  { m1 with count := m.count }

/-- `_lru_entry_update` for the entry at (bi, ei) -/
def lruUpdate (m : Map κ) (bi ei : Nat) : Map κ :=
  let b := bucketAt m bi
  match b.ents[ei]? with
  | none => m
  | some e =>
    if e.node then
      -- node->next != 0  <=>  not already the newest
      if m.lru.getLast? = some e.key then m else { m with lru := m.lru.erase e.key ++ [e.key] }
    else
      { setBucket m bi { b with ents := b.ents.set ei { e with node := true } } with lru := m.lru ++ [e.key] }

/-- `_entry_remove` of the entry at (bi, ei) -/
def entryRemove (m : Map κ) (bi ei : Nat) : Map κ × List (Tok κ) :=
  let b := bucketAt m bi
  match b.ents[ei]? with
  | none => (m, [])
  | some e =>
    let lru := if e.node then m.lru.erase e.key else m.lru
    let toks := freeToks m.ownKeys (some e.key) e.val
    let last := b.ents.length - 1
    let ents := (if ei ≠ last then b.ents.set ei (b.ents.getD last e) else b.ents).dropLast
    let count := m.count - 1
    let m1 : Map κ := { setBucket m bi { b with ents := ents } with lru := lru, count := count }
    if m1.mask > MIN_BUCKETS - 1 ∧ count < m1.mask / 2 then
      (rehash m1 (nBuckets m1 / 2), toks)
    else
      let su := ents.length / STEPS
      let st := b.total / STEPS
      if su + 1 < st then (setBucket m1 bi { ents := ents, total := (su + 1) * STEPS }, toks) else (m1, toks)

def locate (m : Map κ) (key : κ) (hash : Nat) : Option (Nat × Nat) :=
  let bi := hash &&& m.mask
  (findIdx (bucketAt m bi).ents key hash).map fun ei => (bi, ei)

/-- the eviction loop at the end of `iwhmap_put` (predicate `iwhmap_lru_eviction_max_count`) -/
def evict (h : κ → Nat) : Nat → Map κ → List (Tok κ) → Map κ × List (Tok κ)
  | 0, m, acc => (m, acc)
  | fuel + 1, m, acc =>
    match m.lru with
    | [] => (m, acc)
    | k :: _ =>
      if m.lruOn ∧ m.count > m.maxc then
        match locate m k (h k) with
        | none => (m, acc)          -- `assert(entry)`
        | some (bi, ei) =>
          let (m', t) := entryRemove m bi ei
          evict h fuel m' (acc ++ t)
      else (m, acc)

/-- overwrite key and value of the entry at (bi, ei) -/
def setKV (m : Map κ) (bi ei : Nat) (key : κ) (val : Nat) : Map κ :=
  let b := bucketAt m bi
  match b.ents[ei]? with
  | none => m
  | some e => setBucket m bi { b with ents := b.ents.set ei { e with key := key, val := val } }

def entryAt (m : Map κ) (bi ei : Nat) : Option (Entry κ) := (bucketAt m bi).ents[ei]?

/-- `iwhmap_put` -/
def put (h : κ → Nat) (m : Map κ) (key : κ) (val : Nat) : Map κ × List (Tok κ) :=
  let hash := h key
  let (m1, bi, ei, fresh) := entryAdd m key hash
  let toks := match entryAt m1 bi ei with
    | some e => if fresh then [] else freeToks m.ownKeys (some e.key) e.val
    | none => []
  let m2 := setKV m1 bi ei key val
  let m3 := if m2.lruOn then lruUpdate m2 bi ei else m2
  let m4 := if m3.count > m3.mask then rehash m3 (nBuckets m3 * 2) else m3
  evict h (m4.lru.length + 1) m4 toks

/-- `iwhmap_get` -/
def get (h : κ → Nat) (m : Map κ) (key : κ) : Map κ × Nat :=
  match locate m key (h key) with
  | none => (m, 0)
  | some (bi, ei) =>
    let v := ((entryAt m bi ei).map (·.val)).getD 0
    (if m.lruOn then lruUpdate m bi ei else m, v)

/-- `iwhmap_remove` -/
def remove (h : κ → Nat) (m : Map κ) (key : κ) : Map κ × Bool × List (Tok κ) :=
  match locate m key (h key) with
  | none => (m, false, [])
  | some (bi, ei) => let (m', t) := entryRemove m bi ei; (m', true, t)

/-- `iwhmap_rename` -/
def rename (h : κ → Nat) (m : Map κ) (kold knew : κ) : Map κ × List (Tok κ) :=
  match locate m kold (h kold) with
  | none => (m, [])
  | some (bi, ei) =>
    let val := ((entryAt m bi ei).map (·.val)).getD 0
    let m0 := setKV m bi ei kold 0          -- entry->val = 0 (key unchanged)
    let (m1, t1) := entryRemove m0 bi ei
    let (m2, bj, ej, fresh) := entryAdd m1 knew (h knew)
    let t2 := match entryAt m2 bj ej with
      | some e => if fresh then [] else freeToks m.ownKeys (some e.key) e.val
      | none => []
    let m3 := setKV m2 bj ej knew val
    (if m3.lruOn then lruUpdate m3 bj ej else m3, t1 ++ t2)

/-- every (key, value) in iteration order (`iwhmap_iter_next`) -/
def toList (m : Map κ) : List (κ × Nat) := m.buckets.flatMap fun b => b.ents.map fun e => (e.key, e.val)

def allToks (m : Map κ) : List (Tok κ) :=
  m.buckets.flatMap fun b => b.ents.flatMap fun e => freeToks m.ownKeys (some e.key) e.val

/-- `iwhmap_clear` (fixed: both ends of the recency list are reset) -/
def clear (m : Map κ) : Map κ × List (Tok κ) :=
  let n := if nBuckets m > MIN_BUCKETS then MIN_BUCKETS else nBuckets m
  ({ m with buckets := List.replicate n {}, mask := n - 1, count := 0, lru := [] }, allToks m)

/-- `iwhmap_destroy` -/
def destroy (m : Map κ) : List (Tok κ) := allToks m

/-- `iwhmap_lru_init(hm, iwhmap_lru_eviction_max_count, n)` -/
def lruInit (m : Map κ) (n : Nat) : Map κ := { m with lruOn := true, maxc := n }

/-! ### hash functions -/

def u32 (x : Nat) : Nat := x % 4294967296

/-- `_hash_uint32` -/
def hash32 (x0 : Nat) : Nat :=
  let x := u32 x0
  let x := x ^^^ (x >>> 17)
  let x := u32 (x * 0xed5ad4bb)
  let x := x ^^^ (x >>> 11)
  let x := u32 (x * 0xac4c1b51)
  let x := x ^^^ (x >>> 15)
  let x := u32 (x * 0x31848bab)
  x ^^^ (x >>> 14)

def hashU32Key (k : Nat) : Nat := hash32 k
/-- `_hash_uint64` (note the shift by 31) -/
def hashU64Key (k : Nat) : Nat := hash32 k ^^^ hash32 (k >>> 31)

def wymix (a b : Nat) : Nat × Nat :=
  let c := (a ^^^ 0x53c5ca59) * (b ^^^ 0x74743c1b)
  (u32 c, u32 (c >>> 32))

def rd32 (p : Bytes) : Nat := p.getD 0 0 + 256 * p.getD 1 0 + 65536 * p.getD 2 0 + 16777216 * p.getD 3 0

def wyLoop : Nat → Bytes → Nat → Nat → Bytes × Nat × Nat
  | 0, p, s, t => (p, s, t)
  | fuel + 1, p, s, t =>
    if p.length > 8 then
      let (s', t') := wymix (s ^^^ rd32 p) (t ^^^ rd32 (p.drop 4))
      wyLoop fuel (p.drop 8) s' t'
    else (p, s, t)

/-- `wyhash32(key, len, seed)` for `len < 2^32` -/
def wyhash32 (key : Bytes) (seed : Nat) : Nat :=
  let (s, t) := wymix seed (u32 key.length)
  let (p, s, t) := wyLoop key.length key s t
  let i := p.length
  let (s, t) :=
    if i ≥ 4 then (s ^^^ rd32 p, t ^^^ rd32 (p.drop (i - 4)))
    else if i > 0 then (s ^^^ ((p.getD 0 0 <<< 16) ||| (p.getD (i >>> 1) 0 <<< 8) ||| p.getD (i - 1) 0), t)
    else (s, t)
  let (s, t) := wymix s t
  let (s, t) := wymix s t
  s ^^^ t

/-- `_hash_buf_key` -/
def hashStrKey (k : Bytes) : Nat := wyhash32 k 0x3017f643

end IwModel.HMap
