import IwModel.Model.CStr
/-! Bounds-instrumented model of `iwu_replace` (`src/utils/iwutils.c`, property C17): sequential replacement of
a list of keys in a text, through two growing `IWXSTR` buffers.

Memory is index-addressed (`buf[i]?`, `none` = an access outside the block the caller owns).  `strstr` is
modelled by the naive left-to-right search: it looks at a byte of the haystack only when all bytes in front of
it are not NUL, and never behind the terminator.  `iwxstr_cat(x, p, n)` reads `n` bytes at `p` (`readN`); the
`IWXSTR` buffers themselves are unbounded lists (their reallocation is not the subject here), `iwxstr_ptr`
yields the content followed by the terminator. -/
namespace IwModel.Repl
open IwModel.CStr

/-- does `key` occur at `buf + p`?  Byte by byte, stops at the first difference. -/
def matchAt (buf : Bytes) (p : Nat) : Bytes → Option Bool
  | [] => some true
  | k :: ks =>
    match buf[p]? with
    | none => none
    | some c => if c = k then matchAt buf (p + 1) ks else some false

/-- `strstr(buf + p, key)` for a non-empty `key` without NUL: `some none` = NULL -/
def strstr (buf key : Bytes) (p : Nat) : Option (Option Nat) :=
  match h : buf[p]? with
  | none => none
  | some c =>
    match matchAt buf p key with
    | none => none
    | some true => some (some p)
    | some false => if c = 0 then some none else strstr buf key (p + 1)
termination_by buf.length - p
decreasing_by
  have hi : p < buf.length := (List.getElem?_eq_some_iff.mp h).1
  omega

theorem strstr_bounds (buf key : Bytes) (p q : Nat) (h : strstr buf key p = some (some q)) :
    p ≤ q ∧ q < buf.length := by
  fun_induction strstr buf key p with
  | case1 p h0 => simp at h
  | case2 p c h0 hm => simp at h
  | case3 p c h0 hm =>
    simp at h
    have hi : p < buf.length := (List.getElem?_eq_some_iff.mp h0).1
    omega
  | case4 p h0 hm => simp at h
  | case5 p c h0 hm hc ih =>
    have := ih h
    omega

/-- the `while (true)` loop for one key (`klen > 0`); `ptr` is `ptr - start`, `bbuf` the content of the
    scratch buffer.  Answers the scratch buffer and `ptr - start` at the `break`. -/
def inner (cur key rep : Bytes) (datalen : Nat) (ptr : Nat) (bbuf : Bytes) : Option (Bytes × Nat) :=
  if key.length = 0 then some (bbuf, ptr)       -- unreachable: the caller skips an empty key
  else
    match h : strstr cur key ptr with
    | none => none
    | some none =>
      if ptr ≠ 0 then
        if datalen < ptr then none                     -- `datalen - (ptr - start)` would be negative: a huge size_t
        else
          match readN cur ptr (datalen - ptr) with     -- iwxstr_cat(bbuf, ptr, datalen - (ptr - start))
          | none => none
          | some r => some (bbuf ++ r, ptr)
      else some (bbuf, ptr)
    | some (some p) =>
      match readN cur ptr (p - ptr) with               -- iwxstr_cat(bbuf, ptr, p - ptr)
      | none => none
      | some r =>
        if datalen ≤ p + key.length then some (bbuf ++ r ++ rep, p + key.length)
        else inner cur key rep datalen (p + key.length) (bbuf ++ r ++ rep)
termination_by cur.length - ptr
decreasing_by
  have := strstr_bounds cur key ptr p h
  omega

/-- the locals that survive an iteration of the `for` loop over the keys -/
structure RS where
  cur : Bytes        -- the memory `start` points to (`data`, later `iwxstr_ptr(inter)`)
  datalen : Nat
  fresh : Bool       -- `start == data`
deriving Repr, DecidableEq

abbrev Mapper := Bytes → Option Bytes

/-- one iteration of `for (int i = 0; i < keysz; ++i)`; `keyBuf` is the memory at `keys[i]` -/
def keyStep (m : Mapper) (s : RS) (keyBuf : Bytes) : Option RS :=
  match strEnd keyBuf 0 with                          -- klen = strlen(key)
  | none => none
  | some klen =>
    if klen = 0 then some s
    else
      let key := keyBuf.take klen
      match inner s.cur key ((m key).getD key) s.datalen 0 [] with
      | none => none
      | some (bbuf, ptr) =>
        if ptr ≠ 0 then some { cur := bbuf ++ [0], datalen := bbuf.length, fresh := false }
        else some s

def keyLoop (m : Mapper) : RS → List Bytes → Option RS
  | s, [] => some s
  | s, k :: ks =>
    match keyStep m s k with
    | none => none
    | some s' => keyLoop m s' ks

/-- `iwu_replace(&result, data, datalen, keys, keysz, mapper, op)`: the content of `*result` -/
def replace (m : Mapper) (data : Bytes) (datalen : Nat) (keys : List Bytes) : Option Bytes :=
  if datalen < 1 ∨ keys.length < 1 then readN data 0 datalen
  else
    match keyLoop m ⟨data, datalen, true⟩ keys with
    | none => none
    | some s => if s.fresh then readN data 0 s.datalen else some (s.cur.take s.datalen)

/-! ### reference -/

/-- replace every occurrence of `key` (left to right, not overlapping, the replacement is not searched again) -/
def replaceAll (key rep : Bytes) (s : Bytes) : Bytes :=
  match s with
  | [] => []
  | c :: t =>
    if h : key ≠ [] ∧ key.isPrefixOf (c :: t) then rep ++ replaceAll key rep ((c :: t).drop key.length)
    else c :: replaceAll key rep t
termination_by s.length
decreasing_by
  · have : key.length ≠ 0 := by
      intro e; exact h.1 (List.eq_nil_of_length_eq_zero e)
    simp only [List.length_drop, List.length_cons]; omega
  · simp

/-- one key after the other, each on the result of the previous one; an empty key is skipped -/
def refReplace (m : Mapper) (s : Bytes) (keys : List Bytes) : Bytes :=
  keys.foldl (fun acc k => if k = [] then acc else replaceAll k ((m k).getD k) acc) s

end IwModel.Repl
