/-! # Locking protocol of the KV store (C07)

The abstract locks of `iwkv.c` / `iwal.c` / `iwfsmfile.c` / `iwexfile.c`, their declared order, and the
*call automata*: for every kind of API call, which sequences of acquire / release / wait events the code
may perform.  The recordings taken from the implementation (pthread interposers) are checked against
`accepts`; the theorems of `Props/C07.lean` are about `ordered`, `accepts` and the transition system in
`Model/LockSys.lean`.

Mirrors: `API_DB_WLOCK/RLOCK/UNLOCK`, `iwkv_exclusive_lock` (`_wnw` + `_wnw_iwkw_wl`), `_db_worker_inc_nolk`
/ `_db_worker_dec_nolk` (cursor open/close), `_excl_lock` of iwal.c, `iwal_poke_checkpoint/savepoint`,
`_fsm_ctrl_wlock/rlock`, `_exfile_wlock/rlock`, the cursor spin lock and the generator spin lock. -/
namespace IwModel.Locks

/-- abstract locks. `wk` = `iwkv->wk_mtx` (+ its condition), `store` = `iwkv->rwl`, `db i` = `db->rwl`,
    `alloc` = `fsm->ctlrwlk`, `file` = `EXF.rwlock`, `log` = `wal->mtx`, `spin i` = `db->cursors_slk`,
    `rng` = spin lock of the mt19937 generator. -/
inductive Lk where
  | wk | store | db (i : Nat) | alloc | file | log | spin (i : Nat) | rng
  deriving DecidableEq, Repr

/-- the declared order: worker mutex → store → database → allocator → file → log; spin locks are leaves -/
def Lk.rank : Lk → Nat
  | .wk => 0 | .store => 1 | .db _ => 2 | .alloc => 3 | .file => 4 | .log => 5 | .spin _ => 6 | .rng => 7

/-- outer locks are the ones the API layer takes itself; inner locks are taken by the layers below -/
def Lk.outer : Lk → Bool
  | .wk | .store | .db _ => true
  | _ => false

inductive Ev where
  | acq (l : Lk) (ex : Bool)   -- rdlock (ex = false) / wrlock, mutex lock, spin lock (ex = true)
  | rel (l : Lk)
  | wait (l : Lk)               -- pthread_cond_wait on the worker-count condition, mutex `l`
  | twait (l : Lk)              -- pthread_cond_timedwait of the checkpoint thread, mutex `l`
  deriving DecidableEq, Repr

abbrev Held := List (Lk × Bool)

def holds (h : Held) (l : Lk) : Bool := h.any (fun p => p.1 == l)
def holdsEx (h : Held) (l : Lk) : Bool := h.any (fun p => p.1 == l && p.2)

/-- every held lock ranks strictly below `l` -/
def below (h : Held) (l : Lk) : Bool := h.all (fun p => p.1.rank < l.rank)

def release (h : Held) (l : Lk) : Held := h.filter (fun p => !(p.1 == l))

/-- One step of the order check: the set of held locks after `e`, or `none` when `e` breaks the
    discipline (acquire not above everything held, release of a lock not held, wait while holding
    anything but the mutex). -/
def stepHeld (h : Held) : Ev → Option Held
  | .acq l ex => if below h l then some ((l, ex) :: h) else none
  | .rel l => if holds h l then some (release h l) else none
  | .wait l => if h == [(l, true)] then some h else none
  | .twait l => if h == [(l, true)] then some h else none

/-- run the order check over a whole event sequence -/
def runHeld : Held → List Ev → Option Held
  | h, [] => some h
  | h, e :: es => match stepHeld h e with
    | some h' => runHeld h' es
    | none => none

/-- a recorded sequence respects the declared order and ends with nothing held -/
def ordered (tr : List Ev) : Bool := runHeld [] tr == some []

/-! ## Call kinds and their outer shapes -/

inductive Kind where
  | writer (d : Nat) (sync : Bool)  -- put, del, cursor set/del, set_meta: database write lock
  | reader (d : Nat)                -- get, cursor moves and reads, get_meta: database read lock
  | copen (d : Nat)                 -- cursor open that succeeded: worker count +1, then a read section
  | copenFail (d : Nat)             -- cursor open that failed: count +1, read section, count -1
  | cclose (d : Nat)                -- cursor close: write section, then count -1
  | excl                            -- sync with WAL, new_db, db_destroy: exclusive section
  | exclLog                         -- explicit checkpoint (`_excl_lock`): exclusive section with the log mutex
  | dbget                           -- iwkv_db: lookup under the store read lock, creation in an exclusive section
  | state                           -- iwkv_state
  | syncNoWal                       -- iwkv_sync without WAL: plain store write lock
  | backup                          -- iwkv_online_backup: two exclusive sections with the log mutex
  | cpt                             -- the checkpoint thread: any number of exclusive sections
  deriving DecidableEq, Repr

def outerOf (tr : List Ev) : List Ev :=
  tr.filter fun
    | .acq l _ => l.outer
    | .rel l => l.outer
    | .wait _ => false
    | .twait _ => false

open Ev Lk in
/-- the exclusive hand-shake of `iwkv_exclusive_lock` followed by the release in `iwkv_exclusive_unlock` -/
def exclShape : List Ev := [acq wk true, acq store true, rel wk, rel store]

open Ev Lk in
def writeShape (d : Nat) : List Ev := [acq store false, acq (db d) true, rel (db d), rel store]

open Ev Lk in
def readShape (d : Nat) : List Ev := [acq store false, acq (db d) false, rel (db d), rel store]

open Ev Lk in
def countShape : List Ev := [acq wk true, rel wk]

/-- zero or more repetitions of the exclusive shape -/
def isExclRep : Nat → List Ev → Bool
  | 0, tr => tr.isEmpty
  | fuel + 1, tr => tr.isEmpty || (tr.take 4 == exclShape && isExclRep fuel (tr.drop 4))

open Ev Lk in
/-- the outer shapes a call kind may show -/
def shapeOk (k : Kind) (o : List Ev) : Bool :=
  match k with
  | .writer d false => o == writeShape d
  | .writer d true => o == writeShape d || o == writeShape d ++ [acq store true, rel store]
  | .reader d => o == readShape d
  | .copen d => o == countShape ++ readShape d
  | .copenFail d => o == countShape ++ readShape d ++ countShape
  | .cclose d => o == writeShape d ++ countShape
  | .excl => o == exclShape
  | .exclLog => o == exclShape
  | .dbget => o == [acq store false, rel store] || o == [acq store false, rel store] ++ exclShape
  | .state => o == [acq store false, rel store]
  | .syncNoWal => o == [acq store true, rel store]
  | .backup => o == exclShape ++ exclShape || o == exclShape || o.isEmpty
  | .cpt => isExclRep o.length o

/-! ## Protection: what must be held when a lower layer is entered -/

/-- `true` when some database lock is held (any mode) -/
def holdsDb (h : Held) : Bool := h.any fun p => match p.1 with | .db _ => true | _ => false
/-- `true` when a database write lock or the store write lock is held -/
def holdsWriter (h : Held) : Bool :=
  h.any fun p => p.2 && (match p.1 with | .db _ => true | .store => true | _ => false)

/-- May the inner lock `l` be acquired in mode `ex` while `h` is held?
    * allocator / file in write mode (they mutate shared structures of the store): only under a database
      write lock or the store write lock — the atomic effect of a writer is bracketed by its outer lock;
    * allocator / file in read mode: under any database lock or the store lock, or (iwkv_state, backup)
      with nothing but their own order;
    * the log mutex: always (it protects the log's own fields);
    * cursor spin lock: under the lock of its database or the store write lock; generator lock: always. -/
def innerAllowed (h : Held) (l : Lk) (ex : Bool) : Bool :=
  match l with
  | .alloc => if ex then holdsWriter h else true
  | .file => if ex then holdsWriter h else true
  | .log => true
  | .spin i => holds h (.db i) || holdsEx h .store
  | .rng => true
  | _ => true

/-- protection check along a sequence (order errors are reported by `runHeld`, here they just stop) -/
def protectedFrom : Held → List Ev → Bool
  | _, [] => true
  | h, e :: es =>
    (match e with
     | .acq l ex => l.outer || innerAllowed h l ex
     | _ => true) &&
    (match stepHeld h e with
     | some h' => protectedFrom h' es
     | none => true)

/-- a wait on the worker count happens only inside the exclusive hand-shake: holding the worker mutex alone -/
def waitsOk : Held → List Ev → Bool
  | _, [] => true
  | h, e :: es =>
    (match e with
     | .wait l => l == .wk && h == [(.wk, true)]
     | .twait l => l == .log && h == [(.log, true)]
     | _ => true) &&
    (match stepHeld h e with
     | some h' => waitsOk h' es
     | none => true)

/-- The call automaton: a recorded sequence is a path of call kind `k`. -/
def accepts (k : Kind) (tr : List Ev) : Bool :=
  ordered tr && shapeOk k (outerOf tr) && protectedFrom [] tr && waitsOk [] tr

/-- Why a sequence is rejected (for the driver's output). -/
def verdict (k : Kind) (tr : List Ev) : String :=
  if !ordered tr then "bad order"
  else if !shapeOk k (outerOf tr) then "bad shape"
  else if !protectedFrom [] tr then "bad protection"
  else if !waitsOk [] tr then "bad wait"
  else "ok"

end IwModel.Locks
