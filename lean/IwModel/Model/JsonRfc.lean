import IwModel.Model.JVal
/-! # The RFC texts as functions over `JVal` (specifications for C15 and C16)

Objects are member lists; "the member named k" is the first pair with that name, new members are appended.
Nothing here looks at the C code: these are the definitions the models in `JsonPatch.lean` / `JsonMerge.lean` are
proved against. -/
namespace IwModel.Rfc
open IwModel

abbrev Members := List (Bytes × JVal)

/-- `Target[Name]` -/
def get (ms : Members) (k : Bytes) : Option JVal := ms.lookup k

/-- remove the Name/Value pair -/
def remove : Members → Bytes → Members
  | [], _ => []
  | (k', v') :: r, k => if k' == k then r else (k', v') :: remove r k

/-- `Target[Name] = Value` -/
def put : Members → Bytes → JVal → Members
  | [], k, v => [(k, v)]
  | (k', v') :: r, k, v => if k' == k then (k, v) :: r else (k', v') :: put r k v

def isNull : JVal → Bool
  | .null => true
  | _ => false

theorem snd_lt {α β} [SizeOf α] [SizeOf β] {xs : List (α × β)} {p : α × β} (h : p ∈ xs) :
    sizeOf p.2 < 1 + sizeOf xs := by
  have := List.sizeOf_lt_of_mem h
  cases p; simp at *; omega

/-- "if Target is not an Object: Target = {}" -/
def objectOrEmpty : JVal → Members
  | .obj ms => ms
  | _ => []

/-- RFC 7386 section 2:
```
define MergePatch(Target, Patch):
  if Patch is an Object:
    if Target is not an Object: Target = {}
    for each Name/Value pair in Patch:
      if Value is null: if Name exists in Target: remove the Name/Value pair from Target
      else: Target[Name] = MergePatch(Target[Name], Value)
    return Target
  else: return Patch
```
An absent `Target[Name]` is passed on as `null` (any non-object behaves the same). -/
def mergePatch (target patch : JVal) : JVal :=
  match patch with
  | .obj pms =>
    .obj (pms.attach.foldl (fun t ⟨p, _⟩ =>
      if isNull p.2 then remove t p.1
      else put t p.1 (mergePatch ((get t p.1).getD .null) p.2)) (objectOrEmpty target))
  | p => p
decreasing_by all_goals (simp_wf; exact snd_lt (by assumption))

end IwModel.Rfc
