import IwModel.Model.JVal
/-! # The RFC texts as functions over `JVal` (specifications for C15 and C16)

Objects are member lists; "the member named k" is the first pair with that name, new members are appended.
Nothing here looks at the C code: these are the definitions the models in `JsonPatch.lean` / `JsonMerge.lean` are
proved against. -/
namespace IwModel.Rfc
open IwModel

abbrev Members := List (Bytes × JVal)

/-- `Target[Name]` -/
def get (ms : Members) (k : Bytes) : Option JVal := ms.lookup k

/-- remove the Name/Value pair -/
def remove : Members → Bytes → Members
  | [], _ => []
  | (k', v') :: r, k => if k' == k then r else (k', v') :: remove r k

/-- `Target[Name] = Value` -/
def put : Members → Bytes → JVal → Members
  | [], k, v => [(k, v)]
  | (k', v') :: r, k, v => if k' == k then (k, v) :: r else (k', v') :: put r k v

def isNull : JVal → Bool
  | .null => true
  | _ => false

theorem snd_lt {α β} [SizeOf α] [SizeOf β] {xs : List (α × β)} {p : α × β} (h : p ∈ xs) :
    sizeOf p.2 < 1 + sizeOf xs := by
  have := List.sizeOf_lt_of_mem h
  cases p; simp at *; omega

/-- "if Target is not an Object: Target = {}" -/
def objectOrEmpty : JVal → Members
  | .obj ms => ms
  | _ => []

/-- RFC 7386 section 2:
```
define MergePatch(Target, Patch):
  if Patch is an Object:
    if Target is not an Object: Target = {}
    for each Name/Value pair in Patch:
      if Value is null: if Name exists in Target: remove the Name/Value pair from Target
      else: Target[Name] = MergePatch(Target[Name], Value)
    return Target
  else: return Patch
```
An absent `Target[Name]` is passed on as `null` (any non-object behaves the same). -/
def mergePatch (target patch : JVal) : JVal :=
  match patch with
  | .obj pms =>
    .obj (pms.attach.foldl (fun t ⟨p, _⟩ =>
      if isNull p.2 then remove t p.1
      else put t p.1 (mergePatch ((get t p.1).getD .null) p.2)) (objectOrEmpty target))
  | p => p
decreasing_by all_goals (simp_wf; exact snd_lt (by assumption))

end IwModel.Rfc

/-! ## RFC 6901 pointers and RFC 6902 operations

A pointer is its list of (unescaped) reference tokens; `[]` is the whole document. -/
namespace IwModel.Rfc
open IwModel

abbrev Ptr := List Bytes

def isDigit (c : Nat) : Bool := 48 ≤ c && c ≤ 57

def digitsVal : Bytes → Nat → Nat
  | [], acc => acc
  | c :: r, acc => digitsVal r (acc * 10 + (c - 48))

/-- RFC 6901 section 4: `array-index = %x30 / ( %x31-39 *(%x30-39) )` -/
def arrayIndex (seg : Bytes) : Option Nat :=
  match seg with
  | [] => none
  | [48] => some 0
  | 48 :: _ => none
  | s => if s.all isDigit then some (digitsVal s 0) else none

/-- the `-` token: the (nonexistent) element after the last one -/
def dash : Bytes := [45]

/-- RFC 6901 section 4: evaluation of a pointer -/
def getAt : JVal → Ptr → Option JVal
  | v, [] => some v
  | .obj ms, k :: r =>
    match ms.lookup k with
    | some c => getAt c r
    | none => none
  | .arr xs, k :: r =>
    match arrayIndex k with
    | some i =>
      (match xs[i]? with
       | some c => getAt c r
       | none => none)
    | none => none
  | _, _ :: _ => none

/-- rewrite the value at a location (`none`: the location does not exist or `f` fails) -/
def updAt : JVal → Ptr → (JVal → Option JVal) → Option JVal
  | v, [], f => f v
  | .obj ms, k :: r, f =>
    match ms.lookup k with
    | some c => (updAt c r f).map fun c' => .obj (put ms k c')
    | none => none
  | .arr xs, k :: r, f =>
    match arrayIndex k with
    | some i =>
      (match xs[i]? with
       | some c => (updAt c r f).map fun c' => .arr (xs.set i c')
       | none => none)
    | none => none
  | _, _ :: _, _ => none

/-- RFC 6902 4.1: what `add` does inside the container addressed by all but the last token -/
def addChild (parent : JVal) (k : Bytes) (v : JVal) : Option JVal :=
  match parent with
  | .obj ms => some (.obj (put ms k v))
  | .arr xs =>
    if k == dash then some (.arr (xs ++ [v]))
    else match arrayIndex k with
      | some i => if i ≤ xs.length then some (.arr (xs.insertIdx i v)) else none
      | none => none
  | _ => none

/-- RFC 6902 4.2: `remove` inside the parent container; the location must exist -/
def removeChild (parent : JVal) (k : Bytes) : Option JVal :=
  match parent with
  | .obj ms => if (ms.lookup k).isSome then some (.obj (remove ms k)) else none
  | .arr xs =>
    match arrayIndex k with
    | some i => if i < xs.length then some (.arr (xs.eraseIdx i)) else none
    | none => none
  | _ => none

/-- `add`: "the specified value becomes the entire content" for the root -/
def add (doc : JVal) (path : Ptr) (v : JVal) : Option JVal :=
  match path.getLast? with
  | none => some v
  | some last => updAt doc path.dropLast (fun parent => addChild parent last v)

/-- `remove`; removing the whole document is not defined (error) -/
def removeAt (doc : JVal) (path : Ptr) : Option JVal :=
  match path.getLast? with
  | none => none
  | some last => updAt doc path.dropLast (fun parent => removeChild parent last)

def properPrefix (f p : Ptr) : Bool := f.length < p.length && f.isPrefixOf p

inductive Op where
  | add (path : Ptr) (value : JVal)
  | remove (path : Ptr)
  | replace (path : Ptr) (value : JVal)
  | move (frm path : Ptr)
  | copy (frm path : Ptr)
  | test (path : Ptr) (value : JVal)

/-- JSON equality of RFC 6902 4.6: arrays position by position, objects as sets of members, everything else by value.
    (Numbers: an integer and a double are different values here, doubles are equal when their bits are.) -/
def jsonEqF : Nat → JVal → JVal → Bool
  | 0, _, _ => false
  | fuel + 1, a, b =>
    match a, b with
    | .null, .null => true
    | .bool x, .bool y => x == y
    | .int x, .int y => x == y
    | .f64 x, .f64 y => x == y
    | .str x, .str y => x == y
    | .arr xs, .arr ys => xs.length == ys.length && (xs.zip ys).all fun (p, q) => jsonEqF fuel p q
    | .obj ms, .obj ns =>
      ms.length == ns.length && ms.all fun (k, v) =>
        match ns.lookup k with
        | some w => jsonEqF fuel v w
        | none => false
    | _, _ => false

def jdepth : JVal → Nat
  | .arr xs => 1 + (xs.attach.map fun ⟨x, _⟩ => jdepth x).foldl max 0
  | .obj ms => 1 + (ms.attach.map fun ⟨p, _⟩ => jdepth p.2).foldl max 0
  | _ => 1
decreasing_by
  all_goals simp_wf
  · have := List.sizeOf_lt_of_mem ‹_›; omega
  · exact snd_lt (by assumption)

def jsonEq (a b : JVal) : Bool := jsonEqF (jdepth a + 1) a b

/-- one operation of RFC 6902 section 4; `none` = error -/
def step (doc : JVal) : Op → Option JVal
  | .add p v => add doc p v
  | .remove p => removeAt doc p
  | .replace p v =>
    match getAt doc p with
    | none => none
    | some _ => if p == [] then some v else (removeAt doc p).bind (add · p v)
  | .move f p =>
    if properPrefix f p then none
    else match getAt doc f with
      | none => none
      | some v => if f == [] then some doc else (removeAt doc f).bind (add · p v)
  | .copy f p =>
    match getAt doc f with
    | none => none
    | some v => add doc p v
  | .test p v =>
    match getAt doc p with
    | none => none
    | some w => if jsonEq w v then some doc else none

/-- RFC 6902 section 3: operations are applied in order, the first error ends the evaluation -/
def run : JVal → List Op → Option JVal
  | doc, [] => some doc
  | doc, o :: r => (step doc o).bind (run · r)

end IwModel.Rfc
