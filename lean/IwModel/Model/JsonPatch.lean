import IwModel.Model.JVal
import IwModel.Model.Conv
/-! # JSON Patch as `src/json/iwjson.c` applies it (C15)

Mirrors `_jbl_ptr_pool`, `_jbl_node_find`, `_jbl_node_detach`, `_jbn_add_item`, `_jbl_compare_nodes`,
`_jbl_target_apply_patch`, `_jbl_create_patch`, `_jbl_patch_node`, `_jbl_patch`, `jbn_patch_auto`,
`jbl_patch_from_json` of the tree *with the `fix:` commits of C15* (see design_notes/C15.md).

A document is a tree of `Node`s.  What the C code keeps per node and the patch code depends on is kept here too:
array children carry their **cached index `klidx`** (look-ups go by `klidx`, insertion goes by counting), object
children carry their key.  Pointers into the C tree are rendered as *position paths* (`List Nat`: which child at each
level), so the few places where the C code holds a pointer across a structural change (`swap`) stay expressible. -/
namespace IwModel.Patch
open IwModel

inductive Node where
  | none                                   -- JBV_NONE: the root after `remove` of the whole document
  | null
  | bool (b : Bool)
  | int (i : Int)
  | f64 (bits : Nat)
  | str (s : Bytes)
  | arr (xs : List (Int × Node))           -- (klidx, element)
  | obj (ms : List (Bytes × Node))         -- (key, member), insertion order
deriving Repr, Inhabited

theorem snd_lt {α β} [SizeOf α] [SizeOf β] {xs : List (α × β)} {p : α × β} (h : p ∈ xs) :
    sizeOf p.2 < 1 + sizeOf xs := by
  have := List.sizeOf_lt_of_mem h
  cases p; simp at *; omega

/-- `jbl_type_t` -/
def Node.typeNo : Node → Nat
  | .none => 0 | .null => 1 | .bool _ => 2 | .int _ => 3 | .f64 _ => 4 | .str _ => 5 | .obj _ => 6 | .arr _ => 7

def Node.isObj : Node → Bool
  | .obj _ => true
  | _ => false

/-- number the elements of an array 0, 1, 2 … -/
def number (xs : List Node) : List (Int × Node) :=
  xs.zipIdx.map fun (n, i) => ((i : Int), n)

/-- tree built by the parsers / `jbn_add_item`: every array child carries its position -/
def ofJ : JVal → Node
  | .null => .null
  | .bool b => .bool b
  | .int i => .int i
  | .f64 b => .f64 b
  | .str s => .str s
  | .arr xs => .arr (number (xs.map ofJ))
  | .obj ms => .obj (ms.map fun p => (p.1, ofJ p.2))
decreasing_by all_goals (simp_wf; first | exact snd_lt (by assumption) | (have := List.sizeOf_lt_of_mem ‹_›; omega))

/-- the JSON value a tree denotes (what the printers and the binary encoder see): `klidx` is forgotten -/
def erase : Node → JVal
  | .none => .null
  | .null => .null
  | .bool b => .bool b
  | .int i => .int i
  | .f64 b => .f64 b
  | .str s => .str s
  | .arr xs => .arr (xs.map fun p => erase p.2)
  | .obj ms => .obj (ms.map fun p => (p.1, erase p.2))
decreasing_by all_goals (simp_wf; exact snd_lt (by assumption))

/-- `klidx = position` for every array child, everywhere in the tree (executable form of `WF`) -/
def klOk : Node → Bool
  | .arr xs => (xs.zipIdx.all fun (p, i) => p.1 == (i : Int)) && xs.attach.all fun ⟨p, _⟩ => klOk p.2
  | .obj ms => ms.attach.all fun ⟨p, _⟩ => klOk p.2
  | _ => true
decreasing_by all_goals (simp_wf; exact snd_lt (by assumption))

/-! ## Error codes (names as printed by the harness) -/

inductive Err where
  | ok | invalidArgs | notImplemented | jsonPointer | pathNotfound | patchInvalid | patchInvalidOp | patchNovalue
  | patchTargetInvalid | patchInvalidValue | patchInvalidArrayIndex | patchTestFailed | creation | unmodelled
deriving Repr, BEq, DecidableEq, Inhabited

def Err.name : Err → String
  | .ok => "ok" | .invalidArgs => "invalid-args" | .notImplemented => "not-implemented" | .jsonPointer => "json-pointer"
  | .pathNotfound => "path-notfound" | .patchInvalid => "patch-invalid" | .patchInvalidOp => "patch-invalid-op"
  | .patchNovalue => "patch-novalue" | .patchTargetInvalid => "patch-target-invalid"
  | .patchInvalidValue => "patch-invalid-value" | .patchInvalidArrayIndex => "patch-invalid-array-index"
  | .patchTestFailed => "patch-test-failed" | .creation => "creation" | .unmodelled => "unmodelled"

/-! ## JSON pointer text → segments (`_jbl_ptr_pool`) -/

abbrev Ptr := List Bytes

/-- unescape one segment: `~0` → `~`, `~1` → `/`; any other use of `~` leaves the C code in undefined territory
    (finding F10, property C14/C17) and is not modelled -/
def unescape : Bytes → Option Bytes
  | [] => some []
  | 126 :: 48 :: r => (unescape r).map (126 :: ·)
  | 126 :: 49 :: r => (unescape r).map (47 :: ·)
  | 126 :: _ => none
  | c :: r => (unescape r).map (c :: ·)

/-- split at every `/` (47) -/
def splitSlash : Bytes → Bytes → List Bytes
  | [], cur => [cur.reverse]
  | 47 :: r, cur => cur.reverse :: splitSlash r []
  | c :: r, cur => splitSlash r (c :: cur)

def parsePtr (path : Bytes) : Except Err Ptr :=
  match path with
  | [] => .ok []
  | 47 :: rest =>
    if path.length > 1 ∧ path.getLast? = some 47 then .error .jsonPointer
    else
      match (splitSlash rest []).mapM unescape with
      | some segs => .ok segs
      | none => .error .unmodelled
  | _ => .error .jsonPointer

/-! ## Navigation -/

def dash : Bytes := [45]

/-- accumulate decimal digits as `_jbl_ptr_array_index` does: stop at a non-digit or when the next step could pass
    `INT32_MAX` -/
def idxAcc : Bytes → Nat → Option Nat
  | [], acc => some acc
  | c :: r, acc => if c < 48 ∨ c > 57 ∨ acc > 214748363 then none else idxAcc r (acc * 10 + (c - 48))

/-- `_jbl_ptr_array_index` (fix 13b7726): an rfc6901 array index — `0`, or digits without a leading zero -/
def canonIdx (seg : Bytes) : Option Nat :=
  match seg with
  | [] => none
  | [48] => some 0
  | 48 :: _ => none
  | s => idxAcc s 0

/-- one step of `_jbl_node_find`: which child (position) a segment selects -/
def childIdx (n : Node) (seg : Bytes) : Option Nat :=
  match n with
  | .obj ms => ms.findIdx? (fun p => p.1 == seg)
  | .arr xs =>
    if seg == dash then (if xs.isEmpty then none else some (xs.length - 1))
    else match canonIdx seg with
      | none => none
      | some idx => xs.findIdx? (fun p => p.1 == (idx : Int))
  | _ => none

def child? (n : Node) (i : Nat) : Option Node :=
  match n with
  | .arr xs => xs[i]?.map (·.2)
  | .obj ms => ms[i]?.map (·.2)
  | _ => none

/-- the node at a position path -/
def getP : Node → List Nat → Option Node
  | n, [] => some n
  | n, i :: r => match child? n i with
    | some c => getP c r
    | none => none

/-- apply `f` to the node at a position path (slots keep their key / klidx) -/
def modP : Node → List Nat → (Node → Node) → Node
  | n, [], f => f n
  | .arr xs, i :: r, f => .arr (xs.modify i fun p => (p.1, modP p.2 r f))
  | .obj ms, i :: r, f => .obj (ms.modify i fun p => (p.1, modP p.2 r f))
  | n, _ :: _, _ => n

def setP (n : Node) (ps : List Nat) (v : Node) : Node := modP n ps fun _ => v

/-- `_jbl_node_find(node, ptr, 0, cnt)` as a position path -/
def locate : Node → Ptr → Option (List Nat)
  | _, [] => some []
  | n, s :: r =>
    match childIdx n s with
    | none => none
    | some i =>
      match child? n i with
      | none => none
      | some c => (locate c r).map (i :: ·)

def find (n : Node) (p : Ptr) : Option Node := (locate n p).bind (getP n)

/-- `_jbn_remove_item` on child `i`, preceded by the renumbering of `_jbl_node_detach` (fix 5966b62) -/
def removeChild (parent : Node) (i : Nat) : Node :=
  match parent with
  | .arr xs => .arr (xs.take i ++ (xs.drop (i + 1)).map fun p => (p.1 - 1, p.2))
  | .obj ms => .obj (ms.eraseIdx i)
  | n => n

/-- `_jbn_add_item(parent, node)` (the caller has set `node->key = key` for objects) -/
def addItem (parent : Node) (key : Bytes) (v : Node) : Node :=
  match parent with
  | .arr xs => .arr (xs ++ [((match xs.getLast? with | some p => p.1 + 1 | none => 0), v)])
  | .obj ms => .obj (ms ++ [(key, v)])
  | n => n      -- a scalar gets an invisible `child` pointer

/-- `_jbl_node_detach(target, path)`: new tree, the detached node, and where it was -/
def detach (target : Node) (path : Ptr) : Option (Node × Node × List Nat) :=
  match path.getLast? with
  | none => none                                  -- zero segments: nothing to detach (fix 6caafa0)
  | some last =>
    match locate target path.dropLast with
    | none => none
    | some pp =>
      match getP target pp with
      | none => none
      | some parent =>
        match childIdx parent last with
        | none => none
        | some i =>
          match child? parent i with
          | none => none
          | some c => some (modP target pp (removeChild · i), c, pp ++ [i])

/-! ## Comparison (`_jbl_compare_nodes` = 0) -/

/-- order used by `_jbl_cmp_node_keys`: key length first, then bytes -/
def keyLe (a b : Bytes) : Bool :=
  a.length < b.length || (a.length == b.length && decide (a ≤ b))

def insKey (p : Bytes × Node) : List (Bytes × Node) → List (Bytes × Node)
  | [] => [p]
  | q :: r => if keyLe p.1 q.1 then p :: q :: r else q :: insKey p r

def sortKeys : List (Bytes × Node) → List (Bytes × Node)
  | [] => []
  | p :: r => insKey p (sortKeys r)

/-- `_jbl_compare_nodes(a, b) == 0` with `fuel` ≥ depth. Doubles: the C code compares the printed texts
    (`iwjson_ftoa` + `iwafcmp`); the model compares bit patterns (assumption: listed in the check). -/
def nodeEqF : Nat → Node → Node → Bool
  | 0, _, _ => false
  | fuel + 1, a, b =>
    match a, b with
    | .none, .none => true
    | .null, .null => true
    | .bool x, .bool y => x == y
    | .int x, .int y => x == y
    | .f64 x, .f64 y => x == y
    | .str x, .str y => x == y
    | .arr xs, .arr ys =>
      xs.length == ys.length && (xs.zip ys).all fun (p, q) => nodeEqF fuel p.2 q.2
    | .obj ms, .obj ns =>
      ms.length == ns.length &&
        ((sortKeys ms).zip (sortKeys ns)).all fun (p, q) => p.1 == q.1 && nodeEqF fuel p.2 q.2
    | _, _ => false

def depth : Node → Nat
  | .arr xs => 1 + (xs.attach.map fun ⟨p, _⟩ => depth p.2).foldl max 0
  | .obj ms => 1 + (ms.attach.map fun ⟨p, _⟩ => depth p.2).foldl max 0
  | _ => 1
decreasing_by all_goals (simp_wf; exact snd_lt (by assumption))

def nodeEq (a b : Node) : Bool := nodeEqF (depth a + 1) a b

/-! ## One operation (`_jbl_target_apply_patch`) -/

inductive OpK where
  | unset | add | remove | replace | copy | move | test | increment | addCreate | swap
deriving Repr, BEq, DecidableEq, Inhabited

/-- a decoded operation (`struct jbl_patch_ext`) -/
structure POp where
  op : OpK
  path : Ptr
  frm : Option Ptr
  value : Option Node
deriving Repr, Inhabited

def f64add (a b : Nat) : Nat :=
  (Float.ofBits (UInt64.ofNat a) + Float.ofBits (UInt64.ofNat b)).toBits.toNat

def f64ofInt (i : Int) : Nat := (Float.ofInt i).toBits.toNat

/-- `(int64_t) d` for doubles inside the int64 range (truncation) -/
def f64toInt (bits : Nat) : Int := (Float.ofBits (UInt64.ofNat bits)).toInt64.toInt

def inInt64 (i : Int) : Bool := decide (-(2 ^ 63 : Int) ≤ i) && decide (i < 2 ^ 63)

/-- the double lies in [-2^63, 2^63) (false for NaN and the infinities): `(int64_t) d` is defined -/
def f64inI64 (bits : Nat) : Bool :=
  let f := Float.ofBits (UInt64.ofNat bits)
  f >= -9223372036854775808.0 && f < 9223372036854775808.0

/-- `_jbl_increment_node_data` (after the fix: an increment that leaves the int64 range is refused, the target keeps its value) -/
def increment (target value : Node) : Node × Err :=
  match value with
  | .int v =>
    (match target with
     | .int t => if inInt64 (t + v) then (.int (Conv.wrap64 (t + v)), .ok) else (target, .patchInvalidValue)
     | .f64 t => (.f64 (f64add t (f64ofInt v)), .ok)
     | _ => (target, .patchTargetInvalid))
  | .f64 v =>
    (match target with
     | .int t =>
       if f64inI64 v && inInt64 (t + f64toInt v) then (.int (Conv.wrap64 (t + f64toInt v)), .ok) else (target, .patchInvalidValue)
     | .f64 t => (.f64 (f64add t v), .ok)
     | _ => (target, .patchTargetInvalid))
  | _ => (target, .patchInvalidValue)

def setChild (parent : Node) (i : Nat) (v : Node) : Node :=
  match parent with
  | .arr xs => .arr (xs.modify i fun p => (p.1, v))
  | .obj ms => .obj (ms.modify i fun p => (p.1, v))
  | n => n

/-- put `value` under `parent` at segment `last` (everything but `swap`): the array / object branches at the end of
    `_jbl_target_apply_patch` -/
def insertPlain (parent : Node) (last : Bytes) (op : OpK) (value : Node) : Node × Err :=
  match parent with
  | .arr xs =>
    if op == .increment then        -- fix b4d8676: increments the addressed element
      match childIdx parent last with
      | some i =>
        (match child? parent i with
         | some c => let r := increment c value; (setChild parent i r.1, r.2)
         | none => (parent, .patchTargetInvalid))
      | none => (parent, .patchTargetInvalid)
    else if last == dash then (addItem parent last value, .ok)
    else
      match canonIdx last with
      | none => (parent, .patchInvalidArrayIndex)
      | some pos =>
        if pos > xs.length then (parent, .patchInvalidArrayIndex)
        else if pos < xs.length then
          (.arr (xs.take pos ++ ((pos : Int), value) :: (xs.drop pos).map fun p => (p.1 + 1, p.2)), .ok)
        else (addItem parent last value, .ok)
  | .obj ms =>
    match childIdx parent last with
    | some i =>
      if op == .increment then
        match child? parent i with
        | some c => let r := increment c value; (setChild parent i r.1, r.2)
        | none => (parent, .patchTargetInvalid)
      else (setChild parent i value, .ok)
    | none =>
      if op == .increment then (parent, .patchTargetInvalid)
      else (.obj (ms ++ [(last, value)]), .ok)
  | _ => (parent, .patchTargetInvalid)

/-- the `add_create` loop: walk / create object members for `segs`, then insert -/
def createChain (n : Node) (segs : List Bytes) (last : Bytes) (op : OpK) (value : Node) : Node × Err :=
  match segs with
  | [] => insertPlain n last op value
  | s :: r =>
    match childIdx n s with
    | some i =>
      match child? n i with
      | some c =>
        if c.isObj then
          let res := createChain c r last op value
          (setChild n i res.1, res.2)
        else (n, .patchTargetInvalid)
      | none => (n, .patchTargetInvalid)
    | none =>
      let res := createChain (.obj []) r last op value
      (addItem n s res.1, res.2)

/-- place `value` at `path` (non-root, not `swap`) -/
def place (target : Node) (op : OpK) (path : Ptr) (value : Node) : Node × Err :=
  match path.getLast? with
  | none => (target, .patchTargetInvalid)     -- unreachable: zero segments is a root operation
  | some last =>
    match locate target path.dropLast with
    | some pp =>
      (match getP target pp with
       | some parent =>
         let r := insertPlain parent last op value
         (setP target pp r.1, r.2)
       | none => (target, .patchTargetInvalid))
    | none =>
      if op == .addCreate then createChain target path.dropLast last op value
      else (target, .patchTargetInvalid)

def isPrefix : List Nat → List Nat → Bool
  | [], _ => true
  | _ :: _, [] => false
  | a :: r, b :: s => a == b && isPrefix r s

/-- `_jbl_copy_node_data` three times: exchange the contents of the nodes at two position paths.  When one node lies
    inside the other, the inner one ends up unreachable. -/
def swapData (target : Node) (fp cp : List Nat) : Node :=
  match getP target fp, getP target cp with
  | some vf, some vc =>
    if fp == cp then target
    else if isPrefix fp cp then setP target fp vc
    else if isPrefix cp fp then setP target cp vf
    else setP (setP target fp vc) cp vf
  | _, _ => target

/-- where a position path points after the node at `fp` has been unlinked; `none`: inside the unlinked subtree -/
def adjust : List Nat → List Nat → Option (List Nat)
  | pp, [] => some pp
  | [], _ :: _ => some []
  | j :: pr, [i] => if j == i then none else if j > i then some ((j - 1) :: pr) else some (j :: pr)
  | j :: pr, i :: fr => if j == i then (adjust pr fr).map (j :: ·) else some (j :: pr)

/-- the `swap` extension -/
def applySwap (target : Node) (path : Ptr) (frm : Option Ptr) : Node × Err :=
  match frm with
  | none => (target, .pathNotfound)
  | some from_ =>
    match locate target from_ with
    | none => (target, .pathNotfound)
    | some fp =>
      match path.getLast?, locate target path.dropLast with
      | some last, some pp =>
        (match getP target pp with
         | none => (target, .patchTargetInvalid)
         | some parent =>
           -- `value = _jbl_node_detach(target, from); _jbn_add_item(parent, value)` with `parent` found before
           let moveIt : Node × Err :=
             match detach target from_ with
             | none => (target, .ok)          -- `from` is the root: the C code would dereference NULL; not generated
             | some (t', v, fp') =>
               match adjust pp fp' with
               | none => (t', .ok)
               | some pp' => (modP t' pp' (fun par => addItem par last v), .ok)
           match parent with
           | .arr xs =>
             if last == dash then moveIt
             else
               match canonIdx last with
               | none => (target, .patchInvalidArrayIndex)
               | some pos =>
                 if pos > xs.length then (target, .patchInvalidArrayIndex)
                 else if pos < xs.length then (swapData target fp (pp ++ [pos]), .ok)
                 else moveIt
           | .obj _ =>
             (match childIdx parent last with
              | some i => (swapData target fp (pp ++ [i]), .ok)
              | none => moveIt)
           | _ => (target, .patchTargetInvalid))
      | _, _ => (target, .patchTargetInvalid)

/-- `from` is a proper prefix of `path` (segment-wise) -/
def properPrefix (f p : Ptr) : Bool := f.length < p.length && f.isPrefixOf p

def applyOp (target : Node) (o : POp) : Node × Err :=
  let oproot := o.path == [] || o.path == [[]]
  if o.frm.isNone && (o.op == .move || o.op == .copy || o.op == .swap) then (target, .patchInvalid)  -- fix fb0ec7c
  else if o.op == .swap && o.frm == some [] then (target, .patchTargetInvalid)                          -- fix: swap from ""
  else if o.op == .move && properPrefix (o.frm.getD []) o.path then (target, .patchTargetInvalid)       -- fix d8d10ab
  else if o.op == .test then
    match o.value with
    | none => (target, .patchNovalue)
    | some v =>
      match (if oproot then some target else find target o.path) with
      | some f => if nodeEq f v then (target, .ok) else (target, .patchTestFailed)
      | none => (target, .patchTestFailed)
  else if oproot then
    match o.op with
    | .remove => (.none, .ok)
    | .replace | .add | .addCreate =>
      (match o.value with
       | none => (target, .patchNovalue)
       | some v => (v, .ok))
    | .copy | .move =>        -- fix 192b8db: the value at `from` becomes the document
      (match o.frm.bind (find target) with
       | none => (target, .pathNotfound)
       | some v => (v, .ok))
    | _ => (target, .ok)
  else
    match o.op with
    | .remove =>
      (match detach target o.path with
       | none => (target, .pathNotfound)
       | some (t, _, _) => (t, .ok))
    | .replace =>
      (match detach target o.path with
       | none => (target, .pathNotfound)
       | some (t, _, _) =>
         match o.value with
         | none => (t, .patchNovalue)
         | some v => place t .replace o.path v)
    | .move =>
      (match o.frm.bind (detach target) with
       | none => (target, .pathNotfound)
       | some (t, v, _) => place t .move o.path v)
    | .copy =>
      (match o.frm.bind (find target) with
       | none => (target, .pathNotfound)
       | some v => place target .copy o.path v)
    | .swap => applySwap target o.path o.frm
    | op =>   -- add, increment, add_create, and an operation without a (recognised) "op" member
      (match o.value with
       | none => (target, .patchNovalue)
       | some v => place target op o.path v)

/-- the application loop of `_jbl_patch_node` -/
def runOps : Node → List POp → Node × Err
  | t, [] => (t, .ok)
  | t, o :: r =>
    match applyOp t o with
    | (t', .ok) => runOps t' r
    | res => res

/-! ## Patch text decoding (`_jbl_create_patch`) -/

def ascii (s : String) : Bytes := s.toList.map Char.toNat

/-- `!strncmp(name, data, len)` for NUL-free data: data is a prefix of the name -/
def isPre (data : Bytes) (name : String) : Bool := data.isPrefixOf (ascii name)

def opNames : List (String × OpK) :=
  [("add", .add), ("remove", .remove), ("replace", .replace), ("copy", .copy), ("move", .move), ("test", .test),
   ("increment", .increment), ("add_create", .addCreate), ("swap", .swap)]

/-- a raw operation: pointer texts not parsed yet (`struct jbl_patch`) -/
structure RawOp where
  op : OpK := .unset
  path : Option Bytes := none
  frm : Option Bytes := none
  value : Option Node := none
deriving Repr, Inhabited

def decodeMembers : List (Bytes × Node) → RawOp → Except Err RawOp
  | [], acc => .ok acc
  | (k, v) :: r, acc =>
    if isPre k "op" then
      match v with
      | .str s =>
        (match opNames.find? (fun p => isPre s p.1) with
         | some p => decodeMembers r { acc with op := p.2 }
         | none => .error .patchInvalidOp)
      | _ => .error .patchInvalid
    else if isPre k "value" then decodeMembers r { acc with value := some v }
    else if isPre k "path" then
      match v with
      | .str s => decodeMembers r { acc with path := some s }
      | _ => .error .patchInvalid
    else if isPre k "from" then
      match v with
      | .str s => decodeMembers r { acc with frm := some s }
      | _ => .error .patchInvalid
    else decodeMembers r acc

def children (n : Node) : List Node :=
  match n with
  | .arr xs => xs.map (·.2)
  | .obj ms => ms.map (·.2)
  | _ => []

def decode (patch : Node) : Except Err (List RawOp) :=
  let cs := children patch
  if cs.all (·.isObj) then
    cs.mapM fun c => match c with
      | .obj ms => decodeMembers ms {}
      | _ => .error .patchInvalid
  else .error .patchInvalid

/-- pointer texts of one operation → segments (`_jbl_ptr_pool` on `path`, then on `from` when present) -/
def parseOne (o : RawOp) : Except Err POp :=
  match parsePtr (o.path.getD []) with
  | .error e => .error e
  | .ok path =>
    match o.frm with
    | none => .ok { op := o.op, path := path, frm := none, value := o.value }
    | some f =>
      match parsePtr f with
      | .error e => .error e
      | .ok fp => .ok { op := o.op, path := path, frm := some fp, value := o.value }

/-- the pointer-parsing loop at the head of `_jbl_patch_node`: stops at the first bad pointer -/
def parseOps (ops : List RawOp) : Except Err (List POp) := ops.mapM parseOne

/-- `_jbl_patch_node` -/
def patchNode (root : Node) (ops : List RawOp) : Node × Err :=
  if ops.isEmpty then (root, .ok)
  else match parseOps ops with
    | .error e => (root, e)
    | .ok ps => runOps root ps

/-- `jbn_patch_auto` for an array patch, `jbn_patch` after decoding -/
def patchTree (root patch : Node) : Node × Err :=
  match decode patch with
  | .error e => (root, e)
  | .ok ops => patchNode root ops

/-- the tail of `_jbl_patch`: re-encode and swap in only on success; the holder keeps its bytes on every failure.
    `none` = the holder was emptied (root removed). -/
def finishBinary (doc : JVal) (r : Node × Err) : Option JVal × Err :=
  match r with
  | (.none, .ok) => (none, .ok)
  | (t, .ok) => (some (erase t), .ok)
  | (_, e) => (some doc, e)

/-- `_jbl_patch` after decoding: the binary document is decoded to a tree, patched, re-encoded -/
def applyBinary (doc : JVal) (ops : List RawOp) : Option JVal × Err :=
  if ops.isEmpty then (some doc, .ok) else finishBinary doc (patchNode (ofJ doc) ops)

/-- `jbl_patch` / the array branch of `jbl_patch_from_json` -/
def patchBinary (doc : JVal) (patch : Node) : Option JVal × Err :=
  match decode patch with
  | .error e => (some doc, e)
  | .ok ops => applyBinary doc ops

/-- `jbl_patch_from_json` dispatch on the type of the parsed patch text -/
def patchFromJson (doc : JVal) (patch : Node) : Option JVal × Err :=
  match patch with
  | .arr _ => patchBinary doc patch
  | .obj _ => (some doc, .notImplemented)
  | _ => (some doc, .patchInvalid)

end IwModel.Patch
