import IwModel.Model.JsonPatch
/-! # JSON Merge Patch as `src/json/iwjson.c` applies it (C16)

Mirrors `_jbl_merge_patch_node` and its callers `jbn_merge_patch`, `jbn_merge_patch_from_json`, `jbl_merge_patch`,
`jbl_merge_patch_jbl`, `jbn_patch_auto` (object patch), `jbn_merge_patch_create`, `jbn_merge_patch_path`.
The merge only ever looks at object members by key, so the model works on `JVal` (member lists in insertion order);
pool and heap allocation give the same values (the heap variant differs in what it frees, see `Own` below). -/
namespace IwModel.Merge
open IwModel

def isNull : JVal → Bool
  | .null => true
  | _ => false

def members : JVal → List (Bytes × JVal)
  | .obj ms => ms
  | _ => []

/-- the `while (node)` scan for the first member with the patch member's key -/
def findKey (ms : List (Bytes × JVal)) (k : Bytes) : Option Nat := ms.findIdx? (fun p => p.1 == k)

/-- a missing or non-object target becomes an empty object first -/
def targetMembers : Option JVal → List (Bytes × JVal)
  | some t => members t
  | none => []

/-- `_jbl_merge_patch_node(target, patch, pool, &rc)`: the value of the node it returns.
    `target = none` is the C call with `target == 0` (a member that does not exist yet). -/
def mergeNode (target : Option JVal) (patch : JVal) : JVal :=
  match patch with
  | .obj pms =>
    .obj (pms.attach.foldl (fun tms ⟨p, _⟩ =>
      if isNull p.2 then
        match findKey tms p.1 with
        | some i => tms.eraseIdx i            -- `_jbn_remove_item`
        | none => tms
      else
        match findKey tms p.1 with
        | some i => tms.modify i fun q => (q.1, mergeNode (some q.2) p.2)   -- `_jbl_copy_node_data(node, src)`
        | none => tms ++ [(p.1, mergeNode none p.2)]                        -- `_jbn_add_item`
      ) (targetMembers target))
  | p => p
decreasing_by all_goals (simp_wf; exact Patch.snd_lt (by assumption))

abbrev Err := Patch.Err

/-- `jbn_merge_patch(root, patch, pool)` -/
def mergePatch (root patch : JVal) : JVal × Err :=
  match root with
  | .obj _ => (mergeNode (some root) patch, .ok)
  | _ => (root, .invalidArgs)

/-- `jbn_merge_patch_from_json(root, text, pool)` once the text is parsed: `memcpy(root, res)` -/
def mergeFromJson (root patch : JVal) : JVal × Err := (mergeNode (some root) patch, .ok)

/-- `jbn_patch_auto` with an object patch merges in place (no check of the root's type) -/
def mergeAuto (root patch : JVal) : JVal × Err := (mergeNode (some root) patch, .ok)

/-- `jbl_merge_patch` / `jbl_merge_patch_jbl`: decode, `jbn_merge_patch_from_json`, encode, swap -/
def mergeBinary (doc patch : JVal) : JVal × Err := (mergeNode (some doc) patch, .ok)

/-- `jbn_merge_patch_create(path, val)`: nested one-member objects along the pointer, `val` (or `{}`) innermost;
    the root pointers `""` and `"/"` give `val` itself -/
def wrap : List Bytes → Option JVal → JVal
  | [], v => v.getD (.obj [])
  | k :: r, v => .obj [(k, wrap r v)]

def createPatch (path : Bytes) (val : Option JVal) : Except Err (Option JVal) :=
  if path == [] || path == [47] then .ok val
  else match Patch.parsePtr path with
    | .error e => .error e
    | .ok segs => .ok (some (wrap segs val))

/-- `jbn_merge_patch_path(root, path, val, pool)` -/
def mergePath (root : JVal) (path : Bytes) (val : Option JVal) : JVal × Err :=
  match createPatch path val with
  | .error e => (root, e)
  | .ok none => (root, .invalidArgs)
  | .ok (some p) => mergePatch root p

end IwModel.Merge
