import IwModel.Model.Exf
/-! # The data listener of the extensible file (`IWDLSNR`, src/fs/iwdlsnr.h)

`iwexfile.c` / `iwfile.c` report every change they make to the file to an optional listener; the write-ahead log of
iwkv (`src/kv/iwal.c`) is such a listener and rebuilds the file from what it was told.  This file repeats the
functions of `Model/Exf.lean` that can change the file, with the calls to the listener woven in at the places where
the C code has them: every function returns, next to its old results, the list of listener calls it made, in order.
(`Lemmas/ExfLsn.lean` proves that forgetting the events gives back the functions of `Model/Exf.lean` exactly.)

Calls to the listener in the C code (the tree **with** the fix of the window-relative offset in `_exfile_write`):

* `_exfile_truncate_lw`: `onresize(old_size, size)` before the size changes, for growth and for shrinking; nothing when
  the rounded size equals the current one or `maxoff` refuses.  When the listener answers `handled = true` the function
  does not resize at all: the listener has done it (the WAL writes the record, rolls the log forward and applies the
  resize itself with `truncate_unsafe` while its own events are switched off) — mode `handling`, the nested call shows
  up as a nested `resize` event that the listener ignores;
* `_exfile_write`: a piece that goes through a mapped window: `onwrite(off, piece)` then `memcpy`; a piece that goes through
  the file: `_iwfs_write` = `pwrite` then `onwrite(off, piece)`;
* `_exfile_copy`: inside the first window: `onwrite(noff, bytes at the source)` then `memmove`; otherwise `_iwfs_copy`
  = `iwp_copy_bytes`, then `oncopy(off, siz, noff)` if that succeeded;
* `_iwfs_sync`: `onsynced`; `_exfile_close`: `onclosing`; `onopen` and `onset` are never called by these two files
  (`onset` is used by `iwfsmfile.c` for its bitmap);
* a store through the pointer of `acquire_mmap` is **not** reported: the caller has to do it (iwkv and iwfsmfile call
  `onwrite` / `onset` themselves) — `mmapWriteL … reported`. -/
namespace IwModel.Exf
open IwModel

/-- one call received by the listener -/
inductive Ev where
  /-- `onwrite(off, buf, len)` -/
  | write (off : Nat) (d : Bytes)
  /-- `onset(off, val, len)` -/
  | set (off val len : Nat)
  /-- `oncopy(off, len, noff)` -/
  | copy (off len noff : Nat)
  /-- `onresize(osize, nsize)`; `nested`: received while the listener itself performs the resize -/
  | resize (osize nsize : Nat) (nested : Bool)
  | synced
  | closing
deriving Repr, DecidableEq, Inhabited

/-- how the listener answers `onresize` -/
inductive Lsn where
  /-- `handled = false`: the file layer resizes -/
  | passive
  /-- `handled = true`: the listener resizes with `truncate_unsafe` (as `iwal.c` does) -/
  | handling
deriving Repr, DecidableEq, Inhabited

/-! ## what a listener can rebuild: the shadow copy -/

/-- the listener's copy of the file: bytes and the size it was told last -/
structure Shadow where
  bytes : Bytes
  size : Nat
deriving Repr, DecidableEq, Inhabited

/-- apply one event the way `_rollforward_exl` of the WAL does: `memmove` of the payload, `memset`, `memmove` inside the file,
    `truncate` (new bytes are zero); a resize received while the listener resizes is its own echo -/
def Ev.apply (sh : Shadow) : Ev → Shadow
  | .write off d => { sh with bytes := writeAt sh.bytes off d }
  | .set off val len => { sh with bytes := writeAt sh.bytes off (List.replicate len val) }
  | .copy off len noff => { sh with bytes := writeAt sh.bytes noff (readAt sh.bytes off len) }
  | .resize _ nsize false => { bytes := Exf.resize sh.bytes nsize, size := nsize }
  | .resize _ _ true => sh
  | .synced => sh
  | .closing => sh

def replay (sh : Shadow) (evs : List Ev) : Shadow := evs.foldl Ev.apply sh

/-- the event makes sense for a listener that applies it to a mapping of exactly `size` bytes: ranges inside the size, the old
    size of a resize is the size it knows (the echo of its own resize: the new size is) -/
def Ev.fits (sh : Shadow) : Ev → Bool
  | .write off d => decide (off + d.length ≤ sh.size)
  | .set off _ len => decide (off + len ≤ sh.size)
  | .copy off len noff => decide (off + len ≤ sh.size) && decide (noff + len ≤ sh.size)
  | .resize osize _ false => decide (osize = sh.size)
  | .resize _ nsize true => decide (nsize = sh.size)
  | .synced => true
  | .closing => true

/-- replay that refuses an event that does not fit -/
def replayChecked (sh : Shadow) : List Ev → Option Shadow
  | [] => some sh
  | e :: es => if e.fits sh then replayChecked (e.apply sh) es else none

/-! ## the functions of `Model/Exf.lean` with the listener calls -/

def resizeEvents (m : Lsn) (osize nsize : Nat) : List Ev :=
  match m with
  | .passive => [.resize osize nsize false]
  | .handling => [.resize osize nsize false, .resize osize nsize true]

/-- `_exfile_truncate_lw` with a listener.  In mode `handling` the state change is made by the nested
    `truncate_unsafe(nsize)` of the listener: same old size, same (already rounded) new size, hence the same branch. -/
def truncateL (m : Lsn) (st : St) (size : Nat) : Rc × St × List Ev :=
  let size := roundUp size st.psize
  if st.fsize = size then (.ok, st, [])
  else if st.fsize < size then
    if st.maxoff ≠ 0 ∧ size > st.maxoff then (.maxoff, st, [])
    else (.ok, { st with fsize := size, file := resize st.file size, slots := remapAll size st.slots },
          resizeEvents m st.fsize size)
  else (.ok, { st with fsize := size, file := resize st.file size, slots := remapAll size st.slots },
        resizeEvents m st.fsize size)

/-- `_exfile_ensure_size_lw` -/
def ensureSizeL (m : Lsn) (st : St) (sz : Nat) : Rc × St × List Ev :=
  if st.fsize ≥ sz then (.ok, st, [])
  else
    let (nsz, prev') := policy st.psize st.pol st.prev sz st.fsize
    let st := { st with prev := prev' }
    if nsz < sz ∨ nsz % st.psize ≠ 0 then (.policy, st, [])
    else if st.maxoff ≠ 0 ∧ nsz > st.maxoff then
      if st.maxoff < sz then (.maxoff, st, []) else truncateL m st st.maxoff
    else truncateL m st nsz

/-- one piece of `_exfile_write`: both paths report `onwrite(file offset of the piece, piece)` -/
def writeSegL (ps : Nat) (file : Bytes) (slots : List Slot) (g : Seg) (d : Bytes) : List Slot × Bytes × List Ev :=
  match g.slot with
  | none => (slots, writeAt file g.off d, [.write g.off d])
  | some k =>
    match slots[k]? with
    | some s =>
      let (s', file') := slotWrite ps file s (g.off - s.off) d
      (slots.set k s', file', [.write g.off d])
    | none => (slots, file, [])

def writeSegsL (ps : Nat) : List Seg → Bytes → List Slot → Bytes → List Slot × Bytes × List Ev
  | [], _, slots, file => (slots, file, [])
  | g :: gs, d, slots, file =>
    let (slots', file', e1) := writeSegL ps file slots g (d.take g.len)
    let (slots'', file'', e2) := writeSegsL ps gs (d.drop g.len) slots' file'
    (slots'', file'', e1 ++ e2)

/-- `_exfile_write` -/
def writeL (m : Lsn) (st : St) (off : Int) (d : Bytes) : Rc × Nat × St × List Ev :=
  if off < 0 ∨ off + d.length > offTMax then (.oob, 0, st, [])
  else
    let off := off.toNat
    let fin := off + d.length
    if st.maxoff ≠ 0 ∧ fin > st.maxoff then (.maxoff, 0, st, [])
    else
      let (rc, st, e1) := if fin > st.fsize then ensureSizeL m st fin else (.ok, st, [])
      if rc ≠ .ok then (rc, 0, st, e1)
      else
        let (slots, file, e2) := writeSegsL st.psize (segs st.slots 0 off d.length) d st.slots st.file
        (.ok, d.length, { st with slots := slots, file := file }, e1 ++ e2)

/-- `_iwfs_copy`: `oncopy` only when `iwp_copy_bytes` succeeded -/
def fileCopyL (cbuf : Nat) (file : Bytes) (off siz noff : Nat) : Rc × Bytes × List Ev :=
  let (rc, file') := fileCopy cbuf file off siz noff
  (rc, file', if rc = .ok then [.copy off siz noff] else [])

/-- `_exfile_copy`; the mapped branch needs `s->mmap`, i.e. a window that is mapped at all -/
def copyL (st : St) (off siz noff : Nat) : Rc × St × List Ev :=
  match st.slots with
  | s :: rest =>
    if s.len ≠ 0 ∧ s.off = 0 ∧ s.len ≥ noff + siz ∧ s.len ≥ off + siz then
      let d := slotRead st.psize st.file s off siz
      let (s', file') := slotWrite st.psize st.file s noff d
      (.ok, { st with slots := s' :: rest, file := file' }, [.write noff d])
    else
      let (rc, file', e) := fileCopyL st.cbuf st.file off siz noff
      (rc, { st with file := file' }, e)
  | [] =>
    let (rc, file', e) := fileCopyL st.cbuf st.file off siz noff
    (rc, { st with file := file' }, e)

/-- a store through the pointer of `acquire_mmap`; `reported`: the caller tells the listener itself with
    `onwrite(slotOff + rel, d)` after the store (what iwkv does) -/
def mmapWriteL (st : St) (slotOff rel : Nat) (d : Bytes) (reported : Bool) : Rc × St × List Ev :=
  let (rc, st') := mmapWrite st slotOff rel d
  (rc, st', if rc = .ok ∧ reported then [.write (slotOff + rel) d] else [])

/-- `iwfs_exfile_open` (the listener is installed before the initial truncate) -/
def openFileL (m : Lsn) (st : St) (pol : Policy) (maxoff initial : Nat) (trunc : Bool) : Rc × St × List Ev :=
  let file := if trunc then [] else st.file
  let st0 : St := { psize := st.psize, cbuf := st.cbuf, isOpen := true, fsize := file.length, file := file,
                    maxoff := if maxoff ≥ st.psize then roundDown maxoff st.psize else 0,
                    pol := pol, prev := 0, slots := [] }
  let (rc, st1, e) :=
    if st0.fsize < initial then truncateL m st0 initial
    else if st0.fsize % st0.psize ≠ 0 then truncateL m st0 st0.fsize
    else (.ok, st0, [])
  if rc = .ok then (rc, st1, e) else (rc, { st1 with isOpen := false }, e)

/-- operations of a history with a listener: those of `Op`, and the store that its caller reports -/
inductive LOp where
  | op (o : Op)
  | mmapWriteR (slotOff rel : Nat) (d : Bytes)
deriving Repr

/-- the same call without a listener -/
def LOp.base : LOp → Op
  | .op o => o
  | .mmapWriteR so rel d => .mmapWrite so rel d

/-- one call: new state, return code, bytes returned, listener calls -/
def execL (m : Lsn) (st : St) : LOp → St × Rc × Bytes × List Ev
  | .op (.write off d) => let (rc, _, st', e) := writeL m st off d; (st', rc, [], e)
  | .op (.read off n) => let (rc, bs) := read st off n; (st, rc, bs, [])
  | .op (.copy off siz noff) => let (rc, st', e) := copyL st off siz noff; (st', rc, [], e)
  | .op (.truncate size) => let (rc, st', e) := truncateL m st size; (st', rc, [], e)
  | .op (.ensure size) => let (rc, st', e) := ensureSizeL m st size; (st', rc, [], e)
  | .op (.addMmap off maxlen priv) => let (rc, st') := addMmap st off maxlen priv; (st', rc, [], [])
  | .op (.removeMmap off) => let (rc, st') := removeMmap st off; (st', rc, [], [])
  | .op (.mmapWrite so rel d) => let (rc, st', e) := mmapWriteL st so rel d false; (st', rc, [], e)
  | .op .remapAll => ({ st with slots := remapAll st.fsize st.slots }, .ok, [], [])
  | .mmapWriteR so rel d => let (rc, st', e) := mmapWriteL st so rel d true; (st', rc, [], e)

/-- a whole history: final state, results, and everything the listener was told, in order -/
def runL (m : Lsn) (st : St) : List LOp → St × List (Rc × Bytes) × List Ev
  | [] => (st, [], [])
  | op :: ops =>
    let (st', rc, bs, e) := execL m st op
    let (st'', outs, es) := runL m st' ops
    (st'', (rc, bs) :: outs, e ++ es)

end IwModel.Exf
