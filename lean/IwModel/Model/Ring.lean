/-!
Model of `src/utils/iwrb.c`: a ring of `len` cells and one signed cursor `pos`
(`pos < 0`: not yet wrapped, `-pos` cells filled; `pos > 0`: wrapped, next store goes to cell `pos`, or to
cell 0 when `pos = len`; `pos = 0`: empty).  `iwrb_back` only moves the cursor, so on a wrapped ring the
discarded cell stays visible to the iterator as the "oldest" one and `pos` may reach 0 ("empty") although
`len - 1` older cells are still there: the model does exactly the same.
-/
namespace IwModel.Ring

structure Ring (α : Type) where
  buf : List α
  pos : Int
  deriving Repr

variable {α : Type}

def create (junk : α) (len : Nat) : Ring α := { buf := List.replicate len junk, pos := 0 }

def Ring.len (r : Ring α) : Nat := r.buf.length

/-- `iwrb_put` -/
def put (r : Ring α) (x : α) : Ring α :=
  if r.pos ≠ 0 then
    let upos := r.pos.natAbs
    if upos = r.len then { buf := r.buf.set 0 x, pos := 1 }
    else { buf := r.buf.set upos x, pos := if r.pos > 0 then r.pos + 1 else r.pos - 1 }
  else { buf := r.buf.set 0 x, pos := -1 }

/-- `iwrb_back` -/
def back (r : Ring α) : Ring α :=
  if r.pos > 0 then { r with pos := r.pos - 1 } else if r.pos < 0 then { r with pos := r.pos + 1 } else r

/-- `iwrb_peek` -/
def peek (r : Ring α) : Option α := if r.pos = 0 then none else r.buf[r.pos.natAbs - 1]?

def clear (r : Ring α) : Ring α := { r with pos := 0 }

/-- `iwrb_num_cached` -/
def numCached (r : Ring α) : Nat := if r.pos ≤ 0 then r.pos.natAbs else r.len

/-- everything `iwrb_iter_prev` yields after `iwrb_iter_init`, newest first -/
def iterAll (r : Ring α) : List α :=
  let p := r.pos.natAbs
  if r.pos < 0 then (r.buf.take p).reverse
  else if r.pos = 0 then []
  else (r.buf.take p).reverse ++ (r.buf.drop p).reverse

end IwModel.Ring
