/-!
Model of `src/utils/iwrb.c`: a ring of `len` cells and one signed cursor `pos`
(`pos < 0`: not yet wrapped, `-pos` cells filled; `pos > 0`: wrapped, next store goes to cell `pos`, or to
cell 0 when `pos = len`; `pos = 0`: empty).  `iwrb_back` only moves the cursor, so on a wrapped ring the
discarded cell stays visible to the iterator as the "oldest" one and `pos` may reach 0 ("empty") although
`len - 1` older cells are still there: the model does exactly the same.
-/
namespace IwModel.Ring

structure Ring (α : Type) where
  buf : List α
  pos : Int
  deriving Repr

variable {α : Type}

def create (junk : α) (len : Nat) : Ring α := { buf := List.replicate len junk, pos := 0 }

def Ring.len (r : Ring α) : Nat := r.buf.length

/-- `iwrb_put` -/
def put (r : Ring α) (x : α) : Ring α :=
  if r.pos ≠ 0 then
    let upos := r.pos.natAbs
    if upos = r.len then { buf := r.buf.set 0 x, pos := 1 }
    else { buf := r.buf.set upos x, pos := if r.pos > 0 then r.pos + 1 else r.pos - 1 }
  else { buf := r.buf.set 0 x, pos := -1 }

/-- `iwrb_back` -/
def back (r : Ring α) : Ring α :=
  if r.pos > 0 then { r with pos := r.pos - 1 } else if r.pos < 0 then { r with pos := r.pos + 1 } else r

/-- `iwrb_peek` -/
def peek (r : Ring α) : Option α := if r.pos = 0 then none else r.buf[r.pos.natAbs - 1]?

def clear (r : Ring α) : Ring α := { r with pos := 0 }

/-- `iwrb_num_cached` -/
def numCached (r : Ring α) : Nat := if r.pos ≤ 0 then r.pos.natAbs else r.len

/-- everything `iwrb_iter_prev` yields after `iwrb_iter_init`, newest first -/
def iterAll (r : Ring α) : List α :=
  let p := r.pos.natAbs
  if r.pos < 0 then (r.buf.take p).reverse
  else if r.pos = 0 then []
  else (r.buf.take p).reverse ++ (r.buf.drop p).reverse

/-! ### the iterator itself (`IWRB_ITER`), branch by branch -/

/-- `struct iwrp_iter` (without the ring pointer) -/
structure Iter where
  pos : Nat
  ipos : Int
  deriving Repr

/-- `iwrb_iter_init` -/
def iterInit (r : Ring α) : Iter :=
  { pos := r.pos.natAbs, ipos := if r.pos > 0 then -r.pos else r.pos }

/-- `iwrb_iter_prev`: the new iterator and the index of the cell returned (`none` = NULL) -/
def iterPrev (r : Ring α) (it : Iter) : Iter × Option Nat :=
  if it.ipos = 0 then (it, none)
  else if r.pos < 0 then
    if it.pos = 0 then (it, none)
    else ({ pos := it.pos - 1, ipos := if it.ipos < 0 then -it.ipos else it.ipos }, some (it.pos - 1))
  else
    let pos := if it.pos = 0 then r.len else it.pos
    if it.ipos < 0 then ({ pos := pos - 1, ipos := -it.ipos }, some (pos - 1))
    else if it.ipos = pos then ({ pos := pos, ipos := 0 }, none)
    else ({ pos := pos - 1, ipos := it.ipos }, some (pos - 1))

/-- `while ((p = iwrb_iter_prev(&it))) …` with a step budget; a read outside the buffer ends the walk -/
def iterGo (r : Ring α) : Nat → Iter → List α
  | 0, _ => []
  | f + 1, it =>
    match iterPrev r it with
    | (_, none) => []
    | (it', some i) =>
      match r.buf[i]? with
      | some x => x :: iterGo r f it'
      | none => []

/-- everything the iterator yields (`len` cells at most, one more call for the final NULL) -/
def iterList (r : Ring α) : List α := iterGo r (r.len + 1) (iterInit r)

end IwModel.Ring
