import IwModel.Model.Bytes
import IwModel.Gen.Consts
/-! `iwitoa`, `iwatoi`, `iwatoi2`, `iwhex2bin`, `iwbin2hex` of src/utils/iwconv.c.

`iwitoa` is modelled on a *guarded* buffer: the caller's `buf[0 .. max)` is preceded and followed by
`pad` guard cells so that the out-of-range stores the code can make are representable and visible. -/
namespace IwModel.Conv

def pad : Nat := 8
def fill : Nat := 0xAA

/-- guarded memory: cell `i` of the list is `buf[i - pad]` -/
abbrev Mem := List Nat

def Mem.init (max : Nat) : Mem := List.replicate (max + 2 * pad) fill

/-- `memmove(dst, dst+1, n)` on cells -/
def shiftLeft (m : Mem) (dst n : Nat) : Mem :=
  (List.range n).foldl (fun m i => m.set (dst + i) (m.getD (dst + i + 1) 0)) m

/-- the digit loop of `iwitoa`: `while (v) { if (++ret >= max) { if (p == ptr) { v /= 10; continue; } memmove(ptr, ptr+1, p-ptr); p--; } *p++ = '0' + v % 10; v /= 10; }`
    All positions are cell indices (offset by `pad`). -/
def digitLoop (max ptr : Nat) (v : Nat) (m : Mem) (ret p : Nat) : Mem × Nat × Nat :=
  if h : v = 0 then (m, ret, p) else
    let ret := ret + 1
    if ret ≥ max ∧ p = ptr then digitLoop max ptr (v / 10) m ret p   -- no room for a single digit
    else
      let mp : Mem × Nat := if ret ≥ max then (shiftLeft m ptr (p - ptr), p - 1) else (m, p)
      let m := mp.1.set mp.2 (48 + v % 10)
      digitLoop max ptr (v / 10) m ret (mp.2 + 1)
termination_by v
decreasing_by all_goals omega

/-- `while (p > ptr) { c = *--p; *p = *ptr; *ptr++ = c; }` -/
def revLoop (m : Mem) (ptr p : Nat) : Mem :=
  if h : p > ptr then
    let p := p - 1
    let c := m.getD p 0
    let m := m.set p (m.getD ptr 0)
    let m := m.set ptr c
    revLoop m (ptr + 1) p
  else m
termination_by p - ptr
decreasing_by omega

def minStr : Bytes := "-9223372036854775808".toList.map Char.toNat

/-- `iwitoa(v, buf, max)` for `-2^63 ≤ v < 2^63`, `max ≥ 0`: returns (ret, guarded memory). -/
def itoa (v : Int) (max : Nat) : Nat × Mem :=
  let m := Mem.init max
  if max < 1 then (0, m) else
  if v = 0 then
    if 1 ≥ max then (1, m.set pad 0) else (1, (m.set pad 48).set (pad + 1) 0)
  else if v = -(2 ^ 63 : Int) then
    -- snprintf(buf, max, "-9223372036854775808"): writes min(max-1,20) chars and a NUL when max > 0
    if max = 0 then (20, m) else
      let n := min (max - 1) 20
      let m := (List.range n).foldl (fun m i => m.set (pad + i) (minStr.getD i 0)) m
      (20, m.set (pad + n) 0)
  else
    let neg := v < 0
    let a := v.natAbs
    if neg ∧ 1 ≥ max then (1, m.set pad 0) else
      let ret := if neg then 1 else 0
      let ptr := if neg then pad + 1 else pad
      let m := if neg then m.set pad 45 else m
      let (m, ret, p) := digitLoop max ptr a m ret ptr
      let m := revLoop m ptr p
      (ret, m.set p 0)

/-- reference result: the decimal text of `v` -/
def digits (n : Nat) : Bytes :=
  if h : n < 10 then [48 + n] else digits (n / 10) ++ [48 + n % 10]
termination_by n
decreasing_by omega

def itoaSpec (v : Int) : Bytes := if v < 0 then 45 :: digits v.natAbs else digits v.natAbs

/-- the C string found in the caller's buffer after the call (bytes up to the first NUL) -/
def cstr (m : Mem) : Bytes := (m.drop pad).takeWhile (· ≠ 0)

/-- cells outside `buf[0 .. max)` that differ from the fill pattern -/
def oobWrites (m : Mem) (max : Nat) : List Nat :=
  (List.range m.length).filter fun i => (i < pad ∨ i ≥ pad + max) ∧ m.getD i 0 ≠ fill

/-- `iwatoi` in ℤ (no wrap-around): skip bytes 1..32, optional sign, "inf", digits. -/
def atoiDigits : Bytes → Nat → Nat
  | [], acc => acc
  | c :: cs, acc => if 48 ≤ c ∧ c ≤ 57 then atoiDigits cs (acc * 10 + (c - 48)) else acc

def isInf (s : Bytes) : Bool := s == [105, 110, 102]

def atoi (s : Bytes) : Int :=
  let s := s.dropWhile (fun c => 0 < c ∧ c ≤ 32)
  match s with
  | 45 :: r => if isInf r then -(2 ^ 63 - 1 : Int) else -(atoiDigits r 0 : Int)
  | 43 :: r => if isInf r then (2 ^ 63 - 1 : Int) else (atoiDigits r 0 : Int)
  | r => if isInf r then (2 ^ 63 - 1 : Int) else (atoiDigits r 0 : Int)

/-- wrap an integer to `int64_t` (what two's-complement hardware yields when `iwatoi` overflows) -/
def wrap64 (i : Int) : Int := (i + 2 ^ 63) % 2 ^ 64 - 2 ^ 63

/-- `iwbin2hex` (lower-case), without the terminating NUL -/
def bin2hex (bs : Bytes) : Bytes :=
  bs.flatMap fun b =>
    let c := b % 16
    let h := b / 16 % 16
    [(if h < 10 then 48 + h else 87 + h), (if c < 10 then 48 + c else 87 + c)]

def tbl (c : Nat) : Nat := Gen.ascii2hex.getD c 0

/-- `iwhex2bin(hex, hexlen, out, max)`: an odd-length text is read as if prefixed by `'0'`. `max ≥ 1`. -/
def hex2binAux : Bytes → Nat → Bytes
  | a :: b :: rest, fuel + 1 => ((tbl a * 16) % 256 ||| tbl b) :: hex2binAux rest fuel
  | _, _ => []

def hex2bin (hex : Bytes) (max : Nat) : Bytes :=
  let h := if hex.length % 2 = 1 then 48 :: hex else hex
  hex2binAux h max

end IwModel.Conv
