import IwModel.Model.Cmp
/-! KV store models (src/kv/iwkv.c).

* `Spec` — the reference ordered map of C01: one list of records per database, strictly
  descending under the database's comparator (iwkv keeps the largest key first).
* `Node` layer — the level-0 chain of nodes as the code maintains it: routing to the last node whose
  first key is not below the key (`_lx_find_bounds`), the fake full head node, the "add to upper"
  rule, the split at slot 17 (`_lx_split_addkv`), removal of a node with its last record
  (`_lx_del_sblk_lw`), and the cursor fix-ups of `_sblk_addkv*`, `_sblk_rmkv`, the split and the
  node removal.

Both layers are generic in the key type `K` and in `gt : K → K → Bool` (`gt a b` = `a` sorts before
`b`, i.e. `a` is the greater key); the theorems assume `gt` is a strict total order, which C19
establishes for the comparators of the code. -/
namespace IwModel.Kv

/-! ### Spec layer -/
section Spec
variable {K V : Type}

/-- position of `k` in a descending list: index of the first record whose key is not greater than `k` -/
def findPos (gt : K → K → Bool) (k : K) : List (K × V) → Nat
  | [] => 0
  | (a, _) :: rest => if gt a k then findPos gt k rest + 1 else 0

def specGet (gt : K → K → Bool) (m : List (K × V)) (k : K) : Option V :=
  match m.drop (findPos gt k m) with
  | (a, v) :: _ => if gt k a then none else some v
  | [] => none

/-- insert or replace -/
def specPut (gt : K → K → Bool) (m : List (K × V)) (k : K) (v : V) : List (K × V) :=
  let i := findPos gt k m
  match m.drop i with
  | (a, av) :: rest => if gt k a then m.take i ++ (k, v) :: (a, av) :: rest else m.take i ++ (k, v) :: rest
  | [] => m.take i ++ [(k, v)]

def specDel (gt : K → K → Bool) (m : List (K × V)) (k : K) : List (K × V) :=
  let i := findPos gt k m
  match m.drop i with
  | (a, _) :: rest => if gt k a then m else m.take i ++ rest
  | [] => m

end Spec

/-! ### Node layer -/

structure Node (K V : Type) where
  lvl : Nat
  recs : List (K × V)
deriving Repr

def cap : Nat := 32      -- KVBLK_IDXNUM (side condition checked in Props against Gen)
def pivot : Nat := 17    -- (KVBLK_IDXNUM / 2) + 1

/-- cursor position. `head` = before-first (or parked on the database block), `tail` = after-last,
    `void` = detached (`cur->cn == 0`, no pseudo-position), `at i j skip` = node `i`, slot `j`. -/
inductive CPos where
  | head | tail | void
  | at (i j : Nat) (skip : Int)
deriving Repr, BEq, DecidableEq

structure Db (K V : Type) where
  nodes : List (Node K V)
  curs : List (Nat × CPos)     -- open cursors: id ↦ position
deriving Repr

section NodeOps
variable {K V : Type} (gt : K → K → Bool)

def flatten (ns : List (Node K V)) : List (K × V) := ns.flatMap (·.recs)

/-- number of leading nodes whose first key is `≥ k` (not less than `k`); the last of them is the
    node `_lx_find_bounds` leaves in `lx->lower` (none ⇒ `lower` is the database block). -/
def routeIdx (k : K) : List (Node K V) → Nat
  | [] => 0
  | n :: rest =>
    match n.recs with
    | (a, _) :: _ => if gt k a then 0 else routeIdx k rest + 1
    | [] => routeIdx k rest + 1

/-- `_sblk_find_pi_mm`: (found, index) in a descending node -/
def findPi (k : K) (recs : List (K × V)) : Bool × Nat :=
  let i := findPos gt k recs
  match recs.drop i with
  | (a, _) :: _ => (!(gt k a), i)
  | [] => (false, i)

def insertAt (l : List (K × V)) (i : Nat) (kv : K × V) : List (K × V) := l.take i ++ kv :: l.drop i

/-! cursor fix-ups; `ni` = index of the node that changed -/

/-- `_sblk_addkv*`: a record was inserted at slot `idx` of node `ni` -/
def fixAdd (ni idx : Nat) : CPos → CPos
  | .at i j s => if i = ni ∧ j ≥ idx then .at i (j + 1) s else .at i j s
  | p => p

/-- `_sblk_rmkv`: slot `idx` of node `ni` was removed; `pnum` is the new record count -/
def fixRm (ni idx pnum : Nat) : CPos → CPos
  | .at i j s =>
    if i = ni then
      if j = idx then
        if idx ≠ 0 ∧ idx = pnum then .at i (j - 1) (-1) else .at i j 1
      else if j > idx then .at i (j - 1) s else .at i j s
    else .at i j s
  | p => p

/-- a node was inserted after node `ni` (index `ni+1`); with `moved`, cursors of node `ni` at slots
    `≥ pivot` follow their records into the new node (`_lx_split_addkv`) -/
def fixSplit (ni : Nat) (moved : Bool) : CPos → CPos
  | .at i j s =>
    if i = ni then (if moved ∧ j ≥ pivot then .at (i + 1) (j - pivot) s else .at i j s)
    else if i > ni then .at (i + 1) j s else .at i j s
  | p => p

/-- a node was inserted at the front of the chain (lower = database block) -/
def fixFront : CPos → CPos
  | .at i j s => .at (i + 1) j s
  | p => p

/-- `_lx_del_sblk_lw`: node `ni` (holding one record) was removed; `n` = node count before,
    `prevLen` = record count of node `ni-1` (if any) -/
def fixDelNode (ni n prevLen : Nat) : CPos → CPos
  | .at i j s =>
    if i = ni then
      if ni + 1 = n then        -- the removed node was the last one: next is the database tail
        if ni = 0 then .void else .at (ni - 1) (prevLen - 1) (-1)
      else .at ni 0 1          -- first slot of the following node (now at index ni)
    else if i > ni then .at (i - 1) j s else .at i j s
  | p => p

def mapCurs (f : CPos → CPos) (d : Db K V) : Db K V := { d with curs := d.curs.map fun (c, p) => (c, f p) }

/-- `_sblk_genlevel`: a drawn level is lowered until the level below it is populated
    (`db->lcnt[l]` = number of nodes whose level is exactly `l`) -/
def clampLvl (ns : List (Node K V)) : Nat → Nat
  | 0 => 0
  | l + 1 => if ns.any (·.lvl = l) then l + 1 else clampLvl ns l

/-- the node after `lower` exists and has a free slot (the "add to upper" test of `_lx_addkv`) -/
def upperFree (post : List (Node K V)) : Bool :=
  match post with
  | u :: _ => decide (u.recs.length < cap)
  | [] => false

inductive PutOut where
  | ok | exists_
deriving Repr, BEq, DecidableEq

/-- `_lx_put_lw` / `_lx_addkv` for a plain put of value `v` (flag handling sits above, see `Api`).
    `lvl` = level drawn for a node this put may create. Returns the old value when the key existed. -/
def put (d : Db K V) (k : K) (v : V) (noOverwrite : Bool) (lvlReq : Nat) : Db K V × PutOut × Option V :=
  let lvl := clampLvl d.nodes lvlReq
  let r := routeIdx gt k d.nodes
  if r = 0 then
    -- lower is the database block: pnum = 32, idx = 32, never "found"
    match d.nodes with
    | u :: rest =>
      if u.recs.length < cap then            -- add to upper
        let (_, ui) := findPi gt k u.recs
        (mapCurs (fixAdd 0 ui) { d with nodes := { u with recs := insertAt u.recs ui (k, v) } :: rest }, .ok, none)
      else                                     -- "split" on the upper side: a fresh node in front
        (mapCurs fixFront { d with nodes := ⟨lvl, [(k, v)]⟩ :: u :: rest }, .ok, none)
    | [] => ({ d with nodes := [⟨lvl, [(k, v)]⟩] }, .ok, none)
  else
    let li := r - 1
    match d.nodes[li]? with
    | none => (d, .ok, none)       -- unreachable
    | some lower =>
      let pre := d.nodes.take li
      let post := d.nodes.drop (li + 1)
      let (found, idx) := findPi gt k lower.recs
      if found then
        let old := (lower.recs[idx]?).map (·.2)
        if noOverwrite then (d, .exists_, old)
        else ({ d with nodes := pre ++ { lower with recs := lower.recs.set idx (k, v) } :: post }, .ok, old)
      else if lower.recs.length ≥ cap then
        let uadd : Bool := decide (idx ≥ cap) && upperFree post
        if uadd then
          match post with
          | u :: rest =>
            let (_, ui) := findPi gt k u.recs
            (mapCurs (fixAdd (li + 1) ui) { d with nodes := pre ++ lower :: { u with recs := insertAt u.recs ui (k, v) } :: rest }, .ok, none)
          | [] => (d, .ok, none)
        else if idx = lower.recs.length then   -- upper side: new node after `lower`
          (mapCurs (fixSplit li false) { d with nodes := pre ++ lower :: ⟨lvl, [(k, v)]⟩ :: post }, .ok, none)
        else
          let a := lower.recs.take pivot
          let b := lower.recs.drop pivot
          let d1 := mapCurs (fixSplit li true) d
          if idx > pivot then
            (mapCurs (fixAdd (li + 1) (idx - pivot)) { d1 with nodes := pre ++ { lower with recs := a } :: ⟨lvl, insertAt b (idx - pivot) (k, v)⟩ :: post }, .ok, none)
          else
            (mapCurs (fixAdd li idx) { d1 with nodes := pre ++ { lower with recs := insertAt a idx (k, v) } :: ⟨lvl, b⟩ :: post }, .ok, none)
      else
        (mapCurs (fixAdd li idx) { d with nodes := pre ++ { lower with recs := insertAt lower.recs idx (k, v) } :: post }, .ok, none)

/-- remove slot `idx` of node `li` (shared by `_lx_del_lw` and `iwkv_cursor_del`) -/
def delAt (d : Db K V) (li idx : Nat) : Db K V :=
  match d.nodes[li]? with
  | none => d
  | some lower =>
    let pre := d.nodes.take li
    let post := d.nodes.drop (li + 1)
    if lower.recs.length = 1 then
      let prevLen := match d.nodes[li - 1]? with | some p => p.recs.length | none => 0
      mapCurs (fixDelNode li d.nodes.length prevLen) { d with nodes := pre ++ post }
    else
      let recs := lower.recs.eraseIdx idx
      mapCurs (fixRm li idx recs.length) { d with nodes := pre ++ { lower with recs := recs } :: post }

/-- `_lx_del_lw`; `false` = IWKV_ERROR_NOTFOUND -/
def del (d : Db K V) (k : K) : Db K V × Bool :=
  let r := routeIdx gt k d.nodes
  if r = 0 then (d, false) else
    match d.nodes[r - 1]? with
    | none => (d, false)
    | some lower =>
      let (found, idx) := findPi gt k lower.recs
      if !found then (d, false) else (delAt d (r - 1) idx, true)

/-- `_lx_get_lr` -/
def get (d : Db K V) (k : K) : Option V :=
  let r := routeIdx gt k d.nodes
  if r = 0 then none else
    match d.nodes[r - 1]? with
    | none => none
    | some lower =>
      let (found, idx) := findPi gt k lower.recs
      if found then (lower.recs[idx]?).map (·.2) else none

/-! ### Cursors -/

def curPos (d : Db K V) (c : Nat) : Option CPos := (d.curs.find? (·.1 = c)).map (·.2)

def setCur (d : Db K V) (c : Nat) (p : CPos) : Db K V :=
  { d with curs := (c, p) :: d.curs.filter (·.1 ≠ c) }

def closeCur (d : Db K V) (c : Nat) : Db K V := { d with curs := d.curs.filter (·.1 ≠ c) }

def nodeLen (d : Db K V) (i : Nat) : Nat := match d.nodes[i]? with | some n => n.recs.length | none => 0

/-- `_cursor_to_lr` with NEXT; returns (new position, found) -/
def curNext (d : Db K V) : CPos → CPos × Bool
  | .head => if d.nodes.isEmpty then (.head, false) else (.at 0 0 0, true)
  | .tail => (.tail, false)
  | .void => (.void, false)
  | .at i j s =>
    if s > 0 then (.at i j 0, true)
    else if j + 1 ≥ nodeLen d i then
      if i + 1 < d.nodes.length then (.at (i + 1) 0 0, true) else (.at i j 0, false)
    else (.at i (j + 1) 0, true)

/-- `_cursor_to_lr` with PREV -/
def curPrev (d : Db K V) : CPos → CPos × Bool
  | .head => (.head, false)
  | .tail => if d.nodes.isEmpty then (.tail, false) else (.at (d.nodes.length - 1) (nodeLen d (d.nodes.length - 1) - 1) 0, true)
  | .void => (.void, false)
  | .at i j s =>
    if s < 0 then (.at i j 0, true)
    else if j = 0 then
      if i = 0 then (.at i j 0, false) else (.at (i - 1) (nodeLen d (i - 1) - 1) 0, true)
    else (.at i (j - 1) 0, true)

/-- `_cursor_get_ge_idx` + the EQ/GE branch of `_cursor_to_lr`: on failure the cursor keeps its
    position (only `skip_next` is cleared) -/
def curSeek (d : Db K V) (k : K) (ge : Bool) (p : CPos) : CPos × Bool :=
  let keep := match p with | .at i j _ => CPos.at i j 0 | q => q
  let r := routeIdx gt k d.nodes
  if r = 0 then (keep, false) else
    match d.nodes[r - 1]? with
    | none => (keep, false)
    | some lower =>
      let (found, idx) := findPi gt k lower.recs
      if found then (.at (r - 1) idx 0, true)
      else if !ge then (keep, false)
      else (.at (r - 1) (if idx = 0 then 0 else idx - 1) 0, true)

/-- record under a cursor (`iwkv_cursor_get` & co.) -/
def curRec (d : Db K V) : CPos → Option (K × V)
  | .at i j _ => (d.nodes[i]?).bind fun n => n.recs[j]?
  | _ => none

/-- `iwkv_cursor_set`: overwrite the value at the cursor -/
def curSet (d : Db K V) (p : CPos) (v : V) : Db K V :=
  match p with
  | .at i j _ =>
    match d.nodes[i]? with
    | some n =>
      (match n.recs[j]? with
       | some (k, _) => { d with nodes := d.nodes.set i { n with recs := n.recs.set j (k, v) } }
       | none => d)
    | none => d
  | _ => d

/-- `iwkv_cursor_del` -/
def curDel (d : Db K V) (p : CPos) : Db K V :=
  match p with
  | .at i j _ => if (curRec d p).isSome then delAt d i j else d
  | _ => d

end NodeOps
end IwModel.Kv
