import IwModel.Model.Bytes
import IwModel.Model.JVal
import IwModel.Gen.Binn
/-! Executable model of the compact binary form of JSON documents (`iwbinn.c` as used by `iwjson.c`).

* writer: `_jbl_from_node_impl` → `binn_create`, `binn_list_add_value`, `binn_object_set_value2`
  (`binn_object_set_raw` + `SearchForKey`), `AddValue` + `compress_int`, `binn_save_header`;
* reader: `IsValidBinnHeader`, `binn_iter_init`, `binn_list_next`, `binn_read_next_pair(2)`,
  `AdvanceDataPos`, `GetValue`; `_jbl_node_from_binn_impl`/`_jbl_create_node`; `binn_copy`.

A buffer is a `Bytes` (= `List Nat`); a cursor `cur` is the list of bytes from the current position `p` to the
limit `plimit` of the enclosing container (inclusive), so `p > plimit` is `cur = []`.
Not modelled: two-byte type codes (`BINN_STORAGE_HAS_MORE`), maps, blobs, float32, reads behind the limit of a
malformed buffer (the C code would read the enclosing buffer there). -/
namespace IwModel.Binn
open IwModel.Gen.Binn

/-- C string view: the bytes before the first NUL (`strlen`) -/
def cstr : Bytes → Bytes
  | [] => []
  | b :: bs => if b = 0 then [] else b :: cstr bs

/-- `k` bytes of `n`, big endian (`tobe16/32/64` + `memcpy`) -/
def beBytes : Nat → Nat → Bytes
  | 0, _ => []
  | k + 1, n => (n / 256 ^ k % 256) :: beBytes k n

/-- big endian value of a byte string (`frombe32` …) -/
def beVal (bs : Bytes) : Nat := bs.foldl (fun a b => a * 256 + b) 0

/-- the 1-or-4-byte size/count/length field: `n` if `n ≤ 127`, else `n | 0x80000000` big endian -/
def lenField (n : Nat) : Bytes :=
  if n > 127 then beBytes 4 (n % 2 ^ 31 + 2 ^ 31) else [n]

/-- reads a 1-or-4-byte field: (value, number of bytes used) -/
def readLen (bs : Bytes) : Option (Nat × Nat) :=
  match bs with
  | [] => none
  | b :: _ =>
    if b ≥ 128 then
      if bs.length < 4 then none else some (beVal (bs.take 4) % 2 ^ 31, 4)
    else some (b, 1)

/-! ## Writer -/

/-- `int64_t` value of an integer (two's complement wrap) -/
def wrap64 (i : Int) : Int :=
  let m := i % (2 ^ 64 : Int)
  if m < 2 ^ 63 then m else m - 2 ^ 64

/-- `AddValue` of a `BINN_INT64` after `compress_int`: smallest unsigned type for `v ≥ 0`
    (`UINT8/16/32`, else `INT64`), smallest signed type for `v < 0` (`INT8/16/32`, else `INT64`) -/
def encInt (i : Int) : Bytes :=
  let v := wrap64 i
  if 0 ≤ v then
    let n := v.toNat
    if n ≤ 255 then [BINN_UINT8, n]
    else if n ≤ 65535 then BINN_UINT16 :: beBytes 2 n
    else if n ≤ 4294967295 then BINN_UINT32 :: beBytes 4 n
    else BINN_INT64 :: beBytes 8 n
  else
    if -128 ≤ v then [BINN_INT8, (v + 256).toNat]
    else if -32768 ≤ v then BINN_INT16 :: beBytes 2 (v + 65536).toNat
    else if -2147483648 ≤ v then BINN_INT32 :: beBytes 4 (v + 4294967296).toNat
    else BINN_INT64 :: beBytes 8 (v + 2 ^ 64).toNat

/-- `binn_set_string` (`strndup`, length dropped) followed by `AddValue` with `size = 0` (`strlen`):
    the stored string ends at the first NUL of the node's string. -/
def encStr (s : Bytes) : Bytes :=
  let c := cstr s
  BINN_STRING :: (lenField c.length ++ c ++ [0])

/-- `binn_save_header` (small-header variant): type, size, count in front of the body.
    The size counts itself: 3 bytes minimum, +3 for a 4-byte count, +3 for a 4-byte size. -/
def container (ty count : Nat) (body : Bytes) : Bytes :=
  let s0 := body.length + 3
  let s1 := if count > 127 then s0 + 3 else s0
  let szf := if s1 > 127 then beBytes 4 ((s1 + 3) % 2 ^ 31 + 2 ^ 31) else [s1]
  ty :: (szf ++ lenField count ++ body)

def lower (b : Nat) : Nat := if 65 ≤ b ∧ b ≤ 90 then b + 32 else b

/-- `SearchForKey` hit: a stored key of the same length that is equal ignoring ASCII case (`strnicmp`) -/
def sameKey (a b : Bytes) : Bool := a.length == b.length && a.map lower == b.map lower

def dupKey (seen : List Bytes) (k : Bytes) : Bool := seen.any (sameKey · k)

mutual
  /-- `_jbl_from_node_impl` for a value that is added to a parent: the bytes `AddValue` appends.
      `none` = `JBL_ERROR_CREATION` (key longer than 255 bytes or already present ignoring case). -/
  def enc : JVal → Option Bytes
    | .null => some [BINN_NULL]
    | .bool b => some [if b then BINN_TRUE else BINN_FALSE]
    | .int i => some (encInt i)
    | .f64 b => some (BINN_FLOAT64 :: beBytes 8 b)
    | .str s => some (encStr s)
    | .arr xs => (encList xs).map (container BINN_LIST xs.length)
    | .obj ms => (encMembers [] ms).map (container BINN_OBJECT ms.length)
  def encList : List JVal → Option Bytes
    | [] => some []
    | x :: xs =>
      match enc x, encList xs with
      | some a, some b => some (a ++ b)
      | _, _ => none
  /-- members of an object; `seen` = keys already stored in this object -/
  def encMembers (seen : List Bytes) : List (Bytes × JVal) → Option Bytes
    | [] => some []
    | (k, v) :: ms =>
      match enc v with
      | none => none
      | some a =>
        if k.length > MAX_BIN_KEY_LEN ∨ dupKey seen k then none
        else match encMembers (k :: seen) ms with
          | none => none
          | some b => some (k.length :: (k ++ a ++ b))
end

/-! ## Reader -/

/-- value struct filled by `GetValue` (what a `binn` holder carries): integers are already widened to the
    `int64_t` every consumer reads; `cont` holds the bytes of the container (header included). -/
inductive BVal where
  | null
  | bool (b : Bool)
  | int (i : Int)
  | f64 (bits : Nat)
  | str (s : Bytes)
  | cont (bs : Bytes)
  | other (ty : Nat)
deriving Repr, BEq, Inhabited

structure Header where
  ty : Nat
  size : Nat
  count : Nat
  hsz : Nat
deriving Repr

/-- `IsValidBinnHeader` without an informed size -/
def parseHeader (bs : Bytes) : Option Header :=
  match bs with
  | [] => none
  | t :: r1 =>
    if t = BINN_LIST ∨ t = BINN_MAP ∨ t = BINN_OBJECT then
      match readLen r1 with
      | none => none
      | some (size, k1) =>
        match readLen (r1.drop k1) with
        | none => none
        | some (count, k2) =>
          if size < MIN_BINN_SIZE then none else some ⟨t, size, count, 1 + k1 + k2⟩
    else none

def signed (bits n : Nat) : Int := if n < 2 ^ (bits - 1) then n else (n : Int) - 2 ^ bits

/-- `GetValue` at cursor `cur` (first byte = type byte) -/
def getValue (cur : Bytes) : Option BVal :=
  match cur with
  | [] => none
  | t :: r =>
    if t = BINN_NULL then some .null
    else if t = BINN_TRUE then some (.bool true)
    else if t = BINN_FALSE then some (.bool false)
    else if t = BINN_UINT8 then if r.length < 1 then none else some (.int (beVal (r.take 1)))
    else if t = BINN_INT8 then if r.length < 1 then none else some (.int (signed 8 (beVal (r.take 1))))
    else if t = BINN_UINT16 then if r.length < 2 then none else some (.int (beVal (r.take 2)))
    else if t = BINN_INT16 then if r.length < 2 then none else some (.int (signed 16 (beVal (r.take 2))))
    else if t = BINN_UINT32 then if r.length < 4 then none else some (.int (beVal (r.take 4)))
    else if t = BINN_INT32 then if r.length < 4 then none else some (.int (signed 32 (beVal (r.take 4))))
    else if t = BINN_UINT64 then if r.length < 8 then none else some (.int (signed 64 (beVal (r.take 8))))
    else if t = BINN_INT64 then if r.length < 8 then none else some (.int (signed 64 (beVal (r.take 8))))
    else if t = BINN_FLOAT64 then if r.length < 8 then none else some (.f64 (beVal (r.take 8)))
    else if t = BINN_STRING then
      match readLen r with
      | none => none
      | some (n, k) => some (.str ((r.drop k).take n))
    else if t = BINN_LIST ∨ t = BINN_OBJECT then
      match parseHeader cur with
      | none => none
      | some h => some (.cont (cur.take h.size))
    else some (.other t)

/-- `AdvanceDataPos`: length of the item at the cursor, `none` where the C function returns 0 early -/
def itemLen (cur : Bytes) : Option Nat :=
  match cur with
  | [] => none
  | t :: r =>
    let st := t / 32 * 32
    if st = BINN_STORAGE_NOBYTES then some 1
    else if st = BINN_STORAGE_BYTE then some 2
    else if st = BINN_STORAGE_WORD then some 3
    else if st = BINN_STORAGE_DWORD then some 5
    else if st = BINN_STORAGE_QWORD then some 9
    else if st = BINN_STORAGE_STRING then
      match readLen r with
      | none => none
      | some (n, k) => some (1 + k + n + 1)
    else if st = BINN_STORAGE_CONTAINER then
      match readLen r with
      | none => none
      | some (n, _) => some n
    else if st = BINN_STORAGE_BLOB then
      if r.length < 4 then none else some (1 + 4 + beVal (r.take 4))
    else none

/-- cursor after the item (`iter->pnext`); `[]` stands for both `0` and a position behind the limit -/
def advance (cur : Bytes) : Bytes :=
  match itemLen cur with
  | some n => if n < cur.length then cur.drop n else []
  | none => []

/-- `binn_list_next` repeated at most `count` times -/
def listItems : Nat → Bytes → List BVal
  | 0, _ => []
  | n + 1, cur =>
    if cur = [] then []
    else match getValue cur with
      | none => []
      | some v => v :: listItems n (advance cur)

/-- `binn_object_next` / `binn_object_next2` repeated at most `count` times: (key bytes, value) -/
def objItems : Nat → Bytes → List (Bytes × BVal)
  | 0, _ => []
  | n + 1, cur =>
    match cur with
    | [] => []
    | len :: r =>
      if r.length ≤ len then []
      else
        let vcur := r.drop len
        match getValue vcur with
        | none => []
        | some v => (r.take len, v) :: objItems n (advance vcur)

/-- `binn_iter_init`: header of the container and the cursor of its first item -/
def iterInit (bs : Bytes) : Option (Header × Bytes) :=
  match parseHeader bs with
  | none => none
  | some h => some (h, (bs.take h.size).drop h.hsz)

/-- `jbl_fill_from_node`: the holder for a document. Containers are serialised; a scalar stays a value struct
    (`binn_set_int64` … without compression; strings through `strndup`). `none` = `JBL_ERROR_CREATION`. -/
def fromNode (v : JVal) : Option BVal :=
  match v with
  | .null => some .null
  | .bool b => some (.bool b)
  | .int i => some (.int (wrap64 i))
  | .f64 b => some (.f64 b)
  | .str s => some (.str (cstr s))
  | .arr _ => (enc v).map .cont
  | .obj _ => (enc v).map .cont

def allSome {α : Type} : List (Option α) → Option (List α)
  | [] => some []
  | none :: _ => none
  | some a :: r => (allSome r).map (a :: ·)

/-- `_jbl_node_from_binn` (+ the F31 fix: a scalar holder yields a scalar node). Fuel bounds the nesting;
    `none` = error (`JBL_ERROR_CREATION` for a type without JSON counterpart, `JBL_ERROR_INVALID` for a bad header). -/
def toNode : Nat → BVal → Option JVal
  | _, .null => some .null
  | _, .bool b => some (.bool b)
  | _, .int i => some (.int i)
  | _, .f64 b => some (.f64 b)
  | _, .str s => some (.str s)
  | _, .other _ => none
  | 0, .cont _ => none
  | f + 1, .cont bs =>
    match iterInit bs with
    | none => none
    | some (h, cur) =>
      if h.ty = BINN_LIST then
        (allSome ((listItems h.count cur).map (toNode f))).map .arr
      else if h.ty = BINN_OBJECT then
        (allSome ((objItems h.count cur).map fun (k, v) => (toNode f v).map fun j => (k, j))).map .obj
      else none

/-- fuel that always suffices for the readers below: nesting cannot exceed the number of bytes -/
def fuelOf : BVal → Nat
  | .cont bs => bs.length + 1
  | _ => 1

/-- `binn_copy` + `binn_save_header` (as `jbl_clone` + `jbl_as_buf` do): body copied behind a fresh header -/
def copy (bs : Bytes) : Option Bytes :=
  match parseHeader bs with
  | none => none
  | some h => some (container h.ty h.count ((bs.take h.size).drop h.hsz))

/-- `jbl_clone` of a holder -/
def cloneBVal : BVal → Option BVal
  | .cont bs => (copy bs).map .cont
  | _ => none

end IwModel.Binn
