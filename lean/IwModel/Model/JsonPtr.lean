import IwModel.Model.Binn
/-! Executable model of JSON-pointer parsing and evaluation on both document forms (`iwjson.c`):
`_jbl_ptr_pool`; `jbn_visit` + `_jbn_get_visitor` + `_jbn_visitor_update_jptr_cursor` (tree);
`_jbl_visit` + `_jbl_get_visitor` + `_jbl_visitor_update_jptr_cursor` (binary); `jbn_at`, `jbl_at`;
and the RFC 6901 reference (`rfcSegments`, `rfcGet`) the theorems compare them with.

The visitors are depth-first walks over the *whole* document with a cursor `pos` = deepest level whose segment
matched on the current path; the model keeps `pos + 1` as a `Nat` (`0` = the initial `-1`). -/
namespace IwModel.Ptr
open IwModel.Gen.Binn IwModel.Binn

/-! ## Parsing -/

/-- fill pass of `_jbl_ptr_pool` after the leading `/`: segments are cut at `/`; `~0` → `~`, `~1` → `/`;
    any other `~x` stores nothing and skips `x` (unreachable once the pre-pass rejects it). `acc` is the
    current segment, reversed. -/
def fill : Bytes → Bytes → List Bytes
  | [], acc => [acc.reverse]
  | 47 :: rest, acc => acc.reverse :: fill rest []
  | 126 :: 48 :: rest, acc => fill rest (126 :: acc)
  | 126 :: 49 :: rest, acc => fill rest (47 :: acc)
  | 126 :: _ :: rest, acc => fill rest acc
  | c :: rest, acc => fill rest (c :: acc)

/-- every `~` is followed by `0` or `1` (the pre-pass check of the F10 fix) -/
def tildesOk : Bytes → Bool
  | [] => true
  | 126 :: 48 :: rest => tildesOk rest
  | 126 :: 49 :: rest => tildesOk rest
  | 126 :: _ => false
  | _ :: rest => tildesOk rest

/-- `_jbl_ptr_pool`: `none` = `JBL_ERROR_JSON_POINTER`. The argument is a C string. -/
def parse (path : Bytes) : Option (List Bytes) :=
  let p := cstr path
  match p with
  | [] => some []
  | c :: rest =>
    if c ≠ 47 then none
    else if p.length > 1 ∧ p.getLast? = some 47 then none
    else if !tildesOk p then none
    else some (fill rest [])

/-! ## RFC 6901 reference -/

/-- split at every `/` -/
def splitSlash : Bytes → Bytes → List Bytes
  | [], acc => [acc.reverse]
  | 47 :: rest, acc => acc.reverse :: splitSlash rest []
  | c :: rest, acc => splitSlash rest (c :: acc)

/-- replace every occurrence of the two-byte sequence `~ x` by `y`, scanning left to right -/
def replace2 (x y : Nat) : Bytes → Bytes
  | [] => []
  | [c] => [c]
  | a :: b :: rest => if a = 126 ∧ b = x then y :: replace2 x y rest else a :: replace2 x y (b :: rest)

/-- RFC 6901 section 4: "first transforming any occurrence of the sequence '~1' to '/', and then transforming
    any occurrence of the sequence '~0' to '~'" -/
def unescape (seg : Bytes) : Bytes := replace2 48 126 (replace2 49 47 seg)

/-- reference tokens of a pointer that starts with `/` (RFC 6901 section 3); the empty pointer has none -/
def rfcSegments (p : Bytes) : Option (List Bytes) :=
  match p with
  | [] => some []
  | 47 :: rest => some ((splitSlash rest []).map unescape)
  | _ => none

/-- decimal digits of a number, most significant first (`iwitoa` of a non-negative value) -/
def dec (n : Nat) : Bytes :=
  if h : n < 10 then [48 + n] else dec (n / 10) ++ [48 + n % 10]
decreasing_by omega

/-- RFC 6901 `array-index = %x30 / ( %x31-39 *(%x30-39) )` and its value -/
def arrayIndex (seg : Bytes) : Option Nat :=
  match seg with
  | [] => none
  | [48] => some 0
  | d :: rest =>
    if 49 ≤ d ∧ d ≤ 57 ∧ rest.all (fun c => 48 ≤ c ∧ c ≤ 57) then
      some ((d :: rest).foldl (fun a c => a * 10 + (c - 48)) 0)
    else none

def lookupKey (k : Bytes) : List (Bytes × JVal) → Option JVal
  | [] => none
  | (k', v) :: ms => if k' = k then some v else lookupKey k ms

/-- one step of RFC 6901 section 4: object member by exact name, array element by index; anything else is an
    error (= not found) -/
def rfcStep (v : JVal) (k : Bytes) : Option JVal :=
  match v with
  | .obj ms => lookupKey k ms
  | .arr xs => match arrayIndex k with
    | some i => xs[i]?
    | none => none
  | _ => none

/-- RFC 6901 section 4 evaluation of a list of reference tokens -/
def rfcGet : JVal → List Bytes → Option JVal
  | v, [] => some v
  | v, k :: ks => match rfcStep v k with
    | some c => rfcGet c ks
    | none => none

/-! ## The two cursor updates -/

def isStar (seg : Bytes) : Bool := seg == [42]

/-- `strncmp(a, b, n) == 0` for C strings -/
def strncmpEq (a b : Bytes) (n : Nat) : Bool := (cstr a).take n == (cstr b).take n

/-- tree side: `idx == strlen(seg) && !strncmp(key, seg, idx)` with `idx` = cached key length, or the decimal
    text of the cached array index and its length -/
def segEqTree (key : Option Bytes) (idx : Nat) (seg : Bytes) : Bool :=
  match key with
  | some k => k.length == (cstr seg).length && strncmpEq k seg k.length
  | none => (dec idx).length == (cstr seg).length && strncmpEq (dec idx) seg (dec idx).length

/-- binary side: `!strcmp(keyptr, seg)` with the key copied into a NUL-terminated buffer, or the decimal text
    of the running index -/
def segEqBinn (key : Option Bytes) (idx : Nat) (seg : Bytes) : Bool :=
  match key with
  | some k => cstr k == cstr seg
  | none => dec idx == cstr seg

/-- visitor state: `pos1 = vctx->pos + 1`, `term = vctx->terminate`, `res = vctx->result` -/
structure VS (α : Type) where
  pos1 : Nat
  term : Bool
  res : Option α

/-- `_jb?_visitor_update_jptr_cursor`: returns (pointer matched completely, new `pos1`) -/
def updCursor (jp : List Bytes) (lvl : Nat) (eq : Bytes → Bool) (pos1 : Nat) : Bool × Nat :=
  if lvl < jp.length then
    let p := if pos1 ≥ lvl + 1 then lvl else pos1
    if p = lvl then
      let seg := jp[lvl]?.getD []
      if eq seg || isStar seg then (jp.length == lvl + 1, lvl + 1) else (false, p)
    else (false, p)
  else (false, pos1)

inductive Cmd where
  | ok | terminate | skipNested
deriving BEq

/-- `_jbn_get_visitor` / `_jbl_get_visitor` on one visited value -/
def getVisitor {α : Type} (jp : List Bytes) (lvl : Nat) (eq : Bytes → Bool) (x : α) (st : VS α) : Cmd × VS α :=
  let (hit, p) := updCursor jp lvl eq st.pos1
  if hit then (.terminate, { st with pos1 := p, res := some x })
  else if jp.length < lvl + 1 then (.skipNested, { st with pos1 := p })
  else (.ok, { st with pos1 := p })

def isContainer : JVal → Bool
  | .arr _ => true
  | .obj _ => true
  | _ => false

/-! ## Tree form: `jbn_visit` with `_jbn_get_visitor` -/
mutual
  /-- `jbn_visit(node, lvl, …)`; `none` = `JBL_ERROR_MAX_NESTING_LEVEL_EXCEEDED` -/
  def tvNode (jp : List Bytes) : Nat → JVal → VS JVal → Option (VS JVal)
    | lvl, .arr xs, st => if lvl > JBL_MAX_NESTING_LEVEL then none else tvArr jp lvl 0 xs st
    | lvl, .obj ms, st => if lvl > JBL_MAX_NESTING_LEVEL then none else tvObj jp lvl ms st
    | lvl, _, st => if lvl > JBL_MAX_NESTING_LEVEL then none else some st
  def tvArr (jp : List Bytes) : Nat → Nat → List JVal → VS JVal → Option (VS JVal)
    | _, _, [], st => some st
    | lvl, i, x :: xs, st =>
      if st.term then some st
      else
        let (cmd, st1) := getVisitor jp lvl (segEqTree none i) x st
        let st2 := if cmd == .terminate then { st1 with term := true } else st1
        -- the loop does not break on TERMINATE: it still enters a matched container (and checks the level)
        if cmd != .skipNested && isContainer x then
          match tvNode jp (lvl + 1) x st2 with
          | none => none
          | some st3 => tvArr jp lvl (i + 1) xs st3
        else tvArr jp lvl (i + 1) xs st2
  def tvObj (jp : List Bytes) : Nat → List (Bytes × JVal) → VS JVal → Option (VS JVal)
    | _, [], st => some st
    | lvl, (k, x) :: ms, st =>
      if st.term then some st
      else
        let (cmd, st1) := getVisitor jp lvl (segEqTree (some k) k.length) x st
        let st2 := if cmd == .terminate then { st1 with term := true } else st1
        if cmd != .skipNested && isContainer x then
          match tvNode jp (lvl + 1) x st2 with
          | none => none
          | some st3 => tvObj jp lvl ms st3
        else tvObj jp lvl ms st2
end

inductive AtErr where
  | badptr | notfound | nesting | invalid
deriving Repr, BEq

/-- `jbn_at2` on parsed segments -/
def atTree2 (v : JVal) (jp : List Bytes) : Except AtErr JVal :=
  if jp.length = 0 then .ok v
  else match tvNode jp 0 v ⟨0, false, none⟩ with
    | none => .error .nesting
    | some st => match st.res with
      | some r => .ok r
      | none => .error .notfound

/-- `jbn_at` -/
def atTree (v : JVal) (path : Bytes) : Except AtErr JVal :=
  match parse path with
  | none => .error .badptr
  | some jp => atTree2 v jp

/-! ## Binary form: `_jbl_visit` with `_jbl_get_visitor` -/

def isContB : BVal → Bool
  | .cont _ => true
  | _ => false

mutual
  /-- `_jbl_visit(&iter, lvl, …)` for the container `bs`; `none` = error (nesting level or bad header) -/
  def bvCont (jp : List Bytes) : Nat → Nat → Bytes → VS BVal → Option (VS BVal)
    | 0, _, _, _ => none
    | fuel + 1, lvl, bs, st =>
      match iterInit bs with
      | none => none
      | some (h, cur) =>
        if lvl > JBL_MAX_NESTING_LEVEL then none
        else if h.ty = BINN_LIST then bvList jp fuel lvl 0 (listItems h.count cur) st
        else if h.ty = BINN_OBJECT then bvObj jp fuel lvl (objItems h.count cur) st
        else some st
  termination_by fuel _ _ _ => (fuel, 0)
  def bvList (jp : List Bytes) : Nat → Nat → Nat → List BVal → VS BVal → Option (VS BVal)
    | _, _, _, [], st => some st
    | fuel, lvl, i, x :: xs, st =>
      if st.term then some st
      else
        let (cmd, st1) := getVisitor jp lvl (segEqBinn none i) x st
        if cmd == .terminate then some { st1 with term := true }
        else if cmd != .skipNested && isContB x then
          match x with
          | .cont b =>
            match bvCont jp fuel (lvl + 1) b st1 with
            | none => none
            | some st3 => bvList jp fuel lvl (i + 1) xs st3
          | _ => bvList jp fuel lvl (i + 1) xs st1
        else bvList jp fuel lvl (i + 1) xs st1
  termination_by fuel _ _ xs _ => (fuel, xs.length + 1)
  def bvObj (jp : List Bytes) : Nat → Nat → List (Bytes × BVal) → VS BVal → Option (VS BVal)
    | _, _, [], st => some st
    | fuel, lvl, (k, x) :: ms, st =>
      if st.term then some st
      else
        let (cmd, st1) := getVisitor jp lvl (segEqBinn (some k) 0) x st
        if cmd == .terminate then some { st1 with term := true }
        else if cmd != .skipNested && isContB x then
          match x with
          | .cont b =>
            match bvCont jp fuel (lvl + 1) b st1 with
            | none => none
            | some st3 => bvObj jp fuel lvl ms st3
          | _ => bvObj jp fuel lvl ms st1
        else bvObj jp fuel lvl ms st1
  termination_by fuel _ ms _ => (fuel, ms.length + 1)
end

/-- `jbl_at2` on parsed segments; the root holder itself for the empty pointer -/
def atBinn2 (b : BVal) (jp : List Bytes) : Except AtErr BVal :=
  if jp.length = 0 then .ok b
  else match b with
    | .cont bs =>
      match iterInit bs with
      | none => .error .invalid
      | some _ =>
        match bvCont jp (bs.length + 1) 0 bs ⟨0, false, none⟩ with
        | none => .error .nesting
        | some st => match st.res with
          | some r => .ok r
          | none => .error .notfound
    | _ => .error .invalid

/-- `jbl_at` -/
def atBinn (b : BVal) (path : Bytes) : Except AtErr BVal :=
  match parse path with
  | none => .error .badptr
  | some jp => atBinn2 b jp

end IwModel.Ptr
