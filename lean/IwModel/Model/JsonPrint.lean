import IwModel.Model.JsonUtf8
import IwModel.Model.JVal
import IwModel.Model.Conv
import IwModel.Gen.Json
/-! Printer of the JSON text layer: `_jbl_write_json_string`, `_jbl_write_int`, `_jbl_write_double`,
`iwjson_ftoa` (src/json/iwjson.c) and `_jbl_node_as_json` (src/json/iwjser.c), all print flags.

Doubles are 64-bit patterns; `ftoa` computes what `snprintf("%.8Lf")` / `"%.17Lg"` print by exact integer
arithmetic on the value `m · 2^e` (round-half-even at the last printed digit, as glibc does in the default
rounding mode). The node printer takes the number formatter as a parameter so that theorems can keep
doubles opaque. -/
namespace IwModel.Json

inductive PrErr where
  | utf8
deriving Repr, DecidableEq, Inhabited

def PrErr.name : PrErr → String
  | .utf8 => "utf8"

def hexUp (n : Nat) : Nat := if n < 10 then 48 + n else 55 + n

/-- `snprintf(sbuf, 7, "\\u%04X", cp)` for `cp < 0x10000` -/
def u4 (cp : Nat) : Bytes :=
  [92, 117, hexUp (cp / 4096 % 16), hexUp (cp / 256 % 16), hexUp (cp / 16 % 16), hexUp (cp % 16)]

/-- the escape written for a code point with the CODEPOINTS flag -/
def cpEscape (cp : Nat) : Bytes :=
  if cp ≥ 0x10000 then
    let c := cp - 0x10000
    u4 (0xD800 + c / 1024 % 1024) ++ u4 (0xDC00 + c % 1024)
  else u4 cp

def shortEscape (ch : Nat) : Option Nat :=
  if Gen.Json.jsonEscLo ≤ ch ∧ ch ≤ Gen.Json.jsonEscHi ∧ !Gen.Json.jsonEscExcluded.contains ch then
    Gen.Json.jsonSpecials[ch - Gen.Json.jsonEscLo]?
  else none

/-- `isprint` in the "C" locale -/
def isPrint (ch : Nat) : Bool := 32 ≤ ch ∧ ch ≤ 126

/-- body loop of `_jbl_write_json_string`; `skip` = bytes still covered by `i += sz - 1` -/
def writeBody (cpf : Bool) : Nat → Bytes → Except PrErr Bytes
  | _, [] => .ok []
  | skip + 1, _ :: rest => writeBody cpf skip rest
  | 0, ch :: rest =>
    if ch = 34 ∨ ch = 92 then (writeBody cpf 0 rest).map ([92, ch] ++ ·)
    else match shortEscape ch with
      | some l => (writeBody cpf 0 rest).map ([92, l] ++ ·)
      | none =>
        if ch < 32 then (writeBody cpf 0 rest).map (u4 ch ++ ·)
        else if isPrint ch then (writeBody cpf 0 rest).map ([ch] ++ ·)
        else if cpf then
          match iterate (ch :: rest) with
          | none => .error .utf8
          | some (cp, sz) => (writeBody cpf (sz - 1) rest).map (cpEscape cp ++ ·)
        else (writeBody cpf 0 rest).map ([ch] ++ ·)

/-- `_jbl_write_json_string(str, len, pt, op, pf)` -/
def writeString (cpf : Bool) (s : Bytes) : Except PrErr Bytes :=
  (writeBody cpf 0 s).map fun b => [34] ++ b ++ [34]

/-- `_jbl_write_int`: `iwitoa` into a 32-byte buffer (all of int64 fits) -/
def writeInt (v : Int) : Bytes := Conv.itoaSpec v

/-! ### `iwjson_ftoa` -/

def pad8 (n : Nat) : Bytes :=
  (List.range 8).map fun i => 48 + n / 10 ^ (7 - i) % 10

/-- round-half-even of `num / den` -/
def roundHalfEven (num den : Nat) : Nat :=
  let q := num / den
  let r := num % den
  if 2 * r > den ∨ (2 * r = den ∧ q % 2 = 1) then q + 1 else q

def trimZeros (t : Bytes) : Bytes :=
  let t1 := (t.reverse.dropWhile (· = 48)).reverse
  if t1.getLast? = some 46 then t1.dropLast else t1

/-- number of decimal digits of `n > 0` -/
def ndigits (n : Nat) : Nat := (Conv.digits n).length

/-- mantissa digits `D` (17 significant digits) and decimal exponent `X` in the form `d.ddde+XX`, trailing zeros removed -/
def g17Core (D X : Nat) : Bytes :=
  let ds := Conv.digits D
  let frac := ((ds.drop 1).reverse.dropWhile (· = 48)).reverse
  let mant := if frac.isEmpty then ds.take 1 else ds.take 1 ++ [46] ++ frac
  let xs := Conv.digits X
  mant ++ [101, 43] ++ (if xs.length < 2 then 48 :: xs else xs)

/-- `"%.17Lg"` of an integer-valued `n ≥ 10^17` (exponent form, trailing zeros removed) -/
def fmtG17 (n : Nat) : Bytes :=
  let k := ndigits n
  let D0 := roundHalfEven n (10 ^ (k - 17))
  if D0 ≥ 10 ^ 17 then g17Core (D0 / 10) k else g17Core D0 (k - 1)

def numbufSize : Nat := Gen.IWNUMBUF_SIZE

def sgn (neg : Bool) : Bytes := if neg then [45] else []

/-- finite value: `N` = |x|·10^8 rounded half-even, `big` = |x| when it is an integer too long for the plain form -/
def ftoaFinite (neg : Bool) (N big : Nat) : Bytes :=
  let plain := sgn neg ++ Conv.digits (N / 10 ^ 8) ++ [46] ++ pad8 (N % 10 ^ 8)
  if plain.length < numbufSize then trimZeros plain else sgn neg ++ fmtG17 big

/-- text that `iwjson_ftoa` leaves in the buffer for the double with bit pattern `bits` -/
def ftoa (bits : Nat) : Bytes :=
  let neg := bits / 2 ^ 63 % 2 = 1
  let ex := bits / 2 ^ 52 % 2048
  let man := bits % 2 ^ 52
  if ex = 2047 then sgn neg ++ (if man = 0 then [105, 110, 102] else [110, 97, 110])
  else
    let m := if ex = 0 then man else man + 2 ^ 52
    let e2 : Int := ((if ex = 0 then 1 else ex : Nat) : Int) - 1075
    let N : Nat := if e2 ≥ 0 then m * 2 ^ e2.toNat * 10 ^ 8 else roundHalfEven (m * 10 ^ 8) (2 ^ (-e2).toNat)
    ftoaFinite neg N (m * 2 ^ e2.toNat)

/-! ### `_jbl_node_as_json` -/

structure PFlags where
  pretty : Bool
  indent : Nat
  cpf : Bool

/-- decoding of `jbl_print_flags_t` as `_jbl_node_as_json` / `_jbl_write_json_string` read it -/
def PFlags.ofNat (pf : Nat) : PFlags :=
  { pretty := pf % 2 = 1,
    indent := if pf / 4 % 2 = 1 then 2 else if pf / 8 % 2 = 1 then 4 else 1,
    cpf := pf / 2 % 2 = 1 }

def spaces (n : Nat) : Bytes := List.replicate n 32

def litNullP : Bytes := [110, 117, 108, 108]
def litTrueP : Bytes := [116, 114, 117, 101]
def litFalseP : Bytes := [102, 97, 108, 115, 101]

mutual
  def printNode (fmt : Nat → Bytes) (fl : PFlags) : JVal → Nat → Except PrErr Bytes
    | .null, _ => .ok litNullP
    | .bool true, _ => .ok litTrueP
    | .bool false, _ => .ok litFalseP
    | .int i, _ => .ok (writeInt i)
    | .f64 b, _ => .ok (fmt b)
    | .str s, _ => writeString fl.cpf s
    | .arr xs, lvl =>
      match printItems fmt fl xs lvl with
      | .error e => .error e
      | .ok body =>
        let nl : Bytes := if !xs.isEmpty && fl.pretty then [10] else []
        let ind : Bytes := if !xs.isEmpty && fl.pretty then spaces (lvl * fl.indent) else []
        .ok ([91] ++ nl ++ body ++ ind ++ [93])
    | .obj ms, lvl =>
      match printMembers fmt fl ms lvl with
      | .error e => .error e
      | .ok body =>
        let nl : Bytes := if !ms.isEmpty && fl.pretty then [10] else []
        let ind : Bytes := if !ms.isEmpty && fl.pretty then spaces (lvl * fl.indent) else []
        .ok ([123] ++ nl ++ body ++ ind ++ [125])

  def printItems (fmt : Nat → Bytes) (fl : PFlags) : List JVal → Nat → Except PrErr Bytes
    | [], _ => .ok []
    | x :: rest, lvl =>
      match printNode fmt fl x (lvl + 1) with
      | .error e => .error e
      | .ok a =>
        match printItems fmt fl rest lvl with
        | .error e => .error e
        | .ok b =>
          .ok ((if fl.pretty then spaces (lvl * fl.indent + fl.indent) else []) ++ a
            ++ (if rest.isEmpty then [] else [44]) ++ (if fl.pretty then [10] else []) ++ b)

  def printMembers (fmt : Nat → Bytes) (fl : PFlags) : List (Bytes × JVal) → Nat → Except PrErr Bytes
    | [], _ => .ok []
    | (k, x) :: rest, lvl =>
      match writeString fl.cpf k with
      | .error e => .error e
      | .ok ks =>
        match printNode fmt fl x (lvl + 1) with
        | .error e => .error e
        | .ok a =>
          match printMembers fmt fl rest lvl with
          | .error e => .error e
          | .ok b =>
            .ok ((if fl.pretty then spaces (lvl * fl.indent + fl.indent) else []) ++ ks
              ++ (if fl.pretty then [58, 32] else [58]) ++ a
              ++ (if rest.isEmpty then [] else [44]) ++ (if fl.pretty then [10] else []) ++ b)
end

/-- `jbn_as_json(node, pt, op, pf)` -/
def print (fmt : Nat → Bytes) (pf : Nat) (v : JVal) : Except PrErr Bytes :=
  printNode fmt (PFlags.ofNat pf) v 0

end IwModel.Json
