/-! # Lock-protected multi-step effects (C07, atomicity)

A store with per-database contents `sh : Nat → S`.  A call works on one database, as a *sequence of
micro-steps* that read and write that database's contents and the caller's private state `X` (arguments,
cursor state, results).  It runs under the database lock: write mode for calls that may modify the contents,
read mode for calls whose micro-steps leave the contents unchanged.  Other threads' micro-steps interleave
freely, restricted only by the lock.

`CStep` is that fine-grained semantics, `AStep` the atomic one (a whole call in one step).  The theorem of
`Props/C07.lean` says every fine-grained run is matched by an atomic run with the same final contents and
the same private states — i.e. by a sequential order of the calls that respects each thread's program order.

The fields `x0`, `s0` of a running call and `base` of the configuration are ghosts (used by the proof only,
never read by a step). -/
namespace IwModel.Atomic

variable {S X : Type}

structure Call (S X : Type) where
  db : Nat
  excl : Bool                            -- true: database write lock, false: read lock
  micro : List (S × X → S × X)

/-- run micro-steps in order -/
def runM (ms : List (S × X → S × X)) (p : S × X) : S × X := ms.foldl (fun p m => m p) p

/-- the micro-steps do not change the contents -/
def Call.readOnly (c : Call S X) : Prop := ∀ m ∈ c.micro, ∀ p, (m p).1 = p.1

structure Cur (S X : Type) where
  call : Call S X
  rest : List (S × X → S × X)
  x0 : X
  s0 : S

structure TS (S X : Type) where
  todo : List (Call S X)
  cur : Option (Cur S X)
  x : X

structure Cfg (S X : Type) where
  n : Nat
  sh : Nat → S
  base : Nat → S
  thr : Nat → TS S X

def upd {α : Type} (f : Nat → α) (i : Nat) (v : α) : Nat → α := fun j => if j = i then v else f j

/-- the read/write lock of database `c.db` can be taken by thread `i` for call `c` -/
def lockFree (cf : Cfg S X) (i : Nat) (c : Call S X) : Prop :=
  ∀ j, j < cf.n → j ≠ i → ∀ k, (cf.thr j).cur = some k → k.call.db = c.db → c.excl = false ∧ k.call.excl = false

/-- configurations after the three kinds of step -/
def cfBegin (cf : Cfg S X) (i : Nat) (c : Call S X) (rest : List (Call S X)) : Cfg S X :=
  { cf with thr := upd cf.thr i ⟨rest, some ⟨c, c.micro, (cf.thr i).x, cf.sh c.db⟩, (cf.thr i).x⟩ }

def cfMicro (cf : Cfg S X) (i : Nat) (k : Cur S X) (m : S × X → S × X) (ms : List (S × X → S × X)) : Cfg S X :=
  { cf with
    sh := upd cf.sh k.call.db (m (cf.sh k.call.db, (cf.thr i).x)).1,
    thr := upd cf.thr i ⟨(cf.thr i).todo, some ⟨k.call, ms, k.x0, k.s0⟩, (m (cf.sh k.call.db, (cf.thr i).x)).2⟩ }

def cfFinish (cf : Cfg S X) (i : Nat) (k : Cur S X) : Cfg S X :=
  { cf with
    base := upd cf.base k.call.db (cf.sh k.call.db),
    thr := upd cf.thr i ⟨(cf.thr i).todo, none, (cf.thr i).x⟩ }

inductive CStep (cf : Cfg S X) : Cfg S X → Prop where
  | begin (i : Nat) (c : Call S X) (rest : List (Call S X)) :
      i < cf.n → (cf.thr i).todo = c :: rest → (cf.thr i).cur = none → lockFree cf i c →
      CStep cf (cfBegin cf i c rest)
  | micro (i : Nat) (k : Cur S X) (m : S × X → S × X) (ms : List (S × X → S × X)) :
      i < cf.n → (cf.thr i).cur = some k → k.rest = m :: ms →
      CStep cf (cfMicro cf i k m ms)
  | finish (i : Nat) (k : Cur S X) :
      i < cf.n → (cf.thr i).cur = some k → k.rest = [] →
      CStep cf (cfFinish cf i k)

inductive CRun : Cfg S X → Cfg S X → Prop where
  | refl (c) : CRun c c
  | step {a b c} : CRun a b → CStep b c → CRun a c

/-! ## atomic semantics -/

structure ATS (S X : Type) where
  todo : List (Call S X)
  x : X

structure ACfg (S X : Type) where
  n : Nat
  sh : Nat → S
  thr : Nat → ATS S X

/-- thread `i` executes its next call in one step -/
inductive AStep (a a' : ACfg S X) : Prop where
  | mk (i : Nat) (c : Call S X) (rest : List (Call S X)) :
      i < a.n → (a.thr i).todo = c :: rest → a'.n = a.n →
      a'.sh = upd a.sh c.db (runM c.micro (a.sh c.db, (a.thr i).x)).1 →
      (∀ j, a'.thr j = if j = i then ⟨rest, (runM c.micro (a.sh c.db, (a.thr i).x)).2⟩ else a.thr j) →
      AStep a a'

inductive ARun : ACfg S X → ACfg S X → Prop where
  | refl (a) : ARun a a
  | step {a b c} : ARun a b → AStep b c → ARun a c

/-- start: nobody inside a call -/
def Initial (c : Cfg S X) : Prop := (∀ i, (c.thr i).cur = none) ∧ c.base = c.sh

/-- end: every thread has run its whole program -/
def Final (c : Cfg S X) : Prop := ∀ i, i < c.n → (c.thr i).cur = none ∧ (c.thr i).todo = []

/-- calls that take the read lock do not modify the contents -/
def ReadersReadOnly (c : Cfg S X) : Prop :=
  ∀ i, ∀ k ∈ (c.thr i).todo, k.excl = false → k.readOnly

/-- the atomic configuration a fine-grained one starts as -/
def initA (c : Cfg S X) : ACfg S X :=
  { n := c.n, sh := c.sh, thr := fun i => ⟨(c.thr i).todo, (c.thr i).x⟩ }

end IwModel.Atomic
