/-! Word-wise bit scans of `src/fs/iwfsmfile.c` (`_fsm_find_next_set_bit`, `_fsm_find_prev_set_bit`, little-endian
branch) and the leaves they use from `src/utils/iwbits.h`; the byte-wise bitmap scan of `_fsm_load_fsm_lw`.
The bitmap is a list of 64-bit words, bit `i` of the map is bit `i % 64` of word `i / 64`. -/
namespace IwModel.FsmScan

abbrev Word := BitVec 64

/-- one halving step of `iwbits_find_first_sbit64`: when the low `k` bits (`mask`) are clear, count them and shift -/
def ffsStep (k : Nat) (mask : Word) (st : Nat × Word) : Nat × Word :=
  if st.2 &&& mask = 0 then (st.1 + k, st.2 >>> k) else st

/-- `iwbits_find_first_sbit64` (binary search for the lowest set bit; 63 for 0) -/
def ffs (x : Word) : Nat :=
  let st := ffsStep 2 0x3#64 (ffsStep 4 0xf#64 (ffsStep 8 0xff#64 (ffsStep 16 0xffff#64 (ffsStep 32 0xffffffff#64 (0, x)))))
  if st.2 &&& 0x1#64 = 0 then st.1 + 1 else st.1

/-- `iwbits_reverse_64` -/
def rev64 (x : Word) : Word :=
  let x := (x <<< 32) ||| (x >>> 32)
  let x := ((x &&& 0x0001ffff0001ffff#64) <<< 15) ||| ((x &&& 0xfffe0000fffe0000#64) >>> 17)
  let t := (x ^^^ (x >>> 10)) &&& 0x003f801f003f801f#64
  let x := (t ||| (t <<< 10)) ^^^ x
  let t := (x ^^^ (x >>> 4)) &&& 0x0e0384210e038421#64
  let x := (t ||| (t <<< 4)) ^^^ x
  let t := (x ^^^ (x >>> 2)) &&& 0x2248884222488842#64
  (t ||| (t <<< 2)) ^^^ x

def word (w : List Word) (p : Nat) : Word := w.getD p 0

/-- the whole-word loop and the final partial word of `_fsm_find_next_set_bit`;
    `off` is word aligned, `size` bits remain, `p` is the word index -/
def nextLoop (w : List Word) : Nat → Nat → Nat → Nat → Option Nat
  | 0, _, _, _ => none
  | fuel + 1, p, off, size =>
    if size ≥ 64 then
      let tmp := word w p
      if tmp ≠ 0 then some (off + ffs tmp) else nextLoop w fuel (p + 1) (off + 64) (size - 64)
    else if size = 0 then none
    else
      let tmp := word w p &&& (BitVec.allOnes 64 >>> (64 - size))
      if tmp ≠ 0 then some (off + ffs tmp) else none

/-- `_fsm_find_next_set_bit(addr, offset_bit, max_offset_bit, &found)` -/
def findNext (w : List Word) (off max : Nat) : Option Nat :=
  if off ≥ max then none
  else
    let bit := off % 64
    let off0 := off - bit
    let size := max - off0
    let p := off / 64
    if bit ≠ 0 then
      let tmp := word w p &&& (BitVec.allOnes 64 <<< bit)
      if tmp ≠ 0 then
        let t := ffs tmp
        if t ≥ size then none else some (off0 + t)
      else if size ≤ 64 then none
      else nextLoop w (size / 64 + 1) (p + 1) (off0 + 64) (size - 64)
    else nextLoop w (size / 64 + 1) p off0 size

/-- whole-word loop and final partial word of `_fsm_find_prev_set_bit`; `p` is one past the word to read -/
def prevLoop (w : List Word) : Nat → Nat → Nat → Nat → Option Nat
  | 0, _, _, _ => none
  | fuel + 1, p, off, size =>
    if size ≥ 64 then
      let v := word w (p - 1)
      if v ≠ 0 then
        let t := ffs (rev64 v)
        some (if off > t then off - t - 1 else 0)
      else prevLoop w fuel (p - 1) (off - 64) (size - 64)
    else if size = 0 then none
    else
      let tmp := rev64 (word w (p - 1)) &&& ((1#64 <<< size) - 1#64)
      if tmp ≠ 0 then
        let t := ffs tmp
        some (if off > t then off - t - 1 else 0)
      else none

/-- `_fsm_find_prev_set_bit(addr, offset_bit, min_offset_bit, &found)` -/
def findPrev (w : List Word) (off min : Nat) : Option Nat :=
  if min ≥ off then none
  else
    let size := off - min
    let bit := off % 64
    let p := off / 64
    if bit ≠ 0 then
      let tmp := rev64 (word w p) >>> (64 - bit)
      if tmp ≠ 0 then
        let t := ffs tmp
        if t ≥ size then none else some (if off > t then off - t - 1 else 0)
      else prevLoop w (size / 64 + 1) p (off - bit) (size - bit)
    else prevLoop w (size / 64 + 1) p off size

/-! ### byte-wise run extraction of `_fsm_load_fsm_lw` -/

/-- state: `cbnum` bits consumed, `fbk` length of the open clear run, accumulated runs (reversed) -/
def loadBits : Nat → Nat → Nat → Nat → Nat → List (Nat × Nat) → Nat × Nat × List (Nat × Nat)
  | 0, _, _, cb, fbk, acc => (cb, fbk, acc)
  | n + 1, bb, i, cb, fbk, acc =>
    if bb / 2 ^ i % 2 = 1 then
      loadBits n bb (i + 1) (cb + 1) 0 (if fbk ≠ 0 then (cb - fbk, fbk) :: acc else acc)
    else loadBits n bb (i + 1) (cb + 1) (fbk + 1) acc

def loadBytes : List Nat → Nat → Nat → List (Nat × Nat) → List (Nat × Nat)
  | [], cb, fbk, acc => (if fbk > 0 then (cb - fbk, fbk) :: acc else acc).reverse
  | bb :: rest, cb, fbk, acc =>
    if bb = 0 then loadBytes rest (cb + 8) (fbk + 8) acc
    else if bb = 255 then loadBytes rest (cb + 8) 0 (if fbk ≠ 0 then (cb - fbk, fbk) :: acc else acc)
    else
      let (cb, fbk, acc) := loadBits 8 bb 0 cb fbk acc
      loadBytes rest cb fbk acc

/-- the extents `_fsm_load_fsm_lw` hands to `_fsm_put_fbk`, in order -/
def load (bytes : List Nat) : List (Nat × Nat) := loadBytes bytes 0 0 []

end IwModel.FsmScan
