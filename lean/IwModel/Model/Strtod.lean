import IwModel.Model.SoftF64
import IwModel.Gen.Pow10
/-! `iwstrtod` of src/utils/iwconv.c, branch by branch, on IEEE binary64 bit patterns computed by the exact-integer
soft float of `Model/SoftF64.lean`.  `pow(10.0, (double) e)` of libm is a regenerated table (`Gen/Pow10.lean`).

The text is a C string: the end of the list and a `0` byte both mean NUL.  The result is
`(bit pattern of the returned double, end - str, errno == ERANGE afterwards)` for a call entered with `errno == 0`.
Pointers are the remaining text plus the number of bytes consumed so far; `*(p - 1)` is the last byte consumed. -/
namespace IwModel.Json
open IwModel.SoftF64 IwModel.Gen.Pow10

def isSpaceC (c : Nat) : Bool := c = 32 ∨ (9 ≤ c ∧ c ≤ 13)
def isDigitC (c : Nat) : Bool := 48 ≤ c ∧ c ≤ 57

def chd (p : Bytes) : Nat := p.headD 0

/-- the `double` value of the `int` variable `sign` -/
def signF (neg : Bool) : Nat := ofInt (if neg then -1 else 1)

/-- `d = d * 10.0 + (double) (*p - '0')` -/
def intStep (d c : Nat) : Nat := add (mul d litTen) (ofNat (c - 48))

/-- `d = (double) (*p++ - '0'); while (*p && iwchars_is_digit(*p)) { d = d * 10.0 + …; ++p; }` over the digit run `ds` -/
def intLoop : Bytes → Nat
  | [] => 0
  | c :: cs => cs.foldl intStep (ofNat (c - 48))

/-- `f += base * (*p - '0'); base /= 10.0;` on the state `(f, base)` -/
def fracStep (s : Nat × Nat) (c : Nat) : Nat × Nat := (add s.1 (mul s.2 (ofNat (c - 48))), div s.2 litTen)

/-- the fraction loop over the digit run `fs`, from `f = 0.0`, `base = 0.1` -/
def fracLoop (fs : Bytes) : Nat := (fs.foldl fracStep (0, litTenth)).1

/-- `e = e * 10 + (*p - '0')` while `e < 100000` -/
def expStep (e c : Nat) : Nat := if e < 100000 then e * 10 + (c - 48) else e

/-- value of the exponent digit run: zeros are skipped (stepping back to the last one when nothing else follows, which
    gives 0), then the first digit starts `e` and the rest are accumulated with the cap -/
def expVal (ds : Bytes) : Nat := (ds.dropWhile (· = 48)).foldl expStep 0

/-- libm `pow(10.0, (double) e)`: (result, whether it set `errno = ERANGE`); tabulated, see `Gen/Pow10.lean` -/
def pow10 (e : Int) : Nat × Bool :=
  if e < -(pow10Lo : Int) then (0, true)
  else if e > (pow10Hi : Int) then (infBits, true)
  else (pow10Tab.getD (e + pow10Lo).toNat 0, false)

/-- the end of the exponential part: the two special cases near `DBL_MIN`, then `d *= pow(10.0, e)`; `n` = `p - str` -/
def scaleExp (d : Nat) (e : Int) (n : Nat) : Nat × Nat × Bool :=
  if feq d litMinA && e == -308 then (0, n, true)
  else if feq d litMinB && e ≤ -308 then (mul d lit1em308, n, false)
  else
    let pw := pow10 e
    (mul d pw.1, n, pw.2)

/-- the exponential part behind `e`/`E` and the optional sign: `eneg` the sign read, `p` the text there, `n2 = p - str`;
    `n` is the offset of the `e` (where `a` still points), `prev` the byte before it -/
def expTail (d : Nat) (eneg : Bool) (p : Bytes) (n2 n prev : Nat) : Nat × Nat × Bool :=
  if isDigitC (chd p) then
    let ds := p.takeWhile isDigitC
    scaleExp d (if eneg then -(expVal ds : Int) else (expVal ds : Int)) (n2 + ds.length)
  else if !isDigitC prev then (d, 0, false)
  else if chd p = 0 then (d, n, false)
  else scaleExp d 0 n2

/-- from `if ((*p == 'E') || (*p == 'e'))` to the end.  `d` is the value so far, `p` the remaining text, `n = p - str`,
    `prev = *(p - 1)`; at this point `a == p` in the C code whenever `a` is read. -/
def expPart (d : Nat) (p : Bytes) (n prev : Nat) : Nat × Nat × Bool :=
  if chd p = 69 ∨ chd p = 101 then
    let p1 := p.drop 1
    if chd p1 = 45 then expTail d true (p1.drop 1) (n + 2) n prev
    else if chd p1 = 43 then expTail d false (p1.drop 1) (n + 2) n prev
    else expTail d false p1 (n + 1) n prev
  else if n > 0 ∧ !isDigitC prev then (d, 0, false)
  else (d, n, false)

/-- from `d *= sign` on: `d0` is the value of the integer digits, `p` the text after them -/
def fracPart (neg : Bool) (d0 : Nat) (p : Bytes) (n prev : Nat) : Nat × Nat × Bool :=
  let d := mul d0 (signF neg)
  if chd p = 46 then
    let fs := (p.drop 1).takeWhile isDigitC
    let d' := add d (mul (fracLoop fs) (signF neg))
    expPart d' (p.drop (1 + fs.length)) (n + 1 + fs.length) (if fs.isEmpty then 46 else fs.getLast?.getD 0)
  else expPart d p n prev

/-- behind the white space and the optional sign: `p` the text there, `n = p - str` -/
def numPart (neg : Bool) (p : Bytes) (n : Nat) : Nat × Nat × Bool :=
  if isDigitC (chd p) then
    let ds := p.takeWhile isDigitC
    fracPart neg (intLoop ds) (p.drop ds.length) (n + ds.length) (ds.getLast?.getD 0)
  else if chd p ≠ 46 then (0, 0, false)
  else fracPart neg 0 p n 0      -- `*p == '.'`: the byte before it is never looked at

/-- `iwstrtod(str, &end)` -/
def iwstrtodModel (str : Bytes) : Nat × Nat × Bool :=
  let ws := str.takeWhile isSpaceC
  let p0 := str.drop ws.length
  if chd p0 = 45 then numPart true (p0.drop 1) (ws.length + 1)
  else if chd p0 = 43 then numPart false (p0.drop 1) (ws.length + 1)
  else numPart false p0 ws.length

end IwModel.Json
