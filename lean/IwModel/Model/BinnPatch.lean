import IwModel.Model.Binn
import IwModel.Model.JsonMerge
/-! # The binary-form entry points of JSON Patch and JSON Merge Patch, on the binn BYTES (C15, C16)

`jbl_patch`, `jbl_patch_from_json` (`_jbl_patch`), `jbl_merge_patch`, `jbl_merge_patch_jbl` of `src/json/iwjson.c`:

```
rc = _jbl_node_from_binn(&jbl->bn, &root, false, pool);   RCRET / RCGO      -- decode the holder's bytes to a tree
rc = _jbl_patch_node(root, p, cnt, pool)  |  jbn_merge_patch_from_json(..)  -- patch the tree
rc = _jbl_from_node_impl(&bv, root)       |  _jbl_binn_from_node(&bv, ..)   -- encode the tree into a fresh binn
binn_free(&jbl->bn); memcpy(&jbl->bn, &bv, sizeof(jbl->bn));                -- only now the holder is replaced
```

The model is the literal composition of the reader/writer of `Model/Binn.lean` (C14) with the tree algorithms of
`Model/JsonPatch.lean` / `Model/JsonMerge.lean`.  A holder (`struct jbl`, its `binn`) is a `Binn.BVal`: `.cont bytes`
for a document, a value struct for a scalar.  Every early return leaves the holder as it was. -/
namespace IwModel.BinnPatch
open IwModel IwModel.Binn IwModel.Patch

/-- `_jbl_node_from_binn(&jbl->bn, &root, false, pool)`; `none` = `JBL_ERROR_INVALID` / `JBL_ERROR_CREATION` -/
def decodeHolder (h : BVal) : Option JVal := toNode (fuelOf h) h

/-- `_jbl_from_node_impl(&bv, root)` (+ `binn_save_header`), then the swap: on `JBL_ERROR_CREATION` (a key longer than
    255 bytes, or two keys of one object equal ignoring ASCII case) the function returns before the holder is touched -/
def swapIn (h : BVal) (t : JVal) : BVal × Err :=
  match fromNode t with
  | some h' => (h', .ok)
  | none => (h, .creation)

/-- `_jbl_patch(jbl, p, cnt, pool)` with the decoded operations.  A removed root (`JBV_NONE`) zeroes the holder:
    type 0 is `BINN_NULL`. -/
def applyHolder (h : BVal) (ops : List RawOp) : BVal × Err :=
  if ops.isEmpty then (h, .ok)
  else
    match decodeHolder h with
    | none => (h, .unmodelled)
    | some doc =>
      match patchNode (ofJ doc) ops with
      | (.none, .ok) => (.null, .ok)
      | (t, .ok) => swapIn h (erase t)
      | (_, e) => (h, e)

/-- `jbl_patch` / the array branch of `jbl_patch_from_json` (`_jbl_create_patch`, then `_jbl_patch`) -/
def jblPatch (h : BVal) (patch : Node) : BVal × Err :=
  match decode patch with
  | .error e => (h, e)
  | .ok ops => applyHolder h ops

/-- `jbl_patch_from_json` once the patch text is parsed -/
def jblPatchFromJson (h : BVal) (patch : Node) : BVal × Err :=
  match patch with
  | .arr _ => jblPatch h patch
  | .obj _ => (h, .notImplemented)
  | _ => (h, .patchInvalid)

/-- `jbl_merge_patch(jbl, patchjson)` once the patch text is parsed: decode, `jbn_merge_patch_from_json`,
    `_jbl_binn_from_node`, swap -/
def mergeHolder (h : BVal) (patch : JVal) : BVal × Err :=
  match decodeHolder h with
  | none => (h, .unmodelled)
  | some doc => swapIn h (Merge.mergeFromJson doc patch).1

/-- `jbl_merge_patch_jbl(jbl, patch)`: the patch holder is printed (`jbl_as_json`) and parsed again, which yields the
    document it holds (C13/C14: `print_agree`), then `jbl_merge_patch` -/
def mergeHolderJbl (h ph : BVal) : BVal × Err :=
  match decodeHolder ph with
  | none => (h, .unmodelled)
  | some patch => mergeHolder h patch

/-- a caller applying patch documents one after the other to the same holder (a failed call changes nothing and the
    caller goes on): final holder and the return codes -/
def patchSeq (h : BVal) : List Node → BVal × List Err
  | [] => (h, [])
  | p :: r =>
    let s := jblPatch h p
    let t := patchSeq s.1 r
    (t.1, s.2 :: t.2)

def mergeSeq (h : BVal) : List JVal → BVal × List Err
  | [] => (h, [])
  | p :: r =>
    let s := mergeHolder h p
    let t := mergeSeq s.1 r
    (t.1, s.2 :: t.2)

/-- the holder `jbl_from_buf_keep` builds over a buffer (header checked, bytes kept) -/
def ofBuf (bs : Bytes) : Option BVal :=
  match parseHeader bs with
  | none => none
  | some h => if h.size > bs.length then none else some (.cont (bs.take h.size))

end IwModel.BinnPatch
