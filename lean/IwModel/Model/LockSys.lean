/-! # Threads, locks and the worker count: the transition system behind C07

Generic in the lock type `L`.  A thread runs a finite program of actions; the state of the system is the
state of its `n` threads.  The worker count of the store (`wk_count`) is not a separate variable: it is
the total of the `units` the threads hold (every `inc` is matched by a `dec` of the same thread), so
"the count is zero" reads `∀ j, units j = 0`.

* `acq l true`   — write lock / mutex / spin lock: possible when nobody holds `l`;
* `acq l false`  — read lock: possible when nobody holds `l` exclusively and, for writer-preferring locks
                   (`pref l`, the store and database locks are `PTHREAD_RWLOCK_PREFER_WRITER_NONRECURSIVE_NP`),
                   no other thread is waiting to write-lock `l`;
* `rel l`        — always possible;
* `wait l`       — `while (count > 0) pthread_cond_wait(cond, l)`: passes when the count is zero, otherwise the
                   thread releases `l` and sleeps; a sleeper continues when the count is zero and `l` is free
                   (it then holds `l` again and is past the loop);
* `inc`, `dec`   — `++wk_count`, `--wk_count` of cursor open / close. -/
namespace IwModel.LockSys

inductive Act (L : Type) where
  | acq (l : L) (ex : Bool)
  | rel (l : L)
  | wait (l : L)
  | inc
  | dec
  deriving Repr

structure Thread (L : Type) where
  prog : List (Act L)
  held : List (L × Bool)
  sleeping : Bool
  units : Nat

structure Sys (L : Type) where
  n : Nat
  thr : Nat → Thread L

variable {L : Type}

/-- replace the state of thread `i` -/
def Sys.set (s : Sys L) (i : Nat) (t : Thread L) : Sys L :=
  { s with thr := fun j => if j = i then t else s.thr j }

/-- nobody holds `l` -/
def free (s : Sys L) (l : L) : Prop := ∀ j, j < s.n → ∀ p ∈ (s.thr j).held, p.1 ≠ l

/-- nobody holds `l` exclusively -/
def noEx (s : Sys L) (l : L) : Prop := ∀ j, j < s.n → (l, true) ∉ (s.thr j).held

/-- some other thread stands at a write-lock request for `l` -/
def exWaiting (s : Sys L) (i : Nat) (l : L) : Prop :=
  ∃ j, j < s.n ∧ j ≠ i ∧ (s.thr j).sleeping = false ∧ ∃ rest, (s.thr j).prog = Act.acq l true :: rest

/-- the worker count is zero -/
def countZero (s : Sys L) : Prop := ∀ j, j < s.n → (s.thr j).units = 0

def dropLock [DecidableEq L] (h : List (L × Bool)) (l : L) : List (L × Bool) := h.filter (fun p => !(p.1 == l))

/-- One step of thread `i`. `pref l` = the lock prefers writers. -/
inductive Step [DecidableEq L] (pref : L → Bool) (s : Sys L) (i : Nat) : Sys L → Prop where
  | acqEx (l rest) : i < s.n → (s.thr i).prog = .acq l true :: rest → (s.thr i).sleeping = false → free s l →
      Step pref s i (s.set i { s.thr i with prog := rest, held := (l, true) :: (s.thr i).held })
  | acqSh (l rest) : i < s.n → (s.thr i).prog = .acq l false :: rest → (s.thr i).sleeping = false → noEx s l →
      (pref l = true → ¬ exWaiting s i l) →
      Step pref s i (s.set i { s.thr i with prog := rest, held := (l, false) :: (s.thr i).held })
  | rel (l rest) : i < s.n → (s.thr i).prog = .rel l :: rest → (s.thr i).sleeping = false →
      Step pref s i (s.set i { s.thr i with prog := rest, held := dropLock (s.thr i).held l })
  | waitPass (l rest) : i < s.n → (s.thr i).prog = .wait l :: rest → (s.thr i).sleeping = false → countZero s →
      Step pref s i (s.set i { s.thr i with prog := rest })
  | waitSleep (l rest) : i < s.n → (s.thr i).prog = .wait l :: rest → (s.thr i).sleeping = false → ¬ countZero s →
      Step pref s i (s.set i { s.thr i with held := dropLock (s.thr i).held l, sleeping := true })
  | wake (l rest) : i < s.n → (s.thr i).prog = .wait l :: rest → (s.thr i).sleeping = true → countZero s → free s l →
      Step pref s i (s.set i { s.thr i with prog := rest, held := (l, true) :: (s.thr i).held, sleeping := false })
  | inc (rest) : i < s.n → (s.thr i).prog = .inc :: rest → (s.thr i).sleeping = false →
      Step pref s i (s.set i { s.thr i with prog := rest, units := (s.thr i).units + 1 })
  | dec (rest) : i < s.n → (s.thr i).prog = .dec :: rest → (s.thr i).sleeping = false →
      Step pref s i (s.set i { s.thr i with prog := rest, units := (s.thr i).units - 1 })

/-- some thread can move -/
def CanStep [DecidableEq L] (pref : L → Bool) (s : Sys L) : Prop := ∃ i s', Step pref s i s'

/-- reachability -/
inductive Reach [DecidableEq L] (pref : L → Bool) : Sys L → Sys L → Prop where
  | refl (s) : Reach pref s s
  | step {s t u} (i) : Reach pref s t → Step pref t i u → Reach pref s u

/-! ## Static discipline of a program -/

/-- The program respects the lock order `rank` when started with `h` held: every acquire is of a lock ranked
    strictly above everything held, a wait happens holding the mutex alone, the program ends holding nothing. -/
def OrderedFrom [DecidableEq L] (rank : L → Nat) : List (L × Bool) → List (Act L) → Prop
  | h, [] => h = []
  | h, .acq l ex :: p => (∀ q ∈ h, rank q.1 < rank l) ∧ OrderedFrom rank ((l, ex) :: h) p
  | h, .rel l :: p => OrderedFrom rank (dropLock h l) p
  | h, .wait l :: p => h = [(l, true)] ∧ OrderedFrom rank h p
  | h, .inc :: p => OrderedFrom rank h p
  | h, .dec :: p => OrderedFrom rank h p

/-- The program never waits for the worker count while it holds a unit of it itself (no exclusive call while a
    cursor of the same thread is open: the documented self-deadlock), and gives every unit back. -/
def UnitsOk : Nat → List (Act L) → Prop
  | u, [] => u = 0
  | u, .inc :: p => UnitsOk (u + 1) p
  | u, .dec :: p => 0 < u ∧ UnitsOk (u - 1) p
  | u, .wait _ :: p => u = 0 ∧ UnitsOk u p
  | u, .acq _ _ :: p => UnitsOk u p
  | u, .rel _ :: p => UnitsOk u p

/-- per-thread invariant -/
def TInv [DecidableEq L] (rank : L → Nat) (t : Thread L) : Prop :=
  UnitsOk t.units t.prog ∧
  (t.sleeping = false → OrderedFrom rank t.held t.prog) ∧
  (t.sleeping = true → t.held = [] ∧ ∃ l rest, t.prog = .wait l :: rest ∧ OrderedFrom rank [(l, true)] rest)

def Inv [DecidableEq L] (rank : L → Nat) (s : Sys L) : Prop := ∀ i, i < s.n → TInv rank (s.thr i)

/-- initial states: nothing held, nobody sleeping, no units, disciplined programs -/
def Init [DecidableEq L] (rank : L → Nat) (s : Sys L) : Prop :=
  ∀ i, i < s.n → (s.thr i).held = [] ∧ (s.thr i).sleeping = false ∧ (s.thr i).units = 0 ∧
    OrderedFrom rank [] (s.thr i).prog ∧ UnitsOk 0 (s.thr i).prog

/-- mutual exclusion as a state predicate -/
def Exclusive (s : Sys L) : Prop :=
  ∀ i j l, i < s.n → j < s.n → i ≠ j → (l, true) ∈ (s.thr i).held → ∀ p ∈ (s.thr j).held, p.1 ≠ l

end IwModel.LockSys
