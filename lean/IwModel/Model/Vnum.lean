import IwModel.Model.Bytes
import IwModel.Gen.Consts
/-! Variable-length integers of the file format: `IW_SETVNUMBUF64`, `IW_READVNUMBUF64`, `IW_VNUMSIZE`
(src/utils/iwutils.h). 7-bit groups, least significant first; every byte but the last is stored
complemented (as a negative `signed char`). -/
namespace IwModel.Vnum

/-- `IW_SETVNUMBUF64` for a positive `int64_t` (and 0). -/
def enc (n : Nat) : Bytes :=
  if h : n < 128 then [n] else (255 - n % 128) :: enc (n / 128)
termination_by n
decreasing_by omega

/-- what `_to_effective_key` does with an 8-byte key: values ≥ 2^63 are negative as `int64_t`,
the macro's loop does not run, `len` stays 0 and the call fails with IW_ERROR_OVERFLOW. -/
def enc64 (n : Nat) : Option Bytes := if n < 2 ^ 63 then some (enc n) else none

/-- `IW_READVNUMBUF64`: returns (value, step). `none` = ran off the end of the buffer. -/
def decAux : Bytes → Nat → Nat → Nat → Option (Nat × Nat)
  | [], _, _, _ => none
  | b :: bs, base, acc, i =>
    if b < 128 then some (acc + base * b, i + 1)
    else decAux bs (base * 128) (acc + base * (255 - b)) (i + 1)

def dec (bs : Bytes) : Option (Nat × Nat) := decAux bs 1 0 0

def sizeAux : List Nat → List Nat → Nat → Nat
  | t :: ts, s :: ss, n => if n < t then s else sizeAux ts ss n
  | _, s :: _, _ => s
  | _, [], _ => 0

/-- `IW_VNUMSIZE`, over the threshold chain regenerated from iwutils.h -/
def size (n : Nat) : Nat := sizeAux Gen.vnumThresholds Gen.vnumSizes n

end IwModel.Vnum
