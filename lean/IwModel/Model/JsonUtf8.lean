import IwModel.Model.Bytes
/-! UTF-8 leaves used by the JSON text layer: `utf8proc_codepoint_valid`, `utf8proc_encode_char`,
`utf8proc_iterate` of src/utils/utf8proc.c, branch by branch. Bytes are `Nat` (< 256 assumed). -/
namespace IwModel.Json

/-- `utf8proc_codepoint_valid`: not a surrogate and below 0x110000 -/
def codepointValid (uc : Nat) : Bool := (uc < 0xd800 || 0xdfff < uc) && uc < 0x110000

/-- `utf8proc_encode_char` for `uc ≥ 0` (surrogates are encoded as 3 bytes, like the C code does) -/
def encodeChar (uc : Nat) : Bytes :=
  if uc < 0x80 then [uc]
  else if uc < 0x800 then [0xC0 + uc / 64, 0x80 + uc % 64]
  else if uc < 0x10000 then [0xE0 + uc / 4096, 0x80 + uc / 64 % 64, 0x80 + uc % 64]
  else if uc < 0x110000 then [0xF0 + uc / 262144, 0x80 + uc / 4096 % 64, 0x80 + uc / 64 % 64, 0x80 + uc % 64]
  else []

/-- `utf_cont(ch)`: `(ch & 0xc0) == 0x80` -/
def isCont (b : Nat) : Bool := b / 64 == 2

/-- `utf8proc_iterate(str, strlen, &cp)` with `strlen` = length of the list (> 0 at every call site):
    `some (cp, size)` or `none` for UTF8PROC_ERROR_INVALIDUTF8. -/
def iterate : Bytes → Option (Nat × Nat)
  | [] => none
  | uc :: rest =>
    if uc < 0x80 then some (uc, 1)
    else if uc < 0xc2 ∨ 0xf4 < uc then none
    else if uc < 0xe0 then
      match rest with
      | b1 :: _ => if isCont b1 then some ((uc % 32) * 64 + b1 % 64, 2) else none
      | _ => none
    else if uc < 0xf0 then
      match rest with
      | b1 :: b2 :: _ =>
        if !isCont b1 || !isCont b2 then none
        else if uc = 0xed ∧ b1 > 0x9f then none
        else
          let c := (uc % 16) * 4096 + (b1 % 64) * 64 + b2 % 64
          if c < 0x800 then none else some (c, 3)
      | _ => none
    else
      match rest with
      | b1 :: b2 :: b3 :: _ =>
        if !isCont b1 || !isCont b2 || !isCont b3 then none
        else if uc = 0xf0 ∧ b1 < 0x90 then none
        else if uc = 0xf4 ∧ b1 > 0x8f then none
        else some ((uc % 8) * 262144 + (b1 % 64) * 4096 + (b2 % 64) * 64 + b3 % 64, 4)
      | _ => none

end IwModel.Json
