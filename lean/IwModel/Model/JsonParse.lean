import IwModel.Model.JsonUnescape
import IwModel.Model.JVal
/-! `_jbl_parse_value`, `_jbl_parse_json_key`, `jbn_from_json` of src/json/iwjser.c (JSON mode, `js = false`)
and the `strtoll(p, &pe, 0)` call of the number branch.

The double branch calls `iwstrtod`; the parser model takes it as a parameter
`sd : Bytes → Nat × Nat × Bool` (bit pattern, bytes consumed, `errno == ERANGE` afterwards), so that theorems
treat doubles as opaque bit patterns; the driver passes `iwstrtodModel` (Model/Strtod.lean, soft-float).

The text is a C string: the end of the list and a `0` byte both mean NUL. Loops of the C code are recursion on
a fuel argument (`2 * length + 4` always suffices, see `parse`). -/
namespace IwModel.Json

def hd (p : Bytes) : Nat := p.headD 0

/-- value of `c` as a digit of `base` (8, 10 or 16) -/
def digitVal (base c : Nat) : Option Nat :=
  if 48 ≤ c ∧ c ≤ 57 then (if c - 48 < base then some (c - 48) else none)
  else if 97 ≤ c ∧ c ≤ 122 then (if c - 87 < base then some (c - 87) else none)
  else if 65 ≤ c ∧ c ≤ 90 then (if c - 55 < base then some (c - 55) else none)
  else none

def digitsVal (base : Nat) (ds : Bytes) : Nat := ds.foldl (fun a c => a * base + (digitVal base c).getD 0) 0

/-- optional sign: (negative, text after the sign, bytes consumed) -/
def splitSign (p : Bytes) : Bool × Bytes × Nat :=
  match p with
  | 45 :: r => (true, r, 1)
  | 43 :: r => (false, r, 1)
  | _ => (false, p, 0)

/-- base 0 detection: (base, text where the digits start, bytes of the `0x` prefix) -/
def detectBase (s : Bytes) : Nat × Bytes × Nat :=
  match s with
  | 48 :: x :: r => if x = 120 ∨ x = 88 then (16, r, 2) else (8, s, 0)
  | 48 :: [] => (8, s, 0)
  | _ => (10, s, 0)

/-- saturation to int64 with ERANGE -/
def clamp (neg : Bool) (mag n : Nat) : Int × Nat × Bool :=
  if neg then (if mag > 2 ^ 63 then (-(2 ^ 63 : Int), n, true) else (-(mag : Int), n, false))
  else (if mag ≥ 2 ^ 63 then ((2 ^ 63 - 1 : Int), n, true) else ((mag : Int), n, false))

def strtollFrom (neg : Bool) (k : Nat) (s : Bytes) : Int × Nat × Bool :=
  let b := detectBase s
  let ds := b.2.1.takeWhile fun c => (digitVal b.1 c).isSome
  if ds.isEmpty then
    if b.1 = 16 then (0, k + 1, false)      -- "0x" without a hex digit: only the "0" is consumed
    else (0, 0, false)
  else clamp neg (digitsVal b.1 ds) (k + b.2.2 + ds.length)

/-- glibc `strtoll(p, &pe, 0)` on text that does not start with white space:
    (value, bytes consumed, ERANGE). -/
def strtoll (p : Bytes) : Int × Nat × Bool :=
  let sg := splitSign p
  strtollFrom sg.1 sg.2.2 sg.2.1

/-- the bytes skipped at value position: `' ' \t \n \r ,` -/
def isSep (c : Nat) : Bool := c = 32 ∨ c = 9 ∨ c = 10 ∨ c = 13 ∨ c = 44

/-- `IS_WHITESPACE(c)` for a non-NUL byte -/
def isWs (c : Nat) : Bool := c ≠ 0 ∧ c ≤ 32

abbrev SD := Bytes → Nat × Nat × Bool

/-- `_jbl_parse_json_key`: `some key` and the text after the colon, or `none` with the text starting at `}` -/
def parseKey : Bytes → Except PErr (Option Bytes × Bytes)
  | [] => .error .json
  | c :: p =>
    if c = 0 then .error .json
    else if c = 34 then
      match parseStr 34 p true with
      | .error e => .error e
      | .ok (key, rest) =>
        match rest.dropWhile isWs with
        | 58 :: r => .ok (some (key.takeWhile (· ≠ 0)), r)      -- the key is used as a C string (strlen)
        | _ => .error .json
    else if c = 125 then .ok (none, c :: p)
    else if c ≤ 32 ∨ c = 44 then parseKey p
    else .error .json

def startsWith (p lit : Bytes) : Bool := p.take lit.length == lit

/-- the number branch (`p` starts with `-` or a digit) -/
def parseNumber (sd : SD) (p : Bytes) : Except PErr (JVal × Bytes) :=
  let (v, n, erange) := strtoll p
  let pe := p.drop n
  let c' := hd pe
  let big := erange && n ≠ 0                       -- digits beyond int64: read as double
  if !big && (n = 0 || erange) && !((hd p = 45 || hd p = 43) && hd (p.drop 1) = 46) then .error .json
  else if big ∨ c' = 46 ∨ c' = 101 ∨ c' = 69 ∨ c' = 45 ∨ c' = 43 then
    let (bits, m, er2) := sd p
    if m = 0 ∨ er2 then .error .json else .ok (.f64 bits, p.drop m)
  else .ok (.int v, pe)

def maxNesting : Nat := Gen.Json.JBL_MAX_NESTING_LEVEL

def litNull : Bytes := [110, 117, 108, 108]
def litTrue : Bytes := [116, 114, 117, 101]
def litFalse : Bytes := [102, 97, 108, 115, 101]

abbrev VRes := Except PErr (Option JVal × Bytes)

/-- append the node if one was created -/
def pushOpt {α : Type} (acc : List α) : Option α → List α
  | some v => acc ++ [v]
  | none => acc

mutual
  /-- `_jbl_parse_value(ctx, lvl, parent, key, klidx, p)`: the node created (none when it returned at a `]`)
      and the returned pointer -/
  def parseValue (sd : SD) : Nat → Nat → Bytes → VRes
    | 0, _, _ => .error .fuel
    | f + 1, lvl, p =>
      if lvl > maxNesting then .error .nesting else
      match p.dropWhile isSep with
      | [] => .error .json
      | c :: r =>
        if c = 0 then .error .json
        else if c = 110 then (if startsWith (c :: r) litNull then .ok (some .null, r.drop 3) else .error .json)
        else if c = 116 then (if startsWith (c :: r) litTrue then .ok (some (.bool true), r.drop 3) else .error .json)
        else if c = 102 then (if startsWith (c :: r) litFalse then .ok (some (.bool false), r.drop 4) else .error .json)
        else if c = 39 then .error .json
        else if c = 34 then
          match parseStr 34 r false with
          | .error e => .error e
          | .ok (s, rest) => .ok (some (.str s), rest)
        else if c = 123 then parseObj sd f lvl r []
        else if c = 91 then parseArr sd f lvl r []
        else if c = 93 then .ok (none, c :: r)
        else if c = 46 then .error .json
        else if c = 45 ∨ (48 ≤ c ∧ c ≤ 57) then
          match parseNumber sd (c :: r) with
          | .error e => .error e
          | .ok (v, rest) => .ok (some v, rest)
        else .error .json

  /-- the `for (int i = 0;; ++i)` loop of the `[` case -/
  def parseArr (sd : SD) : Nat → Nat → Bytes → List JVal → VRes
    | 0, _, _, _ => .error .fuel
    | f + 1, lvl, p, acc =>
      match parseValue sd f (lvl + 1) p with
      | .error e => .error e
      | .ok (ov, p') =>
        match p' with
        | 93 :: r => .ok (some (.arr (pushOpt acc ov)), r)
        | _ => parseArr sd f lvl p' (pushOpt acc ov)

  /-- the `while (1)` loop of the `{` case -/
  def parseObj (sd : SD) : Nat → Nat → Bytes → List (Bytes × JVal) → VRes
    | 0, _, _, _ => .error .fuel
    | f + 1, lvl, p, acc =>
      match parseKey p with
      | .error e => .error e
      | .ok (ok, p') =>
        match p' with
        | 125 :: r => .ok (some (.obj acc), r)
        | _ =>
          match ok with
          | none => .error .json                -- not reachable: parseKey returns none only at a `}`
          | some k =>
            match parseValue sd f (lvl + 1) p' with
            | .error e => .error e
            | .ok (ov, p'') => parseObj sd f lvl p'' (pushOpt acc (ov.map fun v => (k, v)))
end

/-- `_jbl_skip_bom` -/
def skipBom : Bytes → Bytes
  | 0xEF :: 0xBB :: 0xBF :: r => r
  | p => p

/-- the text as the C code sees it: up to the first NUL -/
def cstr (text : Bytes) : Bytes := text.takeWhile (· ≠ 0)

/-- `jbn_from_json(json, &node, pool)`: rc and root node (never `none` since the `!ctx.root` check) -/
def parse (sd : SD) (text : Bytes) : Except PErr (Option JVal) :=
  let t := skipBom (cstr text)
  match parseValue sd (2 * t.length + 4) 0 t with
  | .error e => .error e
  | .ok (none, _) => .error .json          -- a lone `]` ends the value without producing a node
  | .ok (some v, _) => .ok (some v)

end IwModel.Json
