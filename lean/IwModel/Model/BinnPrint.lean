import IwModel.Model.JsonPtr
import IwModel.Model.JsonPrint
/-! Executable model of the two JSON text printers: `_jbl_node_as_json` (tree, `iwjser.c`) and `_jbl_as_json`
(binary form, `iwjson.c`). The structure (brackets, commas, indentation, key/value order) is modelled for both;
the text of the leaves comes from `Leaf` functions so that the agreement theorem holds for *any* number and
string formatting (those belong to C13). `stdLeaf` is a concrete instance used by the driver. -/
namespace IwModel.BinnPrint
open IwModel.Gen.Binn IwModel.Binn

/-- formatting of the leaves: `_jbl_write_int`, `_jbl_write_double`, `_jbl_write_json_string` (`none` = error) -/
structure Leaf where
  int : Int → Bytes
  f64 : Nat → Bytes
  str : Bytes → Option Bytes

def spaces (n : Nat) : Bytes := List.replicate n 32

def ascii (s : String) : Bytes := s.toList.map Char.toNat

/-! ## Tree printer -/
mutual
  /-- `_jbl_node_as_json(node, lvl)`; `indent` is 1, 2 or 4 -/
  def printTree (L : Leaf) (pretty : Bool) (indent : Nat) : Nat → JVal → Option Bytes
    | _, .null => some (ascii "null")
    | _, .bool b => some (ascii (if b then "true" else "false"))
    | _, .int i => some (L.int i)
    | _, .f64 b => some (L.f64 b)
    | _, .str s => L.str s
    | lvl, .arr xs =>
      match printTreeArr L pretty indent lvl xs with
      | none => none
      | some body =>
        some ([91] ++ (if !xs.isEmpty && pretty then [10] else []) ++ body ++
              (if !xs.isEmpty && pretty then spaces (lvl * indent) else []) ++ [93])
    | lvl, .obj ms =>
      match printTreeObj L pretty indent lvl ms with
      | none => none
      | some body =>
        some ([123] ++ (if !ms.isEmpty && pretty then [10] else []) ++ body ++
              (if !ms.isEmpty && pretty then spaces (lvl * indent) else []) ++ [125])
  def printTreeArr (L : Leaf) (pretty : Bool) (indent : Nat) : Nat → List JVal → Option Bytes
    | _, [] => some []
    | lvl, x :: xs =>
      match printTree L pretty indent (lvl + 1) x, printTreeArr L pretty indent lvl xs with
      | some a, some r =>
        some ((if pretty then spaces (lvl * indent + indent) else []) ++ a ++
              (if !xs.isEmpty then [44] else []) ++ (if pretty then [10] else []) ++ r)
      | _, _ => none
  def printTreeObj (L : Leaf) (pretty : Bool) (indent : Nat) : Nat → List (Bytes × JVal) → Option Bytes
    | _, [] => some []
    | lvl, (k, x) :: ms =>
      match L.str k, printTree L pretty indent (lvl + 1) x, printTreeObj L pretty indent lvl ms with
      | some ks, some a, some r =>
        some ((if pretty then spaces (lvl * indent + indent) else []) ++ ks ++
              (if pretty then [58, 32] else [58]) ++ a ++
              (if !ms.isEmpty then [44] else []) ++ (if pretty then [10] else []) ++ r)
      | _, _, _ => none
end

/-! ## Binary-form printer -/
mutual
  /-- `_jbl_as_json(bn, lvl)` on a holder; fuel bounds the nesting -/
  def printBinn (L : Leaf) (pretty : Bool) : Nat → Nat → BVal → Option Bytes
    | _, _, .null => some (ascii "null")
    | _, _, .bool b => some (ascii (if b then "true" else "false"))
    | _, _, .int i => some (L.int i)
    | _, _, .f64 b => some (L.f64 b)
    | _, _, .str s => L.str (cstr s)
    | _, _, .other _ => none
    | 0, _, .cont _ => none
    | fuel + 1, lvl, .cont bs =>
      match iterInit bs with
      | none => none
      | some (h, cur) =>
        if h.ty = BINN_LIST then
          match printBinnList L pretty fuel lvl h.count 0 (listItems h.count cur) with
          | none => none
          | some body =>
            some ([91] ++ (if h.count ≠ 0 && pretty then [10] else []) ++ body ++
                  (if h.count ≠ 0 && pretty then spaces lvl else []) ++ [93])
        else if h.ty = BINN_OBJECT then
          match printBinnObj L pretty fuel lvl h.count 0 (objItems h.count cur) with
          | none => none
          | some body =>
            some ([123] ++ (if h.count ≠ 0 && pretty then [10] else []) ++ body ++
                  (if h.count ≠ 0 && pretty then spaces lvl else []) ++ [125])
        else none
  termination_by fuel _ _ => (fuel, 0)
  /-- loop over the items; `i` is the loop index, a comma follows while `i < count - 1` -/
  def printBinnList (L : Leaf) (pretty : Bool) : Nat → Nat → Nat → Nat → List BVal → Option Bytes
    | _, _, _, _, [] => some []
    | fuel, lvl, count, i, x :: xs =>
      match printBinn L pretty fuel (lvl + 1) x, printBinnList L pretty fuel lvl count (i + 1) xs with
      | some a, some r =>
        some ((if pretty then spaces (lvl + 1) else []) ++ a ++
              (if i + 1 < count then [44] else []) ++ (if pretty then [10] else []) ++ r)
      | _, _ => none
  termination_by fuel _ _ _ xs => (fuel, xs.length + 1)
  def printBinnObj (L : Leaf) (pretty : Bool) : Nat → Nat → Nat → Nat → List (Bytes × BVal) → Option Bytes
    | _, _, _, _, [] => some []
    | fuel, lvl, count, i, (k, x) :: ms =>
      match L.str (cstr k), printBinn L pretty fuel (lvl + 1) x, printBinnObj L pretty fuel lvl count (i + 1) ms with
      | some ks, some a, some r =>
        some ((if pretty then spaces (lvl + 1) else []) ++ ks ++
              (if pretty then [58, 32] else [58]) ++ a ++
              (if i + 1 < count then [44] else []) ++ (if pretty then [10] else []) ++ r)
      | _, _, _ => none
  termination_by fuel _ _ _ ms => (fuel, ms.length + 1)
end

/-! ## A concrete leaf formatting (driver only; value semantics of the text are C13's subject) -/

def decInt (i : Int) : Bytes := if i < 0 then 45 :: Ptr.dec i.natAbs else Ptr.dec i.natAbs

def hexUp (n : Nat) : Nat := if n < 10 then 48 + n else 55 + n

def uEsc (cp : Nat) : Bytes := [92, 117, hexUp (cp / 4096 % 16), hexUp (cp / 256 % 16), hexUp (cp / 16 % 16), hexUp (cp % 16)]

/-- decode one well-formed UTF-8 sequence: (code point, length) -/
def utf8 (bs : Bytes) : Option (Nat × Nat) :=
  match bs with
  | [] => none
  | a :: r =>
    if a < 128 then some (a, 1)
    else if 194 ≤ a ∧ a < 224 then
      match r with
      | b :: _ => if 128 ≤ b ∧ b < 192 then some ((a - 192) * 64 + (b - 128), 2) else none
      | _ => none
    else if 224 ≤ a ∧ a < 240 then
      match r with
      | b :: c :: _ =>
        let cp := (a - 224) * 4096 + (b - 128) * 64 + (c - 128)
        if 128 ≤ b ∧ b < 192 ∧ 128 ≤ c ∧ c < 192 ∧ cp ≥ 2048 ∧ ¬ (55296 ≤ cp ∧ cp < 57344) then some (cp, 3) else none
      | _ => none
    else if 240 ≤ a ∧ a < 245 then
      match r with
      | b :: c :: d :: _ =>
        let cp := (a - 240) * 262144 + (b - 128) * 4096 + (c - 128) * 64 + (d - 128)
        if 128 ≤ b ∧ b < 192 ∧ 128 ≤ c ∧ c < 192 ∧ 128 ≤ d ∧ d < 192 ∧ cp ≥ 65536 ∧ cp < 1114112 then some (cp, 4) else none
      | _ => none
    else none

/-- `_jbl_write_json_string` body (without the quotes); fuel = remaining length -/
def escAux (codepoints : Bool) : Nat → Bytes → Option Bytes
  | 0, _ => some []
  | _, [] => some []
  | fuel + 1, ch :: r =>
    if ch = 34 ∨ ch = 92 then (escAux codepoints fuel r).map ([92, ch] ++ ·)
    else if 8 ≤ ch ∧ ch ≤ 13 then (escAux codepoints fuel r).map ([92, (ascii "btnvfr")[ch - 8]?.getD 0] ++ ·)
    else if 32 ≤ ch ∧ ch < 127 then (escAux codepoints fuel r).map (ch :: ·)
    else if codepoints then
      match utf8 (ch :: r) with
      | none => none
      | some (cp, n) =>
        let e := if cp ≥ 65536 then uEsc (55296 + (cp - 65536) / 1024 % 1024) ++ uEsc (56320 + (cp - 65536) % 1024) else uEsc cp
        (escAux codepoints fuel (r.drop (n - 1))).map (e ++ ·)
    else (escAux codepoints fuel r).map (ch :: ·)

def escStr (codepoints : Bool) (s : Bytes) : Option Bytes :=
  (escAux codepoints s.length s).map fun b => [34] ++ b ++ [34]

/-- `iwjson_ftoa` of a finite double: `%.8Lf` (exact decimal expansion, round half to even), zeros trimmed -/
def ftoa (bits : Nat) : Bytes :=
  let sign := bits / 2 ^ 63 % 2
  let e := bits / 2 ^ 52 % 2048
  let m := bits % 2 ^ 52
  -- value = num / den
  let (num, den) :=
    if e = 0 then (m, 2 ^ 1074)
    else if e ≥ 1075 then ((2 ^ 52 + m) * 2 ^ (e - 1075), 1)
    else (2 ^ 52 + m, 2 ^ (1075 - e))
  -- scaled = value * 10^8 rounded half to even
  let sn := num * 10 ^ 8
  let q := sn / den
  let rem := sn % den
  let q := if rem * 2 > den then q + 1 else if rem * 2 = den then (if q % 2 = 1 then q + 1 else q) else q
  let ip := q / 10 ^ 8
  let fp := q % 10 ^ 8
  let fdig := (List.range 8).map fun i => 48 + fp / 10 ^ (7 - i) % 10
  let fdig := (fdig.reverse.dropWhile (· == 48)).reverse
  (if sign = 1 then [45] else []) ++ Ptr.dec ip ++ (if fdig.isEmpty then [] else 46 :: fdig)

/-- the leaf formatting of the current code: string and number writers of the C13 model
    (`_jbl_write_json_string`, `iwjson_ftoa`); `escStr`/`ftoa` above describe the pinned tree before the
    printer fixes and are kept for reference -/
def stdLeaf (codepoints : Bool) : Leaf :=
  ⟨decInt, Json.ftoa, fun s => match Json.writeString codepoints s with | .ok b => some b | .error _ => none⟩

end IwModel.BinnPrint
