import IwModel.Model.Kv
/-! API layer of the KV model: database flags, effective keys (`_to_effective_key` /
`_unpack_effective_key`), put flags (no-overwrite, increment, put handler), metadata, several
databases per store, cursors by id. Outputs are the canonical result lines of the harness. -/
namespace IwModel.KvApi
open IwModel Kv

/-- effective key: body bytes (vnum-encoded in integer mode) and compound part -/
abbrev EKey := Bytes × Nat

structure DbSt where
  flags : Nat
  mdata : Bytes
  db : Db EKey Bytes
deriving Repr

structure Store where
  dbs : List (Nat × DbSt)
  curDb : List (Nat × Nat)      -- cursor id ↦ database id
  readonly : Bool
  /-- cursor id ↦ 1 (head) / 2 (tail): `cur->dbaddr` left behind by BEFORE_FIRST / AFTER_LAST and not yet used up by a
  NEXT / PREV move (a seek by key leaves it in place) -/
  curRes : List (Nat × Nat) := []
deriving Repr

def Store.empty : Store := { dbs := [], curDb := [], readonly := false }

def Store.setRes (s : Store) (c r : Nat) : Store :=
  { s with curRes := if r = 0 then s.curRes.filter (·.1 ≠ c) else (c, r) :: s.curRes.filter (·.1 ≠ c) }

def Store.res (s : Store) (c : Nat) : Nat := ((s.curRes.find? (·.1 = c)).map (·.2)).getD 0

def hasFlag (flags bit : Nat) : Bool := flags / bit % 2 = 1

def modeOf (flags : Nat) : Cmp.Mode :=
  if hasFlag flags Gen.IWDB_VNUM64_KEYS then .vnum else if hasFlag flags Gen.IWDB_REALNUM_KEYS then .real else .plain

def isCompound (flags : Nat) : Bool := hasFlag flags Gen.IWDB_COMPOUND_KEYS

/-- `gt a b`: key `a` sorts before (is greater than) key `b` under the database comparator -/
def gtE (flags : Nat) (a b : EKey) : Bool :=
  Cmp.cmpKeys (modeOf flags) (isCompound flags) (Cmp.stored (isCompound flags) b.1 b.2) a.1 a.2 > 0

def leVal (bs : Bytes) : Nat := bs.foldr (fun b acc => b + 256 * acc) 0

def leBytes (n width : Nat) : Bytes := (List.range width).map fun i => n / 256 ^ i % 256

inductive KeyErr | invalidArgs | numsize | overflow
deriving Repr

/-- `_to_effective_key` (plus the `key->size == 0` test of the entry points that have it) -/
def toEffective (flags : Nat) (key : Bytes) (comp : Nat) : Except KeyErr EKey :=
  let c := if isCompound flags then comp else 0
  if modeOf flags = .vnum then
    if key.length = 8 then
      let n := leVal key
      if n < 2 ^ 63 then .ok (Vnum.enc n, c) else .error .overflow
    else if key.length = 4 then
      let n := leVal key
      if n < 2 ^ 31 then .ok (Vnum.enc n, c) else .error .overflow
    else .error .numsize
  else .ok (key, c)

/-- `_unpack_effective_key`: the key as handed back to the caller -/
def unpack (flags : Nat) (k : EKey) : Bytes × Nat :=
  if modeOf flags = .vnum then (leBytes (Cmp.decBody k.1) 8, k.2) else k

def fnv (bs : Bytes) : Nat := bs.foldl (fun h b => (h ^^^ b) * 16777619 % 2 ^ 32) 2166136261

def hex8 (n : Nat) : String := String.ofList ((List.range 8).map fun i => hexDigit (n / 16 ^ (7 - i) % 16))

def pval (bs : Bytes) : String := if bs.length ≤ 24 then hexOut bs else s!"#{bs.length}:{hex8 (fnv bs)}"

def pkey (flags : Nat) (k : EKey) : String :=
  let (b, c) := unpack flags k
  s!"{hexOut b}:{c}"

def keyErrName : KeyErr → String
  | .invalidArgs => "invalid_args" | .numsize => "numsize" | .overflow => "overflow"

def getDb (s : Store) (id : Nat) : Option DbSt := (s.dbs.find? (·.1 = id)).map (·.2)

def setDb (s : Store) (id : Nat) (d : DbSt) : Store :=
  { s with dbs := s.dbs.map fun (i, x) => if i = id then (i, d) else (i, x) }

/-- signed reading of a 4- or 8-byte little-endian value -/
def signedLe (bs : Bytes) : Int :=
  let n := leVal bs
  if n < 2 ^ (8 * bs.length - 1) then n else (n : Int) - 2 ^ (8 * bs.length)

/-- `IWKV_VAL_INCREMENT` on an existing value: width of the *stored* value decides -/
def increment (stored delta : Bytes) : Option Bytes :=
  if delta.length ≠ 4 ∧ delta.length ≠ 8 then none
  else if stored.length ≠ 4 ∧ stored.length ≠ 8 then none
  else
    let w := stored.length
    let m : Int := 2 ^ (8 * w)
    some (leBytes (((leVal stored : Int) + signedLe delta) % m).toNat w)

/-- outcome of `iwkv_puth` -/
inductive PutRes where
  | nodb | emptyKey | readonly
  | keyErr (e : KeyErr)
  | exists_ | cannotinc
  | rejected (old : Option Bytes)     -- the put handler refused; `old` = previous value, if any
  | ok (old : Option Bytes)
deriving Repr

def PutRes.isOk : PutRes → Bool
  | .ok _ => true
  | _ => false

/-- `iwkv_puth`. `ph`: 0 none, 1 accepting handler, 2 rejecting handler. -/
def putR (s : Store) (id : Nat) (key : Bytes) (comp : Nat) (val : Bytes) (opflags : Nat) (lvl : Nat) (ph : Nat) : Store × PutRes :=
  match getDb s id with
  | none => (s, .nodb)
  | some d =>
    if key.isEmpty then (s, .emptyKey)
    else if s.readonly then (s, .readonly)
    else
    let inc := hasFlag opflags Gen.IWKV_VAL_INCREMENT
    let noOver := hasFlag opflags Gen.IWKV_NO_OVERWRITE && !inc
    match toEffective d.flags key comp with
    | .error e => (s, .keyErr e)
    | .ok ek =>
      let gt := gtE d.flags
      let old := Kv.get gt d.db ek
      match old with
      | some ov =>
        if noOver then (s, .exists_)
        else
          match (if inc then increment ov val else some val) with
          | none => (s, .cannotinc)
          | some nv =>
            if ph = 2 then (s, .rejected (some ov))
            else (setDb s id { d with db := (Kv.put gt d.db ek nv false lvl).1 }, .ok (some ov))
      | none =>
        if ph = 2 then (s, .rejected none)
        else (setDb s id { d with db := (Kv.put gt d.db ek val false lvl).1 }, .ok none)

def phNotCalled (ph : Nat) : String := if ph ≠ 0 then " ph=notcalled" else ""

/-- the canonical result line of a put (same text as the harness prints) -/
def putLine (ph : Nat) : PutRes → String
  | .nodb => "put invalid_args" ++ phNotCalled ph
  | .emptyKey => "put invalid_args" ++ phNotCalled ph
  | .readonly => "put readonly" ++ phNotCalled ph
  | .keyErr e => s!"put {keyErrName e}" ++ phNotCalled ph
  | .exists_ => "put exists" ++ phNotCalled ph
  | .cannotinc => "put cannotinc" ++ phNotCalled ph
  | .rejected (some ov) => s!"put fail ph=old:{pval ov}"
  | .rejected none => "put fail ph=new"
  | .ok (some ov) => "put ok" ++ (if ph = 1 then s!" ph=old:{pval ov}" else "")
  | .ok none => "put ok" ++ (if ph = 1 then " ph=new" else "")

def put (s : Store) (id : Nat) (key : Bytes) (comp : Nat) (val : Bytes) (opflags : Nat) (lvl : Nat) (ph : Nat) : Store × String :=
  let r := putR s id key comp val opflags lvl ph
  (r.1, putLine ph r.2)

def get (s : Store) (id : Nat) (key : Bytes) (comp : Nat) : String :=
  match getDb s id with
  | none => "get invalid_args -"
  | some d =>
    match toEffective d.flags key comp with
    | .error e => s!"get {keyErrName e} -"
    | .ok ek =>
      match Kv.get (gtE d.flags) d.db ek with
      | some v => s!"get ok {pval v}"
      | none => "get notfound -"

def getCopy (s : Store) (id : Nat) (key : Bytes) (comp : Nat) (bufsz : Nat) : String :=
  match getDb s id with
  | none => "getc invalid_args 0 -"
  | some d =>
    match toEffective d.flags key comp with
    | .error e => s!"getc {keyErrName e} 0 -"
    | .ok ek =>
      match Kv.get (gtE d.flags) d.db ek with
      | some v => s!"getc ok {v.length} {pval (v.take bufsz)}"
      | none => "getc notfound 0 -"

def del (s : Store) (id : Nat) (key : Bytes) (comp : Nat) : Store × String :=
  match getDb s id with
  | none => (s, "del invalid_args")
  | some d =>
    if s.readonly then (s, "del readonly") else
    match toEffective d.flags key comp with
    | .error e => (s, s!"del {keyErrName e}")
    | .ok ek =>
      let (db', ok) := Kv.del (gtE d.flags) d.db ek
      if ok then (setDb s id { d with db := db' }, "del ok") else (s, "del notfound")

def dump (s : Store) (id : Nat) : String :=
  match getDb s id with
  | none => "dump nodb"
  | some d => "dump" ++ String.join ((Kv.flatten d.db.nodes).map fun (k, v) => s!" {pkey d.flags k}={pval v}")

def nodes (s : Store) (id : Nat) : String :=
  match getDb s id with
  | none => "nodes nodb"
  | some d => "nodes" ++ String.join (d.db.nodes.map fun n => s!" {n.recs.length}/{n.lvl}")

/-- `iwkv_db`: create, or fetch an existing database (flags must match) -/
def openDb (s : Store) (id flags : Nat) : Store × String :=
  match getDb s id with
  | some d => if d.flags = flags then (s, "db ok") else (s, "db incompat")
  | none =>
    if s.readonly then (s, "db readonly")
    else ({ s with dbs := s.dbs ++ [(id, ⟨flags, [], ⟨[], []⟩⟩)] }, "db ok")

def destroyDb (s : Store) (id : Nat) : Store × String :=
  match getDb s id with
  | none => (s, "dbdestroy invalid_args")
  | some _ => ({ s with dbs := s.dbs.filter (·.1 ≠ id), curDb := s.curDb.filter (·.2 ≠ id) }, "dbdestroy ok")

def metaSet (s : Store) (id : Nat) (m : Bytes) : Store × String :=
  match getDb s id with
  | none => (s, "mset invalid_args")
  | some d =>
    if s.readonly then (s, "mset readonly")
    else if m.isEmpty then (s, "mset ok") else (setDb s id { d with mdata := m }, "mset ok")

/-- `iwkv_db_get_meta`: the harness prints whether at least min(known, bufsz) bytes came back and
    the first min(rsz, known) bytes -/
def metaGet (s : Store) (id : Nat) (bufsz known : Nat) : String :=
  match getDb s id with
  | none => "mget invalid_args 0 -"
  | some d =>
    if bufsz = 0 ∨ d.mdata.isEmpty then s!"mget ok {if 0 ≥ min known bufsz then 1 else 0} -"
    else
      let blk := (d.mdata.length + 127) / 128 * 128
      let rsz := min bufsz blk
      s!"mget ok {if rsz ≥ min known bufsz then 1 else 0} {pval (d.mdata.take (min rsz known))}"

/-! cursors -/

def curOp (s : Store) (c : Nat) (f : DbSt → CPos → DbSt × CPos × String) : Store × String :=
  match (s.curDb.find? (·.1 = c)).map (·.2) with
  | none => (s, "cur nocursor")
  | some id =>
    match getDb s id with
    | none => (s, "cur nocursor")
    | some d =>
      match Kv.curPos d.db c with
      | none => (s, "cur nocursor")
      | some p =>
        let (d', p', out) := f d p
        (setDb s id { d' with db := Kv.setCur d'.db c p' }, out)

def curOpen (s : Store) (c id : Nat) (op : String) (key : Option (Bytes × Nat)) : Store × String :=
  -- an already open cursor with this id is closed first (harness does the same)
  let s := match (s.curDb.find? (·.1 = c)).map (·.2) with
    | some oid => (match getDb s oid with
        | some od => setDb { s with curDb := s.curDb.filter (·.1 ≠ c) } oid { od with db := Kv.closeCur od.db c }
        | none => s)
    | none => s
  match getDb s id with
  | none => (s, "cur invalid_args")
  | some d =>
    let reg (p : CPos) : Store × String :=
      (setDb { (s.setRes c (match p with | .head => 1 | .tail => 2 | _ => 0)) with curDb := (c, id) :: s.curDb } id
        { d with db := Kv.setCur d.db c p }, "cur ok")
    match op, key with
    | "bf", none => reg .head
    | "al", none => reg .tail
    | "next", none =>   -- fresh cursor: no node, no pseudo position
      (s, "cur notfound")
    | "prev", none => (s, "cur notfound")
    | "eq", some (k, cp) | "ge", some (k, cp) =>
      (match toEffective d.flags k cp with
       | .error e => (s, s!"cur {keyErrName e}")
       | .ok ek =>
         let (p, ok) := Kv.curSeek (gtE d.flags) d.db ek (op == "ge") .void
         if ok then reg p else (s, "cur notfound"))
    | _, _ => (s, "cur invalid_args")

def curClose (s : Store) (c : Nat) : Store × String :=
  match (s.curDb.find? (·.1 = c)).map (·.2) with
  | none => (s, "cur nocursor")
  | some id =>
    match getDb s id with
    | none => (s, "cur nocursor")
    | some d => (setDb { (s.setRes c 0) with curDb := s.curDb.filter (·.1 ≠ c) } id { d with db := Kv.closeCur d.db c }, "cur ok")

/-- `cur->cn == 0` with `cur->dbaddr` still set: a NEXT / PREV move loads the head / tail pseudo block again. The slot
index was zeroed when the cursor's node went away: on the tail block that is the position AFTER_LAST sets (PREV walks on
from the last record); on the head block it is not (BEFORE_FIRST sets 31, the head counts 32 slots), so from there every
move reports not-found, like a detached cursor -/
def resumePos (r : Nat) (p : CPos) : CPos :=
  match p with
  | .void => if r = 2 then .tail else .void
  | p => p

def curTo (s : Store) (c : Nat) (op : String) : Store × String :=
  let r := s.res c
  let (s', out) := curOp s c fun d p =>
    match op with
    | "bf" => (d, .head, "cur ok")
    | "al" => (d, .tail, "cur ok")
    | "next" => let (p', ok) := Kv.curNext d.db (resumePos r p); (d, p', if ok then "cur ok" else "cur notfound")
    | "prev" => let (p', ok) := Kv.curPrev d.db (resumePos r p); (d, p', if ok then "cur ok" else "cur notfound")
    | _ => (d, p, "cur invalid_state")
  if out = "cur nocursor" then (s', out) else
  match op with
  | "bf" => (s'.setRes c 1, out)
  | "al" => (s'.setRes c 2, out)
  | "next" | "prev" =>
    -- `dbaddr` is used up only when the move started without a node (`!cur->cn`)
    (match (curOp s c fun d p => (d, p, match p with | .at .. => "at" | _ => "pseudo")).2 with
     | "pseudo" => (s'.setRes c 0, out)
     | _ => (s', out))
  | _ => (s', out)

def curToKey (s : Store) (c : Nat) (op : String) (k : Bytes) (cp : Nat) : Store × String :=
  match (s.curDb.find? (·.1 = c)).map (·.2) with
  | none => (s, "cur nocursor")
  | some _ =>
  if op ≠ "eq" ∧ op ≠ "ge" then (s, "cur invalid_args") else
  curOp s c fun d p =>
    match toEffective d.flags k cp with
    | .error e => (d, p, s!"cur {keyErrName e}")
    | .ok ek =>
      let (p', ok) := Kv.curSeek (gtE d.flags) d.db ek (op == "ge") p
      (d, p', if ok then "cur ok" else "cur notfound")

def curRead (s : Store) (c : Nat) (what : String) (arg : Nat) (karg : Bytes) : Store × String :=
  curOp s c fun d p =>
    match Kv.curRec d.db p with
    | none =>
      (d, p, match what with
        | "cval" => "cur notfound 0 -"
        | "ckey" => "cur notfound 0:0 -"
        | "match" => "cur notfound 0:0"
        | _ => "cur notfound -")
    | some (k, v) =>
      let (kb, kc) := unpack d.flags k
      (d, p, match what with
        | "get" => s!"cur ok {pkey d.flags k}={pval v}"
        | "key" => s!"cur ok {pkey d.flags k}"
        | "val" => s!"cur ok {pval v}"
        | "cval" => s!"cur ok {v.length} {pval (v.take arg)}"
        | "ckey" => s!"cur ok {kb.length}:{kc} {hexOut (kb.take arg)}"
        | "match" => s!"cur ok {if kb == karg then 1 else 0}:{kc}"
        | _ => "bad-op")

def curSet (s : Store) (c : Nat) (v : Bytes) (ph : Nat) : Store × String :=
  curOp s c fun d p =>
    match Kv.curRec d.db p with
    | none => (d, p, "cur notfound" ++ (if ph ≠ 0 then " ph=notcalled" else ""))
    | some (_, ov) =>
      if s.readonly then (d, p, "cur readonly" ++ (if ph ≠ 0 then " ph=notcalled" else "")) else
      if ph = 2 then (d, p, s!"cur fail ph=old:{pval ov}")
      else ({ d with db := Kv.curSet d.db p v }, p, "cur ok" ++ (if ph = 1 then s!" ph=old:{pval ov}" else ""))

def curDel (s : Store) (c : Nat) : Store × String :=
  match (s.curDb.find? (·.1 = c)).map (·.2) with
  | none => (s, "cur nocursor")
  | some id =>
    match getDb s id with
    | none => (s, "cur nocursor")
    | some d =>
      match Kv.curPos d.db c with
      | none => (s, "cur nocursor")
      | some p =>
        if (Kv.curRec d.db p).isNone then (s, "cur notfound")
        else if s.readonly then (s, "cur readonly")
        else (setDb s id { d with db := Kv.curDel d.db p }, "cur ok")   -- fix-ups reposition this cursor too

end IwModel.KvApi
