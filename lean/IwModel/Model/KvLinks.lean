
/-! Explicit-link model of one database of iwkv (src/kv/iwkv.c): the skip list as it is stored.

`Model/Kv.lean` keeps the nodes of a database as a *list* (the level-0 order is implicit, the level of a
node is a label).  Here the same structure is a heap of blocks that point at each other, exactly the
fields the file holds:

* a node (`struct sblk`): block number `id`, `lvl`, forward links `n[0..lvl]`, back link `p0`;
* the database block: head links `n[0..23]`, tail link `p0`, per-level counters `lcnt[0..23]`
  (`DOFF_N0_U4`, `DOFF_P0_U4`, `DOFF_C0_U4`).

Operations mirror what the C code does to those fields:

* `rollForward` / `findBounds` — `_lx_roll_forward`, `_lx_find_bounds`: descent from the head level, per level
  a walk along `n[lvl]` while the visited node is still before the search point, pinning `plower[i]` /
  `pupper[i]` for the levels `≤ nlvl` (with the short cut of the `do … while` loop: a level whose link from
  `lower` already is `upper` is pinned without a walk).  The outcome of the key comparison is an
  oracle `before : block → Bool` (this model has no keys).
* `insert` — `_sblk_create_v1` (`lcnt[nlevel]++`) + the "Fix levels" block of `_lx_split_addkv`
  (`pupper[0]->p0 = nblk; nb->p0 = plower[0]; plower[i]->n[i] = nblk; nb->n[i] = pupper[i]`), the database
  tail standing in for a missing upper (`_lx_init_chute`).
* `remove` — `_lx_del_sblk_lw` (`plower[i]->n[i] = upper->n[i]`, `nb->p0 = rb.p0`) + `_sblk_destroy` (`lcnt--`).
* `headLvl` — `_sblk_at2`, database branch: the level of the head is the number of leading non-zero links − 1.
  (The in-memory `dblk.lvl` the C code decrements in `_lx_del_sblk_lw` is never stored; every operation
  derives it afresh from the links, and so does this model.)

Abstraction to `Model/Kv.lean`: `order` (follow `n[0]` from the head) and `levels` (= `d.nodes.map (·.lvl)`).
Core Lean only. -/
namespace IwModel.KvLinks

/-- number of skip-list levels (`SLEVELS`; checked against `Gen.SLEVELS` in Props/C06.lean) -/
def SLEVELS : Nat := 24

structure LNode where
  id : Nat          -- block number of the node record (non-zero)
  lvl : Nat
  n : List Nat      -- forward links, levels 0..lvl (0 = none)
  p0 : Nat          -- back link: block number of the level-0 predecessor (the database block for the first)
deriving Repr, DecidableEq

structure LDb where
  blk : Nat         -- block number of the database block
  hn : List Nat     -- 24 head links
  tail : Nat        -- tail link (`DOFF_P0_U4`)
  lcnt : List Nat   -- 24 per-level counters
  heap : List LNode -- the node blocks, in no particular order (new ones are put in front)
deriving Repr

/-- a freshly created database (`_db_create`): no links, counters 0 -/
def empty (blk : Nat) : LDb := ⟨blk, List.replicate SLEVELS 0, 0, List.replicate SLEVELS 0, []⟩

def node? (s : LDb) (x : Nat) : Option LNode := s.heap.find? (·.id = x)

/-- `sblk->n[i]` of block `x`; the database block answers with its head links -/
def link (s : LDb) (x i : Nat) : Nat :=
  if x = s.blk then s.hn.getD i 0 else
    match node? s x with
    | some nd => nd.n.getD i 0
    | none => 0

def lvlOf (s : LDb) (x : Nat) : Nat := match node? s x with | some nd => nd.lvl | none => 0

def p0Of (s : LDb) (x : Nat) : Nat := match node? s x with | some nd => nd.p0 | none => 0

def updNode (s : LDb) (x : Nat) (f : LNode → LNode) : LDb :=
  { s with heap := s.heap.map fun nd => if nd.id = x then f nd else nd }

/-- `sblk->n[i] = v` for block `x` (head link when `x` is the database block) -/
def setLink (s : LDb) (x i v : Nat) : LDb :=
  if x = s.blk then { s with hn := s.hn.set i v } else updNode s x fun nd => { nd with n := nd.n.set i v }

/-- `sblk->p0 = v`; block 0 is the database tail pseudo block (`_sblk_at(lx, 0, …)`), whose `p0` is the tail link -/
def setP0 (s : LDb) (x v : Nat) : LDb :=
  if x = 0 then { s with tail := v } else updNode s x fun nd => { nd with p0 := v }

/-- `_sblk_at2`, database branch: `lvl` = number of leading non-zero head links, minus one (0 when there is none) -/
def headLvl (s : LDb) : Nat := (s.hn.takeWhile (· ≠ 0)).length - 1

/-! ### following links -/

/-- follow `n[i]` from block `x` until a 0 link -/
def follow (s : LDb) (i : Nat) : Nat → Nat → List Nat
  | 0, _ => []
  | fuel + 1, x => if x = 0 then [] else x :: follow s i fuel (link s x i)

/-- the chain of level `i`, from the head -/
def chainAt (s : LDb) (i : Nat) : List Nat := follow s i (s.heap.length + 1) (s.hn.getD i 0)

/-- the level-0 chain: the order of the nodes -/
def order (s : LDb) : List Nat := chainAt s 0

/-- **abstraction**: the levels of the nodes in level-0 order (`d.nodes.map (·.lvl)` of `Model/Kv.lean`) -/
def levels (s : LDb) : List Nat := (order s).map (lvlOf s)

/-! ### `_lx_find_bounds` -/

/-- `_lx_roll_forward` at level `lvl`: returns (`lx->lower`, `lx->upper`) -/
def rollForward (s : LDb) (before : Nat → Bool) (lvl : Nat) : Nat → Nat → Nat → Nat × Nat
  | 0, lower, upper => (lower, upper)
  | fuel + 1, lower, upper =>
    let nx := link s lower lvl
    if nx = 0 then (lower, upper)
    else if before nx then rollForward s before lvl fuel nx upper
    else (lower, nx)

/-- `lx->plower[]`, `lx->pupper[]` for the levels `0..nlvl` (index = level); upper 0 = none (database tail) -/
structure Chute where
  lower : List Nat
  upper : List Nat
deriving Repr

/-- the `while (lvl > -1)` loop of `_lx_find_bounds`; the first argument is `lvl + 1`.
    A level at which `lower->n[lvl]` already is `upper` is pinned without rolling (the `do … while`). -/
def descend (s : LDb) (before : Nat → Bool) (nlvl : Nat) : Nat → Nat → Nat → Chute → Chute × Nat × Nat
  | 0, lower, upper, c => (c, lower, upper)
  | lvl + 1, lower, upper, c =>
    let r := if link s lower lvl = upper then (lower, upper)
             else rollForward s before lvl (s.heap.length + 1) lower upper
    let c' : Chute := if lvl ≤ nlvl then ⟨r.1 :: c.lower, r.2 :: c.upper⟩ else c
    descend s before nlvl lvl r.1 r.2 c'

/-- `_lx_find_bounds` with `lx->nlvl = nlvl`: starts at the database block on level
    `max dblk.lvl nlvl` ("New level in DB"); returns the chute, `lx->lower` and `lx->upper` -/
def findBounds (s : LDb) (before : Nat → Bool) (nlvl : Nat) : Chute × Nat × Nat :=
  descend s before nlvl (max (headLvl s) nlvl + 1) s.blk 0 ⟨[], []⟩

/-! ### the two structural operations -/

/-- `for (i = 0; i < k; ++i) lo[i]->n[i] = val i` — the loops of "Fix levels" and of `_lx_del_sblk_lw` -/
def fixLevels (s : LDb) (lo : List Nat) (val : Nat → Nat) : Nat → LDb
  | 0 => s
  | k + 1 => setLink (fixLevels s lo val k) (lo.getD k 0) k (val k)

def bump (l : List Nat) (i : Nat) : List Nat := l.set i (l.getD i 0 + 1)

/-- `if (lcnt[i]) lcnt[i]--` -/
def unbump (l : List Nat) (i : Nat) : List Nat := l.set i (l.getD i 0 - 1)

/-- A new node `nid` of level `lvl` is linked in at the point `before` describes
    (`_sblk_create_v1` + "Fix levels" of `_lx_split_addkv`). -/
def insert (s : LDb) (before : Nat → Bool) (nid lvl : Nat) : LDb :=
  let c := (findBounds s before lvl).1
  -- pupper[0]->p0 = nblk  (pupper[0] is the database tail when there is no upper: `_lx_init_chute`)
  let s1 := setP0 s (c.upper.getD 0 0) nid
  -- nb->p0 = plower[0];  nb->n[i] = pupper[i]  (the tail's block number is 0)
  let nb : LNode := ⟨nid, lvl, c.upper, c.lower.getD 0 s.blk⟩
  -- plower[i]->n[i] = nblk
  let s2 := fixLevels s1 c.lower (fun _ => nid) (lvl + 1)
  { s2 with heap := nb :: s2.heap, lcnt := bump s2.lcnt lvl }

/-- the new node becomes node number `pos` of the level-0 chain (`pos` nodes stay before it): the
    key comparison of `_lx_roll_forward` is true exactly for the first `pos` nodes -/
def insertAt (s : LDb) (pos nid lvl : Nat) : LDb :=
  insert s (fun x => ((order s).take pos).contains x) nid lvl

/-- `insertAt` with `pos = 0`: `lx->lower` is the database block -/
def insertFront (s : LDb) (nid lvl : Nat) : LDb := insertAt s 0 nid lvl

/-- Node `t` is unlinked and destroyed (`_lx_del_sblk_lw` + `_sblk_destroy`): the search runs with
    `lx->upper_addr = t`, so it stops in front of `t` on every level `≤ t.lvl`. -/
def remove (s : LDb) (t : Nat) : LDb :=
  let pos := (order s).idxOf t
  let before := fun x => ((order s).take pos).contains x
  let nlvl := lvlOf s t                       -- lx->nlvl = sblk->lvl
  let fb := findBounds s before nlvl
  let c := fb.1
  let upper := fb.2.2
  if upper ≠ t then s else                    -- assert(lx->upper->addr == lx->upper_addr)
  match node? s upper with
  | none => s
  | some rb =>
    -- plower[i]->n[i] = upper->n[i]
    let s1 := fixLevels s c.lower (fun i => rb.n.getD i 0) (rb.lvl + 1)
    -- nb = block after upper (the database tail when 0); nb->p0 = rb.p0
    let s2 := setP0 s1 (rb.n.getD 0 0) rb.p0
    { s2 with heap := s2.heap.filter (·.id ≠ t), lcnt := unbump s2.lcnt rb.lvl }

/-- remove node number `pos` of the level-0 chain -/
def removeAt (s : LDb) (pos : Nat) : LDb :=
  match (order s)[pos]? with
  | some t => remove s t
  | none => s

/-! ### histories -/

/-- a structural step: a node of level `lvl` created at position `pos` with block number `nid`, or the
    node at position `pos` destroyed -/
inductive LOp where
  | ins (pos nid lvl : Nat)
  | rm (pos : Nat)
deriving Repr

def step (s : LDb) : LOp → LDb
  | .ins pos nid lvl => insertAt s pos nid lvl
  | .rm pos => removeAt s pos

def run (s : LDb) (ops : List LOp) : LDb := ops.foldl step s

/-! ### canonical description by positions (compared with real files by `drv links`) -/

def posOf (ord : List Nat) (blk x : Nat) : String :=
  if x = blk then "h" else if x = 0 then "0" else
    match ord.idxOf? x with
    | some i => toString i
    | none => "?" ++ toString x

def joinS (l : List String) : String := ",".intercalate l

/-- per level the positions reached along `n[i]`, the levels, the back links and the tail link as positions,
    and the counters -/
def describe (blk : Nat) (ord : List Nat) (chains : List (List Nat)) (lvls p0s : List Nat) (tail : Nat)
    (lcnt : List Nat) : List String :=
  (chains.zipIdx.map fun c => s!"L{c.2}:" ++ joinS (c.1.map (posOf ord blk))) ++
  ["V:" ++ joinS (lvls.map toString), "P:" ++ joinS (p0s.map (posOf ord blk)),
   "T:" ++ (if tail = 0 ∧ ord.isEmpty then "h" else posOf ord blk tail), "C:" ++ joinS (lcnt.map toString)]

def sig (s : LDb) : List String :=
  describe s.blk (order s) ((List.range SLEVELS).map (chainAt s)) (levels s) ((order s).map (p0Of s)) s.tail s.lcnt

end IwModel.KvLinks
