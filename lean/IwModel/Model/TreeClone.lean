import IwModel.Model.JVal
/-! Executable model of `jbn_clone` (`iwjser.c`): the source is walked by `jbn_visit` in pre-order; the visitor
`_jbl_clone_node_visit` sees only `(lvl, node)` and rebuilds the hierarchy from the level changes:
`lvl > pos` ⇒ push (the parent becomes `vctx->op`, the last container cloned), `lvl < pos` ⇒ pop
`pos - lvl` times through the `parent` links, then the shallow copy is appended to the current parent.

The model keeps the chain `vctx->root, root->parent, …` as a stack of open containers (`Frame`s); the children
of a frame are those already linked to it. `vctx->op` is the most recently cloned container; a push opens the
last child of the top frame, which is that node whenever the events come from a pre-order walk. -/
namespace IwModel.TreeClone

/-- shallow copy made by `_jbl_clone_node_struct`: leaves keep their value, containers start empty -/
def shallow : JVal → JVal
  | .arr _ => .arr []
  | .obj _ => .obj []
  | v => v

mutual
  /-- visitor calls of `jbn_visit(node, lvl)` for the children of `node`: (level, key, node) in pre-order -/
  def events : Nat → JVal → List (Nat × Option Bytes × JVal)
    | lvl, .arr xs => eventsArr lvl xs
    | lvl, .obj ms => eventsObj lvl ms
    | _, _ => []
  def eventsArr : Nat → List JVal → List (Nat × Option Bytes × JVal)
    | _, [] => []
    | lvl, x :: xs => (lvl, none, shallow x) :: (events (lvl + 1) x ++ eventsArr lvl xs)
  def eventsObj : Nat → List (Bytes × JVal) → List (Nat × Option Bytes × JVal)
    | _, [] => []
    | lvl, (k, x) :: ms => (lvl, some k, shallow x) :: (events (lvl + 1) x ++ eventsObj lvl ms)
end

/-- an open container of the clone: its own key in the parent, kind, children linked so far (in order) -/
structure Frame where
  key : Option Bytes
  isObj : Bool
  kids : List (Option Bytes × JVal)

def Frame.close (f : Frame) : JVal :=
  if f.isObj then .obj (f.kids.map fun (k, v) => (k.getD [], v)) else .arr (f.kids.map (·.2))

/-- `_jbn_add_item(parent, nn)` on the top frame -/
def addKid (f : Frame) (k : Option Bytes) (v : JVal) : Frame :=
  { f with kids := f.kids ++ [(if f.isObj then k else none, v)] }

/-- pop one level: the finished top frame replaces the placeholder that was linked into its parent -/
def pop1 : List Frame → Option (List Frame)
  | top :: par :: rest => some ({ par with kids := par.kids.dropLast ++ [(top.key, top.close)] } :: rest)
  | _ => none

def popN : Nat → List Frame → Option (List Frame)
  | 0, st => some st
  | n + 1, st => match pop1 st with
    | some st' => popN n st'
    | none => none

/-- push: `parent = vctx->op`, the container cloned last = the last child of the top frame -/
def push : List Frame → Option (List Frame)
  | top :: rest =>
    match top.kids.getLast? with
    | some (k, .arr []) => some (⟨k, false, []⟩ :: top :: rest)
    | some (k, .obj []) => some (⟨k, true, []⟩ :: top :: rest)
    | _ => none
  | [] => none

/-- `_jbl_clone_node_visit(lvl, n)`: state = (open frames, `vctx->pos`) -/
def visit (st : List Frame × Nat) (ev : Nat × Option Bytes × JVal) : Option (List Frame × Nat) :=
  let (frames, pos) := st
  let (lvl, k, sh) := ev
  let r :=
    if lvl < pos then (popN (pos - lvl) frames).map fun fs => (fs, lvl)
    else if lvl > pos then (push frames).map fun fs => (fs, lvl)
    else some (frames, pos)
  match r with
  | some (top :: rest, pos') => some (addKid top k sh :: rest, pos')
  | _ => none

def run : List (Nat × Option Bytes × JVal) → List Frame × Nat → Option (List Frame × Nat)
  | [], st => some st
  | ev :: evs, st => match visit st ev with
    | some st' => run evs st'
    | none => none

/-- `jbn_clone(src)`: `none` would be a mis-linked clone (never happens, see `Props/C14`) -/
def clone (src : JVal) : Option JVal :=
  match src with
  | .arr _ | .obj _ =>
    let root : Frame := ⟨none, match src with | .obj _ => true | _ => false, []⟩
    match run (events 0 src) ([root], 0) with
    | some (fs, pos) => match popN pos fs with
      | some [f] => some f.close
      | _ => none
    | none => none
  | v => some v

end IwModel.TreeClone
