import IwModel.Model.Bytes
import IwModel.Model.Conv
import IwModel.Gen.Txt
/-! Bounds-instrumented models of the text-consuming leaf functions (property C17).

Every function works on *index-addressed* buffers (`List Nat` with `buf[i]?`) exactly as the C code
works on pointers, and answers `R.oob` as soon as it would touch a cell outside the buffer it was
given.  "Never reads or writes outside its buffers" is therefore `result ≠ .oob` and is proved for all
inputs in `Props/C17.lean`; termination is Lean's own check (`termination_by`).

Modelled: `_jbl_unescape_json_string`, `_jbl_parse_json_key` (src/json/iwjser.c), `_jbl_ptr_pool`
and `iwjson_ftoa` (src/json/iwjson.c), `iwatoi2`, `iwafcmp`, `iwhex2bin` (src/utils/iwconv.c). -/
namespace IwModel.Txt

/-- outcome of an instrumented run -/
inductive R (α : Type) where
  | oob                 -- an access outside the buffer
  | err (code : Nat)    -- the function reported an error
  | ok (a : α)
deriving Repr, BEq, DecidableEq

def eCodepoint : Nat := 1   -- JBL_ERROR_PARSE_INVALID_CODEPOINT
def eUnquoted : Nat := 2    -- JBL_ERROR_PARSE_UNQUOTED_STRING
def eParse : Nat := 3       -- JBL_ERROR_PARSE_JSON
def ePointer : Nat := 4     -- JBL_ERROR_JSON_POINTER

def errName (c : Nat) : String :=
  if c = eCodepoint then "codepoint" else if c = eUnquoted then "unquoted" else if c = eParse then "parse"
  else if c = ePointer then "pointer" else s!"e{c}"

/-! ### `_jbl_unescape_json_string` -/

/-- `_jbl_hex` -/
def hexv (c : Nat) : Option Nat :=
  if 48 ≤ c ∧ c ≤ 57 then some (c - 48)
  else if 97 ≤ c ∧ c ≤ 102 then some (c - 87)
  else if 65 ≤ c ∧ c ≤ 70 then some (c - 55)
  else none

inductive H4 where
  | oob | bad | val (cp : Nat)
deriving Repr, DecidableEq

/-- `(h1 = _jbl_hex(p[1])) < 0 || … || (h4 = _jbl_hex(p[4])) < 0` with `p = buf + j`, left to right,
    stopping at the first byte that is no hex digit; then `h1 << 12 | h2 << 8 | h3 << 4 | h4`. -/
def hex4 (buf : Bytes) (j : Nat) : H4 :=
  match buf[j + 1]? with
  | none => .oob
  | some c1 =>
    match hexv c1 with
    | none => .bad
    | some h1 =>
      match buf[j + 2]? with
      | none => .oob
      | some c2 =>
        match hexv c2 with
        | none => .bad
        | some h2 =>
          match buf[j + 3]? with
          | none => .oob
          | some c3 =>
            match hexv c3 with
            | none => .bad
            | some h3 =>
              match buf[j + 4]? with
              | none => .oob
              | some c4 =>
                match hexv c4 with
                | none => .bad
                | some h4 => .val (h1 * 4096 + h2 * 256 + h3 * 16 + h4)

/-- `utf8proc_codepoint_valid` -/
def cpValid (cp : Nat) : Bool := (cp < 0xd800 || cp > 0xdfff) && cp < 0x110000

/-- `utf8proc_encode_char` for `cp < 0x110000` -/
def utf8 (cp : Nat) : Bytes :=
  if cp < 0x80 then [cp]
  else if cp < 0x800 then [0xC0 + cp / 64, 0x80 + cp % 64]
  else if cp < 0x10000 then [0xE0 + cp / 4096, 0x80 + cp / 64 % 64, 0x80 + cp % 64]
  else [0xF0 + cp / 262144, 0x80 + cp / 4096 % 64, 0x80 + cp / 64 % 64, 0x80 + cp % 64]

/-- `0x10000 + ((cp - 0xd800) << 10) + (cp2 - 0xdc00)` -/
def pairCp (cp cp2 : Nat) : Nat := 0x10000 + (cp - 0xd800) * 1024 + (cp2 - 0xdc00)

/-- `if (d < de) *d = x; ++d;` — `out` lists the bytes stored so far in address order: every store is
    followed by `++d`, hence the k-th store goes to `ds + k` and `out.length = min d dlen`. -/
def put (out : Bytes) (d dlen x : Nat) : Bytes := if d < dlen then out ++ [x] else out

def putAll (out : Bytes) (d dlen : Nat) : Bytes → Bytes
  | [] => out
  | x :: xs => putAll (put out d dlen x) (d + 1) dlen xs

def escMap (e : Nat) : Nat := Gen.unescMap.getD e 256

structure UOk where
  len : Nat      -- value returned: number of bytes the unescaped text has
  endp : Nat     -- index just behind the closing quote (`*end`)
  out : Bytes    -- bytes stored into `d[0 .. dlen)`
deriving Repr, DecidableEq

inductive UEsc where
  | oob | bad
  | one (cp : Nat)       -- `\uXXXX`, 6 bytes consumed
  | pair (cp : Nat)      -- `\uD8xx\uDCxx`, 12 bytes consumed
deriving Repr, DecidableEq

/-- the `case 'u'` block; `i` is the index of the backslash, so `p = buf + i + 1` points at the `u`.
    First code unit from `p[1..4]`; for a high surrogate `p += 6` and then `p[-1]`, `*p`, `p[1..4]`
    are looked at in this order (C's `||`), finally `utf8proc_codepoint_valid`. -/
def uEscape (buf : Bytes) (i : Nat) : UEsc :=
  match hex4 buf (i + 1) with
  | .oob => .oob
  | .bad => .bad
  | .val cp =>
    if cp / 1024 = 54 then            -- (cp & 0xfc00) == 0xd800
      match buf[i + 6]? with
      | none => .oob
      | some b =>
        if b ≠ 92 then .bad else
        match buf[i + 7]? with
        | none => .oob
        | some u =>
          if u ≠ 117 then .bad else
          match hex4 buf (i + 7) with
          | .oob => .oob
          | .bad => .bad
          | .val cp2 =>
            if cp2 / 1024 ≠ 55 then .bad           -- (cp2 & 0xfc00) != 0xdc00
            else if cpValid (pairCp cp cp2) then .pair (pairCp cp cp2) else .bad
    else if cpValid cp then .one cp else .bad

/-- `_jbl_unescape_json_string(ctx, q, buf + i, d, dlen, &end)`; `i` is the read index `p`, `d` the
    number of output positions passed so far.  The buffer is whatever memory the caller owns:
    a read at an index `≥ buf.length` is `.oob`. -/
def unesc (buf : Bytes) (q dlen : Nat) (i d : Nat) (out : Bytes) : R UOk :=
  match h : buf[i]? with
  | none => .oob
  | some c =>
    if c = 0 then .err eUnquoted
    else if c = q then .ok ⟨d, i + 1, out⟩
    else if c = 92 then
      match buf[i + 1]? with          -- switch (*p)
      | none => .oob
      | some e =>
        if escMap e < 256 then unesc buf q dlen (i + 2) (d + 1) (put out d dlen (escMap e))
        else if escMap e = 257 then
          match uEscape buf i with
          | .oob => .oob
          | .bad => .err eCodepoint
          | .one cp => unesc buf q dlen (i + 6) (d + (utf8 cp).length) (putAll out d dlen (utf8 cp))
          | .pair cp => unesc buf q dlen (i + 12) (d + (utf8 cp).length) (putAll out d dlen (utf8 cp))
        else unesc buf q dlen (i + 1) (d + 1) (put out d dlen 92)   -- default: keep the backslash, re-read e
    else unesc buf q dlen (i + 1) (d + 1) (put out d dlen c)
termination_by buf.length - i
decreasing_by
  all_goals
    have hi : i < buf.length := by
      rcases List.getElem?_eq_some_iff.mp h with ⟨hlt, _⟩; exact hlt
    omega

/-- what the callers do: a length pass (`d = 0, dlen = 0`), then the fill pass into `len + 1` bytes.
    Returns (len, end, bytes stored, len reported by the fill pass). -/
def unescTwoPass (buf : Bytes) (q i : Nat) : R (Nat × Nat × Bytes × Nat) :=
  match unesc buf q 0 i 0 [] with
  | .oob => .oob
  | .err e => .err e
  | .ok r1 =>
    match unesc buf q r1.len i 0 [] with
    | .oob => .oob
    | .err e => .err e
    | .ok r2 => .ok (r1.len, r2.endp, r2.out, r2.len)

/-! ### `_jbl_parse_json_key` -/

/-- `while (*p && IS_WHITESPACE(*p)) p++;` -/
def skipWs (buf : Bytes) (i : Nat) : Option Nat :=
  match h : buf[i]? with
  | none => none
  | some c => if c ≠ 0 ∧ c ≤ 32 then skipWs buf (i + 1) else some i
termination_by buf.length - i
decreasing_by
  have hi : i < buf.length := by
    rcases List.getElem?_eq_some_iff.mp h with ⟨hlt, _⟩; exact hlt
  omega

/-- `_jbl_parse_json_key(&key, buf + i, ctx)`: returned index and the key (none: `}` was met). -/
def parseKey (buf : Bytes) (i : Nat) : R (Nat × Option Bytes) :=
  match h : buf[i]? with
  | none => .oob
  | some c =>
    if c = 0 then .err eParse
    else if c = 34 then
      match unescTwoPass buf 34 (i + 1) with
      | .oob => .oob
      | .err e => .err e
      | .ok (len, endp, out, len2) =>
        if len2 ≠ len then .err eParse else
        -- kptr = alloc(len + 1); kptr[len] = 0: index `len` of a `len + 1` byte block
        match skipWs buf endp with
        | none => .oob
        | some j =>
          match buf[j]? with
          | none => .oob
          | some c2 => if c2 = 58 then .ok (j + 1, some out) else .err eParse
    else if c = 125 then .ok (i, none)
    else if c ≤ 32 ∨ c = 44 then parseKey buf (i + 1)
    else .err eParse
termination_by buf.length - i
decreasing_by
  have hi : i < buf.length := by
    rcases List.getElem?_eq_some_iff.mp h with ⟨hlt, _⟩; exact hlt
  omega

/-! ### `_jbl_ptr_pool` -/

/-- bounds-checked store into the data area of the `jbl_ptr` block -/
def wr (data : Bytes) (idx v : Nat) : Option Bytes :=
  if idx < data.length then some (data.set idx v) else none

/-- the counting pre-pass: `for (i = 0; path[i]; ++i)` — number of `/`, length, and (since the fix of
    F10, `strict = true`) rejection of a `~` that is not followed by `0` or `1`. Returns (len, cnt).
    `strict = false` is the function as it was before the fix. -/
def ptrPre (strict : Bool) (path : Bytes) (i cnt : Nat) : R (Nat × Nat) :=
  match h : path[i]? with
  | none => .oob
  | some c =>
    if c = 0 then .ok (i, cnt)
    else if c = 47 then ptrPre strict path (i + 1) (cnt + 1)
    else if c = 126 ∧ strict then
      match path[i + 1]? with
      | none => .oob
      | some n => if n ≠ 48 ∧ n ≠ 49 then .err ePointer else ptrPre strict path (i + 1) cnt
    else ptrPre strict path (i + 1) cnt
termination_by path.length - i
decreasing_by
  all_goals
    have hi : i < path.length := by
      rcases List.getElem?_eq_some_iff.mp h with ⟨hlt, _⟩; exact hlt
    omega

/-- The fill loops of `_jbl_ptr_pool`, one call per iteration of the inner `for (k = 0; ; ++i, ++k)`.
    `i` path index, `j` data offset of the current segment, `k` bytes stored in it, `cnt` segments
    finished, `offs` the `jp->n[]` offsets assigned so far.  At the end of a segment the bookkeeping of
    the outer loop (`--i; … j += k; ++cnt;` then `++i, ++j` and the test `path[i] && cnt < jp->cnt`,
    then `path[i++] == '/'`) is done in place. -/
def ptrFill (path : Bytes) (jpcnt : Nat) (i j k cnt : Nat) (data : Bytes) (offs : List Nat) :
    R (List Nat × Bytes) :=
  match h : path[i]? with
  | none => .oob
  | some c =>
    if c = 0 ∨ c = 47 then
      match wr data (j + k) 0 with
      | none => .oob
      | some data =>
        if c = 0 ∨ cnt + 1 ≥ jpcnt then .ok (offs, data)
        else ptrFill path jpcnt (i + 1) (j + k + 1) 0 (cnt + 1) data (offs ++ [j + k + 1])
    else if c = 126 then
      match path[i + 1]? with
      | none => .oob
      | some n =>
        match (if n = 48 then wr data (j + k) 126 else if n = 49 then wr data (j + k) 47 else some data) with
        | none => .oob
        | some data => ptrFill path jpcnt (i + 2) j (k + 1) cnt data offs
    else
      match wr data (j + k) c with
      | none => .oob
      | some data => ptrFill path jpcnt (i + 1) j (k + 1) cnt data offs
termination_by path.length - i
decreasing_by
  all_goals
    have hi : i < path.length := by
      rcases List.getElem?_eq_some_iff.mp h with ⟨hlt, _⟩; exact hlt
    omega

def ptrFillByte : Nat := 0xAA

/-- C string at offset `off` of the data area -/
def cstrAt (data : Bytes) (off : Nat) : Bytes := (data.drop off).takeWhile (· ≠ 0)

structure PtrOk where
  cnt : Nat
  segs : List Bytes
  assigned : Nat      -- how many `jp->n[]` entries were assigned (must equal `cnt`)
deriving Repr, DecidableEq

/-- `_jbl_ptr_pool(path, &jp, pool)` for a non-NULL `path`. The data area of the block has
    `sz - doff = sizeof(struct jbl_ptr) - offsetof(n) + len` bytes. -/
def ptrParseG (strict : Bool) (path : Bytes) : R PtrOk :=
  match path[0]? with
  | none => .oob
  | some c0 =>
    if c0 = 0 then .ok ⟨0, [], 0⟩
    else if c0 ≠ 47 then .err ePointer
    else
      match ptrPre strict path 0 0 with
      | .oob => .oob
      | .err e => .err e
      | .ok (len, cnt) =>
        -- (len > 1) && path[len - 1] == '/'
        match (if len > 1 then path[len - 1]? else some 1) with
        | none => .oob
        | some last =>
          if len > 1 ∧ last = 47 then .err ePointer else
          let cap := Gen.JBL_PTR_SIZEOF - Gen.JBL_PTR_OFF_N + len
          let data := List.replicate cap ptrFillByte
          -- first iteration of the outer loop: path[0] = '/' and 0 < cnt
          match ptrFill path cnt 1 0 0 0 data [0] with
          | .oob => .oob
          | .err e => .err e
          | .ok (offs, data) => .ok ⟨cnt, offs.map (cstrAt data), offs.length⟩

/-- the function of the tree this model describes (F10 repaired) -/
def ptrParse (path : Bytes) : R PtrOk := ptrParseG true path

/-! ### `iwjson_ftoa` -/

def numBuf : Nat := Gen.IWNUMBUF_SIZE

/-- `snprintf(buf, IWNUMBUF_SIZE, …)` producing text `t`: stores `min |t| (size-1)` bytes and a NUL -/
def snprintfInto (buf : Bytes) (t : Bytes) : Bytes :=
  let w := t.take (numBuf - 1) ++ [0]
  w ++ buf.drop w.length

/-- `cp = strchr(buf, ','); if (cp) *cp = '.';` -/
def commaToDot : Bytes → Bytes
  | [] => []
  | c :: cs => if c = 0 then c :: cs else if c = 44 then 46 :: cs else c :: commaToDot cs

def rdBuf (buf : Bytes) (i : Nat) : Option Nat := if i < numBuf then buf[i]? else none

/-- `while (len > 0 && buf[len-1] == '0') { buf[len-1] = 0; len--; }` -/
def trimZeros (buf : Bytes) : Nat → Option (Bytes × Nat)
  | 0 => some (buf, 0)
  | n + 1 =>
    match rdBuf buf n with
    | none => none
    | some c => if c = 48 then trimZeros (buf.set n 0) n else some (buf, n + 1)

/-- the trimming tail of `iwjson_ftoa`: zeros from the right, then a trailing point -/
def ftoaTrim (buf3 : Bytes) (len : Nat) : R (Bytes × Nat) :=
  match trimZeros buf3 len with
  | none => .oob
  | some (buf4, len) =>
    if len > 0 then
      match rdBuf buf4 (len - 1) with
      | none => .oob
      | some c => if c = 46 then .ok (buf4.set (len - 1) 0, len - 1) else .ok (buf4, len)
    else .ok (buf4, len)

/-- `iwjson_ftoa(val, buf, &len)`; `t8` is the text `"%.8Lf"` yields for `val`, `t17` the text of
    `"%.17Lg"` (both are results of libc and inputs of the model). Returns (buf, out_len). -/
def ftoa (t8 t17 : Bytes) : R (Bytes × Nat) :=
  let buf1 := snprintfInto (List.replicate numBuf 0xAA) t8
  let fixed := decide (t8.length < numBuf)
  let buf2 := if fixed then buf1 else snprintfInto buf1 t17
  let len := if fixed then t8.length else t17.length
  let buf3 := commaToDot buf2
  if len = 0 ∨ len ≥ numBuf then .ok (buf3.set 0 0, 0)
  else if !fixed then .ok (buf3, len)
  else ftoaTrim buf3 len

/-- the unrepaired function (tree before the fix of F6): the returned length of `snprintf` is used as
    an index without looking at the buffer size. -/
def ftoaOld (t8 : Bytes) : R (Bytes × Nat) :=
  let buf3 := commaToDot (snprintfInto (List.replicate numBuf 0xAA) t8)
  if t8.length = 0 then .ok (buf3.set 0 0, 0) else ftoaTrim buf3 t8.length

/-! ### `iwatoi2` (length-delimited) -/

/-- digit loop `while (len > 0 && *str != 0) { if not digit break; num = num*10 + …; str++; len--; }`
    in `uint64_t` arithmetic -/
def atoi2Digits (s : Bytes) : Nat → Nat → Nat → Option Nat
  | _, 0, acc => some acc
  | i, len + 1, acc =>
    match s[i]? with
    | none => none
    | some c => if c = 0 ∨ c < 48 ∨ c > 57 then some acc else atoi2Digits s (i + 1) len ((acc * 10 + (c - 48)) % 2 ^ 64)

/-- leading `while (len > 0 && *str > 0 && *str <= ' ')` (plain `char` is signed: bytes ≥ 0x80 are negative) -/
def atoi2Skip (s : Bytes) : Nat → Nat → Option (Nat × Nat)
  | i, 0 => some (i, 0)
  | i, len + 1 =>
    match s[i]? with
    | none => none
    | some c => if 0 < c ∧ c ≤ 32 then atoi2Skip s (i + 1) len else some (i, len + 1)

/-- `memcmp(str, "inf", 3)` guarded by `len == 3` -/
def isInfAt (s : Bytes) (i len : Nat) : Option Bool :=
  if len = 3 then
    match s[i]?, s[i + 1]?, s[i + 2]? with
    | some a, some b, some c => some (a = 105 ∧ b = 110 ∧ c = 102)
    | _, _, _ => none
  else some false

/-- `iwatoi2(s, len)` on a buffer of which only `s.length` bytes exist; `none` = out-of-range read. -/
def atoi2 (s : Bytes) (len : Nat) : Option Int :=
  match atoi2Skip s 0 len with
  | none => none
  | some (_, 0) => some 0
  | some (i, len + 1) =>
    match s[i]? with
    | none => none
    | some c =>
      let neg := decide (c = 45)
      let adv := decide (c = 45 ∨ c = 43)
      let i := if adv then i + 1 else i
      let len := if adv then len else len + 1
      match isInfAt s i len with
      | none => none
      | some true => some (if neg then -(2 ^ 63 - 1 : Int) else (2 ^ 63 - 1 : Int))
      | some false =>
        match atoi2Digits s i len 0 with
        | none => none
        | some num => some (Conv.wrap64 (if neg then -(num : Int) else (num : Int)))

/-! ### `iwafcmp` with explicit sizes -/

def isWs (c : Nat) : Bool := c ≤ 32 || c = 127

/-- `while (alen > 0 && (*arp <= ' ' || *arp == 0x7f)) { arp++; alen--; }` -/
def afSkip (s : Bytes) : Nat → Nat → Option (Nat × Nat)
  | i, 0 => some (i, 0)
  | i, len + 1 =>
    match s[i]? with
    | none => none
    | some c => if isWs c then afSkip s (i + 1) len else some (i, len + 1)

/-- `while (alen > 0) { c = *arp; if not digit break; anum = anum*10 + c-'0'; arp++; alen--; }` (uint64_t) -/
def afDigits (s : Bytes) : Nat → Nat → Nat → Option (Nat × Nat × Nat)
  | i, 0, acc => some (i, 0, acc)
  | i, len + 1, acc =>
    match s[i]? with
    | none => none
    | some c => if c < 48 ∨ c > 57 then some (i, len + 1, acc) else afDigits s (i + 1) len ((acc * 10 + (c - 48)) % 2 ^ 64)

/-- integer part: returns (index, remaining length, sign, value as int64) -/
def afInt (s : Bytes) (len : Nat) : Option (Nat × Nat × Int × Int) :=
  match afSkip s 0 len with
  | none => none
  | some (i, len) =>
    -- (alen > 0) && (*arp == '-')
    match (if len > 0 then (s[i]?).map (fun c => decide (c = 45)) else some false) with
    | none => none
    | some neg =>
      match afDigits s (if neg then i + 1 else i) (if neg then len - 1 else len) 0 with
      | none => none
      | some (i, len, num) =>
        let sign : Int := if neg then -1 else 1
        some (i, len, sign, Conv.wrap64 (sign * num))

/-- `(alen > 1) && (*arp == '.')` -/
def afHasFrac (s : Bytes) (i len : Nat) : Option Bool :=
  if len > 1 then (s[i]?).map (· = 46) else some false

/-- fraction digits: at most `IWNUMBUF_SIZE` bytes behind the point are looked at -/
def afFracDigits (s : Bytes) : Nat → Nat → List Nat → Option (List Nat)
  | _, 0, acc => some acc.reverse
  | i, len + 1, acc =>
    match s[i]? with
    | none => none
    | some c => if c < 48 ∨ c > 57 then some acc.reverse else afFracDigits s (i + 1) len ((c - 48) :: acc)

/-- exact value of the fraction scaled by `10^IWNUMBUF_SIZE` (stands for the `long double` sum) -/
def fracVal (sign : Int) (ds : List Nat) : Int :=
  sign * ((ds.zipIdx.foldl (fun acc (d, i) => acc + d * 10 ^ (numBuf - 1 - i)) 0 : Nat) : Int)

def afFrac (s : Bytes) (i len : Nat) (sign : Int) : Option (Bool × Int) :=
  match afHasFrac s i len with
  | none => none
  | some false => some (false, 0)
  | some true =>
    match afFracDigits s (i + 1) (min (len - 1) numBuf) [] with
    | none => none
    | some ds => some (true, fracVal sign ds)

/-- `memcmp(a, b, MIN(asiz, bsiz))` then the size difference -/
def memcmpB (a b : Bytes) (n : Nat) : Option Int :=
  if n ≤ a.length ∧ n ≤ b.length then
    some ((List.zip (a.take n) (b.take n)).foldr (fun (x, y) r => if x = y then r else (x : Int) - (y : Int)) 0)
  else none

/-- `iwafcmp(a, asiz, b, bsiz)`; `none` = out-of-range read. -/
def afcmp (a : Bytes) (asiz : Nat) (b : Bytes) (bsiz : Nat) : Option Int :=
  match afInt a asiz, afInt b bsiz with
  | some (ia, la, sa, va), some (ib, lb, sb, vb) =>
    if va < vb then some (-1) else if va > vb then some 1 else
    match afHasFrac a ia la, afHasFrac b ib lb with
    | some fa, some fb =>
      let tie : Option Int :=
        match memcmpB a b (min asiz bsiz) with
        | none => none
        | some rv => some (if rv = 0 then (asiz : Int) - (bsiz : Int) else rv)
      if fa || fb then
        match afFrac a ia la sa, afFrac b ib lb sb with
        | some (_, x), some (_, y) => if x < y then some (-1) else if x > y then some 1 else tie
        | _, _ => none
      else tie
    | _, _ => none
  | _, _ => none

/-! ### `iwhex2bin` with explicit sizes -/

def tbl (c : Nat) : Nat := Gen.ascii2hex.getD c 0

/-- `out[vpos++] = (uint8_t) (ascii2hex[idx0] << 4) | ascii2hex[idx1]` into a buffer of `cap` bytes
    (`vpos = out.length`) -/
def hexStore (out : Bytes) (cap a b : Nat) : Option Bytes :=
  if out.length < cap then some (out ++ [(tbl a * 16) % 256 ||| tbl b]) else none

/-- the loop of `iwhex2bin`: `pos` read index, `out` bytes stored so far, `cap` the size of the output
    buffer the caller owns, `hexlen`/`max` the two length arguments. -/
def hex2binLoop (hex : Bytes) (hexlen max cap : Nat) (pos : Nat) (out : Bytes) : Option Bytes :=
  if pos < hexlen then
    if pos = 0 ∧ hexlen % 2 = 1 then          -- first iteration + odd number of digits: '0' prefix
      match hex[0]? with
      | none => none
      | some c =>
        match hexStore out cap 48 c with
        | none => none
        | some out => if out.length ≥ max then some out else hex2binLoop hex hexlen max cap (pos + 1) out
    else
      match hex[pos]?, hex[pos + 1]? with
      | some a, some b =>
        match hexStore out cap a b with
        | none => none
        | some out => if out.length ≥ max then some out else hex2binLoop hex hexlen max cap (pos + 2) out
      | _, _ => none
  else some out
termination_by hexlen - pos

/-- `iwhex2bin(hex, hexlen, out, max)` with `hex` of `hex.length` bytes and `out` of `cap` bytes -/
def hex2bin (hex : Bytes) (hexlen max cap : Nat) : Option Bytes :=
  if max < 1 then some [] else hex2binLoop hex hexlen max cap 0 []

end IwModel.Txt
