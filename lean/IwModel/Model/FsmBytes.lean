import IwModel.Model.Fsm
import IwModel.Model.Exf
/-! # `_fsm_reallocate` over the bytes of its pool

`Model/Fsm.lean` describes the allocator on blocks; the bytes of the regions it hands out live in the extensible file
below it (`fsm->pool`, `Model/Exf.lean`).  This thin layer puts the two together for the one allocator call that moves
caller bytes: `reallocate` = `Fsm.reallocate` on the blocks, and on the pool

1. whatever the allocator stores itself while `_fsm_blk_allocate_lw` runs (bits in the bitmap, a larger bitmap at a new
   place, growth of the pool) — a parameter `w1` of the layer,
2. `fsm->pool.copy(pool, *oaddr, *olen, naddr_blk << bpow)` when the region moved — the copy of the exfile model,
3. whatever `_fsm_blk_deallocate_lw` stores (bits cleared) — a parameter `w2`.

The theorems (`Props/C10.lean`) hold for every `w1`, `w2` that leave the bytes of caller-held blocks alone; that the
allocator's own stores are of this kind is what `alloc_fresh` says on the block level (the bitmap lives in blocks no caller
holds, a new bitmap is taken from free blocks), and `bitmapStore` is such a store. -/
namespace IwModel.FsmB
open IwModel

/-- the byte range of a block -/
def blockOf (s : Fsm.St) (j : Nat) : Nat := j / Fsm.bsz s

/-- `_fsm_reallocate` with the pool: result of `Fsm.reallocate`, the return code of `pool.copy`, the pool afterwards.
    (The block model ignores a failing copy; here it is reported: the C code returns it.) -/
def reallocate (h : Fsm.Heur) (s : Fsm.St) (p : Exf.St) (w1 w2 : Exf.St → Exf.St) (nlenB addrB olenB : Nat) (f : Fsm.Flags) :
    (Fsm.St × Fsm.Rc × Nat × Nat × Option (Nat × Nat × Nat)) × Exf.Rc × Exf.St :=
  let r := Fsm.reallocate h s nlenB addrB olenB f
  let p1 := w1 p
  let (crc, p2) :=
    match r.2.2.2.2 with
    | some (src, dst, n) => Exf.copy p1 src n dst
    | none => (Exf.Rc.ok, p1)
  (r, crc, w2 p2)

/-- an allocator store of the simplest kind: the pool grown to `size` bytes on disk and `img` written over the bitmap area
    of state `t` -/
def bitmapStore (t : Fsm.St) (size : Nat) (img : Bytes) (p : Exf.St) : Exf.St :=
  { p with file := Exf.writeAt (Exf.resize p.file (max p.file.length size)) t.bmoff (img.take t.bmlen) }

end IwModel.FsmB
