/-!
Functional model of `src/utils/iwavl.c` / `iwavl.h` (Eric Biggers' intrusive AVL tree).

A node carries its balance factor `b = height(right) - height(left) ∈ {-1,0,1}` exactly as the low bits of
`parent_balance` do.  The bottom-up loops of `iwavl_rebalance_after_insert` and `iwavl_remove` become the
unwinding of a recursive descent that returns "this subtree grew / shrank by one"; the case analysis in
`growLeft/growRight` is `avl_handle_subtree_growth` (sign = -1 / +1) and the one in `shrunkLeft/shrunkRight`
is `avl_handle_subtree_shrink` (sign = +1 / -1), with the same single and double rotations and the same
balance-factor updates (`avl_rotate`, `avl_do_double_rotate`).  Removal of a node with two children puts its
in-order successor in its place (`avl_tree_swap_with_successor`).
-/
namespace IwModel.Avl

inductive Tree where
  | nil
  | node (l : Tree) (k : Int) (b : Int) (r : Tree)
  deriving Repr, DecidableEq

open Tree

/-- `avl_handle_subtree_growth(…, sign = -1)`: left subtree `l` of (k, b, r) has grown by one.
Returns the new subtree and whether it is taller than before. -/
def growLeft (l : Tree) (k : Int) (b : Int) (r : Tree) : Tree × Bool :=
  if b = 0 then (node l k (-1) r, true)
  else if b = 1 then (node l k 0 r, false)
  else
    match l with
    | node ll lk lb lr =>
      if lb < 0 then
        -- single rotation (clockwise at k); both balance factors become 0
        (node ll lk 0 (node lr k 0 r), false)
      else
        match lr with
        | node lrl lrk e lrr =>
          -- double rotation: E = lr comes on top
          (node (node ll lk (if e ≤ 0 then 0 else -e) lrl) lrk 0 (node lrr k (if e ≥ 0 then 0 else -e) r), false)
        | nil => (node l k b r, false)       -- unreachable on AVL trees
    | nil => (node l k b r, false)           -- unreachable

/-- `avl_handle_subtree_growth(…, sign = +1)` -/
def growRight (l : Tree) (k : Int) (b : Int) (r : Tree) : Tree × Bool :=
  if b = 0 then (node l k 1 r, true)
  else if b = -1 then (node l k 0 r, false)
  else
    match r with
    | node rl rk rb rr =>
      if rb > 0 then
        (node (node l k 0 rl) rk 0 rr, false)
      else
        match rl with
        | node rll rlk e rlr =>
          (node (node l k (if e ≤ 0 then 0 else -e) rll) rlk 0 (node rlr rk (if e ≥ 0 then 0 else -e) rr), false)
        | nil => (node l k b r, false)
    | nil => (node l k b r, false)

/-- `iwavl_insert` + `iwavl_rebalance_after_insert`: (tree, inserted?, grew?) -/
def insertAux (x : Int) : Tree → Tree × Bool × Bool
  | nil => (node nil x 0 nil, true, true)
  | node l k b r =>
    if x < k then
      let (l', ins, grew) := insertAux x l
      if grew then let (t, g) := growLeft l' k b r; (t, ins, g) else (node l' k b r, ins, false)
    else if x > k then
      let (r', ins, grew) := insertAux x r
      if grew then let (t, g) := growRight l k b r'; (t, ins, g) else (node l k b r', ins, false)
    else (node l k b r, false, false)

def insert (t : Tree) (x : Int) : Tree × Bool :=
  let (t', ins, _) := insertAux x t
  (t', ins)

/-- `avl_handle_subtree_shrink(…, sign = +1)`: the left subtree (already replaced by `l`) lost one level.
Returns the new subtree and whether it is shorter than before. -/
def shrunkLeft (l : Tree) (k : Int) (b : Int) (r : Tree) : Tree × Bool :=
  if b = 0 then (node l k 1 r, false)
  else if b = -1 then (node l k 0 r, true)
  else
    match r with
    | node rl rk rb rr =>
      if rb ≥ 0 then
        if rb = 0 then (node (node l k 1 rl) rk (-1) rr, false)
        else (node (node l k 0 rl) rk 0 rr, true)
      else
        match rl with
        | node rll rlk e rlr =>
          (node (node l k (if e ≤ 0 then 0 else -e) rll) rlk 0 (node rlr rk (if e ≥ 0 then 0 else -e) rr), true)
        | nil => (node l k b r, false)
    | nil => (node l k b r, false)

/-- `avl_handle_subtree_shrink(…, sign = -1)`: the right subtree lost one level -/
def shrunkRight (l : Tree) (k : Int) (b : Int) (r : Tree) : Tree × Bool :=
  if b = 0 then (node l k (-1) r, false)
  else if b = 1 then (node l k 0 r, true)
  else
    match l with
    | node ll lk lb lr =>
      if lb ≤ 0 then
        if lb = 0 then (node ll lk 1 (node lr k (-1) r), false)
        else (node ll lk 0 (node lr k 0 r), true)
      else
        match lr with
        | node lrl lrk e lrr =>
          (node (node ll lk (if e ≤ 0 then 0 else -e) lrl) lrk 0 (node lrr k (if e ≥ 0 then 0 else -e) r), true)
        | nil => (node l k b r, false)
    | nil => (node l k b r, false)

/-- unlink the least node of a non-empty tree: (its key, rest, shrank?) -/
def removeMin : Tree → Int → Int → Tree → Int × Tree × Bool
  | nil, k, _, r => (k, r, true)
  | node ll lk lb lr, k, b, r =>
    let (m, l', sh) := removeMin ll lk lb lr
    if sh then let (t, s) := shrunkLeft l' k b r; (m, t, s) else (m, node l' k b r, false)

/-- `iwavl_remove` of the node holding `x`: (tree, removed?, shrank?) -/
def removeAux (x : Int) : Tree → Tree × Bool × Bool
  | nil => (nil, false, false)
  | node l k b r =>
    if x < k then
      let (l', rm, sh) := removeAux x l
      if sh then let (t, s) := shrunkLeft l' k b r; (t, rm, s) else (node l' k b r, rm, false)
    else if x > k then
      let (r', rm, sh) := removeAux x r
      if sh then let (t, s) := shrunkRight l k b r'; (t, rm, s) else (node l k b r', rm, false)
    else
      match l, r with
      | nil, _ => (r, true, true)
      | _, nil => (l, true, true)
      | _, node rl rk rb rr =>
        -- two children: the in-order successor takes this node's place and balance factor
        let (m, r', sh) := removeMin rl rk rb rr
        if sh then let (t, s) := shrunkRight l m b r'; (t, true, s) else (node l m b r', true, false)

def remove (t : Tree) (x : Int) : Tree × Bool :=
  let (t', rm, _) := removeAux x t
  (t', rm)

/-- `iwavl_lookup` -/
def mem (x : Int) : Tree → Bool
  | nil => false
  | node l k _ r => if x < k then mem x l else if x > k then mem x r else true

/-- `iwavl_lookup_bounds`: greatest key ≤ x and least key ≥ x seen on the search path -/
def bounds (x : Int) : Tree → Option Int → Option Int → Option Int × Option Int
  | nil, lb, ub => (lb, ub)
  | node l k _ r, lb, ub =>
    if x < k then bounds x l lb (some k)
    else if x > k then bounds x r (some k) ub
    else (some k, some k)

def lookupBounds (t : Tree) (x : Int) : Option Int × Option Int := bounds x t none none

/-- in-order keys (`iwavl_for_each_in_order`) -/
def toList : Tree → List Int
  | nil => []
  | node l k _ r => toList l ++ k :: toList r

/-- `iwavl_for_each_in_postorder` -/
def postorder : Tree → List Int
  | nil => []
  | node l k _ r => postorder l ++ postorder r ++ [k]

def height : Tree → Nat
  | nil => 0
  | node l _ _ r => max (height l) (height r) + 1

end IwModel.Avl
