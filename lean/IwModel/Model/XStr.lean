import IwModel.Model.Bytes
import IwModel.Gen.C18
/-!
Model of `src/utils/iwxstr.c`: `size` data bytes in an allocation of `asize` bytes, whether the byte after the
data is a NUL (`term`), and the owned user-data slot.  The growth rule of every appending function is
"double once, or jump to exactly the needed size".  `printf` is `cat` of the formatted bytes (formatting itself
is libc's).  Follows the code after the fix of `iwxstr_clone`.
-/
namespace IwModel.XStr

structure XStr where
  data : Bytes
  asize : Nat
  term : Bool := true
  /-- user data with a free function: `some id` -/
  ud : Option Nat := none
  deriving Repr

def AUNIT : Nat := Gen.C18.XSTR_AUNIT

/-- `iwxstr_create` -/
def create (siz : Nat) : XStr := { data := [], asize := if siz = 0 then AUNIT else siz }

/-- the `while (asize < nsize)` loop -/
def grow (asize nsize : Nat) : Nat :=
  if asize < nsize then (if asize * 2 < nsize then nsize else asize * 2) else asize

/-- `iwxstr_wrap(buf, size, asize)` -/
def wrap (b : Bytes) (asize : Nat) : XStr :=
  { data := b, asize := if b.length ≥ asize then b.length + 1 else asize }

/-- `iwxstr_cat` -/
def cat (x : XStr) (b : Bytes) : XStr :=
  { x with data := x.data ++ b, asize := grow x.asize (x.data.length + b.length + 1), term := true }

/-- `iwxstr_unshift` -/
def unshift (x : XStr) (b : Bytes) : XStr :=
  { x with data := b ++ x.data, asize := grow x.asize (x.data.length + b.length + 1), term := true }

/-- `iwxstr_shift` -/
def shift (x : XStr) (n : Nat) : XStr :=
  if n = 0 then x else { x with data := x.data.drop n, term := true }

/-- `iwxstr_pop` -/
def pop (x : XStr) (n : Nat) : XStr :=
  if n = 0 then x else { x with data := x.data.take (x.data.length - n), term := true }

/-- `iwxstr_insert`: `false` = IW_ERROR_OUT_OF_BOUNDS; the byte after the data moves along -/
def insert (x : XStr) (pos : Nat) (b : Bytes) : XStr × Bool :=
  if pos > x.data.length then (x, false)
  else if b.isEmpty then (x, true)
  else ({ x with data := x.data.take pos ++ b ++ x.data.drop pos,
                 asize := grow x.asize (x.data.length + b.length + 1) }, true)

def clear (x : XStr) : XStr := { x with data := [], term := true }

/-- `iwxstr_set_size` to at most the current size (the only use the tie exercises): no terminator is stored -/
def setSize (x : XStr) (n : Nat) : XStr :=
  { x with data := x.data.take n ++ List.replicate (n - x.data.length) 0,
           asize := grow x.asize (n + 1),
           term := if n < x.data.length then x.data.getD n 1 = 0 else if n = x.data.length then x.term else false }

/-- `iwxstr_clone` (fixed: the clone is terminated; user data is not cloned) -/
def clone (x : XStr) : XStr := { data := x.data, asize := x.asize, term := true }

/-- `iwxstr_user_data_set` with a free function: returns the user data freed -/
def udSet (x : XStr) (id : Nat) : XStr × List Nat := ({ x with ud := some id }, x.ud.toList)

/-- `iwxstr_user_data_detach` (+ the harness then clears the slot) -/
def udDetach (x : XStr) : XStr × Nat := ({ x with ud := none }, x.ud.getD 0)

/-- `iwxstr_destroy`: user data freed -/
def destroy (x : XStr) : List Nat := x.ud.toList

def decimal (v : Int) : Bytes := (toString v).toList.map (·.toNat)

/-- the bytes `"%s|%ld"` produces -/
def fmt (s : Bytes) (v : Int) : Bytes := s ++ [124] ++ decimal v

end IwModel.XStr
