import IwModel.Model.Bytes
import IwModel.Gen.C18
/-!
Model of `src/utils/iwpool.c`: a chain of heap units with a bump pointer (`usiz` of `asiz` bytes used in the
current unit, everything rounded up to 8), reference count, owned user data, attached child pools with their own
reference counts, and the orphans a destroyed parent leaves behind.
An allocation result is the canonical address (index of the unit counted from the oldest, byte offset).
Follows the code after the fixes of `iwpool_destroy`, `_parent_remove_child`, `iwpool_copy_cstring_array`
and `iwpool_split_string`.
-/
namespace IwModel.Pool

def POOL_SIZ : Nat := Gen.C18.POOL_SIZ
def ALIGN : Nat := Gen.C18.POOL_ALIGN
def roundup8 (n : Nat) : Nat := (n + (ALIGN - 1)) / ALIGN * ALIGN

structure Pool where
  usiz : Nat
  asiz : Nat
  units : Nat
  refs : Nat := 1
  ud : Option Nat := none
  deriving Repr

/-- `iwpool_create` -/
def create (siz : Nat) : Pool := { usiz := 0, asiz := roundup8 (if siz < 1 then POOL_SIZ else siz), units := 1 }

/-- `iwpool_create_empty` -/
def createEmpty : Pool := { usiz := 0, asiz := 0, units := 0 }

/-- `iwpool_alloc`: (pool, unit index, offset) -/
def alloc (p : Pool) (siz0 : Nat) : Pool × Nat × Nat :=
  let siz := roundup8 siz0
  let usiz := p.usiz + siz
  if usiz > p.asiz then
    -- `iwpool_extend(pool, usiz + asiz)`: a new unit, the rest of the old one is abandoned
    ({ p with usiz := siz, asiz := roundup8 (usiz + p.asiz), units := p.units + 1 }, p.units, 0)
  else ({ p with usiz := usiz }, p.units - 1, p.usiz)

def isSpace (c : Nat) : Bool := c = 32 ∨ (9 ≤ c ∧ c ≤ 13)

/-- reference trimming rule: white space stripped at both ends of the token, nothing else -/
def trimTok (t : Bytes) : Bytes := ((t.dropWhile isSpace).reverse.dropWhile isSpace).reverse

/-- `hay[a, b)` -/
def slice (hay : Bytes) (a b : Nat) : Bytes := (hay.drop a).take (b - a)

/-- `while (sp < ep && iwchars_is_space(*sp)) ++sp;` (fuel = `ep - sp`) -/
def trimL (hay : Bytes) (ep : Nat) : Nat → Nat → Nat
  | 0, sp => sp
  | f + 1, sp => if sp < ep ∧ isSpace (hay.getD sp 0) then trimL hay ep f (sp + 1) else sp

/-- `while (ep > sp && iwchars_is_space(*(ep - 1))) --ep;` (fixed code: stays inside the token) -/
def trimR (hay : Bytes) (sp : Nat) : Nat → Nat → Nat
  | 0, ep => ep
  | f + 1, ep => if ep > sp ∧ isSpace (hay.getD (ep - 1) 0) then trimR hay sp f (ep - 1) else ep

/-- the token `iwpool_split_string` copies out of `[sp, ep)` -/
def token (hay : Bytes) (ws : Bool) (sp ep : Nat) : Bytes :=
  if ws then
    let sp' := trimL hay ep (ep - sp) sp
    let ep' := trimR hay sp' (ep - sp') ep
    slice hay sp' ep'
  else slice hay sp ep

/-- the scan of `iwpool_split_string`: (start of the current token, tokens so far) after looking at position `i`.
`ep == haystack + i` at the top of every iteration and `sp ≤ ep`, so the guard `ep >= sp` is always true;
the last character closes a token whether or not it is a separator (`*(ep + 1) == 0`), a trailing separator
does not open a new (empty) one. -/
def splitStep (hay chars : Bytes) (ws : Bool) (st : Nat × List Bytes) (i : Nat) : Nat × List Bytes :=
  let (sp, toks) := st
  let ch := hay.getD i 0
  let sch := chars.contains ch
  let last := i + 1 = hay.length
  if sch ∨ last then
    let ep := if ¬ sch ∧ last then i + 1 else i
    (i + 1, toks ++ [token hay ws sp ep])
  else (sp, toks)

/-- the strings `iwpool_split_string` returns -/
def splitTokens (hay chars : Bytes) (ws : Bool) : List Bytes :=
  ((List.range hay.length).foldl (splitStep hay chars ws) (0, [])).2

/-- `_iwpool_printf_estimate_size` + `_iwpool_printf_va`: `vsnprintf(buf, 1, …) + 1` bytes are allocated and the
second `vsnprintf(wbuf, size, …)` writes `size - 1` bytes and the NUL: (allocation size, string stored) -/
def printfAlloc (out : Bytes) : Nat × Bytes :=
  let size := out.length + 1
  (size, out.take (size - 1))

/-- `iwpool_printf_split`: the formatted bytes (held in a heap buffer of `len + 1` bytes) are split -/
def printfSplit (out chars : Bytes) (ws : Bool) : List Bytes :=
  splitTokens (printfAlloc out).2 chars ws

/-- pool accounting of `iwpool_split_string`: the pointer array, then one allocation per token -/
def splitAlloc (p : Pool) (hay : Bytes) (toks : List Bytes) : Pool :=
  toks.foldl (fun q t => (alloc q (t.length + 1)).1) (alloc p ((hay.length + 1) * 8)).1

/-- pool accounting of `iwpool_copy_cstring_array` (nothing is allocated for an empty array) -/
def copyArrAlloc (p : Pool) (v : List Bytes) : Pool :=
  if v.isEmpty then p else v.foldl (fun q t => (alloc q (t.length + 1)).1) (alloc p (8 * (v.length + 1))).1

/-- entry with handle `h` of a handle-indexed list of pools -/
def findIn (l : List (Nat × Pool)) (h : Nat) : Option Pool := (l.find? (·.1 = h)).map (·.2)

/-- replace the pool of handle `h` -/
def setIn (l : List (Nat × Pool)) (h : Nat) (c : Pool) : List (Nat × Pool) :=
  l.map fun (p : Nat × Pool) => if p.1 = h then (p.1, c) else (p.1, p.2)

/-- `q` with one reference fewer -/
def unref (q : Pool) : Pool := { q with refs := q.refs - 1 }

/-- a parent pool (`main`) with the children attached to it, most recently attached first (`parent->children`
chain); each child carries the harness's handle.  `orphans`: former children whose parent was destroyed while
somebody held a further reference on them (`c->parent = 0; iwpool_destroy(c)` only dropped one reference): parentless
pools owned by the remaining reference holders.  `gone`: the main pool has been freed (then `kids = []`, no user
data; only the orphans can still be used). -/
structure Sys where
  main : Pool
  kids : List (Nat × Pool) := []
  next : Nat := 0
  orphans : List (Nat × Pool) := []
  gone : Bool := false
  deriving Repr

/-- `iwpool_create_attach` / `iwpool_create_empty_attach` -/
def attach (s : Sys) (c : Pool) : Sys × Nat := ({ s with kids := (s.next, c) :: s.kids, next := s.next + 1 }, s.next)

/-- attached child with handle `h` -/
def kid (s : Sys) (h : Nat) : Option Pool := findIn s.kids h

/-- orphan with handle `h` -/
def orphan (s : Sys) (h : Nat) : Option Pool := findIn s.orphans h

/-- the pool a child handle denotes: an attached child or an orphan -/
def lookup (s : Sys) (h : Nat) : Option Pool := (kid s h).or (orphan s h)

def setKid (s : Sys) (h : Nat) (c : Pool) : Sys := { s with kids := setIn s.kids h c }

def setOrphan (s : Sys) (h : Nat) (c : Pool) : Sys := { s with orphans := setIn s.orphans h c }

/-- store `c` under child handle `h` (attached child first, else orphan) -/
def setAny (s : Sys) (h : Nat) (c : Pool) : Sys :=
  match kid s h with
  | some _ => setKid s h c
  | none => setOrphan s h c

/-- `iwpool_user_data_set(pool, data, free_fn)`: the previous user data goes to its free function -/
def udSet (p : Pool) (id : Nat) : Pool × List Nat := ({ p with ud := some id }, p.ud.toList)

/-- `iwpool_user_data_detach` (+ the caller clears the slot): the user data is the caller's again -/
def udDetach (p : Pool) : Pool × List Nat := ({ p with ud := none }, p.ud.toList)

/-- `iwpool_user_data_set` on a child handle (attached child or orphan) -/
def kidUdSet (s : Sys) (h : Nat) (id : Nat) : Option (Sys × List Nat) :=
  (lookup s h).map fun q => (setAny s h (udSet q id).1, (udSet q id).2)

/-- `iwpool_ref` -/
def ref (s : Sys) : Sys := { s with main := { s.main with refs := s.main.refs + 1 } }

/-- `iwpool_ref` on a child handle: the new state and the count returned -/
def refKid (s : Sys) (h : Nat) : Option (Sys × Nat) :=
  (lookup s h).map fun q => (setAny s h { q with refs := q.refs + 1 }, q.refs + 1)

/-- `iwpool_destroy` of the childless pool with handle `h` in `l`: `--numrefs > 0` → only the count drops (`false`, the
pool stays where it is); else it leaves the list and its user data goes to the free function (`true`) -/
def destroyIn (l : List (Nat × Pool)) (h : Nat) : Option (List (Nat × Pool) × Bool × List Nat) :=
  (findIn l h).map fun c =>
    if c.refs > 1 then (setIn l h (unref c), false, [])
    else (l.filter (fun p => decide (p.1 ≠ h)), true, c.ud.toList)

/-- `iwpool_destroy(child handle)`: (state, `none` = no such handle / the bool returned, user data freed).
An attached child that goes is unlinked from the parent (siblings stay); with references left it stays attached. -/
def destroyKid (s : Sys) (h : Nat) : Sys × Option Bool × List Nat :=
  match destroyIn s.kids h with
  | some (k, b, f) => ({ s with kids := k }, some b, f)
  | none =>
    match destroyIn s.orphans h with
    | some (o, b, f) => ({ s with orphans := o }, some b, f)
    | none => (s, none, [])

/-- children that survive the destroy of their parent: `c->parent = 0; iwpool_destroy(c)` took one of several references -/
def survivors (kids : List (Nat × Pool)) : List (Nat × Pool) :=
  (kids.filter fun p => decide (1 < p.2.refs)).map fun p => (p.1, unref p.2)

/-- user data freed by the children loop of `iwpool_destroy(parent)`: children on their last reference, in chain order -/
def kidsFreed (kids : List (Nat × Pool)) : List Nat := (kids.filter fun p => !decide (1 < p.2.refs)).flatMap (·.2.ud.toList)

/-- `iwpool_destroy(parent)`: `none` when other references remain (only the count drops); else every attached child is
detached and destroyed once - those on their last reference are freed (user data first), the others become orphans with
one reference fewer and keep their user data - then the pool's own user data is freed -/
def destroy (s : Sys) : Sys × Option (List Nat) :=
  if s.main.refs > 1 then ({ s with main := { s.main with refs := s.main.refs - 1 } }, none)
  else ({ s with main := { s.main with ud := none }, kids := [], orphans := survivors s.kids ++ s.orphans, gone := true },
        some (kidsFreed s.kids ++ s.main.ud.toList))

end IwModel.Pool
