import IwModel.Model.Bytes
import IwModel.Model.ReVm
/-! Bounds-instrumented model of the regular-expression front end (src/re/parse.c, src/re/compile.c,
the guard of `iwre_create` in src/re/iwre.c).

* The pattern is an index-addressed buffer (`pat[i]?`); a read outside it answers `.oob`.
* The parser's node buffer (`estimate_nodes(pattern) = 2 * strlen` cells shared by the operator stack,
  growing up, and the output area, growing down) is modelled by the counter `used` = cells occupied by
  both; `push` answers `.oob` when no cell is free (`stack < output` fails).  Nodes that were `consume`d
  become children of the node pushed next, so the stack is a list of trees.
* `int` arithmetic that the C code performs without a bound (`parse_interval`, `count_instructions`,
  `estimate_nodes`, `vm_estimate_threads`) answers `.ub` when the mathematical value leaves `int`
  (open findings C17-RE-COUNT-PARSE / C17-RE-COUNT-COMPILE).
* `parse_context` recurses without a bound in C (once per `(` and per `|`); the model takes fuel that is
  decremented on every call *and* on every loop iteration, so the model's call depth dominates the C
  recursion depth; `.fuel` = deeper than the fuel.  `count_instructions`, `node_is_anchored`,
  `compile_context` recurse on the tree (depth = height of the tree, up to `2 * strlen`; open finding
  C17-RE-DEPTH is the machine stack running out on that recursion): structural recursion here.
* The compiler emits into `program->instructions[estimate_instructions(root)]`; the model builds the
  instruction list of a node for a given start offset (jump targets are the offsets the C code obtains
  from the `pc` pointers it remembers) and answers `.oob` when more is emitted than was estimated. -/
namespace IwModel.Re
open IwModel.ReVm (Instr)

/-- `cregex_node_t`; a class node keeps the offsets of `from` / `to` inside the pattern;
    `nmax = none` is the C value `-1` (unbounded). `chr` holds the byte as `unsigned char`. -/
inductive Node where
  | eps
  | chr (c : Nat)
  | any
  | cls (neg : Bool) (frm to : Nat)
  | cat (l r : Node)
  | alt (l r : Node)
  | quant (nmin : Nat) (nmax : Option Nat) (greedy : Bool) (q : Node)
  | abegin
  | aend
  | cap (c : Node)
deriving Repr, DecidableEq, Inhabited

inductive R (α : Type) where
  | oob        -- access outside the pattern / node buffer / program buffer / class table
  | fuel       -- recursion deeper than the fuel
  | ub         -- `int` overflow (undefined behaviour in C)
  | fail       -- the function returns NULL: pattern rejected
  | ok (a : α)
deriving Repr

def intMax : Nat := 2147483647

def Node.isEps : Node → Bool
  | .eps => true
  | _ => false

/-- number of cells a tree occupies in the node buffer -/
def Node.size : Node → Nat
  | .cat l r | .alt l r => l.size + r.size + 1
  | .quant _ _ _ q => q.size + 1
  | .cap c => c.size + 1
  | _ => 1

/-- `strlen(pattern)`; `none` = no terminator inside the buffer -/
def strlen (pat : Bytes) : Option Nat :=
  let k := (pat.takeWhile (· ≠ 0)).length
  if k < pat.length then some k else none

/-! ### parse.c -/

/-- `push`: `assert(stack <= output); *stack++ = node` needs a free cell -/
def push (cap used : Nat) : Option Nat := if used < cap then some (used + 1) else none

/-- `parse_char_class` from the loop head with `context->sp = pat + i`; `frm` = `from`.
    Answers the offset of the closing `]` (`to`); `sp` is then `to + 1`. -/
def clsScan (pat : Bytes) (frm : Nat) (i : Nat) : R Nat :=
  match h : pat[i]? with
  | none => .oob
  | some ch =>
    if ch = 0 then .fail                                  -- premature end of character class
    else if ch = 93 ∧ i ≠ frm then .ok i                  -- `]` that is not the first character
    else if ch = 92 then                                  -- `\`: ch = *sp++
      match pat[i + 1]? with
      | none => .oob
      | some c2 =>
        if c2 = 0 then .fail
        else
          -- CHARACTER: `*sp == '-' && sp[1] != ']'`
          match pat[i + 2]? with
          | none => .oob
          | some d =>
            if d = 45 then
              match pat[i + 3]? with
              | none => .oob
              | some hi => if hi ≠ 93 then (if hi < c2 then .fail else clsScan pat frm (i + 4)) else clsScan pat frm (i + 2)
            else clsScan pat frm (i + 2)
    else
      match pat[i + 1]? with
      | none => .oob
      | some d =>
        if d = 45 then
          match pat[i + 2]? with
          | none => .oob
          | some hi => if hi ≠ 93 then (if hi < ch then .fail else clsScan pat frm (i + 3)) else clsScan pat frm (i + 1)
        else clsScan pat frm (i + 1)
termination_by pat.length - i
decreasing_by
  all_goals
    have := (List.getElem?_eq_some_iff.mp h).1
    omega

/-- the digit loops of `parse_interval`: `for (v = acc; '0' <= *sp <= '9'; ++sp) v = v * 10 + (*sp - '0')` -/
def digits (pat : Bytes) (i acc : Nat) : R (Nat × Nat) :=
  match h : pat[i]? with
  | none => .oob
  | some c =>
    if 48 ≤ c ∧ c ≤ 57 then
      if acc * 10 + (c - 48) > intMax then .ub else digits pat (i + 1) (acc * 10 + (c - 48))
    else .ok (acc, i)
termination_by pat.length - i
decreasing_by
  have := (List.getElem?_eq_some_iff.mp h).1
  omega

structure Interval where
  nmin : Nat
  nmax : Option Nat
  greedy : Bool
  sp : Nat
deriving Repr

/-- tail of `parse_interval` with `sp` at the closing brace: `++sp`, then the optional `?` -/
def intervalEnd (pat : Bytes) (nmin : Nat) (nmax : Option Nat) (i : Nat) : R (Option Interval) :=
  match pat[i + 1]? with
  | none => .oob
  | some q => if q = 63 then .ok (some ⟨nmin, nmax, false, i + 2⟩) else .ok (some ⟨nmin, nmax, true, i + 1⟩)

/-- `parse_interval` with `from = pat + frm` (behind the `{`); `.ok none` = not an interval, `sp` reset -/
def interval (pat : Bytes) (frm : Nat) : R (Option Interval) :=
  match digits pat frm 0 with
  | .oob => .oob | .fuel => .fuel | .ub => .ub | .fail => .fail
  | .ok (nmin, i) =>
    match pat[i]?, pat[frm]? with
    | some c, some f =>
      if c = 44 then                                                  -- `,`
        match pat[i + 1]? with
        | none => .oob
        | some c1 =>
          if f ≠ 44 ∧ c1 = 125 then intervalEnd pat nmin none (i + 1)   -- `{n,}`
          else
            match digits pat (i + 1) 0 with
            | .oob => .oob | .fuel => .fuel | .ub => .ub | .fail => .fail
            | .ok (nmax, i2) =>
              match pat[i2 - 1]?, pat[i2]? with
              | some p, some c2 =>
                if p = 44 ∨ c2 ≠ 125 ∨ nmax < nmin then .ok none
                else intervalEnd pat nmin (some nmax) i2
              | _, _ => .oob
      else if f ≠ 125 ∧ c = 125 then intervalEnd pat nmin (some nmin) i   -- `{n}`
      else .ok none
    | _, _ => .oob

/-- what one iteration of the `for (;;) switch (*sp++)` of `parse_context` does before it touches
    the node stack -/
inductive Step where
  | oob | ub | fail
  | atom (n : Node) (sp : Nat)                                   -- push a leaf
  | quant (nmin : Nat) (nmax : Option Nat) (greedy : Bool) (sp : Nat)   -- push a quantifier around `consume()`
  | bar (sp : Nat)
  | opn (sp : Nat)
  | close (sp : Nat)
  | eos (sp : Nat)
deriving Repr

/-- the `QUANTIFIER(ch, min, max)` macro behind the `stack == bottom` test -/
def quantStep (pat : Bytes) (sp : Nat) (nmin : Nat) (nmax : Option Nat) : Step :=
  match pat[sp + 1]? with
  | none => .oob
  | some q => if q = 63 then .quant nmin nmax false (sp + 2) else .quant nmin nmax true (sp + 1)

def lexStep (pat : Bytes) (sp : Nat) (empty : Bool) : Step :=
  match pat[sp]? with
  | none => .oob
  | some ch =>
    if ch = 0 then .eos (sp + 1)
    else if ch = 92 then                       -- `\`
      match pat[sp + 1]? with
      | none => .oob
      | some c2 => if c2 = 0 then .fail else .atom (.chr c2) (sp + 2)
    else if ch = 46 then .atom .any (sp + 1)
    else if ch = 91 then                       -- `[`
      match pat[sp + 1]? with
      | none => .oob
      | some c1 =>
        let neg := decide (c1 = 94)
        let frm := if c1 = 94 then sp + 2 else sp + 1
        match clsScan pat frm frm with
        | .ok to => .atom (.cls neg frm to) (to + 1)
        | .oob => .oob | .fuel => .oob | .ub => .ub | .fail => .fail
    else if ch = 124 then .bar (sp + 1)
    else if ch = 63 then (if empty then .atom (.chr ch) (sp + 1) else quantStep pat sp 0 (some 1))
    else if ch = 42 then (if empty then .atom (.chr ch) (sp + 1) else quantStep pat sp 0 none)
    else if ch = 43 then (if empty then .atom (.chr ch) (sp + 1) else quantStep pat sp 1 none)
    else if ch = 123 then                      -- `{`
      if empty then .atom (.chr ch) (sp + 1)
      else
        match interval pat (sp + 1) with
        | .ok none => .atom (.chr ch) (sp + 1)
        | .ok (some iv) => .quant iv.nmin iv.nmax iv.greedy iv.sp
        | .oob => .oob | .fuel => .oob | .ub => .ub | .fail => .fail
    else if ch = 94 then .atom .abegin (sp + 1)
    else if ch = 36 then .atom .aend (sp + 1)
    else if ch = 40 then .opn (sp + 1)
    else if ch = 41 then .close (sp + 1)
    else .atom (.chr ch) (sp + 1)

/-- the `while (stack - 1 > bottom)` loop of `concatenate`: `acc` is the top of the stack -/
def concatFold (cap : Nat) : Nat → Node → List Node → Option (Nat × Node)
  | used, acc, [] => some (used, acc)
  | used, acc, l :: rest =>
    match push cap used with
    | none => none
    | some used => concatFold cap used (.cat l acc) rest

/-- `concatenate(context, bottom)` on the part of the stack above `bottom` (top first) -/
def concat (cap used : Nat) (stk : List Node) : Option (Nat × Node) :=
  match stk with
  | [] => (push cap used).map (·, .eps)
  | top :: rest => concatFold cap used top rest

/-- the four outcomes of the `|` case once both sides are parsed -/
def merge (cap used : Nat) (left right : Node) : Option (Nat × Node) :=
  if left.isEps && right.isEps then some (used - 1, left)                                  -- drop
  else if left.isEps then (push cap (used - 1)).map (·, .quant 0 (some 1) true right)      -- consume, drop, push
  else if right.isEps then (push cap (used - 1)).map (·, .quant 0 (some 1) true left)      -- drop, consume, push
  else (push cap used).map (·, .alt left right)                                            -- consume, consume, push

/-- `parse_context(context, depth)`; `stk` = the nodes above `bottom`, top first; result = `sp`,
    cells in use and the one node the call leaves above `bottom`. -/
def pctx (pat : Bytes) (cap : Nat) : Nat → Nat → Nat → Nat → List Node → R (Nat × Nat × Node)
  | 0, _, _, _, _ => .fuel
  | fuel + 1, depth, sp, used, stk =>
    match lexStep pat sp stk.isEmpty with
    | .oob => .oob
    | .ub => .ub
    | .fail => .fail
    | .atom n sp' =>
      match push cap used with
      | none => .oob
      | some used => pctx pat cap fuel depth sp' used (n :: stk)
    | .quant nmin nmax greedy sp' =>
      match stk with
      | [] => .oob                                  -- consume() below `bottom`
      | q :: rest =>
        match push cap used with
        | none => .oob
        | some used => pctx pat cap fuel depth sp' used (.quant nmin nmax greedy q :: rest)
    | .opn sp' =>
      match pctx pat cap fuel (depth + 1) sp' used [] with
      | .ok (sp2, used2, node) =>
        match push cap used2 with
        | none => .oob
        | some used3 => pctx pat cap fuel depth sp2 used3 (.cap node :: stk)
      | e => e
    | .close sp' =>
      if depth > 0 then
        match concat cap used stk with
        | none => .oob
        | some (used, node) => .ok (sp', used, node)
      else .fail                                    -- unmatched close parenthesis
    | .eos sp' =>
      if depth = 0 then
        match concat cap used stk with
        | none => .oob
        | some (used, node) => .ok (sp', used, node)
      else .fail                                    -- unmatched open parenthesis
    | .bar sp' =>
      match concat cap used stk with
      | none => .oob
      | some (used1, left) =>
        match pctx pat cap fuel depth sp' used1 [] with
        | .ok (sp2, used2, right) =>
          match merge cap used2 left right with
          | none => .oob
          | some (used3, node) => .ok (sp2, used3, node)
        | e => e

/-- `cregex_parse(pattern)`: `estimate_nodes`, the buffer, `parse_with_nodes` -/
def parse (pat : Bytes) : R Node :=
  match strlen pat with
  | none => .oob
  | some n =>
    if 2 * n > intMax then .ub
    else
      match pctx pat (2 * n) (pat.length + 1) 0 0 0 [] with
      | .ok (_, _, node) => .ok node
      | .oob => .oob | .fuel => .fuel | .ub => .ub | .fail => .fail

/-! ### compile.c -/

def mulc (a b : Nat) : Option Nat := if a * b ≤ intMax then some (a * b) else none
def addc (a b : Nat) : Option Nat := if a + b ≤ intMax then some (a + b) else none

/-- `count_instructions` in `int`; `none` = a product or sum leaves `int` -/
def Node.count : Node → Option Nat
  | .eps => some 0
  | .chr _ | .any | .cls _ _ _ | .abegin | .aend => some 1
  | .cat l r => do addc (← l.count) (← r.count)
  | .alt l r => do addc (← addc 2 (← l.count)) (← r.count)
  | .quant nmin nmax _ q => do
    let num ← q.count
    match nmax with
    | some m =>
      if m ≥ nmin then addc (← mulc nmin num) (← mulc (m - nmin) (num + 1))
      else addc 1 (← if nmin ≠ 0 then mulc nmin num else addc num 1)
    | none => addc 1 (← if nmin ≠ 0 then mulc nmin num else addc num 1)
  | .cap c => do addc 2 (← c.count)

/-- `node_is_anchored` -/
def Node.anchored : Node → Bool
  | .cat l _ => l.anchored
  | .alt l r => l.anchored && r.anchored
  | .quant _ _ _ q => q.anchored
  | .abegin => true
  | .cap c => c.anchored
  | _ => false

/-- `cregex_char_class_add(klass, ch)`: `klass[uch / CHAR_BIT] |= 1 << (uch % CHAR_BIT)` -/
def classAdd (bits : List Nat) (ch : Nat) : Option (List Nat) :=
  match bits[ch / 8]? with
  | none => none
  | some b => some (bits.set (ch / 8) (if (b / 2 ^ (ch % 8)) % 2 = 1 then b else b + 2 ^ (ch % 8)))

/-- `for ( ; ch <= hi; ++ch) cregex_char_class_add(klass, ch)` (`k` = iterations left) -/
def classAddRange (bits : List Nat) (ch : Nat) : Nat → Option (List Nat)
  | 0 => some bits
  | k + 1 =>
    match classAdd bits ch with
    | none => none
    | some bits => classAddRange bits (ch + 1) k

/-- `compile_char_class` from the loop head with `sp = pat + i`; no test for the terminator, no test
    for the range order: it relies on `parse_char_class` having accepted the same text -/
def clsFill (pat : Bytes) (frm : Nat) (i : Nat) (bits : List Nat) : R (List Nat) :=
  match h : pat[i]? with
  | none => .oob
  | some ch =>
    if ch = 93 ∧ i ≠ frm then .ok bits
    else if ch = 92 then
      match pat[i + 1]? with
      | none => .oob
      | some c2 =>
        match pat[i + 2]? with
        | none => .oob
        | some d =>
          if d = 45 then
            match pat[i + 3]? with
            | none => .oob
            | some hi =>
              if hi ≠ 93 then
                match classAddRange bits c2 (hi + 1 - c2) with
                | none => .oob
                | some bits => clsFill pat frm (i + 4) bits
              else
                match classAdd bits c2 with
                | none => .oob
                | some bits => clsFill pat frm (i + 2) bits
          else
            match classAdd bits c2 with
            | none => .oob
            | some bits => clsFill pat frm (i + 2) bits
    else
      match pat[i + 1]? with
      | none => .oob
      | some d =>
        if d = 45 then
          match pat[i + 2]? with
          | none => .oob
          | some hi =>
            if hi ≠ 93 then
              match classAddRange bits ch (hi + 1 - ch) with
              | none => .oob
              | some bits => clsFill pat frm (i + 3) bits
            else
              match classAdd bits ch with
              | none => .oob
              | some bits => clsFill pat frm (i + 1) bits
        else
          match classAdd bits ch with
          | none => .oob
          | some bits => clsFill pat frm (i + 1) bits
termination_by pat.length - i
decreasing_by
  all_goals
    have := (List.getElem?_eq_some_iff.mp h).1
    omega

/-- result of compiling a node: the instructions and `context->ncaptures` afterwards -/
abbrev Emit := R (List Instr × Nat)

/-- `for (i = 0; i < k; ++i) { context->ncaptures = ncaptures; last = compile_context(quantified); }`:
    `f pc` compiles the quantified node at offset `pc` with the saved capture count. Answers the
    instructions, `last` (offset of the last copy; `lastIn` if `k = 0`) and the capture count. -/
def repCopies (f : Nat → Emit) : Nat → Nat → Nat → Nat → R (List Instr × Nat × Nat)
  | 0, _, last, nc => .ok ([], last, nc)
  | k + 1, pc, _, _ =>
    match f pc with
    | .ok (a, nc1) =>
      match repCopies f k (pc + a.length) pc nc1 with
      | .ok (b, last, nc2) => .ok (a ++ b, last, nc2)
      | e => e
    | .oob => .oob | .fuel => .fuel | .ub => .ub | .fail => .fail

/-- `for (i = 0; i < nmax - nmin; ++i) { ncaptures reset; split; first = compile(quantified); second = pc; swap if lazy }` -/
def repOpts (f : Nat → Emit) (greedy : Bool) : Nat → Nat → Nat → R (List Instr × Nat)
  | 0, _, nc => .ok ([], nc)
  | k + 1, pc, _ =>
    match f (pc + 1) with
    | .ok (a, nc1) =>
      let first := pc + 1
      let second := pc + 1 + a.length
      let split := if greedy then Instr.split first second else Instr.split second first
      match repOpts f greedy k second nc1 with
      | .ok (b, nc2) => .ok (split :: a ++ b, nc2)
      | e => e
    | e => e

/-- `compile_context(context, node)` with `context->pc = instructions + pc`, `context->ncaptures = nc` -/
def comp (pat : Bytes) : Node → Nat → Nat → Emit
  | .eps, _, nc => .ok ([], nc)
  | .chr c, _, nc => .ok ([.chr c], nc)
  | .any, _, nc => .ok ([.any], nc)
  | .cls neg frm _, _, nc =>
    match clsFill pat frm frm (List.replicate 32 0) with
    | .ok bits => .ok ([.cls neg bits], nc)
    | .oob => .oob | .fuel => .fuel | .ub => .ub | .fail => .fail
  | .cat l r, pc, nc =>
    match comp pat l pc nc with
    | .ok (a, nc1) =>
      match comp pat r (pc + a.length) nc1 with
      | .ok (b, nc2) => .ok (a ++ b, nc2)
      | e => e
    | e => e
  | .alt l r, pc, nc =>
    match comp pat l (pc + 1) nc with
    | .ok (a, nc1) =>
      match comp pat r (pc + 2 + a.length) nc1 with
      | .ok (b, nc2) =>
        .ok (Instr.split (pc + 1) (pc + 2 + a.length) :: a ++ Instr.jump (pc + 2 + a.length + b.length) :: b, nc2)
      | e => e
    | e => e
  | .quant nmin nmax greedy q, pc, nc =>
    match repCopies (fun p => comp pat q p nc) nmin pc 0 nc with
    | .ok (a, last, nc1) =>
      let pc1 := pc + a.length
      match nmax with
      | some m =>
        if m > nmin then
          match repOpts (fun p => comp pat q p nc) greedy (m - nmin) pc1 nc1 with
          | .ok (b, nc2) => .ok (a ++ b, nc2)
          | e => e
        else .ok (a, nc1)
      | none =>
        if nmin = 0 then
          match comp pat q (pc1 + 1) nc1 with
          | .ok (b, nc2) =>
            let first := pc1 + 1
            let second := pc1 + 2 + b.length
            let split := if greedy then Instr.split first second else Instr.split second first
            .ok (a ++ split :: b ++ [Instr.jump pc1], nc2)
          | e => e
        else
          let split := if greedy then Instr.split last (pc1 + 1) else Instr.split (pc1 + 1) last
          .ok (a ++ [split], nc1)
    | .oob => .oob | .fuel => .fuel | .ub => .ub | .fail => .fail
  | .abegin, _, nc => .ok ([.abegin], nc)
  | .aend, _, nc => .ok ([.aend], nc)
  | .cap c, pc, nc =>
    match comp pat c (pc + 1) (nc + 1) with
    | .ok (a, nc1) => .ok (Instr.save (nc * 2) :: a ++ [Instr.save (nc * 2 + 1)], nc1)
    | e => e

/-- the tree `compile_node_with_program` compiles: capture 0 around the root, `.*?` in front unless anchored -/
def wrapRoot (root : Node) : Node :=
  if (Node.cap root).anchored then .cap root
  else .cat (.quant 0 none false .any) (.cap root)

/-- `estimate_instructions(root)` -/
def estimate (root : Node) : Option Nat := do
  addc (← addc (← addc (← root.count) (if root.anchored then 0 else 3)) 2) 1

/-- `cregex_compile_node(root)`: buffer of `estimate_instructions(root)` instructions, the program, the
    final `MATCH`; `.oob` if the emitted program is longer than the buffer -/
def compile (pat : Bytes) (root : Node) : R (List Instr) :=
  match estimate root with
  | none => .ub
  | some est =>
    match comp pat (wrapRoot root) 0 0 with
    | .ok (is, _) => if is.length + 1 ≤ est then .ok (is ++ [.mtch]) else .oob
    | .oob => .oob | .fuel => .fuel | .ub => .ub | .fail => .fail

/-- `iwre_create(pattern)`: empty patterns are refused before the parser sees them -/
def create (pat : Bytes) : R (List Instr) :=
  match pat[0]? with
  | none => .oob
  | some c =>
    if c = 0 then .fail
    else
      match parse pat with
      | .ok root => compile pat root
      | .oob => .oob | .fuel => .fuel | .ub => .ub | .fail => .fail

/-- `iwre_create` then `iwre_match` (`cregex_program_run`; `vm_estimate_threads` is `ninstructions * 2` in `int`) -/
def search (pat text : Bytes) (nmatches : Nat) : R (Option ReVm.Caps) :=
  match create pat with
  | .ok prog =>
    if prog.length * 2 > intMax then .ub
    else
      match ReVm.run prog text nmatches with
      | .ok r => .ok r
      | .oob => .oob
      | .fuel => .fuel
  | .oob => .oob | .fuel => .fuel | .ub => .ub | .fail => .fail

end IwModel.Re
