import IwModel.Model.Bytes
import IwModel.Gen.Wal
/-! # Write-ahead log: record format, pre-scan and roll-forward of `src/kv/iwal.c`

The log is a byte string.  Both loops of `iwal.c` (`_last_fix_and_reset_points` and `_rollforward_exl`)
walk it with a read pointer; here the read pointer is the *remaining* bytes `rest` together with the
absolute position `pos`, so `avail = rest.length`.  Struct sizes, field offsets and opcodes are the
regenerated `Gen.Wal.*`.  The main file is a byte string too; stores outside it (undefined behaviour in
C: the mapping ends at the file size) are reported as `Rc.fault`. -/
namespace IwModel.Wal
open IwModel IwModel.Gen.Wal

/-- little-endian value of the first `n` bytes of `bs`; bytes past the end read as 0 -/
def leN : Nat → Bytes → Nat
  | 0, _ => 0
  | n + 1, bs => bs.headD 0 + 256 * leN n bs.tail

/-- field of width `w` at offset `off` of the record starting at `bs` -/
def fld (bs : Bytes) (off w : Nat) : Nat := leN w (bs.drop off)

/-- `iwu_crc32(buf, len, 0)`: MSB-first table-driven CRC, no final xor -/
def crc32 (bs : Bytes) : Nat :=
  bs.foldl (fun crc b => ((crc * 256) % 4294967296) ^^^ crcTable.getD (((crc / 16777216) ^^^ b) % 256) 0) 0

/-- decoded record header -/
inductive Rec where
  | sep (crc len : Nat)
  | set (val off len : Nat)
  | copy (off len noff : Nat)
  | write (crc len off : Nat)
  | resize (osize nsize : Nat)
  | savepoint
  | reset
  deriving Repr, DecidableEq

/-- The record at the read pointer as both loops decode it, and the number of bytes the read pointer
advances.  `none`: unknown opcode or the bounds test of that record type fails (`WBSEP.len` and
`WBWRITE.len` are compared with the bytes that follow the header).  Savepoint and reset marks are not
bounds-checked here: the pre-scan does that itself, the replay loop does not. -/
def parse (rest : Bytes) : Option (Rec × Nat) :=
  let avail := rest.length
  let op := rest.headD 0
  if op = WOP_SEP then
    if avail < sz_WBSEP then none
    else
      let len := fld rest off_WBSEP_len w_WBSEP_len
      if len > avail - sz_WBSEP then none else some (.sep (fld rest off_WBSEP_crc w_WBSEP_crc) len, sz_WBSEP)
  else if op = WOP_SET then
    if avail < sz_WBSET then none
    else some (.set (fld rest off_WBSET_val w_WBSET_val) (fld rest off_WBSET_off w_WBSET_off)
                    (fld rest off_WBSET_len w_WBSET_len), sz_WBSET)
  else if op = WOP_COPY then
    if avail < sz_WBCOPY then none
    else some (.copy (fld rest off_WBCOPY_off w_WBCOPY_off) (fld rest off_WBCOPY_len w_WBCOPY_len)
                     (fld rest off_WBCOPY_noff w_WBCOPY_noff), sz_WBCOPY)
  else if op = WOP_WRITE then
    if avail < sz_WBWRITE then none
    else
      let len := fld rest off_WBWRITE_len w_WBWRITE_len
      if avail - sz_WBWRITE < len then none
      else some (.write (fld rest off_WBWRITE_crc w_WBWRITE_crc) len (fld rest off_WBWRITE_off w_WBWRITE_off),
                 sz_WBWRITE + len)
  else if op = WOP_RESIZE then
    if avail < sz_WBRESIZE then none
    else some (.resize (fld rest off_WBRESIZE_osize w_WBRESIZE_osize) (fld rest off_WBRESIZE_nsize w_WBRESIZE_nsize),
               sz_WBRESIZE)
  else if op = WOP_SAVEPOINT then some (.savepoint, sz_WBSAVEPOINT)
  else if op = WOP_RESET then some (.reset, sz_WBRESET)
  else none

/-- `_last_fix_and_reset_points`: position of the last savepoint and of the last reset mark met before the
first record that does not fit or is unknown. `first` is the `i == 0` test (the log must start with a separator). -/
def prescanAux : Nat → Bytes → Nat → Bool → Nat → Nat → Nat × Nat
  | 0, _, _, _, fpos, rpos => (fpos, rpos)
  | fuel + 1, rest, pos, first, fpos, rpos =>
    if rest.isEmpty then (fpos, rpos)
    else if first && rest.headD 0 != WOP_SEP then (fpos, rpos)
    else
      match parse rest with
      | none => (fpos, rpos)
      | some (r, adv) =>
        if r = .savepoint then
          if rest.length < sz_WBSAVEPOINT then (fpos, rpos)
          else prescanAux fuel (rest.drop adv) (pos + adv) false pos rpos
        else if r = .reset then
          if rest.length < sz_WBRESET then (fpos, rpos)
          else prescanAux fuel (rest.drop adv) (pos + adv) false fpos pos
        else prescanAux fuel (rest.drop adv) (pos + adv) false fpos rpos

def prescan (w : Bytes) : Nat × Nat := prescanAux w.length w 0 true 0 0

/-- the records both loops step through in a log, with their positions -/
def walkAux : Nat → Bytes → Nat → List (Nat × Rec)
  | 0, _, _ => []
  | fuel + 1, rest, pos =>
    if rest.isEmpty then []
    else match parse rest with
      | none => []
      | some (r, adv) => (pos, r) :: walkAux fuel (rest.drop adv) (pos + adv)

def walk (w : Bytes) : List (Nat × Rec) := walkAux w.length w 0

/-- executable form of `C05.SegClosed`: no separator announces a segment that reaches beyond a later savepoint record -/
def segClosedB (w : Bytes) : Bool :=
  (walk w).all fun pr =>
    match pr.2 with
    | .sep _ l => (walk w).all fun sr => !(sr.2 == Rec.savepoint) || !(decide (pr.1 < sr.1)) || decide (pr.1 + 12 + l ≤ sr.1 + 12)
    | _ => true

/-- executable form of the `hdisj` hypothesis of the checksum theorems: a segment ends before the next separator starts -/
def segDisjointB (w : Bytes) : Bool :=
  (walk w).all fun pr =>
    match pr.2 with
    | .sep _ l => (walk w).all fun sr =>
        match sr.2 with
        | .sep _ _ => !(decide (pr.1 < sr.1)) || decide (pr.1 + 12 + l ≤ sr.1)
        | _ => true
    | _ => true

/-- executable form of the hypothesis of `recover_cut_reset`: every reset mark is preceded by its separator -/
def resetAfterSepB (w : Bytes) : Bool :=
  (walk w).all fun pr =>
    match pr.2 with
    | .reset => (walk w).any fun sr => match sr.2 with | .sep _ _ => sr.1 + 12 == pr.1 | _ => false
    | _ => true

/-- the walk reaches the end of the log exactly (no undecodable tail) -/
def walkFull (w : Bytes) : Bool :=
  let rec go : Nat → Bytes → Bool
    | 0, rest => rest.isEmpty
    | fuel + 1, rest =>
      if rest.isEmpty then true
      else match parse rest with
        | none => false
        | some (_, adv) => adv ≤ rest.length && go fuel (rest.drop adv)
  go w.length w


/-! ## main file -/

def roundUp (n a : Nat) : Nat := (n + a - 1) / a * a

/-- `memmove(mm + off, data, data.length)` -/
def memWrite (m : Bytes) (off : Nat) (data : Bytes) : Option Bytes :=
  if data.length = 0 then some m
  else if off + data.length ≤ m.length then some (m.take off ++ data ++ m.drop (off + data.length))
  else none

/-- `memset(mm + off, val, len)` -/
def memSet (m : Bytes) (off len val : Nat) : Option Bytes :=
  if len = 0 then some m
  else if off + len ≤ m.length then memWrite m off (List.replicate len (val % 256))
  else none

/-- `memmove(mm + noff, mm + off, len)` -/
def memCopy (m : Bytes) (off len noff : Nat) : Option Bytes :=
  if len = 0 then some m
  else if off + len ≤ m.length then memWrite m noff ((m.drop off).take len)
  else none

/-- `extf->truncate_unsafe(extf, nsize)` without a listener: round up to the page size, grow with zeros or cut;
`none` = beyond `maxoff` -/
def resize (maxoff : Nat) (m : Bytes) (nsize : Nat) : Option Bytes :=
  let n := roundUp nsize PAGE_SIZE
  if n = m.length then some m
  else if m.length < n then
    if maxoff ≠ 0 ∧ n > maxoff then none else some (m ++ List.replicate (n - m.length) 0)
  else some (m.take n)

inductive Rc where
  | ok | corrupted | fault | ioerr
  deriving Repr, DecidableEq

structure Cfg where
  crcOn : Bool
  crc : Bytes → Nat
  maxoff : Nat

structure Out where
  rc : Rc
  main : Bytes

/-- The bytes after the header that a record's handler looks at (`rest` = log from the record's first byte):
the segment body a separator's checksum covers, the payload of a write. -/
def body (r : Rec) (rest : Bytes) : Bytes :=
  match r with
  | .sep _ len => (rest.drop sz_WBSEP).take len
  | .write _ len _ => (rest.drop sz_WBWRITE).take len
  | _ => []

/-- Effect of one decoded record with body `b` on the main file: the body of the `switch` in
`_rollforward_exl` except the savepoint/stop logic. -/
def applyB (cfg : Cfg) (r : Rec) (b : Bytes) (m : Bytes) : Rc × Bytes :=
  match r with
  | .sep crc _ =>
    if cfg.crcOn && crc != 0 && cfg.crc b != crc then (.corrupted, m) else (.ok, m)
  | .set val off len =>
    match memSet m off len val with
    | some m' => (.ok, m')
    | none => (.fault, m)
  | .copy off len noff =>
    match memCopy m off len noff with
    | some m' => (.ok, m')
    | none => (.fault, m)
  | .write crc _ off =>
    if cfg.crcOn && crc != 0 && cfg.crc b != crc then (.corrupted, m)
    else match memWrite m off b with
      | some m' => (.ok, m')
      | none => (.fault, m)
  | .resize _ nsize =>
    match resize cfg.maxoff m nsize with
    | some m' => (.ok, m')
    | none => (.ioerr, m)
  | .savepoint => (.ok, m)
  | .reset => (.ok, m)

def apply (cfg : Cfg) (r : Rec) (rest : Bytes) (m : Bytes) : Rc × Bytes := applyB cfg r (body r rest) m

/-- The main loop of `_rollforward_exl`.  `stop` is `fpos` as the C code holds it, `pos` is `rp - wmm`. -/
def replayAux (cfg : Cfg) (stop : Nat) : Nat → Bytes → Nat → Bool → Bytes → Out
  | 0, _, _, _, m => ⟨.ok, m⟩
  | fuel + 1, rest, pos, first, m =>
    if rest.isEmpty then ⟨.ok, m⟩
    else if first && rest.headD 0 != WOP_SEP then ⟨.corrupted, m⟩
    else
      match parse rest with
      | none => ⟨.corrupted, m⟩
      | some (r, adv) =>
        if r = .savepoint ∧ stop = pos then ⟨.ok, m⟩
        else
          let (rc, m') := apply cfg r rest m
          if rc = .ok then replayAux cfg stop fuel (rest.drop adv) (pos + adv) false m'
          else ⟨rc, m'⟩

def replay (cfg : Cfg) (stop : Nat) (w : Bytes) (m : Bytes) : Out := replayAux cfg stop w.length w 0 true m

/-- `_rollforward_exl(wal, extf, recover_mode)` on log `w` and main file `m`; `rfo` is `wal->rollforward_offset`
(used when `mode = 0`, i.e. at a checkpoint).  After skipping to the last reset mark both the read position
and the stop position are offsets from the separator of that mark. -/
def rollforward (cfg : Cfg) (mode rfo : Nat) (w m : Bytes) : Out :=
  if w.isEmpty then ⟨.ok, m⟩
  else if mode ≠ 0 then
    let (fpos, rpos) := prescan w
    if fpos = 0 then ⟨.ok, m⟩
    else if rpos > 0 ∧ mode = 1 then
      if fpos < rpos then ⟨.ok, m⟩
      else
        let sh := rpos - sz_WBSEP
        replay cfg (fpos - sh) (w.drop sh) m
    else replay cfg fpos w m
  else if rfo > 0 then
    if rfo ≥ w.length then ⟨.corrupted, m⟩ else replay cfg 0 (w.drop rfo) m
  else replay cfg 0 w m

/-- Recovery at open (`_recover_wl`): result code, main file, and the log file afterwards
(truncated on success, left alone on failure). -/
def recover (cfg : Cfg) (mode : Nat) (w m : Bytes) : Rc × Bytes × Bytes :=
  let o := rollforward cfg mode 0 w m
  (o.rc, o.main, if o.rc = .ok then [] else w)

end IwModel.Wal
