import IwModel.Model.Wal
/-! # Write-ahead log: the writer side of `src/kv/iwal.c`

`_write_wl`, `_flush_wl`, the data listener (`_onset/_oncopy/_onwrite/_onresize/_onsynced`), `_savepoint_exl`,
`_checkpoint_exl`, `_truncate_wl` as total functions on a state that separates what the kernel holds (main file,
log file: survive the death of the process) from what lives in user space (log buffer, the `MAP_PRIVATE` view of
the main file, flags: lost).  The reader side — `Wal.rollforward`, `Wal.recover` — is reused unchanged: a
checkpoint *is* `_rollforward_exl(mode 0)`, the next open *is* `_recover_wl`.

Not modelled: locks, the checkpoint thread (its two actions are the steps `savepoint` and `checkpoint`), the
online-backup stages (`bkp_stage = 0` throughout: a checkpoint truncates the log, no reset marks are written). -/
namespace IwModel.WalWriter
open IwModel IwModel.Wal IwModel.Gen.Wal

/-! ## record encoders (packed structs of `iwal.h`, little-endian) -/

/-- `n` little-endian bytes of `v` (what a store of an `n`-byte unsigned integer leaves in memory) -/
def leBytes : Nat → Nat → Bytes
  | 0, _ => []
  | n + 1, v => (v % 256) :: leBytes n (v / 256)

/-- `id` and `pad[3]`: the four bytes every record starts with (designated initialisers zero the padding) -/
def opHdr (op : Nat) : Bytes := [op, 0, 0, 0]

def encSep (crc len : Nat) : Bytes := opHdr WOP_SEP ++ (leBytes 4 crc ++ leBytes 4 len)
def encSet (val off len : Nat) : Bytes := opHdr WOP_SET ++ (leBytes 4 val ++ (leBytes 8 off ++ leBytes 8 len))
def encCopy (off len noff : Nat) : Bytes := opHdr WOP_COPY ++ (leBytes 8 off ++ (leBytes 8 len ++ leBytes 8 noff))
def encWrite (crc len off : Nat) : Bytes := opHdr WOP_WRITE ++ (leBytes 4 crc ++ (leBytes 4 len ++ leBytes 8 off))
def encResize (osize nsize : Nat) : Bytes := opHdr WOP_RESIZE ++ (leBytes 8 osize ++ leBytes 8 nsize)
def encSavepoint (ts : Nat) : Bytes := opHdr WOP_SAVEPOINT ++ leBytes 8 ts
def encReset : Bytes := opHdr WOP_RESET

/-! ## state -/

/-- a system call on the log file (observability only: the order of these is what a kill can interrupt) -/
inductive Eff where
  | write (bs : Bytes)
  | fsync
  | trunc
  deriving Repr, DecidableEq

structure WCfg where
  /-- `check_cp_crc` -/
  crcOn : Bool
  crc : Bytes → Nat
  /-- `wal->bufsz` = `wal_buffer_sz - sizeof(WBSEP)` -/
  bufsz : Nat
  /-- `checkpoint_buffer_sz` -/
  ckptBufSz : Nat
  maxoff : Nat

/-- configuration of the reader that recovers what this writer wrote -/
def WCfg.rd (c : WCfg) : Cfg := { crcOn := c.crcOn, crc := c.crc, maxoff := c.maxoff }

structure St where
  /-- main file as the kernel holds it (changed by checkpoints only) -/
  main : Bytes
  /-- log file as the kernel holds it -/
  log : Bytes
  /-- length of the log file when it was last `fsync`ed: what survives a power loss -/
  fsynced : Nat
  /-- `wal->buf[0 .. bufpos)`: volatile -/
  buf : Bytes
  /-- the main file as the process sees it through its `MAP_PRIVATE` mapping: volatile -/
  view : Bytes
  synched : Bool
  forceSp : Bool
  forceCp : Bool
  mbytes : Nat
  /-- history variable (not C state): the initial image and the view at every savepoint record written, oldest first -/
  hist : List Bytes
  /-- history variable: index in `hist` of the newest image whose savepoint record was in the file at an `fsync` of the log -/
  dur : Nat
  /-- history variable: system calls on the log file so far -/
  eff : List Eff

/-- a store with main file `m`, empty log, nothing buffered -/
def init (m : Bytes) : St :=
  { main := m, log := [], fsynced := 0, buf := [], view := m, synched := true, forceSp := false, forceCp := false,
    mbytes := 0, hist := [m], dur := 0, eff := [] }

/-! ## `_flush_wl`, `_write_wl` -/

/-- `_flush_wl(wal, false)`: a non-empty buffer becomes one segment `WBSEP{crc, len = bufpos} ++ buf`, written with one `write` -/
def flush (c : WCfg) (s : St) : St :=
  if s.buf.isEmpty then s
  else
    let seg := encSep (if c.crcOn then c.crc s.buf else 0) s.buf.length ++ s.buf
    { s with log := s.log ++ seg, buf := [], eff := s.eff ++ [.write seg] }

/-- `iwp_fsync(wal->fh)` -/
def fsyncLog (s : St) : St :=
  { s with fsynced := s.log.length, dur := s.hist.length - 1, eff := s.eff ++ [.fsync] }

/-- second half of `_write_wl`: the header goes into the buffer (there is room); the payload follows it there if it
fits, otherwise the buffer is flushed — the header is then the last record of its segment — and the payload is
written to the file directly, *outside* any segment -/
def place (c : WCfg) (s : St) (op data : Bytes) : St :=
  let s1 := { s with buf := s.buf ++ op }
  if c.bufsz - s1.buf.length < data.length then
    let s2 := flush c s1
    { s2 with log := s2.log ++ data, eff := s2.eff ++ [.write data] }
  else { s1 with buf := s1.buf ++ data }

/-- `_write_wl(wal, op, oplen, data, len)` -/
def writeWl (c : WCfg) (s : St) (op data : Bytes) : St :=
  let s0 := { s with synched := false }
  place c (if c.bufsz - s0.buf.length < op.length then flush c s0 else s0) op data

/-! ## data listener -/

/-- `_onset` -/
def logSet (c : WCfg) (s : St) (off val len : Nat) : St :=
  let s1 := writeWl c { s with mbytes := s.mbytes + len } (encSet val off len) []
  { s1 with view := (memSet s.view off len val).getD s.view }

/-- `_oncopy` -/
def logCopy (c : WCfg) (s : St) (off len noff : Nat) : St :=
  let s1 := writeWl c { s with mbytes := s.mbytes + len } (encCopy off len noff) []
  { s1 with view := (memCopy s.view off len noff).getD s.view }

/-- `_onwrite` -/
def logWrite (c : WCfg) (s : St) (off : Nat) (data : Bytes) : St :=
  let s1 := writeWl c { s with mbytes := s.mbytes + data.length }
    (encWrite (if c.crcOn then c.crc data else 0) data.length off) data
  { s1 with view := (memWrite s.view off data).getD s.view }

/-- the record `_onresize` appends (the checkpoint it then forces is `onResize`) -/
def logResize (c : WCfg) (s : St) (osize nsize : Nat) : St :=
  let s1 := writeWl c s (encResize osize nsize) []
  { s1 with view := (resize c.maxoff s.view nsize).getD s.view }

/-- `_onsynced` / `iwal_sync`: `_flush_wl(wal, true)` -/
def syncLog (c : WCfg) (s : St) : St := fsyncLog (flush c s)

/-! ## savepoint, checkpoint -/

/-- `_truncate_wl` -/
def truncateLog (s : St) : St := { s with log := [], fsynced := 0, eff := s.eff ++ [.trunc, .fsync] }

/-- the savepoint record is appended (`_write_wl`) and the buffer flushed at once (`_flush_wl`), so the record is the
last one of its segment; the history variable notes the image the record stands for -/
def putSavepoint (c : WCfg) (s : St) (ts : Nat) : St :=
  let t := writeWl c s (encSavepoint ts) []
  flush c { t with hist := t.hist ++ [t.view] }

/-- `_savepoint_exl(wal, _, sync)` -/
def savepoint (c : WCfg) (s : St) (ts : Nat) (sync : Bool) : St :=
  let s2 := putSavepoint c { s with forceSp := false } ts
  if sync then { fsyncLog s2 with synched := true } else s2

/-- first half of `_checkpoint_exl(wal, _, no_fixpoint)`: optional savepoint record, `_flush_wl(wal, true)`.
The state in which `_rollforward_exl` starts to store the log's records into the main file. -/
def ckptPrepare (c : WCfg) (s : St) (noFix : Bool) (ts : Nat) : St :=
  fsyncLog (if noFix then flush c s else putSavepoint c { s with forceCp := false, forceSp := false } ts)

/-- second half with `bkp_stage = 0`: `_rollforward_exl(wal, extf, 0)` — the whole log rolled forward over the main
file, then `_truncate_wl` (an empty log returns early) — and the flags.  A failing roll-forward leaves the log alone (`fatalrc`). -/
def ckptFinish (c : WCfg) (s2 : St) : St :=
  let o := rollforward c.rd 0 0 s2.log s2.main
  let s3 := if o.rc = .ok then (if s2.log.isEmpty then { s2 with main := o.main } else truncateLog { s2 with main := o.main })
            else { s2 with main := o.main }
  { s3 with mbytes := 0, synched := true }

/-- `_checkpoint_exl(wal, _, no_fixpoint)` -/
def checkpoint (c : WCfg) (s : St) (noFix : Bool) (ts : Nat) : St := ckptFinish c (ckptPrepare c s noFix ts)

/-- `_onresize` (not applying): the resize record, then a checkpoint **without** a savepoint -/
def onResize (c : WCfg) (s : St) (osize nsize : Nat) : St := checkpoint c (logResize c s osize nsize) true 0

/-- `_need_checkpoint` -/
def needCheckpoint (c : WCfg) (s : St) : Bool := s.forceCp || decide (s.mbytes ≥ c.ckptBufSz)

/-- `iwal_poke_savepoint` (what `_iwkv_sync` calls): only schedules -/
def pokeSavepoint (s : St) : St := { s with forceSp := true }

/-- `iwal_poke_checkpoint(force)`; the result tells whether the checkpoint thread is woken -/
def pokeCheckpoint (c : WCfg) (s : St) (force : Bool) : St × Bool :=
  if !(force || needCheckpoint c s) then (s, false)
  else if s.forceCp then (s, false)
  else if force then ({ s with forceCp := true }, true)
  else (s, true)

/-! ## steps and traces -/

inductive Step where
  | set (off val len : Nat)
  | copy (off len noff : Nat)
  | write (off : Nat) (data : Bytes)
  /-- the whole of `_onresize`: record + forced checkpoint -/
  | resize (osize nsize : Nat)
  | sync
  | flush
  | savepoint (ts : Nat) (sync : Bool)
  | checkpoint (ts : Nat)
  deriving Repr

def step (c : WCfg) (s : St) : Step → St
  | .set off val len => logSet c s off val len
  | .copy off len noff => logCopy c s off len noff
  | .write off data => logWrite c s off data
  | .resize o n => onResize c s o n
  | .sync => syncLog c s
  | .flush => flush c s
  | .savepoint ts sy => savepoint c s ts sy
  | .checkpoint ts => checkpoint c s false ts

def run (c : WCfg) (s : St) (tr : List Step) : St := tr.foldl (step c) s

/-- what the C types and the exfile layer guarantee about a listener event in state `s`: fields fit their C types,
the store lies inside the file as the process sees it, a resize is one the file layer accepts -/
def Valid (c : WCfg) (s : St) : Step → Prop
  | .set off val len => val < 2 ^ 32 ∧ off < 2 ^ 64 ∧ len < 2 ^ 64 ∧ (len = 0 ∨ off + len ≤ s.view.length)
  | .copy off len noff => off < 2 ^ 64 ∧ len < 2 ^ 64 ∧ noff < 2 ^ 64 ∧
      (len = 0 ∨ (off + len ≤ s.view.length ∧ noff + len ≤ s.view.length))
  | .write off data => off < 2 ^ 64 ∧ data.length < 2 ^ 32 ∧ (data.length = 0 ∨ off + data.length ≤ s.view.length)
  | .resize o n => o < 2 ^ 64 ∧ n < 2 ^ 64 ∧ (resize c.maxoff s.view n).isSome
  | _ => True

instance (c : WCfg) (s : St) (e : Step) : Decidable (Valid c s e) := by
  cases e <;> unfold Valid <;> infer_instance

/-- every step of the trace is valid in the state it is taken in -/
def ValidTrace (c : WCfg) : St → List Step → Prop
  | _, [] => True
  | s, e :: t => Valid c s e ∧ ValidTrace c (step c s e) t

/-! ## death and reopening -/

/-- process death: the kernel's files survive, user space is gone -/
def kill (s : St) : Bytes × Bytes := (s.main, s.log)

/-- power loss (or death inside a `write`): the log keeps at least what was `fsync`ed, at most what was written -/
def killCut (s : St) (n : Nat) : Bytes × Bytes := (s.main, s.log.take n)

/-- death while a checkpoint has stored `j` records of the log into the main file (`replayAux` with fuel `j`):
the log is still complete -/
def killApplying (c : WCfg) (s : St) (j : Nat) : Bytes × Bytes := ((replayAux c.rd 0 j s.log 0 true s.main).main, s.log)

/-- the next `iwkv_open`: `_recover_wl` on the surviving pair (main file, log) -/
def recover (c : WCfg) (d : Bytes × Bytes) : Rc × Bytes × Bytes := Wal.recover c.rd 1 d.2 d.1

end IwModel.WalWriter
