import IwModel.Gen.Fsm
/-! Block allocator of `src/fs/iwfsmfile.c` (free-space bitmap + search index + last-free-block cache).

The model mirrors the code function by function (names in the doc comments).  Addresses inside the
model are block numbers unless a name ends in `B` (bytes).  The index (an AVL tree keyed by
(length, offset)) is an ordered list; `iwavl_lookup_bounds` is `lowerB`/`upperB` on that list.
The over-allocation heuristic and the variance update use `double` arithmetic in C; here they are a
parameter (`Heur`) — the driver instantiates it with `Float`, the theorems hold for every choice.

The code modelled is /repo plus the `fix:` commits listed in findings/C10.json, findings/C11.json
(stale last-free-block cache, strict-mode release check before clearing, zero-length release). -/
namespace IwModel.Fsm
open IwModel.Gen.Fsm

/-- a free extent / index key: (offset, length) in blocks -/
abbrev Ext := Nat × Nat

/-- `_fsm_cmp_key`: order by length, then offset -/
def KeyLt (a b : Ext) : Prop := a.2 < b.2 ∨ (a.2 = b.2 ∧ a.1 < b.1)
instance : DecidableRel KeyLt := fun a b => by unfold KeyLt; exact inferInstance

/-- `iwavl_insert` on the ordered set (an existing equal key is kept) -/
def ins (x : Ext) : List Ext → List Ext
  | [] => [x]
  | y :: ys => if x = y then y :: ys else if KeyLt x y then x :: y :: ys else y :: ins x ys

/-- `iwavl_lookup_bounds`, lower bound: the greatest element `≤ k` -/
def lowerB (k : Ext) : List Ext → Option Ext
  | [] => none
  | y :: ys =>
    if KeyLt k y then none
    else match lowerB k ys with
      | some z => some z
      | none => some y

/-- `iwavl_lookup_bounds`, upper bound: the least element `≥ k` -/
def upperB (k : Ext) : List Ext → Option Ext
  | [] => none
  | y :: ys => if KeyLt y k then upperB k ys else some y

/-- `_fsm_find_matching_fblock_lw`: exact length near the hint, else the smallest longer extent -/
def findMatching (t : List Ext) (hint len : Nat) : Option Ext :=
  let lb := lowerB (hint, len) t
  let ub := upperB (hint, len) t
  let ll := match lb with | some x => x.2 | none => 0
  let ul := match ub with | some x => x.2 | none => 0
  if ll = len then lb else if ul = len then ub
  else if ll > len then lb else if ul > len then ub else none

/-! ## bitmap -/

abbrev Bits := Array Bool

/-- bit `i` of the bitmap, `true` = allocated; everything past the end counts as allocated -/
def bit (b : Bits) (i : Nat) : Bool := b.getD i true

/-- effect of `_fsm_set_bit_status_lw` on the bitmap -/
def setRange (b : Bits) (off : Nat) : Nat → Bool → Bits
  | 0, _ => b
  | n + 1, v => setRange (b.setIfInBounds (off + n) v) off n v

/-- all bits of `[off, off+n)` equal `v` (the FSM_BM_STRICT test) -/
def allEq (b : Bits) (off : Nat) : Nat → Bool → Bool
  | 0, _ => true
  | n + 1, v => if bit b (off + n) = v then allEq b off n v else false

/-- naive `_fsm_find_prev_set_bit`: the greatest set bit in `[lo, hi)` -/
def prevSet (b : Bits) (lo : Nat) : Nat → Option Nat
  | 0 => none
  | i + 1 => if i < lo then none else if bit b i then some i else prevSet b lo i

def nextSetAux (b : Bits) (lim : Nat) : Nat → Nat → Option Nat
  | 0, _ => none
  | f + 1, i => if lim ≤ i then none else if bit b i then some i else nextSetAux b lim f (i + 1)

/-- naive `_fsm_find_next_set_bit`: the least set bit in `[i, lim)` -/
def nextSet (b : Bits) (i lim : Nat) : Option Nat := nextSetAux b lim (lim - i) i

/-- maximal runs of clear bits, by increasing offset (accumulator is reversed); `i` is the next bit to look at,
    `cur = some st`: a run that started at `st` is open. The fuel is the number of bits left. -/
def runsAux (b : Bits) : Nat → Nat → Option Nat → List Ext → List Ext
  | 0, i, some st, acc => ((st, i - st) :: acc).reverse
  | 0, _, none, acc => acc.reverse
  | f + 1, i, cur, acc =>
    if bit b i then
      match cur with
      | some st => runsAux b f (i + 1) none ((st, i - st) :: acc)
      | none => runsAux b f (i + 1) none acc
    else
      match cur with
      | some st => runsAux b f (i + 1) (some st) acc
      | none => runsAux b f (i + 1) (some i) acc

/-- what `_fsm_load_fsm_lw` extracts from a bitmap -/
def runs (b : Bits) : List Ext := runsAux b b.size 0 none []

/-! ## state -/

structure Stats where
  num : Nat := 0
  sum : Nat := 0
  var : Nat := 0
deriving Repr, DecidableEq, Inhabited

/-- the two places where the C code computes in `double` -/
structure Heur where
  /-- attach the remainder `rest` of the chosen extent to the allocation? -/
  over : Stats → Nat → Bool
  /-- increment of `crzvar` after `num`/`sum` were updated for an allocation of `len` blocks -/
  varInc : Stats → Nat → Nat

inductive Rc
  | ok | noFree | notAligned | segm | invalidArgs | outOfBounds | overflow | maxOff | loop
deriving DecidableEq, Repr, Inhabited

def Rc.name : Rc → String
  | .ok => "0" | .noFree => "NO_FREE_SPACE" | .notAligned => "RANGE_NOT_ALIGNED" | .segm => "FSM_SEGMENTATION"
  | .invalidArgs => "INVALID_ARGS" | .outOfBounds => "OUT_OF_BOUNDS" | .overflow => "OVERFLOW"
  | .maxOff => "MAXOFF" | .loop => "LOOP"

structure St where
  bpow : Nat
  /-- page size in bytes (`iwp_alloc_unit`, also the page size of the underlying file) -/
  aunit : Nat
  hdrlen : Nat := 0      -- bytes
  bmoff : Nat := 0       -- bytes
  bmlen : Nat := 0       -- bytes
  bits : Bits := #[]
  tree : List Ext := []
  lfoff : Nat := 0
  lflen : Nat := 0
  fsize : Nat := 0       -- bytes
  stats : Stats := {}
  /-- the statistics as last written to the file header (`_fsm_write_meta_lw`) -/
  saved : Stats := {}
  strict : Bool := false
deriving Inhabited

def bsz (s : St) : Nat := 2 ^ s.bpow
/-- `aunit >> bpow` -/
def aunitBlk (s : St) : Nat := s.aunit / bsz s
def nbits (s : St) : Nat := s.bmlen * 8
/-- `IW_ROUNDUP` (for a power of two `v`) -/
def roundup (x v : Nat) : Nat := (x + v - 1) / v * v
def hdrBlk (s : St) : Nat := s.hdrlen / bsz s
def bmOffBlk (s : St) : Nat := s.bmoff / bsz s
def bmLenBlk (s : St) : Nat := s.bmlen / bsz s

/-- `IW_RANGES_OVERLAP` -/
def rangesOverlap (s1 e1 s2 e2 : Nat) : Bool :=
  (e1 > s2 && e1 ≤ e2) || (s1 ≥ s2 && s1 < e2) || (s1 ≤ s2 && e1 ≥ e2)

/-- `_exfile_ensure_size_lw` with the default resize policy -/
def ensureSize (s : St) (sz : Nat) : St :=
  if s.fsize ≥ sz then s else { s with fsize := roundup sz s.aunit }

/-- `_exfile_truncate_lw` -/
def truncate (s : St) (sz : Nat) : St := { s with fsize := roundup sz s.aunit }

/-- `_fsm_put_fbk` -/
def putFbk (s : St) (off len : Nat) : St :=
  if (off, len) ∈ s.tree then s
  else if off + len ≥ s.lfoff + s.lflen then
    { s with tree := ins (off, len) s.tree, lfoff := off, lflen := len }
  else { s with tree := ins (off, len) s.tree }

/-- `_fsm_del_fbk2` -/
def delFbk2 (s : St) (off len : Nat) : St :=
  if off = s.lfoff then { s with tree := s.tree.erase (off, len), lfoff := 0, lflen := 0 }
  else { s with tree := s.tree.erase (off, len) }

/-- `_fsm_del_fbk` -/
def delFbk (s : St) (off len : Nat) : St :=
  if (off, len) ∈ s.tree then delFbk2 s off len else s

/-- `_fsm_set_bit_status_lw` (not the dry run) -/
def setBits (s : St) (off len : Nat) (v : Bool) : St × Rc :=
  if nbits s < off + len then (s, .segm)
  else
    let bad := s.strict && !(allEq s.bits off len (!v))
    ({ s with bits := setRange s.bits off len v }, if bad then .segm else .ok)

/-- `_fsm_set_bit_status_lw` with FSM_BM_DRY_RUN | FSM_BM_STRICT: are all bits of the range equal to `cur`? -/
def checkBits (s : St) (off len : Nat) (cur : Bool) : Rc :=
  if nbits s < off + len then .segm
  else if allEq s.bits off len cur then .ok else .segm

/-- `_fsm_load_fsm_lw` (with the cache reset of the F1 fix) -/
def loadTree (s : St) : St :=
  (runs s.bits).foldl (fun s r => putFbk s r.1 r.2) { s with tree := [], lfoff := 0, lflen := 0 }

/-! ## release -/

/-- right-hand neighbour search of `_fsm_blk_deallocate_lw` (fixed version): the first set bit at or
    after `e`; the cached last free extent is used as a shortcut when it starts at `e` and as a search
    bound only when it lies to the right of `e`; a free tail ends at the end of the bitmap -/
def rightBound (s : St) (lfoff lflen e : Nat) : Option Nat :=
  if lfoff ≠ 0 ∧ lfoff = e then some (lfoff + lflen)
  else
    let maxoff := if lfoff > e then lfoff else nbits s
    match nextSet s.bits e maxoff with
    | some r => some r
    | none => if maxoff = nbits s ∧ e < nbits s then some (nbits s) else none

/-- left merge of `_fsm_blk_deallocate_lw`: the free extent that ends at `off` is removed from the index;
    result: state, offset and length of the extent to insert -/
def mergeLeft (s : St) (off len : Nat) : St × Nat × Nat :=
  match prevSet s.bits 0 off with
  | some l => if off > l + 1 then (delFbk s (l + 1) (off - (l + 1)), l + 1, len + (off - (l + 1))) else (s, off, len)
  | none => if off > 0 then (delFbk s 0 off, 0, len + off) else (s, off, len)

/-- right merge: the free extent `[e, r)` is removed from the index -/
def mergeRight (s : St) (e klen : Nat) : Option Nat → St × Nat
  | some r => if r > e then (delFbk s e (r - e), klen + (r - e)) else (s, klen)
  | none => (s, klen)

/-- `_fsm_blk_deallocate_lw` -/
def deallocLw (s : St) (off len : Nat) : St × Rc :=
  let lfoff := s.lfoff
  let lflen := s.lflen
  let e := off + len
  if s.strict && checkBits s off len true ≠ .ok then (s, .segm) else
  let (s, rc) := setBits s off len false
  if rc ≠ .ok then (s, rc) else
  let right := rightBound s lfoff lflen e
  let (s, koff, klen) := mergeLeft s off len
  let (s, klen) := mergeRight s e klen right
  (putFbk s koff klen, .ok)

/-! ## aligned allocation, bitmap relocation -/

/-- the fit test of `_fsm_blk_allocate_aligned_lw` -/
def fitsAligned (au maxOff len : Nat) (k : Ext) : Bool :=
  let noff := roundup k.1 au
  decide (noff ≤ maxOff) && decide (noff < k.2 + k.1) && decide (k.2 - (noff - k.1) ≥ len)

def lowerThan (k : Ext) : Option Ext → Bool
  | some b => decide (k.1 < b.1)
  | none => true

/-- the full scan: the fitting extent with the lowest offset -/
def scanLowest (au maxOff len : Nat) : List Ext → Option Ext → Option Ext
  | [], best => best
  | k :: ks, best =>
    if lowerThan k best && fitsAligned au maxOff len k then scanLowest au maxOff len ks (some k)
    else scanLowest au maxOff len ks best

/-- remove `k` from the index, put back what lies before the aligned offset and after the allocation -/
def carve (s : St) (k : Ext) (len : Nat) : St × Nat :=
  let noff := roundup k.1 (aunitBlk s)
  let s := delFbk s k.1 k.2
  let aklen := k.2 - (noff - k.1)
  let s := if noff > k.1 then putFbk s k.1 (noff - k.1) else s
  let s := if aklen > len then putFbk s (noff + len) (aklen - len) else s
  (s, noff)

/-- the extent `_fsm_blk_allocate_aligned_lw` decides to use: the best fit for `len + page` (else for `len`) when
    it can hold the aligned range, otherwise the fitting extent with the lowest offset -/
def pickAligned (s : St) (len maxOff : Nat) : Option Ext :=
  let au := aunitBlk s
  let first := match findMatching s.tree 0 (len + au) with
    | some k => some k
    | none => findMatching s.tree 0 len
  match first with
  | none => none
  | some k => if fitsAligned au maxOff len k then some k else scanLowest au maxOff len s.tree none

/-- `_fsm_blk_allocate_aligned_lw`; result: state, code, offset (length is `len`) -/
def allocAligned (s : St) (len maxOff : Nat) : St × Rc × Nat :=
  match pickAligned s len maxOff with
  | none => (s, .noFree, 0)
  | some k =>
    let (s, noff) := carve s k len
    let (s, rc) := setBits s noff len true
    (s, rc, noff)

def uint64Max : Nat := 2 ^ 64 - 1

/-- the part of `_fsm_init_lw` that builds the new bitmap: old content (or zeros) followed by zeros, the bitmap's own
    blocks set (and the header blocks on first use), index rebuilt, meta written -/
def installBitmap (s : St) (bmoffB bmlenB : Nat) : St :=
  let oldLen := s.bmlen
  let bits := if oldLen ≠ 0 then s.bits ++ Array.replicate ((bmlenB - oldLen) * 8) false
              else Array.replicate (bmlenB * 8) false
  let s := { s with bits := bits, bmoff := bmoffB, bmlen := bmlenB }
  let s := { s with bits := setRange s.bits (bmoffB / bsz s) (bmlenB / bsz s) true }
  let s := if oldLen = 0 then { s with bits := setRange s.bits 0 (hdrBlk s) true } else s
  let s := loadTree s
  { s with saved := s.stats }    -- `_fsm_write_meta_lw`

/-- `_fsm_init_lw`: install a bitmap of `bmlenB` bytes at byte offset `bmoffB`, moving the old one -/
def initLw (s : St) (bmoffB bmlenB : Nat) : St × Rc :=
  if bmlenB % bsz s ≠ 0 ∨ bmoffB % bsz s ≠ 0 ∨ bmoffB % s.aunit ≠ 0 then (s, .notAligned)
  else if bmlenB < s.bmlen then (s, .invalidArgs)
  else if bmlenB * 8 < (bmoffB + bmlenB) / bsz s + 1 then (s, .invalidArgs)
  else
    let s := ensureSize s (bmoffB + bmlenB)
    if s.bmlen ≠ 0 ∧ rangesOverlap s.bmoff (s.bmoff + s.bmlen) bmoffB (bmoffB + bmlenB) then (s, .invalidArgs)
    else
      let oldOff := s.bmoff
      let oldLen := s.bmlen
      let s := installBitmap s bmoffB bmlenB
      if oldLen ≠ 0 then deallocLw s (oldOff / bsz s) (oldLen / bsz s) else (s, .ok)

/-- `_fsm_resize_fsm_bitmap_lw` -/
def resizeBitmap (s : St) (sizeB : Nat) : St × Rc :=
  if s.bmlen ≥ sizeB then (s, .ok)
  else
    let bmlenB := roundup sizeB s.aunit
    let (s1, rc, off) := allocAligned s (bmlenB / bsz s) uint64Max
    match rc with
    | .ok => initLw s1 (off * bsz s) bmlenB
    | .noFree => initLw s1 (roundup (s.bmlen * bsz s * 8) s.aunit) bmlenB
    | rc => (s1, rc)

/-! ## allocation -/

structure Flags where
  noOver : Bool
  noExtend : Bool
  pageAligned : Bool
  noStats : Bool
  solid : Bool
deriving Repr, Inhabited

def Flags.ofNat (n : Nat) : Flags :=
  { noOver := n / IWFSM_ALLOC_NO_OVERALLOCATE % 2 = 1, noExtend := n / IWFSM_ALLOC_NO_EXTEND % 2 = 1,
    pageAligned := n / IWFSM_ALLOC_PAGE_ALIGNED % 2 = 1, noStats := n / IWFSM_ALLOC_NO_STATS % 2 = 1,
    solid := n / IWFSM_SOLID_ALLOCATED_SPACE % 2 = 1 }

/-- FSM_MAX_STATS_COUNT handling and the counters of `_fsm_blk_allocate_lw` -/
def updStats (h : Heur) (st : Stats) (len : Nat) : Stats :=
  let st := if st.num > FSM_MAX_STATS_COUNT then { num := 0, sum := 0, var := 0 } else st
  let st := { st with num := st.num + 1, sum := st.sum + len }
  { st with var := st.var + h.varInc st len }

/-- the branch of `_fsm_blk_allocate_lw` that uses the index entry `(o, l)` found for a request of `len` blocks -/
def allocFound (h : Heur) (s : St) (len : Nat) (f : Flags) (o l : Nat) : St × Rc × Nat × Nat :=
  let s := delFbk2 s o l
  let attach := decide (l > len) && !f.noOver && decide (s.stats.num ≠ 0) && h.over s.stats (l - len)
  let olen := if attach then l else len
  let s := if l > len ∧ !attach then putFbk s (o + len) (l - len) else s
  let (s, rc) := setBits s o olen true
  if rc ≠ .ok then (s, rc, o, olen) else
  let s := if f.noStats then s else { s with stats := updStats h s.stats len }
  let s := if f.solid then ensureSize s ((o + olen) * bsz s) else s
  (s, .ok, o, olen)

/-- `_fsm_blk_allocate_lw`. `fuel` bounds the number of bitmap doublings.
    Result: state, code, offset, length. -/
def allocLw (h : Heur) (s : St) (len hint : Nat) (f : Flags) : Nat → St × Rc × Nat × Nat
  | 0 => (s, .loop, 0, 0)
  | fuel + 1 =>
    if f.pageAligned then
      let (s1, rc, off) := allocAligned s len uint64Max
      match rc with
      | .noFree =>
        if f.noExtend then (s1, .noFree, 0, 0)
        else
          let (s2, rc2) := resizeBitmap s1 (s1.bmlen * 2)
          if rc2 ≠ .ok then (s2, rc2, 0, 0) else allocLw h s2 len hint f fuel
      | .ok =>
        let s1 := if f.solid then ensureSize s1 ((off + len) * bsz s1) else s1
        (s1, .ok, off, len)
      | rc => (s1, rc, off, len)
    else
      match findMatching s.tree hint len with
      | some (o, l) => allocFound h s len f o l
      | none =>
        if f.noExtend then (s, .noFree, hint, len)
        else
          let (s2, rc2) := resizeBitmap s (s.bmlen * 2)
          if rc2 ≠ .ok then (s2, rc2, hint, len) else allocLw h s2 len hint f fuel

def allocFuel : Nat := 40

/-! ## public API -/

/-- `_fsm_allocate`: byte length and byte address hint in, (code, address, length) in bytes out -/
def allocate (h : Heur) (s : St) (lenB hintB : Nat) (f : Flags) : St × Rc × Nat × Nat :=
  if lenB = 0 then (s, .invalidArgs, 0, 0)
  else
    let (s, rc, off, olen) := allocLw h s (roundup lenB (bsz s) / bsz s) (hintB / bsz s) f allocFuel
    if rc = .ok then (s, .ok, off * bsz s, olen * bsz s) else (s, rc, 0, 0)

/-- the header / bitmap guard of `_fsm_deallocate` and `_fsm_check_allocation_status` -/
def guarded (s : St) (off len : Nat) : Bool :=
  rangesOverlap off (off + len) 0 (hdrBlk s) ||
  rangesOverlap off (off + len) (bmOffBlk s) (bmOffBlk s + bmLenBlk s)

/-- `_fsm_deallocate` -/
def deallocate (s : St) (addrB lenB : Nat) : St × Rc :=
  if addrB % bsz s ≠ 0 then (s, .notAligned)
  else
    let off := addrB / bsz s
    let len := lenB / bsz s
    if len = 0 then (s, .invalidArgs)
    else if guarded s off len then (s, .segm)
    else deallocLw s off len

/-- `_fsm_reallocate`; result: state, code, address, length (bytes), and whether bytes were copied
    from the old address (`some (from, to, n)`, bytes) -/
def reallocate (h : Heur) (s : St) (nlenB addrB olenB : Nat) (f : Flags) :
    St × Rc × Nat × Nat × Option (Nat × Nat × Nat) :=
  if addrB % bsz s ≠ 0 ∨ olenB % bsz s ≠ 0 then (s, .notAligned, addrB, olenB, none)
  else
    let nlen := roundup nlenB (bsz s) / bsz s
    let olen := olenB / bsz s
    let oaddr := addrB / bsz s
    if nlen = olen then (s, .ok, addrB, olenB, none)
    else if guarded s oaddr olen then (s, .segm, addrB, olenB, none)
    else if s.strict && checkBits s oaddr olen true ≠ .ok then (s, .segm, addrB, olenB, none)
    else if nlen < olen then
      let (s, rc) := deallocLw s (oaddr + nlen) (olen - nlen)
      if rc = .ok then (s, .ok, addrB, nlen * bsz s, none) else (s, rc, addrB, olenB, none)
    else
      let (s1, rc, naddr, sp) := allocLw h s nlen oaddr f allocFuel
      if rc ≠ .ok then (s1, rc, addrB, olenB, none)
      else
        let cp := if naddr ≠ oaddr then some (addrB, naddr * bsz s, olenB) else none
        let (s2, rc2) := if olen = 0 then (s1, Rc.ok) else deallocLw s1 oaddr olen
        if rc2 ≠ .ok then (s2, rc2, addrB, olenB, cp)
        else (s2, .ok, naddr * bsz s, sp * bsz s, cp)

/-- `_fsm_check_allocation_status` -/
def checkStatus (s : St) (addrB lenB : Nat) (allocated : Bool) : Rc :=
  if addrB % bsz s ≠ 0 ∨ lenB % bsz s ≠ 0 then .notAligned
  else
    let off := addrB / bsz s
    let len := lenB / bsz s
    if guarded s off len then .segm
    else checkBits s off len allocated

/-- first half of `_fsm_trim_tail_lw`: try to move the bitmap to free space nearer to the file start -/
def trimMove (s : St) : St × Rc :=
  let (s1, rc, off) := allocAligned s (bmLenBlk s) (bmOffBlk s)
  match rc with
  | .noFree => (s1, .ok)
  | .ok =>
    if off * bsz s < s.bmoff then initLw s1 (off * bsz s) (bmLenBlk s * bsz s)
    else deallocLw s1 off (bmLenBlk s)
  | rc => (s1, rc)

/-- second half: cut the file behind the last allocated block (never before the end of the bitmap) -/
def trimCut (s : St) : St :=
  let lastblk := (s.bmoff + s.bmlen) / bsz s
  let lastblk := match prevSet s.bits lastblk (nbits s) with
    | some i => i + 1
    | none => lastblk
  if s.fsize > lastblk * bsz s then truncate s (lastblk * bsz s) else s

/-- `_fsm_trim_tail_lw` -/
def trimTail (s : St) : St × Rc :=
  let r := trimMove s
  if r.2 ≠ .ok then r else (trimCut r.1, .ok)

/-- `_fsm_init_new_lw` (after `_fsm_init_impl`): a fresh file -/
def openNew (bpow aunit hdrlenOpt bmlenOpt : Nat) (strict : Bool) : St × Rc :=
  let bpow := if bpow = 0 then FSM_DEFAULT_BPOW else bpow
  let s : St := { bpow := bpow, aunit := aunit, strict := strict }
  let hdrlen := roundup (hdrlenOpt + IWFSM_CUSTOM_HDR_DATA_OFFSET) (bsz s)
  let s := { s with hdrlen := hdrlen }
  let bmlen := if bmlenOpt > 0 then roundup bmlenOpt aunit else aunit
  initLw s (roundup hdrlen aunit) bmlen

/-- `_fsm_sync` -/
def sync (s : St) : St := { s with saved := s.stats }

/-- `_fsm_close` (trim unless IWFSM_NO_TRIM_ON_CLOSE; nothing at all is written when the index is empty)
    followed by `_fsm_init_existing_lw` -/
def reopen (s : St) (noTrim : Bool) : St × Rc :=
  if s.tree.isEmpty then (loadTree { s with stats := s.saved }, .ok)
  else
    let (s, rc) := if noTrim then (s, Rc.ok) else trimTail s
    (loadTree { s with saved := s.stats }, rc)

/-- `_fsm_clear` -/
def clear (s : St) (trim : Bool) : St × Rc :=
  if s.bmlen = 0 then (s, .ok)
  else
    let bmoff := roundup s.hdrlen s.aunit
    let bmlen := s.bmlen
    let (s, rc) := initLw { s with bmlen := 0, bmoff := 0 } bmoff bmlen
    if rc = .ok ∧ trim then trimTail s else (s, rc)

/-! ## operation histories -/

inductive Op
  | alloc (lenB hintB : Nat) (f : Flags)
  | dealloc (addrB lenB : Nat)
  | realloc (nlenB addrB olenB : Nat) (f : Flags)
  | sync
  | reopen (noTrim : Bool)
  | clear (trim : Bool)

/-- one API call -/
def apply (h : Heur) (s : St) : Op → St
  | .alloc l hint f => (allocate h s l hint f).1
  | .dealloc a l => (deallocate s a l).1
  | .realloc n a ol f => (reallocate h s n a ol f).1
  | .sync => sync s
  | .reopen nt => (reopen s nt).1
  | .clear t => (clear s t).1

end IwModel.Fsm
