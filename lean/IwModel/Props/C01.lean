import IwModel.Model.KvApi
/-! # C01 — the KV store behaves as an ordered map (theorems follow) -/
namespace IwModel.C01
end IwModel.C01
