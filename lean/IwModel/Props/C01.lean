import IwModel.Lemmas.KvApi
import IwModel.Lemmas.KvBridge
import IwModel.Lemmas.KvApiSpec
/-! # C01 — the KV store behaves as an ordered map

Property theorems only; helper lemmas live in `IwModel/Lemmas/Kv.lean`.

* the spec layer (`specGet/specPut/specDel` on a strictly descending list) is an ordered map;
* every operation of the node layer (the level-0 chain as iwkv.c maintains it: routing, add to
  upper, split at slot 17, node removal) refines the spec operation, for every drawn level, and keeps
  the node invariant — one step and whole histories;
* API layer: a `put` that does not answer `ok` leaves the store unchanged, operations on one
  database leave the others alone, effective keys unpack to what the caller passed;
* the bridge to C19 (§5): the comparator the store uses (`KvApi.gtE flags`) IS a strict total order on
  the effective keys a database can hold, in every key mode, so the refinement theorems hold for
  it with no comparator hypothesis left (`store_refines_map` and its per-mode corollaries);
* §6, the property as written: the whole `KvApi.Store` — several databases of any modes, put with
  no-overwrite / increment / put handler, get, get-into-buffer, delete, metadata, database creation and
  destruction — against the reference map `KvApiSpec.SpecStore`, call by call and for every history
  (`api_history_refines`, no hypothesis), with "errors change nothing" and "databases are independent"
  as corollaries read off the reference. -/
namespace IwModel.C01
open IwModel Kv

section
variable {K V : Type} {gt : K → K → Bool}

/-! ### 1. the spec is an ordered map -/

/-- insertion keeps the list strictly descending -/
theorem spec_put_desc (st : StrictTotal gt) {m : List (K × V)} (hd : Desc gt m) (k : K) (v : V) :
    Desc gt (specPut gt m k v) := desc_specPut st hd k v

/-- a key just stored is found with its value -/
theorem spec_get_put_self (st : StrictTotal gt) {m : List (K × V)} (hd : Desc gt m) (k : K) (v : V) :
    specGet gt (specPut gt m k v) k = some v := specGet_specPut_self st hd k v

/-- storing one key does not change what any other key maps to -/
theorem spec_get_put_other (st : StrictTotal gt) {m : List (K × V)} (hd : Desc gt m) (k : K) (v : V)
    {k' : K} (hne : k' ≠ k) : specGet gt (specPut gt m k v) k' = specGet gt m k' :=
  specGet_specPut_other st hd k v hne

/-- removal keeps the list strictly descending -/
theorem spec_del_desc (st : StrictTotal gt) {m : List (K × V)} (hd : Desc gt m) (k : K) :
    Desc gt (specDel gt m k) := desc_specDel st hd k

/-- a removed key is gone -/
theorem spec_get_del_self (st : StrictTotal gt) {m : List (K × V)} (hd : Desc gt m) (k : K) :
    specGet gt (specDel gt m k) k = none := specGet_specDel_self st hd k

/-- removing one key does not change what any other key maps to -/
theorem spec_get_del_other (st : StrictTotal gt) {m : List (K × V)} (hd : Desc gt m) (k : K)
    {k' : K} (hne : k' ≠ k) : specGet gt (specDel gt m k) k' = specGet gt m k' :=
  specGet_specDel_other st hd k hne

/-- lookup is membership: the spec list *is* the set of live records -/
theorem spec_get_iff_mem (st : StrictTotal gt) {m : List (K × V)} (hd : Desc gt m) (k : K) (v : V) :
    specGet gt m k = some v ↔ (k, v) ∈ m := specGet_eq_some_iff st hd k v

/-! ### 2. one-step refinement of the node layer -/

/-- `_lx_get_lr` on the node chain returns what the ordered map holds -/
theorem get_refines (st : StrictTotal gt) (d : Db K V) (inv : NodeInv gt d.nodes) (k : K) :
    Kv.get gt d k = specGet gt (flatten d.nodes) k := Kv.get_refines st d inv k

/-- a plain put on the node chain is `specPut` on the flattened contents, keeps the node invariant,
    answers ok and hands back the previous value — for EVERY level `lvl` the skip-list generator may
    draw (level choices never influence contents) and in every branch (add to upper, fresh node in
    front/after, split at slot 17 on either side, in-place replace). -/
theorem put_refines (st : StrictTotal gt) (d : Db K V) (inv : NodeInv gt d.nodes) (k : K) (v : V) (lvl : Nat) :
    let r := Kv.put gt d k v false lvl
    flatten r.1.nodes = specPut gt (flatten d.nodes) k v ∧ NodeInv gt r.1.nodes ∧
      r.2.1 = .ok ∧ r.2.2 = specGet gt (flatten d.nodes) k := by
  have h := put_core st d inv k v lvl _ rfl
  refine ⟨h.1, ⟨h.2.1, ?_⟩, h.2.2⟩
  rw [h.1]; exact desc_specPut st inv.2 k v

/-- put with `IWKV_NO_OVERWRITE`: a present key is reported as `exists_` and the state (nodes and
    cursors) is untouched; an absent key is stored exactly as by a plain put. -/
theorem put_no_overwrite (st : StrictTotal gt) (d : Db K V) (inv : NodeInv gt d.nodes) (k : K) (v : V) (lvl : Nat) :
    let r := Kv.put gt d k v true lvl
    (∀ ov, specGet gt (flatten d.nodes) k = some ov → r = (d, .exists_, some ov)) ∧
    (specGet gt (flatten d.nodes) k = none →
      flatten r.1.nodes = specPut gt (flatten d.nodes) k v ∧ NodeInv gt r.1.nodes ∧ r.2.1 = .ok ∧ r.2.2 = none) := by
  rw [← Kv.get_refines st d inv k]
  refine ⟨fun ov h => put_noOverwrite_present d k v lvl h, fun h => ?_⟩
  rw [put_noOverwrite_absent d k v lvl h]
  have := put_refines st d inv k v lvl
  rw [← Kv.get_refines st d inv k, h] at this
  exact this

/-- `_lx_del_lw` is `specDel` on the flattened contents (also when the node loses its last record
    and is unlinked), keeps the node invariant, and reports not-found exactly when the key is absent -/
theorem del_refines (st : StrictTotal gt) (d : Db K V) (inv : NodeInv gt d.nodes) (k : K) :
    flatten (Kv.del gt d k).1.nodes = specDel gt (flatten d.nodes) k ∧ NodeInv gt (Kv.del gt d k).1.nodes ∧
      (Kv.del gt d k).2 = (specGet gt (flatten d.nodes) k).isSome := by
  have h := del_core st d inv k
  refine ⟨h.1, ⟨h.2.1, ?_⟩, h.2.2⟩
  rw [h.1]; exact desc_specDel st inv.2 k

/-! ### 3. whole histories -/

/-- Every history of put / put-no-overwrite / delete / get calls, with arbitrary level draws, started
    from the empty database: the node model reports exactly what the ordered map reports, call by
    call, and ends with exactly the map's contents (and a valid chain). -/
theorem history_refines (st : StrictTotal gt) (ops : List (Op K V)) :
    (runNode gt ⟨[], []⟩ ops).2 = (runSpec gt [] ops).2 ∧
    flatten (runNode gt ⟨[], []⟩ ops).1.nodes = (runSpec gt [] ops).1 ∧
    NodeInv gt (runNode gt ⟨[], []⟩ ops).1.nodes :=
  run_refines st ops ⟨[], []⟩ nodeInv_nil

/-- the same from any valid state, whatever cursors are open -/
theorem history_refines_from (st : StrictTotal gt) (ops : List (Op K V)) (d : Db K V) (inv : NodeInv gt d.nodes) :
    (runNode gt d ops).2 = (runSpec gt (flatten d.nodes) ops).2 ∧
    flatten (runNode gt d ops).1.nodes = (runSpec gt (flatten d.nodes) ops).1 ∧
    NodeInv gt (runNode gt d ops).1.nodes :=
  run_refines st ops d inv

end

/-! ### 4. API layer -/

/-- `iwkv_puth` that reports anything but ok — unknown database, empty key, read-only store, key of
    the wrong size or out of range, `IWKV_NO_OVERWRITE` on a present key, an increment that cannot
    be applied, a put handler that refuses — returns the store it was given, unchanged. -/
theorem put_error_preserves_state (s : KvApi.Store) (id : Nat) (key : Bytes) (comp : Nat) (val : Bytes)
    (fl lvl ph : Nat) (h : (KvApi.putR s id key comp val fl lvl ph).2.isOk = false) :
    (KvApi.putR s id key comp val fl lvl ph).1 = s := by
  rcases KvApi.putR_cases s id key comp val fl lvl ph with h1 | ⟨d, _, h2⟩
  · exact h1.1
  · rw [h] at h2; cases h2

/-- the same on the canonical result line: a line that does not begin with `put ok` means the
    store is unchanged (the line begins with `put ok` exactly for the ok outcome) -/
theorem put_line_error_preserves_state (s : KvApi.Store) (id : Nat) (key : Bytes) (comp : Nat) (val : Bytes)
    (fl lvl ph : Nat) (h : (KvApi.put s id key comp val fl lvl ph).2.toList.take 6 ≠ "put ok".toList) :
    (KvApi.put s id key comp val fl lvl ph).1 = s := by
  simp only [KvApi.put] at h ⊢
  apply put_error_preserves_state
  cases hk : (KvApi.putR s id key comp val fl lvl ph).2.isOk with
  | false => rfl
  | true => exact absurd ((KvApi.putLine_ok_iff ph _).2 hk) h

/-- a put on database `id` never changes another database `j` (contents, flags, metadata, cursors) -/
theorem put_db_frame (s : KvApi.Store) (id j : Nat) (hne : id ≠ j) (key : Bytes) (comp : Nat) (val : Bytes)
    (fl lvl ph : Nat) : KvApi.getDb (KvApi.put s id key comp val fl lvl ph).1 j = KvApi.getDb s j := by
  simp only [KvApi.put]
  rcases KvApi.putR_cases s id key comp val fl lvl ph with h1 | ⟨d, h1, _⟩
  · rw [h1.1]
  · rw [h1, KvApi.getDb_setDb_ne s id j d (Ne.symm hne)]

/-- a delete on database `id` never changes another database -/
theorem del_db_frame (s : KvApi.Store) (id j : Nat) (hne : id ≠ j) (key : Bytes) (comp : Nat) :
    KvApi.getDb (KvApi.del s id key comp).1 j = KvApi.getDb s j := by
  rcases KvApi.del_cases s id key comp with h1 | ⟨d, h1⟩
  · rw [h1]
  · rw [h1, KvApi.getDb_setDb_ne s id j d (Ne.symm hne)]

/-- setting the metadata of database `id` never changes another database -/
theorem metaSet_db_frame (s : KvApi.Store) (id j : Nat) (hne : id ≠ j) (m : Bytes) :
    KvApi.getDb (KvApi.metaSet s id m).1 j = KvApi.getDb s j := by
  rcases KvApi.metaSet_cases s id m with h1 | ⟨d, h1⟩
  · rw [h1]
  · rw [h1, KvApi.getDb_setDb_ne s id j d (Ne.symm hne)]

/-- effective-key round trip, byte-string keys (plain and real-number modes): the caller gets back the
    key bytes as passed, and the compound part iff the database has compound keys -/
theorem key_roundtrip_plain (flags : Nat) (key : Bytes) (comp : Nat) (ek : KvApi.EKey)
    (hm : KvApi.modeOf flags ≠ .vnum) (h : KvApi.toEffective flags key comp = .ok ek) :
    KvApi.unpack flags ek = (key, if KvApi.isCompound flags then comp else 0) := by
  simp only [KvApi.toEffective, hm, if_false] at h
  cases h
  simp only [KvApi.unpack, hm, if_false]

/-- effective-key round trip, integer mode, 8-byte key below 2^63: stored as a vnum, handed back as
    the same 8 little-endian bytes -/
theorem key_roundtrip_vnum8 (flags : Nat) (key : Bytes) (comp : Nat) (hm : KvApi.modeOf flags = .vnum)
    (hl : key.length = 8) (hw : Bytes.wf key) (hn : KvApi.leVal key < 2 ^ 63) :
    ∃ ek, KvApi.toEffective flags key comp = .ok ek ∧
      KvApi.unpack flags ek = (key, if KvApi.isCompound flags then comp else 0) := by
  refine ⟨_, by simp only [KvApi.toEffective, hm, hl, hn, if_true]; rfl, ?_⟩
  simp only [KvApi.unpack, hm, if_true, KvApi.decBody_enc, KvApi.leBytes_leVal8 key hl hw]

/-- integer mode, 4-byte key below 2^31: handed back widened to 8 little-endian bytes -/
theorem key_roundtrip_vnum4 (flags : Nat) (key : Bytes) (comp : Nat) (hm : KvApi.modeOf flags = .vnum)
    (hl : key.length = 4) (hw : Bytes.wf key) (hn : KvApi.leVal key < 2 ^ 31) :
    ∃ ek, KvApi.toEffective flags key comp = .ok ek ∧
      KvApi.unpack flags ek = (key ++ [0, 0, 0, 0], if KvApi.isCompound flags then comp else 0) := by
  refine ⟨_, by simp only [KvApi.toEffective, hm, hl, hn, if_true]; rfl, ?_⟩
  simp only [KvApi.unpack, hm, if_true, KvApi.decBody_enc, KvApi.leBytes_leVal4 key hl hw]

/-! ### the hypotheses are satisfiable -/

example : Kv.get (fun a b : Nat => decide (a > b)) exDb 7 = some "g" ∧
    flatten (Kv.put (fun a b : Nat => decide (a > b)) exDb 5 "e" false 3).1.nodes = [(9, "i"), (7, "g"), (5, "e"), (4, "d")] := by
  have h := put_refines natGt_strictTotal exDb exDb_inv 5 "e" 3
  refine ⟨by rw [get_refines natGt_strictTotal exDb exDb_inv]; decide, ?_⟩
  rw [h.1]; decide

/-- a store with two databases; database 1 holds key `07` -/
def exStore : KvApi.Store :=
  ⟨[(1, ⟨0, [], ⟨[⟨0, [(([7], 0), [1])]⟩], []⟩⟩), (2, ⟨0, [], ⟨[], []⟩⟩)], [], false, []⟩

example : (KvApi.putR exStore 1 [7] 0 [2] Gen.IWKV_NO_OVERWRITE 0 0).2.isOk = false ∧
    (KvApi.putR exStore 1 [7] 0 [2] 0 0 2).2.isOk = false ∧
    (KvApi.putR exStore 1 [8] 0 [2] 0 0 0).2.isOk = true := by decide

example : ∃ ek, KvApi.toEffective Gen.IWDB_VNUM64_KEYS [1, 2, 0, 0, 0, 0, 0, 0] 0 = .ok ek ∧
    KvApi.unpack Gen.IWDB_VNUM64_KEYS ek = ([1, 2, 0, 0, 0, 0, 0, 0], 0) :=
  key_roundtrip_vnum8 Gen.IWDB_VNUM64_KEYS [1, 2, 0, 0, 0, 0, 0, 0] 0 (by decide) rfl
    (by intro b hb; simp at hb; omega) (by decide)


/-! ### 5. the bridge to C19: the refinement theorems for the comparator the store uses

§1–§3 assume `StrictTotal gt`. C19 proves the order facts for `_cmp_keys` mode by mode, on the keys
that can occur (e.g. integer keys are vnum encodings of numbers below 2^63; without compound keys
the compound part is not part of the key, so it must be fixed to 0 for `=` to be key identity).
`StrictTotalOn P gt` is the predicate-relative form; `Lemmas/KvBridge.lean` moves the refinement
from the subtype `{k // P k}` (where `StrictTotal` holds) to histories over all of `EKey` whose keys
satisfy `P`, because the operations only ever compare keys. -/

/-- `history_refines` for a comparator that is a strict total order on the keys satisfying `P`
    (`StrictTotal` on the subtype): every history over such keys, with arbitrary level draws, from
    the empty database — same answers as the ordered map, same final contents, valid chain, and
    only `P`-keys stored. -/
theorem history_refines_on {K V : Type} {P : K → Prop} {gt : K → K → Bool} (st : StrictTotalOn P gt)
    (ops : List (Op K V)) (h : OpsOn P ops) :
    (runNode gt ⟨[], []⟩ ops).2 = (runSpec gt [] ops).2 ∧
    flatten (runNode gt ⟨[], []⟩ ops).1.nodes = (runSpec gt [] ops).1 ∧
    NodeInv gt (runNode gt ⟨[], []⟩ ops).1.nodes ∧ KeysOn P (flatten (runNode gt ⟨[], []⟩ ops).1.nodes) :=
  run_refines_on st ops h ⟨[], []⟩ nodeInv_nil keysOn_nil

/-- the same from any valid state holding `P`-keys, whatever cursors are open -/
theorem history_refines_on_from {K V : Type} {P : K → Prop} {gt : K → K → Bool} (st : StrictTotalOn P gt)
    (ops : List (Op K V)) (h : OpsOn P ops) (d : Db K V) (inv : NodeInv gt d.nodes)
    (hd : KeysOn P (flatten d.nodes)) :
    (runNode gt d ops).2 = (runSpec gt (flatten d.nodes) ops).2 ∧
    flatten (runNode gt d ops).1.nodes = (runSpec gt (flatten d.nodes) ops).1 ∧
    NodeInv gt (runNode gt d ops).1.nodes ∧ KeysOn P (flatten (runNode gt d ops).1.nodes) :=
  run_refines_on st ops h d inv hd

/-- C19 ⇒ hypothesis of C01/C02: for EVERY database flags word, `_cmp_keys` as the store applies it
    (`KvApi.gtE flags a b` = comparing lookup key `a` with stored key `b` is positive) is irreflexive,
    transitive and trichotomous on the valid effective keys (`KvApi.Valid flags`: compound part 0
    unless the database has compound keys; integer mode: body = vnum encoding of a number `< 2^63`;
    real-number mode with compound keys: non-empty text). Proved from `C19.plain_antisymm/_trans/
    _eq_iff/_compound_eq_iff`, `C19.vnum_total`, `C19.real_keys_total(_both)`. -/
theorem comparator_strict_total (flags : Nat) : StrictTotalOn (KvApi.Valid flags) (KvApi.gtE flags) :=
  KvApi.gtE_strictTotalOn flags

/-- the restriction to the subtype of valid keys satisfies the unrelativised `StrictTotal` -/
theorem comparator_strict_total_subtype (flags : Nat) :
    StrictTotal (pull (Subtype.val : {k // KvApi.Valid flags k} → KvApi.EKey) (KvApi.gtE flags)) :=
  (comparator_strict_total flags).lift

/-- every effective key the API computes from a non-empty caller key (`_to_effective_key`; the entry
    points reject empty keys) is valid for the database — so the histories of the theorems below
    are exactly the ones the API can produce -/
theorem api_keys_valid (flags : Nat) (key : Bytes) (comp : Nat) (ek : KvApi.EKey) (hne : key ≠ [])
    (h : KvApi.toEffective flags key comp = .ok ek) : KvApi.Valid flags ek :=
  KvApi.toEffective_valid flags key comp ek hne h

/-- END TO END, every mode at once: for every flags word and every history of put / put-no-overwrite /
    delete / get over valid effective keys, with every level choice, the node-level model started
    from the empty database returns the same answers as the ordered reference map under the
    store's own comparator, flattens to the map's contents, keeps the node invariant and holds
    valid keys only. No comparator hypothesis. -/
theorem store_refines_map (flags : Nat) (ops : List (Op KvApi.EKey Bytes)) (h : OpsOn (KvApi.Valid flags) ops) :
    (runNode (KvApi.gtE flags) ⟨[], []⟩ ops).2 = (runSpec (KvApi.gtE flags) [] ops).2 ∧
    flatten (runNode (KvApi.gtE flags) ⟨[], []⟩ ops).1.nodes = (runSpec (KvApi.gtE flags) [] ops).1 ∧
    NodeInv (KvApi.gtE flags) (runNode (KvApi.gtE flags) ⟨[], []⟩ ops).1.nodes ∧
    KeysOn (KvApi.Valid flags) (flatten (runNode (KvApi.gtE flags) ⟨[], []⟩ ops).1.nodes) :=
  history_refines_on (comparator_strict_total flags) ops h

/-- and the reference it refines is an ordered map under the store's comparator (§1 without the
    comparator hypothesis): on a descending list of valid keys, put/del of a valid key keep it
    descending and valid, a stored key is found with its value, a removed key is gone, and no
    other valid key is affected. -/
theorem store_map_laws (flags : Nat) {m : List (KvApi.EKey × Bytes)} (hd : Desc (KvApi.gtE flags) m)
    (hm : KeysOn (KvApi.Valid flags) m) (k : KvApi.EKey) (hk : KvApi.Valid flags k) (v : Bytes) :
    (Desc (KvApi.gtE flags) (specPut (KvApi.gtE flags) m k v) ∧
      KeysOn (KvApi.Valid flags) (specPut (KvApi.gtE flags) m k v) ∧
      specGet (KvApi.gtE flags) (specPut (KvApi.gtE flags) m k v) k = some v ∧
      ∀ k', KvApi.Valid flags k' → k' ≠ k →
        specGet (KvApi.gtE flags) (specPut (KvApi.gtE flags) m k v) k' = specGet (KvApi.gtE flags) m k') ∧
    (Desc (KvApi.gtE flags) (specDel (KvApi.gtE flags) m k) ∧
      KeysOn (KvApi.Valid flags) (specDel (KvApi.gtE flags) m k) ∧
      specGet (KvApi.gtE flags) (specDel (KvApi.gtE flags) m k) k = none ∧
      ∀ k', KvApi.Valid flags k' → k' ≠ k →
        specGet (KvApi.gtE flags) (specDel (KvApi.gtE flags) m k) k' = specGet (KvApi.gtE flags) m k') :=
  spec_laws_on (comparator_strict_total flags) hd hm k hk v

/-- byte-string keys, no compound part (`flags = 0`): histories over keys `(b, 0)`, `b` ANY byte
    string (no bound on length or byte values). -/
theorem plain_store_refines_map (ops : List (Op KvApi.EKey Bytes)) (h : OpsOn KvApi.PlainKey ops) :
    (runNode (KvApi.gtE 0) ⟨[], []⟩ ops).2 = (runSpec (KvApi.gtE 0) [] ops).2 ∧
    flatten (runNode (KvApi.gtE 0) ⟨[], []⟩ ops).1.nodes = (runSpec (KvApi.gtE 0) [] ops).1 ∧
    NodeInv (KvApi.gtE 0) (runNode (KvApi.gtE 0) ⟨[], []⟩ ops).1.nodes :=
  have r := store_refines_map 0 ops (KvApi.opsOn_mono KvApi.valid_plain h)
  ⟨r.1, r.2.1, r.2.2.1⟩

/-- byte-string keys with compound part (`IWDB_COMPOUND_KEYS`): EVERY history — every pair (byte
    string, natural number) is a key, nothing to assume. -/
theorem compound_store_refines_map (ops : List (Op KvApi.EKey Bytes)) :
    (runNode (KvApi.gtE Gen.IWDB_COMPOUND_KEYS) ⟨[], []⟩ ops).2 = (runSpec (KvApi.gtE Gen.IWDB_COMPOUND_KEYS) [] ops).2 ∧
    flatten (runNode (KvApi.gtE Gen.IWDB_COMPOUND_KEYS) ⟨[], []⟩ ops).1.nodes
      = (runSpec (KvApi.gtE Gen.IWDB_COMPOUND_KEYS) [] ops).1 ∧
    NodeInv (KvApi.gtE Gen.IWDB_COMPOUND_KEYS) (runNode (KvApi.gtE Gen.IWDB_COMPOUND_KEYS) ⟨[], []⟩ ops).1.nodes :=
  have r := store_refines_map Gen.IWDB_COMPOUND_KEYS ops (fun op _ => KvApi.valid_compound op.key)
  ⟨r.1, r.2.1, r.2.2.1⟩

/-- integer keys (`IWDB_VNUM64_KEYS`, with or without `IWDB_COMPOUND_KEYS`): histories over keys
    `(Vnum.enc n, c)` with `n < 2^63`; `c` any natural number in compound mode, 0 otherwise. -/
theorem vnum_store_refines_map (compound : Bool) (ops : List (Op KvApi.EKey Bytes))
    (h : OpsOn (KvApi.VnumKey compound) ops) :
    (runNode (KvApi.gtE (KvApi.vnumFlags compound)) ⟨[], []⟩ ops).2
      = (runSpec (KvApi.gtE (KvApi.vnumFlags compound)) [] ops).2 ∧
    flatten (runNode (KvApi.gtE (KvApi.vnumFlags compound)) ⟨[], []⟩ ops).1.nodes
      = (runSpec (KvApi.gtE (KvApi.vnumFlags compound)) [] ops).1 ∧
    NodeInv (KvApi.gtE (KvApi.vnumFlags compound)) (runNode (KvApi.gtE (KvApi.vnumFlags compound)) ⟨[], []⟩ ops).1.nodes :=
  have r := store_refines_map (KvApi.vnumFlags compound) ops (KvApi.opsOn_mono (KvApi.valid_vnum compound) h)
  ⟨r.1, r.2.1, r.2.2.1⟩

/-- real-number keys (`IWDB_REALNUM_KEYS`, with or without `IWDB_COMPOUND_KEYS`; `iwafcmp` with exact
    fractions, `Cmp.afcmp`): histories over keys `(text, c)`, any text (non-empty in compound mode). -/
theorem real_store_refines_map (compound : Bool) (ops : List (Op KvApi.EKey Bytes))
    (h : OpsOn (KvApi.RealKey compound) ops) :
    (runNode (KvApi.gtE (KvApi.realFlags compound)) ⟨[], []⟩ ops).2
      = (runSpec (KvApi.gtE (KvApi.realFlags compound)) [] ops).2 ∧
    flatten (runNode (KvApi.gtE (KvApi.realFlags compound)) ⟨[], []⟩ ops).1.nodes
      = (runSpec (KvApi.gtE (KvApi.realFlags compound)) [] ops).1 ∧
    NodeInv (KvApi.gtE (KvApi.realFlags compound)) (runNode (KvApi.gtE (KvApi.realFlags compound)) ⟨[], []⟩ ops).1.nodes :=
  have r := store_refines_map (KvApi.realFlags compound) ops (KvApi.opsOn_mono (KvApi.valid_real compound) h)
  ⟨r.1, r.2.1, r.2.2.1⟩

/-! ### the corollaries on concrete histories -/

/-- put `0102`, put `01`, put-no-overwrite `0102` (refused), get, delete `01`, get -/
def exOpsPlain : List (Op KvApi.EKey Bytes) :=
  [.put ([1, 2], 0) [10] 3, .put ([1], 0) [11] 0, .putNoOverwrite ([1, 2], 0) [12] 1, .get ([1, 2], 0),
   .del ([1], 0), .get ([1], 0)]

example : flatten (runNode (KvApi.gtE 0) ⟨[], []⟩ exOpsPlain).1.nodes = [(([1, 2], 0), [10])] := by
  rw [(plain_store_refines_map exOpsPlain (by simp [OpsOn, exOpsPlain, Op.key, KvApi.PlainKey])).2.1]
  decide

/-- same body, compound parts 300 and 200: two different keys, the larger compound part first -/
def exOpsCompound : List (Op KvApi.EKey Bytes) :=
  [.put ([7], 200) [1] 0, .put ([7], 300) [2] 2, .get ([7], 200), .del ([7], 5), .put ([6, 9], 0) [3] 1]

example : (runNode (KvApi.gtE Gen.IWDB_COMPOUND_KEYS) ⟨[], []⟩ exOpsCompound).2
    = (runSpec (KvApi.gtE Gen.IWDB_COMPOUND_KEYS) [] exOpsCompound).2 :=
  (compound_store_refines_map exOpsCompound).1

/-- integer keys 300 (2-byte vnum), 5, 2^63-1 (9 bytes), plain and compound layout -/
def exOpsVnum (c : Nat) : List (Op KvApi.EKey Bytes) :=
  [.put (Vnum.enc 300, c) [1] 0, .put (Vnum.enc 5, c) [2] 4, .put (Vnum.enc (2 ^ 63 - 1), c) [3] 1,
   .get (Vnum.enc 300, c), .del (Vnum.enc 5, c)]

theorem exOpsVnum_ok (compound : Bool) (c : Nat) (hc : compound = false → c = 0) :
    OpsOn (KvApi.VnumKey compound) (exOpsVnum c) := by
  intro op hop
  simp only [exOpsVnum, List.mem_cons, List.not_mem_nil, or_false] at hop
  rcases hop with rfl | rfl | rfl | rfl | rfl
  · exact ⟨⟨300, by decide, rfl⟩, hc⟩
  · exact ⟨⟨5, by decide, rfl⟩, hc⟩
  · exact ⟨⟨2 ^ 63 - 1, by decide, rfl⟩, hc⟩
  · exact ⟨⟨300, by decide, rfl⟩, hc⟩
  · exact ⟨⟨5, by decide, rfl⟩, hc⟩

example : (runNode (KvApi.gtE (KvApi.vnumFlags false)) ⟨[], []⟩ (exOpsVnum 0)).2
      = (runSpec (KvApi.gtE (KvApi.vnumFlags false)) [] (exOpsVnum 0)).2 ∧
    (runNode (KvApi.gtE (KvApi.vnumFlags true)) ⟨[], []⟩ (exOpsVnum 77)).2
      = (runSpec (KvApi.gtE (KvApi.vnumFlags true)) [] (exOpsVnum 77)).2 :=
  ⟨(vnum_store_refines_map false _ (exOpsVnum_ok false 0 (fun _ => rfl))).1,
   (vnum_store_refines_map true _ (exOpsVnum_ok true 77 (fun h => by cases h))).1⟩

/-- real-number keys "1.5", "1.50", "-2" -/
def exOpsReal : List (Op KvApi.EKey Bytes) :=
  [.put ([49, 46, 53], 0) [1] 0, .put ([49, 46, 53, 48], 0) [2] 1, .put ([45, 50], 0) [3] 2,
   .get ([49, 46, 53], 0), .del ([45, 50], 0)]

example : flatten (runNode (KvApi.gtE (KvApi.realFlags false)) ⟨[], []⟩ exOpsReal).1.nodes
    = (runSpec (KvApi.gtE (KvApi.realFlags false)) [] exOpsReal).1 :=
  (real_store_refines_map false exOpsReal (by simp [OpsOn, exOpsReal, Op.key, KvApi.RealKey])).2.1

/-- the valid-key hypothesis is what the API delivers: an 8-byte little-endian integer key -/
example : ∃ ek, KvApi.toEffective (KvApi.vnumFlags true) [44, 1, 0, 0, 0, 0, 0, 0] 9 = .ok ek ∧
    KvApi.Valid (KvApi.vnumFlags true) ek :=
  ⟨_, rfl, api_keys_valid _ [44, 1, 0, 0, 0, 0, 0, 0] 9 _ (by simp) rfl⟩

/-! ### 6. the property as written: the whole store against the reference map, call by call

`KvApiSpec.SpecStore` (`Model/KvApiSpec.lean`) is the ordered reference map of the property: per
database one sorted association list, no nodes, no levels, no cursors; its operations return the
canonical result lines. `absStore` reads a `KvApi.Store` (the node-level model that the differential
run compares with the C code) as such a reference store; `StoreInv` says every database has a valid
chain under the comparator of its own flags and holds valid keys only. Each API call returns the line
the reference returns, lands on the store the reference lands on, and keeps `StoreInv` — whatever
level the put draws, whatever cursors are open. -/
section Api
open KvApi KvApiSpec

/-- `iwkv_puth` in every flavour — plain, `IWKV_NO_OVERWRITE`, `IWKV_VAL_INCREMENT`, accepting or
    refusing put handler, any key mode, any database of the store, any drawn level -/
theorem api_put_refines (s : Store) (inv : StoreInv s) (id : Nat) (key : Bytes) (comp : Nat) (val : Bytes)
    (fl lvl ph : Nat) :
    (KvApi.put s id key comp val fl lvl ph).2 = (sput (absStore s) id key comp val fl ph).2 ∧
    absStore (KvApi.put s id key comp val fl lvl ph).1 = (sput (absStore s) id key comp val fl ph).1 ∧
    StoreInv (KvApi.put s id key comp val fl lvl ph).1 := by
  have h := putR_refines s inv id key comp val fl lvl ph
  simp only [KvApi.put, sput]
  exact ⟨by rw [h.1], h.2.1, h.2.2⟩

/-- `iwkv_get` (a read: the store is not touched) -/
theorem api_get_refines (s : Store) (inv : StoreInv s) (id : Nat) (key : Bytes) (comp : Nat) :
    KvApi.get s id key comp = sget (absStore s) id key comp := by
  simp only [KvApi.get, sget, sgetDb_abs]
  cases hg : getDb s id with
  | none => rfl
  | some d =>
    have hf : (absDb d).flags = d.flags := rfl
    simp only [Option.map_some, hf]
    cases he : toEffective d.flags key comp with
    | error e => rfl
    | ok ek =>
      have hl : (absDb d).lookup ek = specGet (gtE d.flags) (flatten d.db.nodes) ek := rfl
      simp only [hl, db_get_refines (dbInv_of_getDb inv hg) key comp ek he]
      cases specGet (gtE d.flags) (flatten d.db.nodes) ek <;> rfl

/-- `iwkv_get_copy`: length of the value and the part that fits the caller's buffer -/
theorem api_getcopy_refines (s : Store) (inv : StoreInv s) (id : Nat) (key : Bytes) (comp : Nat) (bufsz : Nat) :
    KvApi.getCopy s id key comp bufsz = sgetCopy (absStore s) id key comp bufsz := by
  simp only [KvApi.getCopy, sgetCopy, sgetDb_abs]
  cases hg : getDb s id with
  | none => rfl
  | some d =>
    have hf : (absDb d).flags = d.flags := rfl
    simp only [Option.map_some, hf]
    cases he : toEffective d.flags key comp with
    | error e => rfl
    | ok ek =>
      have hl : (absDb d).lookup ek = specGet (gtE d.flags) (flatten d.db.nodes) ek := rfl
      simp only [hl, db_get_refines (dbInv_of_getDb inv hg) key comp ek he]
      cases specGet (gtE d.flags) (flatten d.db.nodes) ek <;> rfl

/-- `iwkv_del`, also when a node loses its last record and is unlinked -/
theorem api_del_refines (s : Store) (inv : StoreInv s) (id : Nat) (key : Bytes) (comp : Nat) :
    (KvApi.del s id key comp).2 = (sdel (absStore s) id key comp).2 ∧
    absStore (KvApi.del s id key comp).1 = (sdel (absStore s) id key comp).1 ∧
    StoreInv (KvApi.del s id key comp).1 := by
  simp only [KvApi.del, sdel, sgetDb_abs]
  cases hg : getDb s id with
  | none => exact ⟨rfl, rfl, inv⟩
  | some d =>
    have dinv := dbInv_of_getDb inv hg
    have hro : (absStore s).readonly = s.readonly := rfl
    have hf : (absDb d).flags = d.flags := rfl
    simp only [Option.map_some, hro, hf]
    cases hr : s.readonly with
    | true => exact ⟨rfl, rfl, inv⟩
    | false =>
      simp only [Bool.false_eq_true, if_false]
      cases he : toEffective d.flags key comp with
      | error e => exact ⟨rfl, rfl, inv⟩
      | ok ek =>
        have hl : (absDb d).lookup ek = specGet (gtE d.flags) (flatten d.db.nodes) ek := rfl
        have hd := db_del_refines dinv key comp ek he
        have hab : absDb { d with db := (Kv.del (gtE d.flags) d.db ek).1 } = (absDb d).erase ek := by
          simp only [absDb, SpecDb.erase]; rw [hd.2.1]
        simp only [hl]
        rw [hd.1]
        cases specGet (gtE d.flags) (flatten d.db.nodes) ek with
        | none => exact ⟨rfl, rfl, inv⟩
        | some v =>
          simp only [Option.isSome_some, if_true]
          exact ⟨trivial, by rw [abs_setDb, hab], storeInv_setDb inv id hd.2.2⟩

/-- per-database metadata: `iwkv_db_set_meta` and `iwkv_db_get_meta` -/
theorem api_meta_refines (s : Store) (inv : StoreInv s) (id : Nat) (m : Bytes) (bufsz known : Nat) :
    ((KvApi.metaSet s id m).2 = (smetaSet (absStore s) id m).2 ∧
      absStore (KvApi.metaSet s id m).1 = (smetaSet (absStore s) id m).1 ∧
      StoreInv (KvApi.metaSet s id m).1) ∧
    KvApi.metaGet s id bufsz known = smetaGet (absStore s) id bufsz known := by
  refine ⟨?_, ?_⟩
  · simp only [KvApi.metaSet, smetaSet, sgetDb_abs]
    cases hg : getDb s id with
    | none => exact ⟨rfl, rfl, inv⟩
    | some d =>
      have dinv := dbInv_of_getDb inv hg
      have hro : (absStore s).readonly = s.readonly := rfl
      simp only [Option.map_some, hro]
      cases hr : s.readonly with
      | true => exact ⟨rfl, rfl, inv⟩
      | false =>
        cases hm : m.isEmpty with
        | true => exact ⟨rfl, rfl, inv⟩
        | false =>
          simp only [Bool.false_eq_true, if_false]
          exact ⟨trivial, by rw [abs_setDb]; rfl, storeInv_setDb inv id dinv⟩
  · simp only [KvApi.metaGet, smetaGet, sgetDb_abs]
    cases hg : getDb s id with
    | none => rfl
    | some d => rfl

/-- `iwkv_db`: fetch an existing database (flags must match) or create an empty one -/
theorem api_opendb_refines (s : Store) (inv : StoreInv s) (id flags : Nat) :
    (KvApi.openDb s id flags).2 = (sopenDb (absStore s) id flags).2 ∧
    absStore (KvApi.openDb s id flags).1 = (sopenDb (absStore s) id flags).1 ∧
    StoreInv (KvApi.openDb s id flags).1 := by
  simp only [KvApi.openDb, sopenDb, sgetDb_abs]
  cases hg : getDb s id with
  | some d =>
    have hf : (absDb d).flags = d.flags := rfl
    simp only [Option.map_some, hf]
    split <;> exact ⟨rfl, rfl, inv⟩
  | none =>
    have hro : (absStore s).readonly = s.readonly := rfl
    simp only [Option.map_none, hro]
    cases hr : s.readonly with
    | true => exact ⟨rfl, rfl, inv⟩
    | false =>
      simp only [Bool.false_eq_true, if_false]
      refine ⟨trivial, by simp [absStore, absDb, flatten], ?_⟩
      intro x hx
      simp only [List.mem_append, List.mem_singleton] at hx
      rcases hx with hx | rfl
      · exact inv x hx
      · exact ⟨nodeInv_nil, keysOn_nil⟩

/-- `iwkv_db_destroy` -/
theorem api_destroydb_refines (s : Store) (inv : StoreInv s) (id : Nat) :
    (KvApi.destroyDb s id).2 = (sdestroyDb (absStore s) id).2 ∧
    absStore (KvApi.destroyDb s id).1 = (sdestroyDb (absStore s) id).1 ∧
    StoreInv (KvApi.destroyDb s id).1 := by
  simp only [KvApi.destroyDb, sdestroyDb, sgetDb_abs]
  cases hg : getDb s id with
  | none => exact ⟨rfl, rfl, inv⟩
  | some d =>
    simp only [Option.map_some]
    refine ⟨trivial, by simp [absStore, List.filter_map, Function.comp_def], ?_⟩
    intro x hx
    exact inv x (List.mem_filter.1 hx).1

/-- one call of the API, whichever: same line, same resulting contents, invariant kept -/
theorem api_step_refines (s : Store) (inv : StoreInv s) (op : ApiOp) :
    (stepApi s op).2 = (stepSpecApi (absStore s) op).2 ∧
    absStore (stepApi s op).1 = (stepSpecApi (absStore s) op).1 ∧ StoreInv (stepApi s op).1 := by
  cases op with
  | put id key comp val fl lvl ph => exact api_put_refines s inv id key comp val fl lvl ph
  | get id key comp => exact ⟨api_get_refines s inv id key comp, rfl, inv⟩
  | getCopy id key comp bufsz => exact ⟨api_getcopy_refines s inv id key comp bufsz, rfl, inv⟩
  | del id key comp => exact api_del_refines s inv id key comp
  | metaSet id m => exact (api_meta_refines s inv id m 0 0).1
  | metaGet id bufsz known => exact ⟨(api_meta_refines s inv id [] bufsz known).2, rfl, inv⟩
  | openDb id flags => exact api_opendb_refines s inv id flags
  | destroyDb id => exact api_destroydb_refines s inv id
  | reopen ro => exact ⟨rfl, rfl, inv⟩

/-- histories from any store satisfying the invariant, whatever cursors are open -/
theorem api_history_refines_from (ops : List ApiOp) (s : Store) (inv : StoreInv s) :
    (runApi s ops).2 = (runSpecApi (absStore s) ops).2 ∧
    absStore (runApi s ops).1 = (runSpecApi (absStore s) ops).1 ∧ StoreInv (runApi s ops).1 := by
  induction ops generalizing s with
  | nil => exact ⟨rfl, rfl, inv⟩
  | cons op ops ih =>
    have hs := api_step_refines s inv op
    have := ih (stepApi s op).1 hs.2.2
    simp only [runApi, runSpecApi]
    rw [← hs.2.1, ← hs.1]
    exact ⟨by rw [this.1], this.2.1, this.2.2⟩

/-- **C01 as written.** Every history of put (plain, no-overwrite, increment, with an accepting or a
    refusing put handler), get, get-into-buffer, delete, metadata set/get, database creation and
    destruction and re-opening read-only or writable — over any number of databases of any key modes
    (the flags word of each `openDb` is arbitrary), with arbitrary keys, values and level draws —
    started from the empty store: the node-level model prints, call by call, exactly the lines of
    the ordered reference map, and ends holding exactly the reference's contents (every database:
    same id, flags, metadata and the same sorted records). No hypothesis. -/
theorem api_history_refines (ops : List ApiOp) :
    (runApi Store.empty ops).2 = (runSpecApi SpecStore.empty ops).2 ∧
    absStore (runApi Store.empty ops).1 = (runSpecApi SpecStore.empty ops).1 :=
  have h := api_history_refines_from ops Store.empty storeInv_empty
  ⟨h.1, h.2.1⟩

/-- the reference itself stays well formed along every history: each database's list is strictly
    descending under the comparator of its flags and holds valid effective keys only (so lookup in
    it is membership, `spec_get_iff_mem`/`store_map_laws`) -/
theorem api_history_spec_sorted (ops : List ApiOp) : SpecInv (runSpecApi SpecStore.empty ops).1 := by
  have h := api_history_refines_from ops Store.empty storeInv_empty
  have e : absStore Store.empty = SpecStore.empty := rfl
  rw [e] at h
  rw [← h.2.1]
  exact specInv_abs h.2.2

/-! #### corollaries, read off the reference -/

/-- on the reference: a call whose line does not begin with `<op> ok` returns the store it got -/
theorem spec_error_preserves (t : SpecStore) (op : ApiOp) (h : ¬ lineOk op (stepSpecApi t op).2) :
    (stepSpecApi t op).1 = t := by
  cases op with
  | put id key comp val fl lvl ph =>
    have e : "put ok".length = 6 := by decide
    simp only [stepSpecApi, sput, lineOk, ApiOp.okWord, e] at h ⊢
    rcases sputR_cases t id key comp val fl ph with h1 | ⟨d, _, h2⟩
    · exact h1.1
    · exact absurd ((putLine_ok_iff ph _).2 h2) h
  | get id key comp => rfl
  | getCopy id key comp bufsz => rfl
  | del id key comp =>
    rcases sdel_cases t id key comp with h1 | ⟨d, _, h2⟩
    · exact h1
    · exact absurd (by simp only [stepSpecApi, h2, lineOk, ApiOp.okWord]; decide) h
  | metaSet id m =>
    rcases smetaSet_cases t id m with h1 | ⟨d, _, h2⟩
    · exact h1
    · exact absurd (by simp only [stepSpecApi, h2, lineOk, ApiOp.okWord]; decide) h
  | metaGet id bufsz known => rfl
  | openDb id flags =>
    rcases sopenDb_cases t id flags with h1 | ⟨_, h2⟩
    · exact h1
    · exact absurd (by simp only [stepSpecApi, h2, lineOk, ApiOp.okWord]; decide) h
  | destroyDb id =>
    rcases sdestroyDb_cases t id with h1 | ⟨_, h2⟩
    · exact h1
    · exact absurd (by simp only [stepSpecApi, h2, lineOk, ApiOp.okWord]; decide) h
  | reopen ro => exact absurd (by simp only [stepSpecApi, lineOk, ApiOp.okWord]; decide) h

/-- **errors change nothing**: a put, delete, metadata set (or any other call) whose result line does
    not report `ok` — unknown database, empty key, read-only store, key of the wrong size or out of
    range, key exists, increment not applicable, handler refused, key not found, flags mismatch —
    leaves the contents of EVERY database (records, metadata, flags) exactly as they were -/
theorem api_error_preserves_contents (s : Store) (inv : StoreInv s) (op : ApiOp)
    (h : ¬ lineOk op (stepApi s op).2) : absStore (stepApi s op).1 = absStore s := by
  have r := api_step_refines s inv op
  rw [r.2.1]
  exact spec_error_preserves _ op (by rw [← r.1]; exact h)

/-- on the reference: a call addressing database `i` leaves the entry of any other database alone -/
theorem spec_db_frame (t : SpecStore) (op : ApiOp) (i j : Nat) (hop : op.db = some i) (hne : i ≠ j) :
    sgetDb (stepSpecApi t op).1 j = sgetDb t j := by
  have hji : j ≠ i := Ne.symm hne
  cases op with
  | put id key comp val fl lvl ph =>
    cases hop
    simp only [stepSpecApi, sput]
    rcases sputR_cases t i key comp val fl ph with h1 | ⟨d, h1, _⟩
    · rw [h1.1]
    · rw [h1, sgetDb_ssetDb_ne t i j d hji]
  | get id key comp => rfl
  | getCopy id key comp bufsz => rfl
  | del id key comp =>
    cases hop
    rcases sdel_cases t i key comp with h1 | ⟨d, h1, _⟩
    · simp only [stepSpecApi]; rw [h1]
    · simp only [stepSpecApi]; rw [h1, sgetDb_ssetDb_ne t i j d hji]
  | metaSet id m =>
    cases hop
    rcases smetaSet_cases t i m with h1 | ⟨d, h1, _⟩
    · simp only [stepSpecApi]; rw [h1]
    · simp only [stepSpecApi]; rw [h1, sgetDb_ssetDb_ne t i j d hji]
  | metaGet id bufsz known => rfl
  | openDb id flags =>
    cases hop
    rcases sopenDb_cases t i flags with h1 | ⟨h1, _⟩
    · simp only [stepSpecApi]; rw [h1]
    · simp only [stepSpecApi]; rw [h1, sgetDb_append_ne t i j _ hji]
  | destroyDb id =>
    cases hop
    rcases sdestroyDb_cases t i with h1 | ⟨h1, _⟩
    · simp only [stepSpecApi]; rw [h1]
    · simp only [stepSpecApi]; rw [h1, sgetDb_filter_ne t i j hji]
  | reopen ro => rfl

/-- **databases are independent**: whatever a call on database `i` does (store, replace, increment,
    delete, set metadata, create, destroy), database `j ≠ i` keeps its flags, metadata and records -/
theorem api_db_frame (s : Store) (inv : StoreInv s) (op : ApiOp) (i j : Nat) (hop : op.db = some i) (hne : i ≠ j) :
    sgetDb (absStore (stepApi s op).1) j = sgetDb (absStore s) j := by
  rw [(api_step_refines s inv op).2.1]
  exact spec_db_frame _ op i j hop hne

/-! #### a concrete history: two databases of different modes -/

/-- database 1: byte-string keys; database 2: integer keys with compound part. A put, a no-overwrite
    put on the same key (refused), an increment of a 4-byte counter by -2, a refusing handler on an
    existing key, a 4-byte integer key, a put into a database that does not exist, a get from each,
    metadata, a delete, a read-only re-open and a refused put. -/
def exApiOps : List ApiOp :=
  [.openDb 1 0, .openDb 2 (vnumFlags true),
   .put 1 [7] 0 [5, 0, 0, 0] 0 3 0,
   .put 1 [7] 0 [9] Gen.IWKV_NO_OVERWRITE 0 0,
   .put 1 [7] 0 [254, 255, 255, 255] Gen.IWKV_VAL_INCREMENT 1 1,
   .put 1 [7] 0 [1] 0 0 2,
   .put 2 [44, 1, 0, 0] 9 [1, 2] 0 2 0,
   .put 3 [1] 0 [1] 0 0 0,
   .get 1 [7] 0, .getCopy 2 [44, 1, 0, 0, 0, 0, 0, 0] 9 1,
   .metaSet 2 [6, 6], .metaGet 2 10 2,
   .del 1 [8] 0, .del 1 [7] 0,
   .reopen true, .put 2 [1, 0, 0, 0] 0 [3] 0 0 0]

example : (runSpecApi SpecStore.empty exApiOps).2 =
    ["db ok", "db ok", "put ok", "put exists", "put ok ph=old:05000000", "put fail ph=old:03000000",
     "put ok", "put invalid_args", "get ok 03000000", "getc ok 2 01", "mset ok", "mget ok 1 0606",
     "del notfound", "del ok", "open ok", "put readonly"] := by decide +kernel

/-- … and therefore so does the node-level model, and it ends with the reference's contents -/
example : (runApi Store.empty exApiOps).2 =
    ["db ok", "db ok", "put ok", "put exists", "put ok ph=old:05000000", "put fail ph=old:03000000",
     "put ok", "put invalid_args", "get ok 03000000", "getc ok 2 01", "mset ok", "mget ok 1 0606",
     "del notfound", "del ok", "open ok", "put readonly"] ∧
    absStore (runApi Store.empty exApiOps).1 =
      ⟨[(1, ⟨0, [], []⟩), (2, ⟨vnumFlags true, [6, 6], [((Vnum.enc 300, 9), [1, 2])]⟩)], true⟩ := by
  rw [(api_history_refines exApiOps).1, (api_history_refines exApiOps).2]
  decide +kernel

/-- the store after the first three calls of that history satisfies the invariant … -/
theorem exApi_inv : StoreInv (runApi Store.empty (exApiOps.take 3)).1 :=
  (api_history_refines_from _ Store.empty storeInv_empty).2.2

/-- … so the refused no-overwrite put (4th call) and the refused handler put provably leave every
    database as it was (`api_error_preserves_contents`; the hypothesis is the printed line) -/
example :
    absStore (stepApi (runApi Store.empty (exApiOps.take 3)).1 (.put 1 [7] 0 [9] Gen.IWKV_NO_OVERWRITE 0 0)).1
      = absStore (runApi Store.empty (exApiOps.take 3)).1 ∧
    absStore (stepApi (runApi Store.empty (exApiOps.take 3)).1 (.put 1 [7] 0 [1] 0 0 2)).1
      = absStore (runApi Store.empty (exApiOps.take 3)).1 := by
  refine ⟨api_error_preserves_contents _ exApi_inv _ ?_, api_error_preserves_contents _ exApi_inv _ ?_⟩
  · rw [(api_step_refines _ exApi_inv _).1, (api_history_refines (exApiOps.take 3)).2]
    simp only [lineOk, ApiOp.okWord]; decide +kernel
  · rw [(api_step_refines _ exApi_inv _).1, (api_history_refines (exApiOps.take 3)).2]
    simp only [lineOk, ApiOp.okWord]; decide +kernel

/-- … and the increment on database 1 leaves database 2 alone (`api_db_frame`) -/
example :
    sgetDb (absStore (stepApi (runApi Store.empty (exApiOps.take 3)).1
      (.put 1 [7] 0 [254, 255, 255, 255] Gen.IWKV_VAL_INCREMENT 1 1)).1) 2
      = sgetDb (absStore (runApi Store.empty (exApiOps.take 3)).1) 2 :=
  api_db_frame _ exApi_inv _ 1 2 rfl (by decide)

end Api

end IwModel.C01
