import IwModel.Lemmas.KvApi
/-! # C01 — the KV store behaves as an ordered map

Property theorems only; helper lemmas live in `IwModel/Lemmas/Kv.lean`.

* the spec layer (`specGet/specPut/specDel` on a strictly descending list) is an ordered map;
* every operation of the node layer (the level-0 chain as iwkv.c maintains it: routing, add to
  upper, split at slot 17, node removal) refines the spec operation, for every drawn level, and keeps
  the node invariant — one step and whole histories;
* API layer: a `put` that does not answer `ok` leaves the store unchanged, operations on one
  database leave the others alone, effective keys unpack to what the caller passed. -/
namespace IwModel.C01
open IwModel Kv

section
variable {K V : Type} {gt : K → K → Bool}

/-! ### 1. the spec is an ordered map -/

/-- insertion keeps the list strictly descending -/
theorem spec_put_desc (st : StrictTotal gt) {m : List (K × V)} (hd : Desc gt m) (k : K) (v : V) :
    Desc gt (specPut gt m k v) := desc_specPut st hd k v

/-- a key just stored is found with its value -/
theorem spec_get_put_self (st : StrictTotal gt) {m : List (K × V)} (hd : Desc gt m) (k : K) (v : V) :
    specGet gt (specPut gt m k v) k = some v := specGet_specPut_self st hd k v

/-- storing one key does not change what any other key maps to -/
theorem spec_get_put_other (st : StrictTotal gt) {m : List (K × V)} (hd : Desc gt m) (k : K) (v : V)
    {k' : K} (hne : k' ≠ k) : specGet gt (specPut gt m k v) k' = specGet gt m k' :=
  specGet_specPut_other st hd k v hne

/-- removal keeps the list strictly descending -/
theorem spec_del_desc (st : StrictTotal gt) {m : List (K × V)} (hd : Desc gt m) (k : K) :
    Desc gt (specDel gt m k) := desc_specDel st hd k

/-- a removed key is gone -/
theorem spec_get_del_self (st : StrictTotal gt) {m : List (K × V)} (hd : Desc gt m) (k : K) :
    specGet gt (specDel gt m k) k = none := specGet_specDel_self st hd k

/-- removing one key does not change what any other key maps to -/
theorem spec_get_del_other (st : StrictTotal gt) {m : List (K × V)} (hd : Desc gt m) (k : K)
    {k' : K} (hne : k' ≠ k) : specGet gt (specDel gt m k) k' = specGet gt m k' :=
  specGet_specDel_other st hd k hne

/-- lookup is membership: the spec list *is* the set of live records -/
theorem spec_get_iff_mem (st : StrictTotal gt) {m : List (K × V)} (hd : Desc gt m) (k : K) (v : V) :
    specGet gt m k = some v ↔ (k, v) ∈ m := specGet_eq_some_iff st hd k v

/-! ### 2. one-step refinement of the node layer -/

/-- `_lx_get_lr` on the node chain returns what the ordered map holds -/
theorem get_refines (st : StrictTotal gt) (d : Db K V) (inv : NodeInv gt d.nodes) (k : K) :
    Kv.get gt d k = specGet gt (flatten d.nodes) k := Kv.get_refines st d inv k

/-- a plain put on the node chain is `specPut` on the flattened contents, keeps the node invariant,
    answers ok and hands back the previous value — for EVERY level `lvl` the skip-list generator may
    draw (level choices never influence contents) and in every branch (add to upper, fresh node in
    front/after, split at slot 17 on either side, in-place replace). -/
theorem put_refines (st : StrictTotal gt) (d : Db K V) (inv : NodeInv gt d.nodes) (k : K) (v : V) (lvl : Nat) :
    let r := Kv.put gt d k v false lvl
    flatten r.1.nodes = specPut gt (flatten d.nodes) k v ∧ NodeInv gt r.1.nodes ∧
      r.2.1 = .ok ∧ r.2.2 = specGet gt (flatten d.nodes) k := by
  have h := put_core st d inv k v lvl _ rfl
  refine ⟨h.1, ⟨h.2.1, ?_⟩, h.2.2⟩
  rw [h.1]; exact desc_specPut st inv.2 k v

/-- put with `IWKV_NO_OVERWRITE`: a present key is reported as `exists_` and the state (nodes and
    cursors) is untouched; an absent key is stored exactly as by a plain put. -/
theorem put_no_overwrite (st : StrictTotal gt) (d : Db K V) (inv : NodeInv gt d.nodes) (k : K) (v : V) (lvl : Nat) :
    let r := Kv.put gt d k v true lvl
    (∀ ov, specGet gt (flatten d.nodes) k = some ov → r = (d, .exists_, some ov)) ∧
    (specGet gt (flatten d.nodes) k = none →
      flatten r.1.nodes = specPut gt (flatten d.nodes) k v ∧ NodeInv gt r.1.nodes ∧ r.2.1 = .ok ∧ r.2.2 = none) := by
  rw [← Kv.get_refines st d inv k]
  refine ⟨fun ov h => put_noOverwrite_present d k v lvl h, fun h => ?_⟩
  rw [put_noOverwrite_absent d k v lvl h]
  have := put_refines st d inv k v lvl
  rw [← Kv.get_refines st d inv k, h] at this
  exact this

/-- `_lx_del_lw` is `specDel` on the flattened contents (also when the node loses its last record
    and is unlinked), keeps the node invariant, and reports not-found exactly when the key is absent -/
theorem del_refines (st : StrictTotal gt) (d : Db K V) (inv : NodeInv gt d.nodes) (k : K) :
    flatten (Kv.del gt d k).1.nodes = specDel gt (flatten d.nodes) k ∧ NodeInv gt (Kv.del gt d k).1.nodes ∧
      (Kv.del gt d k).2 = (specGet gt (flatten d.nodes) k).isSome := by
  have h := del_core st d inv k
  refine ⟨h.1, ⟨h.2.1, ?_⟩, h.2.2⟩
  rw [h.1]; exact desc_specDel st inv.2 k

/-! ### 3. whole histories -/

/-- Every history of put / put-no-overwrite / delete / get calls, with arbitrary level draws, started
    from the empty database: the node model reports exactly what the ordered map reports, call by
    call, and ends with exactly the map's contents (and a valid chain). -/
theorem history_refines (st : StrictTotal gt) (ops : List (Op K V)) :
    (runNode gt ⟨[], []⟩ ops).2 = (runSpec gt [] ops).2 ∧
    flatten (runNode gt ⟨[], []⟩ ops).1.nodes = (runSpec gt [] ops).1 ∧
    NodeInv gt (runNode gt ⟨[], []⟩ ops).1.nodes :=
  run_refines st ops ⟨[], []⟩ nodeInv_nil

/-- the same from any valid state, whatever cursors are open -/
theorem history_refines_from (st : StrictTotal gt) (ops : List (Op K V)) (d : Db K V) (inv : NodeInv gt d.nodes) :
    (runNode gt d ops).2 = (runSpec gt (flatten d.nodes) ops).2 ∧
    flatten (runNode gt d ops).1.nodes = (runSpec gt (flatten d.nodes) ops).1 ∧
    NodeInv gt (runNode gt d ops).1.nodes :=
  run_refines st ops d inv

end

/-! ### 4. API layer -/

/-- `iwkv_puth` that reports anything but ok — unknown database, empty key, read-only store, key of
    the wrong size or out of range, `IWKV_NO_OVERWRITE` on a present key, an increment that cannot
    be applied, a put handler that refuses — returns the store it was given, unchanged. -/
theorem put_error_preserves_state (s : KvApi.Store) (id : Nat) (key : Bytes) (comp : Nat) (val : Bytes)
    (fl lvl ph : Nat) (h : (KvApi.putR s id key comp val fl lvl ph).2.isOk = false) :
    (KvApi.putR s id key comp val fl lvl ph).1 = s := by
  rcases KvApi.putR_cases s id key comp val fl lvl ph with h1 | ⟨d, _, h2⟩
  · exact h1.1
  · rw [h] at h2; cases h2

/-- the same on the canonical result line: a line that does not begin with `put ok` means the
    store is unchanged (the line begins with `put ok` exactly for the ok outcome) -/
theorem put_line_error_preserves_state (s : KvApi.Store) (id : Nat) (key : Bytes) (comp : Nat) (val : Bytes)
    (fl lvl ph : Nat) (h : (KvApi.put s id key comp val fl lvl ph).2.toList.take 6 ≠ "put ok".toList) :
    (KvApi.put s id key comp val fl lvl ph).1 = s := by
  simp only [KvApi.put] at h ⊢
  apply put_error_preserves_state
  cases hk : (KvApi.putR s id key comp val fl lvl ph).2.isOk with
  | false => rfl
  | true => exact absurd ((KvApi.putLine_ok_iff ph _).2 hk) h

/-- a put on database `id` never changes another database `j` (contents, flags, metadata, cursors) -/
theorem put_db_frame (s : KvApi.Store) (id j : Nat) (hne : id ≠ j) (key : Bytes) (comp : Nat) (val : Bytes)
    (fl lvl ph : Nat) : KvApi.getDb (KvApi.put s id key comp val fl lvl ph).1 j = KvApi.getDb s j := by
  simp only [KvApi.put]
  rcases KvApi.putR_cases s id key comp val fl lvl ph with h1 | ⟨d, h1, _⟩
  · rw [h1.1]
  · rw [h1, KvApi.getDb_setDb_ne s id j d (Ne.symm hne)]

/-- a delete on database `id` never changes another database -/
theorem del_db_frame (s : KvApi.Store) (id j : Nat) (hne : id ≠ j) (key : Bytes) (comp : Nat) :
    KvApi.getDb (KvApi.del s id key comp).1 j = KvApi.getDb s j := by
  rcases KvApi.del_cases s id key comp with h1 | ⟨d, h1⟩
  · rw [h1]
  · rw [h1, KvApi.getDb_setDb_ne s id j d (Ne.symm hne)]

/-- setting the metadata of database `id` never changes another database -/
theorem metaSet_db_frame (s : KvApi.Store) (id j : Nat) (hne : id ≠ j) (m : Bytes) :
    KvApi.getDb (KvApi.metaSet s id m).1 j = KvApi.getDb s j := by
  rcases KvApi.metaSet_cases s id m with h1 | ⟨d, h1⟩
  · rw [h1]
  · rw [h1, KvApi.getDb_setDb_ne s id j d (Ne.symm hne)]

/-- effective-key round trip, byte-string keys (plain and real-number modes): the caller gets back the
    key bytes as passed, and the compound part iff the database has compound keys -/
theorem key_roundtrip_plain (flags : Nat) (key : Bytes) (comp : Nat) (ek : KvApi.EKey)
    (hm : KvApi.modeOf flags ≠ .vnum) (h : KvApi.toEffective flags key comp = .ok ek) :
    KvApi.unpack flags ek = (key, if KvApi.isCompound flags then comp else 0) := by
  simp only [KvApi.toEffective, hm, if_false] at h
  cases h
  simp only [KvApi.unpack, hm, if_false]

/-- effective-key round trip, integer mode, 8-byte key below 2^63: stored as a vnum, handed back as
    the same 8 little-endian bytes -/
theorem key_roundtrip_vnum8 (flags : Nat) (key : Bytes) (comp : Nat) (hm : KvApi.modeOf flags = .vnum)
    (hl : key.length = 8) (hw : Bytes.wf key) (hn : KvApi.leVal key < 2 ^ 63) :
    ∃ ek, KvApi.toEffective flags key comp = .ok ek ∧
      KvApi.unpack flags ek = (key, if KvApi.isCompound flags then comp else 0) := by
  refine ⟨_, by simp only [KvApi.toEffective, hm, hl, hn, if_true]; rfl, ?_⟩
  simp only [KvApi.unpack, hm, if_true, KvApi.decBody_enc, KvApi.leBytes_leVal8 key hl hw]

/-- integer mode, 4-byte key below 2^31: handed back widened to 8 little-endian bytes -/
theorem key_roundtrip_vnum4 (flags : Nat) (key : Bytes) (comp : Nat) (hm : KvApi.modeOf flags = .vnum)
    (hl : key.length = 4) (hw : Bytes.wf key) (hn : KvApi.leVal key < 2 ^ 31) :
    ∃ ek, KvApi.toEffective flags key comp = .ok ek ∧
      KvApi.unpack flags ek = (key ++ [0, 0, 0, 0], if KvApi.isCompound flags then comp else 0) := by
  refine ⟨_, by simp only [KvApi.toEffective, hm, hl, hn, if_true]; rfl, ?_⟩
  simp only [KvApi.unpack, hm, if_true, KvApi.decBody_enc, KvApi.leBytes_leVal4 key hl hw]

/-! ### the hypotheses are satisfiable -/

example : Kv.get (fun a b : Nat => decide (a > b)) exDb 7 = some "g" ∧
    flatten (Kv.put (fun a b : Nat => decide (a > b)) exDb 5 "e" false 3).1.nodes = [(9, "i"), (7, "g"), (5, "e"), (4, "d")] := by
  have h := put_refines natGt_strictTotal exDb exDb_inv 5 "e" 3
  refine ⟨by rw [get_refines natGt_strictTotal exDb exDb_inv]; decide, ?_⟩
  rw [h.1]; decide

/-- a store with two databases; database 1 holds key `07` -/
def exStore : KvApi.Store :=
  ⟨[(1, ⟨0, [], ⟨[⟨0, [(([7], 0), [1])]⟩], []⟩⟩), (2, ⟨0, [], ⟨[], []⟩⟩)], [], false⟩

example : (KvApi.putR exStore 1 [7] 0 [2] Gen.IWKV_NO_OVERWRITE 0 0).2.isOk = false ∧
    (KvApi.putR exStore 1 [7] 0 [2] 0 0 2).2.isOk = false ∧
    (KvApi.putR exStore 1 [8] 0 [2] 0 0 0).2.isOk = true := by decide

example : ∃ ek, KvApi.toEffective Gen.IWDB_VNUM64_KEYS [1, 2, 0, 0, 0, 0, 0, 0] 0 = .ok ek ∧
    KvApi.unpack Gen.IWDB_VNUM64_KEYS ek = ([1, 2, 0, 0, 0, 0, 0, 0], 0) :=
  key_roundtrip_vnum8 Gen.IWDB_VNUM64_KEYS [1, 2, 0, 0, 0, 0, 0, 0] 0 (by decide) rfl
    (by intro b hb; simp at hb; omega) (by decide)

end IwModel.C01
