import IwModel.Model.JsonParse
import IwModel.Model.JsonPrint
/-! # C13 — JSON text is parsed to the value it denotes and printed text parses back -/
namespace IwModel.C13
open IwModel IwModel.Json

end IwModel.C13
