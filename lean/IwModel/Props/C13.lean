import IwModel.Lemmas.JsonText
import IwModel.Lemmas.JsonPrintCst
import IwModel.Lemmas.JsonWitness
import IwModel.Lemmas.JsonFtoa
import IwModel.Lemmas.StrtodArith
/-! # C13 — JSON text is parsed to the value it denotes and printed text parses back

Property theorems only; definitions of the specification side (`Cst`, `decode`, …) are in
`IwModel/Model/JsonSpec.lean`, helper lemmas in `IwModel/Lemmas/Json*.lean`.
In the first group doubles are opaque: `sd` is a stand-in for `iwstrtod`, `D` the double a number token denotes; the section
`iwstrtod inside the model` instantiates them with the soft-float model `iwstrtodModel` / `strtodD`. -/
namespace IwModel.C13
open IwModel IwModel.Json IwModel.SoftF64

/-- **Two-pass unescape.** Whatever the buffer size `dlen` and start offset `d`, one call of
    `_jbl_unescape_json_string` returns the offset advanced by the length of the decoded content, has stored
    exactly the first `dlen - d` bytes of it, and stops behind the closing quote; errors do not depend on the
    buffer.  Hence the fill pass into a buffer of the length the length pass returned stores exactly that many
    bytes (no overrun, nothing missing) and the parser's string is the decoded content. -/
theorem unescape_two_pass (q : Nat) (p : Bytes) :
    (∀ dlen d, unescPass q dlen p d = passOf dlen d (decode q p)) ∧
    (∀ content rest, decode q p = .ok (content, rest) →
        unescPass q 0 p 0 = .ok (content.length, [], rest) ∧
        unescPass q content.length p 0 = .ok (content.length, content, rest)) ∧
    (∀ b, parseStr q p b = decode q p) := by
  refine ⟨fun dlen d => unescPass_eq q dlen p d, ?_, fun b => parseStr_eq q p b⟩
  intro content rest h
  simp [unescPass_eq, h, passOf]

/-- **Every spelling of a string.** A string body spelled with any mix of unescaped bytes, two-character escapes,
    `\uXXXX` (either hex case) and surrogate pairs decodes to exactly the UTF-8 bytes it denotes. -/
theorem string_spellings (s : List Spell) (rest : Bytes) (hv : strValid s = true) :
    parseStr 34 (strText s ++ 34 :: rest) false = .ok (strValue s, rest) := by
  rw [parseStr_eq, decode_spells s rest hv]

/-- **Integers exactly.** The text of any int64 (optional `-`, decimal digits, also `-0`), followed by a delimiter,
    is read by the number branch as that integer. -/
theorem integer_exact (sd : SD) (neg : Bool) (n : Nat) (rest : Bytes)
    (hr : if neg then n ≤ 2 ^ 63 else n < 2 ^ 63) (hd : delim rest = true) :
    parseNumber sd (signText neg ++ Conv.digits n ++ rest) =
      .ok (.int (if neg then -(n : Int) else (n : Int)), rest) :=
  parseNumber_int sd neg n rest (by cases neg <;> simp_all [Cst.valid]) hd

/-- **Parsing valid JSON (partial: keys without U+0000, finding F9).** Every RFC 8259 text — any document, any white
    space layout, any spelling of strings and numbers, nesting up to `JBL_MAX_NESTING_LEVEL` containers — is
    accepted by `jbn_from_json` and yields the value it denotes: strings byte for byte, integers exactly,
    numbers with fraction/exponent as the double `D token` that the (opaque, assumed) `iwstrtod` returns.
    What is missing for the full statement: object keys containing U+0000 are truncated (see `key_nul_truncated`). -/
theorem parse_render_partial (sd : SD) (D : Bytes → Nat) (hsd : SdSpec sd D) (c : Cst) (pre post : Bytes)
    (hv : c.valid = true) (hdep : c.depth ≤ maxNesting) (hpre : wsOk pre = true) (hpost : wsOk post = true) :
    parse sd (pre ++ c.text ++ post) = .ok (some (c.value D)) := by
  have hnz : nz (pre ++ c.text ++ post) := by
    rw [nz_append, nz_append]; exact ⟨⟨nz_ws _ hpre, nz_cst c hv⟩, nz_ws _ hpost⟩
  obtain ⟨b, r, hb, hlt⟩ := text_head_ascii c pre post hpre
  unfold parse
  simp only [cstr_nz _ hnz]
  rw [hb, skipBom_ascii b r hlt, ← hb]
  have hneed := need_le c
  have hlen : c.need ≤ 2 * (pre ++ c.text ++ post).length + 4 := by
    simp only [List.length_append]; omega
  rw [parseValue_cst sd D _ hsd.on c _ 0 pre post hv c.toksOk_true (by omega) hlen (wsOk_sepOk _ hpre) (delim_ws _ hpost)]

/-- **Printed strings read back.** What `_jbl_write_json_string` writes for any byte string (with the CODEPOINTS flag:
    any string it accepts, i.e. well-formed UTF-8) is read back by the unescaper as exactly that byte string;
    control characters, quotes, backslashes, U+0000 and astral code points included. -/
theorem string_roundtrip (cpf : Bool) (s t rest : Bytes) (hw : bytesOk s = true) (h : writeString cpf s = .ok t) :
    ∃ body, t = 34 :: body ∧ parseStr 34 (body ++ rest) false = .ok (s, rest) := by
  obtain ⟨ss, h1, h2, h3, -⟩ := writeString_spells cpf s t hw h
  refine ⟨strText ss ++ [34], by rw [← h1]; rfl, ?_⟩
  rw [parseStr_eq, List.append_assoc]
  simpa [h3] using decode_spells ss rest h2

/-- **Printed text is valid JSON of the same document.** Whatever the flags, the text `jbn_as_json` produces for a
    document (int64 integers, byte strings, keys that are C strings) is the text of a concrete syntax tree — i.e. it
    is generated by the RFC 8259 grammar — whose value is the document itself with each double replaced by the
    number token the (opaque, assumed) formatter wrote for it, and nothing else changed.  Same nesting depth. -/
theorem print_valid (fmt : Nat → Bytes) (N : Nat → Cst) (D : Bytes → Nat) (hf : FmtSpec fmt N) (pf : Nat) (v : JVal)
    (t : Bytes) (hp : printable v = true) (h : print fmt pf v = .ok t) :
    ∃ c : Cst, c.text = t ∧ c.valid = true ∧ c.value D = reval D N v ∧ c.depth = depthV v := by
  obtain ⟨c, h1, h2, h3, h4, -⟩ := printNode_cst fmt N D hf (PFlags.ofNat pf) v 0 t hp h
  exact ⟨c, h1, h2, h3, h4⟩

/-- **CODEPOINTS output is ASCII.** With `JBL_PRINT_CODEPOINTS` (bit 1) every byte of the output is below 0x80
    (given that the number formatter writes ASCII). -/
theorem print_ascii (fmt : Nat → Bytes) (N : Nat → Cst) (hf : FmtSpec fmt N) (pf : Nat) (v : JVal) (t : Bytes)
    (hp : printable v = true) (hc : pf / 2 % 2 = 1) (h : print fmt pf v = .ok t) : ∀ b ∈ t, b < 128 := by
  obtain ⟨c, -, -, -, -, h5⟩ := printNode_cst fmt N (fun _ => 0) hf (PFlags.ofNat pf) v 0 t hp h
  exact h5 (by simp [PFlags.ofNat, hc])

/-- **Printed text parses back (partial: keys without U+0000, F9).** The library accepts its own output for every
    flag combination, and reads the document it printed: strings and keys byte for byte, integers exactly,
    structure and member order unchanged; each double comes back as the value of the printed number token
    (`numbers being rounded … and nothing else`). -/
theorem parse_print_partial (sd : SD) (D : Bytes → Nat) (hsd : SdSpec sd D) (fmt : Nat → Bytes) (N : Nat → Cst)
    (hf : FmtSpec fmt N) (pf : Nat) (v : JVal) (t : Bytes) (hp : printable v = true)
    (hd : depthV v ≤ maxNesting) (h : print fmt pf v = .ok t) :
    parse sd t = .ok (some (reval D N v)) := by
  obtain ⟨c, h1, h2, h3, h4⟩ := print_valid fmt N D hf pf v t hp h
  have := parse_render_partial sd D hsd c [] [] h2 (by omega) rfl rfl
  simpa [h1, h3] using this

/-- **`iwjson_ftoa` writes a JSON number, rounded at the eighth fraction digit.** For every finite double the text left
    in the buffer is the text of a valid number token (integer literal, 1–8 fraction digits with zeros trimmed, or the
    `d.ddde+XX` form when the plain form does not fit 32 bytes), pure ASCII.  The plain form is the decimal rendering
    `digits (N / 10^8) "." pad8 (N % 10^8)` of `N = roundHalfEven (|x|·10^8)`, and round-half-even is within half a unit:
    the printed number differs from the double by at most 0.5·10^-8. -/
theorem ftoa_number :
    (∀ bits, finiteBits bits = true →
        ∃ c : Cst, c.text = ftoa bits ∧ c.valid = true ∧ c.depth = 0 ∧ ∀ b ∈ ftoa bits, b < 128) ∧
    (∀ num den, 0 < den →
        2 * (roundHalfEven num den * den) ≤ 2 * num + den ∧ 2 * num ≤ 2 * (roundHalfEven num den * den) + den) ∧
    (∀ N, digitsVal 10 (Conv.digits (N / 10 ^ 8)) * 10 ^ 8 + digitsVal 10 (pad8 (N % 10 ^ 8)) = N) := by
  refine ⟨fun bits h => ftoa_cst bits h, roundHalfEven_near, fun N => ?_⟩
  rw [digitsVal_digits, pad8_value]
  omega

/-- **Printed text is valid JSON — no assumption left on the printer.** `print_valid` and `print_ascii` instantiated with
    the model of `iwjson_ftoa`: for every document with finite doubles and every flag value the output is the text of a
    valid syntax tree of the same document (doubles replaced by their printed tokens), ASCII under CODEPOINTS. -/
theorem print_valid_ftoa (D : Bytes → Nat) (pf : Nat) (v : JVal) (t : Bytes) (hp : printable v = true)
    (h : print ftoa pf v = .ok t) :
    (∃ c : Cst, c.text = t ∧ c.valid = true ∧ c.value D = reval D ftoaCst v ∧ c.depth = depthV v) ∧
    (pf / 2 % 2 = 1 → ∀ b ∈ t, b < 128) :=
  ⟨print_valid ftoa ftoaCst D ftoa_fmtSpec pf v t hp h, fun hc => print_ascii ftoa ftoaCst ftoa_fmtSpec pf v t hp hc h⟩

/-- **The library reads its own output (partial: F9 keys; `iwstrtod` assumed to scan a token).** -/
theorem parse_print_ftoa_partial (sd : SD) (D : Bytes → Nat) (hsd : SdSpec sd D) (pf : Nat) (v : JVal) (t : Bytes)
    (hp : printable v = true) (hd : depthV v ≤ maxNesting) (h : print ftoa pf v = .ok t) :
    parse sd t = .ok (some (reval D ftoaCst v)) :=
  parse_print_partial sd D hsd ftoa ftoaCst ftoa_fmtSpec pf v t hp hd h

/-! ### `iwstrtod` inside the model (soft-float binary64, `pow(10, e)` of libm tabulated) -/

/-- **Soft-float rounding is IEEE round-to-nearest-even.** All arithmetic of the `iwstrtod` model goes through
    `roundMag n d` (the double nearest to `n / d` units of 2^-1074).  (1) it depends on the rational value only;
    (2) it is the identity on representable values; (3) it is monotone; (4) faithful: no finite double lies strictly
    between the exact value and the result; (5) in the binade it lands in, the significand chosen is within one half of
    the exact quotient (ties: the even one, by definition of `rne`); (6) finite non-negative doubles are ordered like
    their bit patterns.  (4)+(5)+(6) say the result is a nearest double. -/
theorem softf64_rounding :
    (∀ n d c, 0 < d → 0 < c → roundMag (n * c) (d * c) = roundMag n d) ∧
    (∀ a c, IsFin a → 0 < c → roundMag (mag a * c) c = a) ∧
    (∀ n d n' d', 0 < d → 0 < d' → n * d' ≤ n' * d → roundMag n d ≤ roundMag n' d') ∧
    (∀ n d c, 0 < d → IsFin c → (mag c * d ≤ n → c ≤ roundMag n d) ∧ (n ≤ mag c * d → roundMag n d ≤ c)) ∧
    (∀ n d, 0 < d →
        2 * (rne n (d * 2 ^ rexp n d) * (d * 2 ^ rexp n d)) ≤ 2 * n + d * 2 ^ rexp n d ∧
        2 * n ≤ 2 * (rne n (d * 2 ^ rexp n d) * (d * 2 ^ rexp n d)) + d * 2 ^ rexp n d) ∧
    (∀ a b, IsFin b → a < b → mag a < mag b) :=
  ⟨roundMag_scale, roundMag_repr, roundMag_mono, roundMag_faithful, roundMag_near, mag_strictMono⟩

/-- **(a) `iwstrtod` scans exactly a number token.** On every valid JSON number token followed by a delimiter the model
    of `iwstrtod` stops exactly behind the token, whatever its length or magnitude; bits and range flag are functions of
    the token alone.  If the written exponent is within -307…308 (or absent) no range error is reported: the model
    meets the contract `SdSpecOn` that the parser theorems assume of their `sd` parameter. -/
theorem strtod_token_contract :
    (∀ (t : NumTok) (rest : Bytes), t.valid = true → delim rest = true →
        iwstrtodModel (t.text ++ rest) = (t.sdRes.1, t.text.length, t.sdRes.2)) ∧
    SdSpecOn NumTok.expInRange iwstrtodModel strtodD :=
  ⟨strtod_token, strtod_sdSpecOn⟩

/-- **(b) Integers below 2^53 are read exactly.** White space, optional `-`, a run of decimal digits with value below
    2^53 (any number of leading zeros), then anything that is not a digit, `.`, `e`, `E`: the result is exactly that
    integer (`mag` of the result is the value in units of 2^-1074), sign bit from the `-`, all bytes consumed, no range
    error.  Every text with at most 15 digits after its leading zeros qualifies. -/
theorem strtod_int_exact (ws : Bytes) (neg : Bool) (ds rest : Bytes) (hws : ws.all isSpaceC = true) (hne : ds ≠ [])
    (hds : ds.all isDigitC = true)
    (hr : isDigitC (chd rest) = false ∧ chd rest ≠ 46 ∧ chd rest ≠ 69 ∧ chd rest ≠ 101)
    (hv : digitsVal 10 ds < 2 ^ 53) :
    iwstrtodModel (ws ++ signText neg ++ ds ++ rest) =
      (signBit neg + ofNat (digitsVal 10 ds), ws.length + (signText neg).length + ds.length, false) ∧
    IsFin (ofNat (digitsVal 10 ds)) ∧ mag (ofNat (digitsVal 10 ds)) = digitsVal 10 ds * SoftF64.unit :=
  ⟨int_text_exact ws neg ds rest hws hne hds hr hv, ofNat_fin _ hv, mag_ofNat _ hv⟩

/-- at most 15 significant digits, any number of leading zeros: the value is below 2^53 -/
theorem strtod_int15 (k : Nat) (sig : Bytes) (hds : sig.all isDigitC = true) (hl : sig.length ≤ 15) :
    digitsVal 10 (List.replicate k 48 ++ sig) < 2 ^ 53 := by
  rw [digitsVal_zeros]
  have h1 := digitsVal_lt_pow sig hds
  have h2 : 10 ^ sig.length ≤ 10 ^ 15 := Nat.pow_le_pow_right (by decide) hl
  have h3 : (10 : Nat) ^ 15 < 2 ^ 53 := by decide
  omega

/-- **(c) Sign symmetry.** For a text that starts (after white space) with a digit or `.`: putting `-` in front flips
    the sign bit of the result, consumes one byte more (none if none was consumed) and leaves the range flag — unless the
    unsigned text ends in one of the two special cases near `DBL_MIN`, which `iwstrtod` applies to positive values only
    (then the unsigned result is `0.0` with a range error, or `DBL_MIN`).  `inf * 0` is the default NaN for both. -/
theorem strtod_sign_symmetry (ws body : Bytes) (hws : ws.all isSpaceC = true)
    (hb : isDigitC (chd body) = true ∨ chd body = 46) :
    iwstrtodModel (ws ++ 45 :: body) = flipRes (iwstrtodModel (ws ++ body)) ∨ SpecialRes (iwstrtodModel (ws ++ body)) :=
  strtod_sign ws body hws hb

/-- the exception in `strtod_sign_symmetry` is real: `2.2250738585072011e-308` is read as `0.0` with a range error,
    `-2.2250738585072011e-308` as the negative of the largest subnormal, without -/
theorem strtod_sign_exception :
    iwstrtodModel [50, 46, 50, 50, 53, 48, 55, 51, 56, 53, 56, 53, 48, 55, 50, 48, 49, 49, 101, 45, 51, 48, 56] =
      (0, 23, true) ∧
    iwstrtodModel [45, 50, 46, 50, 50, 53, 48, 55, 51, 56, 53, 56, 53, 48, 55, 50, 48, 49, 49, 101, 45, 51, 48, 56] =
      (0x800fffffffffffff, 24, false) := by decide +kernel

/-- **(d, partial) Monotone in the digits read so far.** Two digit strings with a common tail `q`, whose heads `p`,
    `p'` have values below 2^53: if `p ≤ p'` as numbers then the digit loop yields `≤` doubles for `p ++ q`, `p' ++ q`,
    however long `q` is (also when the result overflows to infinity).  Not proved: monotonicity in the tail, an error
    bound for the whole conversion (each operation is correctly rounded by `softf64_rounding`; the composition is up to
    a few ulp off, see `strtod_f8_witnesses`). -/
theorem strtod_int_monotone_partial (p p' q : Bytes) (hp : p ≠ []) (hp' : p' ≠ []) (hd : p.all isDigitC = true)
    (hd' : p'.all isDigitC = true) (hq : q.all isDigitC = true) (hv' : digitsVal 10 p' < 2 ^ 53)
    (hle : digitsVal 10 p ≤ digitsVal 10 p') : intLoop (p ++ q) ≤ intLoop (p' ++ q) := by
  rw [intLoop_append p q hp, intLoop_append p' q hp', intLoop_exact p hd (by omega), intLoop_exact p' hd' hv']
  exact intFold_mono q _ _ (ofNat_fin _ (by omega)).pos (ofNat_fin _ hv').pos hq (ofNat_mono _ _ hle)

/-- **(e) Finding F8 inside the model.** On `0.3`, `0.7` and `1e23` the model of `iwstrtod` returns the double one
    above the correctly rounded one: `nearestDouble` is the rounding of the exact rational, and `RoundsToLower lo x`
    checks by exact integer arithmetic that `x` lies strictly between the adjacent doubles `lo`, `lo + 1`, closer to
    `lo` (`0.3`, `0.7`) or exactly half way with `lo` even (`1e23`).  The C code returns the same bits (correspondence run), so these are defects of `iwstrtod`, not of the model. -/
theorem strtod_f8_witnesses :
    (iwstrtodModel [48, 46, 51] = (0x3fd3333333333334, 3, false) ∧ nearestDouble 3 10 = 0x3fd3333333333333 ∧
      RoundsToLower 0x3fd3333333333333 3 10) ∧
    (iwstrtodModel [48, 46, 55] = (0x3fe6666666666667, 3, false) ∧ nearestDouble 7 10 = 0x3fe6666666666666 ∧
      RoundsToLower 0x3fe6666666666666 7 10) ∧
    (iwstrtodModel [49, 101, 50, 51] = (0x44b52d02c7e14af7, 4, false) ∧ nearestDouble (10 ^ 23) 1 = 0x44b52d02c7e14af6 ∧
      RoundsToLower 0x44b52d02c7e14af6 (10 ^ 23) 1) := by decide +kernel

/-- **Parsing valid JSON with `iwstrtod` in the model (partial: keys without U+0000, F9; exponents within -307…308).**
    `parse_render_partial` with the `sd` parameter instantiated by the model of `iwstrtod`: no assumption about the
    double conversion is left; every number token with fraction/exponent denotes `strtodD token`, the bits the
    soft-float model computes.  Tokens whose written exponent is outside -307…308 are excluded: there `pow` under- or
    overflows, or the `DBL_MIN` special case reports a range error, and the parser rejects the text. -/
theorem parse_render_strtod_partial (c : Cst) (pre post : Bytes) (hv : c.valid = true)
    (hk : c.toksOk NumTok.expInRange = true) (hdep : c.depth ≤ maxNesting) (hpre : wsOk pre = true)
    (hpost : wsOk post = true) :
    parse iwstrtodModel (pre ++ c.text ++ post) = .ok (some (c.value strtodD)) := by
  have hnz : nz (pre ++ c.text ++ post) := by
    rw [nz_append, nz_append]; exact ⟨⟨nz_ws _ hpre, nz_cst c hv⟩, nz_ws _ hpost⟩
  obtain ⟨b, r, hb, hlt⟩ := text_head_ascii c pre post hpre
  unfold parse
  simp only [cstr_nz _ hnz]
  rw [hb, skipBom_ascii b r hlt, ← hb]
  have hneed := need_le c
  have hlen : c.need ≤ 2 * (pre ++ c.text ++ post).length + 4 := by
    simp only [List.length_append]; omega
  rw [parseValue_cst iwstrtodModel strtodD _ strtod_sdSpecOn c _ 0 pre post hv hk (by omega) hlen (wsOk_sepOk _ hpre)
    (delim_ws _ hpost)]

/-- side conditions on the regenerated libm table and literals: `pow(10, e)` is tabulated for -323…308, every entry is
    a finite positive double, `10.0` and `±1.0` are what the soft float computes from the integers -/
theorem generated_pow10_ok :
    Gen.Pow10.pow10Lo = 323 ∧ Gen.Pow10.pow10Hi = 308 ∧ Gen.Pow10.pow10Tab.length = 632 ∧
    Gen.Pow10.pow10Tab.all (fun x => decide (x < infBits)) = true ∧ Gen.Pow10.litTen = ofNat 10 :=
  ⟨pow10_range.1, pow10_range.2.1, pow10_range.2.2, pow10Tab_fin, litTen_eq⟩

/-- **F9 witness.** The model exhibits the open finding: the key `a\u0000b` is read as `a`. -/
theorem key_nul_truncated (sd : SD) :
    parse sd [123, 34, 97, 92, 117, 48, 48, 48, 48, 98, 34, 58, 49, 125] = .ok (some (.obj [([97], .int 1)])) := by
  rfl

/-- **UTF-8 leaves.** `utf8proc_iterate` inverts `utf8proc_encode_char` on every valid code point, and accepts only
    encodings of valid code points (so escapes written by the printer for a string denote that very string). -/
theorem utf8_roundtrip :
    (∀ cp rest, codepointValid cp = true → iterate (encodeChar cp ++ rest) = some (cp, (encodeChar cp).length)) ∧
    (∀ s cp n, (∀ b ∈ s, b < 256) → iterate s = some (cp, n) →
        encodeChar cp = s.take n ∧ codepointValid cp = true ∧ 1 ≤ n ∧ n ≤ s.length) :=
  ⟨iterate_encode, encode_iterate⟩

/-- side conditions on regenerated constants -/
theorem generated_ok : maxNesting = 999 ∧ unescLetter 114 = some 13 ∧ unescLetter 110 = some 10 := by decide

/-! non-vacuity: a document with every kind of spelling satisfies the hypotheses, and denotes what one expects -/
def exampleCst : Cst :=
  .arr [] (.cons [32] (.str [.raw 97, .esc 110, .u4 48 48 101 57, .pair 100 56 51 100 100 101 48 48])
    [10] (.cons [] (.int true 0) [] (.cons [9] (.obj [32] .nil) [] .nil)))

example : exampleCst.valid = true ∧ exampleCst.depth ≤ maxNesting := by decide

example : exampleCst.text = [91, 32, 34, 97, 92, 110, 92, 117, 48, 48, 101, 57, 92, 117, 100, 56, 51, 100, 92, 117, 100, 101,
    48, 48, 34, 10, 44, 45, 48, 44, 9, 123, 32, 125, 93] := by
  simp [exampleCst, Cst.text, Items.text, Members.text, Items.isNil, Members.isNil, quoted, strText, Spell.text, signText,
    digits_lt10]

example : exampleCst.value (fun _ => 0) = .arr [.str [97, 10, 195, 169, 240, 159, 152, 128], .int 0, .obj []] := by
  rfl

/-! the assumptions about the opaque double conversions are satisfiable, and so are the hypotheses of the print theorems -/
example : SdSpec scanSd (fun _ => 0) := scanSd_spec

/-! `1.5e-10` is a valid token with an exponent in range; `[1.5e-10]` satisfies the hypotheses of `parse_render_strtod_partial` -/
def exampleTok : NumTok := ⟨false, 1, some [53], some (101, [45], [49, 48])⟩

example : exampleTok.valid = true ∧ exampleTok.expInRange = true := by decide

example : (Cst.arr [] (.cons [] (.dbl exampleTok) [] .nil)).toksOk NumTok.expInRange = true := by decide

example : [49, 50, 51].all isDigitC = true ∧ digitsVal 10 [49, 50, 51] < 2 ^ 53 := by decide

example : FmtSpec (fun _ => [48]) (fun _ => .int false 0) := by
  intro b _; simp [Cst.text, signText, digits_lt10, Cst.valid, Cst.depth]

example : FmtSpec ftoa ftoaCst := ftoa_fmtSpec

def exampleDoc : JVal := .obj [([107, 233], .arr [.str [0, 11, 34, 92, 240, 159, 152, 128], .int (-5), .f64 0, .null])]

example : printable exampleDoc = true ∧ depthV exampleDoc ≤ maxNesting := by decide

end IwModel.C13
