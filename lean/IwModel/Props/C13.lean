import IwModel.Lemmas.JsonText
import IwModel.Model.JsonPrint
/-! # C13 — JSON text is parsed to the value it denotes and printed text parses back

Property theorems only; definitions of the specification side (`Cst`, `decode`, …) are in
`IwModel/Model/JsonSpec.lean`, helper lemmas in `IwModel/Lemmas/Json*.lean`.
Doubles are opaque: `sd` is the model's stand-in for `iwstrtod`, `D` the double a number token denotes. -/
namespace IwModel.C13
open IwModel IwModel.Json

/-- **Two-pass unescape.** Whatever the buffer size `dlen` and start offset `d`, one call of
    `_jbl_unescape_json_string` returns the offset advanced by the length of the decoded content, has stored
    exactly the first `dlen - d` bytes of it, and stops behind the closing quote; errors do not depend on the
    buffer.  Hence the fill pass into a buffer of the length the length pass returned stores exactly that many
    bytes (no overrun, nothing missing) and the parser's string is the decoded content. -/
theorem unescape_two_pass (q : Nat) (p : Bytes) :
    (∀ dlen d, unescPass q dlen p d = passOf dlen d (decode q p)) ∧
    (∀ content rest, decode q p = .ok (content, rest) →
        unescPass q 0 p 0 = .ok (content.length, [], rest) ∧
        unescPass q content.length p 0 = .ok (content.length, content, rest)) ∧
    (∀ b, parseStr q p b = decode q p) := by
  refine ⟨fun dlen d => unescPass_eq q dlen p d, ?_, fun b => parseStr_eq q p b⟩
  intro content rest h
  simp [unescPass_eq, h, passOf]

/-- **Every spelling of a string.** A string body spelled with any mix of unescaped bytes, two-character escapes,
    `\uXXXX` (either hex case) and surrogate pairs decodes to exactly the UTF-8 bytes it denotes. -/
theorem string_spellings (s : List Spell) (rest : Bytes) (hv : strValid s = true) :
    parseStr 34 (strText s ++ 34 :: rest) false = .ok (strValue s, rest) := by
  rw [parseStr_eq, decode_spells s rest hv]

/-- **Integers exactly.** The text of any int64 (optional `-`, decimal digits, also `-0`), followed by a delimiter,
    is read by the number branch as that integer. -/
theorem integer_exact (sd : SD) (neg : Bool) (n : Nat) (rest : Bytes)
    (hr : if neg then n ≤ 2 ^ 63 else n < 2 ^ 63) (hd : delim rest = true) :
    parseNumber sd (signText neg ++ Conv.digits n ++ rest) =
      .ok (.int (if neg then -(n : Int) else (n : Int)), rest) :=
  parseNumber_int sd neg n rest (by cases neg <;> simp_all [Cst.valid]) hd

/-- **Parsing valid JSON (partial: keys without U+0000, finding F9).** Every RFC 8259 text — any document, any white
    space layout, any spelling of strings and numbers, nesting up to `JBL_MAX_NESTING_LEVEL` containers — is
    accepted by `jbn_from_json` and yields the value it denotes: strings byte for byte, integers exactly,
    numbers with fraction/exponent as the double `D token` that the (opaque, assumed) `iwstrtod` returns.
    What is missing for the full statement: object keys containing U+0000 are truncated (see `key_nul_truncated`). -/
theorem parse_render_partial (sd : SD) (D : Bytes → Nat) (hsd : SdSpec sd D) (c : Cst) (pre post : Bytes)
    (hv : c.valid = true) (hdep : c.depth ≤ maxNesting) (hpre : wsOk pre = true) (hpost : wsOk post = true) :
    parse sd (pre ++ c.text ++ post) = .ok (some (c.value D)) := by
  have hnz : nz (pre ++ c.text ++ post) := by
    rw [nz_append, nz_append]; exact ⟨⟨nz_ws _ hpre, nz_cst c hv⟩, nz_ws _ hpost⟩
  obtain ⟨b, r, hb, hlt⟩ := text_head_ascii c pre post hpre
  unfold parse
  simp only [cstr_nz _ hnz]
  rw [hb, skipBom_ascii b r hlt, ← hb]
  have hneed := need_le c
  have hlen : c.need ≤ 2 * (pre ++ c.text ++ post).length + 4 := by
    simp only [List.length_append]; omega
  rw [parseValue_cst sd D hsd c _ 0 pre post hv (by omega) hlen (wsOk_sepOk _ hpre) (delim_ws _ hpost)]

/-- **F9 witness.** The model exhibits the open finding: the key `a\u0000b` is read as `a`. -/
theorem key_nul_truncated (sd : SD) :
    parse sd [123, 34, 97, 92, 117, 48, 48, 48, 48, 98, 34, 58, 49, 125] = .ok (some (.obj [([97], .int 1)])) := by
  rfl

/-- **UTF-8 leaves.** `utf8proc_iterate` inverts `utf8proc_encode_char` on every valid code point, and accepts only
    encodings of valid code points (so escapes written by the printer for a string denote that very string). -/
theorem utf8_roundtrip :
    (∀ cp rest, codepointValid cp = true → iterate (encodeChar cp ++ rest) = some (cp, (encodeChar cp).length)) ∧
    (∀ s cp n, (∀ b ∈ s, b < 256) → iterate s = some (cp, n) →
        encodeChar cp = s.take n ∧ codepointValid cp = true ∧ 1 ≤ n ∧ n ≤ s.length) :=
  ⟨iterate_encode, encode_iterate⟩

/-- side conditions on regenerated constants -/
theorem generated_ok : maxNesting = 999 ∧ unescLetter 114 = some 13 ∧ unescLetter 110 = some 10 := by decide

/-! non-vacuity: a document with every kind of spelling satisfies the hypotheses, and denotes what one expects -/
def exampleCst : Cst :=
  .arr [] (.cons [32] (.str [.raw 97, .esc 110, .u4 48 48 101 57, .pair 100 56 51 100 100 101 48 48])
    [10] (.cons [] (.int true 0) [] (.cons [9] (.obj [32] .nil) [] .nil)))

example : exampleCst.valid = true ∧ exampleCst.depth ≤ maxNesting := by decide

example : exampleCst.text = [91, 32, 34, 97, 92, 110, 92, 117, 48, 48, 101, 57, 92, 117, 100, 56, 51, 100, 92, 117, 100, 101,
    48, 48, 34, 10, 44, 45, 48, 44, 9, 123, 32, 125, 93] := by
  simp [exampleCst, Cst.text, Items.text, Members.text, Items.isNil, Members.isNil, quoted, strText, Spell.text, signText,
    digits_lt10]

example : exampleCst.value (fun _ => 0) = .arr [.str [97, 10, 195, 169, 240, 159, 152, 128], .int 0, .obj []] := by
  rfl

end IwModel.C13
