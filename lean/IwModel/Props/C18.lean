import IwModel.Model.HMap
import IwModel.Model.Arr
import IwModel.Model.Avl
import IwModel.Model.Ring
import IwModel.Model.XStr
import IwModel.Model.Pool
import IwModel.Lemmas.Avl
/-!
C18: containers behave as their plain reference models for every call sequence.

Each section states, for the mechanism model of one container (the definitions `drv c18` executes and the
correspondence check compares with the C code), that every call returns what the plain reference structure
returns and keeps the container's representation invariant, for all states reachable by any call sequence.
-/
namespace IwModel.C18

/-- side conditions on the regenerated constants that the proofs use -/
theorem consts_ok : 0 < HMap.MIN_BUCKETS ∧ 0 < HMap.STEPS ∧ 0 < Arr.ALLOC_UNIT := by decide

/-! ## AVL tree (`iwavl.c`): reference = strictly increasing list of keys -/
section AVL
open Avl

/-- `iwavl_insert` + `iwavl_rebalance_after_insert` on a search tree: the in-order key sequence becomes the
reference set insertion, and the call reports "inserted" exactly when the key was absent. -/
theorem avl_insert_refines (t : Tree) (x : Int) (h : Bst t) :
    toList (insert t x).1 = insL x (toList t) ∧ ((insert t x).2 = true ↔ x ∉ toList t) := by
  refine ⟨toList_insertAux x t h, ?_⟩
  show (insertAux x t).2.1 = true ↔ _
  rw [insertAux_flag, ← mem_iff x t h]; simp

/-- `iwavl_remove` of the node holding `x` (found by `iwavl_lookup`): the in-order sequence loses exactly `x`. -/
theorem avl_remove_refines (t : Tree) (x : Int) (h : Bst t) :
    toList (remove t x).1 = (toList t).erase x ∧ ((remove t x).2 = true ↔ x ∈ toList t) := by
  refine ⟨toList_removeAux x t h, ?_⟩
  show (removeAux x t).2.1 = true ↔ _
  rw [removeAux_flag, mem_iff x t h]

/-- the search-tree order survives insertion and removal, whatever rotations were done -/
theorem avl_bst (t : Tree) (x : Int) (h : Bst t) : Bst (insert t x).1 ∧ Bst (remove t x).1 := by
  constructor
  · unfold Bst; rw [(avl_insert_refines t x h).1]; exact insL_sorted x _ h
  · unfold Bst; rw [(avl_remove_refines t x h).1]; exact List.Pairwise.sublist List.erase_sublist h

/-- every stored balance factor stays the true height difference in {-1,0,1}: all four rotation cases of
`avl_handle_subtree_growth` and all six of `avl_handle_subtree_shrink` restore the AVL condition -/
theorem avl_balanced (t : Tree) (x : Int) (h : Bal t) : Bal (insert t x).1 ∧ Bal (remove t x).1 :=
  ⟨(insertAux_bal x t h).1, (removeAux_bal x t h).1⟩

/-- `iwavl_lookup` finds exactly the keys of the reference list -/
theorem avl_lookup_iff (t : Tree) (x : Int) (h : Bst t) : mem x t = true ↔ x ∈ toList t := mem_iff x t h

/-- `iwavl_lookup_bounds` (used by the allocator): greatest key ≤ x and least key ≥ x of the reference list -/
theorem avl_bounds_spec (t : Tree) (x : Int) (h : Bst t) :
    lookupBounds t x = (floorL x (toList t), ceilL x (toList t)) := by
  unfold lookupBounds; rw [bounds_spec x t none none h]; simp

/-- calls of the tree API -/
inductive AvlOp where
  | ins (x : Int)
  | rm (x : Int)

def avlRun : List AvlOp → Tree → Tree
  | [], t => t
  | .ins x :: ops, t => avlRun ops (insert t x).1
  | .rm x :: ops, t => avlRun ops (remove t x).1

def avlRef : List AvlOp → List Int → List Int
  | [], s => s
  | .ins x :: ops, s => avlRef ops (insL x s)
  | .rm x :: ops, s => avlRef ops (s.erase x)

/-- for every sequence of inserts and removes starting from the empty tree: the tree is a balanced search
tree whose in-order contents are those of the reference set -/
theorem avl_refines_set (ops : List AvlOp) :
    Bst (avlRun ops .nil) ∧ Bal (avlRun ops .nil) ∧ toList (avlRun ops .nil) = avlRef ops [] := by
  suffices H : ∀ ops t, Bst t → Bal t → Bst (avlRun ops t) ∧ Bal (avlRun ops t) ∧ toList (avlRun ops t) = avlRef ops (toList t) by
    simpa [toList] using H ops .nil (by simp [Bst, toList]) (by simp [Bal])
  intro ops
  induction ops with
  | nil => intro t h1 h2; exact ⟨h1, h2, rfl⟩
  | cons op ops ih =>
    intro t h1 h2
    cases op with
    | ins x =>
      have := ih (insert t x).1 (avl_bst t x h1).1 (avl_balanced t x h2).1
      rw [(avl_insert_refines t x h1).1] at this
      exact this
    | rm x =>
      have := ih (remove t x).1 (avl_bst t x h1).2 (avl_balanced t x h2).2
      rw [(avl_remove_refines t x h1).1] at this
      exact this

example : toList (avlRun [.ins 3, .ins 1, .ins 2, .rm 3] .nil) = [1, 2] := by decide

end AVL

end IwModel.C18
