import IwModel.Model.HMap
import IwModel.Model.Arr
import IwModel.Model.Avl
import IwModel.Model.Ring
import IwModel.Model.XStr
import IwModel.Model.Pool
/-! C18: containers behave as their plain reference models (theorems are added below). -/
namespace IwModel.C18

/-- side conditions on the regenerated constants that the proofs use -/
theorem consts_ok : 0 < HMap.MIN_BUCKETS ∧ 0 < HMap.STEPS ∧ 0 < Arr.ALLOC_UNIT := by decide

end IwModel.C18
