import IwModel.Model.HMap
import IwModel.Model.Arr
import IwModel.Model.Avl
import IwModel.Model.Ring
import IwModel.Model.XStr
import IwModel.Model.Pool
import IwModel.Lemmas.Avl
import IwModel.Lemmas.HMapRef
import IwModel.Lemmas.Arr
import IwModel.Lemmas.Ring
import IwModel.Lemmas.RingRef
import IwModel.Lemmas.Sort
import IwModel.Lemmas.XStrMem
import IwModel.Lemmas.PoolSplit
import IwModel.Lemmas.Owned
/-!
C18: containers behave as their plain reference models for every call sequence.

Each section states, for the mechanism model of one container (the definitions `drv c18` executes and the
correspondence check compares with the C code), that every call returns what the plain reference structure
returns and keeps the container's representation invariant, for all states reachable by any call sequence.
-/
set_option linter.unusedSectionVars false
namespace IwModel.C18

/-- side conditions on the regenerated constants that the proofs use -/
theorem consts_ok : 0 < HMap.MIN_BUCKETS ∧ 0 < HMap.STEPS ∧ 0 < Arr.ALLOC_UNIT := by decide

/-! ## Hash map (`iwhmap.c`): reference = partial function + size + recency list -/
section HMAP
open HMap
variable {κ : Type} [DecidableEq κ]

/-- calls of the hash-map API -/
inductive HmOp (κ : Type) where
  | put (k : κ) (v : Nat)
  | get (k : κ)
  | rm (k : κ)
  | ren (a b : κ)
  | clear
  | lru (n : Nat)

/-- what a call returns / makes observable: tokens given to the free function, returned value, `iwhmap_count` -/
abbrev HmOut (κ : Type) := List (Tok κ) × Nat × Nat

def hmStep (h : κ → Nat) (m : Map κ) : HmOp κ → Map κ × HmOut κ
  | .put k v => let r := HMap.put h m k v; (r.1, r.2, 0, r.1.count)
  | .get k => let r := HMap.get h m k; (r.1, [], r.2, r.1.count)
  | .rm k => let r := HMap.remove h m k; (r.1, r.2.2, (if r.2.1 then 1 else 0), r.1.count)
  | .ren a b => let r := HMap.rename h m a b; (r.1, r.2, 0, r.1.count)
  | .clear => ((HMap.clear m).1, [], 0, (HMap.clear m).1.count)
  | .lru n => (HMap.lruInit m n, [], 0, m.count)

def refStep (s : Ref κ) : HmOp κ → Ref κ × HmOut κ
  | .put k v => let r := s.put k v; (r.1, r.2, 0, r.1.n)
  | .get k => let r := s.get k; (r.1, [], r.2, r.1.n)
  | .rm k => let r := s.remove k; (r.1, r.2.2, (if r.2.1 then 1 else 0), r.1.n)
  | .ren a b => let r := s.rename a b; (r.1, r.2, 0, r.1.n)
  | .clear => (s.clear, [], 0, 0)
  | .lru n => (s.lruInit n, [], 0, s.n)

def hmRun (h : κ → Nat) : List (HmOp κ) → Map κ → Map κ × List (HmOut κ)
  | [], m => (m, [])
  | op :: ops, m => let r := hmStep h m op; let q := hmRun h ops r.1; (q.1, r.2 :: q.2)

def refRun : List (HmOp κ) → Ref κ → Ref κ × List (HmOut κ)
  | [], s => (s, [])
  | op :: ops, s => let r := refStep s op; let q := refRun ops r.1; (q.1, r.2 :: q.2)

/-- one call: the mechanism model (buckets, step growth, rehash up/down, swap-with-last removal, LRU nodes)
returns what the plain reference returns and stays in the representation relation -/
theorem hmap_step_refines {h : κ → Nat} {m : Map κ} {s : Ref κ} (r : R h m s) (op : HmOp κ) :
    R h (hmStep h m op).1 (refStep s op).1 ∧ (hmStep h m op).2 = (refStep s op).2 := by
  cases op with
  | put k v => obtain ⟨r', e⟩ := sim_put r k v; exact ⟨r', by simp only [hmStep, refStep]; rw [e, r'.cnt]⟩
  | get k => obtain ⟨r', e⟩ := sim_get r k; exact ⟨r', by simp only [hmStep, refStep]; rw [e, r'.cnt]⟩
  | rm k => obtain ⟨r', e⟩ := sim_remove r k; exact ⟨r', by simp only [hmStep, refStep]; rw [e, r'.cnt]⟩
  | ren a b => obtain ⟨r', e⟩ := sim_rename r a b; exact ⟨r', by simp only [hmStep, refStep]; rw [e, r'.cnt]⟩
  | clear => have r' := sim_clear r; exact ⟨r', by simp only [hmStep, refStep]; rw [r'.cnt]; rfl⟩
  | lru n => exact ⟨sim_lruInit r n, by simp only [hmStep, refStep]; rw [r.cnt]⟩

/-- **hash map = association list + recency list, for every call sequence** (put/replace, get with promotion,
remove, rename onto new or existing keys, clear, enabling eviction at any time), across every growth and
shrink threshold and for every hash function (colliding or not): same returned values, same counts, same
tokens freed (replaced pairs and eviction victims, in order), and the final table still represents the reference. -/
theorem hmap_refines_assoc (h : κ → Nat) (own : Bool) (ops : List (HmOp κ)) :
    (hmRun h ops (HMap.empty own)).2 = (refRun ops (Ref.empty own)).2 ∧
    R h (hmRun h ops (HMap.empty own)).1 (refRun ops (Ref.empty own)).1 := by
  suffices H : ∀ ops (m : Map κ) (s : Ref κ), R h m s → (hmRun h ops m).2 = (refRun ops s).2 ∧ R h (hmRun h ops m).1 (refRun ops s).1 from
    H ops _ _ (sim_empty h own)
  intro ops
  induction ops with
  | nil => intro m s r; exact ⟨rfl, r⟩
  | cons op ops ih =>
    intro m s r
    obtain ⟨r', e⟩ := hmap_step_refines r op
    obtain ⟨e2, r2⟩ := ih _ _ r'
    exact ⟨by simp only [hmRun, refRun]; rw [e, e2], r2⟩

/-- memory safety of the entry vectors in every reachable state: a non-empty bucket always has a spare slot
(`used < total`), which is what `_entry_add` relies on when it stores at index `used` -/
theorem hmap_bucket_bounds (h : κ → Nat) (own : Bool) (ops : List (HmOp κ)) (i : Nat) :
    let m := (hmRun h ops (HMap.empty own : Map κ)).1
    (ents m i).length = 0 ∨ (ents m i).length < (bucketAt m i).total :=
  (hmap_refines_assoc h own ops).2.wf.cap i

/-- iteration over a table that represents `s` yields exactly the pairs of `s`, every key once, `count` of them -/
theorem hmap_iter_spec {h : κ → Nat} {m : Map κ} {s : Ref κ} (r : R h m s) :
    (∀ k v, (k, v) ∈ toList m ↔ s.f k = some v) ∧ ((toList m).map (·.1)).Nodup ∧ (toList m).length = s.n := by
  obtain ⟨a, b, c⟩ := toList_spec r.wf
  exact ⟨fun k v => (a k v).trans (r.maps k v), b, by rw [c, r.cnt]⟩

/-- `iwhmap_clear` and `iwhmap_destroy` pass every live pair to the free function exactly once
(the pairs of the iteration order, whose keys are pairwise distinct by `hmap_iter_spec`) -/
theorem hmap_clear_frees_each_once (m : Map κ) :
    (HMap.clear m).2 = (toList m).flatMap (fun kv => freeToks m.ownKeys (some kv.1) kv.2) ∧
    HMap.destroy m = (toList m).flatMap (fun kv => freeToks m.ownKeys (some kv.1) kv.2) :=
  ⟨allToks_eq m, allToks_eq m⟩

theorem touchIfOn_fields (s : Ref κ) (k : κ) :
    (s.touchIfOn k).own = s.own ∧ (s.touchIfOn k).on = s.on ∧ (s.touchIfOn k).maxc = s.maxc ∧
    (s.touchIfOn k).n = s.n ∧ (s.touchIfOn k).f = s.f := by
  unfold Ref.touchIfOn; split <;> exact ⟨rfl, rfl, rfl, rfl, rfl⟩

/-- the eviction loop of `iwhmap_put` removes the `j` least recently used keys, oldest first, and nothing else:
`L` is the recency list after the put's own promotion -/
theorem lru_evicts_oldest {h : κ → Nat} {m : Map κ} {s : Ref κ} (r : R h m s) (k : κ) (v : Nat) :
    let s2 := (s.set k v).touchIfOn k
    ∃ j, (HMap.put h m k v).1.lru = s2.lru.drop j ∧
      (∀ k', (s.put k v).1.f k' = if k' ∈ s2.lru.take j then none else s2.f k') ∧
      (HMap.put h m k v).2 = (match s.f k with | some old => freeToks s.own (some k) old | none => []) ++
        (s2.lru.take j).flatMap (fun k' => freeToks s.own (some k') ((s2.f k').getD 0)) := by
  intro s2
  obtain ⟨r', e⟩ := sim_put r k v
  have r3 := sim_putTouch r k v
  have ok : s2.LruOk := r3.lruOk
  obtain ⟨j, h1, h2, h3, _⟩ := Ref.evict_spec (s2.lru.length + 1) s2
    (match s.f k with | some old => freeToks s.own (some k) old | none => []) ok (by omega)
  have hown : s2.own = s.own := (touchIfOn_fields (s.set k v) k).1
  rw [hown] at h2
  refine ⟨j, ?_, h3, ?_⟩
  · rw [r'.lru]; exact h1
  · rw [e]; exact h2

/-- with eviction on, a put leaves at most `max_count` entries unless no evictable entry is left -/
theorem lru_count_bound {h : κ → Nat} {m : Map κ} {s : Ref κ} (r : R h m s) (hon : m.lruOn = true) (k : κ) (v : Nat) :
    (HMap.put h m k v).1.lru = [] ∨ (HMap.put h m k v).1.count ≤ m.maxc := by
  obtain ⟨r', e⟩ := sim_put r k v
  have r3 := sim_putTouch r k v
  obtain ⟨j, _, _, _, h4, h5, h6, h7⟩ := Ref.evict_spec (((s.set k v).touchIfOn k).lru.length + 1) ((s.set k v).touchIfOn k)
    (match s.f k with | some old => freeToks s.own (some k) old | none => []) r3.lruOk (by omega)
  obtain ⟨_, f2, f3, _, _⟩ := touchIfOn_fields (s.set k v) k
  have hon' : ((s.set k v).touchIfOn k).on = true := by rw [f2]; show s.on = true; rw [← r.on]; exact hon
  have hmx : ((s.set k v).touchIfOn k).maxc = m.maxc := by rw [f3]; show s.maxc = m.maxc; exact r.maxc.symm
  rw [r'.lru, r'.cnt]
  rcases h7 with h7 | h7
  · exact Or.inl h7
  · right
    rw [hmx] at h7
    have : ¬ (s.put k v).1.n > m.maxc := fun hgt => h7 ⟨hon', hgt⟩
    omega
/-- the hypotheses are satisfiable and the eviction really happens: three puts into a map bounded to two entries -/
example : ((hmRun HMap.hashU32Key [.lru 2, .put 1 10, .put 2 20, .put 3 30] (HMap.empty false)).2.map (·.2.2)) = [0, 1, 2, 2] := by
  decide

end HMAP

/-! ## Unit list and pointer list (`iwarr.c`): reference = `List` -/
section LISTS
open Arr
variable {α : Type}

/-- calls of the `iwulist` API that edit the list -/
inductive UlOp (α : Type) where
  | push (x : α) | unshift (x : α) | pop | shift | insert (i : Nat) (x : α) | set (i : Nat) (x : α) | remove (i : Nat)

/-- the plain reference: what each call does to a `List` (out-of-range calls change nothing) -/
def ulRef : UlOp α → List α → List α
  | .push x, w => w ++ [x]
  | .unshift x, w => x :: w
  | .pop, w => w.take (w.length - 1)
  | .shift, w => w.drop 1
  | .insert i x, w => if i ≤ w.length then w.take i ++ x :: w.drop i else w
  | .set i x, w => if i < w.length then w.set i x else w
  | .remove i, w => if i < w.length then w.take i ++ w.drop (i + 1) else w

/-- the mechanism model; `none` = an access outside the allocation -/
def ulStep (junk : α) (l : UList α) : UlOp α → Option (UList α)
  | .push x => l.push junk x
  | .unshift x => l.unshift junk x
  | .pop => (l.pop junk).map (·.1)
  | .shift => (l.shift junk).map (·.1)
  | .insert i x => (l.insert junk i x).map (·.1)
  | .set i x => (l.set i x).map (·.1)
  | .remove i => (l.remove junk i).map (·.1)

/-- one `iwulist` call: no memory access leaves the allocation (`start + num ≤ anum` is kept, growth by
`anum + num + 1`, shrink to `max num 32` once `anum ≥ 2·num`, the gap opened by `unshift`), and the live window
changes exactly like the reference list -/
theorem ulist_step_refines (junk : α) (l : UList α) (wf : l.Wf) (op : UlOp α) :
    ∃ l', ulStep junk l op = some l' ∧ l'.Wf ∧ l'.window = ulRef op l.window := by
  have hl := UList.window_length l wf
  cases op with
  | push x => exact UList.push_spec junk l wf x
  | unshift x => exact UList.unshift_spec junk l wf x
  | pop =>
    obtain ⟨l', ok, e, w, _, hw⟩ := UList.pop_spec junk l wf
    exact ⟨l', by simp [ulStep, e], w, by simp [ulRef, hw, hl]⟩
  | shift =>
    obtain ⟨l', ok, e, w, _, hw⟩ := UList.shift_spec junk l wf
    exact ⟨l', by simp [ulStep, e], w, by simp [ulRef, hw]⟩
  | insert i x =>
    obtain ⟨l', ok, e, w, _, hw⟩ := UList.insert_spec junk l wf i x
    exact ⟨l', by simp [ulStep, e], w, by simp only [ulRef]; exact hw⟩
  | set i x =>
    obtain ⟨l', ok, e, w, _, hw⟩ := UList.set_spec l wf i x
    exact ⟨l', by simp [ulStep, e], w, by simp only [ulRef]; exact hw⟩
  | remove i =>
    obtain ⟨l', ok, e, w, _, hw⟩ := UList.remove_spec junk l wf i
    exact ⟨l', by simp [ulStep, e], w, by simp only [ulRef]; exact hw⟩

def ulRun (junk : α) : List (UlOp α) → UList α → Option (UList α)
  | [], l => some l
  | op :: ops, l => (ulStep junk l op).bind (ulRun junk ops)

/-- **`iwulist` = `List`, for every interleaving of edits at both ends and in the middle**, across every growth
and shrink threshold, starting from any initial capacity: never a wild access, same contents -/
theorem ulist_refines_list (junk : α) (initial : Nat) (ops : List (UlOp α)) :
    ∃ l, ulRun junk ops (UList.create junk initial) = some l ∧ l.Wf ∧ l.window = ops.foldl (fun w op => ulRef op w) [] := by
  have h0 : (UList.create junk initial).Wf := by
    have := UList.alloc_unit_pos
    unfold UList.create UList.Wf; simp; split <;> omega
  have hw0 : (UList.create junk initial).window = [] := by unfold UList.create UList.window; simp
  rw [← hw0]
  generalize UList.create junk initial = l0 at h0
  induction ops generalizing l0 with
  | nil => exact ⟨l0, rfl, h0, rfl⟩
  | cons op ops ih =>
    obtain ⟨l1, e, w1, hw⟩ := ulist_step_refines junk l0 h0 op
    obtain ⟨l2, e2, w2, hw2⟩ := ih l1 w1
    exact ⟨l2, by simp [ulRun, e, e2], w2, by rw [hw2, hw]; rfl⟩

/-- `iwulist_clone` (fixed offset) copies exactly the live window -/
theorem ulist_clone_window (junk : α) (l : UList α) (wf : l.Wf) : (l.clone junk).window = l.window := by
  have hl := UList.window_length l wf
  unfold UList.clone
  split
  · rename_i h0
    have : l.window = [] := by unfold UList.window; simp [h0]
    rw [this]; unfold UList.create UList.window; simp
  · unfold UList.window at hl ⊢
    simp only [List.drop_zero]
    rw [List.take_append_of_le_length (by omega), List.take_of_length_le (by omega)]

/-- calls of the `iwlist` API that edit the list; `pop/shift/remove` hand the removed item to the caller -/
inductive PlOp (α : Type) where
  | push (x : α) | unshift (x : α) | pop | shift | insert (i : Nat) (x : α) | set (i : Nat) (x : α) | remove (i : Nat)

def plRef : PlOp α → List α → List α
  | .push x, w => w ++ [x]
  | .unshift x, w => x :: w
  | .pop, w => w.take (w.length - 1)
  | .shift, w => w.drop 1
  | .insert i x, w => if i ≤ w.length then w.take i ++ x :: w.drop i else w
  | .set i x, w => if i < w.length then w.set i x else w
  | .remove i, w => if i < w.length then w.take i ++ w.drop (i + 1) else w

def plStep (junk : α) (l : PList α) : PlOp α → Option (PList α)
  | .push x => l.push junk x
  | .unshift x => l.unshift junk x
  | .pop => some l.pop.1
  | .shift => l.shift.map (·.1)
  | .insert i x => (l.insert junk i x).map (·.1)
  | .set i x => (l.set i x).map (·.1)
  | .remove i => (l.remove i).map (·.1)

/-- one `iwlist` call (after the fixes of `unshift`): in bounds, and the window follows the reference list,
including the compaction that `iwlist_shift` performs when `start` reaches a multiple of 256 -/
theorem plist_step_refines (junk : α) (l : PList α) (wf : l.Wf) (op : PlOp α) :
    ∃ l', plStep junk l op = some l' ∧ l'.Wf ∧ l'.window = plRef op l.window := by
  have hl := PList.window_length l wf
  cases op with
  | push x => exact PList.push_spec junk l wf x
  | unshift x => exact PList.unshift_spec junk l wf x
  | pop =>
    obtain ⟨w, hw, _⟩ := PList.pop_spec l wf
    exact ⟨_, rfl, w, by simp [plRef, hw, hl]⟩
  | shift =>
    obtain ⟨l', r, e, w, hw, _⟩ := PList.shift_spec l wf
    exact ⟨l', by simp [plStep, e], w, by simp [plRef, hw]⟩
  | insert i x =>
    obtain ⟨l', ok, e, w, _, hw⟩ := PList.insert_spec junk l wf i x
    exact ⟨l', by simp [plStep, e], w, by simp only [plRef]; exact hw⟩
  | set i x =>
    obtain ⟨l', ok, e, w, _, hw⟩ := PList.set_spec l wf i x
    exact ⟨l', by simp [plStep, e], w, by simp only [plRef]; exact hw⟩
  | remove i =>
    obtain ⟨l', r, e, w, _, hw⟩ := PList.remove_spec l wf i
    exact ⟨l', by simp [plStep, e], w, by simp only [plRef]; exact hw⟩

/-- ownership of `iwlist` items: the item handed to the caller by `pop / shift / remove` is exactly the element
that leaves the reference list, so every inserted item is either still in the window (freed by
`iwlist_destroy`, which walks the window) or has been handed out exactly once -/
theorem plist_handed_out (l : PList α) (wf : l.Wf) (i : Nat) :
    l.pop.2 = (if l.num = 0 then none else some l.window[l.num - 1]?) ∧
    (∃ l' r, l.shift = some (l', r) ∧ r = (if l.num = 0 then none else some l.window[0]?)) ∧
    (∃ l' r, l.remove i = some (l', r) ∧ r = (if i < l.window.length then some l.window[i]? else none)) := by
  refine ⟨(PList.pop_spec l wf).2.2, ?_, ?_⟩
  · obtain ⟨l', r, e, _, _, hr⟩ := PList.shift_spec l wf; exact ⟨l', r, e, hr⟩
  · obtain ⟨l', r, e, _, hr, _⟩ := PList.remove_spec l wf i; exact ⟨l', r, e, hr⟩

example : (ulRun (0 : Nat) [.push 1, .unshift 2, .insert 1 3, .remove 0] (UList.create 0 2)).map (·.window) = some [3, 1] := by
  decide

/-- `iwulist_sort` with a total, transitive comparator: the live window becomes a **sorted permutation** of
itself; `start`, `num`, the allocation size and every cell outside the window are untouched -/
theorem ulist_sort_sorted_perm (le : α → α → Bool) (h : TotalPreorder le) (l : UList α) (wf : l.Wf) :
    (l.sort le).Wf ∧ (l.sort le).start = l.start ∧ (l.sort le).num = l.num ∧ (l.sort le).anum = l.anum ∧
    (l.sort le).window.Pairwise (fun a b => le a b = true) ∧ (l.sort le).window.Perm l.window ∧
    (l.sort le).arr.take l.start = l.arr.take l.start ∧
    (l.sort le).arr.drop (l.start + l.num) = l.arr.drop (l.start + l.num) := by
  have hl := UList.window_length l wf
  have hw : (UList.sortList le l.window).length = l.num := by rw [(sortList_perm le _).length_eq, hl]
  obtain ⟨s1, s2, s3, s4⟩ := splice_window l.arr l.start l.num _ wf.1 hw
  have ew : (l.sort le).window = UList.sortList le l.window := s1
  refine ⟨⟨?_, ?_⟩, rfl, rfl, s2, ?_, ?_, s3, s4⟩
  · show l.start + l.num ≤ (l.arr.take l.start ++ UList.sortList le l.window ++ l.arr.drop (l.start + l.num)).length
    rw [s2]; exact wf.1
  · show 0 < (l.arr.take l.start ++ UList.sortList le l.window ++ l.arr.drop (l.start + l.num)).length
    rw [s2]; exact wf.2
  · rw [ew]; exact sortList_sorted h _
  · rw [ew]; exact sortList_perm le _

/-- `iwlist_sort`: same statement for the list of owned items (the items themselves are only permuted: none
is freed, copied or lost) -/
theorem plist_sort_sorted_perm (le : α → α → Bool) (h : TotalPreorder le) (l : PList α) (wf : l.Wf) :
    (l.sort le).Wf ∧ (l.sort le).start = l.start ∧ (l.sort le).num = l.num ∧ (l.sort le).anum = l.anum ∧
    (l.sort le).window.Pairwise (fun a b => le a b = true) ∧ (l.sort le).window.Perm l.window ∧
    (l.sort le).arr.take l.start = l.arr.take l.start ∧
    (l.sort le).arr.drop (l.start + l.num) = l.arr.drop (l.start + l.num) := by
  have hl := PList.window_length l wf
  have hw : (UList.sortList le l.window).length = l.num := by rw [(sortList_perm le _).length_eq, hl]
  obtain ⟨s1, s2, s3, s4⟩ := splice_window l.arr l.start l.num _ wf.1 hw
  have ew : (l.sort le).window = UList.sortList le l.window := s1
  refine ⟨⟨?_, ?_⟩, rfl, rfl, s2, ?_, ?_, s3, s4⟩
  · show l.start + l.num ≤ (l.arr.take l.start ++ UList.sortList le l.window ++ l.arr.drop (l.start + l.num)).length
    rw [s2]; exact wf.1
  · show 0 < (l.arr.take l.start ++ UList.sortList le l.window ++ l.arr.drop (l.start + l.num)).length
    rw [s2]; exact wf.2
  · rw [ew]; exact sortList_sorted h _
  · rw [ew]; exact sortList_perm le _

/-- the code of `sort_r` (libc's `qsort_r`) is not modelled; this is why that loses nothing: with an
antisymmetric comparator **any** sorted permutation of the window is the one the model computes, and the
byte-string comparator of the tie (`memcmp`, shorter first) is total, transitive and antisymmetric -/
theorem sort_result_unique (le : α → α → Bool) (h : TotalPreorder le)
    (anti : ∀ a b, le a b = true → le b a = true → a = b) (l : UList α) (p : PList α) (wl : l.Wf) (wp : p.Wf)
    (w : List α) (hs : w.Pairwise (fun a b => le a b = true)) :
    (w.Perm l.window → (l.sort le).window = w) ∧ (w.Perm p.window → (p.sort le).window = w) ∧
    TotalPreorder UList.bytesLe ∧ (∀ a b, UList.bytesLe a b = true → UList.bytesLe b a = true → a = b) := by
  obtain ⟨_, _, _, _, a1, a2, _⟩ := ulist_sort_sorted_perm le h l wl
  obtain ⟨_, _, _, _, b1, b2, _⟩ := plist_sort_sorted_perm le h p wp
  exact ⟨fun pw => sorted_perm_unique anti _ _ a1 hs (a2.trans pw.symm),
         fun pw => sorted_perm_unique anti _ _ b1 hs (b2.trans pw.symm), bytesLe_preorder, bytesLe_antisymm⟩

example : ((UList.mk [9, 3, 1, 2, 9] 1 3).sort (fun a b => decide (a ≤ b))).arr = [9, 1, 2, 3, 9] := by decide

end LISTS

/-! ## Sorted-array helpers (`iwarr_sorted_*`): reference = non-decreasing list -/
section SORTED
open Arr

/-- `iwarr_sorted_find` / `find2`: a hit is an index holding `v`, a miss means `v` is absent, and the index
`find2` reports on a miss is the insertion point -/
theorem sorted_find_iff (a : List Int) (v : Int) (h : a.Pairwise (· ≤ ·)) :
    (sortedFind a v = -1 ↔ v ∉ a) ∧
    (sortedFind a v ≠ -1 → a.getD (sortedFind a v).toNat 0 = v) ∧
    ((sortedFind2 a v).2 = true ↔ v ∈ a) ∧
    ((sortedFind2 a v).2 = false → (∀ j, j < (sortedFind2 a v).1 → a.getD j 0 < v) ∧
       (∀ j, (sortedFind2 a v).1 ≤ j → j < a.length → v < a.getD j 0)) := by
  have hs := search_spec a v h
  unfold sortedFind sortedFind2
  cases hr : search a v with
  | inl i =>
    rw [hr] at hs
    obtain ⟨hi, hv⟩ := hs
    have hm : v ∈ a := hv ▸ mem_of_getD a i hi
    exact ⟨by simp [hm], fun _ => by simpa using hv, by simpa using hm, by simp⟩
  | inr i =>
    rw [hr] at hs
    obtain ⟨hi, hb, ha⟩ := hs
    have hm : v ∉ a := by
      intro hin
      obtain ⟨j, hj, hjv⟩ := getD_of_mem a v hin
      by_cases c : j < i
      · have := hb j c; omega
      · have := ha j (by omega) hj; omega
    exact ⟨by simp [hm], by simp, by simp [hm], fun _ => ⟨hb, ha⟩⟩

/-- `iwarr_sorted_insert`: the array stays sorted, gains exactly `v` at the reported index, or is left alone
(`-1`) when `skipeq` is set and `v` is present -/
theorem sorted_insert_sorted (a : List Int) (v : Int) (skipeq : Bool) (h : a.Pairwise (· ≤ ·)) :
    (sortedInsert a v skipeq).1.Pairwise (· ≤ ·) ∧
    ((sortedInsert a v skipeq).2 = -1 → skipeq = true ∧ v ∈ a ∧ (sortedInsert a v skipeq).1 = a) ∧
    ((sortedInsert a v skipeq).2 ≠ -1 → ∃ i : Nat, (sortedInsert a v skipeq).2 = i ∧ i ≤ a.length ∧
        (sortedInsert a v skipeq).1 = a.take i ++ v :: a.drop i) := by
  have hs := search_spec a v h
  have mono := mono_of_sorted a h
  unfold sortedInsert
  cases hr : search a v with
  | inl i =>
    rw [hr] at hs
    obtain ⟨hi, hv⟩ := hs
    have hm : v ∈ a := hv ▸ mem_of_getD a i hi
    cases skipeq with
    | true => simp only [if_true]; exact ⟨h, fun _ => ⟨trivial, hm, trivial⟩, fun hc => absurd rfl hc⟩
    | false =>
      simp only [Bool.false_eq_true, if_false]
      refine ⟨sorted_insert_at a v i h (by omega) ?_ ?_, fun hc => by omega, fun _ => ⟨i, rfl, by omega, rfl⟩⟩
      · intro j hj; have := mono j i (by omega) hi; omega
      · intro j hj hjl; have := mono i j hj hjl; omega
  | inr i =>
    rw [hr] at hs
    obtain ⟨hi, hb, ha⟩ := hs
    simp only
    refine ⟨sorted_insert_at a v i h hi ?_ ?_, fun hc => by omega, fun _ => ⟨i, rfl, hi, rfl⟩⟩
    · intro j hj; have := hb j hj; omega
    · intro j hj hjl; have := ha j hj hjl; omega

/-- `iwarr_sorted_remove`: removes one occurrence of `v` (at the reported index) or reports `-1` when absent -/
theorem sorted_remove_spec (a : List Int) (v : Int) (h : a.Pairwise (· ≤ ·)) :
    (sortedRemove a v).1.Pairwise (· ≤ ·) ∧
    ((sortedRemove a v).2 = -1 ↔ v ∉ a) ∧
    ((sortedRemove a v).2 ≠ -1 → ∃ i : Nat, (sortedRemove a v).2 = i ∧ a.getD i 0 = v ∧ (sortedRemove a v).1 = a.eraseIdx i) := by
  have hs := search_spec a v h
  unfold sortedRemove
  cases hr : search a v with
  | inl i =>
    rw [hr] at hs
    obtain ⟨hi, hv⟩ := hs
    have hm : v ∈ a := hv ▸ mem_of_getD a i hi
    refine ⟨h.sublist (List.eraseIdx_sublist _ _), by simp [hm], fun _ => ⟨i, rfl, hv, rfl⟩⟩
  | inr i =>
    rw [hr] at hs
    obtain ⟨hi, hb, ha⟩ := hs
    have hm : v ∉ a := by
      intro hin
      obtain ⟨j, hj, hjv⟩ := getD_of_mem a v hin
      by_cases c : j < i
      · have := hb j c; omega
      · have := ha j (by omega) hj; omega
    exact ⟨h, by simp [hm], fun hc => absurd rfl hc⟩

end SORTED

/-! ## Ring buffer (`iwrb.c`): reference = the last `len` puts -/
section RING
open Ring
variable {α : Type}

/-- after any history of puts on a ring of `len ≥ 1` cells, `iwrb_iter_prev` yields the last
`min n len` values, newest first, and `iwrb_num_cached` is their number (the cursor-only `iwrb_back`
is outside this statement: on a wrapped ring it does not behave like a pop, see the design notes) -/
theorem ring_last_n (junk : α) (len : Nat) (hlen : 1 ≤ len) (xs : List α) :
    iterAll (xs.foldl put (create junk len)) = xs.reverse.take len ∧
    numCached (xs.foldl put (create junk len)) = min xs.length len := by
  have := inv_fold len hlen xs (create junk len) [] (inv_create junk len)
  simp only [List.nil_append] at this
  exact iterAll_of_inv len _ xs this

example : iterAll ([1, 2, 3, 4].foldl put (create 0 3)) = [4, 3, 2] := by decide

/-- calls of the ring API that change the ring -/
inductive RbOp (α : Type) where
  | put (x : α) | back | clear

def rbStep (r : Ring.Ring α) : RbOp α → Ring.Ring α
  | .put x => put r x
  | .back => back r
  | .clear => clear r

/-- the plain two-list reference (`Ring.RRef`): cells before the cursor, cells after it -/
def rbRef (L : Nat) (s : RRef α) : RbOp α → RRef α
  | .put x => s.put L x
  | .back => s.back
  | .clear => s.clear

theorem ring_rep (junk : α) (len : Nat) (hlen : 1 ≤ len) (ops : List (RbOp α)) :
    Rep len (ops.foldl rbStep (create junk len)) (ops.foldl (rbRef len) {}) := by
  suffices H : ∀ (ops : List (RbOp α)) r s, Rep len r s → Rep len (ops.foldl rbStep r) (ops.foldl (rbRef len) s) from
    H ops _ _ (rep_create junk len)
  intro ops
  induction ops with
  | nil => intro r s h; exact h
  | cons op ops ih =>
    intro r s h
    apply ih
    cases op with
    | put x => exact rep_put hlen h x
    | back => exact rep_back h
    | clear => exact rep_clear h

/-- **ring buffer = the two-list reference for every history of `put / back / clear`** on a ring of `len ≥ 1`
cells, wrapped or not: what the iterator loop of `iwrb.c` (`iwrb_iter_init / iwrb_iter_prev`, modelled branch by
branch) yields, what `iwrb_peek` returns and `iwrb_num_cached` are those of the reference; the cursor never
leaves the buffer -/
theorem ring_refines_ref (junk : α) (len : Nat) (hlen : 1 ≤ len) (ops : List (RbOp α)) :
    let r := ops.foldl rbStep (create junk len)
    let s := ops.foldl (rbRef len) ({} : RRef α)
    iterList r = s.iter ∧ peek r = s.peek ∧ numCached r = s.num len ∧ r.pos.natAbs ≤ r.buf.length := by
  intro r s
  have h : Rep len r s := ring_rep junk len hlen ops
  obtain ⟨h1, h2, h3⟩ := rep_obs h
  have hb := rep_bounds h
  refine ⟨?_, h2, h3, hb⟩
  rw [iterList_eq_iterAll r (by rw [h.1]; exact hlen) hb, h1]

/-- `iwrb_peek` returns the element the iterator yields first (the newest one), in every reachable state -
also on a wrapped ring and after any number of `iwrb_back` calls -/
theorem ring_peek_newest (junk : α) (len : Nat) (hlen : 1 ≤ len) (ops : List (RbOp α)) :
    peek (ops.foldl rbStep (create junk len)) = (iterList (ops.foldl rbStep (create junk len))).head? := by
  obtain ⟨h1, h2, _, _⟩ := ring_refines_ref junk len hlen ops
  rw [h1, h2]
  have h := ring_rep junk len hlen ops
  unfold RRef.peek RRef.iter
  cases ha : (ops.foldl (rbRef len) ({} : RRef α)).a with
  | nil =>
    obtain ⟨_, rest, _, hc⟩ := h
    cases hw : (ops.foldl (rbRef len) ({} : RRef α)).wrapped with
    | true => rw [hw, ha] at hc; simp at hc
    | false => rw [hw] at hc; simp at hc; simp [hc.1]
  | cons y a' => rfl

/-- what `iwrb_back` does in every reachable state `r`:
* ring not yet wrapped (`pos < 0`): a true pop - the newest element disappears, `num_cached` drops by one;
* wrapped ring, cursor beyond cell 1: **nothing is discarded** - the newest element becomes the oldest one the
  iterator yields (a rotation), `num_cached` stays `len`;
* wrapped ring, cursor at cell 1: the ring reports empty (`num_cached = 0`, `peek = NULL`, the iterator yields
  nothing) although all `len` cells still hold values. -/
theorem ring_back_spec (junk : α) (len : Nat) (hlen : 1 ≤ len) (ops : List (RbOp α)) :
    let r := ops.foldl rbStep (create junk len)
    (r.pos < 0 → iterList (back r) = (iterList r).tail ∧ numCached (back r) + 1 = numCached r) ∧
    (r.pos > 1 → iterList (back r) = (iterList r).tail ++ (iterList r).head?.toList ∧
        numCached (back r) = len ∧ numCached r = len) ∧
    (r.pos = 1 → iterList (back r) = [] ∧ numCached (back r) = 0 ∧ peek (back r) = none ∧ numCached r = len) := by
  intro r
  obtain ⟨h1, _, h3, _⟩ := ring_refines_ref junk len hlen ops
  obtain ⟨g1, g2, g3, _⟩ := ring_refines_ref junk len hlen (ops ++ [.back])
  simp only [List.foldl_append, List.foldl_cons, List.foldl_nil, rbStep, rbRef] at g1 g2 g3
  have h := ring_rep junk len hlen ops
  change iterList r = _ at h1
  change numCached r = _ at h3
  change iterList (back r) = _ at g1
  change peek (back r) = _ at g2
  change numCached (back r) = _ at g3
  change Rep len r _ at h
  generalize ops.foldl (rbRef len) ({} : RRef α) = s at h1 h3 g1 g2 g3 h
  obtain ⟨_, rest, _, hc⟩ := h
  rw [h1, h3, g1, g3, g2]
  cases hw : s.wrapped with
  | false =>
    rw [hw] at hc
    simp only [Bool.false_eq_true, if_false] at hc
    obtain ⟨hb, hpos⟩ := hc
    have e : s.back = { s with a := s.a.tail } := by unfold RRef.back; rw [hw]
    refine ⟨fun hneg => ?_, fun hgt => by omega, fun h1 => by omega⟩
    rw [e]
    cases ha : s.a with
    | nil => rw [ha] at hpos; simp at hpos; omega
    | cons y a' => simp [RRef.iter, RRef.num, hw, ha, hb]
  | true =>
    rw [hw] at hc
    simp only [if_true] at hc
    obtain ⟨hrest, hpos, hge⟩ := hc
    refine ⟨fun hneg => by omega, fun hgt => ?_, fun h1 => ?_⟩
    · cases ha : s.a with
      | nil => rw [ha] at hge; simp at hge
      | cons y a' =>
        cases ha' : a' with
        | nil => rw [ha, ha'] at hpos; simp at hpos; omega
        | cons z a'' =>
          have e : s.back = { a := a', b := s.b ++ [y], wrapped := true } := by
            unfold RRef.back; rw [hw, ha, ha']
          rw [e]
          simp [RRef.iter, RRef.num, hw, ha, ha']
    · cases ha : s.a with
      | nil => rw [ha] at hge; simp at hge
      | cons y a' =>
        cases ha' : a' with
        | nil =>
          have e : s.back = {} := by unfold RRef.back; rw [hw, ha, ha']
          rw [e]
          simp [RRef.iter, RRef.num, RRef.peek, hw]
        | cons z a'' => rw [ha, ha'] at hpos; simp at hpos; omega

/-- the wrapped-ring behaviour of `iwrb_back` really occurs: after four puts into three cells, `back` rotates -/
example : iterList (back ([1, 2, 3, 4, 5].foldl put (create 0 3))) = [4, 3, 5] := by decide

end RING

/-! ## Growable string and memory pool (`iwxstr.c`, `iwpool.c`) -/
section XSTR
open XStr

theorem grow_ge (a n : Nat) : n ≤ grow a n := by unfold grow; split <;> (try split) <;> omega

/-- calls of the `iwxstr` API that change the contents -/
inductive XsOp where
  | cat (b : Bytes) | unshift (b : Bytes) | shift (n : Nat) | pop (n : Nat) | insert (pos : Nat) (b : Bytes) | clear

def xsStep (x : XStr) : XsOp → XStr
  | .cat b => cat x b
  | .unshift b => unshift x b
  | .shift n => shift x n
  | .pop n => pop x n
  | .insert p b => (XStr.insert x p b).1
  | .clear => clear x

def xsRef : XsOp → Bytes → Bytes
  | .cat b, d => d ++ b
  | .unshift b, d => b ++ d
  | .shift n, d => d.drop n
  | .pop n, d => d.take (d.length - n)
  | .insert p b, d => if p ≤ d.length then d.take p ++ b ++ d.drop p else d
  | .clear, _ => []

/-- `iwxstr`: every call edits the byte string like the reference list and the allocation always has room for
the data plus the terminating NUL (`size < asize`), whatever the growth rule (double, or jump to the need) did -/
theorem xstr_refines_bytes (x : XStr) (h : x.data.length < x.asize) (op : XsOp) :
    (xsStep x op).data = xsRef op x.data ∧ (xsStep x op).data.length < (xsStep x op).asize := by
  cases op with
  | cat b =>
    have := grow_ge x.asize (x.data.length + b.length + 1)
    exact ⟨rfl, by simp [xsStep, cat]; omega⟩
  | unshift b =>
    have := grow_ge x.asize (x.data.length + b.length + 1)
    exact ⟨rfl, by simp [xsStep, unshift]; omega⟩
  | shift n =>
    simp only [xsStep, xsRef, shift]
    split
    · rename_i h0; subst h0; exact ⟨by simp, h⟩
    · exact ⟨rfl, by simp; omega⟩
  | pop n =>
    simp only [xsStep, xsRef, pop]
    split
    · rename_i h0; subst h0; exact ⟨by simp, h⟩
    · exact ⟨rfl, by simp; omega⟩
  | insert p b =>
    show (XStr.insert x p b).1.data = (if p ≤ x.data.length then x.data.take p ++ b ++ x.data.drop p else x.data) ∧
      (XStr.insert x p b).1.data.length < (XStr.insert x p b).1.asize
    by_cases hp : p > x.data.length
    · have e : XStr.insert x p b = (x, false) := by unfold XStr.insert; rw [if_pos hp]
      rw [e, if_neg (by omega)]; exact ⟨rfl, h⟩
    · by_cases hb : b.isEmpty = true
      · have e : XStr.insert x p b = (x, true) := by unfold XStr.insert; rw [if_neg hp, if_pos hb]
        have hb' : b = [] := by simpa using hb
        rw [e, if_pos (by omega), hb']; exact ⟨by simp, h⟩
      · have e : (XStr.insert x p b).1.data = x.data.take p ++ b ++ x.data.drop p ∧
            (XStr.insert x p b).1.asize = grow x.asize (x.data.length + b.length + 1) := by
          unfold XStr.insert; rw [if_neg hp, if_neg hb]; exact ⟨rfl, rfl⟩
        have := grow_ge x.asize (x.data.length + b.length + 1)
        rw [e.1, e.2, if_pos (by omega)]; exact ⟨rfl, by simp; omega⟩
  | clear => exact ⟨rfl, by simp [xsStep, clear]; omega⟩

/-! ### the statement-level model (`Model/XStrMem.lean`): buffer cells, `memmove`, terminator stores, `vsnprintf` -/

/-- calls on the memory-level state; `printf out` / `iprintf pos out` are `iwxstr_printf` /
`iwxstr_insert_printf` with a format that produces the bytes `out` -/
inductive XmOp where
  | cat (b : Bytes) | unshift (b : Bytes) | shift (n : Nat) | pop (n : Nat) | insert (pos : Nat) (b : Bytes) | clear
  | printf (out : Bytes) | iprintf (pos : Nat) (out : Bytes)

/-- the C functions, statement by statement; `none` = a memory access outside a buffer -/
def xmStep (junk : Nat) (x : XMem) : XmOp → Option XMem
  | .cat b => mcat junk x b b.length
  | .unshift b => munshift junk x b b.length
  | .shift n => mshift x n
  | .pop n => mpop x n
  | .insert p b => (minsert junk x p b b.length).map (·.1)
  | .clear => mclear x
  | .printf out => mprintf junk x out
  | .iprintf p out => (minsertPrintf junk x p out).map (·.1)

/-- the same calls on the abstract string (a print is the edit with the complete formatted output) -/
def xmAbs : XmOp → XsOp
  | .cat b => .cat b
  | .unshift b => .unshift b
  | .shift n => .shift n
  | .pop n => .pop n
  | .insert p b => .insert p b
  | .clear => .clear
  | .printf out => .cat out
  | .iprintf p out => .insert p out

theorem xabs_len (x : XMem) (inv : x.Inv) : x.abs.data.length = x.size := XMem.data_length x inv

/-- **every `iwxstr` editing function, statement by statement, is memory safe and computes the abstract edit**:
from a state with `size < asize` no `memcpy / memmove / ptr[i] = 0` leaves the heap buffer and no read leaves the
source buffer; afterwards data, `asize` (growth: double or jump) and the terminator flag are those of the
abstract model (and `size < asize` again).  Corner cases covered: counts larger than the size in `shift`/`pop`
(clamped), `shift` of everything (no move), zero counts (nothing stored), `insert` at `pos = size` and beyond
(error, nothing changed), empty insert, `unshift` into an empty string, the `size - pos + 1` move of `insert`
that carries the byte after the data along (so a string left unterminated by `iwxstr_set_size` stays so), and
both print functions for every formatted length. -/
theorem xstr_mem_refines (junk : Nat) (x : XMem) (inv : x.Inv) (op : XmOp) :
    ∃ x', xmStep junk x op = some x' ∧ x'.Inv ∧ x'.abs = xsStep x.abs (xmAbs op) := by
  have hlen := xabs_len x inv
  have key : ∀ (x' : XMem) (y : XStr), x'.data = y.data → x'.asize = y.asize → x'.term = y.term → y.ud = none →
      x'.abs = y := by
    intro x' y h1 h2 h3 h4
    cases y; simp only [XMem.abs] at *; subst h1 h2 h3 h4; rfl
  have hcat : ∀ (buf : Bytes) (n : Nat) (hn : n ≤ buf.length),
      ∃ x', mcat junk x buf n = some x' ∧ x'.Inv ∧ x'.abs = cat x.abs (buf.take n) := by
    intro buf n hn
    obtain ⟨x', e, i', d, a, t⟩ := mcat_spec junk x inv buf n hn
    refine ⟨x', e, i', key _ _ d ?_ t rfl⟩
    rw [a]; show grow x.asize _ = grow x.asize (x.abs.data.length + (buf.take n).length + 1)
    rw [hlen]; simp; rw [Nat.min_eq_left hn]
  have hins : ∀ (p : Nat) (buf : Bytes) (n : Nat) (hn : n ≤ buf.length),
      ∃ x', (minsert junk x p buf n).map (·.1) = some x' ∧ x'.Inv ∧ x'.abs = (XStr.insert x.abs p (buf.take n)).1 := by
    intro p buf n hn
    obtain ⟨x', ok, e, i', _, d, a, t⟩ := minsert_spec junk x inv p buf n hn
    refine ⟨x', by rw [e]; rfl, i', ?_⟩
    have hbl : (buf.take n).length = n := by simp; omega
    unfold XStr.insert
    rw [hlen]
    by_cases hp : p > x.size
    · rw [if_pos hp]
      rw [if_neg (by omega)] at d a
      exact key _ _ d a t rfl
    · rw [if_neg hp]
      rw [if_pos (by omega)] at d
      by_cases hb : (buf.take n).isEmpty = true
      · rw [if_pos hb]
        have h0 : n = 0 := by
          have : (buf.take n).length = 0 := by simpa using hb
          omega
        rw [if_neg (by omega)] at a
        refine key _ _ ?_ a t rfl
        rw [d, h0]; simp; rfl
      · rw [if_neg hb]
        have h0 : n ≠ 0 := by
          intro h0; apply hb; rw [h0]; rfl
        rw [if_pos ⟨by omega, h0⟩] at a
        refine key _ _ d ?_ t rfl
        rw [a, hbl]; rfl
  cases op with
  | cat b =>
    obtain ⟨x', e, i', a⟩ := hcat b b.length (Nat.le_refl _)
    exact ⟨x', e, i', by rw [a, List.take_length]; rfl⟩
  | unshift b =>
    obtain ⟨x', e, i', d, a, t⟩ := munshift_spec junk x inv b b.length (Nat.le_refl _)
    refine ⟨x', e, i', key _ _ (by rw [d, List.take_length]; rfl) ?_ t rfl⟩
    rw [a]; show grow x.asize _ = grow x.asize (x.abs.data.length + b.length + 1)
    rw [hlen]
  | shift n =>
    obtain ⟨x', e, i', d, a, t⟩ := mshift_spec x inv n
    refine ⟨x', e, i', ?_⟩
    show x'.abs = shift x.abs n
    unfold shift
    by_cases h0 : n = 0
    · rw [if_pos h0]; rw [if_pos h0] at t
      exact key _ _ (by rw [d, h0]; simp; rfl) a t rfl
    · rw [if_neg h0]; rw [if_neg h0] at t
      exact key _ _ d a t rfl
  | pop n =>
    obtain ⟨x', e, i', d, a, t⟩ := mpop_spec x inv n
    refine ⟨x', e, i', ?_⟩
    show x'.abs = pop x.abs n
    unfold pop
    by_cases h0 : n = 0
    · rw [if_pos h0]; rw [if_pos h0] at t
      exact key _ _ (by rw [d, h0]; simp; rfl) a t rfl
    · rw [if_neg h0]; rw [if_neg h0] at t
      exact key _ _ d a t rfl
  | insert p b =>
    obtain ⟨x', e, i', a⟩ := hins p b b.length (Nat.le_refl _)
    exact ⟨x', e, i', by rw [a, List.take_length]; rfl⟩
  | clear =>
    obtain ⟨x', e, i', d, a, t⟩ := mclear_spec x inv
    exact ⟨x', e, i', key _ _ d a t rfl⟩
  | printf out =>
    obtain ⟨s1, s2, s3, _⟩ := printfSource_spec junk out
    obtain ⟨x', e, i', a⟩ := hcat (printfSource junk out).1 (printfSource junk out).2 (by rw [s1]; exact s2)
    refine ⟨x', e, i', ?_⟩
    rw [a, s1, s3]; rfl
  | iprintf p out =>
    obtain ⟨s1, s2, s3, _⟩ := printfSource_spec junk out
    obtain ⟨x', e, i', a⟩ := hins p (printfSource junk out).1 (printfSource junk out).2 (by rw [s1]; exact s2)
    refine ⟨x', e, i', ?_⟩
    rw [a, s1, s3]; rfl

def xmRun (junk : Nat) : List XmOp → XMem → Option XMem
  | [], x => some x
  | op :: ops, x => (xmStep junk x op).bind (xmRun junk ops)

/-- **`iwxstr` = byte list for every call sequence from `iwxstr_create`**, down to buffer cells: no step
faults, and the final contents are the reference edits applied in order -/
theorem xstr_mem_run (junk siz : Nat) (ops : List XmOp) :
    ∃ x0 x, mcreate junk siz = some x0 ∧ xmRun junk ops x0 = some x ∧ x.Inv ∧
      x.data = ops.foldl (fun d op => xsRef (xmAbs op) d) [] := by
  have hpos : 0 < (if siz = 0 then AUNIT else siz) := by
    split
    · decide
    · omega
  have e0 : mcreate junk siz = some { mem := (List.replicate (if siz = 0 then AUNIT else siz) junk).set 0 0, size := 0 } := by
    unfold mcreate; rw [Arr.poke_some _ _ _ (by simpa using hpos)]; rfl
  suffices H : ∀ (ops : List XmOp) (x0 : XMem), x0.Inv → ∃ x, xmRun junk ops x0 = some x ∧ x.Inv ∧
      x.data = ops.foldl (fun d op => xsRef (xmAbs op) d) x0.data by
    generalize hx0 : ({ mem := (List.replicate (if siz = 0 then AUNIT else siz) junk).set 0 0, size := 0 } : XMem) = x0 at e0
    have i0 : x0.Inv := by subst hx0; unfold XMem.Inv; simpa using hpos
    have d0 : x0.data = [] := by subst hx0; simp [XMem.data]
    obtain ⟨x, h1, h2, h3⟩ := H ops x0 i0
    exact ⟨x0, x, e0, h1, h2, by rw [h3, d0]⟩
  intro ops
  induction ops with
  | nil => intro x0 i0; exact ⟨x0, rfl, i0, rfl⟩
  | cons op ops ih =>
    intro x0 i0
    obtain ⟨x1, e1, i1, a1⟩ := xstr_mem_refines junk x0 i0 op
    obtain ⟨x, e2, i2, d2⟩ := ih x1 i1
    refine ⟨x, by simp [xmRun, e1, e2], i2, ?_⟩
    rw [d2]
    have : x1.data = xsRef (xmAbs op) x0.data := by
      have h := (xstr_refines_bytes x0.abs (by show x0.data.length < x0.asize; rw [XMem.data_length x0 i0]; exact i0) (xmAbs op)).1
      rw [← a1] at h; exact h
    rw [this]; rfl

/-- **`iwxstr_printf` / `iwxstr_insert_printf` at the 1024-byte stack buffer**: for a format producing `out`,
the string gains exactly `out` (all of it, nothing else, NUL after it) whatever `out.length` is; the stack
buffer is the source exactly when `out.length ≤ 1023`, otherwise a heap buffer of `out.length + 1` bytes;
in particular for the three boundary lengths the source buffers have 1024, 1025 and 1026 cells -/
theorem xstr_printf_exact (junk : Nat) (x : XMem) (inv : x.Inv) (out : Bytes) :
    (∃ x', mprintf junk x out = some x' ∧ x'.Inv ∧ x'.data = x.data ++ out ∧ x'.size = x.size + out.length ∧
        x'.term = true) ∧
    (∀ pos, pos ≤ x.size → ∃ x', minsertPrintf junk x pos out = some (x', true) ∧ x'.Inv ∧
        x'.data = x.data.take pos ++ out ++ x.data.drop pos ∧ x'.term = x.term) ∧
    ((printfSource junk out).1.length = (if out.length < 1024 then 1024 else out.length + 1)) ∧
    (out.length = 1023 → (printfSource junk out).1.length = 1024) ∧
    (out.length = 1024 → (printfSource junk out).1.length = 1025) ∧
    (out.length = 1025 → (printfSource junk out).1.length = 1026) := by
  obtain ⟨s1, s2, s3, s4⟩ := printfSource_spec junk out
  have hsrc : (printfSource junk out).1.length = (if out.length < 1024 then 1024 else out.length + 1) := by
    split
    · rename_i h; exact s4.mpr h
    · rename_i h
      unfold printfSource
      have a := vsnprintf_spec junk PRINTF_BUF out (by decide)
      have b := vsnprintf_spec junk (out.length + 1) out (by omega)
      simp only [a.1]
      rw [if_pos (show out.length ≥ PRINTF_BUF by show out.length ≥ 1024; omega)]
      exact b.2.1
  refine ⟨?_, ?_, hsrc, fun h => by rw [hsrc, h]; rfl, fun h => by rw [hsrc, h]; rfl, fun h => by rw [hsrc, h]; rfl⟩
  · obtain ⟨x', e, i', d, _, t⟩ := mcat_spec junk x inv (printfSource junk out).1 (printfSource junk out).2 (by rw [s1]; exact s2)
    refine ⟨x', e, i', by rw [d, s1, s3], ?_, t⟩
    have := XMem.data_length x' i'
    rw [d, s1, s3, List.length_append, XMem.data_length x inv] at this
    exact this.symm
  · intro pos hp
    obtain ⟨x', ok, e, i', hok, d, _, t⟩ := minsert_spec junk x inv pos (printfSource junk out).1 (printfSource junk out).2 (by rw [s1]; exact s2)
    have : ok = true := by
      cases ok with
      | true => rfl
      | false => have := hok.mp rfl; omega
    subst this
    refine ⟨x', e, i', ?_, t⟩
    rw [d, if_pos hp, s1, s3]

/-- the constructors at buffer level: `iwxstr_wrap` makes room for the terminator when the caller's buffer is
exactly full (`size ≥ asize`), `iwxstr_clone` (fixed) copies the data into a buffer of the same size and
terminates it; both establish `size < asize` -/
theorem xstr_wrap_clone_spec (junk : Nat) (b : Bytes) (asize : Nat) (x : XMem) (inv : x.Inv) :
    (∃ y, mwrap junk b asize = some y ∧ y.Inv ∧ y.abs = wrap b asize) ∧
    (∃ c, mclone junk x = some c ∧ c.Inv ∧ c.abs = clone x.abs) := by
  obtain ⟨y, e1, i1, d1, a1, t1⟩ := mwrap_spec junk b asize
  obtain ⟨c, e2, i2, d2, a2, t2⟩ := mclone_spec junk x inv
  refine ⟨⟨y, e1, i1, ?_⟩, ⟨c, e2, i2, ?_⟩⟩
  · unfold XMem.abs wrap; rw [d1, a1, t1]
  · unfold XMem.abs clone; rw [d2, a2, t2]

example : printfBytes (List.replicate 1024 65) = some (List.replicate 1024 65) := printfBytes_eq _

end XSTR

section POOL
open Pool

/-- `iwpool_alloc`: the block `[off, off + roundup siz)` lies inside the current unit, starts at or after
everything handed out before from that unit (bump allocation: blocks never overlap), and is 8-aligned when the
unit's fill level was -/
theorem pool_alloc_bump (p : Pool.Pool) (siz : Nat) (h : p.usiz ≤ p.asiz) :
    let r := alloc p siz
    r.1.usiz ≤ r.1.asiz ∧ r.2.2 + roundup8 siz = r.1.usiz ∧
    ((r.1.units = p.units ∧ r.2.2 = p.usiz) ∨ (r.1.units = p.units + 1 ∧ r.2.1 = p.units ∧ r.2.2 = 0)) := by
  have hr : ∀ n, n ≤ roundup8 n := by
    intro n; unfold roundup8 ALIGN; simp [Gen.C18.POOL_ALIGN]; omega
  simp only [alloc]
  split
  · refine ⟨?_, by simp, Or.inr ⟨rfl, rfl, rfl⟩⟩
    have := hr (p.usiz + roundup8 siz + p.asiz)
    simp only; omega
  · rename_i hc
    exact ⟨by simp only; omega, rfl, Or.inl ⟨rfl, rfl⟩⟩

/-- **`iwpool_split_string` = the reference split**, for every string, separator set and trimming flag: the
index scan with its end-of-string special case (`*(ep + 1) == 0`), modelled branch by branch, returns
`List.splitOnP` at the separator characters, without the empty piece that follows a trailing separator (and
without the single empty piece of an empty string), every piece trimmed by the two pointer loops when
`ignore_whitespace` is set.  `iwpool_printf_split` splits the complete formatted output the same way.
Assumption: the string holds no NUL byte (it is a C string). -/
theorem pool_split_reference (hay chars : Bytes) (ws : Bool) :
    splitTokens hay chars ws = refSplit hay chars ws ∧ printfSplit hay chars ws = refSplit hay chars ws := by
  refine ⟨splitTokens_eq_ref hay chars ws, ?_⟩
  unfold printfSplit printfAlloc
  simp only [Nat.add_sub_cancel, List.take_length]
  exact splitTokens_eq_ref hay chars ws

/-- the trimming rule of `iwpool_split_string` (fixed code): a token loses exactly its leading and trailing
white space (`iwchars_is_space`: blank, `\t \n \v \f \r`) - `t = l ++ trimmed ++ r` with `l`, `r` all white space
and `trimmed` neither starting nor ending with white space; the two pointer loops never leave `[sp, ep)` -/
theorem pool_trim_rule (hay : Bytes) (sp ep : Nat) (h1 : sp ≤ ep) (h2 : ep ≤ hay.length) :
    token hay true sp ep = trimTok (slice hay sp ep) ∧ token hay false sp ep = slice hay sp ep ∧
    (∃ l r, slice hay sp ep = l ++ trimTok (slice hay sp ep) ++ r ∧ (∀ c ∈ l, isSpace c = true) ∧ (∀ c ∈ r, isSpace c = true) ∧
      (∀ c, (trimTok (slice hay sp ep)).head? = some c → isSpace c = false) ∧
      (∀ c, (trimTok (slice hay sp ep)).getLast? = some c → isSpace c = false)) ∧
    sp ≤ trimL hay ep (ep - sp) sp ∧ trimL hay ep (ep - sp) sp ≤ trimR hay (trimL hay ep (ep - sp) sp) (ep - trimL hay ep (ep - sp) sp) ep ∧
    trimR hay (trimL hay ep (ep - sp) sp) (ep - trimL hay ep (ep - sp) sp) ep ≤ ep := by
  obtain ⟨a, b, _⟩ := trimL_spec hay ep h2 (ep - sp) sp (Nat.le_refl _) h1
  obtain ⟨c, d, _⟩ := trimR_spec hay (trimL hay ep (ep - sp) sp) (ep - trimL hay ep (ep - sp) sp) ep (Nat.le_refl _) b h2
  exact ⟨by rw [token_eq hay true sp ep h1 h2]; rfl, rfl, trimTok_spec _, a, c, d⟩

/-- `iwpool_printf`: the size estimate (`vsnprintf` into one byte, plus one) is the formatted length plus the
NUL, and the second `vsnprintf` into the pool block of that size stores the complete output -/
theorem pool_printf_exact (out : Bytes) : printfAlloc out = (out.length + 1, out) := by
  unfold printfAlloc; simp

/-- **child pools, their references, orphans, user data** (`held` = the user data owned by some live pool of the
family: the main pool, its attached children, the orphans).  For every state with distinct handles and every call,
*(ids handed to free functions) + held after = held before (+ the id newly set)*:
* attach: nothing moves;
* `iwpool_destroy` through a child handle `c` (attached child or orphan): with more than one reference on that pool
  it returns `false`, frees nothing and the pool stays where it is (an attached child stays attached); on the last
  reference it returns `true` and frees exactly that pool's user data, siblings and the other orphans keep theirs
  (fixed `_parent_remove_child`); an unknown handle changes nothing;
* `iwpool_user_data_set` through a child handle frees that pool's previous user data and takes the new one;
* `iwpool_ref` through a child handle moves nothing;
* `iwpool_destroy` of the parent on its last reference frees exactly the user data of the children that nobody else
  references (chain order) and then its own; the referenced children become orphans - each with one reference fewer
  and its user data - next to the orphans there already are; no child stays attached, the main pool owns nothing
  any more;
* `iwpool_destroy` of the parent with references left only drops one. -/
theorem pool_children_ownership (s : Pool.Sys) (ok : KidsOk s) (c id : Nat) :
    (held (Pool.attach s Pool.createEmpty).1 = held s ∧ KidsOk (Pool.attach s Pool.createEmpty).1) ∧
    (KidsOk (destroyKid s c).1 ∧ (↑(destroyKid s c).2.2 : Multiset Nat) + held (destroyKid s c).1 = held s ∧
      (∀ q, lookup s c = some q → 1 < q.refs → (destroyKid s c).2 = (some false, []) ∧ held (destroyKid s c).1 = held s) ∧
      (∀ q, lookup s c = some q → q.refs ≤ 1 → (destroyKid s c).2 = (some true, q.ud.toList)) ∧
      (lookup s c = none → destroyKid s c = (s, none, []))) ∧
    (∀ s' f, kidUdSet s c id = some (s', f) → KidsOk s' ∧ (↑f : Multiset Nat) + held s' = held s + ↑[id]) ∧
    (∀ s' n, refKid s c = some (s', n) → KidsOk s' ∧ held s' = held s) ∧
    (∀ s' f, Pool.destroy s = (s', some f) → s.main.refs ≤ 1 ∧ KidsOk s' ∧ (↑f : Multiset Nat) + held s' = held s ∧
      f = kidsFreed s.kids ++ s.main.ud.toList ∧ s'.orphans = survivors s.kids ++ s.orphans ∧
      heldK s.kids = ↑(kidsFreed s.kids) + heldK (survivors s.kids) ∧
      (∀ h q, (h, q) ∈ survivors s.kids ↔ ∃ q0, (h, q0) ∈ s.kids ∧ 1 < q0.refs ∧ q = unref q0) ∧
      s'.kids = [] ∧ s'.main.ud = none ∧ s'.gone = true) ∧
    (∀ s', Pool.destroy s = (s', none) → held s' = held s ∧ KidsOk s' ∧ 1 < s.main.refs) := by
  refine ⟨⟨?_, kidsOk_attach s _ ok⟩, ⟨(held_destroyKid s c ok).1, (held_destroyKid s c ok).2, ?_, ?_, destroyKid_nochild s c⟩,
    fun s' f h => held_kidUdSet s c id ok s' f h, fun s' n h => held_refKid s c ok s' n h, ?_, ?_⟩
  · rw [held_attach]; show _ + (↑([] : List Nat) : Multiset Nat) = _; simp
  · intro q hq hr
    have e := destroyKid_result s c q hq
    rw [if_pos hr] at e
    refine ⟨e, ?_⟩
    have hb := (held_destroyKid s c ok).2
    rw [e] at hb
    simpa using hb
  · intro q hq hr
    have e := destroyKid_result s c q hq
    rw [if_neg (by omega)] at e
    exact e
  · intro s' f h
    obtain ⟨hb, hk, hg, hf, ho, hgone⟩ := held_destroy s s' f h
    refine ⟨?_, hk ok, hb, hf, ho, survivors_split s.kids, mem_survivors s.kids, ?_, ?_, hgone⟩
    · unfold Pool.destroy at h; split at h
      · simp at h
      · omega
    · exact (hg hgone).1
    · exact (hg hgone).2
  · intro s' h
    obtain ⟨e, hk, _, hr⟩ := destroy_unref s s' h
    exact ⟨e, hk ok, hr⟩

example : splitTokens [32, 97, 32, 44, 44, 98, 44] [44] true = [[97], [], [98]] := by decide
end POOL

/-! ## AVL tree (`iwavl.c`): reference = strictly increasing list of keys -/
section AVL
open Avl

/-- `iwavl_insert` + `iwavl_rebalance_after_insert` on a search tree: the in-order key sequence becomes the
reference set insertion, and the call reports "inserted" exactly when the key was absent. -/
theorem avl_insert_refines (t : Tree) (x : Int) (h : Bst t) :
    toList (insert t x).1 = insL x (toList t) ∧ ((insert t x).2 = true ↔ x ∉ toList t) := by
  refine ⟨toList_insertAux x t h, ?_⟩
  show (insertAux x t).2.1 = true ↔ _
  rw [insertAux_flag, ← mem_iff x t h]; simp

/-- `iwavl_remove` of the node holding `x` (found by `iwavl_lookup`): the in-order sequence loses exactly `x`. -/
theorem avl_remove_refines (t : Tree) (x : Int) (h : Bst t) :
    toList (remove t x).1 = (toList t).erase x ∧ ((remove t x).2 = true ↔ x ∈ toList t) := by
  refine ⟨toList_removeAux x t h, ?_⟩
  show (removeAux x t).2.1 = true ↔ _
  rw [removeAux_flag, mem_iff x t h]

/-- the search-tree order survives insertion and removal, whatever rotations were done -/
theorem avl_bst (t : Tree) (x : Int) (h : Bst t) : Bst (insert t x).1 ∧ Bst (remove t x).1 := by
  constructor
  · unfold Bst; rw [(avl_insert_refines t x h).1]; exact insL_sorted x _ h
  · unfold Bst; rw [(avl_remove_refines t x h).1]; exact List.Pairwise.sublist List.erase_sublist h

/-- every stored balance factor stays the true height difference in {-1,0,1}: all four rotation cases of
`avl_handle_subtree_growth` and all six of `avl_handle_subtree_shrink` restore the AVL condition -/
theorem avl_balanced (t : Tree) (x : Int) (h : Bal t) : Bal (insert t x).1 ∧ Bal (remove t x).1 :=
  ⟨(insertAux_bal x t h).1, (removeAux_bal x t h).1⟩

/-- `iwavl_lookup` finds exactly the keys of the reference list -/
theorem avl_lookup_iff (t : Tree) (x : Int) (h : Bst t) : mem x t = true ↔ x ∈ toList t := mem_iff x t h

/-- `iwavl_lookup_bounds` (used by the allocator): greatest key ≤ x and least key ≥ x of the reference list -/
theorem avl_bounds_spec (t : Tree) (x : Int) (h : Bst t) :
    lookupBounds t x = (floorL x (toList t), ceilL x (toList t)) := by
  unfold lookupBounds; rw [bounds_spec x t none none h]; simp

/-- calls of the tree API -/
inductive AvlOp where
  | ins (x : Int)
  | rm (x : Int)

def avlRun : List AvlOp → Tree → Tree
  | [], t => t
  | .ins x :: ops, t => avlRun ops (insert t x).1
  | .rm x :: ops, t => avlRun ops (remove t x).1

def avlRef : List AvlOp → List Int → List Int
  | [], s => s
  | .ins x :: ops, s => avlRef ops (insL x s)
  | .rm x :: ops, s => avlRef ops (s.erase x)

/-- for every sequence of inserts and removes starting from the empty tree: the tree is a balanced search
tree whose in-order contents are those of the reference set -/
theorem avl_refines_set (ops : List AvlOp) :
    Bst (avlRun ops .nil) ∧ Bal (avlRun ops .nil) ∧ toList (avlRun ops .nil) = avlRef ops [] := by
  suffices H : ∀ ops t, Bst t → Bal t → Bst (avlRun ops t) ∧ Bal (avlRun ops t) ∧ toList (avlRun ops t) = avlRef ops (toList t) by
    simpa [toList] using H ops .nil (by simp [Bst, toList]) (by simp [Bal])
  intro ops
  induction ops with
  | nil => intro t h1 h2; exact ⟨h1, h2, rfl⟩
  | cons op ops ih =>
    intro t h1 h2
    cases op with
    | ins x =>
      have := ih (insert t x).1 (avl_bst t x h1).1 (avl_balanced t x h2).1
      rw [(avl_insert_refines t x h1).1] at this
      exact this
    | rm x =>
      have := ih (remove t x).1 (avl_bst t x h1).2 (avl_balanced t x h2).2
      rw [(avl_remove_refines t x h1).1] at this
      exact this

example : toList (avlRun [.ins 3, .ins 1, .ins 2, .rm 3] .nil) = [1, 2] := by decide

end AVL

/-! ## Ownership: every owned element is freed exactly once -/
section OWNED
open HMap Arr

variable {κ : Type} [DecidableEq κ] {α : Type}

/-! ### hash map: keys (unless integer keys) and values go to `kv_free_fn` -/

/-- the tokens whose ownership a call passes to the map: the pair of a `put`; the new key of a `rename`, but
only when the old key exists (otherwise `iwhmap_rename` leaves `key_new` to the caller) -/
def hmTaken (h : κ → Nat) (m : Map κ) : HmOp κ → List (Tok κ)
  | .put k v => freeToks m.ownKeys (some k) v
  | .ren a b => if (locate m a (h a)).isSome then freeToks m.ownKeys (some b) 0 else []
  | _ => []

/-- the tokens a call hands to `kv_free_fn` -/
def hmFreed (h : κ → Nat) (m : Map κ) : HmOp κ → List (Tok κ)
  | .clear => (HMap.clear m).2
  | op => (hmStep h m op).2.1

/-- ledger of a hash-map history followed by `iwhmap_destroy` -/
def hmLedger (h : κ → Nat) : List (HmOp κ) → Map κ → Ledger (Tok κ)
  | [], m => { freed := HMap.destroy m }
  | op :: ops, m => Ledger.add { taken := hmTaken h m op, freed := hmFreed h m op } (hmLedger h ops (hmStep h m op).1)

theorem hm_step_ledger {h : κ → Nat} {m : Map κ} {s : Ref κ} (r : R h m s) {al : List (κ × Nat)} (a : AL s al)
    (op : HmOp κ) :
    (refStep s op).1.own = s.own ∧ ∃ al', AL (refStep s op).1 al' ∧
      (↑(hmFreed h m op) : Multiset (Tok κ)) + held s.own al' = held s.own al + ↑(hmTaken h m op) := by
  have hstep := (hmap_step_refines r op).2
  cases op with
  | put k v =>
    obtain ⟨o, al', a1, a2⟩ := a.put k v
    refine ⟨o, al', a1, ?_⟩
    have : hmFreed h m (.put k v) = (s.put k v).2 := by
      show (hmStep h m (.put k v)).2.1 = _
      rw [hstep]; rfl
    rw [this, a2]
    show _ = _ + (↑(freeToks m.ownKeys (some k) v) : Multiset (Tok κ))
    rw [r.own]; rfl
  | get k =>
    have hf : ∀ x, (refStep s (.get k)).1.f x = s.f x := by
      intro x
      show (if (s.f k).isSome then s.touchIfOn k else s).f x = s.f x
      split
      · rw [(touchIfOn_f s k).1]
      · rfl
    have ho : (refStep s (.get k)).1.own = s.own := by
      show (if (s.f k).isSome then s.touchIfOn k else s).own = s.own
      split
      · exact (touchIfOn_f s k).2
      · rfl
    refine ⟨ho, al, a.congr hf, ?_⟩
    have : hmFreed h m (.get k) = [] := rfl
    rw [this]; show _ = _ + (↑([] : List (Tok κ)) : Multiset (Tok κ)); simp
  | rm k =>
    obtain ⟨o, al', a1, a2⟩ := a.remove k
    refine ⟨o, al', a1, ?_⟩
    have : hmFreed h m (.rm k) = (s.remove k).2.2 := by
      show (hmStep h m (.rm k)).2.1 = _
      rw [hstep]; rfl
    rw [this, a2]; show _ = _ + (↑([] : List (Tok κ)) : Multiset (Tok κ)); simp
  | ren x y =>
    obtain ⟨o, al', a1, a2⟩ := a.rename x y
    refine ⟨o, al', a1, ?_⟩
    have : hmFreed h m (.ren x y) = (s.rename x y).2 := by
      show (hmStep h m (.ren x y)).2.1 = _
      rw [hstep]; rfl
    rw [this, a2]
    show _ = _ + (↑(if (locate m x (h x)).isSome then freeToks m.ownKeys (some y) 0 else []) : Multiset (Tok κ))
    rw [locate_isSome r, r.own]
    cases (s.f x).isSome <;> rfl
  | clear =>
    refine ⟨rfl, [], ⟨by simp, fun k v => by simp [refStep, Ref.clear]⟩, ?_⟩
    have : hmFreed h m .clear = allToks m := rfl
    rw [this, allToks_held r a, held_nil]
    show _ = _ + (↑([] : List (Tok κ)) : Multiset (Tok κ)); simp
  | lru n =>
    refine ⟨rfl, al, a.congr (fun _ => rfl), ?_⟩
    have : hmFreed h m (.lru n) = [] := rfl
    rw [this]; show _ = _ + (↑([] : List (Tok κ)) : Multiset (Tok κ)); simp

theorem hm_ledger_held (h : κ → Nat) : ∀ (ops : List (HmOp κ)) (m : Map κ) (s : Ref κ) (al : List (κ × Nat)),
    R h m s → AL s al →
    (↑(hmLedger h ops m).freed : Multiset (Tok κ)) = ↑(hmLedger h ops m).taken + held s.own al := by
  intro ops
  induction ops with
  | nil =>
    intro m s al r a
    show (↑(HMap.destroy m) : Multiset (Tok κ)) = ↑([] : List (Tok κ)) + held s.own al
    rw [show HMap.destroy m = allToks m from rfl, allToks_held r a]; simp
  | cons op ops ih =>
    intro m s al r a
    obtain ⟨o, al', a1, a2⟩ := hm_step_ledger r a op
    have r' := (hmap_step_refines r op).1
    have := ih _ _ al' r' a1
    rw [o] at this
    show (↑(hmFreed h m op ++ (hmLedger h ops (hmStep h m op).1).freed) : Multiset (Tok κ)) =
      ↑(hmTaken h m op ++ (hmLedger h ops (hmStep h m op).1).taken) + held s.own al
    rw [← Multiset.coe_add, ← Multiset.coe_add, this]
    calc (↑(hmFreed h m op) : Multiset (Tok κ)) + (↑(hmLedger h ops (hmStep h m op).1).taken + held s.own al')
        = ↑(hmLedger h ops (hmStep h m op).1).taken + (↑(hmFreed h m op) + held s.own al') := by abel
      _ = ↑(hmLedger h ops (hmStep h m op).1).taken + (held s.own al + ↑(hmTaken h m op)) := by rw [a2]
      _ = _ := by abel

/-- hash map: over any history from `iwhmap_create…` to `iwhmap_destroy`, for any hash function, with or
without LRU eviction: the tokens given to `kv_free_fn` (replaced pairs, removed pairs, renamed-over keys,
eviction victims, `clear`, `destroy`) are exactly the tokens taken over -/
theorem hmap_freed_exactly_once (h : κ → Nat) (own : Bool) (ops : List (HmOp κ)) :
    (hmLedger h ops (HMap.empty own)).Balanced := by
  have := hm_ledger_held h ops (HMap.empty own) (Ref.empty own) [] (sim_empty h own)
    ⟨by simp, fun k v => by simp [Ref.empty]⟩
  unfold Ledger.Balanced
  rw [this, held_nil]
  have hb : ∀ (ops : List (HmOp κ)) (m : Map κ), (hmLedger h ops m).back = [] := by
    intro ops
    induction ops with
    | nil => intro m; rfl
    | cons op ops ih => intro m; show [] ++ (hmLedger h ops _).back = []; rw [ih]; rfl
  rw [hb]; simp

/-! ### `iwlist`: items are heap copies owned by the list -/

/-- one `iwlist` call with its ledger: inserted items are taken over; `set` releases the replaced item;
`pop / shift / remove` hand the item to the caller -/
def plLedgerStep (junk : α) (l : PList α) : PlOp α → Option (PList α × Ledger α)
  | .push x => (l.push junk x).map fun l' => (l', { taken := [x] })
  | .unshift x => (l.unshift junk x).map fun l' => (l', { taken := [x] })
  | .insert i x => (l.insert junk i x).map fun r => (r.1, { taken := if r.2 then [x] else [] })
  | .set i x => (l.set i x).map fun r => (r.1, if r.2 then { taken := [x], freed := itemL (l.get i) } else {})
  | .pop => some (l.pop.1, { back := itemL l.pop.2 })
  | .shift => l.shift.map fun r => (r.1, { back := itemL r.2 })
  | .remove i => (l.remove i).map fun r => (r.1, { back := itemL r.2 })

/-- ledger of an `iwlist` history followed by `iwlist_destroy` (which frees the items of the live window);
`none` = some call left its allocation -/
def plLedger (junk : α) : List (PlOp α) → PList α → Option (Ledger α)
  | [], l => some { freed := l.window }
  | op :: ops, l => (plLedgerStep junk l op).bind fun r => (plLedger junk ops r.1).map (Ledger.add r.2)

theorem pl_get_window (l : PList α) (i : Nat) (hi : i < l.num) : l.get i = some l.window[i]? := by
  unfold PList.get; rw [if_neg (by omega), PList.window_get, if_pos hi]

theorem pl_step_ledger (junk : α) (l : PList α) (wf : l.Wf) (op : PlOp α) :
    ∃ l' L, plLedgerStep junk l op = some (l', L) ∧ l'.Wf ∧
      (↑L.freed : Multiset α) + ↑L.back + ↑l'.window = ↑l.window + ↑L.taken := by
  have hl := PList.window_length l wf
  cases op with
  | push x =>
    obtain ⟨l', e, w, hw⟩ := PList.push_spec junk l wf x
    refine ⟨l', { taken := [x] }, by simp [plLedgerStep, e], w, ?_⟩
    show (↑([] : List α) : Multiset α) + ↑([] : List α) + ↑l'.window = ↑l.window + ↑[x]
    rw [hw, ← Multiset.coe_add]; ms_norm
  | unshift x =>
    obtain ⟨l', e, w, hw⟩ := PList.unshift_spec junk l wf x
    refine ⟨l', { taken := [x] }, by simp [plLedgerStep, e], w, ?_⟩
    show (↑([] : List α) : Multiset α) + ↑([] : List α) + ↑l'.window = ↑l.window + ↑[x]
    rw [hw, ms_cons]; ms_norm
  | insert i x =>
    obtain ⟨l', ok, e, w, hok, hw⟩ := PList.insert_spec junk l wf i x
    refine ⟨l', { taken := if ok then [x] else [] }, by simp [plLedgerStep, e], w, ?_⟩
    show (↑([] : List α) : Multiset α) + ↑([] : List α) + ↑l'.window = ↑l.window + ↑(if ok = true then [x] else [])
    rw [hw]
    by_cases hi : i ≤ l.window.length
    · have : ok = true := hok.mpr hi
      rw [if_pos hi, this, if_pos rfl, ms_insert]; ms_norm
    · have : ok = false := by cases ok with | true => exact absurd (hok.mp rfl) hi | false => rfl
      rw [if_neg hi, this, if_neg (by simp)]; ms_norm
  | set i x =>
    obtain ⟨l', ok, e, w, hok, hw⟩ := PList.set_spec l wf i x
    refine ⟨l', if ok then { taken := [x], freed := itemL (l.get i) } else {}, by simp [plLedgerStep, e], w, ?_⟩
    rw [hw]
    by_cases hi : i < l.window.length
    · have : ok = true := hok.mpr hi
      rw [if_pos hi, this, if_pos rfl, pl_get_window l i (by omega), itemL_get _ _ hi]
      show (↑[l.window[i]] : Multiset α) + ↑([] : List α) + ↑(l.window.set i x) = ↑l.window + ↑[x]
      rw [← ms_set l.window i x hi]; ms_norm; abel
    · have : ok = false := by cases ok with | true => exact absurd (hok.mp rfl) hi | false => rfl
      rw [if_neg hi, this, if_neg (by simp)]
      show (↑([] : List α) : Multiset α) + ↑([] : List α) + ↑l.window = ↑l.window + ↑([] : List α)
      ms_norm
  | pop =>
    obtain ⟨w, hw, hr⟩ := PList.pop_spec l wf
    refine ⟨l.pop.1, { back := itemL l.pop.2 }, rfl, w, ?_⟩
    show (↑([] : List α) : Multiset α) + ↑(itemL l.pop.2) + ↑l.pop.1.window = ↑l.window + ↑([] : List α)
    rw [hw, hr]
    by_cases hn : l.num = 0
    · rw [if_pos hn]
      have : l.window = [] := List.eq_nil_of_length_eq_zero (by omega)
      rw [this, List.take_nil]; rfl
    · rw [if_neg hn, itemL_get _ _ (by omega)]
      conv => rhs; rw [ms_pop l.window l.num hl (by omega)]
      ms_norm; abel
  | shift =>
    obtain ⟨l', r, e, w, hw, hr⟩ := PList.shift_spec l wf
    refine ⟨l', { back := itemL r }, by simp [plLedgerStep, e], w, ?_⟩
    show (↑([] : List α) : Multiset α) + ↑(itemL r) + ↑l'.window = ↑l.window + ↑([] : List α)
    rw [hw, hr]
    by_cases hn : l.num = 0
    · rw [if_pos hn]
      have : l.window = [] := List.eq_nil_of_length_eq_zero (by omega)
      rw [this]; rfl
    · rw [if_neg hn]
      have hp : 0 < l.window.length := by omega
      rw [itemL_get _ _ hp]
      conv => rhs; rw [ms_shift l.window hp]
      ms_norm; abel
  | remove i =>
    obtain ⟨l', r, e, w, hr, hw⟩ := PList.remove_spec l wf i
    refine ⟨l', { back := itemL r }, by simp [plLedgerStep, e], w, ?_⟩
    show (↑([] : List α) : Multiset α) + ↑(itemL r) + ↑l'.window = ↑l.window + ↑([] : List α)
    rw [hw, hr]
    by_cases hi : i < l.window.length
    · rw [if_pos hi, if_pos hi, itemL_get _ _ hi]
      conv => rhs; rw [ms_remove l.window i hi]
      ms_norm; abel
    · rw [if_neg hi, if_neg hi]
      show (↑([] : List α) : Multiset α) + ↑([] : List α) + ↑l.window = ↑l.window + ↑([] : List α)
      ms_norm

theorem pl_ledger_held (junk : α) : ∀ (ops : List (PlOp α)) (l : PList α), l.Wf →
    ∃ L, plLedger junk ops l = some L ∧ (↑L.freed : Multiset α) + ↑L.back = ↑L.taken + ↑l.window := by
  intro ops
  induction ops with
  | nil => intro l _; exact ⟨_, rfl, by simp⟩
  | cons op ops ih =>
    intro l wf
    obtain ⟨l', L1, e, w, b⟩ := pl_step_ledger junk l wf op
    obtain ⟨L2, e2, b2⟩ := ih l' w
    exact ⟨L1.add L2, by simp [plLedger, e, e2], Ledger.add_balance L1 L2 _ _ b b2⟩

/-- `iwlist`: over any history from `iwlist_create` to `iwlist_destroy` no call faults, and the items freed
(replaced by `set`, or still in the window at destroy) plus the items handed to the caller by
`pop / shift / remove` are exactly the items inserted -/
theorem plist_freed_exactly_once (junk : α) (anum : Nat) (ops : List (PlOp α)) :
    ∃ L, plLedger junk ops (PList.create junk anum) = some L ∧ L.Balanced := by
  have h0 : (PList.create junk anum).Wf := by
    unfold PList.create PList.Wf; simp; split <;> omega
  obtain ⟨L, e, b⟩ := pl_ledger_held junk ops _ h0
  refine ⟨L, e, ?_⟩
  unfold Ledger.Balanced
  rw [b]
  have : (PList.create junk anum).window = [] := by unfold PList.create PList.window; simp
  rw [this]; simp

/-! ### user data of `iwxstr` -/

/-- calls that move ownership of the user data of an `iwxstr` -/
inductive UdOp where
  | set (id : Nat) | detach

/-- ledger of an `iwxstr` user-data history followed by `iwxstr_destroy` / `iwxstr_destroy_keep_ptr` -/
def xsLedger : List UdOp → XStr.XStr → Ledger Nat
  | [], x => { freed := XStr.destroy x }
  | .set id :: ops, x => Ledger.add { taken := [id], freed := (XStr.udSet x id).2 } (xsLedger ops (XStr.udSet x id).1)
  | .detach :: ops, x => Ledger.add { back := x.ud.toList } (xsLedger ops (XStr.udDetach x).1)

theorem xs_ledger_held : ∀ (ops : List UdOp) (x : XStr.XStr),
    (↑(xsLedger ops x).freed : Multiset Nat) + ↑(xsLedger ops x).back = ↑(xsLedger ops x).taken + ↑x.ud.toList := by
  intro ops
  induction ops with
  | nil =>
    intro x
    show (↑x.ud.toList : Multiset Nat) + ↑([] : List Nat) = ↑([] : List Nat) + ↑x.ud.toList
    ms_norm
  | cons op ops ih =>
    intro x
    cases op with
    | set id =>
      refine Ledger.add_balance { taken := [id], freed := (XStr.udSet x id).2 } _ _ _ ?_ (ih (XStr.udSet x id).1)
      show (↑x.ud.toList : Multiset Nat) + ↑([] : List Nat) + ↑[id] = ↑x.ud.toList + ↑[id]
      ms_norm
    | detach =>
      refine Ledger.add_balance { back := x.ud.toList } _ _ _ ?_ (ih (XStr.udDetach x).1)
      show (↑([] : List Nat) : Multiset Nat) + ↑x.ud.toList + ↑([] : List Nat) = ↑x.ud.toList + ↑([] : List Nat)
      ms_norm

/-! ### `iwpool`: user data of the pool, of attached child pools and of orphans -/

/-- calls that move ownership around a pool family: user data of the main pool, child pools with their own user
data and their own reference counts (`cref` = `iwpool_ref` on a child handle, `cdestroy` = `iwpool_destroy` on a
child handle: an attached child or an orphan), extra references on the main pool; `destroy` is `iwpool_destroy`
on the main pool -/
inductive PoOp where
  | ud (id : Nat) | detach | child (c : Pool.Pool) | cud (c id : Nat) | cref (c : Nat) | cdestroy (c : Nat) | ref | destroy

/-- one call of a pool history: the next state and what the call takes over / frees / hands back.  Once the main
pool is freed (`gone`) calls on it are not part of a history (they would be use-after-free): they are skipped;
the child-handle calls go on working on the orphans. -/
def poStep (s : Pool.Sys) : PoOp → Pool.Sys × Ledger Nat
  | .ud id => if s.gone then (s, {}) else
      ({ s with main := (Pool.udSet s.main id).1 }, { taken := [id], freed := (Pool.udSet s.main id).2 })
  | .detach => if s.gone then (s, {}) else
      ({ s with main := (Pool.udDetach s.main).1 }, { back := (Pool.udDetach s.main).2 })
  | .child c => if s.gone then (s, {}) else ((Pool.attach s { c with ud := none }).1, {})
  | .cud c id =>
    match Pool.kidUdSet s c id with
    | none => (s, {})
    | some (s', f) => (s', { taken := [id], freed := f })
  | .cref c =>
    match Pool.refKid s c with
    | none => (s, {})
    | some (s', _) => (s', {})
  | .cdestroy c => ((Pool.destroyKid s c).1, { freed := (Pool.destroyKid s c).2.2 })
  | .ref => if s.gone then (s, {}) else (Pool.ref s, {})
  | .destroy => if s.gone then (s, {}) else
    match Pool.destroy s with
    | (s', none) => (s', {})
    | (s', some f) => (s', { freed := f })

/-- the state after a history -/
def poRun : List PoOp → Pool.Sys → Pool.Sys
  | [], s => s
  | op :: ops, s => poRun ops (poStep s op).1

/-- every pool of the family has been freed: the main pool and all the orphans it left behind -/
def poFinished (s : Pool.Sys) : Bool := s.gone && s.orphans.isEmpty

/-- ledger of a pool history; it is defined (`some`) for the histories after which the whole family is gone: the
main pool was destroyed on its last reference and every orphan by its last holder.  `iwpool_destroy` calls that
only drop a reference, on the main pool or on a child, may come anywhere. -/
def poLedger : List PoOp → Pool.Sys → Option (Ledger Nat)
  | [], s => if poFinished s then some {} else none
  | op :: ops, s => (poLedger ops (poStep s op).1).map (Ledger.add (poStep s op).2)

/-- one call: (freed) + (handed back) + held after = held before + (taken), and the invariants go on -/
theorem po_step_ledger (s : Pool.Sys) (op : PoOp) (ok : Pool.KidsOk s) (g : Pool.GoneOk s) :
    Pool.KidsOk (poStep s op).1 ∧ Pool.GoneOk (poStep s op).1 ∧
    (↑(poStep s op).2.freed : Multiset Nat) + ↑(poStep s op).2.back + Pool.held (poStep s op).1 =
      Pool.held s + ↑(poStep s op).2.taken := by
  have skip : Pool.KidsOk s ∧ Pool.GoneOk s ∧
      (↑({} : Ledger Nat).freed : Multiset Nat) + ↑({} : Ledger Nat).back + Pool.held s = Pool.held s + ↑({} : Ledger Nat).taken := by
    refine ⟨ok, g, ?_⟩
    show (↑([] : List Nat) : Multiset Nat) + ↑([] : List Nat) + Pool.held s = Pool.held s + ↑([] : List Nat)
    ms_norm
  cases op with
  | ud id =>
    rw [poStep]
    by_cases hg : s.gone = true
    · rw [if_pos hg]; exact skip
    · rw [if_neg hg]
      refine ⟨ok, Pool.goneOk_of_alive _ (by simpa using hg), ?_⟩
      show (↑s.main.ud.toList : Multiset Nat) + ↑([] : List Nat) + (Pool.heldK s.kids + ↑[id] + Pool.heldK s.orphans) =
        Pool.heldK s.kids + ↑s.main.ud.toList + Pool.heldK s.orphans + ↑[id]
      ms_norm; abel
  | detach =>
    rw [poStep]
    by_cases hg : s.gone = true
    · rw [if_pos hg]; exact skip
    · rw [if_neg hg]
      refine ⟨ok, Pool.goneOk_of_alive _ (by simpa using hg), ?_⟩
      show (↑([] : List Nat) : Multiset Nat) + ↑s.main.ud.toList + (Pool.heldK s.kids + ↑([] : List Nat) + Pool.heldK s.orphans) =
        Pool.heldK s.kids + ↑s.main.ud.toList + Pool.heldK s.orphans + ↑([] : List Nat)
      ms_norm; abel
  | child c =>
    rw [poStep]
    by_cases hg : s.gone = true
    · rw [if_pos hg]; exact skip
    · rw [if_neg hg]
      refine ⟨Pool.kidsOk_attach s _ ok, Pool.goneOk_of_alive _ (show s.gone = false by simpa using hg), ?_⟩
      show (↑([] : List Nat) : Multiset Nat) + ↑([] : List Nat) + Pool.held (Pool.attach s { c with ud := none }).1 = Pool.held s + ↑([] : List Nat)
      rw [Pool.held_attach]
      show _ + _ + (Pool.held s + ↑([] : List Nat)) = _
      ms_norm
  | cud c id =>
    rw [poStep]
    cases hk : Pool.kidUdSet s c id with
    | none => exact skip
    | some p =>
      obtain ⟨s', f⟩ := p
      obtain ⟨ok', hb⟩ := Pool.held_kidUdSet s c id ok s' f hk
      refine ⟨ok', Pool.goneOk_kidUdSet s c id g s' f hk, ?_⟩
      show (↑f : Multiset Nat) + ↑([] : List Nat) + Pool.held s' = Pool.held s + ↑[id]
      rw [← hb]; ms_norm
  | cref c =>
    rw [poStep]
    cases hk : Pool.refKid s c with
    | none => exact skip
    | some p =>
      obtain ⟨s', n⟩ := p
      obtain ⟨ok', hb⟩ := Pool.held_refKid s c ok s' n hk
      refine ⟨ok', Pool.goneOk_refKid s c g s' n hk, ?_⟩
      show (↑([] : List Nat) : Multiset Nat) + ↑([] : List Nat) + Pool.held s' = Pool.held s + ↑([] : List Nat)
      rw [hb]; ms_norm
  | cdestroy c =>
    rw [poStep]
    obtain ⟨ok', hb⟩ := Pool.held_destroyKid s c ok
    refine ⟨ok', Pool.goneOk_destroyKid s c g, ?_⟩
    show (↑(Pool.destroyKid s c).2.2 : Multiset Nat) + ↑([] : List Nat) + Pool.held (Pool.destroyKid s c).1 = Pool.held s + ↑([] : List Nat)
    rw [← hb]; ms_norm
  | ref =>
    rw [poStep]
    by_cases hg : s.gone = true
    · rw [if_pos hg]; exact skip
    · rw [if_neg hg]
      exact ⟨ok, Pool.goneOk_of_alive _ (show s.gone = false by simpa using hg), skip.2.2⟩
  | destroy =>
    rw [poStep]
    by_cases hg : s.gone = true
    · rw [if_pos hg]; exact skip
    · rw [if_neg hg]
      cases hd : Pool.destroy s with
      | mk s' r =>
        cases r with
        | none =>
          obtain ⟨e, okf, hgone, _⟩ := Pool.destroy_unref s s' hd
          refine ⟨okf ok, Pool.goneOk_of_alive _ (by rw [hgone]; simpa using hg), ?_⟩
          show (↑([] : List Nat) : Multiset Nat) + ↑([] : List Nat) + Pool.held s' = Pool.held s + ↑([] : List Nat)
          rw [e]; ms_norm
        | some f =>
          obtain ⟨hb, okf, g', _⟩ := Pool.held_destroy s s' f hd
          refine ⟨okf ok, g', ?_⟩
          show (↑f : Multiset Nat) + ↑([] : List Nat) + Pool.held s' = Pool.held s + ↑([] : List Nat)
          rw [← hb]; ms_norm

/-- a finished family holds nothing -/
theorem held_finished (s : Pool.Sys) (g : Pool.GoneOk s) (h : poFinished s = true) : Pool.held s = 0 := by
  unfold poFinished at h
  simp only [Bool.and_eq_true, List.isEmpty_iff] at h
  obtain ⟨a, b⟩ := g h.1
  unfold Pool.held
  rw [a, b, h.2]
  rfl

/-- **pool histories**: over any sequence of calls on a pool family - user data set / detached on the main pool,
children attached, user data set through child handles, references taken and dropped on the main pool and on
children, children destroyed early, the parent destroyed while children are still referenced, orphans used and
destroyed afterwards - that leaves no pool of the family alive: freed + handed back = taken + what the family held
at the start.  Every owned element is freed exactly once; the user data of an orphan is freed by the destroy that
drops the orphan's last reference, not by the parent's. -/
theorem pool_history_balance : ∀ (ops : List PoOp) (s : Pool.Sys) (L : Ledger Nat), Pool.KidsOk s → Pool.GoneOk s →
    poLedger ops s = some L → (↑L.freed : Multiset Nat) + ↑L.back = ↑L.taken + Pool.held s := by
  intro ops
  induction ops with
  | nil =>
    intro s L _ g h
    unfold poLedger at h
    split at h
    · simp only [Option.some.injEq] at h
      rw [← h, held_finished s g (by assumption)]
      show (↑([] : List Nat) : Multiset Nat) + ↑([] : List Nat) = ↑([] : List Nat) + 0
      ms_norm
    · simp at h
  | cons op ops ih =>
    intro s L ok g h
    simp only [poLedger, Option.map_eq_some_iff] at h
    obtain ⟨L2, e2, rfl⟩ := h
    obtain ⟨ok', g', hb⟩ := po_step_ledger s op ok g
    exact Ledger.add_balance _ L2 _ _ hb (ih _ L2 ok' g' e2)

/-- the ledger is defined exactly for the histories that leave no pool of the family alive -/
theorem poLedger_isSome_iff (ops : List PoOp) (s : Pool.Sys) : (poLedger ops s).isSome = poFinished (poRun ops s) := by
  induction ops generalizing s with
  | nil => unfold poLedger poRun; split <;> simp_all
  | cons op ops ih => simp only [poLedger, poRun, Option.isSome_map]; exact ih _

/-- an orphan's user data outlives the parent: a history in which the parent is destroyed while child `0` is
referenced frees the child's user data at the child's last destroy (after the parent's), and not before -/
theorem pool_orphan_witness :
    poLedger [.child Pool.createEmpty, .cud 0 7, .cref 0, .ud 9, .destroy, .cud 0 8, .cdestroy 0] { main := Pool.create 0 }
      = some { taken := [7, 9, 8], freed := [9, 7, 8], back := [] } ∧
    (poStep (poRun [.child Pool.createEmpty, .cud 0 7, .cref 0, .ud 9] { main := Pool.create 0 }) .destroy).2.freed = [9] ∧
    poLedger [.child Pool.createEmpty, .cud 0 7, .cref 0, .ud 9, .destroy] { main := Pool.create 0 } = none := by
  refine ⟨by rfl, by rfl, by rfl⟩

/-! ### the global statement -/

/-- an owned element of any container: a hash-map key or value token, an `iwlist` item, a user-data object -/
inductive Elem (κ α : Type) where
  | hm (t : Tok κ) | item (x : α) | ud (id : Nat)
  deriving DecidableEq

/-- a call history on one owning container, from its creation to its destruction (the final destroy is
implicit except for the pool, whose reference count decides which `destroy` is the last one) -/
inductive History (κ α : Type) where
  | hmap (h : κ → Nat) (ownKeys : Bool) (ops : List (HmOp κ))
  | plist (junk : α) (anum : Nat) (ops : List (PlOp α))
  | xstr (siz : Nat) (ops : List UdOp)
  | pool (siz : Nat) (ops : List PoOp)

/-- what the mechanism models hand to the free callbacks / take over / hand back along a history -/
def ledger : History κ α → Option (Ledger (Elem κ α))
  | .hmap h own ops => some ((hmLedger h ops (HMap.empty own)).map .hm)
  | .plist junk anum ops => (plLedger junk ops (PList.create junk anum)).map (Ledger.map .item)
  | .xstr siz ops => some ((xsLedger ops (XStr.create siz)).map .ud)
  | .pool siz ops => (poLedger ops { main := Pool.create siz }).map (Ledger.map .ud)

/-- **freed exactly once**: over any call history on any owning container that ends in destroy - hash map with
any hash function, key ownership mode and LRU bound; `iwlist`; user data of `iwxstr`; `iwpool` with user data,
attached child pools (each with user data, possibly destroyed early) and extra references - the multiset of
elements handed to the free callbacks equals the multiset of owned elements inserted and not handed back to the
caller (for the pool: over any history after which the main pool and every orphan are gone).  Nothing leaks (every taken element is freed or returned) and nothing is freed twice (multiplicities
agree). -/
theorem freed_exactly_once [DecidableEq α] (H : History κ α) (L : Ledger (Elem κ α)) (hL : ledger H = some L) :
    (L.freed : Multiset (Elem κ α)) = (L.taken : Multiset (Elem κ α)) - (L.back : Multiset (Elem κ α)) ∧
    (L.freed : Multiset (Elem κ α)) + (L.back : Multiset (Elem κ α)) = (L.taken : Multiset (Elem κ α)) := by
  have hb : L.Balanced := by
    cases H with
    | hmap h own ops =>
      simp only [ledger, Option.some.injEq] at hL
      rw [← hL]; exact (hmap_freed_exactly_once h own ops).map _
    | plist junk anum ops =>
      obtain ⟨L0, e, b⟩ := plist_freed_exactly_once junk anum ops
      simp only [ledger, e, Option.map_some, Option.some.injEq] at hL
      rw [← hL]; exact b.map _
    | xstr siz ops =>
      simp only [ledger, Option.some.injEq] at hL
      rw [← hL]
      refine Ledger.Balanced.map _ ?_
      unfold Ledger.Balanced
      rw [xs_ledger_held ops (XStr.create siz)]
      show _ + (↑([] : List Nat) : Multiset Nat) = _; simp
    | pool siz ops =>
      simp only [ledger, Option.map_eq_some_iff] at hL
      obtain ⟨L0, e, rfl⟩ := hL
      refine Ledger.Balanced.map _ ?_
      unfold Ledger.Balanced
      rw [pool_history_balance ops _ L0 ⟨by simp, fun p hp => by simp at hp⟩ (Pool.goneOk_of_alive _ rfl) e]
      show _ + (Pool.heldK [] + (↑([] : List Nat) : Multiset Nat) + Pool.heldK []) = _
      simp [Pool.heldK]
  unfold Ledger.Balanced at hb
  exact ⟨by rw [← hb]; exact Multiset.add_sub_cancel_right.symm, hb⟩

/-- the hypotheses are satisfiable and the ledger is not vacuous: a pool with a child, user data set twice on
the child, one reference taken and dropped -/
example : poLedger [.child Pool.createEmpty, .cud 0 7, .cud 0 8, .ud 9, .ref, .destroy, .destroy] { main := Pool.create 0 }
    = some { taken := [7, 8, 9], freed := [7, 8, 9], back := [] } := by rfl

/-- two children, one referenced twice: the parent's destroy frees the unreferenced child's user data and its own,
the orphan's goes with the third `cdestroy` -/
example : poLedger [.child Pool.createEmpty, .child Pool.createEmpty, .cud 0 1, .cud 1 2, .ud 3, .cref 1, .cref 1, .cdestroy 1,
      .destroy, .cdestroy 1, .cdestroy 1] { main := Pool.create 0 }
    = some { taken := [1, 2, 3], freed := [1, 3, 2], back := [] } := by rfl

end OWNED

end IwModel.C18
