import IwModel.Lemmas.IniLoop
import IwModel.Lemmas.Repl
/-! # C17 — ini parser (`src/utils/iwini.c`) and `iwu_replace` (`src/utils/iwutils.c`)

Property theorems only; lemmas live in `Lemmas/CStr.lean`, `Lemmas/Ini*.lean`, `Lemmas/Repl.lean`.

The models (`Model/Ini.lean`, `Model/Repl.lean`) perform every read and write of the C code through
checked accessors (`buf[i]?`, `wr`, `readN`) on buffers of exactly the size the C code declares, and answer
`.oob` / `none` at the first access outside them.  The theorems say: that answer is unreachable, for every
input of every length, and the result equals a reference that knows nothing about buffers. -/
namespace IwModel.C17
open IwModel IwModel.CStr

/-- the memory holds a NUL somewhere (it contains a C string starting at its first byte) -/
abbrev HasNul0 (buf : Bytes) : Prop := ∃ n : Nat, buf[n]? = some 0

/-- the generated sizes the ini proofs need: one byte at least in the section and name buffers, and the reader
    is never told about more bytes than the line buffer has -/
theorem ini_sizes_ok : Ini.CfgOk Ini.genCfg := ⟨by decide, by decide, by decide⟩

/-- **`iwini_parse_stream` is the reference splitter, for every reader output.**  Whatever strings the reader
    delivers (each shorter than the `num` it is given — that is the reader's contract — any bytes, NULs
    included), whatever the handler answers and whatever the stack held in the line buffer before: no access
    leaves the line buffer (`IWINI_MAX_LINE` bytes), the section buffer or the previous-name buffer
    (`MAX_SECTION`, `MAX_NAME` bytes), the loop ends, and the value returned and the sequence of handler calls
    (section, name, value) are those of `refLines` on the texts in front of each terminator. -/
theorem ini_stream_spec (h : Ini.Handler) (junk : Bytes) (fills : List Bytes)
    (hj : junk.length = Ini.genCfg.maxLine) (hf : ∀ f ∈ fills, f.length < Ini.genCfg.readerNum) :
    Ini.parseFills Ini.genCfg h junk fills =
      .ok (Ini.refLines Ini.genCfg h Ini.Abs.init (fills.map fun f => f.takeWhile (· ≠ 0))).error
          (Ini.refLines Ini.genCfg h Ini.Abs.init (fills.map fun f => f.takeWhile (· ≠ 0))).events :=
  Ini.parseFills_spec Ini.genCfg ini_sizes_ok h junk fills hj hf

/-- memory safety of `iwini_parse_stream` alone -/
theorem ini_stream_safe (h : Ini.Handler) (junk : Bytes) (fills : List Bytes)
    (hj : junk.length = Ini.genCfg.maxLine) (hf : ∀ f ∈ fills, f.length < Ini.genCfg.readerNum) :
    Ini.parseFills Ini.genCfg h junk fills ≠ .oob := by
  rw [ini_stream_spec h junk fills hj hf]; simp

/-- **`iwini_parse_string` on a C string `s`**: `ini_reader_string` cuts the text into pieces of at most
    `IWINI_MAX_LINE - 1` bytes, each ending behind the next `\n` (`chunks`) — a longer line is continued as a
    new line —, never reads behind the terminator of the text, never stores outside the line buffer, and the
    parse loop ends after at most `strlen + 1` reader calls with the result of the reference splitter on
    these pieces. -/
theorem ini_string_spec (h : Ini.Handler) (junk s R : Bytes) (hj : junk.length = Ini.genCfg.maxLine) (hz : 0 ∉ s) :
    Ini.parseString Ini.genCfg h junk (s ++ 0 :: R) =
      .ok (Ini.refLines Ini.genCfg h Ini.Abs.init (Ini.chunks Ini.genCfg.readerNum s)).error
          (Ini.refLines Ini.genCfg h Ini.Abs.init (Ini.chunks Ini.genCfg.readerNum s)).events :=
  Ini.parseString_spec Ini.genCfg ini_sizes_ok h junk s R hj hz

/-- memory safety and termination of `iwini_parse_string` for any memory that holds a terminator -/
theorem ini_string_safe (h : Ini.Handler) (junk text : Bytes) (hj : junk.length = Ini.genCfg.maxLine) (hn : HasNul0 text) :
    Ini.parseString Ini.genCfg h junk text ≠ .oob ∧ Ini.parseString Ini.genCfg h junk text ≠ .fuel := by
  obtain ⟨s, R, rfl, hz⟩ := hasNul_split text hn
  rw [ini_string_spec h junk s R hj hz]; simp

/-- the result does not depend on what the line buffer held before the call (uninitialised stack) -/
theorem ini_string_junk_indep (h : Ini.Handler) (junk junk' text : Bytes) (hj : junk.length = Ini.genCfg.maxLine)
    (hj' : junk'.length = Ini.genCfg.maxLine) (hn : HasNul0 text) :
    Ini.parseString Ini.genCfg h junk text = Ini.parseString Ini.genCfg h junk' text := by
  obtain ⟨s, R, rfl, hz⟩ := hasNul_split text hn
  rw [ini_string_spec h junk s R hj hz, ini_string_spec h junk' s R hj' hz]

/-- **well-formed text**: when every line (without its `\n`) is shorter than `IWINI_MAX_LINE - 1` bytes, the
    pieces the reader delivers are exactly the lines — so the handler sees what the reference splitter
    yields line by line. -/
theorem ini_wellformed_lines (h : Ini.Handler) (junk : Bytes) (ls : List Bytes) (hj : junk.length = Ini.genCfg.maxLine)
    (hz : ∀ l ∈ ls, 0 ∉ l) (hnl : ∀ l ∈ ls, 10 ∉ l) (hlen : ∀ l ∈ ls, l.length + 2 ≤ Ini.genCfg.readerNum) :
    Ini.parseString Ini.genCfg h junk (ls.flatMap (· ++ [10]) ++ [0]) =
      .ok (Ini.refLines Ini.genCfg h Ini.Abs.init (ls.map (· ++ [10]))).error
          (Ini.refLines Ini.genCfg h Ini.Abs.init (ls.map (· ++ [10]))).events := by
  have hz' : 0 ∉ ls.flatMap (· ++ [10]) := by
    intro hm
    obtain ⟨l, hl, hm⟩ := List.mem_flatMap.mp hm
    rcases List.mem_append.mp hm with hm | hm
    · exact hz l hl hm
    · simp at hm
  rw [ini_string_spec h junk _ [] hj hz', Ini.chunks_lines _ ls hnl hlen]

/-- **`iwini_parse_file` on a file with arbitrary content** (NUL bytes, no final newline, lines of any length): with
    `fgets` as reader (each call delivers the next piece of at most `IWINI_MAX_LINE - 1` bytes, ending behind a newline)
    the parser stays inside its buffers, ends, and reports the reference result on the part of each piece in front of
    its first NUL — what follows a NUL inside a line is not seen, the next line is. -/
theorem ini_file_spec (h : Ini.Handler) (junk content : Bytes) (hj : junk.length = Ini.genCfg.maxLine) :
    Ini.parseFile Ini.genCfg h junk content =
      .ok (Ini.refLines Ini.genCfg h Ini.Abs.init
            ((Ini.chunks Ini.genCfg.readerNum content).map fun f => f.takeWhile (· ≠ 0))).error
          (Ini.refLines Ini.genCfg h Ini.Abs.init
            ((Ini.chunks Ini.genCfg.readerNum content).map fun f => f.takeWhile (· ≠ 0))).events :=
  Ini.parseFile_spec Ini.genCfg ini_sizes_ok h junk content hj

/-- non-vacuity: the hypotheses are satisfiable -/
example : (List.replicate Ini.genCfg.maxLine 0xAA).length = Ini.genCfg.maxLine := List.length_replicate
example : HasNul0 [91, 115, 93, 10, 0] := ⟨4, rfl⟩

/-! ## `iwu_replace` -/

/-- **`iwu_replace` stays inside the memory it is given and terminates**: for every `data` block that holds a
    terminator and at least `datalen` bytes, every list of NUL-terminated keys (empty keys, keys that are
    prefixes of each other, keys that occur in a replacement, NULs inside `data[0..datalen)`) and every
    mapper, neither `strstr`, nor the `iwxstr_cat` copies (`ptr .. p`, the tail `datalen - (ptr - start)`,
    never negative), nor the final copy read outside `data`, the keys or the intermediate buffers. -/
theorem replace_safe (m : Repl.Mapper) (data : Bytes) (datalen : Nat) (keys : List Bytes)
    (hd : HasNul0 data) (hl : datalen ≤ data.length) (hk : ∀ k ∈ keys, HasNul0 k) :
    Repl.replace m data datalen keys ≠ none := by
  obtain ⟨r, hr⟩ := Repl.replace_safe' m data datalen keys hd hl hk
  rw [hr]; simp

/-- **`iwu_replace` is sequential replacement**: for a text without NUL whose length is `datalen`, keys without
    NUL and a mapper that returns C strings, the result is `refReplace`: the keys one after the other, each
    replacing every occurrence (left to right, not overlapping) in the result of the previous one; an empty key
    is skipped; a key the mapper has no replacement for stays. -/
theorem replace_eq_reference (m : Repl.Mapper) (s : Bytes) (keys : List Bytes) (hs : 0 ∉ s) (hk : ∀ k ∈ keys, 0 ∉ k)
    (hm : ∀ k r, m k = some r → 0 ∉ r) :
    Repl.replace m (s ++ [0]) s.length (keys.map (· ++ [0])) = some (Repl.refReplace m s keys) :=
  Repl.replace_clean' m s keys hs hk hm

/-- the instrumentation is live: a `datalen` beyond the block is reported -/
example : Repl.replace (fun _ => none) [97, 0] 3 [] = none := by
  simp [Repl.replace, readN]

end IwModel.C17
