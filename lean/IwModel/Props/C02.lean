import IwModel.Lemmas.Kv
/-! # C02 — cursors enumerate and address records in key order

Property theorems only; helper lemmas live in `IwModel/Lemmas/Kv.lean`. The cursor machine is
`curNext/curPrev/curSeek/curRec/curSet/curDel` of `Model/Kv.lean` (`_cursor_to_lr`,
`_cursor_get_ge_idx`, `iwkv_cursor_set/del` of iwkv.c). `flatten d.nodes` is the list of live records,
which C01 proves to be the ordered map's contents. -/
namespace IwModel.C02
open IwModel Kv

section
variable {K V : Type} {gt : K → K → Bool}

/-! ### 5. scans -/

/-- A scan with NEXT from before-first: the records under the cursor after the successive calls are
    exactly the live records, each once, in chain order — which is strictly descending key order —
    and the call after the last record reports not-found (the iteration stops by itself within
    `number of records + 1` calls). -/
theorem scan_next (d : Db K V) (inv : NodeInv gt d.nodes) :
    scan d (curNext d) ((flatten d.nodes).length + 1) .head = ((flatten d.nodes).map some, true) ∧
    Desc gt (flatten d.nodes) :=
  ⟨scan_next_head d inv.1 _ (Nat.lt_succ_self _), inv.2⟩

/-- A scan with PREV from after-last yields the exact reverse, then not-found. -/
theorem scan_prev (d : Db K V) (inv : NodeInv gt d.nodes) :
    scan d (curPrev d) ((flatten d.nodes).length + 1) .tail = ((flatten d.nodes).reverse.map some, true) :=
  scan_prev_tail d inv.1 _ (Nat.lt_succ_self _)

/-- more fuel changes nothing: after not-found the scan has ended -/
theorem scan_next_fuel (d : Db K V) (inv : NodeInv gt d.nodes) (fuel : Nat) (h : (flatten d.nodes).length < fuel) :
    scan d (curNext d) fuel .head = ((flatten d.nodes).map some, true) :=
  scan_next_head d inv.1 fuel h

/-! ### 6. seeks -/

/-- EQ: the seek succeeds exactly when the map holds the key, the cursor then stands on that key's
    record; when it fails the cursor keeps its slot (only `skip_next` is cleared) — whatever the
    previous position `p` was. -/
theorem seek_eq_spec (st : StrictTotal gt) (d : Db K V) (inv : NodeInv gt d.nodes) (k : K) (p : CPos) :
    let r := curSeek gt d k false p
    r.2 = (specGet gt (flatten d.nodes) k).isSome ∧
    (∀ v, specGet gt (flatten d.nodes) k = some v → curRec d r.1 = some (k, v)) ∧
    (specGet gt (flatten d.nodes) k = none → r.1 = clearSkip p) := by
  rcases curSeek_core st d inv k false p with ⟨h, hc⟩ | ⟨i, j, l1, x, l2, h, hrec, hf, hg, hl, hx⟩
  · have hnone : specGet gt (flatten d.nodes) k = none := by
      rcases hc with hc | ⟨_, l1, l2, hf, hg, hl⟩
      · have := specGet_absent st (l1 := []) allGt_nil hc
        rwa [List.nil_append] at this
      · rw [hf]; exact specGet_absent st hg hl
    dsimp only
    rw [h, hnone]
    exact ⟨rfl, fun v hv => (by cases hv), fun _ => rfl⟩
  · have hk : x.1 = k := by
      rcases hx with hx | ⟨hx, _⟩
      · exact hx
      · cases hx
    obtain ⟨xk, xv⟩ := x
    simp only at hk; subst hk
    have hsome : specGet gt (flatten d.nodes) xk = some xv := by rw [hf]; exact specGet_present st xv l2 hg
    dsimp only
    rw [h, hsome]
    refine ⟨rfl, fun v hv => ?_, fun hn => (by cases hn)⟩
    cases hv; exact hrec

/-- GE: the seek succeeds exactly when some stored key is not below `k`; the cursor then stands on
    the LAST record of the (descending) chain whose key is not below `k`, i.e. on the smallest key
    `≥ k`; when it fails the cursor keeps its slot with `skip_next` cleared. -/
theorem seek_ge_spec (st : StrictTotal gt) (d : Db K V) (inv : NodeInv gt d.nodes) (k : K) (p : CPos) :
    let r := curSeek gt d k true p
    r.2 = (flatten d.nodes).any (fun x => !gt k x.1) ∧
    (r.2 = true → curRec d r.1 = ((flatten d.nodes).filter (fun x => !gt k x.1)).getLast?) ∧
    (r.2 = false → r.1 = clearSkip p) := by
  rcases curSeek_core st d inv k true p with ⟨h, hc⟩ | ⟨i, j, l1, x, l2, h, hrec, hf, hg, hl, hx⟩
  · have hlt : AllLt gt k (flatten d.nodes) := by
      rcases hc with hc | ⟨hc, _⟩
      · exact hc
      · cases hc
    dsimp only
    rw [h]
    refine ⟨?_, fun hh => (by cases hh), fun _ => rfl⟩
    symm
    rw [List.any_eq_false]
    intro y hy
    simp [hlt y hy]
  · have hkx : gt k x.1 = false := by
      rcases hx with hx | ⟨_, hx⟩
      · rw [hx]; exact st.irrefl k
      · exact st.asymm hx
    dsimp only
    rw [h]
    refine ⟨?_, fun _ => ?_, fun hh => (by cases hh)⟩
    · symm
      rw [List.any_eq_true]
      exact ⟨x, by rw [hf]; simp, by simp [hkx]⟩
    · have hl2 : l2.filter (fun x => !gt k x.1) = [] := by
        rw [List.filter_eq_nil_iff]
        intro y hy
        simp [hl y hy]
      rw [hrec, hf, List.filter_append, List.filter_cons]
      simp [hkx, hl2]

/-- where a successful seek lands, as a decomposition of the chain: everything before the record is
    above `k`, everything after is below `k`, and the record's key is `k` (EQ or GE hit) or the
    smallest key above `k` (GE only). -/
theorem seek_lands (st : StrictTotal gt) (d : Db K V) (inv : NodeInv gt d.nodes) (k : K) (ge : Bool) (p : CPos)
    (h : (curSeek gt d k ge p).2 = true) :
    ∃ l1 x l2, curRec d (curSeek gt d k ge p).1 = some x ∧ flatten d.nodes = l1 ++ x :: l2 ∧
      AllGt gt k l1 ∧ AllLt gt k l2 ∧ (x.1 = k ∨ (ge = true ∧ gt x.1 k = true)) := by
  rcases curSeek_core st d inv k ge p with ⟨h', _⟩ | ⟨i, j, l1, x, l2, h', hrec, hf, hg, hl, hx⟩
  · rw [h'] at h; cases h
  · rw [h']; exact ⟨l1, x, l2, hrec, hf, hg, hl, hx⟩

/-! ### 7. reads and writes through a position -/

/-- `iwkv_cursor_set` at a position holding key `k` is exactly `put k v` on the map — it changes the
    value of that record and nothing else — and keeps the chain valid. -/
theorem cursor_set_spec (st : StrictTotal gt) (d : Db K V) (inv : NodeInv gt d.nodes) (p : CPos) (v : V)
    {k : K} {ov : V} (h : curRec d p = some (k, ov)) :
    flatten (curSet d p v).nodes = specPut gt (flatten d.nodes) k v ∧ NodeInv gt (curSet d p v).nodes ∧
    curRec (curSet d p v) p = some (k, v) := by
  have hc := curSet_core st d inv p v h
  refine ⟨hc.1, ⟨hc.2, ?_⟩, ?_⟩
  · rw [hc.1]; exact desc_specPut st inv.2 k v
  · obtain ⟨i, j, s, pre, lower, post, t, u, rfl, e, hl, e2, hl2⟩ := curRec_split h
    have hr : lower.recs[j]? = some (k, ov) := by rw [e2]; exact getElem?_mid hl2
    obtain ⟨nodes, curs⟩ := d
    simp only at e
    subst e
    simp only [curSet, curRec, getElem?_mid hl, hr, set_mid hl, Option.bind_some]
    rw [e2, set_mid hl2, getElem?_mid hl2]

/-- `iwkv_cursor_del` at a position holding key `k` is exactly `del k` on the map, and keeps the
    chain valid (also when the node is unlinked with its last record). -/
theorem cursor_del_spec (st : StrictTotal gt) (d : Db K V) (inv : NodeInv gt d.nodes) (p : CPos)
    {k : K} {ov : V} (h : curRec d p = some (k, ov)) :
    flatten (curDel d p).nodes = specDel gt (flatten d.nodes) k ∧ NodeInv gt (curDel d p).nodes := by
  have hc := curDel_core st d inv p h
  refine ⟨hc.1, hc.2, ?_⟩
  rw [hc.1]; exact desc_specDel st inv.2 k

/-- a position with no record under it: set and del change nothing -/
theorem cursor_write_nothing (d : Db K V) (p : CPos) (v : V) (h : curRec d p = none) :
    curSet d p v = d ∧ curDel d p = d := by
  cases p with
  | head => exact ⟨rfl, rfl⟩
  | tail => exact ⟨rfl, rfl⟩
  | void => exact ⟨rfl, rfl⟩
  | «at» i j s =>
    refine ⟨?_, by simp [curDel, h]⟩
    simp only [curRec] at h
    simp only [curSet]
    cases hn : d.nodes[i]? with
    | none => rfl
    | some n =>
      rw [hn] at h
      simp only [Option.bind_some] at h
      simp only [h]

/-- position-locality: what a cursor reads, and the contents after a write through it, are functions
    of the chain and the slot `(i, j)` only — not of `skip_next`, of the other open cursors, or of
    the cursor calls that produced the position. -/
theorem position_local (d d' : Db K V) (hn : d.nodes = d'.nodes) (i j : Nat) (s s' : Int) (v : V) :
    curRec d (.at i j s) = curRec d' (.at i j s') ∧
    (curSet d (.at i j s) v).nodes = (curSet d' (.at i j s') v).nodes ∧
    (curDel d (.at i j s)).nodes = (curDel d' (.at i j s')).nodes := by
  obtain ⟨n, c⟩ := d
  obtain ⟨n', c'⟩ := d'
  simp only at hn
  subst hn
  refine ⟨rfl, ?_, ?_⟩
  · cases h1 : n[i]? with
    | none => simp [curSet, h1]
    | some nd =>
      cases h2 : nd.recs[j]? with
      | none => simp [curSet, h1, h2]
      | some x => simp [curSet, h1, h2]
  · cases h1 : n[i]? with
    | none => simp [curDel, curRec, h1]
    | some nd =>
      cases h2 : nd.recs[j]? with
      | none => simp [curDel, curRec, h1, h2]
      | some x =>
        simp only [curDel, curRec, h1, h2, Option.bind_some, Option.isSome_some, if_true, delAt]
        split <;> rfl

end

/-! ### the hypotheses are satisfiable -/

example : scan exDb (curNext exDb) 4 .head = ([some (9, "i"), some (7, "g"), some (4, "d")], true) :=
  (scan_next exDb exDb_inv).1

example : (curSeek (fun a b : Nat => decide (a > b)) exDb 5 true .head).2 = true ∧
    curRec exDb (curSeek (fun a b : Nat => decide (a > b)) exDb 5 true .head).1 = some (7, "g") := by
  have h := seek_ge_spec natGt_strictTotal exDb exDb_inv 5 .head
  refine ⟨by rw [h.1]; decide, ?_⟩
  rw [h.2.1 (by rw [h.1]; decide)]; decide

end IwModel.C02
