import IwModel.Model.KvApi
/-! # C02 — cursors enumerate and address records in key order (theorems follow) -/
namespace IwModel.C02
end IwModel.C02
