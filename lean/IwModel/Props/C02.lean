import IwModel.Lemmas.Kv
import IwModel.Lemmas.KvBridge
/-! # C02 — cursors enumerate and address records in key order

Property theorems only; helper lemmas live in `IwModel/Lemmas/Kv.lean`. The cursor machine is
`curNext/curPrev/curSeek/curRec/curSet/curDel` of `Model/Kv.lean` (`_cursor_to_lr`,
`_cursor_get_ge_idx`, `iwkv_cursor_set/del` of iwkv.c). `flatten d.nodes` is the list of live records,
which C01 proves to be the ordered map's contents. -/
namespace IwModel.C02
open IwModel Kv

section
variable {K V : Type} {gt : K → K → Bool}

/-! ### 5. scans -/

/-- A scan with NEXT from before-first: the records under the cursor after the successive calls are
    exactly the live records, each once, in chain order — which is strictly descending key order —
    and the call after the last record reports not-found (the iteration stops by itself within
    `number of records + 1` calls). -/
theorem scan_next (d : Db K V) (inv : NodeInv gt d.nodes) :
    scan d (curNext d) ((flatten d.nodes).length + 1) .head = ((flatten d.nodes).map some, true) ∧
    Desc gt (flatten d.nodes) :=
  ⟨scan_next_head d inv.1 _ (Nat.lt_succ_self _), inv.2⟩

/-- A scan with PREV from after-last yields the exact reverse, then not-found. -/
theorem scan_prev (d : Db K V) (inv : NodeInv gt d.nodes) :
    scan d (curPrev d) ((flatten d.nodes).length + 1) .tail = ((flatten d.nodes).reverse.map some, true) :=
  scan_prev_tail d inv.1 _ (Nat.lt_succ_self _)

/-- more fuel changes nothing: after not-found the scan has ended -/
theorem scan_next_fuel (d : Db K V) (inv : NodeInv gt d.nodes) (fuel : Nat) (h : (flatten d.nodes).length < fuel) :
    scan d (curNext d) fuel .head = ((flatten d.nodes).map some, true) :=
  scan_next_head d inv.1 fuel h

/-! ### 6. seeks -/

/-- EQ: the seek succeeds exactly when the map holds the key, the cursor then stands on that key's
    record; when it fails the cursor keeps its slot (only `skip_next` is cleared) — whatever the
    previous position `p` was. -/
theorem seek_eq_spec (st : StrictTotal gt) (d : Db K V) (inv : NodeInv gt d.nodes) (k : K) (p : CPos) :
    let r := curSeek gt d k false p
    r.2 = (specGet gt (flatten d.nodes) k).isSome ∧
    (∀ v, specGet gt (flatten d.nodes) k = some v → curRec d r.1 = some (k, v)) ∧
    (specGet gt (flatten d.nodes) k = none → r.1 = clearSkip p) := by
  rcases curSeek_core st d inv k false p with ⟨h, hc⟩ | ⟨i, j, l1, x, l2, h, hrec, hf, hg, hl, hx⟩
  · have hnone : specGet gt (flatten d.nodes) k = none := by
      rcases hc with hc | ⟨_, l1, l2, hf, hg, hl⟩
      · have := specGet_absent st (l1 := []) allGt_nil hc
        rwa [List.nil_append] at this
      · rw [hf]; exact specGet_absent st hg hl
    dsimp only
    rw [h, hnone]
    exact ⟨rfl, fun v hv => (by cases hv), fun _ => rfl⟩
  · have hk : x.1 = k := by
      rcases hx with hx | ⟨hx, _⟩
      · exact hx
      · cases hx
    obtain ⟨xk, xv⟩ := x
    simp only at hk; subst hk
    have hsome : specGet gt (flatten d.nodes) xk = some xv := by rw [hf]; exact specGet_present st xv l2 hg
    dsimp only
    rw [h, hsome]
    refine ⟨rfl, fun v hv => ?_, fun hn => (by cases hn)⟩
    cases hv; exact hrec

/-- GE: the seek succeeds exactly when some stored key is not below `k`; the cursor then stands on
    the LAST record of the (descending) chain whose key is not below `k`, i.e. on the smallest key
    `≥ k`; when it fails the cursor keeps its slot with `skip_next` cleared. -/
theorem seek_ge_spec (st : StrictTotal gt) (d : Db K V) (inv : NodeInv gt d.nodes) (k : K) (p : CPos) :
    let r := curSeek gt d k true p
    r.2 = (flatten d.nodes).any (fun x => !gt k x.1) ∧
    (r.2 = true → curRec d r.1 = ((flatten d.nodes).filter (fun x => !gt k x.1)).getLast?) ∧
    (r.2 = false → r.1 = clearSkip p) := by
  rcases curSeek_core st d inv k true p with ⟨h, hc⟩ | ⟨i, j, l1, x, l2, h, hrec, hf, hg, hl, hx⟩
  · have hlt : AllLt gt k (flatten d.nodes) := by
      rcases hc with hc | ⟨hc, _⟩
      · exact hc
      · cases hc
    dsimp only
    rw [h]
    refine ⟨?_, fun hh => (by cases hh), fun _ => rfl⟩
    symm
    rw [List.any_eq_false]
    intro y hy
    simp [hlt y hy]
  · have hkx : gt k x.1 = false := by
      rcases hx with hx | ⟨_, hx⟩
      · rw [hx]; exact st.irrefl k
      · exact st.asymm hx
    dsimp only
    rw [h]
    refine ⟨?_, fun _ => ?_, fun hh => (by cases hh)⟩
    · symm
      rw [List.any_eq_true]
      exact ⟨x, by rw [hf]; simp, by simp [hkx]⟩
    · have hl2 : l2.filter (fun x => !gt k x.1) = [] := by
        rw [List.filter_eq_nil_iff]
        intro y hy
        simp [hl y hy]
      rw [hrec, hf, List.filter_append, List.filter_cons]
      simp [hkx, hl2]

/-- where a successful seek lands, as a decomposition of the chain: everything before the record is
    above `k`, everything after is below `k`, and the record's key is `k` (EQ or GE hit) or the
    smallest key above `k` (GE only). -/
theorem seek_lands (st : StrictTotal gt) (d : Db K V) (inv : NodeInv gt d.nodes) (k : K) (ge : Bool) (p : CPos)
    (h : (curSeek gt d k ge p).2 = true) :
    ∃ l1 x l2, curRec d (curSeek gt d k ge p).1 = some x ∧ flatten d.nodes = l1 ++ x :: l2 ∧
      AllGt gt k l1 ∧ AllLt gt k l2 ∧ (x.1 = k ∨ (ge = true ∧ gt x.1 k = true)) := by
  rcases curSeek_core st d inv k ge p with ⟨h', _⟩ | ⟨i, j, l1, x, l2, h', hrec, hf, hg, hl, hx⟩
  · rw [h'] at h; cases h
  · rw [h']; exact ⟨l1, x, l2, hrec, hf, hg, hl, hx⟩

/-! ### 7. reads and writes through a position -/

/-- `iwkv_cursor_set` at a position holding key `k` is exactly `put k v` on the map — it changes the
    value of that record and nothing else — and keeps the chain valid. -/
theorem cursor_set_spec (st : StrictTotal gt) (d : Db K V) (inv : NodeInv gt d.nodes) (p : CPos) (v : V)
    {k : K} {ov : V} (h : curRec d p = some (k, ov)) :
    flatten (curSet d p v).nodes = specPut gt (flatten d.nodes) k v ∧ NodeInv gt (curSet d p v).nodes ∧
    curRec (curSet d p v) p = some (k, v) := by
  have hc := curSet_core st d inv p v h
  refine ⟨hc.1, ⟨hc.2, ?_⟩, ?_⟩
  · rw [hc.1]; exact desc_specPut st inv.2 k v
  · obtain ⟨i, j, s, pre, lower, post, t, u, rfl, e, hl, e2, hl2⟩ := curRec_split h
    have hr : lower.recs[j]? = some (k, ov) := by rw [e2]; exact getElem?_mid hl2
    obtain ⟨nodes, curs⟩ := d
    simp only at e
    subst e
    simp only [curSet, curRec, getElem?_mid hl, hr, set_mid hl, Option.bind_some]
    rw [e2, set_mid hl2, getElem?_mid hl2]

/-- `iwkv_cursor_del` at a position holding key `k` is exactly `del k` on the map, and keeps the
    chain valid (also when the node is unlinked with its last record). -/
theorem cursor_del_spec (st : StrictTotal gt) (d : Db K V) (inv : NodeInv gt d.nodes) (p : CPos)
    {k : K} {ov : V} (h : curRec d p = some (k, ov)) :
    flatten (curDel d p).nodes = specDel gt (flatten d.nodes) k ∧ NodeInv gt (curDel d p).nodes := by
  have hc := curDel_core st d inv p h
  refine ⟨hc.1, hc.2, ?_⟩
  rw [hc.1]; exact desc_specDel st inv.2 k

/-- a position with no record under it: set and del change nothing -/
theorem cursor_write_nothing (d : Db K V) (p : CPos) (v : V) (h : curRec d p = none) :
    curSet d p v = d ∧ curDel d p = d := by
  cases p with
  | head => exact ⟨rfl, rfl⟩
  | tail => exact ⟨rfl, rfl⟩
  | void => exact ⟨rfl, rfl⟩
  | «at» i j s =>
    refine ⟨?_, by simp [curDel, h]⟩
    simp only [curRec] at h
    simp only [curSet]
    cases hn : d.nodes[i]? with
    | none => rfl
    | some n =>
      rw [hn] at h
      simp only [Option.bind_some] at h
      simp only [h]

/-- position-locality: what a cursor reads, and the contents after a write through it, are functions
    of the chain and the slot `(i, j)` only — not of `skip_next`, of the other open cursors, or of
    the cursor calls that produced the position. -/
theorem position_local (d d' : Db K V) (hn : d.nodes = d'.nodes) (i j : Nat) (s s' : Int) (v : V) :
    curRec d (.at i j s) = curRec d' (.at i j s') ∧
    (curSet d (.at i j s) v).nodes = (curSet d' (.at i j s') v).nodes ∧
    (curDel d (.at i j s)).nodes = (curDel d' (.at i j s')).nodes := by
  obtain ⟨n, c⟩ := d
  obtain ⟨n', c'⟩ := d'
  simp only at hn
  subst hn
  refine ⟨rfl, ?_, ?_⟩
  · cases h1 : n[i]? with
    | none => simp [curSet, h1]
    | some nd =>
      cases h2 : nd.recs[j]? with
      | none => simp [curSet, h1, h2]
      | some x => simp [curSet, h1, h2]
  · cases h1 : n[i]? with
    | none => simp [curDel, curRec, h1]
    | some nd =>
      cases h2 : nd.recs[j]? with
      | none => simp [curDel, curRec, h1, h2]
      | some x =>
        simp only [curDel, curRec, h1, h2, Option.bind_some, Option.isSome_some, if_true, delAt]
        split <;> rfl

end


/-! ### 8. the bridge to C19: the cursor theorems for the comparator the store uses

§6/§7 assume `StrictTotal gt`; C19 gives it for `_cmp_keys` on the valid keys of each mode
(`KvApi.gtE_strictTotalOn`). The `…_on` theorems are the predicate-relative forms (state and lookup
key within `P`), the `store_…` theorems instantiate them — no comparator hypothesis left. -/

section
variable {K V : Type} {gt : K → K → Bool} {P : K → Prop}

/-- `seek_eq_spec` for a comparator that is a strict total order on the keys satisfying `P` -/
theorem seek_eq_spec_on (st : StrictTotalOn P gt) (d : Db K V) (inv : NodeInv gt d.nodes)
    (hd : KeysOn P (flatten d.nodes)) (k : K) (hk : P k) (p : CPos) :
    let r := curSeek gt d k false p
    r.2 = (specGet gt (flatten d.nodes) k).isSome ∧
    (∀ v, specGet gt (flatten d.nodes) k = some v → curRec d r.1 = some (k, v)) ∧
    (specGet gt (flatten d.nodes) k = none → r.1 = clearSkip p) := by
  obtain ⟨d', rfl⟩ := exists_lift_db d hd
  have h := seek_eq_spec st.lift d' ((nodeInv_mapK _ gt d'.nodes).1 inv) ⟨k, hk⟩ p
  have e : k = Subtype.val (⟨k, hk⟩ : {k // P k}) := rfl
  dsimp only at h ⊢
  rw [e, curSeek_mapK, Db.mapK_nodes, flatten_mapK, specGet_mapRecs]
  refine ⟨h.1, fun v hv => ?_, h.2.2⟩
  rw [curRec_mapK, h.2.1 v hv]; rfl

/-- `seek_ge_spec` for a comparator that is a strict total order on the keys satisfying `P` -/
theorem seek_ge_spec_on (st : StrictTotalOn P gt) (d : Db K V) (inv : NodeInv gt d.nodes)
    (hd : KeysOn P (flatten d.nodes)) (k : K) (hk : P k) (p : CPos) :
    let r := curSeek gt d k true p
    r.2 = (flatten d.nodes).any (fun x => !gt k x.1) ∧
    (r.2 = true → curRec d r.1 = ((flatten d.nodes).filter (fun x => !gt k x.1)).getLast?) ∧
    (r.2 = false → r.1 = clearSkip p) := by
  obtain ⟨d', rfl⟩ := exists_lift_db d hd
  have h := seek_ge_spec st.lift d' ((nodeInv_mapK _ gt d'.nodes).1 inv) ⟨k, hk⟩ p
  have e : k = Subtype.val (⟨k, hk⟩ : {k // P k}) := rfl
  dsimp only at h ⊢
  rw [e, curSeek_mapK, Db.mapK_nodes, flatten_mapK, any_mapRecs, filter_mapRecs, getLast?_mapRecs]
  refine ⟨h.1, fun hr => ?_, h.2.2⟩
  rw [curRec_mapK, h.2.1 hr]

/-- `cursor_set_spec` / `cursor_del_spec` for a comparator that is a strict total order on `P` -/
theorem cursor_write_spec_on (st : StrictTotalOn P gt) (d : Db K V) (inv : NodeInv gt d.nodes)
    (hd : KeysOn P (flatten d.nodes)) (p : CPos) (v : V) {k : K} {ov : V} (h : curRec d p = some (k, ov)) :
    (flatten (curSet d p v).nodes = specPut gt (flatten d.nodes) k v ∧ NodeInv gt (curSet d p v).nodes ∧
      curRec (curSet d p v) p = some (k, v)) ∧
    (flatten (curDel d p).nodes = specDel gt (flatten d.nodes) k ∧ NodeInv gt (curDel d p).nodes) := by
  obtain ⟨d', rfl⟩ := exists_lift_db d hd
  rw [curRec_mapK] at h
  cases hr : curRec d' p with
  | none => rw [hr] at h; cases h
  | some x =>
    obtain ⟨k', ov'⟩ := x
    rw [hr] at h
    simp only [Option.map_some, Option.some.injEq, Prod.mk.injEq] at h
    obtain ⟨rfl, rfl⟩ := h
    have inv' := (nodeInv_mapK _ gt d'.nodes).1 inv
    have hs := cursor_set_spec st.lift d' inv' p v hr
    have hdl := cursor_del_spec st.lift d' inv' p hr
    rw [curSet_mapK, curDel_mapK, curRec_mapK]
    simp only [Db.mapK_nodes, flatten_mapK, specPut_mapRecs, specDel_mapRecs, nodeInv_mapK]
    exact ⟨⟨by rw [hs.1], hs.2.1, by rw [hs.2.2]; rfl⟩, by rw [hdl.1], hdl.2⟩

end

/-- After ANY history of put / put-no-overwrite / delete / get over valid effective keys (any flags
    word, any level draws) from the empty database: a NEXT scan from before-first yields exactly the
    contents of the ordered reference map, in its order, then not-found; a PREV scan from after-last
    yields the reverse; and that order is strictly descending under the store's comparator. -/
theorem store_scan (flags : Nat) (ops : List (Op KvApi.EKey Bytes)) (h : OpsOn (KvApi.Valid flags) ops) :
    let d := (runNode (KvApi.gtE flags) ⟨[], []⟩ ops).1
    let m := (runSpec (KvApi.gtE flags) [] ops).1
    scan d (curNext d) (m.length + 1) .head = (m.map some, true) ∧
    scan d (curPrev d) (m.length + 1) .tail = (m.reverse.map some, true) ∧
    Desc (KvApi.gtE flags) m := by
  have r := run_refines_on (KvApi.gtE_strictTotalOn flags) ops h ⟨[], []⟩ nodeInv_nil keysOn_nil
  have e : flatten (runNode (KvApi.gtE flags) ⟨[], []⟩ ops).1.nodes = (runSpec (KvApi.gtE flags) [] ops).1 := r.2.1
  have s1 := scan_next _ r.2.2.1
  have s2 := scan_prev _ r.2.2.1
  rw [e] at s1 s2
  exact ⟨s1.1, s2, s1.2⟩

/-- byte-string keys without compound part (`flags = 0`), keys `(b, 0)` -/
theorem plain_scan_next (ops : List (Op KvApi.EKey Bytes)) (h : OpsOn KvApi.PlainKey ops) :
    let d := (runNode (KvApi.gtE 0) ⟨[], []⟩ ops).1
    let m := (runSpec (KvApi.gtE 0) [] ops).1
    scan d (curNext d) (m.length + 1) .head = (m.map some, true) ∧
    scan d (curPrev d) (m.length + 1) .tail = (m.reverse.map some, true) ∧ Desc (KvApi.gtE 0) m :=
  store_scan 0 ops (KvApi.opsOn_mono KvApi.valid_plain h)

/-- compound byte-string keys: every history -/
theorem compound_scan_next (ops : List (Op KvApi.EKey Bytes)) :
    let d := (runNode (KvApi.gtE Gen.IWDB_COMPOUND_KEYS) ⟨[], []⟩ ops).1
    let m := (runSpec (KvApi.gtE Gen.IWDB_COMPOUND_KEYS) [] ops).1
    scan d (curNext d) (m.length + 1) .head = (m.map some, true) ∧
    scan d (curPrev d) (m.length + 1) .tail = (m.reverse.map some, true) ∧
    Desc (KvApi.gtE Gen.IWDB_COMPOUND_KEYS) m :=
  store_scan Gen.IWDB_COMPOUND_KEYS ops (fun op _ => KvApi.valid_compound op.key)

/-- integer keys, both layouts -/
theorem vnum_scan_next (compound : Bool) (ops : List (Op KvApi.EKey Bytes)) (h : OpsOn (KvApi.VnumKey compound) ops) :
    let d := (runNode (KvApi.gtE (KvApi.vnumFlags compound)) ⟨[], []⟩ ops).1
    let m := (runSpec (KvApi.gtE (KvApi.vnumFlags compound)) [] ops).1
    scan d (curNext d) (m.length + 1) .head = (m.map some, true) ∧
    scan d (curPrev d) (m.length + 1) .tail = (m.reverse.map some, true) ∧
    Desc (KvApi.gtE (KvApi.vnumFlags compound)) m :=
  store_scan _ ops (KvApi.opsOn_mono (KvApi.valid_vnum compound) h)

/-- real-number keys, both layouts -/
theorem real_scan_next (compound : Bool) (ops : List (Op KvApi.EKey Bytes)) (h : OpsOn (KvApi.RealKey compound) ops) :
    let d := (runNode (KvApi.gtE (KvApi.realFlags compound)) ⟨[], []⟩ ops).1
    let m := (runSpec (KvApi.gtE (KvApi.realFlags compound)) [] ops).1
    scan d (curNext d) (m.length + 1) .head = (m.map some, true) ∧
    scan d (curPrev d) (m.length + 1) .tail = (m.reverse.map some, true) ∧
    Desc (KvApi.gtE (KvApi.realFlags compound)) m :=
  store_scan _ ops (KvApi.opsOn_mono (KvApi.valid_real compound) h)

/-- EQ seek under the store's comparator, any flags word: on a valid chain of valid keys (e.g. the
    state after any history, `C01.store_refines_map`), for a valid lookup key -/
theorem store_seek_eq (flags : Nat) (d : Db KvApi.EKey Bytes) (inv : NodeInv (KvApi.gtE flags) d.nodes)
    (hd : KeysOn (KvApi.Valid flags) (flatten d.nodes)) (k : KvApi.EKey) (hk : KvApi.Valid flags k) (p : CPos) :
    let r := curSeek (KvApi.gtE flags) d k false p
    r.2 = (specGet (KvApi.gtE flags) (flatten d.nodes) k).isSome ∧
    (∀ v, specGet (KvApi.gtE flags) (flatten d.nodes) k = some v → curRec d r.1 = some (k, v)) ∧
    (specGet (KvApi.gtE flags) (flatten d.nodes) k = none → r.1 = clearSkip p) :=
  seek_eq_spec_on (KvApi.gtE_strictTotalOn flags) d inv hd k hk p

/-- GE seek under the store's comparator, any flags word -/
theorem store_seek_ge (flags : Nat) (d : Db KvApi.EKey Bytes) (inv : NodeInv (KvApi.gtE flags) d.nodes)
    (hd : KeysOn (KvApi.Valid flags) (flatten d.nodes)) (k : KvApi.EKey) (hk : KvApi.Valid flags k) (p : CPos) :
    let r := curSeek (KvApi.gtE flags) d k true p
    r.2 = (flatten d.nodes).any (fun x => !KvApi.gtE flags k x.1) ∧
    (r.2 = true → curRec d r.1 = ((flatten d.nodes).filter (fun x => !KvApi.gtE flags k x.1)).getLast?) ∧
    (r.2 = false → r.1 = clearSkip p) :=
  seek_ge_spec_on (KvApi.gtE_strictTotalOn flags) d inv hd k hk p

/-- writes through a cursor under the store's comparator, any flags word -/
theorem store_cursor_write (flags : Nat) (d : Db KvApi.EKey Bytes) (inv : NodeInv (KvApi.gtE flags) d.nodes)
    (hd : KeysOn (KvApi.Valid flags) (flatten d.nodes)) (p : CPos) (v : Bytes) {k : KvApi.EKey} {ov : Bytes}
    (h : curRec d p = some (k, ov)) :
    (flatten (curSet d p v).nodes = specPut (KvApi.gtE flags) (flatten d.nodes) k v ∧
      NodeInv (KvApi.gtE flags) (curSet d p v).nodes ∧ curRec (curSet d p v) p = some (k, v)) ∧
    (flatten (curDel d p).nodes = specDel (KvApi.gtE flags) (flatten d.nodes) k ∧
      NodeInv (KvApi.gtE flags) (curDel d p).nodes) :=
  cursor_write_spec_on (KvApi.gtE_strictTotalOn flags) d inv hd p v h

/-! ### the hypotheses are satisfiable -/

example : scan exDb (curNext exDb) 4 .head = ([some (9, "i"), some (7, "g"), some (4, "d")], true) :=
  (scan_next exDb exDb_inv).1

example : (curSeek (fun a b : Nat => decide (a > b)) exDb 5 true .head).2 = true ∧
    curRec exDb (curSeek (fun a b : Nat => decide (a > b)) exDb 5 true .head).1 = some (7, "g") := by
  have h := seek_ge_spec natGt_strictTotal exDb exDb_inv 5 .head
  refine ⟨by rw [h.1]; decide, ?_⟩
  rw [h.2.1 (by rw [h.1]; decide)]; decide

/-- integer keys 5, 300, 7 stored in that order: the scan returns them in descending numeric order
    (300 has a 2-byte vnum, so byte order would differ), whatever levels were drawn -/
def exOpsVnum : List (Op KvApi.EKey Bytes) :=
  [.put (Vnum.enc 5, 0) [1] 2, .put (Vnum.enc 300, 0) [2] 0, .put (Vnum.enc 7, 0) [3] 5, .del (Vnum.enc 9, 0)]

theorem exOpsVnum_ok : OpsOn (KvApi.VnumKey false) exOpsVnum := by
  intro op hop
  simp only [exOpsVnum, List.mem_cons, List.not_mem_nil, or_false] at hop
  rcases hop with rfl | rfl | rfl | rfl
  · exact ⟨⟨5, by decide, rfl⟩, fun _ => rfl⟩
  · exact ⟨⟨300, by decide, rfl⟩, fun _ => rfl⟩
  · exact ⟨⟨7, by decide, rfl⟩, fun _ => rfl⟩
  · exact ⟨⟨9, by decide, rfl⟩, fun _ => rfl⟩

example : Desc (KvApi.gtE (KvApi.vnumFlags false)) (runSpec (KvApi.gtE (KvApi.vnumFlags false)) [] exOpsVnum).1 :=
  (vnum_scan_next false exOpsVnum exOpsVnum_ok).2.2

example : scan (runNode (KvApi.gtE 0) ⟨[], []⟩ [.put ([1], 0) [9] 0, .put ([1, 0], 0) [8] 1]).1
    (curNext (runNode (KvApi.gtE 0) ⟨[], []⟩ [.put ([1], 0) [9] 0, .put ([1, 0], 0) [8] 1]).1) 3 .head
    = ([some (([1, 0], 0), [8]), some (([1], 0), [9])], true) := by
  have h := (plain_scan_next [.put ([1], 0) [9] 0, .put ([1, 0], 0) [8] 1]
    (by simp [OpsOn, Op.key, KvApi.PlainKey])).1
  exact h

end IwModel.C02
