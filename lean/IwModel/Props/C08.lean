import IwModel.Model.Bkp
/-! # C08 — an online backup taken under load is a consistent snapshot (theorems follow) -/
namespace IwModel.C08
end IwModel.C08
