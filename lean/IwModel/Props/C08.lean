import IwModel.Model.Bkp
import IwModel.Lemmas.Bkp
/-! # C08 — an online backup taken under load is a consistent snapshot

Theorems about the stage machine of `Model/Bkp.lean`, for arbitrary contents `M`, records `R` and
`app : R → M → M`, and for **every** sequence of events (writers, growth, checkpoints, savepoints, backup
stages in any interleaving the locks allow).  The scheduled runs of the check step the real code and this
model side by side. -/
namespace IwModel.C08
open IwModel.Bkp

variable {M R : Type}

/-- **main_stable**: while the backup copies the main file (stage MAIN_COPY) no event changes the durable main
    file — checkpoints return early, writers only touch the private mapping and the log. So it does not matter
    at which moments of the stage the copy loop reads which part of the file. -/
theorem main_stable (app : R → M → M) (s : St M R) (e : Evt R) (h3 : s.stage = 3) :
    (step app s e).main = s.main := by
  cases e with
  | write r => simp only [step]; split <;> rfl
  | grow =>
    simp only [step]; split
    · rfl
    · simp [grow, append, h3]
  | checkpoint =>
    simp only [step]; split
    · rfl
    · simp [checkpoint, h3]
  | savepoint => simp only [step]; split <;> rfl
  | bkpStart => simp only [step, bkpStart]; (repeat' split) <;> rfl
  | bkpCleanup => simp [step, h3]
  | bkpCopyMain => simp only [step]; split <;> rfl
  | bkpFinalSavepoint => simp [step, h3]
  | bkpFinish => simp [step, h3]

/-- **live_unaffected**: nothing but a store operation changes what the API reads; in particular no stage of
    the backup, no checkpoint and no savepoint does. -/
theorem live_unaffected (app : R → M → M) (s : St M R) (e : Evt R) (hw : ∀ r, e ≠ .write r) :
    (step app s e).mem = s.mem := by
  cases e with
  | write r => exact absurd rfl (hw r)
  | grow =>
    simp only [step]; split
    · rfl
    · simp only [grow]; split
      · rfl
      · simp only [checkpoint]; split
        · rfl
        · simp only [rollforward, flush, append]; (repeat' split) <;> rfl
  | checkpoint =>
    simp only [step]; split
    · rfl
    · simp only [checkpoint]; split
      · rfl
      · simp only [rollforward, flush, append]; (repeat' split) <;> rfl
  | savepoint => simp only [step]; split <;> rfl
  | bkpStart => simp only [step, bkpStart]; (repeat' split) <;> rfl
  | bkpCleanup =>
    simp only [step]; split
    · rfl
    · simp only [bkpCleanup, checkpoint]; split
      · rfl
      · simp only [rollforward, flush, append]; (repeat' split) <;> rfl
  | bkpCopyMain => simp only [step]; split <;> rfl
  | bkpFinalSavepoint => simp only [step]; split <;> rfl
  | bkpFinish => simp only [step, bkpFinish]; (repeat' split) <;> rfl

/-- the contents seen by the API are the initial contents plus the store operations that took effect, in order -/
theorem mem_is_writes (app : R → M → M) (s : St M R) (es : List (Evt R)) :
    (run app s es).mem = replay app (writesDone app s es) s.mem := by
  induction es generalizing s with
  | nil => rfl
  | cons e es ih =>
    have hrun : run app s (e :: es) = run app (step app s e) es := rfl
    rw [hrun, ih]
    cases e with
    | write r =>
      simp only [writesDone, step]
      by_cases hg : (s.crashed || s.stage == 5) = true
      · simp [hg]
      · simp only [hg, Bool.false_eq_true, if_false, List.singleton_append, replay]
        rfl
    | grow => simp only [writesDone, List.nil_append]; rw [live_unaffected app s .grow (by intro r h; cases h)]
    | checkpoint => simp only [writesDone, List.nil_append]; rw [live_unaffected app s .checkpoint (by intro r h; cases h)]
    | savepoint => simp only [writesDone, List.nil_append]; rw [live_unaffected app s .savepoint (by intro r h; cases h)]
    | bkpStart => simp only [writesDone, List.nil_append]; rw [live_unaffected app s .bkpStart (by intro r h; cases h)]
    | bkpCleanup => simp only [writesDone, List.nil_append]; rw [live_unaffected app s .bkpCleanup (by intro r h; cases h)]
    | bkpCopyMain => simp only [writesDone, List.nil_append]; rw [live_unaffected app s .bkpCopyMain (by intro r h; cases h)]
    | bkpFinalSavepoint =>
      simp only [writesDone, List.nil_append]; rw [live_unaffected app s .bkpFinalSavepoint (by intro r h; cases h)]
    | bkpFinish => simp only [writesDone, List.nil_append]; rw [live_unaffected app s .bkpFinish (by intro r h; cases h)]

/-- **image_recovers_to_final_savepoint** (`_partial`: the hypothesis `hnc` excludes a growth of the file during
    the main copy, F25).  From a freshly opened store run any events at all; if they have brought a backup into
    its last stage (which begins with the final savepoint, taken under the exclusive lock) and the store has
    not crashed, then finishing the backup produces an image, and opening that image — roll-forward of its log
    part over its main part up to the last savepoint — gives exactly the contents of the live store at that
    instant. No event can fall between the final savepoint and the end of the stage (`step` in stage 5), so this
    is the single instant the property asks for. -/
theorem image_recovers_to_final_savepoint_partial (app : R → M → M) (s0 : St M R) (hfresh : Fresh s0)
    (es : List (Evt R)) (hnc : (run app s0 es).crashed = false) (h5 : (run app s0 es).stage = 5) :
    ∃ im, (step app (run app s0 es) .bkpFinish).img = some im ∧
      recoverImage app im = (run app s0 es).mem := by
  have hinv := binv_run app (binv_fresh app hfresh) es
  obtain ⟨b, l, hb, hlog, hfl, hm⟩ := hinv.st5 h5
  refine ⟨(b, (run app s0 es).log), ?_, ?_⟩
  · simp only [step, hnc, h5, bkpFinish, hb]
    simp [hfl]
  · simp only [recoverImage]
    rw [hlog, lastSp_append_sp, List.take_length, ← hlog]
    exact hm.symm

/-- **the image is a prefix of the history**: with the hypotheses of the previous theorem, the opened image is
    the initial contents plus exactly the store operations that took effect before the final savepoint, in
    their order — every operation completed before the call is in it (it took effect earlier), none is in it
    partially (operations are atomic steps under the database lock, C07), and an operation is never there
    without those that preceded it. -/
theorem image_is_prefix_of_history_partial (app : R → M → M) (s0 : St M R) (hfresh : Fresh s0)
    (es : List (Evt R)) (hnc : (run app s0 es).crashed = false) (h5 : (run app s0 es).stage = 5) :
    ∃ im, (step app (run app s0 es) .bkpFinish).img = some im ∧
      recoverImage app im = replay app (writesDone app s0 es) s0.mem := by
  obtain ⟨im, h1, h2⟩ := image_recovers_to_final_savepoint_partial app s0 hfresh es hnc h5
  exact ⟨im, h1, by rw [h2, mem_is_writes]⟩

/-- **F25 in the model**: a growth of the file while the backup copies the main file is acknowledged but never
    performed — the hypothesis of the two theorems above cannot be dropped. -/
theorem growth_in_main_copy_crashes (app : R → M → M) (s : St M R) (h3 : s.stage = 3) (hc : s.crashed = false) :
    (step app s .grow).crashed = true := by
  simp [step, grow, append, h3, hc]

/-- a second backup is refused while one is running (after the repair of `iwal_online_backup`) -/
theorem second_backup_refused (s : St M R) (h : s.stage ≠ 0) : (bkpStart s).2 = false := by
  simp [bkpStart, h]

/-- **the final stage is one instant**: once the final savepoint is taken (stage 5, exclusive lock held) no
    event except the end of the backup changes anything at all — this is the statement the comment of
    `image_recovers_to_final_savepoint_partial` relies on, for every event. -/
theorem stage5_only_finish (app : R → M → M) (s : St M R) (e : Evt R) (h5 : s.stage = 5)
    (he : e ≠ .bkpFinish) : step app s e = s := by
  cases e with
  | bkpFinish => exact absurd rfl he
  | bkpStart => simp [step, bkpStart, h5]
  | _ => simp [step, h5]

/-- any events between the final savepoint and the end of the backup leave the store as it was -/
theorem stage5_run_frozen (app : R → M → M) (s : St M R) (es : List (Evt R)) (h5 : s.stage = 5)
    (hes : ∀ e ∈ es, e ≠ .bkpFinish) : run app s es = s := by
  induction es with
  | nil => rfl
  | cons e es ih =>
    have h1 : step app s e = s := stage5_only_finish app s e h5 (hes e (by simp))
    have hrun : run app s (e :: es) = run app (step app s e) es := rfl
    rw [hrun, h1]
    exact ih (fun e' he' => hes e' (by simp [he']))

/-- **nothing attempted after the final savepoint is in the image** (`_partial` as above, F25): whatever the other
    threads try between the final savepoint and the end of the backup (`es'`, any events), the finished image
    still opens to the initial contents plus exactly the writes that took effect before the final savepoint. -/
theorem image_instant_partial (app : R → M → M) (s0 : St M R) (hfresh : Fresh s0)
    (es es' : List (Evt R)) (hnc : (run app s0 es).crashed = false) (h5 : (run app s0 es).stage = 5)
    (hes' : ∀ e ∈ es', e ≠ .bkpFinish) :
    ∃ im, (step app (run app s0 (es ++ es')) .bkpFinish).img = some im ∧
      recoverImage app im = replay app (writesDone app s0 es) s0.mem := by
  rw [run_append, stage5_run_frozen app _ es' h5 hes']
  exact image_is_prefix_of_history_partial app s0 hfresh es hnc h5

/-- in stage MAIN_COPY only the copy itself ends the stage -/
theorem stage3_step_stage (app : R → M → M) (s : St M R) (e : Evt R) (h3 : s.stage = 3)
    (he : e ≠ .bkpCopyMain) : (step app s e).stage = 3 := by
  cases e with
  | bkpCopyMain => exact absurd rfl he
  | write r => simp only [step]; split <;> simp [write, append, h3]
  | grow => simp only [step]; split <;> simp [grow, append, h3]
  | checkpoint => simp only [step]; split <;> simp [checkpoint, h3]
  | savepoint => simp only [step]; split <;> simp [savepoint, flush, append, h3]
  | bkpStart => simp [step, bkpStart, h3]
  | bkpCleanup => simp [step, h3]
  | bkpFinalSavepoint => simp [step, h3]
  | bkpFinish => simp [step, h3]

/-- **the moment of the copy does not matter**: however many events of the other threads fall into stage
    MAIN_COPY, in whatever order, the durable main file that the copy loop reads stays what it was when the
    stage began (`main_stable` lifted to every history inside the stage). -/
theorem stage3_run_main_stable (app : R → M → M) (s : St M R) (es : List (Evt R)) (h3 : s.stage = 3)
    (hes : ∀ e ∈ es, e ≠ .bkpCopyMain) : (run app s es).stage = 3 ∧ (run app s es).main = s.main := by
  induction es generalizing s with
  | nil => exact ⟨h3, rfl⟩
  | cons e es ih =>
    have hrun : run app s (e :: es) = run app (step app s e) es := rfl
    have h3' := stage3_step_stage app s e h3 (hes e (by simp))
    obtain ⟨a, b⟩ := ih (step app s e) h3' (fun e' he' => hes e' (by simp [he']))
    rw [hrun]
    exact ⟨a, b.trans (main_stable app s e h3)⟩

/-- the writes done in a history are those of its first part followed by those of the rest -/
theorem writesDone_append (app : R → M → M) (s : St M R) (a b : List (Evt R)) :
    writesDone app s (a ++ b) = writesDone app s a ++ writesDone app (run app s a) b := by
  induction a generalizing s with
  | nil => rfl
  | cons e a ih =>
    have hrun : run app s (e :: a) = run app (step app s e) a := rfl
    simp only [List.cons_append, writesDone, ih, hrun, List.append_assoc]

/-- **the image is a cut of the whole history**: what the image holds (the writes done up to the final savepoint)
    is a prefix of the writes done by the complete history, however the history goes on after the backup — and
    the live store ends with all of them (`mem_is_writes`): the backup removes nothing from the live store. -/
theorem image_writes_prefix_of_final (app : R → M → M) (s0 : St M R) (es rest : List (Evt R)) :
    writesDone app s0 es <+: writesDone app s0 (es ++ rest) ∧
      (run app s0 (es ++ rest)).mem = replay app (writesDone app s0 (es ++ rest)) s0.mem :=
  ⟨⟨_, (writesDone_append app s0 es rest).symm⟩, mem_is_writes app s0 (es ++ rest)⟩

/-- a crashed store does nothing (F25 is terminal in the model: no later event hides it) -/
theorem crashed_step_frozen (app : R → M → M) (s : St M R) (e : Evt R) (hc : s.crashed = true) :
    step app s e = s := by
  cases e <;> simp [step, hc]

theorem crashed_run_frozen (app : R → M → M) (s : St M R) (es : List (Evt R)) (hc : s.crashed = true) :
    run app s es = s := by
  induction es with
  | nil => rfl
  | cons e es ih =>
    have hrun : run app s (e :: es) = run app (step app s e) es := rfl
    rw [hrun, crashed_step_frozen app s e hc]
    exact ih

/-- **the backup ends**: finishing returns the stage machine to idle (a further backup can start) and asks for
    the checkpoint that truncates the log kept during the backup; the contents read by the API are untouched. -/
theorem finish_returns_to_idle (app : R → M → M) (s : St M R) (hc : s.crashed = false) (h5 : s.stage = 5) :
    (step app s .bkpFinish).stage = 0 ∧ (step app s .bkpFinish).forceCp = true ∧
      (step app s .bkpFinish).mem = s.mem ∧ (step app s .bkpFinish).main = s.main ∧
      (bkpStart (step app s .bkpFinish)).2 = true := by
  simp only [step, hc, h5, bkpFinish]
  cases s.imgMain <;> simp [bkpStart]

/-- non-vacuity: a concrete history over a counter store reaches stage 5 without a crash, and its image
    recovers to the contents at the final savepoint (3 = 1 + 2; the write after the backup is not in it) -/
example :
    let app : Nat → Nat → Nat := fun r m => m + r
    let s0 : St Nat Nat := { mem := 0, main := 0, log := [], flushed := 0, rfo := 0, stage := 0, imgMain := none,
                             img := none, forceCp := false, crashed := false }
    let es : List (Evt Nat) := [.write 1, .bkpStart, .bkpCleanup, .write 2, .checkpoint, .bkpCopyMain, .savepoint,
                                .bkpFinalSavepoint]
    (run app s0 es).stage = 5 ∧ (run app s0 es).crashed = false ∧
      ((step app (run app s0 es) .bkpFinish).img.map (recoverImage app)) = some 3 := by
  decide

/-- non-vacuity of `stage3_run_main_stable` and `image_instant_partial`: a history reaches stage MAIN_COPY, writers and
    the checkpoint thread act inside it and the main file stays 1 while the API already reads 3; and events
    attempted after the final savepoint (a write, a checkpoint, a second backup) do not reach the image -/
example :
    let app : Nat → Nat → Nat := fun r m => m + r
    let s0 : St Nat Nat := { mem := 0, main := 0, log := [], flushed := 0, rfo := 0, stage := 0, imgMain := none,
                             img := none, forceCp := false, crashed := false }
    let pre : List (Evt Nat) := [.write 1, .bkpStart, .bkpCleanup]
    let mid : List (Evt Nat) := [.write 2, .checkpoint, .savepoint, .bkpStart]
    let fin : List (Evt Nat) := [.bkpCopyMain, .bkpFinalSavepoint]
    let late : List (Evt Nat) := [.write 5, .checkpoint, .bkpStart]
    (run app s0 pre).stage = 3 ∧ (run app s0 pre).main = 1 ∧
      (run app s0 (pre ++ mid)).stage = 3 ∧ (run app s0 (pre ++ mid)).main = 1 ∧ (run app s0 (pre ++ mid)).mem = 3 ∧
      (run app s0 (pre ++ mid ++ fin)).stage = 5 ∧ (run app s0 (pre ++ mid ++ fin)).crashed = false ∧
      ((step app (run app s0 (pre ++ mid ++ fin ++ late)) .bkpFinish).img.map (recoverImage app)) = some 3 := by
  decide

end IwModel.C08
