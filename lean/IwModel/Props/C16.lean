import IwModel.Lemmas.JsonMerge
import IwModel.Lemmas.BinnPatch
/-! # C16 — JSON Merge Patch gives the RFC 7386 result

`Merge.*` is the model of `src/json/iwjson.c` (`_jbl_merge_patch_node` and its entry points, tied to the code by
`./vcheck C16`); `Rfc.mergePatch` is the pseudo-code of RFC 7386 section 2 (`Model/JsonRfc.lean`). -/
namespace IwModel.C16
open IwModel IwModel.Merge

/-- The recursive member walk of `_jbl_merge_patch_node` returns exactly `MergePatch(target, patch)` of RFC 7386 —
    for every target and every patch document, at any depth, whatever the types involved. -/
theorem merge_rfc (target patch : JVal) : mergeNode (some target) patch = Rfc.mergePatch target patch :=
  mergeNode_eq_rfc patch (some target)

/-- The call with no target node (a member that does not exist yet, `target == 0` in the C code) is `MergePatch` of a
    non-object: nested nulls of a new object member are dropped, not stored. -/
theorem merge_rfc_absent (patch : JVal) : mergeNode none patch = Rfc.mergePatch .null patch :=
  mergeNode_eq_rfc patch none

/-- "anything else replaces": a patch that is not an object is the result, whatever the target was -/
theorem merge_nonobject_replaces (target : Option JVal) (patch : JVal) (h : ∀ ms, patch ≠ .obj ms) :
    mergeNode target patch = patch := mergeNode_nonobj target patch h

/-- Member by member (the declarative reading of RFC 7386): with an object patch whose member names are distinct,
    applied to a target whose member names are distinct (or to a non-object, which counts as `{}`), the result is an
    object with distinct names in which
    * a name the patch maps to `null` is absent,
    * a name the patch maps to another value `v` holds `MergePatch(old member or nothing, v)`,
    * every other name holds what the target held. -/
theorem merge_members (target : JVal) (pms : Rfc.Members)
    (hp : Rfc.keysNodup pms) (ht : Rfc.keysNodup (Rfc.objectOrEmpty target)) :
    ∃ rms, mergeNode (some target) (.obj pms) = .obj rms ∧ Rfc.keysNodup rms ∧
      ∀ k, rms.lookup k = memberSpec (pms.lookup k) ((Rfc.objectOrEmpty target).lookup k) := by
  refine ⟨pms.foldl rstep (Rfc.objectOrEmpty target), ?_, ?_, ?_⟩
  · rw [merge_rfc, rfc_obj]
  · exact (lookup_foldl_rstep pms _ hp ht []).2
  · intro k; exact (lookup_foldl_rstep pms _ hp ht k).1

/-- All tree and binary entry points return the RFC result and report success: `jbn_merge_patch_from_json`,
    `jbn_patch_auto` (object patch), `jbl_merge_patch`, `jbl_merge_patch_jbl`. -/
theorem merge_entry_points (target patch : JVal) :
    mergeFromJson target patch = (Rfc.mergePatch target patch, .ok) ∧
    mergeAuto target patch = (Rfc.mergePatch target patch, .ok) ∧
    mergeBinary target patch = (Rfc.mergePatch target patch, .ok) := by
  simp [mergeFromJson, mergeAuto, mergeBinary, merge_rfc]

/-- `jbn_merge_patch` (pool or heap) is defined on object roots: there it returns the RFC result; on any other root
    it reports `IW_ERROR_INVALID_ARGS` and leaves the root as it was. -/
theorem merge_patch_root (root patch : JVal) :
    (∀ ms, root = .obj ms → mergePatch root patch = (Rfc.mergePatch root patch, .ok)) ∧
    ((∀ ms, root ≠ .obj ms) → mergePatch root patch = (root, .invalidArgs)) := by
  constructor
  · intro ms h; subst h; simp [mergePatch, merge_rfc]
  · intro h
    cases root <;> first | rfl | exact absurd rfl (h _)

/-- `jbn_merge_patch_create` builds the value wrapped in one-member objects along the pointer; `jbn_merge_patch_path`
    is the merge of that wrapper: for an object root and a pointer with segments `segs`,
    `merge_patch_path root p v = MergePatch(root, {s1: {s2: … v}})`. -/
theorem merge_path (root : JVal) (ms : Rfc.Members) (hroot : root = .obj ms) (path : Bytes) (segs : List Bytes)
    (hp : Patch.parsePtr path = .ok segs) (hnr : path ≠ [] ∧ path ≠ [47]) (v : Option JVal) :
    mergePath root path v = (Rfc.mergePatch root (wrap segs v), .ok) := by
  subst hroot
  have h1 : (path == []) = false := by simpa [beq_eq_false_iff_ne] using hnr.1
  have h2 : (path == [47]) = false := by simpa [beq_eq_false_iff_ne] using hnr.2
  simp [mergePath, createPatch, h1, h2, hp, mergePatch, merge_rfc]

/-- the root pointers `""` and `"/"` merge the value itself; without a value node there is no patch and the call
    reports an error -/
theorem merge_path_root (root : JVal) (ms : Rfc.Members) (hroot : root = .obj ms) (path : Bytes)
    (hr : path = [] ∨ path = [47]) :
    (∀ v, mergePath root path (some v) = (Rfc.mergePatch root v, .ok)) ∧
    mergePath root path none = (root, .invalidArgs) := by
  subst hroot
  rcases hr with rfl | rfl <;> simp [mergePath, createPatch, mergePatch, merge_rfc]

/-- a wrapped value really is "the value at that path": one level of `wrap` is a one-member object -/
theorem wrap_cons (k : Bytes) (r : List Bytes) (v : Option JVal) : wrap (k :: r) v = .obj [(k, wrap r v)] := rfl

/-- non-vacuity: the hypotheses of `merge_members` hold for `{"a":…,"ab":…}` patched with `{"a":null,"b":…}`, and the
    theorem then says `a` is gone, `ab` is kept and `b` is new -/
example : ∃ rms, mergeNode (some (.obj [([97], .int 1), ([97, 98], .int 2)])) (.obj [([97], .null), ([98], .int 3)]) = .obj rms ∧
    rms.lookup [97] = none ∧ rms.lookup [97, 98] = some (.int 2) ∧ rms.lookup [98] = some (Rfc.mergePatch .null (.int 3)) := by
  obtain ⟨rms, h1, _, h3⟩ := merge_members (.obj [([97], .int 1), ([97, 98], .int 2)]) [([97], .null), ([98], .int 3)]
    (by simp [Rfc.keysNodup]) (by simp [Rfc.keysNodup, Rfc.objectOrEmpty])
  exact ⟨rms, h1, by rw [h3]; rfl, by rw [h3]; rfl, by rw [h3]; rfl⟩

/-! ## The binary entry points on the binn BYTES: decode – merge – encode – swap

`BinnPatch.mergeHolder` / `mergeHolderJbl` are `jbl_merge_patch` / `jbl_merge_patch_jbl` as literal compositions of the
C14 reader (`_jbl_node_from_binn`), `jbn_merge_patch_from_json` and the C14 writer (`_jbl_binn_from_node`), on holders
`Binn.BVal` (`.cont bytes`).  `Holds h v`: the bytes of `h` decode to `v`, and `v` satisfies the decidable `Binn.wf` of
the C14 round-trip theorems.  Hypotheses: the patch is `leafOk` (integers are int64, strings/keys NUL free: what C's
types give anyway), the result is `small` (< 2^31 − 9 bytes).  "Keys ≤ 255 bytes, unique ignoring ASCII case" is the
case split `wf`, not a hypothesis. -/
section Bytes
open IwModel.Binn IwModel.BinnPatch

/-- **(b) a failed call leaves the bytes as they were**, for every holder and every patch (document or holder) -/
theorem jbl_merge_bytes_atomic (h ph : BVal) (patch : JVal) :
    ((mergeHolder h patch).2 ≠ .ok → (mergeHolder h patch).1 = h) ∧
    ((mergeHolderJbl h ph).2 ≠ .ok → (mergeHolderJbl h ph).1 = h) :=
  ⟨mergeHolder_atomic h patch, mergeHolderJbl_atomic h ph⟩

/-- `MergePatch` of `leafOk` documents is `leafOk` -/
theorem merge_result_leafOk (target patch : JVal) (ht : leafOk target = true) (hp : leafOk patch = true) :
    leafOk (Rfc.mergePatch target patch) = true := mergePatch_leafOk patch target ht hp

/-- **(a) + (c) `jbl_merge_patch` on the bytes**, for every holder `h` of a well-formed document `v` and every `leafOk`
    patch document: when the binary form can hold `MergePatch(v, patch)` the call succeeds, the new bytes are the writer's
    encoding of it, they decode to exactly `MergePatch(decode(old bytes), patch)` and are well-formed again; when it
    cannot (key > 255 bytes, keys equal ignoring case) the call reports `JBL_ERROR_CREATION` and the bytes are unchanged. -/
theorem jbl_merge_bytes (h : BVal) (v patch : JVal) (hh : Holds h v) (hp : leafOk patch = true) :
    (wf (Rfc.mergePatch v patch) = true → small (Rfc.mergePatch v patch) →
      mergeHolder h patch = (viewOf (Rfc.mergePatch v patch), .ok) ∧
      Holds (viewOf (Rfc.mergePatch v patch)) (Rfc.mergePatch v patch)) ∧
    (wf (Rfc.mergePatch v patch) = false → mergeHolder h patch = (h, .creation)) := by
  rw [mergeHolder_eq h v patch hh.1]
  constructor
  · intro hw hs
    exact ⟨swapIn_wf h _ hw, holds_view _ hw hs⟩
  · intro hw
    exact swapIn_not_wf h _ (mergePatch_leafOk patch v (leafOk_of_wf v hh.2) hp) hw

/-- `jbl_merge_patch_jbl`: with a patch holder of a well-formed document `p` it is `jbl_merge_patch` with `p`
    (so `jbl_merge_bytes` applies with `leafOk p` from `wf p`) -/
theorem jbl_merge_jbl_bytes (h ph : BVal) (p : JVal) (hp : Holds ph p) :
    mergeHolderJbl h ph = mergeHolder h p ∧ leafOk p = true := by
  refine ⟨?_, leafOk_of_wf p hp.2⟩
  simp only [mergeHolderJbl, hp.1]

/-- **Iteration over a list of patch documents** merged into the same holder one after the other: with `MergeSeqOk`
    (every patch is `leafOk`, every intermediate result `small`) the final bytes decode to the fold of RFC 7386 over the
    list (`mergeSpecSeq`: a result the binary form cannot hold is skipped), are well-formed, and the calls that report
    success are exactly those whose result can be held. -/
theorem jbl_merge_bytes_seq (ps : List JVal) : ∀ (h : BVal) (v : JVal), Holds h v → MergeSeqOk v ps →
    Holds (mergeSeq h ps).1 (mergeSpecSeq v ps) ∧ (mergeSeq h ps).2.map (· == .ok) = mergeSeqAcc v ps := by
  induction ps with
  | nil => intro h v hh _; exact ⟨hh, rfl⟩
  | cons p r ih =>
    intro h v hh hs
    obtain ⟨hl, hsm, hrest⟩ := hs
    obtain ⟨a1, a2⟩ := jbl_merge_bytes h v p hh hl
    simp only [mergeSeq, mergeSpecSeq, mergeSeqAcc]
    by_cases hw : wf (Rfc.mergePatch v p) = true
    · obtain ⟨e, hh'⟩ := a1 hw hsm
      simp only [hw, ↓reduceIte] at hrest ⊢
      rw [e]
      obtain ⟨i1, i2⟩ := ih _ _ hh' hrest
      exact ⟨i1, by simp only [List.map_cons, i2]; rfl⟩
    · simp only [Bool.not_eq_true] at hw
      simp only [hw, Bool.false_eq_true, ↓reduceIte] at hrest ⊢
      rw [a2 hw]
      obtain ⟨i1, i2⟩ := ih h v hh hrest
      exact ⟨i1, by simp only [List.map_cons, i2]; rfl⟩

/-- the hypotheses are satisfiable: `{"a":-5,"b":["hi",null]}` in its binary form merged with `{"a":null,"c":{"d":null,"e":1}}`
    gives bytes that decode to `{"b":["hi",null],"c":{"e":1}}` -/
example : ∃ h', mergeHolder (.cont [226, 18, 2, 1, 97, 33, 251, 1, 98, 224, 9, 2, 160, 2, 104, 105, 0, 0])
      (.obj [([97], .null), ([99], .obj [([100], .null), ([101], .int 1)])]) = (h', .ok) ∧
    Holds h' (.obj [([98], .arr [.str [104, 105], .null]), ([99], .obj [([101], .int 1)])]) := by
  have hh : Holds (.cont [226, 18, 2, 1, 97, 33, 251, 1, 98, 224, 9, 2, 160, 2, 104, 105, 0, 0])
      (.obj [([97], .int (-5)), ([98], .arr [.str [104, 105], .null])]) := ⟨by rfl, by decide⟩
  have hm : Rfc.mergePatch (.obj [([97], .int (-5)), ([98], .arr [.str [104, 105], .null])])
      (.obj [([97], .null), ([99], .obj [([100], .null), ([101], .int 1)])]) =
      .obj [([98], .arr [.str [104, 105], .null]), ([99], .obj [([101], .int 1)])] := by
    simp [rfc_obj, rfc_nonobj, rstep, Rfc.isNull, Rfc.remove, Rfc.put, Rfc.get, Rfc.objectOrEmpty, List.lookup]
  have h1 := (jbl_merge_bytes _ _ (.obj [([97], .null), ([99], .obj [([100], .null), ([101], .int 1)])]) hh (by decide)).1
  rw [hm] at h1
  obtain ⟨e, hh'⟩ := h1 (by decide) (small_of_enc _ [226, 23, 2, 1, 98, 224, 9, 2, 160, 2, 104, 105, 0, 0, 1, 99, 226, 7, 1, 1, 101, 32, 1]
    (by decide) (by decide))
  exact ⟨_, e, hh'⟩

/-- … and a refused result: merging `{"A":1}` into a document that has the member `a` -/
example : mergeHolder (.cont [226, 18, 2, 1, 97, 33, 251, 1, 98, 224, 9, 2, 160, 2, 104, 105, 0, 0]) (.obj [([65], .int 1)]) =
    (.cont [226, 18, 2, 1, 97, 33, 251, 1, 98, 224, 9, 2, 160, 2, 104, 105, 0, 0], .creation) := by
  have hh : Holds (.cont [226, 18, 2, 1, 97, 33, 251, 1, 98, 224, 9, 2, 160, 2, 104, 105, 0, 0])
      (.obj [([97], .int (-5)), ([98], .arr [.str [104, 105], .null])]) := ⟨by rfl, by decide⟩
  have hm : Rfc.mergePatch (.obj [([97], .int (-5)), ([98], .arr [.str [104, 105], .null])]) (.obj [([65], .int 1)]) =
      .obj [([97], .int (-5)), ([98], .arr [.str [104, 105], .null]), ([65], .int 1)] := by
    simp [rfc_obj, rfc_nonobj, rstep, Rfc.isNull, Rfc.put, Rfc.get, Rfc.objectOrEmpty, List.lookup]
  have h2 := (jbl_merge_bytes _ _ (.obj [([65], .int 1)]) hh (by decide)).2
  rw [hm] at h2
  exact h2 (by decide)

end Bytes

end IwModel.C16
