import IwModel.Lemmas.JsonMerge
/-! # C16 — JSON Merge Patch gives the RFC 7386 result

`Merge.*` is the model of `src/json/iwjson.c` (`_jbl_merge_patch_node` and its entry points, tied to the code by
`./vcheck C16`); `Rfc.mergePatch` is the pseudo-code of RFC 7386 section 2 (`Model/JsonRfc.lean`). -/
namespace IwModel.C16
open IwModel IwModel.Merge

/-- The recursive member walk of `_jbl_merge_patch_node` returns exactly `MergePatch(target, patch)` of RFC 7386 —
    for every target and every patch document, at any depth, whatever the types involved. -/
theorem merge_rfc (target patch : JVal) : mergeNode (some target) patch = Rfc.mergePatch target patch :=
  mergeNode_eq_rfc patch (some target)

/-- The call with no target node (a member that does not exist yet, `target == 0` in the C code) is `MergePatch` of a
    non-object: nested nulls of a new object member are dropped, not stored. -/
theorem merge_rfc_absent (patch : JVal) : mergeNode none patch = Rfc.mergePatch .null patch :=
  mergeNode_eq_rfc patch none

/-- "anything else replaces": a patch that is not an object is the result, whatever the target was -/
theorem merge_nonobject_replaces (target : Option JVal) (patch : JVal) (h : ∀ ms, patch ≠ .obj ms) :
    mergeNode target patch = patch := mergeNode_nonobj target patch h

/-- Member by member (the declarative reading of RFC 7386): with an object patch whose member names are distinct,
    applied to a target whose member names are distinct (or to a non-object, which counts as `{}`), the result is an
    object with distinct names in which
    * a name the patch maps to `null` is absent,
    * a name the patch maps to another value `v` holds `MergePatch(old member or nothing, v)`,
    * every other name holds what the target held. -/
theorem merge_members (target : JVal) (pms : Rfc.Members)
    (hp : Rfc.keysNodup pms) (ht : Rfc.keysNodup (Rfc.objectOrEmpty target)) :
    ∃ rms, mergeNode (some target) (.obj pms) = .obj rms ∧ Rfc.keysNodup rms ∧
      ∀ k, rms.lookup k = memberSpec (pms.lookup k) ((Rfc.objectOrEmpty target).lookup k) := by
  refine ⟨pms.foldl rstep (Rfc.objectOrEmpty target), ?_, ?_, ?_⟩
  · rw [merge_rfc, rfc_obj]
  · exact (lookup_foldl_rstep pms _ hp ht []).2
  · intro k; exact (lookup_foldl_rstep pms _ hp ht k).1

/-- All tree and binary entry points return the RFC result and report success: `jbn_merge_patch_from_json`,
    `jbn_patch_auto` (object patch), `jbl_merge_patch`, `jbl_merge_patch_jbl`. -/
theorem merge_entry_points (target patch : JVal) :
    mergeFromJson target patch = (Rfc.mergePatch target patch, .ok) ∧
    mergeAuto target patch = (Rfc.mergePatch target patch, .ok) ∧
    mergeBinary target patch = (Rfc.mergePatch target patch, .ok) := by
  simp [mergeFromJson, mergeAuto, mergeBinary, merge_rfc]

/-- `jbn_merge_patch` (pool or heap) is defined on object roots: there it returns the RFC result; on any other root
    it reports `IW_ERROR_INVALID_ARGS` and leaves the root as it was. -/
theorem merge_patch_root (root patch : JVal) :
    (∀ ms, root = .obj ms → mergePatch root patch = (Rfc.mergePatch root patch, .ok)) ∧
    ((∀ ms, root ≠ .obj ms) → mergePatch root patch = (root, .invalidArgs)) := by
  constructor
  · intro ms h; subst h; simp [mergePatch, merge_rfc]
  · intro h
    cases root <;> first | rfl | exact absurd rfl (h _)

/-- `jbn_merge_patch_create` builds the value wrapped in one-member objects along the pointer; `jbn_merge_patch_path`
    is the merge of that wrapper: for an object root and a pointer with segments `segs`,
    `merge_patch_path root p v = MergePatch(root, {s1: {s2: … v}})`. -/
theorem merge_path (root : JVal) (ms : Rfc.Members) (hroot : root = .obj ms) (path : Bytes) (segs : List Bytes)
    (hp : Patch.parsePtr path = .ok segs) (hnr : path ≠ [] ∧ path ≠ [47]) (v : Option JVal) :
    mergePath root path v = (Rfc.mergePatch root (wrap segs v), .ok) := by
  subst hroot
  have h1 : (path == []) = false := by simpa [beq_eq_false_iff_ne] using hnr.1
  have h2 : (path == [47]) = false := by simpa [beq_eq_false_iff_ne] using hnr.2
  simp [mergePath, createPatch, h1, h2, hp, mergePatch, merge_rfc]

/-- the root pointers `""` and `"/"` merge the value itself; without a value node there is no patch and the call
    reports an error -/
theorem merge_path_root (root : JVal) (ms : Rfc.Members) (hroot : root = .obj ms) (path : Bytes)
    (hr : path = [] ∨ path = [47]) :
    (∀ v, mergePath root path (some v) = (Rfc.mergePatch root v, .ok)) ∧
    mergePath root path none = (root, .invalidArgs) := by
  subst hroot
  rcases hr with rfl | rfl <;> simp [mergePath, createPatch, mergePatch, merge_rfc]

/-- a wrapped value really is "the value at that path": one level of `wrap` is a one-member object -/
theorem wrap_cons (k : Bytes) (r : List Bytes) (v : Option JVal) : wrap (k :: r) v = .obj [(k, wrap r v)] := rfl

/-- non-vacuity: the hypotheses of `merge_members` hold for `{"a":…,"ab":…}` patched with `{"a":null,"b":…}`, and the
    theorem then says `a` is gone, `ab` is kept and `b` is new -/
example : ∃ rms, mergeNode (some (.obj [([97], .int 1), ([97, 98], .int 2)])) (.obj [([97], .null), ([98], .int 3)]) = .obj rms ∧
    rms.lookup [97] = none ∧ rms.lookup [97, 98] = some (.int 2) ∧ rms.lookup [98] = some (Rfc.mergePatch .null (.int 3)) := by
  obtain ⟨rms, h1, _, h3⟩ := merge_members (.obj [([97], .int 1), ([97, 98], .int 2)]) [([97], .null), ([98], .int 3)]
    (by simp [Rfc.keysNodup]) (by simp [Rfc.keysNodup, Rfc.objectOrEmpty])
  exact ⟨rms, h1, by rw [h3]; rfl, by rw [h3]; rfl, by rw [h3]; rfl⟩

end IwModel.C16
