import IwModel.Model.JsonMerge
/-! # C16 — JSON Merge Patch gives the RFC 7386 result -/
namespace IwModel.C16
open IwModel IwModel.Merge

end IwModel.C16
