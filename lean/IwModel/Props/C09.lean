import IwModel.Lemmas.KvCur
/-! # C09 — iterating while the store changes

Property theorems only; helper lemmas live in `IwModel/Lemmas/KvCur.lean`. The model is the node
layer of `Model/Kv.lean`: the chain `d.nodes`, the table of open cursors `d.curs`, the mutations
`put / del / curSet / curDel` with the cursor fix-ups of `_sblk_addkv*`, `_sblk_rmkv`,
`_lx_split_addkv` and `_lx_del_sblk_lw` (`fixAdd / fixRm / fixSplit / fixFront / fixDelNode`).

Vocabulary (defined in `Lemmas/KvCur.lean`):
* `CurOk ns p` — position `p` is usable on chain `ns` (`.at i j _`: slot `j` of node `i` exists;
  the pseudo positions head / tail / void always);
* `aheadN ns p` — the records NEXT has yet to return from `p`, in order: a suffix of `flatten ns`
  (from the slot itself when `skip_next > 0`, from the following slot otherwise);
* `aheadP ns p` — the records PREV has yet to return (it returns them from the back): a prefix;
* `CursVia fix d d'` — the cursor table of `d'` is that of `d` with every position sent through
  `fix`; so `fix p` is where *any* cursor standing at `p` stands afterwards;
* `InsRel P ns ns' p p'` — `p'` is usable on `ns'` and, the records failing `P` (the newborn) filtered
  out, `aheadN/aheadP` of `(ns', p')` equal those of `(ns, p)`;
* `DelRel P ns ns' p p'` — `p'` is usable on `ns'` and `aheadN/aheadP` of `(ns', p')` are those of
  `(ns, p)` with the records failing `P` (the removed one) filtered out;
* `keyNe k r` — `r.1 ≠ k`; `setVal k v` — rewrite the value of key `k`.

Known corner (finding F38): a cursor parked with `skip_next = -1` on the slot before a removed last
slot counts a record inserted right after that slot as "ahead" although its key may sort before the
key the cursor had reached. The statements below say what is true of the code as it is: nothing
that was ahead is lost or repeated, only the newborn may be extra; `f38_witness` exhibits the
corner on the model. -/
namespace IwModel.C09
open IwModel Kv

section
variable {K V : Type} {gt : K → K → Bool}

/-! ### 1. moving on from any position -/

/-- NEXT from any usable position: when it succeeds the cursor stands on a usable position whose
    record is the first of what lay ahead, and the rest lies ahead of the new position; when it
    reports not-found nothing lay ahead. -/
theorem next_spec (d : Db K V) (hok : NodesOk d.nodes) (p : CPos) (hp : CurOk d.nodes p) :
    (∀ p', curNext d p = (p', true) →
      ∃ r, curRec d p' = some r ∧ aheadN d.nodes p = r :: aheadN d.nodes p' ∧ CurOk d.nodes p') ∧
    (∀ p', curNext d p = (p', false) → aheadN d.nodes p = []) := by
  have h := next_step d hok p hp
  refine ⟨fun p' e => ?_, fun p' e => ?_⟩
  · have := h.1 (by rw [e]); rwa [e] at this
  · exact h.2 (by rw [e])

/-- PREV, symmetric: it returns the last record of `aheadP`. -/
theorem prev_spec (d : Db K V) (hok : NodesOk d.nodes) (p : CPos) (hp : CurOk d.nodes p) :
    (∀ p', curPrev d p = (p', true) →
      ∃ r, curRec d p' = some r ∧ aheadP d.nodes p = aheadP d.nodes p' ++ [r] ∧ CurOk d.nodes p') ∧
    (∀ p', curPrev d p = (p', false) → aheadP d.nodes p = []) := by
  have h := prev_step d hok p hp
  refine ⟨fun p' e => ?_, fun p' e => ?_⟩
  · have := h.1 (by rw [e]); rwa [e] at this
  · exact h.2 (by rw [e])

/-- Continuing a scan from any usable position: the successive NEXT calls return exactly `aheadN`,
    in order, each record once, then not-found; and `aheadN` is strictly descending in key order
    (so: in key order, without repetition). -/
theorem scan_from (d : Db K V) (inv : NodeInv gt d.nodes) (p : CPos) (hp : CurOk d.nodes p) :
    scan d (curNext d) ((aheadN d.nodes p).length + 1) p = ((aheadN d.nodes p).map some, true) ∧
    Desc gt (aheadN d.nodes p) :=
  ⟨scan_from_next d inv.1 _ p hp (Nat.lt_succ_self _), aheadN_desc inv.2 p⟩

/-- … and backwards with PREV: exactly `aheadP`, from the back. -/
theorem scan_back_from (d : Db K V) (inv : NodeInv gt d.nodes) (p : CPos) (hp : CurOk d.nodes p) :
    scan d (curPrev d) ((aheadP d.nodes p).length + 1) p = ((aheadP d.nodes p).reverse.map some, true) ∧
    Desc gt (aheadP d.nodes p) :=
  ⟨scan_from_prev d inv.1 _ p hp (Nat.lt_succ_self _), aheadP_desc inv.2 p⟩

/-- `aheadN`/`aheadP` are the suffix / prefix of the live records at the flat index of the slot,
    with the flat index spelled out as a sum of node sizes. -/
theorem ahead_at (ns : List (Node K V)) (i j : Nat) (s : Int) :
    let f := ((ns.take i).map (·.recs.length)).sum + j
    aheadN ns (.at i j s) = (if s > 0 then (flatten ns).drop f else (flatten ns).drop (f + 1)) ∧
    aheadP ns (.at i j s) = (if s < 0 then (flatten ns).take (f + 1) else (flatten ns).take f) := by
  simp only [aheadN, aheadP, flatIdx_eq_sum, and_self]

/-! ### 2. every open cursor survives every mutation -/

/-- Inserting a key the store does not hold (`iwkv_put`, any level drawn, with or without
    `IWKV_NO_OVERWRITE`), through every branch of `_lx_addkv` — plain insertion into the node,
    "add to upper", a fresh node at the front, a fresh node after a full node, the split at the
    pivot with the record going left or right: for every position `p` a cursor may stand on,
    `fix p` (where that cursor stands afterwards) is usable, and what lies ahead of it — the newborn
    filtered out — is exactly what lay ahead before, in both directions. Nothing is lost, nothing is
    repeated, order is kept; only the newborn may have been added. -/
theorem put_new_keeps_cursors [DecidableEq K] (st : StrictTotal gt) (d : Db K V) (k : K) (v : V) (noOverwrite : Bool)
    (lvl : Nat) (hk : ∀ r ∈ flatten d.nodes, r.1 ≠ k) :
    ∃ fix, CursVia fix d (put gt d k v noOverwrite lvl).1 ∧
      ∀ p, CurOk d.nodes p →
        CurOk (put gt d k v noOverwrite lvl).1.nodes (fix p) ∧
        (aheadN (put gt d k v noOverwrite lvl).1.nodes (fix p)).filter (keyNe k) = aheadN d.nodes p ∧
        (aheadP (put gt d k v noOverwrite lvl).1.nodes (fix p)).filter (keyNe k) = aheadP d.nodes p :=
  put_new_cursors st d k v noOverwrite lvl hk

/-- Overwriting the value of a key the store holds: no cursor moves; what lies ahead of any usable
    position is unchanged except for the value of that key. -/
theorem put_overwrite_keeps_cursors [DecidableEq K] (st : StrictTotal gt) (d : Db K V) (inv : NodeInv gt d.nodes)
    (k : K) (v : V) (lvl : Nat) {av : V} (hm : (k, av) ∈ flatten d.nodes) :
    (put gt d k v false lvl).1.curs = d.curs ∧
    ∀ p, CurOk d.nodes p → CurOk (put gt d k v false lvl).1.nodes p ∧
      aheadN (put gt d k v false lvl).1.nodes p = (aheadN d.nodes p).map (setVal k v) ∧
      aheadP (put gt d k v false lvl).1.nodes p = (aheadP d.nodes p).map (setVal k v) :=
  put_overwrite_cursors st d inv k v lvl hm

/-- `iwkv_cursor_set` through any cursor: likewise. -/
theorem cursor_set_keeps_cursors [DecidableEq K] (st : StrictTotal gt) (d : Db K V) (inv : NodeInv gt d.nodes)
    (p0 : CPos) (v : V) {k : K} {ov : V} (h : curRec d p0 = some (k, ov)) :
    (curSet d p0 v).curs = d.curs ∧
    ∀ p, CurOk d.nodes p → CurOk (curSet d p0 v).nodes p ∧
      aheadN (curSet d p0 v).nodes p = (aheadN d.nodes p).map (setVal k v) ∧
      aheadP (curSet d p0 v).nodes p = (aheadP d.nodes p).map (setVal k v) :=
  curSet_cursors st d inv p0 v h

/-- `iwkv_del` of any key (present or not; slot removal with the skip marks of `_sblk_rmkv`, or
    removal of the whole node with the three cursor cases of `_lx_del_sblk_lw`): for every position
    `p`, `fix p` is usable (possibly a pseudo position) and what lies ahead of it is exactly what lay
    ahead of `p` minus the record with key `k` — every record that was ahead and was not deleted is
    still ahead, in order, the deleted one is not, nothing else appears; in both directions. -/
theorem del_keeps_cursors [DecidableEq K] (st : StrictTotal gt) (d : Db K V) (inv : NodeInv gt d.nodes) (k : K) :
    ∃ fix, CursVia fix d (del gt d k).1 ∧
      ∀ p, CurOk d.nodes p →
        CurOk (del gt d k).1.nodes (fix p) ∧
        aheadN (del gt d k).1.nodes (fix p) = (aheadN d.nodes p).filter (keyNe k) ∧
        aheadP (del gt d k).1.nodes (fix p) = (aheadP d.nodes p).filter (keyNe k) :=
  del_cursors st d inv k

/-- `iwkv_cursor_del` through a cursor standing at `p0` on a record with key `k`: the same for every
    open cursor — including the deleting cursor itself (`p = p0`), which is what "deleting the record
    under a cursor and moving on visits each remaining record exactly once" needs: by `scan_from`,
    the NEXT calls that follow return `(aheadN d.nodes p0).filter (keyNe k)`. -/
theorem cursor_del_keeps_cursors [DecidableEq K] (st : StrictTotal gt) (d : Db K V) (inv : NodeInv gt d.nodes)
    (p0 : CPos) {k : K} {ov : V} (h : curRec d p0 = some (k, ov)) :
    ∃ fix, CursVia fix d (curDel d p0) ∧
      ∀ p, CurOk d.nodes p →
        CurOk (curDel d p0).nodes (fix p) ∧
        aheadN (curDel d p0).nodes (fix p) = (aheadN d.nodes p).filter (keyNe k) ∧
        aheadP (curDel d p0).nodes (fix p) = (aheadP d.nodes p).filter (keyNe k) :=
  curDel_cursors st d inv p0 h

/-- what `CursVia` means for a cursor id: its new position is `fix` of its old one -/
theorem cursVia_lookup {fix : CPos → CPos} {d d' : Db K V} (h : CursVia fix d d') (c : Nat) :
    curPos d' c = (curPos d c).map fix :=
  cursVia_curPos h c

/-! ### 3. histories -/

/-- Any history of mutations — `iwkv_put`, `iwkv_del`, `iwkv_cursor_set` / `iwkv_cursor_del` through
    any cursor id (the tracked cursor `c` included), and arbitrary repositionings (NEXT, PREV, anything
    else) of the *other* cursors — run from a valid chain on which cursor `c` stands at a usable
    position `p`.
    At the end the chain is valid, cursor `c` stands at a usable position `p'`, and for what NEXT
    has yet to return (`aheadN`) as well as for what PREV has yet to return (`aheadP`):

    * `surv`: the keys that were ahead and were not removed by the history (`runDel`: the keys of
      the `del`s and the keys under the deleting cursors) are still ahead, in the same relative order;
    * `orig`: whatever is ahead now, except keys the history put (`runPut`), was ahead before, in the
      same relative order — nothing else appears;
    * `same`: the records ahead whose key the history did not touch are exactly the same, values
      included;
    * a key the history removed and did not put again afterwards (`runDead`) is not ahead (it is not
      in the store);
    * what is ahead is strictly descending in key order, so by `scan_from` continuing the scan
      returns it in key order, each record once. -/
theorem history_keeps_cursor [DecidableEq K] (st : StrictTotal gt) (d : Db K V) (inv : NodeInv gt d.nodes)
    (c : Nat) (p : CPos) (hc : curPos d c = some p) (hp : CurOk d.nodes p) (ms : List (Mut K V))
    (hmv : ∀ m ∈ ms, repositions c m = false) :
    let d' := runMut gt d ms
    NodeInv gt d'.nodes ∧
    ∃ p', curPos d' c = some p' ∧ CurOk d'.nodes p' ∧
      StepFacts (aheadN d.nodes p) (aheadN d'.nodes p') (runDel gt d ms) (runPut ms) (runTouch gt d ms) ∧
      StepFacts (aheadP d.nodes p) (aheadP d'.nodes p') (runDel gt d ms) (runPut ms) (runTouch gt d ms) ∧
      (∀ k ∈ runDead gt d ms, ∀ r, (r ∈ aheadN d'.nodes p' ∨ r ∈ aheadP d'.nodes p') → r.1 ≠ k) ∧
      Desc gt (aheadN d'.nodes p') ∧ Desc gt (aheadP d'.nodes p') := by
  intro d'
  obtain ⟨inv', p', hc', hp', hN, hP⟩ := run_tracks st c ms d p inv hc hp hmv
  refine ⟨inv', p', hc', hp', hN, hP, ?_, aheadN_desc inv'.2 p', aheadP_desc inv'.2 p'⟩
  intro k hk r hr
  refine run_dead st ms d inv k hk r ?_
  rcases hr with hr | hr
  · exact mem_flat_of_ahead.1 hr
  · exact mem_flat_of_ahead.2 hr

/-- The same, spelled out for the forward direction without the `StepFacts` bundle. -/
theorem history_forward [DecidableEq K] (st : StrictTotal gt) (d : Db K V) (inv : NodeInv gt d.nodes)
    (c : Nat) (p : CPos) (hc : curPos d c = some p) (hp : CurOk d.nodes p) (ms : List (Mut K V))
    (hmv : ∀ m ∈ ms, repositions c m = false) :
    ∃ p', curPos (runMut gt d ms) c = some p' ∧ CurOk (runMut gt d ms).nodes p' ∧
      (((aheadN d.nodes p).map (·.1)).filter (fun k => decide (k ∉ runDel gt d ms))).Sublist
        ((aheadN (runMut gt d ms).nodes p').map (·.1)) ∧
      (((aheadN (runMut gt d ms).nodes p').map (·.1)).filter (fun k => decide (k ∉ runPut ms))).Sublist
        ((aheadN d.nodes p).map (·.1)) ∧
      (aheadN (runMut gt d ms).nodes p').filter (fun r => decide (r.1 ∉ runTouch gt d ms)) =
        (aheadN d.nodes p).filter (fun r => decide (r.1 ∉ runTouch gt d ms)) ∧
      (∀ k ∈ runDead gt d ms, ∀ r ∈ aheadN (runMut gt d ms).nodes p', r.1 ≠ k) ∧
      scan (runMut gt d ms) (curNext (runMut gt d ms)) ((aheadN (runMut gt d ms).nodes p').length + 1) p' =
        ((aheadN (runMut gt d ms).nodes p').map some, true) := by
  obtain ⟨inv', p', hc', hp', hN, _, hdead, _, _⟩ := history_keeps_cursor st d inv c p hc hp ms hmv
  exact ⟨p', hc', hp', hN.surv, hN.orig, hN.same, fun k hk r hr => hdead k hk r (Or.inl hr),
    (scan_from (runMut gt d ms) inv' p' hp').1⟩

/-- The property as worded: cursor `c` continues its scan with NEXT calls interleaved, in any way,
    with mutations through the database and through any cursor (itself included) and with
    arbitrary moves of the other cursors. Let `R = runRet gt c d ms` be the records handed to it
    along the way and `aheadN d'.nodes p'` what the NEXT calls after the history will still return
    (`scan_from`). Then for everything the scan returns, `R ++ aheadN d'.nodes p'`, against what lay
    ahead when it started:

    * `surv`: every key that lay ahead and was not removed by the history is returned, in the same
      relative order — nothing that existed throughout is skipped;
    * `orig`: everything returned, except keys the history put, lay ahead at the start and comes in
      the same relative order; since what lay ahead is strictly descending, these come in key order
      and without repetition;
    * `same`: the returned records whose key the history did not touch are exactly the untouched
      records that lay ahead, values included;
    * (`returned_is_live`) each record was live in the store when it was handed over — never a
      deleted one. -/
theorem scan_through_history [DecidableEq K] (st : StrictTotal gt) (d : Db K V) (inv : NodeInv gt d.nodes)
    (c : Nat) (p : CPos) (hc : curPos d c = some p) (hp : CurOk d.nodes p) (ms : List (Mut K V))
    (hmv : ∀ m ∈ ms, repositions c m = true → m = .next c) :
    let d' := runMut gt d ms
    NodeInv gt d'.nodes ∧
    ∃ p', curPos d' c = some p' ∧ CurOk d'.nodes p' ∧
      StepFacts (aheadN d.nodes p) (runRet gt c d ms ++ aheadN d'.nodes p')
        (runDel gt d ms) (runPut ms) (runTouch gt d ms) ∧
      scan d' (curNext d') ((aheadN d'.nodes p').length + 1) p' = ((aheadN d'.nodes p').map some, true) ∧
      Desc gt (aheadN d.nodes p) := by
  intro d'
  obtain ⟨inv', p', hc', hp', hN⟩ := run_scanN st c ms d p inv hc hp hmv
  exact ⟨inv', p', hc', hp', hN, (scan_from d' inv' p' hp').1, aheadN_desc inv.2 p⟩

/-- … and backwards: cursor `c` continues with PREV calls; what it is handed, `R`, it gets from the
    back of `aheadP`, so the whole backward scan returns `(aheadP d'.nodes p' ++ R.reverse).reverse`. -/
theorem scan_back_through_history [DecidableEq K] (st : StrictTotal gt) (d : Db K V) (inv : NodeInv gt d.nodes)
    (c : Nat) (p : CPos) (hc : curPos d c = some p) (hp : CurOk d.nodes p) (ms : List (Mut K V))
    (hmv : ∀ m ∈ ms, repositions c m = true → m = .prev c) :
    let d' := runMut gt d ms
    NodeInv gt d'.nodes ∧
    ∃ p', curPos d' c = some p' ∧ CurOk d'.nodes p' ∧
      StepFacts (aheadP d.nodes p) (aheadP d'.nodes p' ++ (runRet gt c d ms).reverse)
        (runDel gt d ms) (runPut ms) (runTouch gt d ms) ∧
      scan d' (curPrev d') ((aheadP d'.nodes p').length + 1) p' = ((aheadP d'.nodes p').reverse.map some, true) ∧
      Desc gt (aheadP d.nodes p) := by
  intro d'
  obtain ⟨inv', p', hc', hp', hP⟩ := run_scanP st c ms d p inv hc hp hmv
  exact ⟨inv', p', hc', hp', hP, (scan_back_from d' inv' p' hp').1, aheadP_desc inv.2 p⟩

/-- whatever a NEXT / PREV hands to a cursor is a live record of the store at that moment -/
theorem returned_is_live (c : Nat) (d : Db K V) (m : Mut K V) (r : K × V) (h : retOf c d m = some r) :
    r ∈ flatten d.nodes :=
  ret_live h

/-- Consequence spelled out: a record that lay ahead of the cursor and whose key no mutation of the
    history touched is returned by the scan exactly once, and the untouched records come in strictly
    descending key order. -/
theorem untouched_once [DecidableEq K] (st : StrictTotal gt) (d : Db K V) (inv : NodeInv gt d.nodes)
    (c : Nat) (p : CPos) (hc : curPos d c = some p) (hp : CurOk d.nodes p) (ms : List (Mut K V))
    (hmv : ∀ m ∈ ms, repositions c m = true → m = .next c) :
    ∃ p', curPos (runMut gt d ms) c = some p' ∧
      (runRet gt c d ms ++ aheadN (runMut gt d ms).nodes p').filter (keyNotIn (runTouch gt d ms)) =
        (aheadN d.nodes p).filter (keyNotIn (runTouch gt d ms)) ∧
      Desc gt ((runRet gt c d ms ++ aheadN (runMut gt d ms).nodes p').filter (keyNotIn (runTouch gt d ms))) ∧
      ∀ r ∈ aheadN d.nodes p, r.1 ∉ runTouch gt d ms →
        ((runRet gt c d ms ++ aheadN (runMut gt d ms).nodes p').map (·.1)).count r.1 = 1 := by
  obtain ⟨_, p', hc', _, hN, _, hd⟩ := scan_through_history st d inv c p hc hp ms hmv
  refine ⟨p', hc', hN.same, ?_, ?_⟩
  · rw [hN.same]; exact List.Pairwise.sublist List.filter_sublist hd
  · intro r hr ht
    have hnd : (((aheadN d.nodes p).filter (keyNotIn (runTouch gt d ms))).map (·.1)).Nodup := by
      refine List.Pairwise.map _ ?_ (List.Pairwise.sublist List.filter_sublist hd)
      intro a b hab e
      exact st.ne_of_gt hab e
    have hP : notIn (runTouch gt d ms) r.1 = true := by simpa [notIn] using ht
    have hP' : keyNotIn (runTouch gt d ms) r = true := by simpa [keyNotIn] using ht
    have hmem : r.1 ∈ ((aheadN d.nodes p).filter (keyNotIn (runTouch gt d ms))).map (·.1) :=
      List.mem_map.2 ⟨r, List.mem_filter.2 ⟨hr, hP'⟩, rfl⟩
    have h1 := hnd.count (a := r.1)
    rw [if_pos hmem, ← hN.same, map_fst_filter, List.count_filter hP] at h1
    exact h1

end

/-! ### the hypotheses are satisfiable; the model computes -/

/-- NEXT from the cursor of the example store returns the one record ahead of it. -/
example : ∃ r, curRec exDb9 (.at 1 0 0) = some r ∧
    aheadN exDb9.nodes (.at 0 1 0) = r :: aheadN exDb9.nodes (.at 1 0 0) := by
  obtain ⟨r, h1, h2, _⟩ := (next_spec exDb9 exDb9_inv.1 _ exDb9_curOk).1 (.at 1 0 0) rfl
  exact ⟨r, h1, h2⟩

/-- a history through the database and through both cursors, on the example store -/
example : ∃ p', curPos (runMut natGt exDb9 [.put 8 80 0, .del 7, .cdel 1, .put 3 30 0, .cset 1 41, .move 2 (.at 0 0 0)]) 1 = some p' ∧
    CurOk (runMut natGt exDb9 [.put 8 80 0, .del 7, .cdel 1, .put 3 30 0, .cset 1 41, .move 2 (.at 0 0 0)]).nodes p' := by
  obtain ⟨p', h1, h2, _⟩ := history_forward natGt_strictTotal exDb9 exDb9_inv 1 _ rfl exDb9_curOk
    [.put 8 80 0, .del 7, .cdel 1, .put 3 30 0, .cset 1 41, .move 2 (.at 0 0 0)]
    (by decide)
  exact ⟨p', h1, h2⟩

example : let d' := runMut natGt exDb9 [.put 8 80 0, .del 7, .cdel 1, .put 3 30 0, .cset 1 41, .move 2 (.at 0 0 0)]
    curPos d' 1 = some (.at 0 0 (-1)) ∧ aheadN d'.nodes (.at 0 0 (-1)) = [(4, 40), (3, 30)] ∧
    runDel natGt exDb9 [.put 8 80 0, .del 7, .cdel 1, .put 3 30 0, .cset 1 41, .move 2 (.at 0 0 0)] = [7, 8] := by
  decide

/-- cursor 1 scans on with NEXT while records are put and deleted around it, through the database,
    through itself and while cursor 2 is moved about -/
example : ∃ p', curPos (runMut natGt exDb9 [.put 8 80 0, .put 5 50 0, .next 1, .del 4, .cdel 1, .put 3 30 0, .put 6 60 0,
      .next 1, .move 2 (.at 0 0 0)]) 1 = some p' := by
  obtain ⟨_, p', h1, _⟩ := scan_through_history natGt_strictTotal exDb9 exDb9_inv 1 _ rfl exDb9_curOk
    [.put 8 80 0, .put 5 50 0, .next 1, .del 4, .cdel 1, .put 3 30 0, .put 6 60 0, .next 1, .move 2 (.at 0 0 0)]
    (by
      intro m hm
      simp only [List.mem_cons, List.not_mem_nil, or_false] at hm
      rcases hm with rfl | rfl | rfl | rfl | rfl | rfl | rfl | rfl | rfl <;> simp [repositions])
  exact ⟨p', h1⟩

example : let ms : List (Mut Nat Nat) := [.put 8 80 0, .put 5 50 0, .next 1, .del 4, .cdel 1, .put 3 30 0, .put 6 60 0,
      .next 1, .move 2 (.at 0 0 0)]
    runRet natGt 1 exDb9 ms = [(5, 50), (6, 60)] ∧ curPos (runMut natGt exDb9 ms) 1 = some (.at 0 3 0) ∧
    aheadN (runMut natGt exDb9 ms).nodes (.at 0 3 0) = [(3, 30)] ∧ aheadN exDb9.nodes (.at 0 1 0) = [(4, 40)] ∧
    runDel natGt exDb9 ms = [4, 5] := by
  decide

/-- Finding F38 on the model: cursor 1 stands on key 7 and deletes it (last slot of its node, so
    it is parked on the slot of key 9 with `skip_next = -1`); key 8 is then inserted; the next NEXT
    of cursor 1 returns 8 — a key above the key 7 the scan had already reached. The theorems above
    hold all the same: nothing that was ahead (`(4, 40)`) is lost, only the newborn is extra. -/
theorem f38_witness :
    let d1 := curDel exDb9 (.at 0 1 0)
    let d2 := (put natGt d1 8 80 false 0).1
    curRec exDb9 (.at 0 1 0) = some (7, 70) ∧
    curPos d1 1 = some (.at 0 0 (-1)) ∧ aheadN d1.nodes (.at 0 0 (-1)) = [(4, 40)] ∧
    curPos d2 1 = some (.at 0 0 (-1)) ∧ aheadN d2.nodes (.at 0 0 (-1)) = [(8, 80), (4, 40)] ∧
    curNext d2 (.at 0 0 (-1)) = (.at 0 1 0, true) ∧ curRec d2 (.at 0 1 0) = some (8, 80) := by
  decide

end IwModel.C09
