import IwModel.Model.KvApi
/-! # C09 — iterating while the store changes (theorems follow) -/
namespace IwModel.C09
end IwModel.C09
