import IwModel.Model.Exec
/-! # C20 — task executors run every accepted task exactly once and drain on shutdown -/
namespace IwModel.C20
open IwModel IwModel.Exec

end IwModel.C20
