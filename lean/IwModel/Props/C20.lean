import IwModel.Lemmas.Exec
import IwModel.Lemmas.ExecTp
/-! # C20 — task executors run every accepted task exactly once and drain on shutdown

Theorems about the transition systems `Exec.Stw` (src/utils/iwstw.c) and `Exec.Tp` (src/utils/iwtp.c) of
`IwModel/Model/Exec.lean`.  A state is *reachable* if it is `(init …).run ls` for some list `ls` of scheduler
labels; the labels range over all interleavings of any number of client threads with the worker(s), all
choices of the waiter woken by a signal, and spurious wake-ups.  Nothing is bounded. -/
namespace IwModel.C20
open IwModel IwModel.Exec

/-! ## Single-thread worker -/

/-- Reachable states of the single-thread worker: any limit, blocking or rejecting, with or without discard
    callback, any number `n` of client threads, any schedule `ls`. -/
def StwReach (s : Stw) : Prop :=
  ∃ limit blocking hasCb n ls, s = (Stw.init limit blocking hasCb n).run ls

theorem stw_inv {s : Stw} (h : StwReach s) : Stw.Inv s := by
  obtain ⟨limit, blocking, hasCb, n, ls, rfl⟩ := h
  exact Stw.inv_run (Stw.inv_init _ _ _ _) ls

/-- **Exactly once (conservation).** In every reachable state each task occurs among the accepted tasks (those whose
    scheduling call returned success) exactly as often as it occurs among finished + running + queued + dropped
    tasks: an accepted task is never lost and never duplicated. -/
theorem stw_accepted_once {s : Stw} (h : StwReach s) (t : Task) :
    s.accepted.count t = s.finished.count t + (Stw.runningOf s.w).count t + s.queue.count t + s.dropped.count t := by
  have hi := stw_inv h
  have := hi.h.conserve t
  rw [hi.h.started_eq, List.count_append] at this
  omega

/-- with distinct task identities no task is started twice -/
theorem stw_started_nodup {s : Stw} (h : StwReach s) (hd : s.accepted.Nodup) : s.started.Nodup :=
  ((List.sublist_append_left _ _).trans (stw_inv h).h.fifo).nodup hd

/-- **Submission order.** The tasks started so far followed by the queue form a subsequence of the acceptance
    order: the worker starts tasks in the order in which their scheduling calls succeeded, skipping only dropped ones. -/
theorem stw_fifo {s : Stw} (h : StwReach s) : (s.started ++ s.queue).Sublist s.accepted :=
  (stw_inv h).h.fifo

/-- **Waiting shutdown drains.** Once a shutdown call has returned (`freed`), the queue is empty, the worker has
    left, nothing is running, and every accepted task has finished or was dropped (and then reported, see below). -/
theorem stw_shutdown_drains {s : Stw} (h : StwReach s) (hf : s.freed = true) :
    s.w = .exited ∧ s.queue = [] ∧ ∀ t, s.accepted.count t = s.finished.count t + s.dropped.count t := by
  have hi := stw_inv h
  have hw := hi.s.freed_exit hf
  have hq := (hi.s.w_exit hw).2
  refine ⟨hw, hq, fun t => ?_⟩
  have := stw_accepted_once h t
  simp [hw, hq, Stw.runningOf] at this
  omega

/-- **Drops are exact and reported.** A step changes `dropped` only if it is the critical section of a non-waiting
    shutdown or of `schedule_only`; it then drops exactly the tasks queued (= accepted and not started) at that
    moment, and the step's discard-callback events are exactly those tasks when a callback is set. -/
theorem stw_drop_exact {s : Stw} (h : StwReach s) (l : Label) :
    (s.step l).1.dropped = s.dropped ∨
    ((s.step l).1.dropped = s.dropped ++ s.queue ∧
     discardsOf (s.step l).2 = (if s.hasCb then s.queue else []) ∧
     ∃ i sel, l = .step (.client i) sel ∧
       ((∃ t, s.client i = .enter (.only t)) ∨ s.client i = .enter (.shutdown false))) := by
  have hv := (stw_inv h).q.fixed
  cases l with
  | call i c => left; simp only [Stw.step]; repeat' split
                all_goals rfl
  | spur th => left; cases th <;> simp only [Stw.step] <;> repeat' split
               all_goals rfl
  | step th sel =>
    cases th with
    | worker k =>
      left; simp only [Stw.step, Stw.workerStep, Stw.unblock]
      repeat' split
      all_goals rfl
    | client i =>
      simp only [Stw.step, Stw.clientStep, Stw.schedLoop, Stw.enqueue, Stw.ret, Stw.discardEvents, Stw.full, hv]
      repeat' split
      all_goals first
        | (left; rfl)
        | (right; refine ⟨rfl, ?_, i, sel, rfl, ?_⟩ <;> simp_all)

/-- every dropped task was passed to the discard callback (when one is set), nothing else was -/
theorem stw_reported {s : Stw} (h : StwReach s) : s.reported = if s.hasCb then s.dropped else [] :=
  (stw_inv h).h.reported_eq

/-- **Bounded queue.** `cnt` is the queue length and never exceeds a non-zero limit. -/
theorem stw_bounded {s : Stw} (h : StwReach s) : s.cnt = s.queue.length ∧ (s.limit ≠ 0 → s.queue.length ≤ s.limit) :=
  ⟨(stw_inv h).q.cnt_len, (stw_inv h).q.bound⟩

/-- **Full queue: reject or block as configured.** The critical section of `iwstw_schedule` on a live worker
    returns success iff there is room; otherwise it returns `overflow` (rejecting mode) or puts the caller to
    sleep on the queue condition (blocking mode). -/
theorem stw_full_policy {s : Stw} (h : StwReach s) (i sel : Nat) (t : Task)
    (hc : s.client i = .enter (.sched t)) (hs : s.shutdown = false) (hf : s.freed = false) :
    (s.full = false → (s.step (.step (.client i) sel)).2 = [.bcast false, .ret i .ok false]) ∧
    (s.full = true → s.blocking = false → (s.step (.step (.client i) sel)).2 = [.ret i .overflow false]) ∧
    (s.full = true → s.blocking = true → (s.step (.step (.client i) sel)).2 = [.block i] ∧
        (s.step (.step (.client i) sel)).1.queue = s.queue) := by
  have hv := (stw_inv h).q.fixed
  simp [Stw.step, Stw.clientStep, hc, hf, hs, Stw.schedLoop, Stw.enqueue, Stw.ret, hv]
  refine ⟨?_, ?_, ?_⟩ <;> intro h1 <;> simp [h1]
  all_goals (intro h2; simp [h2])

/-- **No lost wake-up.** The worker is never asleep without a pending signal while the queue is non-empty or a
    shutdown is pending; and while a submitter sleeps without a pending signal the worker is not asleep either
    (it will pass the point where it broadcasts to the submitters). -/
theorem stw_no_lost_wakeup {s : Stw} (h : StwReach s) :
    (s.w = .wait false → s.queue = [] ∧ s.shutdown = false) ∧
    (∀ t, CPc.blocked t false ∈ s.clients → s.w ≠ .wait false ∧ s.w ≠ .exited) := by
  have hi := stw_inv h
  refine ⟨fun hw => ⟨(hi.s.w_wait hw).1, (hi.s.w_wait hw).2.1⟩, fun t ht => ?_⟩
  have hb := hi.s.c_blocked t ht
  refine ⟨fun hw => ?_, fun hw => ?_⟩
  · have := (hi.s.w_wait hw).2.2; simp_all
  · have := (hi.s.w_exit hw).1; simp_all

/-- **No deadlock.** In every reachable state in which some client thread is inside a call, some thread can take
    a step without relying on a spurious wake-up. -/
theorem stw_deadlock_free {s : Stw} (h : StwReach s) (i : Nat) (hc : s.client i ≠ .idle) :
    ∃ th, s.enabled th = true := by
  have hi := stw_inv h
  have hm := Stw.client_mem rfl hc
  cases hci : s.client i with
  | idle => exact absurd hci hc
  | enter c => exact ⟨.client i, by simp [Stw.enabled, hci, cEnabled]⟩
  | blocked t b =>
    cases b with
    | true => exact ⟨.client i, by simp [Stw.enabled, hci, cEnabled]⟩
    | false =>
      rw [hci] at hm
      have hb := hi.s.c_blocked t hm
      refine ⟨.worker 0, ?_⟩
      rcases wEnabled_cases s.w with hw | hw | hw
      · simp [Stw.enabled, hw]
      · have := (hi.s.w_wait hw).2.2; simp_all
      · have := (hi.s.w_exit hw).1; simp_all
  | joining k =>
    rw [hci] at hm
    have hsd := hi.s.c_join k hm
    by_cases hw : s.w = .exited
    · exact ⟨.client i, by simp [Stw.enabled, hci, cEnabled, hw]⟩
    · refine ⟨.worker 0, ?_⟩
      rcases wEnabled_cases s.w with hw' | hw' | hw'
      · simp [Stw.enabled, hw']
      · have := (hi.s.w_wait hw').2.1; simp_all
      · exact absurd hw' hw

/-- a step of a thread that is not enabled changes nothing (it is reported as `disabled`) -/
theorem stw_disabled_step {s : Stw} (th : Th) (sel : Nat) (h : s.enabled th = false) :
    s.step (.step th sel) = (s, [.disabled]) := by
  cases th with
  | worker k =>
    simp only [Stw.step]
    split
    · rename_i hk
      subst hk
      rcases wEnabled_cases s.w with hw | hw | hw
      · simp [Stw.enabled, hw] at h
      · simp [Stw.workerStep, hw]
      · simp [Stw.workerStep, hw]
    · rfl
  | client i =>
    simp only [Stw.step, Stw.clientStep]
    cases hc : s.client i <;> simp_all [Stw.enabled, cEnabled]

/-! ### Witnesses: what the repairs in /repo were needed for, and the finding that stays open -/

/-- F34: without the re-test of `shutdown` after the full-queue wait, a submitter released by a non-waiting shutdown
    is accepted after the worker has left; shutdown returns and task 2 is neither finished nor dropped. -/
theorem stw_unfixed_accepts_after_shutdown :
    let s := (Stw.init 1 true false 3 { recheckShutdown := false }).run
      [.call 0 (.sched 1), .step (.client 0) 0, .call 1 (.sched 2), .step (.client 1) 0, .call 2 (.shutdown false),
       .step (.client 2) 0, .step (.worker 0) 0, .step (.worker 0) 0, .step (.client 1) 0, .step (.client 2) 0]
    s.freed = true ∧ s.accepted.count 2 = 1 ∧ s.finished.count 2 = 0 ∧ s.dropped.count 2 = 0 := by decide

/-- F23: the unrepaired discard loop reports the successor of each dropped task and then dereferences NULL -/
theorem stw_unfixed_discard_crashes :
    let s := (Stw.init 0 false true 1 { discardRemoved := false }).run
      [.call 0 (.sched 1), .step (.client 0) 0, .call 0 (.sched 2), .step (.client 0) 0, .call 0 (.shutdown false),
       .step (.client 0) 0]
    s.crashed = true ∧ s.dropped = [1, 2] ∧ s.reported = [2] := by decide

/-- F37 (open): in the repaired model a submitter that entered `iwstw_schedule` before a shutdown that completes
    first touches the freed worker.  The theorems above hold in such runs too (they do not assume `uaf = false`);
    what fails is memory safety of that call, which the model records in `uaf`. -/
theorem stw_uaf_reachable :
    ∃ s, StwReach s ∧ s.uaf = true :=
  ⟨_, ⟨0, false, false, 2,
      [.call 0 (.sched 1), .call 1 (.shutdown true), .step (.client 1) 0, .step (.worker 0) 0, .step (.worker 0) 0,
       .step (.client 1) 0, .step (.client 0) 0], rfl⟩, by decide⟩

/-- non-vacuity: a run with a full blocking queue, a drop by `schedule_only`, and a waiting shutdown -/
example :
    let s := (Stw.init 1 true true 2).run
      [.call 0 (.sched 1), .step (.client 0) 0, .call 1 (.sched 2), .step (.client 1) 0, .step (.worker 0) 0,
       .step (.worker 0) 0, .step (.worker 0) 0, .step (.client 1) 0, .call 0 (.only 3), .step (.client 0) 0,
       .call 0 (.shutdown true), .step (.client 0) 0, .step (.worker 0) 0, .step (.worker 0) 0, .step (.worker 0) 0,
       .step (.worker 0) 0, .step (.client 0) 0]
    s.freed = true ∧ s.accepted = [1, 2, 3] ∧ s.finished = [1, 3] ∧ s.dropped = [2] ∧ s.reported = [2] := by decide

/-! ## Thread pool -/

/-- Reachable states of the pool: any positive number of threads, any limit, overflow factor, number of client
    threads and schedule (incl. which waiter each `pthread_cond_signal` wakes, and spurious wake-ups). -/
def TpReach (s : Tp) : Prop :=
  ∃ nthreads limit factor n ls, 0 < nthreads ∧ s = (Tp.init nthreads limit factor n).run ls

theorem tp_inv {s : Tp} (h : TpReach s) : Tp.Inv s := by
  obtain ⟨nthreads, limit, factor, n, ls, hn, rfl⟩ := h
  exact Tp.inv_run (Tp.inv_init _ _ _ _ hn) ls

/-- **Exactly once (conservation)** for the pool: every accepted task is, with multiplicity, in exactly one of:
    finished, being run by some pool thread, queued, dropped. -/
theorem tp_accepted_once {s : Tp} (h : TpReach s) (t : Task) :
    s.accepted.count t = s.finished.count t + s.ws.count (.run t) + s.queue.count t + s.dropped.count t := by
  have hi := tp_inv h
  have h1 := hi.h.conserve t
  have h2 := hi.h.running t
  omega

/-- pool threads take tasks off the queue in acceptance order -/
theorem tp_start_order {s : Tp} (h : TpReach s) : (s.started ++ s.queue).Sublist s.accepted :=
  (tp_inv h).h.fifo

theorem tp_started_nodup {s : Tp} (h : TpReach s) (hd : s.accepted.Nodup) : s.started.Nodup :=
  ((List.sublist_append_left _ _).trans (tp_inv h).h.fifo).nodup hd

/-- **Bounded queue.** -/
theorem tp_bounded {s : Tp} (h : TpReach s) : s.qsize = s.queue.length ∧ (s.limit ≠ 0 → s.queue.length ≤ s.limit) :=
  ⟨(tp_inv h).q.qs_len, (tp_inv h).q.bound⟩

/-- **Full queue rejects; a pool that is shutting down refuses.** -/
theorem tp_full_policy {s : Tp} (h : TpReach s) (i sel : Nat) (t : Task)
    (hc : s.client i = .enter (.sched t)) (hf : s.freed = false) :
    (s.shutdown = true → (s.step (.step (.client i) sel)).2 = [.ret i .invalidState false]) ∧
    (s.shutdown = false → s.limit ≠ 0 → s.limit ≤ s.qsize → (s.step (.step (.client i) sel)).2 = [.ret i .overflow false]) ∧
    (s.shutdown = false → (s.limit = 0 ∨ s.qsize < s.limit) →
       (s.step (.step (.client i) sel)).1.accepted = s.accepted ++ [t] ∧
       (s.step (.step (.client i) sel)).1.queue = s.queue ++ [t]) := by
  have hv := (tp_inv h).q.fixed
  simp only [Tp.step, Tp.clientStep, hc, hf, hv, Tp.ret]
  refine ⟨?_, ?_, ?_⟩
  · intro hs; simp [hs]
  · intro hs h1 h2
    have : (s.limit != 0 && decide (s.qsize + 1 > s.limit)) = true := by simp [h1]; omega
    simp [hs, this]
  · intro hs h1
    have : (s.limit != 0 && decide (s.qsize + 1 > s.limit)) = false := by
      rcases h1 with h1 | h1
      · simp [h1]
      · simp; intro _; omega
    simp only [hs, this]
    constructor <;> (repeat' split) <;> simp_all

/-- **No lost wake-up.** While the queue is non-empty some regular pool thread is awake or has a signal pending
    (`pthread_cond_signal` per task is enough); and once shutdown has begun no thread sleeps without a signal. -/
theorem tp_no_lost_wakeup {s : Tp} (h : TpReach s) :
    (s.queue ≠ [] → ∃ k, k < s.nthreads ∧ wEnabled (s.worker k) = true) ∧
    (s.shutdown = true → ∀ k, s.worker k ≠ .wait false) :=
  ⟨(tp_inv h).sy.witness, (tp_inv h).sy.sd_nowait⟩

/-- **No deadlock.** If some client thread is inside a call, some thread can take a step. -/
theorem tp_deadlock_free {s : Tp} (h : TpReach s) (i : Nat) (hc : s.client i ≠ .idle) :
    ∃ th, s.enabled th = true := by
  have hi := tp_inv h
  have hm := Tp.client_mem rfl hc
  cases hci : s.client i with
  | idle => exact absurd hci hc
  | enter c => exact ⟨.client i, by simp [Tp.enabled, hci, cEnabled]⟩
  | blocked t b => rw [hci] at hm; exact absurd hm (hi.sy.c_noblock t b)
  | joining j =>
    rw [hci] at hm
    have hsd := hi.sy.c_join j hm
    by_cases hw : s.worker (s.joinlist.getD j 0) = .exited
    · exact ⟨.client i, by simp only [Tp.enabled, hci, cEnabled, hw, beq_self_eq_true]⟩
    · refine ⟨.worker (s.joinlist.getD j 0), ?_⟩
      rcases wEnabled_cases (s.worker (s.joinlist.getD j 0)) with hw' | hw' | hw'
      · simpa [Tp.enabled] using hw'
      · exact absurd hw' (hi.sy.sd_nowait hsd _)
      · exact absurd hw' hw

/-- **Shutdown drains.** Once `iwtp_shutdown` has returned (`freed`), every thread ever started by the pool
    (regular or overflow) has left, nothing is queued or running, and every accepted task has finished or was
    dropped (dropping happens only in a non-waiting shutdown, `tp_drop_exact`). -/
theorem tp_shutdown_drains {s : Tp} (h : TpReach s) (hf : s.freed = true) :
    (∀ k, s.worker k = .exited) ∧ s.queue = [] ∧ ∀ t, s.accepted.count t = s.finished.count t + s.dropped.count t := by
  have hi := tp_inv h
  have hall := hi.jn.freed_all hf
  have hq := (hi.sy.exit_empty 0 hi.sy.nth_pos (hall 0)).2
  refine ⟨hall, hq, fun t => ?_⟩
  have := tp_accepted_once h t
  rw [Tp.not_running_of_all_exited s.ws hall t, hq] at this
  simpa using this

/-- the shutdown call joins exactly the registered threads, and every thread it does not join has already left -/
theorem tp_joins_all {s : Tp} (h : TpReach s) :
    (s.shutdown = true → s.joinlist = s.threads) ∧ (∀ k, k ∈ s.threads ∨ s.worker k = .exited) ∧
    (∀ k, k < s.nthreads → k ∈ s.threads) :=
  ⟨(tp_inv h).jn.join_eq, (tp_inv h).jn.threads_reg, (tp_inv h).jn.reg_in⟩

/-- **Drops are exact.** Only the critical section of a non-waiting shutdown changes `dropped`, by exactly the
    queue of that moment. -/
theorem tp_drop_exact {s : Tp} (l : Label) :
    (s.step l).1.dropped = s.dropped ∨
    ((s.step l).1.dropped = s.dropped ++ s.queue ∧ (s.step l).1.queue = [] ∧
      ∃ i sel, l = .step (.client i) sel ∧ s.client i = .enter (.shutdown false)) := by
  cases l with
  | call i c => left; simp only [Tp.step]; repeat' split
                all_goals rfl
  | spur th => left; cases th <;> simp only [Tp.step] <;> repeat' split
               all_goals rfl
  | step th sel =>
    cases th with
    | worker k =>
      left; simp only [Tp.step, Tp.workerStep]
      repeat' split
      all_goals rfl
    | client i =>
      simp only [Tp.step, Tp.clientStep, Tp.ret]
      repeat' split
      all_goals first
        | (left; rfl)
        | (right; refine ⟨rfl, rfl, i, sel, rfl, ?_⟩; simp_all)

/-- F38 (open): the pool never calls a discard callback — no step has a `discard` event, so the tasks dropped by
    a non-waiting `iwtp_shutdown` are reported to nobody. -/
theorem tp_never_reports (s : Tp) (l : Label) : discardsOf (s.step l).2 = [] := by
  cases l with
  | call i c => simp only [Tp.step]; repeat' split
                all_goals rfl
  | spur th => cases th <;> simp only [Tp.step] <;> repeat' split
               all_goals rfl
  | step th sel =>
    cases th with
    | worker k =>
      simp only [Tp.step, Tp.workerStep]
      repeat' split
      all_goals rfl
    | client i =>
      simp only [Tp.step, Tp.clientStep, Tp.ret]
      repeat' split
      all_goals simp [discardsOf]

/-- F35: without the test of `shutdown` in `iwtp_schedule` a task submitted while the shutdown call joins the
    threads is accepted and never run. -/
theorem tp_unfixed_accepts_after_shutdown :
    let s := (Tp.init 1 0 0 2 { tpCheckShutdown := false }).run
      [.call 0 (.shutdown true), .step (.client 0) 0, .step (.worker 0) 0, .step (.worker 0) 0, .step (.worker 0) 0,
       .call 1 (.sched 5), .step (.client 1) 0, .step (.client 0) 0]
    s.freed = true ∧ s.accepted = [5] ∧ s.finished = [] ∧ s.dropped = [] := by decide

/-- F36: an overflow thread that is not registered leaves at once ("should never be happen") without taking a task -/
theorem tp_unfixed_overflow_thread_useless :
    let s := (Tp.init 1 0 1 1 { tpRegisterOverflow := false }).run
      [.call 0 (.sched 1), .step (.client 0) 0, .step (.worker 0) 0, .step (.worker 0) 0, .call 0 (.sched 2),
       .step (.client 0) 0, .call 0 (.sched 3), .step (.client 0) 0, .step (.worker 1) 0]
    s.ws = [.run 1, .exited] ∧ s.queue = [2, 3] ∧ s.threads = [0] := by decide

/-- non-vacuity for the pool: two threads, an overflow thread that takes a task, waiting shutdown -/
example :
    let s := (Tp.init 1 0 1 2).run
      [.call 0 (.sched 1), .step (.client 0) 0, .step (.worker 0) 0, .step (.worker 0) 0, .call 0 (.sched 2),
       .step (.client 0) 0, .call 0 (.sched 3), .step (.client 0) 0, .step (.worker 1) 0, .step (.worker 1) 0,
       .call 1 (.shutdown true), .step (.client 1) 0, .step (.worker 1) 0, .step (.worker 1) 0,
       .step (.worker 0) 0, .step (.worker 0) 0, .step (.worker 0) 0, .step (.worker 0) 0, .step (.worker 0) 0,
       .step (.client 1) 0, .step (.client 1) 0]
    s.freed = true ∧ s.accepted = [1, 2, 3] ∧ s.started = [1, 2, 3] ∧ s.finished = [2, 1, 3] ∧ s.ws = [.exited, .exited] := by
  decide

end IwModel.C20
