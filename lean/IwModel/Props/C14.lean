import IwModel.Lemmas.BinnRoundtrip
import IwModel.Lemmas.BinnPrint
import IwModel.Lemmas.JsonPtrRfc
import IwModel.Lemmas.TreeClone
/-! # C14 — text, tree and binary forms of a document agree, and so do path look-ups

Property theorems only; helper lemmas live in `IwModel/Lemmas`. `Binn.wf v` is the quantifier of the property
(keys ≤ 255 bytes, NUL free, unique ignoring ASCII case) plus: integers fit `int64_t`, doubles are 64-bit patterns,
**string values are NUL free** (open finding C14-NUL, see `nul_string_cut`). `small v` says the encoded document
is shorter than 2^31 - 9 bytes (the binn size fields are 31 bits wide). -/
namespace IwModel.C14
open IwModel IwModel.Binn IwModel.Ptr IwModel.BinnPrint

/-- the encoded document fits the 31-bit size fields -/
def small (v : JVal) : Prop := ∀ bs, enc v = some bs → bs.length + 9 < 2 ^ 31

/-- **tree → binary → tree is the identity** (`jbl_fill_from_node`/`jbl_from_node` followed by `jbl_to_node`):
    every well-formed document is accepted by the writer, and reading the holder back with any fuel above the
    nesting depth — in particular with the fuel `fuelOf` the driver uses — returns the document itself. -/
theorem binn_roundtrip (v : JVal) (hw : wf v = true) (hs : small v) :
    ∃ b, fromNode v = some b ∧ (∀ fuel, depth v < fuel → toNode fuel b = some v) ∧ toNode (fuelOf b) b = some v := by
  obtain ⟨bs, he⟩ := enc_isSome v hw
  refine ⟨viewOf v, fromNode_eq_viewOf v hw, fun fuel hd => toNode_view v fuel bs hw he (hs bs he) hd, ?_⟩
  apply toNode_view v _ bs hw he (hs bs he)
  have hd := depth_le v bs he
  cases v with
  | arr xs => simp only [viewOf, he, Option.getD_some, fuelOf]; omega
  | obj ms => simp only [viewOf, he, Option.getD_some, fuelOf]; omega
  | _ => simp [depth, viewOf, fuelOf]

/-- **both forms print the same text** (`jbn_as_json` with indent 1 vs `jbl_as_json`), compact or pretty, for
    *every* formatting `L` of integers, doubles and strings (including one that fails on some strings) -/
theorem print_agree (L : Leaf) (pretty : Bool) (v : JVal) (hw : wf v = true) (hs : small v) :
    ∃ b, fromNode v = some b ∧ printBinn L pretty (fuelOf b) 0 b = printTree L pretty 1 0 v := by
  obtain ⟨bs, he⟩ := enc_isSome v hw
  refine ⟨viewOf v, fromNode_eq_viewOf v hw, ?_⟩
  apply printBinn_view L pretty v _ 0 bs hw he (hs bs he)
  have hd := depth_le v bs he
  cases v with
  | arr xs => simp only [viewOf, he, Option.getD_some, fuelOf]; omega
  | obj ms => simp only [viewOf, he, Option.getD_some, fuelOf]; omega
  | _ => simp [depth, viewOf, fuelOf]

/-- **pointer parsing**: a NUL-free pointer that is empty or starts with `/`, has a non-empty last token (or is
    `/` itself) and in which every `~` is followed by `0` or `1` is split by `_jbl_ptr_pool` into exactly the
    RFC 6901 reference tokens (split at `/`, then `~1` → `/`, then `~0` → `~`). -/
theorem ptr_parse_spec (p : Bytes) (hn : ∀ b ∈ p, b ≠ 0) (ht : tildesOk p = true)
    (hl : ¬ (p.length > 1 ∧ p.getLast? = some 47)) (hs : p = [] ∨ p.head? = some 47) :
    parse p = rfcSegments p := by
  unfold parse
  rw [cstr_id p hn]
  cases p with
  | nil => rfl
  | cons c rest =>
    have hc : c = 47 := by simpa using hs
    subst hc
    have ht' : tildesOk rest = true := by
      rw [tildesOk.eq_5] at ht
      · exact ht
      all_goals (intros; simp_all)
    simp only [ne_eq, not_true_eq_false, if_false, if_neg hl, ht, Bool.not_true, Bool.false_eq_true, rfcSegments]
    rw [fill_eq_split rest ht']

/-- pointers that RFC 6901 does not admit (not starting with `/`) are rejected -/
theorem ptr_parse_rejects (c : Nat) (rest : Bytes) (hc : c ≠ 47) (h0 : c ≠ 0) :
    parse (c :: rest) = none ∧ rfcSegments (c :: rest) = none := by
  constructor
  · simp [parse, cstr, h0, hc]
  · unfold rfcSegments
    split
    · rename_i heq; simp at heq
    · rename_i heq; simp only [List.cons.injEq] at heq; exact absurd heq.1 hc
    · rfl

/-- **look-ups on the two forms agree for every pointer** (wildcard tokens included): `jbl_at2` on the binary
    form returns the holder of what `jbn_at2` returns on the tree, and fails exactly when it fails. -/
theorem at_forms_agree (v : JVal) (jp : List Bytes) (hw : wf v = true) (hs : small v)
    (hlen : jp.length ≤ Gen.Binn.JBL_MAX_NESTING_LEVEL) :
    ∃ b, fromNode v = some b ∧ (atBinn2 b jp).toOption = (atTree2 v jp).toOption.map viewOf := by
  obtain ⟨bs, he⟩ := enc_isSome v hw
  refine ⟨viewOf v, fromNode_eq_viewOf v hw, ?_⟩
  rw [atTree2_eq_btGet v jp hlen]
  cases jp with
  | nil => simp [atBinn2, btGet_nil, Except.toOption]
  | cons seg rest =>
    obtain ⟨st', h, o⟩ := tvNode_on (seg :: rest) hlen v 0 seg rest ⟨0, false, none⟩ rfl rfl rfl (Nat.le_refl _)
    by_cases hc : isContainer v = true
    · have hv := viewOf_cont v bs hc he
      have hsim := sim_node (seg :: rest) hlen v (bs.length + 1) 0 bs ⟨0, false, none⟩ st' hw he (hs bs he)
        (by have := depth_le v bs he; omega) hc (Nat.zero_le _) h
      have hpi : ∃ hd, iterInit bs = some hd := by
        cases v with
        | arr xs =>
          simp only [enc, Option.map_eq_some_iff] at he
          obtain ⟨body, hb, rfl⟩ := he
          have := hs (container Gen.Binn.BINN_LIST xs.length body) (by simp [enc, hb])
          have hl2 := encList_length xs body hb
          have hcl := container_length Gen.Binn.BINN_LIST xs.length body
          obtain ⟨h', hi, _, _⟩ := iterInit_container Gen.Binn.BINN_LIST xs.length body (Or.inl rfl) (by omega) (by omega)
          exact ⟨_, hi⟩
        | obj ms =>
          simp only [enc, Option.map_eq_some_iff] at he
          obtain ⟨body, hb, rfl⟩ := he
          have := hs (container Gen.Binn.BINN_OBJECT ms.length body) (by simp [enc, hb])
          have hl2 := encMembers_length [] ms body hb
          have hcl := container_length Gen.Binn.BINN_OBJECT ms.length body
          obtain ⟨h', hi, _, _⟩ := iterInit_container Gen.Binn.BINN_OBJECT ms.length body (Or.inr rfl) (by omega) (by omega)
          exact ⟨_, hi⟩
        | _ => simp [isContainer] at hc
      obtain ⟨hd', hi⟩ := hpi
      rw [hv]
      simp only [atBinn2, List.length_cons, Nat.succ_ne_zero, if_false, hi]
      have : (VS.map viewOf ⟨0, false, none⟩ : VS BVal) = ⟨0, false, none⟩ := rfl
      rw [this] at hsim
      rw [hsim]
      cases hb : btGet v (seg :: rest) with
      | some r => rw [hb] at o; simp only [Outcome] at o; simp [VS.map, o.2, Except.toOption]
      | none => rw [hb] at o; simp only [Outcome] at o; simp [VS.map, o.2.1, Except.toOption]
    · have hr : btGet v (seg :: rest) = none := btGet_scalar v seg rest (by simpa using hc)
      rw [hr]
      cases v <;> simp [isContainer] at hc <;> simp [viewOf, atBinn2, Except.toOption]

/-- the tree look-up is a depth-first first-match search in which `*` matches any member or element
    (`Ptr.btGet`); with `at_forms_agree` this also describes the binary form -/
theorem at_tree_first_match (v : JVal) (jp : List Bytes) (hlen : jp.length ≤ Gen.Binn.JBL_MAX_NESTING_LEVEL) :
    (atTree2 v jp).toOption = btGet v jp := by
  rw [atTree2_eq_btGet v jp hlen]
  cases btGet v jp <;> rfl

/-- **look-ups equal RFC 6901**: for a well-formed document and tokens that are NUL free and not the
    wildcard (at most `JBL_MAX_NESTING_LEVEL` of them), `jbn_at2` on the tree and `jbl_at2` on the binary form
    both return the element RFC 6901 designates — the binary side as the holder (`viewOf`) of that element —
    and both report an error (no element) exactly when RFC 6901 designates nothing. -/
theorem at_agree (v : JVal) (jp : List Bytes) (hw : wf v = true) (hs : small v)
    (hlen : jp.length ≤ Gen.Binn.JBL_MAX_NESTING_LEVEL) (hj : ∀ seg ∈ jp, segOk seg) :
    ∃ b, fromNode v = some b ∧
      (atTree2 v jp).toOption = rfcGet v jp ∧
      (atBinn2 b jp).toOption = (rfcGet v jp).map viewOf := by
  obtain ⟨b, hb, hf⟩ := at_forms_agree v jp hw hs hlen
  have ht : (atTree2 v jp).toOption = rfcGet v jp := by
    rw [at_tree_first_match v jp hlen, bt_rfc v jp hw hj]
  exact ⟨b, hb, ht, by rw [hf, ht]⟩

/-- what the caller of `jbl_at2` gets back: converting the returned holder with `jbl_to_node` yields exactly the
    element RFC 6901 designates (so look-up and conversion commute) -/
theorem at_result_to_node (v r : JVal) (jp : List Bytes) (hw : wf v = true) (hs : small v)
    (hlen : jp.length ≤ Gen.Binn.JBL_MAX_NESTING_LEVEL) (hj : ∀ seg ∈ jp, segOk seg) (hr : rfcGet v jp = some r) :
    ∃ b h, fromNode v = some b ∧ atBinn2 b jp = .ok h ∧ toNode (fuelOf h) h = some r := by
  obtain ⟨b, hb, _, h2⟩ := at_agree v jp hw hs hlen hj
  obtain ⟨bs, he⟩ := enc_isSome v hw
  obtain ⟨hwr, a, ha, hl⟩ := rfcGet_sub v r jp bs hw he hr
  have hsr : small r := fun a' ha' => by
    rw [ha] at ha'; simp only [Option.some.injEq] at ha'; subst ha'
    have := hs bs he; omega
  obtain ⟨b', hb', _, h3⟩ := binn_roundtrip r hwr hsr
  rw [fromNode_eq_viewOf r hwr] at hb'
  simp only [Option.some.injEq] at hb'; subst hb'
  rw [hr] at h2
  cases hat : atBinn2 b jp with
  | error e => rw [hat] at h2; simp [Except.toOption] at h2
  | ok h =>
    rw [hat] at h2
    simp only [Except.toOption, Option.map_some, Option.some.injEq] at h2
    subst h2
    exact ⟨b, _, hb, hat, h3⟩

/-- the same through the string interface (`jbn_at` / `jbl_at`): parse, then look up -/
theorem at_path_agree (v : JVal) (p : Bytes) (toks : List Bytes) (hw : wf v = true) (hs : small v)
    (hn : ∀ b ∈ p, b ≠ 0) (ht : tildesOk p = true) (hl : ¬ (p.length > 1 ∧ p.getLast? = some 47))
    (hr : rfcSegments p = some toks) (hlen : toks.length ≤ Gen.Binn.JBL_MAX_NESTING_LEVEL)
    (hstar : ∀ seg ∈ toks, isStar seg = false) :
    ∃ b, fromNode v = some b ∧
      (atTree v p).toOption = rfcGet v toks ∧
      (atBinn b p).toOption = (rfcGet v toks).map viewOf := by
  have hsl : p = [] ∨ p.head? = some 47 := by
    cases p with
    | nil => exact Or.inl rfl
    | cons c rest =>
      right
      unfold rfcSegments at hr
      split at hr
      · rename_i heq; simp at heq
      · rename_i heq; simp only [List.cons.injEq] at heq; simp [heq.1]
      · simp at hr
  have hp := ptr_parse_spec p hn ht hl hsl
  have hj : ∀ seg ∈ toks, segOk seg := fun seg hseg => ⟨hstar seg hseg, rfcSegments_no_nul p toks hn hr seg hseg⟩
  obtain ⟨b, hb, h1, h2⟩ := at_agree v toks hw hs hlen hj
  refine ⟨b, hb, ?_, ?_⟩
  · simp only [atTree, hp, hr]; exact h1
  · simp only [atBinn, hp, hr]; exact h2

/-- **clone of the binary form** (`jbl_clone` = `binn_copy` + fresh header): byte-identical document -/
theorem clone_binn_eq (v : JVal) (bs : Bytes) (hc : isContainer v = true) (he : enc v = some bs)
    (hs : bs.length + 9 < 2 ^ 31) : copy bs = some bs := by
  cases v with
  | arr xs =>
    simp only [enc, Option.map_eq_some_iff] at he
    obtain ⟨body, hb, rfl⟩ := he
    have hl2 := encList_length xs body hb
    have hcl := container_length Gen.Binn.BINN_LIST xs.length body
    have hp := parseHeader_container Gen.Binn.BINN_LIST xs.length body [] (Or.inl rfl) (by omega) (by omega)
    obtain ⟨h', hi, hty, hcnt⟩ := iterInit_container Gen.Binn.BINN_LIST xs.length body (Or.inl rfl) (by omega) (by omega)
    simp only [List.append_nil] at hp
    unfold iterInit at hi
    rw [hp] at hi
    simp only [Option.some.injEq, Prod.mk.injEq] at hi
    unfold copy
    rw [hp]
    simp only [hi.2]
  | obj ms =>
    simp only [enc, Option.map_eq_some_iff] at he
    obtain ⟨body, hb, rfl⟩ := he
    have hl2 := encMembers_length [] ms body hb
    have hcl := container_length Gen.Binn.BINN_OBJECT ms.length body
    have hp := parseHeader_container Gen.Binn.BINN_OBJECT ms.length body [] (Or.inr rfl) (by omega) (by omega)
    obtain ⟨h', hi, hty, hcnt⟩ := iterInit_container Gen.Binn.BINN_OBJECT ms.length body (Or.inr rfl) (by omega) (by omega)
    simp only [List.append_nil] at hp
    unfold iterInit at hi
    rw [hp] at hi
    simp only [Option.some.injEq, Prod.mk.injEq] at hi
    unfold copy
    rw [hp]
    simp only [hi.2]
  | _ => simp [isContainer] at hc

/-- **clone of the tree form** (`jbn_clone`): the visitor that rebuilds the hierarchy from the level changes of a
    pre-order walk (push on `lvl > pos`, pop `pos - lvl` parents on `lvl < pos`) returns a tree equal to its
    source, for every document. (Independence of the copy is a memory property: the tie destroys the source
    under ASan before the clone is used.) -/
theorem clone_tree_eq (v : JVal) : TreeClone.clone v = some v := TreeClone.clone_eq v

/-- the writer refuses (JBL_ERROR_CREATION) exactly the objects whose keys do not fit: a key longer than 255
    bytes or equal to an earlier key of the same object ignoring ASCII case -/
theorem writer_rejects_bad_keys (k k' : Bytes) (v v' : JVal) :
    (k.length > 255 → fromNode (.obj [(k, v)]) = none) ∧
    (sameKey k k' = true → fromNode (.obj [(k, v), (k', v')]) = none) := by
  constructor
  · intro h
    simp only [fromNode, enc, encMembers, Gen.Binn.MAX_BIN_KEY_LEN]
    cases enc v <;> simp [h]
  · intro h
    simp only [fromNode, enc, encMembers, dupKey, List.any_cons, List.any_nil, Bool.or_false, h]
    cases enc v <;> cases enc v' <;> simp <;> intros <;> simp_all

/-- open finding C14-NUL, exhibited by the model: a string value with an embedded NUL comes back cut -/
theorem nul_string_cut :
    (fromNode (.arr [.str [97, 0, 98]])).bind (toNode 5) = some (.arr [.str [97]]) := by
  rfl

/-- non-vacuity of the look-up theorems: `/b/0` and the escaped `/m~1n~0` on a well-formed document -/
example :
    let v : JVal := .obj [([98], .arr [.str [104, 105], .null]), ([109, 47, 110, 126], .int 7)]
    wf v = true ∧ rfcSegments [47, 98, 47, 48] = some [[98], [48]] ∧
    rfcGet v [[98], [48]] = some (.str [104, 105]) ∧
    rfcSegments [47, 109, 126, 49, 110, 126, 48] = some [[109, 47, 110, 126]] ∧
    rfcGet v [[109, 47, 110, 126]] = some (.int 7) ∧ tildesOk [47, 109, 126, 49, 110, 126, 48] = true := by
  refine ⟨by decide, by decide, by rfl, by decide, by rfl, by decide⟩

/-- non-vacuity: a document satisfying the hypotheses, with its binary form -/
example : wf (.obj [([97], .int (-5)), ([98], .arr [.str [104, 105], .null])]) = true ∧
    enc (.obj [([97], .int (-5)), ([98], .arr [.str [104, 105], .null])]) =
      some [226, 18, 2, 1, 97, 33, 251, 1, 98, 224, 9, 2, 160, 2, 104, 105, 0, 0] := by decide

end IwModel.C14
