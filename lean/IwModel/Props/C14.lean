import IwModel.Model.BinnPrint
import IwModel.Model.TreeClone
/-! # C14 — text, tree and binary forms of a document agree, and so do path look-ups -/
namespace IwModel.C14
end IwModel.C14
