import IwModel.Lemmas.BinnRoundtrip
import IwModel.Model.BinnPrint
import IwModel.Model.TreeClone
/-! # C14 — text, tree and binary forms of a document agree, and so do path look-ups

Property theorems only; helper lemmas live in `IwModel/Lemmas`. `Binn.wf v` is the quantifier of the property
(keys ≤ 255 bytes, NUL free, unique ignoring ASCII case) plus: integers fit `int64_t`, doubles are 64-bit patterns,
**string values are NUL free** (open finding C14-NUL, see `nul_string_cut`). `small v` says the encoded document
is shorter than 2^31 - 9 bytes (the binn size fields are 31 bits wide). -/
namespace IwModel.C14
open IwModel IwModel.Binn

/-- the encoded document fits the 31-bit size fields -/
def small (v : JVal) : Prop := ∀ bs, enc v = some bs → bs.length + 9 < 2 ^ 31

/-- **tree → binary → tree is the identity** (`jbl_fill_from_node`/`jbl_from_node` followed by `jbl_to_node`):
    every well-formed document is accepted by the writer, and reading the holder back with any fuel above the
    nesting depth — in particular with the fuel `fuelOf` the driver uses — returns the document itself. -/
theorem binn_roundtrip (v : JVal) (hw : wf v = true) (hs : small v) :
    ∃ b, fromNode v = some b ∧ (∀ fuel, depth v < fuel → toNode fuel b = some v) ∧ toNode (fuelOf b) b = some v := by
  obtain ⟨bs, he⟩ := enc_isSome v hw
  refine ⟨viewOf v, fromNode_eq_viewOf v hw, fun fuel hd => toNode_view v fuel bs hw he (hs bs he) hd, ?_⟩
  apply toNode_view v _ bs hw he (hs bs he)
  have hd := depth_le v bs he
  cases v with
  | arr xs => simp only [viewOf, he, Option.getD_some, fuelOf]; omega
  | obj ms => simp only [viewOf, he, Option.getD_some, fuelOf]; omega
  | _ => simp [depth, viewOf, fuelOf]

/-- the writer refuses (JBL_ERROR_CREATION) exactly the objects whose keys do not fit: a key longer than 255
    bytes or equal to an earlier key of the same object ignoring ASCII case -/
theorem writer_rejects_bad_keys (k k' : Bytes) (v v' : JVal) :
    (k.length > 255 → fromNode (.obj [(k, v)]) = none) ∧
    (sameKey k k' = true → fromNode (.obj [(k, v), (k', v')]) = none) := by
  constructor
  · intro h
    simp only [fromNode, enc, encMembers, Gen.Binn.MAX_BIN_KEY_LEN]
    cases enc v <;> simp [h]
  · intro h
    simp only [fromNode, enc, encMembers, dupKey, List.any_cons, List.any_nil, Bool.or_false, h]
    cases enc v <;> cases enc v' <;> simp <;> intros <;> simp_all

/-- open finding C14-NUL, exhibited by the model: a string value with an embedded NUL comes back cut -/
theorem nul_string_cut :
    (fromNode (.arr [.str [97, 0, 98]])).bind (toNode 5) = some (.arr [.str [97]]) := by
  rfl

/-- non-vacuity: a document satisfying the hypotheses, with its binary form -/
example : wf (.obj [([97], .int (-5)), ([98], .arr [.str [104, 105], .null])]) = true ∧
    enc (.obj [([97], .int (-5)), ([98], .arr [.str [104, 105], .null])]) =
      some [226, 18, 2, 1, 97, 33, 251, 1, 98, 224, 9, 2, 160, 2, 104, 105, 0, 0] := by decide

end IwModel.C14
