import IwModel.Model.Locks
import IwModel.Model.LockSys
import IwModel.Lemmas.LockSys
import IwModel.Lemmas.Locks
import IwModel.Model.Atomic
import IwModel.Lemmas.Atomic
/-! # C07 — concurrent API calls are atomic, race-free and cannot deadlock

What is proved here is the *protocol*: the transition system of `Model/LockSys.lean` (threads, read/write
locks with writer preference, the worker count with its condition wait) and the call automata of
`Model/Locks.lean` that the recordings of the real code are checked against.  Real scheduling and data
races on store memory are explored by the check (TSan, watchdog, linearizability search), not proved. -/
namespace IwModel.C07
open IwModel.LockSys IwModel.Locks

/-- **No deadlock under a lock order.**  Threads whose programs acquire locks along a strict order `rank`
    (bounded by `B`), wait for the worker count only while holding the worker mutex alone and never while
    holding a unit of the count themselves (no exclusive call with an own cursor open — the documented
    self-deadlock), and end holding nothing: every state reachable from the start in which some thread is
    not finished has an enabled step.  Holds for reader- and writer-preferring read/write locks (`pref`). -/
theorem order_no_deadlock {L : Type} [DecidableEq L] (rank : L → Nat) (B : Nat) (hB : ∀ l, rank l < B)
    (pref : L → Bool) (s0 s : Sys L) (hinit : Init rank s0) (hreach : Reach pref s0 s)
    (hunf : ∃ i, i < s.n ∧ (s.thr i).prog ≠ []) : CanStep pref s :=
  progress hB (inv_reach (inv_init hinit) hreach) hunf

/-- **Mutual exclusion.**  In every reachable state a lock held exclusively by one thread is held by no other
    thread in any mode.  With `l` = the store lock this is `exclusive_excludes`: a section that holds the
    exclusive store lock (create/destroy database, sync, checkpoint, the backup's stages 2 and 5) overlaps
    no section of another call, because every call section holds the store lock (shape of the call automata). -/
theorem exclusive_excludes {L : Type} [DecidableEq L] (rank : L → Nat) (pref : L → Bool) (s0 s : Sys L)
    (hinit : Init rank s0) (hreach : Reach pref s0 s) (i j : Nat) (l : L) (hi : i < s.n) (hj : j < s.n)
    (hij : i ≠ j) (hheld : (l, true) ∈ (s.thr i).held) : ∀ p ∈ (s.thr j).held, p.1 ≠ l :=
  excl_reach (excl_init fun k hk => (hinit k hk).1) hreach i j l hi hj hij hheld

/-- programs built from accepted calls respect the declared order
    worker mutex → store → database → allocator → file → log → spin locks -/
theorem session_ordered (calls : List (Kind × List Ev)) (h : ∀ c ∈ calls, accepts c.1 c.2 = true) :
    OrderedFrom Lk.rank [] (sessionActs calls) := by
  induction calls with
  | nil => simp [sessionActs, OrderedFrom]
  | cons c cs ih =>
    have hc := h c List.mem_cons_self
    have hcs := ih (fun d hd => h d (List.mem_cons_of_mem _ hd))
    have : sessionActs (c :: cs) = toActs c.1 c.2 ++ sessionActs cs := by simp [sessionActs]
    rw [this]
    exact ordered_toActs _ (countOnly_wkActs c.1) _ _ _ _ (accepts_ordered hc) hcs

/-- **The store's locking protocol cannot deadlock.**  Take any number of threads; let every call of every
    thread perform a lock-event sequence accepted by the call automaton of its kind (`accepts` — what the
    recordings of the implementation are checked against), and let no thread make an exclusive call while one
    of its own cursors is open (`UnitsOk`).  Then every reachable state with an unfinished thread has a step:
    no interleaving ends in a deadlock, and the exclusive hand-shake on the worker count cannot block forever. -/
theorem accepted_calls_no_deadlock (n : Nat) (sess : Nat → List (Kind × List Ev))
    (hacc : ∀ i, i < n → ∀ c ∈ sess i, accepts c.1 c.2 = true)
    (hunits : ∀ i, i < n → UnitsOk 0 (sessionActs (sess i)))
    (s : Sys Lk) (hreach : Reach prefLk (initSys n sess) s)
    (hunf : ∃ i, i < s.n ∧ (s.thr i).prog ≠ []) : CanStep prefLk s := by
  refine order_no_deadlock Lk.rank 8 ?_ prefLk (initSys n sess) s ?_ hreach hunf
  · intro l; cases l <;> simp [Lk.rank]
  · intro i hi
    exact ⟨rfl, rfl, rfl, session_ordered _ (hacc i hi), hunits i hi⟩

/-- **Effects are bracketed by a writer lock.**  In every lock-event sequence accepted for any call kind, the
    moment the allocator or the file is locked for modification (block allocation, growth and re-mapping of the
    file) a database write lock or the exclusive store lock is held: the multi-step effect of a writer runs
    inside the section that `atomic_effects_linearize` needs. -/
theorem effects_bracketed_by_writer_lock (k : Kind) (l : Lk) (hl : l = .alloc ∨ l = .file) (pre post : List Ev)
    (hacc : accepts k (pre ++ .acq l true :: post) = true) :
    ∃ h, runHeld [] pre = some h ∧ holdsWriter h = true := by
  have hrun := accepts_ordered hacc
  simp only [accepts, Bool.and_eq_true] at hacc
  exact protected_split l hl pre post [] [] hrun hacc.1.2

/-- The hypothesis on cursors is needed: a thread that opens a cursor and then syncs (WAL) waits for its own
    unit of the worker count — the model exhibits the documented self-deadlock. -/
theorem self_deadlock_witness :
    let prog : List (Act Lk) := [.acq .wk true, .inc, .rel .wk, .acq .wk true, .wait .wk, .acq .store true, .rel .wk, .rel .store,
                                 .acq .wk true, .dec, .rel .wk]
    OrderedFrom Lk.rank [] prog ∧ ¬ UnitsOk 0 prog := by
  refine ⟨?_, ?_⟩
  · simp [OrderedFrom, dropLock, Lk.rank]
  · simp [UnitsOk]

/-- **Atomic effects linearize.**  Let calls consist of any number of micro-steps on the contents of their
    database and on the caller's private state, run under that database's lock — write mode, or read mode for
    calls whose micro-steps leave the contents unchanged — and let threads interleave at micro-step granularity
    in any way the locks allow (`CRun`).  Whenever all threads have finished, the same final contents of every
    database and the same private state of every thread (all values read, all results) are produced by an
    *atomic* run (`ARun`): the calls executed one at a time, each thread's calls in program order. -/
theorem atomic_effects_linearize {S X : Type} (c0 c1 : Atomic.Cfg S X) (hinit : Atomic.Initial c0)
    (hro : Atomic.ReadersReadOnly c0) (hrun : Atomic.CRun c0 c1) (hfin : Atomic.Final c1) :
    ∃ a1, Atomic.ARun (Atomic.initA c0) a1 ∧ a1.sh = c1.sh ∧
      ∀ i, i < c1.n → (a1.thr i).x = (c1.thr i).x ∧ (a1.thr i).todo = [] := by
  have hsim0 : Atomic.Sim c0 (Atomic.initA c0) := by
    refine ⟨rfl, hinit.2.symm, ?_⟩
    intro i
    simp [Atomic.initA, Atomic.absT, hinit.1 i]
  obtain ⟨hinv1, a1, har, hn, hsh, hthr⟩ := Atomic.sim_run hrun (Atomic.ainv_initial hinit hro) hsim0
  have hcur : ∀ i, (c1.thr i).cur = none := by
    intro i
    by_cases hi : i < c1.n
    · exact (hfin i hi).1
    · exact hinv1.j6 i (Nat.le_of_not_lt hi)
  refine ⟨a1, har, ?_, ?_⟩
  · rw [hsh]
    funext d
    apply hinv1.j4
    intro i k hk; rw [hcur i] at hk; cases hk
  · intro i hi
    rw [hthr i]
    simp [Atomic.absT, hcur i, (hfin i hi).2]

/-- non-vacuity of the atomicity theorem: two threads, a two-step increment under the write lock against a
    reader of another database; the start satisfies the hypotheses and the fine-grained semantics can move. -/
example : Atomic.Initial Atomic.exCfg ∧ Atomic.ReadersReadOnly Atomic.exCfg ∧ ∃ c1, Atomic.CStep Atomic.exCfg c1 := by
  refine ⟨⟨fun i => by by_cases h : i = 0 <;> simp [Atomic.exCfg, h], rfl⟩, ?_, ?_⟩
  · intro i k hk hex
    by_cases h : i = 0
    · simp [Atomic.exCfg, h] at hk; subst hk; simp [Atomic.exInc] at hex
    · simp [Atomic.exCfg, h] at hk; subst hk
      intro m hm p; simp [Atomic.exRd] at hm; subst hm; rfl
  · refine ⟨_, Atomic.CStep.begin 0 Atomic.exInc [] (by decide) (by simp [Atomic.exCfg]) (by simp [Atomic.exCfg]) ?_⟩
    intro j _ _ k hk
    by_cases h : j = 0 <;> simp [Atomic.exCfg, h] at hk

/-- non-vacuity of `accepted_calls_no_deadlock`: a session "open a cursor, read, close it, then sync" consists of
    accepted calls and keeps the cursor discipline -/
example :
    let sess : List (Kind × List Ev) :=
      [(.copen 1, [.acq .wk true, .rel .wk, .acq .store false, .acq (.db 1) false, .acq (.spin 1) true, .rel (.spin 1),
                   .rel (.db 1), .rel .store]),
       (.reader 1, [.acq .store false, .acq (.db 1) false, .acq .file false, .rel .file, .rel (.db 1), .rel .store]),
       (.cclose 1, [.acq .store false, .acq (.db 1) true, .acq (.spin 1) true, .rel (.spin 1), .rel (.db 1), .rel .store,
                    .acq .wk true, .rel .wk]),
       (.excl, [.acq .wk true, .wait .wk, .acq .store true, .rel .wk, .acq .log true, .rel .log, .rel .store])]
    (∀ c ∈ sess, accepts c.1 c.2 = true) ∧ UnitsOk 0 (sessionActs sess) := by
  refine ⟨by decide, ?_⟩
  simp [sessionActs, toActs, toActsAux, wkActs, UnitsOk]

/-- non-vacuity: the recorded shape of a put, of a cursor open and of an exclusive sync are accepted,
    and a put that would take the allocator while holding the file lock is not -/
example : accepts (.writer 1 false)
    [.acq .store false, .acq (.db 1) true, .acq .file false, .rel .file, .acq .alloc true, .acq .file true, .acq .log true,
     .rel .log, .rel .file, .rel .alloc, .acq (.spin 1) true, .rel (.spin 1), .rel (.db 1), .rel .store, .acq .log true, .rel .log] = true := by
  decide
example : accepts (.copen 2) [.acq .wk true, .rel .wk, .acq .store false, .acq (.db 2) false, .acq (.spin 2) true, .rel (.spin 2),
     .rel (.db 2), .rel .store] = true := by decide
example : accepts .excl [.acq .wk true, .wait .wk, .acq .store true, .rel .wk, .acq .log true, .rel .log, .rel .store] = true := by decide
example : accepts (.writer 1 false)
    [.acq .store false, .acq (.db 1) true, .acq .file false, .acq .alloc true, .rel .alloc, .rel .file, .rel (.db 1), .rel .store] = false := by
  decide

end IwModel.C07
