import IwModel.Model.Locks
/-! # C07 — concurrent API calls are atomic, race-free and cannot deadlock (theorems follow) -/
namespace IwModel.C07
end IwModel.C07
