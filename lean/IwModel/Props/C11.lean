import IwModel.Lemmas.FsmLife
import IwModel.Lemmas.FsmScanLemmas
import IwModel.Lemmas.FsmLoadBytes
/-! # C11 — allocator bookkeeping is conserved, coalesced and survives reopen

Property theorems only; the work is in `IwModel/Lemmas/Fsm*.lean`.  The model (`IwModel/Model/Fsm.lean`) is the
code of /repo plus the `fix:` commits listed in findings/C10.json and findings/C11.json.

`Inv s` says: the index `s.tree` is strictly ordered by (length, offset) and lists exactly the maximal runs of clear
bits of the bitmap (`IsRun`); the cached last free extent is unset or an index entry; header and bitmap blocks are
set; the geometry side conditions hold. -/
namespace IwModel.C11
open IwModel IwModel.Fsm

/-- a call is in order: in non-strict mode a release (also the one inside reallocate) must name an allocated range
    inside the bitmap; strict mode checks that itself (finding FSM6 is the reason for the hypothesis) -/
def OpOk (s : St) : Op → Prop
  | .dealloc a l => ReleaseOk s (a / bsz s) (l / bsz s)
  | .realloc _ a ol _ => ReleaseOk s (a / bsz s) (ol / bsz s)
  | _ => True

/-- every call of a history is in order in the state it meets -/
def OpsOk (h : Heur) : St → List Op → Prop
  | _, [] => True
  | s, op :: ops => OpOk s op ∧ OpsOk h (apply h s op) ops

/-- **Inv init.** A freshly created file satisfies the invariant (block size `2^bpow` dividing the page size). -/
theorem inv_open {bpow aunit hdr bm : Nat} {strict : Bool} (hbp : bpow ≠ 0) (hal : aunit % 2 ^ bpow = 0)
    (hau : 0 < aunit / 2 ^ bpow) (hok : (openNew bpow aunit hdr bm strict).2 = .ok) :
    Inv (openNew bpow aunit hdr bm strict).1 :=
  inv_openNew hbp hal hau hok

/-- **Inv step.** Every API call — allocate with any flags (including bitmap growth and relocation), release,
    reallocate, sync, close+reopen with or without trim, clear — preserves the invariant, whatever the
    over-allocation heuristic `h` decides and whatever the call returns. -/
theorem inv_step (h : Heur) {s : St} (hI : Inv s) (op : Op) (hok : OpOk s op) : Inv (apply h s op) := by
  cases op with
  | alloc l hint f => exact (allocate_spec h hI l hint f).1
  | dealloc a l => exact inv_deallocate hI a l hok
  | realloc n a ol f => exact inv_reallocate h hI n a ol f hok
  | sync => exact inv_sync hI
  | reopen nt => exact inv_reopen hI nt
  | clear t => exact inv_clear hI t

/-- **Inv reachable.** The invariant holds after every history of calls. -/
theorem inv_reachable (h : Heur) (ops : List Op) {s : St} (hI : Inv s) (hok : OpsOk h s ops) :
    Inv (ops.foldl (apply h) s) := by
  induction ops generalizing s with
  | nil => exact hI
  | cons op ops ih => exact ih (inv_step h hI op hok.1) hok.2

/-- The index lists exactly what a scan of the bitmap finds. -/
theorem index_eq_runs {s : St} (hI : Inv s) (o l : Nat) : (o, l) ∈ s.tree ↔ (o, l) ∈ runs s.bits := by
  rw [hI.ix.idx, mem_runs]

/-- **Coalescing.** Two index entries never touch or overlap: adjacent free regions are always merged. -/
theorem coalesced {s : St} (hI : Inv s) {o l o' l' : Nat} (h1 : (o, l) ∈ s.tree) (h2 : (o', l') ∈ s.tree)
    (hne : (o, l) ≠ (o', l')) : o + l < o' ∨ o' + l' < o := by
  have r1 := (hI.ix.idx o l).mp h1
  have r2 := (hI.ix.idx o' l').mp h2
  have p1 := r1.1
  have p2 := r2.1
  by_cases c : o + l < o' ∨ o' + l' < o
  · exact c
  · exfalso
    by_cases d : o + l = o'
    · have := r2.2.1 o' (Nat.le_refl _) (by omega)
      rw [← d, r1.2.2.2] at this; cases this
    · by_cases d2 : o' + l' = o
      · have := r1.2.1 o (Nat.le_refl _) (by omega)
        rw [← d2, r2.2.2.2] at this; cases this
      · -- the runs share a block, hence are the same run
        have := IsRun.eq_of_overlap r1 r2 (max o o') (by omega) (by omega) (by omega) (by omega)
        exact hne (Prod.ext this.1 this.2)

/-- **Canonical form.** The index is a function of the bitmap. -/
theorem index_determined_by_bitmap {s s' : St} (hI : Inv s) (hI' : Inv s') (hb : s.bits = s'.bits) :
    s.tree = s'.tree := by
  apply sorted_ext hI.ix.sorted hI'.ix.sorted
  intro x
  obtain ⟨o, l⟩ := x
  rw [hI.ix.idx, hI'.ix.idx, hb]

/-- **Reopen.** Closing without trim and reopening yields the same bitmap and the same index. -/
theorem reopen_same {s : St} (hI : Inv s) : (reopen s true).1.bits = s.bits ∧ (reopen s true).1.tree = s.tree := by
  have hb : (reopen s true).1.bits = s.bits := by
    unfold reopen
    split
    · rw [loadTree_bits]
    · simp only [if_true]; rw [loadTree_bits]
  exact ⟨hb, index_determined_by_bitmap (inv_reopen hI true) hI hb⟩

/-- Rebuilding the index from any bitmap (open of an existing file, bitmap relocation) yields exactly its maximal
    zero runs, in (length, offset) order, with a valid cache. -/
theorem load_exact (s : St) : IdxOk (loadTree s) := loadTree_idxOk s

/-- **Free all.** When only header and bitmap blocks are allocated, the index consists of exactly the gap between
    header and bitmap (if any) and the run from the end of the bitmap to the end of the map. -/
theorem free_all {s : St} (hI : Inv s)
    (hfree : ∀ i, i < nbits s → bit s.bits i = true → i < hdrBlk s ∨ (bmOffBlk s ≤ i ∧ i < bmOffBlk s + bmLenBlk s))
    (o l : Nat) :
    (o, l) ∈ s.tree ↔
      (o = hdrBlk s ∧ l = bmOffBlk s - hdrBlk s ∧ hdrBlk s < bmOffBlk s) ∨
      (o = bmOffBlk s + bmLenBlk s ∧ l = nbits s - (bmOffBlk s + bmLenBlk s)) := by
  rw [hI.ix.idx]
  have hsz := hI.size
  have hh := hI.hdr
  have hb := hI.hb
  have hin := hI.bm_in
  have hlp := hI.bmlen_pos
  have hfalse : ∀ i, hdrBlk s ≤ i → i < nbits s → ¬ (bmOffBlk s ≤ i ∧ i < bmOffBlk s + bmLenBlk s) → bit s.bits i = false := by
    intro i h1 h2 h3
    cases hbi : bit s.bits i with
    | false => rfl
    | true => rcases hfree i h2 hbi with c | c <;> omega
  constructor
  · intro hr
    have hl := hr.1
    have hend := hr.end_le_size
    rw [hsz] at hend
    -- the run avoids header and bitmap
    have a1 : hdrBlk s ≤ o := by
      by_cases c : o < hdrBlk s
      · have := hr.2.1 o (Nat.le_refl _) (by omega); rw [hh.2 o c] at this; cases this
      · omega
    have a2 : ∀ i, o ≤ i → i < o + l → ¬ (bmOffBlk s ≤ i ∧ i < bmOffBlk s + bmLenBlk s) := by
      intro i h1 h2 c
      have := hr.2.1 i h1 h2; rw [hI.bm i c.1 c.2] at this; cases this
    -- left end: the block before is set, so it is a header or bitmap block
    have a3 : o = hdrBlk s ∨ o = bmOffBlk s + bmLenBlk s := by
      rcases hr.2.2.1 with c | c
      · omega
      · rcases hfree (o - 1) (by omega) c with d | d
        · left; omega
        · right
          have := a2 o (Nat.le_refl _) (by omega)
          omega
    -- right end: the block after is set or past the end
    have a4 : o + l = nbits s ∨ o + l = bmOffBlk s := by
      by_cases c : o + l = nbits s
      · exact Or.inl c
      · right
        rcases hfree (o + l) (by omega) hr.2.2.2 with d | d
        · omega
        · have := a2 (o + l - 1) (by omega) (by omega)
          omega
    have a5 := a2 (bmOffBlk s)
    rcases a3 with c | c <;> rcases a4 with d | d
    · exfalso; exact a5 (by omega) (by omega) ⟨Nat.le_refl _, by omega⟩
    · left; exact ⟨c, by omega, by omega⟩
    · right; exact ⟨c, by omega⟩
    · exfalso; omega
  · rintro (⟨e1, e2, e3⟩ | ⟨e1, e2⟩)
    · subst e1; subst e2
      refine ⟨by omega, fun i h1 h2 => hfalse i h1 (by omega) (by omega), Or.inr ?_, ?_⟩
      · exact hh.2 _ (by omega)
      · have : hdrBlk s + (bmOffBlk s - hdrBlk s) = bmOffBlk s := by omega
        rw [this]; exact hI.bm _ (Nat.le_refl _) (by omega)
    · subst e1; subst e2
      refine ⟨by omega, fun i h1 h2 => hfalse i (by omega) (by omega) (by omega), Or.inr ?_, ?_⟩
      · exact hI.bm _ (by omega) (by omega)
      · apply bit_of_size_le; rw [hsz]; omega

/-- non-vacuity: the default geometry (64-byte blocks, 4 KiB pages) satisfies the hypotheses of `inv_open` -/
example : (6 : Nat) ≠ 0 ∧ 4096 % 2 ^ 6 = 0 ∧ 0 < 4096 / 2 ^ 6 := by decide

/-- non-vacuity: a concrete new file (64-byte blocks, one-block pages) opens and satisfies the invariant,
    and stays so over a small history -/
example : Inv (openNew 6 64 0 0 false).1 := inv_open (by decide) (by decide) (by decide) (by decide)

example (h : Heur) : Inv ([Op.alloc 100 0 (Flags.ofNat 1), Op.sync, Op.reopen false, Op.clear true].foldl (apply h)
    (openNew 6 64 0 0 false).1) :=
  inv_reachable h _ (inv_open (by decide) (by decide) (by decide) (by decide)) ⟨trivial, trivial, trivial, trivial, trivial⟩

/-! ### word-wise scans and byte-wise loader (all alignments against the 64-bit words of the bitmap at once) -/

/-- **bitscan_next_spec.** `_fsm_find_next_set_bit` (first partial word, whole-word loop, last partial word) returns
    exactly what the naive scan of the model returns, for every start, limit and word content. -/
theorem bitscan_next_spec (w : List FsmScan.Word) (b : Bits) (off max : Nat)
    (h : ∀ i, i < max → bit b i = FsmScan.wbit w i) : FsmScan.findNext w off max = nextSet b off max :=
  FsmScan.bitscan_next_spec w b off max h

/-- **bitscan_prev_spec.** Likewise `_fsm_find_prev_set_bit` (through `iwbits_reverse_64` and
    `iwbits_find_first_sbit64`) and the naive backward scan. -/
theorem bitscan_prev_spec (w : List FsmScan.Word) (b : Bits) (off min : Nat)
    (h : ∀ i, i < off → bit b i = FsmScan.wbit w i) : FsmScan.findPrev w off min = prevSet b min off :=
  FsmScan.bitscan_prev_spec w b off min h

/-- `iwbits_find_first_sbit64` returns the index of the lowest set bit of a non-zero word. -/
theorem ffs_spec (x : FsmScan.Word) (hx : x ≠ 0) :
    FsmScan.ffs x < 64 ∧ x.getLsbD (FsmScan.ffs x) = true ∧ ∀ j, j < FsmScan.ffs x → x.getLsbD j = false :=
  FsmScan.ffs_spec x hx

/-- `iwbits_reverse_64` reverses the 64 bits. -/
theorem rev64_spec (x : FsmScan.Word) (j : Nat) (hj : j < 64) :
    (FsmScan.rev64 x).getLsbD j = x.getLsbD (63 - j) :=
  FsmScan.rev64_spec x j hj

/-- **load_spec.** The byte-wise scan of `_fsm_load_fsm_lw` (0x00 and 0xff bytes in one step, other bytes bit by bit)
    finds the same extents in the same order as the bit-by-bit scan `runs` — which lists exactly the maximal zero runs
    (`index_eq_runs`, `mem_runs`). -/
theorem load_spec (bytes : List Nat) : FsmScan.load bytes = runs (FsmScan.bitsOfBytes bytes).toArray :=
  FsmScan.load_spec bytes

theorem load_spec_runs (bytes : List Nat) (o l : Nat) :
    (o, l) ∈ FsmScan.load bytes ↔ IsRun (FsmScan.bitsOfBytes bytes).toArray o l := by
  rw [load_spec, mem_runs]

/-- non-vacuity of the scan theorems: a two-word map -/
example : FsmScan.findNext [0#64, 0x10#64] 3 128 = some 68 ∧ FsmScan.findPrev [0x8000000000000001#64, 0#64] 100 0 = some 63 := by
  decide

end IwModel.C11
