import IwModel.Model.Fsm
import IwModel.Model.FsmScan
/-! # C11 — allocator bookkeeping is conserved, coalesced and survives reopen -/
namespace IwModel.C11
open IwModel IwModel.Fsm

end IwModel.C11
