import IwModel.Model.Txt
/-! # C17 — text-consuming functions are memory-safe on any input and depend only on it

Property theorems only; helper lemmas live in `IwModel/Lemmas/Txt*.lean`. -/
namespace IwModel.C17
open IwModel IwModel.Txt

end IwModel.C17
