import IwModel.Lemmas.Txt
import IwModel.Lemmas.TxtPtr
import IwModel.Lemmas.TxtConv
import IwModel.Lemmas.ReVm
import IwModel.Lemmas.TxtItoa
import IwModel.Lemmas.ReLimits
import IwModel.Props.C17Ini
/-! # C17 — text-consuming functions are memory-safe on any input and depend only on it

Property theorems only; helper lemmas live in `IwModel/Lemmas/Txt*.lean`.

The models (`IwModel/Model/Txt.lean`) address their buffers by index and answer `.oob` (`none`) as soon
as they touch a cell that is not part of the buffer they were given, so "no access outside the
buffers" is `result ≠ .oob`; they are total functions accepted by Lean's termination checker, so
every run terminates; and they are pure functions of the bytes, which is the model-level form of
"depends only on the input" (the tie checks the implementation against them after an adversarial
history). -/
namespace IwModel.C17
open IwModel IwModel.Txt

/-- `HasNul buf i`: the memory the caller owns holds a NUL at or behind index `i` (a C string starts at `i`). -/
abbrev HasNul (buf : Bytes) (i : Nat) : Prop := ∃ n, i ≤ n ∧ buf[n]? = some 0

/-- **`_jbl_unescape_json_string` never reads outside the string** — for every buffer content, every
    quote byte, every output size and every start state: as long as the text is NUL-terminated
    somewhere, no run (length pass or fill pass) touches a cell behind the terminator. This covers
    truncated `\\u` escapes, a lone high surrogate at the end, a backslash as last byte, etc. -/
theorem unescape_safe (buf : Bytes) (q dlen i d : Nat) (out : Bytes) (h : HasNul buf i) :
    unesc buf q dlen i d out ≠ .oob :=
  unesc_safe buf q dlen i d out h

/-- **Length pre-pass then fill pass**: run as the parser runs them (length pass with an empty
    buffer, then the fill pass into `len` bytes), the two passes never leave the buffers, the fill
    pass returns exactly the length the first pass announced, it stores exactly `len` bytes (so the
    `len + 1` byte block the caller allocated is filled up to the byte that receives the terminator and
    not one byte more), and the end position it reports still has the terminator ahead of it. -/
theorem unescape_two_pass (buf : Bytes) (q i : Nat) (h : HasNul buf i) :
    unescTwoPass buf q i ≠ .oob ∧
    ∀ len endp out len2, unescTwoPass buf q i = .ok (len, endp, out, len2) →
      len2 = len ∧ out.length = len ∧ HasNul buf endp ∧ i < endp :=
  unescTwoPass_spec buf q i h

/-- The value returned and the end position of a run do not depend on the output buffer (size or
    prior content): every run has the shape of the length pass. -/
theorem unescape_shape_indep (buf : Bytes) (q dlen dlen' i d : Nat) (out out' : Bytes) :
    shape (unesc buf q dlen i d out) = shape (unesc buf q dlen' i d out') := by
  rw [unesc_shape buf q dlen i d out, unesc_shape buf q dlen' i d out']

/-- The bytes stored are the first `min len dlen` output positions, each stored once, in order:
    nothing is stored at or behind `d + dlen`. -/
theorem unescape_stores_within (buf : Bytes) (q dlen i : Nat) (r : UOk)
    (hr : unesc buf q dlen i 0 [] = .ok r) : r.out.length = min r.len dlen :=
  unesc_out_length buf q dlen i 0 [] (by simp) r hr

/-- corollary for a C string `s` (the bytes of `s` may be anything, even contain NULs) -/
theorem unescape_cstring_safe (s : Bytes) (q : Nat) : unescTwoPass (s ++ [0]) q 0 ≠ .oob :=
  (unescape_two_pass (s ++ [0]) q 0 ⟨s.length, Nat.zero_le _, by simp⟩).1

/-- **`_jbl_parse_json_key` never reads outside the text**, whatever precedes or follows the key. -/
theorem parse_key_safe (buf : Bytes) (i : Nat) (h : HasNul buf i) : parseKey buf i ≠ .oob :=
  parseKey_safe buf i h

/-- non-vacuity: the hypothesis holds for an ordinary string, and the instrumentation is live —
    without a terminator the model does report the out-of-range read. -/
example : HasNul [97, 34, 0] 0 := ⟨2, by decide, rfl⟩
example : unesc [92] 34 0 0 0 [] = .oob := by rw [unesc]; rfl   -- a backslash as the last byte of a block

/-- **`_jbl_ptr_pool` (JSON Pointer parser) stays inside the path and inside the block it allocated**:
    for every NUL-terminated byte string — with `~` anywhere, empty segments, a trailing `/`, bytes
    ≥ 0x80 — neither the counting pre-pass, nor the `path[len-1]` test, nor the fill loops read behind
    the terminator, and every store into the data area (`sizeof(struct jbl_ptr) - offsetof(n) + len`
    bytes behind the `n[]` slots) is in range. Relies on the pre-pass rejecting a `~` that is not
    followed by `0`/`1` (fix of F10); without it the statement is false (witness `"/~"`, replayed on
    the implementation by the mutant `ptr_no_tilde_check`). -/
theorem ptr_parse_safe (path : Bytes) (h : HasNul path 0) : ptrParse path ≠ .oob :=
  ptrParse_safe path h

theorem ptr_parse_cstring_safe (s : Bytes) : ptrParse (s ++ [0]) ≠ .oob :=
  ptr_parse_safe _ ⟨s.length, Nat.zero_le _, by simp⟩

/-- **Every `jp->n[]` slot is assigned**: when `_jbl_ptr_pool` succeeds the fill loops have produced
    exactly `jp->cnt` segments (one per `/`), so no caller ever follows an uninitialised segment
    pointer. (False before the fix of F10: `"/a~/b"` counted two separators and filled one slot.) -/
theorem ptr_all_slots_assigned (path : Bytes) (h : HasNul path 0) (r : PtrOk) (hr : ptrParse path = .ok r) :
    r.assigned = r.cnt ∧ r.segs.length = r.cnt :=
  ptrParse_assigned path h r hr

/-- **`iwjson_ftoa` never indexes outside its `IWNUMBUF_SIZE` buffer**, whatever text `snprintf`
    would have produced for `"%.8Lf"` and `"%.17Lg"` (any length, any bytes: huge magnitudes, `inf`,
    `nan`, a decimal comma). -/
theorem ftoa_safe (t8 t17 : Bytes) : ftoa t8 t17 ≠ .oob := Txt.ftoa_safe t8 t17

/-- the function as it was before the repair of F6 does leave the buffer: 33 characters
    (`1e24` printed with `"%.8Lf"`) make the trimming loop read `buf[32]`. -/
theorem ftoa_old_overrun : ftoaOld ("1000000000000000000000000.00000000".toList.map Char.toNat) = .oob := by decide

/-- **`iwitoa` never stores outside `buf[0 .. max)`** — for every 64-bit value (indeed every integer) and
    every `max ≥ 0`, including `max` too small for a digit, for the sign, or for the terminator, and
    `INT64_MIN`: in the model memory (8 guard cells, the buffer, 8 guard cells) no cell outside the
    buffer differs from the fill pattern after the call. (The model is C19's `Conv.itoa`, which mirrors
    the digit loop with its `memmove` on overflow and the in-place reversal.) -/
theorem itoa_safe (v : Int) (max : Nat) : Conv.oobWrites (Conv.itoa v max).2 max = [] :=
  Conv.itoa_no_oob_writes v max

/-- **`iwatoi2` reads only `len` bytes** (`len` not larger than the block): blanks, sign, the `inf`
    test and the digit loop stay inside, for every content. -/
theorem atoi2_safe (s : Bytes) (len : Nat) (h : len ≤ s.length) : atoi2 s len ≠ none := Txt.atoi2_safe s len h

/-- **`iwafcmp` reads only `asiz` / `bsiz` bytes** of its arguments, for every content (digit runs of
    any length, a point as last byte, blanks only, …). -/
theorem afcmp_safe (a b : Bytes) (asiz bsiz : Nat) (ha : asiz ≤ a.length) (hb : bsiz ≤ b.length) :
    afcmp a asiz b bsiz ≠ none := Txt.afcmp_safe a asiz b bsiz ha hb

/-- **`iwhex2bin` reads only `hexlen` bytes and stores at most `max` bytes** (into a buffer of at
    least `max` bytes), for every content and both parities of `hexlen`. -/
theorem hex2bin_safe (hex : Bytes) (hexlen max cap : Nat) (hl : hexlen ≤ hex.length) (hcap : max ≤ cap) :
    hex2bin hex hexlen max cap ≠ none := Txt.hex2bin_safe hex hexlen max cap hl hcap

/-- **The regular-expression VM (`vm_run_with_threads` / `vm_add_thread`, src/re/vm.c) stays inside
    its arrays and terminates**: for every well-formed non-empty program (`ReVm.Wf`: jump targets and
    fall-through successors are instructions of the program, no character instruction holds NUL — what
    `compile.c` emits), every text and every `nmatches`, the model run ends with a result: no index
    `pc - program->instructions` or `list->nthreads` leaves `[0, ninstructions)`, the main loop never
    reaches `abort()`, `*sp` is never read behind the terminator, and `vm_add_thread` never nests deeper
    than `ninstructions + 1`. The invariant: per list, queued threads ≤ instructions carrying the
    current stamp ≤ `ninstructions`. -/
theorem revm_safe (prog : ReVm.Prog) (hwf : ReVm.Wf prog) (hne : 0 < prog.length) (text : Bytes) (nmatches : Nat) :
    ∃ r, ReVm.run prog text nmatches = .ok r :=
  ReVm.run_ok prog hwf hne text nmatches

/-- non-vacuity of `Wf`: the program of the pattern `a` (`.*?` prefix, two saves, match) -/
example : ReVm.Wf [.split 3 1, .any, .jump 0, .save 0, .chr 97, .save 1, .mtch] := by
  intro pc ins h
  have hlt : pc < 7 := by
    rcases List.getElem?_eq_some_iff.mp h with ⟨hl, _⟩; simpa using hl
  match pc, hlt with
  | 0, _ | 1, _ | 2, _ | 3, _ | 4, _ | 5, _ | 6, _ => simp at h; subst h; simp


/-! ### The regular-expression front end (`src/re/parse.c`, `src/re/compile.c`, the guard of `iwre_create`)

`Re.parse`, `Re.compile`, `Re.create`, `Re.search` (Model/Re.lean) answer `.oob` for any access outside the
pattern, the parser's node buffer (`2 * strlen` cells shared by operator stack and output), the class
table or the program buffer (`estimate_instructions` entries); `.fuel` for a recursion of
`parse_context` deeper than `strlen + 2` model calls (the model spends fuel on loop iterations too, so
this dominates the C recursion depth); `.ub` where the C code overflows `int`; `.fail` = NULL. -/

/-- **`cregex_parse` stays inside the pattern and inside its node buffer, and its recursion is bounded**:
    for every non-empty C string `s` (any bytes: unbalanced parentheses, `[` without `]`, a trailing
    backslash, `{` with junk, bytes ≥ 0x80 …) the parser never reads behind the terminator, never pushes
    a node when the `2 * strlen` cells are used up (the potential `cells in use + cells the open frames
    will still push ≤ 2 * characters consumed`), never takes a node from below its frame, and
    `parse_context` nests at most `strlen + 2` deep. If it accepts, the tree is well-formed: no NUL
    character node, every class node spans text that `parse_char_class` accepted, `nmin ≤ nmax`. -/
theorem reparse_safe (s : Bytes) (hs : ∀ b ∈ s, b ≠ 0) (hne : s ≠ []) :
    Re.parse (s ++ [0]) ≠ .oob ∧ Re.parse (s ++ [0]) ≠ .fuel ∧
      ∀ root, Re.parse (s ++ [0]) = .ok root → Re.NodeOk (s ++ [0]) root := by
  have h := Re.parse_spec s hs hne
  refine ⟨fun e => by rw [e] at h; exact h, fun e => by rw [e] at h; exact h, fun root e => by rw [e] at h; exact h⟩

/-- the guard `pattern[0] == 0 → refuse` of `iwre_create` is load-bearing: `cregex_parse("")` stores the
    epsilon node into a buffer of `estimate_nodes("") = 0` cells (the instrumentation is live) -/
theorem reparse_empty_pattern_overruns : Re.parse [0] = .oob := Re.parse_empty_oob

/-- **`cregex_compile_node` emits a well-formed program into a buffer that is large enough**: for the
    tree of every accepted pattern, `compile_char_class` re-reads only text the parser accepted (no read
    outside the pattern, every `klass[ch / 8]` inside the 32-byte table), `compile_context` emits exactly
    `count_instructions(node)` instructions (so `estimate_instructions` is never exceeded), every split /
    jump target is an instruction of the program, no character instruction holds NUL, every
    non-control instruction has a successor, class tables have 32 bytes = 256 bits, and the last
    instruction is `MATCH`. The only other outcome is `.ub`: `count_instructions` / `estimate_instructions`
    left `int` (open finding C17-RE-COUNT-COMPILE). -/
theorem recompile_program_wf (s : Bytes) (hs : ∀ b ∈ s, b ≠ 0) (hb : ∀ b ∈ s, b < 256) (hne : s ≠ [])
    (root : Re.Node) (hroot : Re.parse (s ++ [0]) = .ok root) :
    match Re.compile (s ++ [0]) root with
    | .ok prog => ReVm.Wf prog ∧ 0 < prog.length ∧ prog.getLast? = some .mtch ∧
        (∀ neg bits, ReVm.Instr.cls neg bits ∈ prog → bits.length = 32) ∧
        prog.length = (Re.wrapRoot root).countN + 1
    | .ub => root.count = none ∨ ∃ k, root.count = some k ∧ Re.intMax < k + 6
    | _ => False := by
  have h := Re.compile_spec (Re.bytes_lt_append s hb) root ((reparse_safe s hs hne).2.2 root hroot)
  cases hc : Re.compile (s ++ [0]) root <;> rw [hc] at h <;> exact h

/-- **parse → compile → run never leaves a buffer and terminates**: for every non-empty pattern, every
    subject text and every `nmatches`, `iwre_create` followed by `cregex_program_run` ends with a match
    result, with a refused pattern, or at one of the `int` overflows of the open findings — never with an
    out-of-range access in parser, compiler or VM, never with unbounded recursion. This discharges the
    well-formedness hypothesis of `revm_safe` for every program the compiler can emit. -/
theorem compiled_program_safe (s : Bytes) (hs : ∀ b ∈ s, b ≠ 0) (hb : ∀ b ∈ s, b < 256) (hne : s ≠ [])
    (text : Bytes) (nmatches : Nat) :
    (∃ r, Re.search (s ++ [0]) text nmatches = .ok r) ∨ Re.search (s ++ [0]) text nmatches = .fail ∨
      Re.search (s ++ [0]) text nmatches = .ub :=
  Re.search_spec s hs hb hne text nmatches

/-- **Within the size limits there is no overflow either**: if the pattern is shorter than 2^30 bytes, no
    run of decimal digits in it is longer than 9 (so every repetition count is < 10^9), and the weight of
    the parsed tree (a monotone bound of every intermediate value of `count_instructions`: repetition
    counts multiply the weight of what they repeat) satisfies `2 * (weight + 6) ≤ INT_MAX`, then
    parse → compile → run ends with a match result or a refused pattern. -/
theorem compiled_program_safe_within_limits (s : Bytes) (hs : ∀ b ∈ s, b ≠ 0) (hb : ∀ b ∈ s, b < 256) (hne : s ≠ [])
    (text : Bytes) (nmatches : Nat) (hlen : 2 * s.length ≤ Re.intMax) (hdig : ∀ i, Re.digitRun (s ++ [0]) i ≤ 9)
    (hw : ∀ root, Re.parse (s ++ [0]) = .ok root → 2 * (root.weight + 6) ≤ Re.intMax) :
    (∃ r, Re.search (s ++ [0]) text nmatches = .ok r) ∨ Re.search (s ++ [0]) text nmatches = .fail := by
  rcases Re.search_spec s hs hb hne text nmatches with h | h | h
  · exact Or.inl h
  · exact Or.inr h
  · exact absurd h (Re.search_within_limits s hs hb hne text nmatches hlen hdig hw)

/-- **The accepted tree fits the node buffer and bounds the compiler's recursion**: the tree of an accepted
    pattern has at most `2 * strlen` nodes (the cells `cregex_parse` allocated), so the recursion of
    `count_instructions`, `node_is_anchored` and `compile_context` (once per level of the tree; concatenations
    are right-nested, so the height grows with the length) is at most `2 * strlen` deep (+3 for the nodes
    `compile_node_with_program` puts on top). Whether that many C frames fit the machine stack is not a
    statement about the algorithm: open finding C17-RE-DEPTH. -/
theorem reparse_tree_bounded (s : Bytes) (hs : ∀ b ∈ s, b ≠ 0) (hne : s ≠ []) (root : Re.Node)
    (h : Re.parse (s ++ [0]) = .ok root) : root.size ≤ 2 * s.length ∧ root.height ≤ 2 * s.length :=
  Re.parse_size s hs hne root h

/-- the model exhibits the two open `int` overflows on their witnesses: `a{99999999999}` (parse_interval) and
    the tree of `((a{60000}){60000})` (count_instructions) -/
theorem refront_overflow_witnesses :
    Re.parse [97, 123, 57, 57, 57, 57, 57, 57, 57, 57, 57, 57, 57, 125, 0] = .ub ∧
    ∀ pat, Re.compile pat (.cap (.quant 60000 (some 60000) true (.cap (.quant 60000 (some 60000) true (.chr 97))))) = .ub :=
  ⟨Re.parse_count_overflow, Re.compile_count_overflow⟩

/-- non-vacuity: the limits hold for an ordinary pattern (`a|b+`): no long digit run, a tree of weight 8 -/
example : ∀ i, Re.digitRun [97, 124, 98, 43, 0] i ≤ 9 := by
  intro i; have := Re.digitRun_le [97, 124, 98, 43, 0] i; simp at this; omega
example : Re.parse [97, 124, 98, 43, 0] = .ok (.alt (.chr 97) (.quant 1 none true (.chr 98))) ∧
    (Re.Node.alt (.chr 97) (.quant 1 none true (.chr 98))).weight = 8 := by
  constructor
  · simp [Re.parse, Re.strlen, Re.pctx, Re.lexStep, Re.quantStep, Re.concat, Re.concatFold, Re.merge, Re.push, Re.intMax, Re.Node.isEps]
  · simp [Re.Node.weight]

/-- the generated constants the theorems lean on -/
theorem gen_side_conditions : Txt.escMap 0 = 256 ∧ Gen.IWNUMBUF_SIZE = 32 ∧ Gen.JBL_PTR_OFF_N ≤ Gen.JBL_PTR_SIZEOF := by decide

end IwModel.C17
