import IwModel.Model.Format
import IwModel.Lemmas.Format
import IwModel.Lemmas.KvBlk
import IwModel.Lemmas.KvNode
import IwModel.Lemmas.KvChain
import IwModel.Lemmas.KvLinks
import IwModel.Lemmas.KvLinksRefine
import IwModel.Lemmas.KvLinksAudit
/-! # C06 — on-disk structure well-formed, every block accounted for

The audit of Model/Format.lean is the executable statement of the property; it runs on real file
images (checks/c06.py). The theorems here say what a clean audit *means*: each `check… = []/none`
implies the mathematical statement of its clause of the property. -/
namespace IwModel.C06
open IwModel IwModel.FormatEnc IwModel.Format

theorem hasDup_false (l : List Nat) (h : hasDup l = false) : l.Nodup := by
  induction l with
  | nil => exact List.nodup_nil
  | cons a as ih =>
    simp only [hasDup, Bool.or_eq_false_iff] at h
    rw [List.nodup_cons]
    exact ⟨by simpa using h.1, ih h.2⟩

/-- **Slot geometry.** If `checkSlots` has no complaint about a node then every slot in use lies inside the
data area of its block (below the header + index, not past the block end, length within its offset), the byte
intervals of the used slots are pairwise disjoint, no slot number occurs twice among the live `pi` entries,
and the number of used slots is `pnum`. -/
theorem checkSlots_sound (s : Sblk) (h : checkSlots s = none) :
    (∀ x ∈ usedSlots s, x.1.1 ≠ 0 ∧ x.1.1 ≤ 2 ^ s.szpow - (Gen.KVBLK_HDRSZ + s.idxsz) ∧ x.1.2 ≤ x.1.1) ∧
    (slotIvs s).Pairwise (fun a b => a.2 ≤ b.1 ∨ b.2 ≤ a.1) ∧
    s.pi.Nodup ∧ (usedSlots s).length = s.pnum := by
  simp only [checkSlots] at h
  split at h
  · simp at h
  · rename_i h1
    split at h
    · simp at h
    · rename_i h2
      split at h
      · simp at h
      · rename_i h3
        split at h
        · simp at h
        · rename_i h4
          refine ⟨?_, ?_, hasDup_false _ (by simpa using h3), by simpa using h4⟩
          · intro x hx
            have := List.find?_eq_none.1 h1 x hx
            simp only [slotOutside, decide_eq_true_eq, not_or] at this
            omega
          · rw [List.pairwise_iff_getElem]
            intro i j hi hj hij
            have hx : ((slotIvs s)[i], i) ∈ (slotIvs s).zipIdx := by
              rw [List.mem_zipIdx_iff_getElem?]; simp [hi]
            have hy : ((slotIvs s)[j], j) ∈ (slotIvs s).zipIdx := by
              rw [List.mem_zipIdx_iff_getElem?]; simp [hj]
            have := List.find?_eq_none.1 h2 _ hx
            simp only [List.any_eq_true, not_exists, not_and] at this
            have := this _ hy
            simp only [overlap, hij, decide_eq_true_eq, true_and, Bool.decide_and, Bool.and_eq_true, not_and] at this
            omega

/-- **The Lean writer satisfies the slot clause.** A node whose records were appended to a fresh data block the
way `_kvblk_addkv` does it (`Format.mkNode`; the writer of C03, tied to real files by `reenc`) passes `checkSlots`,
hence has all the properties of `checkSlots_sound`. -/
theorem writer_node_slots_ok (size : Nat) (p : NodePlace) (lvl : Nat) (n : List Nat) (p0 : Nat) (recs : List (Bytes × Bytes))
    (h : NodeFits size p lvl n p0 recs) : checkSlots (mkNode p lvl n p0 recs) = none :=
  mkNode_checkSlots size p lvl n p0 recs h

theorem ite_nil {p : Prop} [Decidable p] {x : String} (h : (if p then [x] else []) = []) : ¬ p := by
  intro hp; rw [if_pos hp] at h; exact List.cons_ne_nil _ _ h

theorem checkDb_parts (d : DbImg) (h : checkDb d = []) :
    (∀ i, i < Gen.SLEVELS → levelErrs d i = []) ∧ linkErrs d = [] ∧ tailErrs d = [] ∧ nodeErrs d none d.nodes = [] := by
  simp only [checkDb, List.append_eq_nil_iff, List.flatMap_eq_nil_iff, List.mem_range] at h
  exact ⟨h.1.1.1, h.1.1.2, h.1.2, h.2⟩

/-- **Skip-list links.** No level error: following the `n[i]` links from the database block visits exactly the
nodes of level `≥ i` in the order of the level-0 chain, and the per-level counter equals the number of nodes of
that level — for every level. -/
theorem checkDb_sound_levels (d : DbImg) (h : checkDb d = []) (i : Nat) (hi : i < Gen.SLEVELS) :
    followLevel d.nodes i (d.nodes.length + 2) (d.n.getD i 0) = levelChain d.nodes i ∧
    d.c.getD i 0 = (d.nodes.filter (·.lvl = i)).length := by
  have := (checkDb_parts d h).1 i hi
  simp only [levelErrs, List.append_eq_nil_iff] at this
  obtain ⟨h1, h2⟩ := this
  exact ⟨(Decidable.not_not.1 (ite_nil h1)).symm, Decidable.not_not.1 (ite_nil h2)⟩

/-- **Back links.** Every node's `p0` is the block of its predecessor in the level-0 chain (the database block
for the first node), and the database's tail link names the last node. -/
theorem checkDb_sound_links (d : DbImg) (h : checkDb d = []) :
    (∀ x ∈ d.nodes.zip (d.blk :: d.nodes.map (·.blk)), x.1.p0 = x.2) ∧ tailOk d = true := by
  obtain ⟨_, h2, h3, _⟩ := checkDb_parts d h
  constructor
  · intro x hx
    simp only [linkErrs, List.flatMap_eq_nil_iff] at h2
    have := h2 x hx
    by_cases e : x.1.p0 = x.2
    · exact e
    · simp [e] at this
  · simp only [tailErrs] at h3
    by_cases e : tailOk d = true
    · exact e
    · simp [e] at h3

/-- strictly descending from an optional predecessor: each key sorts before the next under `gt` -/
def descFrom (gt : KvApi.EKey → KvApi.EKey → Bool) : Option KvApi.EKey → List KvApi.EKey → Prop
  | _, [] => True
  | none, k :: ks => descFrom gt (some k) ks
  | some p, k :: ks => gt p k = true ∧ descFrom gt (some k) ks

def endKey : Option KvApi.EKey → List KvApi.EKey → Option KvApi.EKey
  | p, [] => p
  | _, k :: ks => endKey (some k) ks

theorem descFrom_append (gt : KvApi.EKey → KvApi.EKey → Bool) (p : Option KvApi.EKey) (a b : List KvApi.EKey) :
    descFrom gt p (a ++ b) ↔ descFrom gt p a ∧ descFrom gt (endKey p a) b := by
  induction a generalizing p with
  | nil => simp [descFrom, endKey]
  | cons k ks ih =>
    cases p with
    | none => simp [descFrom, endKey, ih]
    | some q => simp [descFrom, endKey, ih, and_assoc]

theorem keyErrs_sound (d : DbImg) (blk : Nat) (prev : Option KvApi.EKey) (recs : List (Bytes × Bytes))
    (h : (keyErrs d blk prev recs).1 = []) :
    ∃ eks, recs.map (fun r => ekeyOf d.flags r.1) = eks.map some ∧ descFrom (KvApi.gtE d.flags) prev eks ∧
      (keyErrs d blk prev recs).2 = endKey prev eks := by
  induction recs generalizing prev with
  | nil => exact ⟨[], rfl, trivial, rfl⟩
  | cons r rest ih =>
    obtain ⟨k, v⟩ := r
    simp only [keyErrs] at h ⊢
    cases hk : ekeyOf d.flags k with
    | none => simp [hk] at h
    | some ek =>
      simp only [hk, List.append_eq_nil_iff] at h ⊢
      obtain ⟨eks, e1, e2, e3⟩ := ih (some ek) h.2
      refine ⟨ek :: eks, by simp [hk, e1], ?_, by simpa [endKey] using e3⟩
      cases prev with
      | none => exact e2
      | some pk =>
        refine ⟨?_, e2⟩
        have := h.1
        by_cases g : KvApi.gtE d.flags pk ek = true
        · exact g
        · simp [g] at this

theorem nodeErrs_sound (d : DbImg) (prev : Option KvApi.EKey) (nodes : List Sblk) (h : nodeErrs d prev nodes = []) :
    (∀ s ∈ nodes, nodeSelfErrs d s = []) ∧
    ∃ eks, (nodes.flatMap (·.recs)).map (fun r => ekeyOf d.flags r.1) = eks.map some ∧
      descFrom (KvApi.gtE d.flags) prev eks := by
  induction nodes generalizing prev with
  | nil => exact ⟨by simp, [], rfl, trivial⟩
  | cons s rest ih =>
    simp only [nodeErrs, List.append_eq_nil_iff] at h
    obtain ⟨⟨h1, h2⟩, h3⟩ := h
    obtain ⟨eks1, a1, a2, a3⟩ := keyErrs_sound d s.blk prev s.recs h2
    rw [a3] at h3
    obtain ⟨b0, eks2, b1, b2⟩ := ih _ h3
    refine ⟨?_, eks1 ++ eks2, by simp [a1, b1], (descFrom_append _ _ _ _).2 ⟨a2, b2⟩⟩
    intro t ht
    rcases List.mem_cons.1 ht with rfl | ht
    · exact h1
    · exact b0 t ht

/-- **Key order.** No order error: every stored key of the database is well-formed and the keys of all nodes,
concatenated along the level-0 chain, are strictly descending under the database's comparator `gtE`
(each key sorts before its successor; inside nodes and across node boundaries). -/
theorem checkDb_sound_order (d : DbImg) (h : checkDb d = []) :
    ∃ eks, (d.nodes.flatMap (·.recs)).map (fun r => ekeyOf d.flags r.1) = eks.map some ∧
      descFrom (KvApi.gtE d.flags) none eks :=
  (nodeErrs_sound d none d.nodes (checkDb_parts d h).2.2.2).2

/-- **Node contents.** Every node is non-empty, sits in a valid page slot, has a sound slot geometry
(`checkSlots_sound`), caches the true prefix of its first (lowest) key and has the full-key flag set exactly when
that key fits the cache. -/
theorem checkDb_sound_nodes (d : DbImg) (h : checkDb d = []) (s : Sblk) (hs : s ∈ d.nodes) :
    s.pnum ≠ 0 ∧ (s.bpos ≠ 0 ∧ s.bpos ≤ Gen.SBLK_PAGE_SBLK_NUM_V2) ∧ checkSlots s = none ∧
    ∀ k v, s.recs.head? = some (k, v) →
      s.lk = k.take Gen.PREFIX_KEY_LEN_V2 ∧ (s.flags % 2 = 1 ↔ k.length ≤ Gen.PREFIX_KEY_LEN_V2) := by
  have := (nodeErrs_sound d none d.nodes (checkDb_parts d h).2.2.2).1 s hs
  simp only [nodeSelfErrs, List.append_eq_nil_iff] at this
  obtain ⟨⟨⟨h1, h2⟩, h3⟩, h4⟩ := this
  refine ⟨?_, ?_, ?_, ?_⟩
  · intro e; simp [e] at h1
  · by_cases e : s.bpos = 0 ∨ s.bpos > Gen.SBLK_PAGE_SBLK_NUM_V2
    · simp [e] at h2
    · omega
  · cases e : checkSlots s with
    | none => rfl
    | some x => simp [e] at h3
  · intro k v hkv
    simp only [hkv, List.append_eq_nil_iff] at h4
    constructor
    · by_cases e : s.lk = k.take Gen.PREFIX_KEY_LEN_V2
      · exact e
      · simp [e] at h4
    · by_cases e : (s.flags % 2 = 1) = (k.length ≤ Gen.PREFIX_KEY_LEN_V2)
      · rw [e]
      · simp [e] at h4

theorem strict_of_adjacent (l : List Nat) (hs : l.Pairwise (· ≤ ·)) (ha : ∀ x ∈ l.zip (l.drop 1), x.1 ≠ x.2) :
    l.Pairwise (· < ·) := by
  induction l with
  | nil => exact List.Pairwise.nil
  | cons a rest ih =>
    rw [List.pairwise_cons] at hs ⊢
    simp only [List.drop_succ_cons, List.drop_zero] at ha
    cases rest with
    | nil => exact ⟨by simp, List.Pairwise.nil⟩
    | cons b rest' =>
      have hab : a ≠ b := ha (a, b) (by simp)
      have hle := hs.1 b (by simp)
      have hb := (List.pairwise_cons.1 hs.2).1
      refine ⟨?_, ih hs.2 (fun x hx => ha x (by simp only [List.zip_cons_cons, List.mem_cons]; right; simpa using hx))⟩
      intro c hc
      rcases List.mem_cons.1 hc with rfl | hc
      · omega
      · have := hb c hc; omega

/-- **Allocation ledger.** If `checkLedger` has no complaint then no block belongs to two structures, every
block a structure occupies is marked in the free-space bitmap, and within the bitmap's range a block is marked
iff a structure occupies it: the allocated set equals exactly the owned set. -/
theorem checkLedger_sound (m : Img) (f : FileImg) (h : checkLedger m f = []) :
    (ownedBlocks f).Nodup ∧ (∀ b ∈ ownedBlocks f, bitSet m f.fsm.bmoff b = true) ∧
    ∀ b, b < f.fsm.bmlen * 8 → (bitSet m f.fsm.bmoff b = true ↔ b ∈ ownedBlocks f) := by
  simp only [checkLedger, List.append_eq_nil_iff] at h
  obtain ⟨⟨h1, h2⟩, h3⟩ := h
  have hperm := List.mergeSort_perm (ownedBlocks f) (fun a b => decide (a ≤ b))
  have hsorted : ((ownedBlocks f).mergeSort fun a b => decide (a ≤ b)).Pairwise (· ≤ ·) := by
    have := List.pairwise_mergeSort (le := fun a b : Nat => decide (a ≤ b))
      (by intro a b c; simp only [decide_eq_true_eq]; omega)
      (by intro a b; simp only [Bool.or_eq_true, decide_eq_true_eq]; omega) (ownedBlocks f)
    exact this.imp (by intro a b; simp)
  have hnd : (ownedBlocks f).Nodup := by
    rw [← hperm.nodup_iff]
    have hadj : ∀ x ∈ ((ownedBlocks f).mergeSort fun a b => decide (a ≤ b)).zip
        (((ownedBlocks f).mergeSort fun a b => decide (a ≤ b)).drop 1), x.1 ≠ x.2 := by
      intro x hx
      split at h1
      · simp at h1
      · rename_i hn
        have := List.find?_eq_none.1 hn x hx
        simpa using this
    exact (strict_of_adjacent _ hsorted hadj).imp (by intro a b hab; omega)
  have hset : ∀ b ∈ ownedBlocks f, bitSet m f.fsm.bmoff b = true := by
    intro b hb
    split at h2
    · simp at h2
    · rename_i hn
      have := List.find?_eq_none.1 hn b (hperm.mem_iff.2 hb)
      simpa using this
  refine ⟨hnd, hset, fun b hb => ⟨fun hbit => ?_, hset b⟩⟩
  split at h3
  · simp at h3
  · rename_i hn
    have := List.find?_eq_none.1 hn b (by simp [List.mem_filter, hb, hbit])
    simpa [Std.HashSet.contains_ofList] using this

/-- the audit as a whole: an image that audits clean has distinct database ids, every database passes `checkDb`
and the ledger passes `checkLedger` (so all `*_sound` theorems apply to it) -/
theorem audit_sound (m : Img) (f : FileImg) (h : audit m = .ok (f, [])) :
    parse m = .ok f ∧ (f.dbs.map (·.id)).Nodup ∧ (∀ d ∈ f.dbs, checkDb d = []) ∧ checkLedger m f = [] := by
  simp only [audit, bind, Except.bind] at h
  split at h
  · simp at h
  · rename_i f' hp
    simp only [pure, Except.pure, Except.ok.injEq, Prod.mk.injEq, List.append_eq_nil_iff, List.flatMap_eq_nil_iff] at h
    obtain ⟨rfl, ⟨h1, h2⟩, h3⟩ := h
    refine ⟨hp, hasDup_false _ ?_, h2, h3⟩
    by_cases e : hasDup (f'.dbs.map (·.id)) = true
    · simp [e] at h1
    · simpa using e

/-! ## Skip-list links as the operations maintain them (link clause of C06, inductively)

`Model/KvLinks.lean` is the database as a heap of blocks that point at each other (head links, tail link,
counters; per node `lvl`, `n[0..lvl]`, `p0`), with `_lx_find_bounds` walking the links and the link surgery of
`_lx_split_addkv` / `_lx_del_sblk_lw` / `_sblk_create_v1` / `_sblk_destroy`.  `KvLinks.LinkInv` is the link clause of
the property stated on those fields (see its fields: every level's chain = nodes of level `≥ i` in level-0 order,
ending in 0; back links; tail link; counters; head level).  The theorems: it holds initially, every insertion and
every removal keeps it (so every history does), the model agrees with the node model of C01 on the sequence of
levels, and a file image with these link fields passes the link clauses of the audit above. -/
section Links
open IwModel.KvLinks

/-- the model's number of levels is the one of the source (`Gen/Consts.lean`, regenerated) -/
theorem links_slevels : KvLinks.SLEVELS = Gen.SLEVELS := by decide

/-- **A new database satisfies the link clause** (no node: all chains empty, counters 0, head level 0). -/
theorem linkinv_empty (blk : Nat) (hb : blk ≠ 0) : LinkInv (KvLinks.empty blk) ∧ levels (KvLinks.empty blk) = [] := by
  have h := KvLinks.linkInv_empty blk hb
  exact ⟨h.1, by simp [levels, h.2]⟩

/-- **The search.** On a state satisfying the link clause the chute `_lx_find_bounds` computes by walking links (for
a search that passes exactly the first `pos` nodes) is, per level `i ≤ nlvl`: the last node of level `≥ i` among
those `pos` nodes (the database block if none), and the first node of level `≥ i` after them (0 = database tail if
none). -/
theorem find_bounds_chute {s : LDb} (h : LinkInv s) (pos nlvl : Nat) :
    findBounds s (fun x => ((order s).take pos).contains x) nlvl =
      (⟨(List.range (nlvl + 1)).map fun i => (((order s).take pos).filter fun x => decide (i ≤ lvlOf s x)).getLast?.getD s.blk,
        (List.range (nlvl + 1)).map fun i => (((order s).drop pos).filter fun x => decide (i ≤ lvlOf s x)).head?.getD 0⟩,
       ((order s).take pos).getLast?.getD s.blk, ((order s).drop pos).head?.getD 0) :=
  h.findBounds_eq pos nlvl

/-- **Insertion keeps the link clause** — at every position (`pos = 0`: in front, `pos ≥` node count: at the end),
for every level below `SLEVELS` (whether or not `_sblk_genlevel` clamped it; including a level above the current head
level, which makes new head links), for every block number the allocator may return (non-zero, not the database block,
not in use).  The new node sits at index `pos` of the level-0 order, the level sequence gains `lvl` there. -/
theorem linkinv_insert {s : LDb} (h : LinkInv s) (pos nid lvl : Nat) (hn0 : nid ≠ 0) (hnb : nid ≠ s.blk)
    (hfresh : nid ∉ order s) (hl : lvl < KvLinks.SLEVELS) :
    LinkInv (insertAt s pos nid lvl) ∧
    order (insertAt s pos nid lvl) = (order s).take pos ++ nid :: (order s).drop pos ∧
    levels (insertAt s pos nid lvl) = (levels s).take pos ++ lvl :: (levels s).drop pos :=
  h.insertAt pos nid lvl hn0 hnb hfresh hl

/-- **Removal keeps the link clause** — of every node: first (head links and the successor's back link change), last
(tail link), the only one (chain empties, tail link = database block), a node that alone populates the top levels (head
links become 0, the head level drops). -/
theorem linkinv_remove {s : LDb} (h : LinkInv s) (pos : Nat) (hpos : pos < (order s).length) :
    LinkInv (removeAt s pos) ∧
    order (removeAt s pos) = (order s).eraseIdx pos ∧
    levels (removeAt s pos) = (levels s).eraseIdx pos :=
  h.removeAt pos hpos

/-- **Every history keeps the link clause.** From a new database, any sequence of admissible structural steps
(`OpsOk`: removal positions exist, inserted block numbers are not in use, levels `< SLEVELS`) leads to a state
satisfying `LinkInv`, whose level sequence is the one obtained by inserting/erasing in a plain list. -/
theorem linkinv_history (blk : Nat) (hb : blk ≠ 0) (ops : List LOp) (hok : OpsOk (KvLinks.empty blk) ops) :
    LinkInv (KvLinks.run (KvLinks.empty blk) ops) ∧
    levels (KvLinks.run (KvLinks.empty blk) ops) = ops.foldl stepLevels [] := by
  have h := (linkinv_empty blk hb)
  have := h.1.run ops hok
  rw [h.2] at this
  exact this

/-- `LinkInv` is exactly "the state is the threading of a list of (block, level) pairs": the characterisation the
proofs work with (`KvLinks.Rep`: every node's `n[i]` is the first later node of level `≥ i`, `p0` the previous node). -/
theorem linkinv_iff_threading (s : LDb) : LinkInv s ↔ ∃ L, Rep s L := KvLinks.linkInv_iff_rep s

/-- **The link model and the node model of C01 agree.** Run any history of `put`/`put-no-overwrite`/`del`/`get` calls
(levels drawn `< SLEVELS`, any comparator) on `Model/Kv.lean` and let the link model take a structural step whenever the
node count changes (`KvLinks.linkStep`: creation at index `routeIdx` with the clamped level, destruction of node
`routeIdx - 1`, fresh block numbers): the link model satisfies the link clause throughout and its level-0 sequence of
levels equals `d.nodes.map (·.lvl)` of the node model, which is the state `Kv.runNode` reaches. -/
theorem links_refine_nodes {K V : Type} (gt : K → K → Bool) (blk : Nat) (hb : blk ≠ 0) (ops : List (Kv.Op K V))
    (hops : ∀ op ∈ ops, opLvl op < KvLinks.SLEVELS) :
    LinkInv (runBoth gt ⟨[], []⟩ (KvLinks.empty blk) ops).2 ∧
    levels (runBoth gt ⟨[], []⟩ (KvLinks.empty blk) ops).2 = (runBoth gt ⟨[], []⟩ (KvLinks.empty blk) ops).1.nodes.map (·.lvl) ∧
    (runBoth gt ⟨[], []⟩ (KvLinks.empty blk) ops).1 = (Kv.runNode gt ⟨[], []⟩ ops).1 := by
  have h := linkinv_empty blk hb
  exact runBoth_refines gt ⟨[], []⟩ (KvLinks.empty blk) ops h.1 (by rw [h.2]; rfl) hops

/-- **Bridge to the audit.** A database image whose link fields are those of a state satisfying the link clause
(`ImgOf`: database block, head links, tail link, counters, and the nodes of the level-0 chain with block, level, links,
back link — everything else arbitrary) makes `levelErrs` (every level), `linkErrs` and `tailOk` of `checkDb` report
nothing: in the vocabulary of `checkDb_sound_levels`, `followLevel = levelChain` and counter = count. -/
theorem linkinv_audit_clean {s : LDb} (h : LinkInv s) (d : DbImg) (hd : ImgOf s d) :
    (∀ i, i < Gen.SLEVELS → levelErrs d i = []) ∧ linkErrs d = [] ∧ tailOk d = true := by
  have := h.audit_clean d hd
  rw [links_slevels] at this
  exact this

/-- the image built from the model is such an image; with the previous theorem and `linkinv_history`: after every
history the image of the model passes the link clauses of the audit -/
theorem history_image_audits_clean (blk : Nat) (hb : blk ≠ 0) (ops : List LOp) (hok : OpsOk (KvLinks.empty blk) ops) :
    (∀ i, i < Gen.SLEVELS → levelErrs (toImg (KvLinks.run (KvLinks.empty blk) ops)) i = []) ∧
    linkErrs (toImg (KvLinks.run (KvLinks.empty blk) ops)) = [] ∧ tailOk (toImg (KvLinks.run (KvLinks.empty blk) ops)) = true :=
  linkinv_audit_clean (linkinv_history blk hb ops hok).1 _ (imgOf_toImg _)

/-- a concrete history: five nodes (levels 0, 2, 1, 5, 0 created in that order at positions 0, 1, 1, 0, 4), then the
first node (which alone populates levels 3..5), the last and a middle node are removed -/
def exLinkOps : List LOp := [.ins 0 10 0, .ins 1 11 2, .ins 1 12 1, .ins 0 13 5, .ins 4 14 0, .rm 0, .rm 3, .rm 1]

example : OpsOk (KvLinks.empty 1) exLinkOps := by
  simp only [exLinkOps, OpsOk, LOp.ok]
  decide
example : levels (KvLinks.run (KvLinks.empty 1) exLinkOps) = [0, 2] := by decide
example : headLvl (KvLinks.run (KvLinks.empty 1) (exLinkOps.take 5)) = 5 ∧ headLvl (KvLinks.run (KvLinks.empty 1) exLinkOps) = 2 := by decide

end Links

def exNode : Sblk :=
  { flags := 1, lvl := 0, lkl := 2, pnum := 2, p0 := 2, kblk := 8, piAll := 1 :: 0 :: List.replicate 30 0, n := [0], bpos := 1,
    lk := [7, 7], szpow := 9, idxsz := 66, slots := (6, 3) :: (3, 3) :: List.replicate 30 (0, 0), blk := 4,
    recs := [([7, 7], []), ([5], [1])] }

def exDb : DbImg :=
  { flags := 0, id := 1, next := 0, p0 := 4, n := 4 :: List.replicate 23 0, c := 1 :: List.replicate 23 0, metaBlk := 0,
    metaBlkn := 0, blk := 2, nodes := [exNode] }

example : checkDb exDb = [] := by decide

/-! ## The writer of one data block (`struct kvblk`): the slot clause by induction over the operations

`Model/KvBlk.lean` mirrors `_kvblk_create/_addkv/_rmkv/_updatev/_compact_mm/_sync_mm` branch by branch and is tied to real
files byte-exactly (checks/c06.py, block stream: the model block must equal the block in the file after EVERY operation).
`KvBlk.BlkInv` is the invariant; the theorems say every operation preserves it for all inputs, hence it holds after any
history, and a block satisfying it passes the audit's `checkSlots`. -/

/-- **What the invariant says**, spelled out: 32 slots; a used slot has `0 < len ≤ off ≤ 2^szpow − (header + idxsz)`; the byte
intervals `[2^szpow − off, 2^szpow − off + len)` of two used slots are disjoint; `maxoff` is the largest offset; `zidx` is the first
free slot (`none` if there is none); a used slot is exactly as long as its record `vnumsize(klen) + klen + vlen`; free slots are
`(0, 0)`; the cached index size is at least the real one. -/
theorem blkinv_spec (b : KvBlk.KvBlk) (h : KvBlk.BlkInv b) :
    b.slots.length = Gen.KVBLK_IDXNUM ∧
    (∀ i, (KvBlk.sl b.slots i).len ≠ 0 → 0 < (KvBlk.sl b.slots i).len ∧ (KvBlk.sl b.slots i).len ≤ (KvBlk.sl b.slots i).off ∧
      (KvBlk.sl b.slots i).off ≤ 2 ^ b.szpow - (Gen.KVBLK_HDRSZ + b.idxsz)) ∧
    (∀ i j, i ≠ j → (KvBlk.sl b.slots i).len ≠ 0 → (KvBlk.sl b.slots j).len ≠ 0 →
      2 ^ b.szpow - (KvBlk.sl b.slots i).off + (KvBlk.sl b.slots i).len ≤ 2 ^ b.szpow - (KvBlk.sl b.slots j).off ∨
      2 ^ b.szpow - (KvBlk.sl b.slots j).off + (KvBlk.sl b.slots j).len ≤ 2 ^ b.szpow - (KvBlk.sl b.slots i).off) ∧
    (b.maxoff = KvBlk.maxOff b.slots ∧ ∀ i, (KvBlk.sl b.slots i).off ≤ b.maxoff) ∧
    b.zidx = KvBlk.firstFree b.slots ∧
    (∀ i, (KvBlk.sl b.slots i).len ≠ 0 →
      KvBlk.vn (KvBlk.sl b.slots i).key.length + (KvBlk.sl b.slots i).key.length + (KvBlk.sl b.slots i).val.length = (KvBlk.sl b.slots i).len) ∧
    (∀ i, (KvBlk.sl b.slots i).len = 0 → (KvBlk.sl b.slots i).off = 0) ∧
    KvBlk.idxBytes b.slots ≤ b.idxsz := by
  have hub : ∀ i, (KvBlk.sl b.slots i).off ≤ b.maxoff := fun i => by rw [h.maxoff]; exact KvBlk.maxOff_ge b.slots i
  have hr := h.room'
  refine ⟨h.n32, ?_, ?_, ⟨h.maxoff, hub⟩, h.zidx, ?_, h.tab.freeoff, h.idxge⟩
  · intro i hi
    have := h.tab.lenoff i; have := hub i
    omega
  · intro i j hij hi hj
    have := h.tab.lenoff i; have := h.tab.lenoff j; have := hub i; have := hub j
    rcases h.tab.disj i j hij hi hj with d | d
    · right; omega
    · left; omega
  · intro i hi; exact (h.tab.fit i hi).symm

/-- `_kvblk_create`: a fresh block of any size the callers ask for (`_sblk_create_v1` raises `kvbpow` to `KVBLK_INISZPOW`) satisfies
the invariant -/
theorem blkinv_create (p : Nat) (hp : Gen.KVBLK_INISZPOW ≤ p) : KvBlk.BlkInv (KvBlk.create p) := by
  apply KvBlk.blkInv_create p _ (by decide)
  have : 2 ^ Gen.KVBLK_INISZPOW ≤ 2 ^ p := Nat.pow_le_pow_right (by decide) hp
  have e : Gen.KVBLK_HDRSZ + 2 * Gen.KVBLK_IDXNUM ≤ 2 ^ Gen.KVBLK_INISZPOW := by decide
  omega

/-- `_kvblk_sync_mm` turns the geometry into the full invariant (the cached index size is exact again) -/
theorem blkinv_sync (b : KvBlk.KvBlk) (h : KvBlk.Geo b) : KvBlk.BlkInv (KvBlk.sync b) := KvBlk.blkInv_sync h

/-- `_kvblk_addkv` (any key, any value, whichever of the branches fits / compact / compact+grow / grow is taken): the geometry holds
right after the call — with the index size still cached from before — and the invariant after the caller's sync -/
theorem blkinv_addkv (b : KvBlk.KvBlk) (h : KvBlk.BlkInv b) (key val : Bytes) (b' : KvBlk.KvBlk) (idx : Nat)
    (e : KvBlk.addkv b key val = .ok b' idx) : KvBlk.Geo b' ∧ KvBlk.BlkInv (KvBlk.sync b') :=
  ⟨(KvBlk.geo_addkv h key val b' idx e).1, KvBlk.blkInv_sync (KvBlk.geo_addkv h key val b' idx e).1⟩

/-- `_kvblk_rmkv` (any slot number below `KVBLK_IDXNUM`, with or without `RMKV_NO_RESIZE`, shrink taken or not) -/
theorem blkinv_rmkv (b : KvBlk.KvBlk) (h : KvBlk.BlkInv b) (idx : Nat) (hidx : idx < Gen.KVBLK_IDXNUM) (noResize : Bool) :
    KvBlk.BlkInv (KvBlk.rmkv b idx noResize) := KvBlk.blkInv_rmkv h idx (by rw [h.n32]; exact hidx) noResize

/-- `_kvblk_updatev` (any slot, any new value; in place, grown into the gap below the previous record, or removed and re-added —
and the refusal of an oversize record) -/
theorem blkinv_updatev (b : KvBlk.KvBlk) (h : KvBlk.BlkInv b) (idx : Nat) (hidx : idx < Gen.KVBLK_IDXNUM) (val : Bytes) :
    KvBlk.Geo (KvBlk.updatev b idx val).blk ∧ KvBlk.BlkInv (KvBlk.sync (KvBlk.updatev b idx val).blk) :=
  ⟨KvBlk.geo_updatev h idx (by rw [h.n32]; exact hidx) val, KvBlk.blkInv_sync (KvBlk.geo_updatev h idx (by rw [h.n32]; exact hidx) val)⟩

/-- `_kvblk_compact_mm`: the invariant is kept, records stay in their slots with their contents, and afterwards the data area is
exactly the sum of the record lengths -/
theorem blkinv_compact (b : KvBlk.KvBlk) (h : KvBlk.BlkInv b) :
    KvBlk.BlkInv (KvBlk.compact b) ∧ KvBlk.compactedOffset (KvBlk.compact b) = (KvBlk.compact b).maxoff ∧
    KvBlk.recs (KvBlk.compact b) = KvBlk.recs b := by
  refine ⟨KvBlk.blkInv_compact h, KvBlk.compact_compacted h.toGeo, ?_⟩
  have hs := KvBlk.compact_slots_same b h.tab
  exact KvBlk.filterMap_congr_sl hs.1 (fun i => KvBlk.recOf_eq ⟨(hs.2.2 i).1, (hs.2.2 i).2.1, (hs.2.2 i).2.2.1⟩)

/-- **Any history.** Starting from a fresh block, after any sequence of add / remove / update / compact operations with any arguments
(each followed by the sync its caller performs) the invariant holds. -/
theorem blkinv_history (p : Nat) (hp : Gen.KVBLK_INISZPOW ≤ p) (ops : List KvBlk.Op) :
    KvBlk.BlkInv (KvBlk.run (KvBlk.create p) ops) := KvBlk.blkInv_run (blkinv_create p hp) ops

/-- the same from any state satisfying the invariant (e.g. a block loaded from a well-formed file) -/
theorem blkinv_history_from (b : KvBlk.KvBlk) (h : KvBlk.BlkInv b) (ops : List KvBlk.Op) : KvBlk.BlkInv (KvBlk.run b ops) :=
  KvBlk.blkInv_run h ops

/-- `_kvblk_addkv` adds exactly the new record: the records of the block, as a multiset, are the old ones plus `(key, val)`;
the returned slot was free and now holds the record -/
theorem addkv_content (b : KvBlk.KvBlk) (h : KvBlk.BlkInv b) (key val : Bytes) (b' : KvBlk.KvBlk) (idx : Nat)
    (e : KvBlk.addkv b key val = .ok b' idx) :
    (KvBlk.recs b').Perm ((key, val) :: KvBlk.recs b) ∧ (KvBlk.sl b.slots idx).len = 0 ∧
    (KvBlk.sl b'.slots idx).key = key ∧ (KvBlk.sl b'.slots idx).val = val := by
  obtain ⟨_, _, h2, _, h4, _⟩ := KvBlk.geo_addkv h key val b' idx e
  exact ⟨KvBlk.addkv_recs h key val b' idx e, h2, by rw [h4], by rw [h4]⟩

/-- `_kvblk_rmkv` removes exactly the record of the slot -/
theorem rmkv_content (b : KvBlk.KvBlk) (h : KvBlk.BlkInv b) (idx : Nat) (hidx : idx < Gen.KVBLK_IDXNUM) (noResize : Bool)
    (hused : (KvBlk.sl b.slots idx).len ≠ 0) :
    (KvBlk.recs b).Perm (((KvBlk.sl b.slots idx).key, (KvBlk.sl b.slots idx).val) :: KvBlk.recs (KvBlk.rmkv b idx noResize)) :=
  KvBlk.rmkv_recs_perm h idx (by rw [h.n32]; exact hidx) noResize hused

/-- `_kvblk_updatev` replaces exactly the value of the slot's record, like an association list does: one record `(key, old)` leaves,
`(key, new)` enters, the rest is untouched (whatever slot the record ends up in) -/
theorem updatev_content (b : KvBlk.KvBlk) (h : KvBlk.BlkInv b) (idx : Nat) (hidx : idx < Gen.KVBLK_IDXNUM) (val : Bytes)
    (hused : (KvBlk.sl b.slots idx).len ≠ 0) (b' : KvBlk.KvBlk) (i' : Nat) (e : KvBlk.updatev b idx val = .ok b' i') :
    ∃ rest, (KvBlk.recs b).Perm (((KvBlk.sl b.slots idx).key, (KvBlk.sl b.slots idx).val) :: rest) ∧
      (KvBlk.recs b').Perm (((KvBlk.sl b.slots idx).key, val) :: rest) :=
  KvBlk.updatev_recs h idx (by rw [h.n32]; exact hidx) val hused b' i' e

/-- **A failing `_kvblk_updatev` leaves the block unchanged.** The only failure is `IWKV_ERROR_MAXKVSZ` (the new record would be larger than
0xfffffff bytes) and it is decided before anything is touched (fix ade5254 of finding C06-MAXKV) -/
theorem updatev_failure_keeps_block (b : KvBlk.KvBlk) (h : KvBlk.BlkInv b) (idx : Nat) (hidx : idx < Gen.KVBLK_IDXNUM) (val : Bytes)
    (hused : (KvBlk.sl b.slots idx).len ≠ 0) (b' : KvBlk.KvBlk) (err : KvBlk.AddRes) (e : KvBlk.updatev b idx val = .failed b' err) :
    b' = b ∧ err = .maxkvsz ∧ KvBlk.recSize (KvBlk.sl b.slots idx).key val > Gen.IWKV_MAX_KVSZ :=
  KvBlk.updatev_failed_keeps h idx (by rw [h.n32]; exact hidx) val hused b' err e

/-- **A failing `_kvblk_addkv` leaves the block unchanged**: both refusals (`_IWKV_RC_KVBLOCK_FULL`: no free slot; `IWKV_ERROR_MAXKVSZ`: record
too large) are decided before anything is touched, and they are the only ones -/
theorem addkv_failure_keeps_block (b : KvBlk.KvBlk) (key val : Bytes) (hf : ∀ b' i, KvBlk.addkv b key val ≠ .ok b' i) :
    KvBlk.step b (.add key val) = b ∧
    ((KvBlk.addkv b key val = .full ∧ b.zidx = none) ∨
     (KvBlk.addkv b key val = .maxkvsz ∧ KvBlk.recSize key val > Gen.IWKV_MAX_KVSZ)) := by
  constructor
  · cases hq : KvBlk.addkv b key val with
    | ok b' i => exact absurd hq (hf b' i)
    | full => simp only [KvBlk.step, hq]
    | maxkvsz => simp only [KvBlk.step, hq]
  · simp only [KvBlk.addkv] at hf ⊢
    cases hz : b.zidx with
    | none => left; exact ⟨rfl, rfl⟩
    | some z =>
      right
      simp only [hz] at hf ⊢
      split
      · rename_i hbig; exact ⟨rfl, hbig⟩
      · rename_i hsmall
        simp only [hsmall, if_false] at hf
        exact absurd rfl (hf _ _)

/-- HISTORICAL witness of finding C06-MAXKV (fixed by ade5254): `_kvblk_updatev` as it was (`KvBlk.updatevOld`, no size test before the
removal) failed only with `IWKV_ERROR_MAXKVSZ` from the re-add, and on that path the old record had already been removed — the error
did not leave the block unchanged -/
theorem updatev_old_loses_record (b : KvBlk.KvBlk) (h : KvBlk.BlkInv b) (idx : Nat) (hidx : idx < Gen.KVBLK_IDXNUM) (val : Bytes)
    (hused : (KvBlk.sl b.slots idx).len ≠ 0) (b' : KvBlk.KvBlk) (err : KvBlk.AddRes) (e : KvBlk.updatevOld b idx val = .failed b' err) :
    err = .maxkvsz ∧ KvBlk.recSize (KvBlk.sl b.slots idx).key val > Gen.IWKV_MAX_KVSZ ∧
    (KvBlk.recs b).Perm (((KvBlk.sl b.slots idx).key, (KvBlk.sl b.slots idx).val) :: KvBlk.recs b') :=
  KvBlk.updatevOld_failed h idx (by rw [h.n32]; exact hidx) val hused b' err e

theorem zipIdx_pairwise {α : Type} (l : List α) (k : Nat) : (l.zipIdx k).Pairwise (fun x y => x.2 < y.2) := by
  induction l generalizing k with
  | nil => exact List.Pairwise.nil
  | cons a t ih =>
    rw [List.zipIdx_cons, List.pairwise_cons]
    refine ⟨?_, ih (k + 1)⟩
    intro x hx
    have := (List.mem_zipIdx hx).1
    show k < x.2; omega

/-- a used slot of the node, in terms of the block model -/
theorem usedSlots_mem (b : KvBlk.KvBlk) (s : Sblk) (h3 : s.slots = KvBlk.pairs b) (x : (Nat × Nat) × Nat) (hx : x ∈ usedSlots s) :
    x.1 = ((KvBlk.sl b.slots x.2).off, (KvBlk.sl b.slots x.2).len) ∧ (KvBlk.sl b.slots x.2).len ≠ 0 := by
  simp only [usedSlots, List.mem_filter, h3, KvBlk.pairs] at hx
  obtain ⟨h1, h2⟩ := hx
  obtain ⟨_, hlt, he⟩ := List.mem_zipIdx h1
  simp only [Nat.sub_zero, List.length_map, List.getElem_map] at hlt he
  have hlt' : x.2 < b.slots.length := by omega
  have e : KvBlk.sl b.slots x.2 = b.slots[x.2] := by
    simp [KvBlk.sl, List.getD_eq_getElem?_getD, List.getElem?_eq_getElem hlt']
  rw [e]
  refine ⟨he, ?_⟩
  rw [he] at h2
  simpa using h2

/-- **From the writer's invariant to the audit.** A node whose data block is a model block satisfying `BlkInv` (same size power, index
size and slot table), whose `pi` names no slot twice and whose `pnum` counts the used slots, passes `checkSlots` — so everything
`checkSlots_sound` states (slots inside the data area, pairwise disjoint byte intervals) holds for it. -/
theorem blkinv_checkSlots (b : KvBlk.KvBlk) (h : KvBlk.BlkInv b) (s : Sblk)
    (h1 : s.szpow = b.szpow) (h2 : s.idxsz = b.idxsz) (h3 : s.slots = KvBlk.pairs b) (h4 : s.pi.Nodup)
    (h5 : (usedSlots s).length = s.pnum) : checkSlots s = none := by
  have hub : ∀ i, (KvBlk.sl b.slots i).off ≤ b.maxoff := fun i => by rw [h.maxoff]; exact KvBlk.maxOff_ge b.slots i
  have hr := h.room'
  have c1 : (usedSlots s).find? (slotOutside s) = none := by
    rw [List.find?_eq_none]
    intro x hx
    obtain ⟨e, hu⟩ := usedSlots_mem b s h3 x hx
    have := h.tab.lenoff x.2; have := hub x.2
    simp only [slotOutside, h1, h2, e, decide_eq_true_eq]
    omega
  have hpw : (usedSlots s).Pairwise (fun x y => x.2 < y.2) := (zipIdx_pairwise s.slots 0).filter _
  have c2 : (slotIvs s).zipIdx.find? (fun x => (slotIvs s).zipIdx.any fun y => x.2 < y.2 ∧ overlap x.1 y.1) = none := by
    rw [List.find?_eq_none]
    intro x hx
    simp only [List.any_eq_true, not_exists, not_and]
    intro y hy
    obtain ⟨xi, i⟩ := x
    obtain ⟨yj, j⟩ := y
    have hxi := List.mem_zipIdx hx
    have hyj := List.mem_zipIdx hy
    have hlen : (slotIvs s).length = (usedSlots s).length := by simp [slotIvs]
    simp only [Nat.zero_add, Nat.sub_zero, hlen] at hxi hyj
    simp only [overlap, Bool.decide_and, Bool.and_eq_true, decide_eq_true_eq, not_and]
    intro hij
    have hlt := (List.pairwise_iff_getElem.1 hpw) i j hxi.2.1 hyj.2.1 hij
    obtain ⟨ei, ui⟩ := usedSlots_mem b s h3 _ (List.getElem_mem hxi.2.1)
    obtain ⟨ej, uj⟩ := usedSlots_mem b s h3 _ (List.getElem_mem hyj.2.1)
    have exi : xi = (2 ^ b.szpow - ((usedSlots s)[i]).1.1, 2 ^ b.szpow - ((usedSlots s)[i]).1.1 + ((usedSlots s)[i]).1.2) := by
      have := hxi.2.2; simp only [slotIvs, List.getElem_map, h1] at this; exact this
    have eyj : yj = (2 ^ b.szpow - ((usedSlots s)[j]).1.1, 2 ^ b.szpow - ((usedSlots s)[j]).1.1 + ((usedSlots s)[j]).1.2) := by
      have := hyj.2.2; simp only [slotIvs, List.getElem_map, h1] at this; exact this
    have a1 : xi.1 = 2 ^ b.szpow - ((usedSlots s)[i]).1.1 := congrArg Prod.fst exi
    have a2 : xi.2 = 2 ^ b.szpow - ((usedSlots s)[i]).1.1 + ((usedSlots s)[i]).1.2 := congrArg Prod.snd exi
    have b1 : yj.1 = 2 ^ b.szpow - ((usedSlots s)[j]).1.1 := congrArg Prod.fst eyj
    have b2 : yj.2 = 2 ^ b.szpow - ((usedSlots s)[j]).1.1 + ((usedSlots s)[j]).1.2 := congrArg Prod.snd eyj
    have o1 : ((usedSlots s)[i]).1.1 = (KvBlk.sl b.slots ((usedSlots s)[i]).2).off := congrArg Prod.fst ei
    have o2 : ((usedSlots s)[i]).1.2 = (KvBlk.sl b.slots ((usedSlots s)[i]).2).len := congrArg Prod.snd ei
    have o3 : ((usedSlots s)[j]).1.1 = (KvBlk.sl b.slots ((usedSlots s)[j]).2).off := congrArg Prod.fst ej
    have o4 : ((usedSlots s)[j]).1.2 = (KvBlk.sl b.slots ((usedSlots s)[j]).2).len := congrArg Prod.snd ej
    have d := h.tab.disj _ _ (Nat.ne_of_lt hlt) ui uj
    have := h.tab.lenoff ((usedSlots s)[i]).2; have := h.tab.lenoff ((usedSlots s)[j]).2
    have := hub ((usedSlots s)[i]).2; have := hub ((usedSlots s)[j]).2
    simp only [KvBlk.Disj] at d
    omega
  simp only [checkSlots, c1, c2, hasDup_of_nodup _ h4, h5]
  simp

/-- the node the check builds from a model block: `pi` = the used slot numbers, `pnum` = their count (the other fields of the node record
play no role in the slot audit) -/
def nodeOf (b : KvBlk.KvBlk) (blk kblk : Nat) : Sblk :=
  let used := ((KvBlk.pairs b).zipIdx.filter fun x => x.1.2 ≠ 0).map (·.2)
  { flags := 0, lvl := 0, lkl := 0, pnum := used.length, p0 := 0, kblk, piAll := used ++ List.replicate (Gen.KVBLK_IDXNUM - used.length) 0,
    n := [0], bpos := 1, lk := [], szpow := b.szpow, idxsz := b.idxsz, slots := KvBlk.pairs b, blk, recs := KvBlk.recs b }

/-- after any history the node built from the model block passes the slot audit -/
theorem blkinv_checkSlots_node (b : KvBlk.KvBlk) (h : KvBlk.BlkInv b) (blk kblk : Nat) : checkSlots (nodeOf b blk kblk) = none := by
  apply blkinv_checkSlots b h _ rfl rfl rfl
  · show ((((KvBlk.pairs b).zipIdx.filter fun x => x.1.2 ≠ 0).map (·.2)) ++ _).take
      (((KvBlk.pairs b).zipIdx.filter fun x => x.1.2 ≠ 0).map (·.2)).length |>.Nodup
    rw [List.take_left']
    · have hp := (zipIdx_pairwise (KvBlk.pairs b) 0).filter (fun x => decide (x.1.2 ≠ 0))
      have : (((KvBlk.pairs b).zipIdx.filter fun x => decide (x.1.2 ≠ 0)).map fun x : (Nat × Nat) × Nat => x.2).Pairwise (fun a c => a < c) :=
        List.Pairwise.map (fun x : (Nat × Nat) × Nat => x.2) (fun _ _ hab => hab) hp
      exact this.imp (fun hab => Nat.ne_of_lt hab)
    · rfl
  · show (usedSlots (nodeOf b blk kblk)).length = (((KvBlk.pairs b).zipIdx.filter fun x => x.1.2 ≠ 0).map (·.2)).length
    simp [usedSlots, nodeOf]

theorem history_checkSlots (p : Nat) (hp : Gen.KVBLK_INISZPOW ≤ p) (ops : List KvBlk.Op) (blk kblk : Nat) :
    checkSlots (nodeOf (KvBlk.run (KvBlk.create p) ops) blk kblk) = none :=
  blkinv_checkSlots_node _ (KvBlk.blkInv_run (KvBlk.blkInv_create p (by
    have : 2 ^ Gen.KVBLK_INISZPOW ≤ 2 ^ p := Nat.pow_le_pow_right (by decide) hp
    have e : Gen.KVBLK_HDRSZ + 2 * Gen.KVBLK_IDXNUM ≤ 2 ^ Gen.KVBLK_INISZPOW := by decide
    omega) (by decide)) ops) blk kblk

/-- non-vacuity: a fresh 512-byte block satisfies the invariant -/
example : KvBlk.BlkInv (KvBlk.create 9) := blkinv_create 9 (by decide)

/-- a concrete history on the model: three records, the first removed, the second grown into the gap this left (slot 1 keeps offset 7,
length 4 → 7) -/
example : (KvBlk.pairs (KvBlk.run (KvBlk.create 9)
      [.add [1] [2], .add [3] [4, 5], .add [9] [9, 9, 9], .rm 0, .upd 1 [7, 7, 7, 8, 8]])).take 4 = [(0, 0), (7, 7), (12, 5), (0, 0)] ∧
    KvBlk.recs (KvBlk.run (KvBlk.create 9) [.add [1] [2], .add [3] [4, 5], .add [9] [9, 9, 9], .rm 0, .upd 1 [7, 7, 7, 8, 8]]) =
      [([3], [7, 7, 7, 8, 8]), ([9], [9, 9, 9])] := by decide

/-! ## the writer of one node record (`Model/KvNode.lean`)

A database that stays within one node (at most 32 keys). `KvNode.NodeInv` is the invariant the property clause "every node non-empty,
internally sorted and carrying the true prefix of its lowest key" asks for, stated on the model of the code that maintains the record
(`_sblk_addkv`, `_sblk_addkv2`, `_sblk_updatekv`, `_sblk_rmkv`, `_sblk_insert_pi_mm`, `_sblk_find_pi_mm`, `_lx_sblk_cmp_key`). -/

/-- **What the node invariant says**, in the words of the property: the live slot order `pi[0..pnum)` is a permutation of the used
slots of the data block; the keys in that order are strictly descending under the database comparator; `pnum` is the number of
records; the cached first key describes exactly the first key: `lkl = min(len, 115)`, the `lkl` cached bytes are its prefix and
`SBLK_FULL_LKEY` is set iff the whole key is cached; the node is not empty and its block satisfies the block invariant. -/
theorem nodeinv_spec (compound : Bool) (n : KvNode.Node) (h : KvNode.NodeInv compound n) :
    n.pi.Perm ((List.range Gen.KVBLK_IDXNUM).filter fun i => (KvBlk.sl n.blk.slots i).len ≠ 0) ∧
    (KvNode.keys n).Pairwise (KvNode.gtS compound) ∧
    n.pnum = n.pi.length ∧ n.pnum = (KvBlk.recs n.blk).length ∧ 0 < n.pnum ∧ n.pnum ≤ Gen.KVBLK_IDXNUM ∧
    n.lkl = min Gen.PREFIX_KEY_LEN_V2 (KvNode.keyAt n 0).length ∧
    KvNode.lkLive n = (KvNode.keyAt n 0).take Gen.PREFIX_KEY_LEN_V2 ∧
    (n.full = true ↔ (KvNode.keyAt n 0).length ≤ Gen.PREFIX_KEY_LEN_V2) ∧
    KvBlk.BlkInv n.blk := by
  have hperm : n.pi.Perm ((List.range Gen.KVBLK_IDXNUM).filter fun i => (KvBlk.sl n.blk.slots i).len ≠ 0) := by
    apply (List.perm_ext_iff_of_nodup h.nodup (List.nodup_range.filter _)).2
    intro i
    rw [h.mem i, List.mem_filter, List.mem_range]
    constructor
    · intro hu; exact ⟨by have := KvNode.used_lt hu; rw [h.blk.n32] at this; exact this, by simpa using hu⟩
    · intro hu; simpa using hu.2
  have hne : n.pi ≠ [] := by
    intro e0
    have := h.pnum; have := h.pos
    rw [e0] at *; simp at *; omega
  obtain ⟨c1, c2, c3⟩ := h.cache _ (KvNode.head?_keys n hne)
  refine ⟨hperm, h.sorted, h.pnum, ?_, h.pos, h.le32, c1, c2, c3, h.blk⟩
  -- number of records = number of used slots
  rw [h.pnum, hperm.length_eq, KvBlk.recs, List.length_filterMap_eq_countP, ← List.countP_eq_length_filter]
  have e : n.blk.slots = (List.range n.blk.slots.length).map fun i => KvBlk.sl n.blk.slots i := by
    have := KvBlk.map_eq_range' n.blk.slots id
    simpa using this
  conv => rhs; rw [e, List.countP_map, h.blk.n32]
  apply List.countP_congr
  intro i _
  simp [KvBlk.recOf]

/-- a database without a node satisfies the invariant -/
theorem nodeinv_empty (compound : Bool) : KvNode.DbInv compound none := KvNode.dbInv_none compound

/-- **`iwkv_put` keeps the node invariant**: a new key at any position (into the empty database, in front of the first key via
`_sblk_addkv` + `_sblk_insert_pi_mm`, elsewhere via `_sblk_find_pi_mm` + `_sblk_addkv2`) and the overwrite of an existing key
(`_sblk_updatekv`, the record may change its slot), for every key, compound part and value; block compaction / growth included
(the block part is `blkinv_addkv` / `blkinv_updatev`). `hk`, `hc`: what the API checks before (`key->size > 0`, compound part in the
`int64_t` range). -/
theorem nodeinv_put (compound : Bool) (d : KvNode.Db) (h : KvNode.DbInv compound d) (k : Bytes) (c : Nat) (val : Bytes)
    (hk : k ≠ []) (hc : c < 2 ^ 63) (d' : KvNode.Db) (e : KvNode.put compound d k c val = .ok d') : KvNode.DbInv compound d' :=
  KvNode.dbInv_put h k c val hk hc d' e

/-- **`iwkv_del` keeps the node invariant**: any position, including the first key (the cache is refreshed from the stored key of the
next slot: `lkl`, bytes and `SBLK_FULL_LKEY` follow THAT key's length) and the last remaining key (the node goes). -/
theorem nodeinv_del (compound : Bool) (d : KvNode.Db) (h : KvNode.DbInv compound d) (k : Bytes) (c : Nat) (d' : KvNode.Db)
    (e : KvNode.del compound d k c = some d') : KvNode.DbInv compound d' := KvNode.dbInv_del h k c d' e

/-- **`iwkv_cursor_set` keeps the node invariant** (cursor at any position of the node) -/
theorem nodeinv_cursor_set (compound : Bool) (d : KvNode.Db) (h : KvNode.DbInv compound d) (pos : Nat) (val : Bytes)
    (hpos : ∀ n, d = some n → pos < n.pnum) (d' : KvNode.Db) (e : KvNode.curSet d pos val = .ok d') : KvNode.DbInv compound d' :=
  KvNode.dbInv_curSet h pos val hpos d' e

/-- **`iwkv_cursor_del` keeps the node invariant** (cursor at any position of the node) -/
theorem nodeinv_cursor_del (compound : Bool) (d : KvNode.Db) (h : KvNode.DbInv compound d) (pos : Nat)
    (hpos : ∀ n, d = some n → pos < n.pnum) : KvNode.DbInv compound (KvNode.curDel d pos) := KvNode.dbInv_curDel h pos hpos

/-- **Every history keeps the node invariant**: any sequence of puts, deletes, cursor sets and cursor deletes (by key) from the empty
database, as long as it stays within one node (operations that would split the node are refused by the model and leave it as it is). -/
theorem nodeinv_history (compound : Bool) (ops : List KvNode.Op) (hops : ∀ op ∈ ops, op.ok) :
    KvNode.DbInv compound (KvNode.run compound none ops) := KvNode.dbInv_run (KvNode.dbInv_none compound) ops hops

/-- **Key lookup through the cached prefix agrees with the full comparison** (theorems `prefix_agrees_plain` / `prefix_agrees_compound`
of C19 applied to the node record the writer maintains): for a node satisfying the invariant the sign `_lx_sblk_cmp_key` computes
from `lk`, `lkl`, `SBLK_FULL_LKEY` (and the stored key of `pi[0]` on a tie) is the sign of `_cmp_keys` against the whole first key. -/
theorem node_lookup_agrees (compound : Bool) (n : KvNode.Node) (h : KvNode.NodeInv compound n) (k : Bytes) (c2 : Nat) :
    sgn (KvNode.lxCmp compound n k c2) = sgn (Cmp.cmpKeys .plain compound (KvNode.keyAt n 0) k c2) := by
  have hne : n.pi ≠ [] := by
    intro e0
    have := h.pnum; have := h.pos
    rw [e0] at *; simp at *; omega
  exact KvNode.lookup_agrees compound h.toCore hne k c2

/-- **The binary search of `_sblk_find_pi_mm` is correct on a node satisfying the invariant**: every key left of the returned position
sorts before the lookup key; `found` means the key at that position compares equal; `not found` means every key from that position on
sorts after it (the position is the insertion point). -/
theorem node_find_pi (compound : Bool) (n : KvNode.Node) (h : KvNode.NodeInv compound n) (k : Bytes) (c : Nat) :
    KvNode.Found (fun i => KvNode.cmpOf compound k c (KvNode.keyAt n i)) n.pnum (KvNode.findPi n (KvNode.cmpOf compound k c)) :=
  (KvNode.found_findPi h k c).1

/-- **Found means present**: on a node satisfying the invariant `_sblk_find_pi_mm` reports "found" exactly when the stored form of the
lookup key is one of the node's keys, and the position it returns holds that key (so `iwkv_get`, `iwkv_del`, cursor `EQ` and the
overwrite branch of `iwkv_put` address the right record). -/
theorem node_find_pi_found_iff (compound : Bool) (n : KvNode.Node) (h : KvNode.NodeInv compound n) (k : Bytes) (c : Nat)
    (hk : k ≠ []) (hc : c < 2 ^ 63) :
    ((KvNode.findPi n (KvNode.cmpOf compound k c)).1 = true ↔ Cmp.stored compound k c ∈ KvNode.keys n) ∧
    ((KvNode.findPi n (KvNode.cmpOf compound k c)).1 = true →
      KvNode.keyAt n (KvNode.findPi n (KvNode.cmpOf compound k c)).2 = Cmp.stored compound k c) :=
  KvNode.findPi_found_iff h k c hk hc

/-! ### from the node invariant to the audit -/

/-- the node image the reader yields for a model node stored in block `blk` (data block `kblk`, page slot `bpos`); level and links are
those of a single node -/
def nodeImg (n : KvNode.Node) (blk kblk bpos : Nat) : Sblk :=
  { flags := KvNode.flagsByte n, lvl := 0, lkl := n.lkl, pnum := n.pnum, p0 := 0, kblk,
    piAll := n.pi ++ List.replicate (Gen.KVBLK_IDXNUM - n.pnum) 0, n := [0], bpos, lk := KvNode.lkLive n,
    szpow := n.blk.szpow, idxsz := n.blk.idxsz, slots := KvBlk.pairs n.blk, blk,
    recs := n.pi.map fun i => (KvNode.slotKey n.blk i, KvNode.slotVal n.blk i) }

theorem usedSlots_of_used (b : KvBlk.KvBlk) (s : Sblk) (h3 : s.slots = KvBlk.pairs b) (i : Nat) (hu : (KvBlk.sl b.slots i).len ≠ 0) :
    (((KvBlk.sl b.slots i).off, (KvBlk.sl b.slots i).len), i) ∈ usedSlots s := by
  have hlt := KvNode.used_lt hu
  have e : KvBlk.sl b.slots i = b.slots[i] := by
    simp [KvBlk.sl, List.getD_eq_getElem?_getD, List.getElem?_eq_getElem hlt]
  simp only [usedSlots, List.mem_filter]
  refine ⟨List.mem_zipIdx_iff_getElem?.2 ?_, by simpa using hu⟩
  simp [h3, KvBlk.pairs, List.getElem?_eq_getElem hlt, e]

theorem usedSlots_length (compound : Bool) (n : KvNode.Node) (h : KvNode.Core compound n) (s : Sblk) (h3 : s.slots = KvBlk.pairs n.blk) :
    (usedSlots s).length = n.pnum := by
  have hnd : ((usedSlots s).map (·.2)).Nodup := by
    have hp := (zipIdx_pairwise s.slots 0).filter (fun x => decide (x.1.2 ≠ 0))
    have : ((s.slots.zipIdx.filter fun x => decide (x.1.2 ≠ 0)).map fun x : (Nat × Nat) × Nat => x.2).Pairwise (fun a c => a < c) :=
      List.Pairwise.map (fun x : (Nat × Nat) × Nat => x.2) (fun _ _ hab => hab) hp
    exact this.imp (fun hab => Nat.ne_of_lt hab)
  have hp : ((usedSlots s).map (·.2)).Perm n.pi := by
    apply (List.perm_ext_iff_of_nodup hnd h.nodup).2
    intro i
    rw [h.mem i]
    constructor
    · intro hi
      obtain ⟨x, hx, e⟩ := List.mem_map.1 hi
      rw [← e]; exact (usedSlots_mem n.blk s h3 x hx).2
    · intro hu
      exact List.mem_map.2 ⟨_, usedSlots_of_used n.blk s h3 i hu, rfl⟩
  have := hp.length_eq
  rw [List.length_map] at this
  rw [this, h.pnum]

theorem ekeyOf_wfs (flags : Nat) (st : Bytes) (h : KvNode.WFS (KvApi.isCompound flags) st) :
    ekeyOf flags st = some (KvNode.ekey (KvApi.isCompound flags) st) := by
  generalize hc : KvApi.isCompound flags = c at h
  cases c with
  | false => simp [ekeyOf, hc, KvNode.ekey]
  | true =>
    obtain ⟨w1, w2, _⟩ := h
    have key : ∀ body cc, body ≠ [] → ekeyOf flags (Cmp.stored true body cc) = some (body, cc) := by
      intro body cc hb
      have hl : (Vnum.enc cc).length < (Vnum.enc cc ++ body).length := by
        rw [List.length_append]
        have : 0 < body.length := List.length_pos_iff.2 hb
        omega
      simp [ekeyOf, hc, Cmp.stored, Cmp.dec_stored, hl, hb]
    calc ekeyOf flags st = ekeyOf flags (Cmp.stored true (KvNode.ekey true st).1 (KvNode.ekey true st).2) := by rw [w1]
      _ = some ((KvNode.ekey true st).1, (KvNode.ekey true st).2) := key _ _ w2
      _ = some (KvNode.ekey true st) := rfl

/-- the order clause of the audit on a descending list of well-formed stored keys -/
theorem keyErrs_clean (d : DbImg) (hm : KvApi.modeOf d.flags = .plain) (blk : Nat) :
    ∀ (recs : List (Bytes × Bytes)) (prev : Option Bytes),
      (∀ r ∈ recs, KvNode.WFS (KvApi.isCompound d.flags) r.1) →
      (recs.map (·.1)).Pairwise (KvNode.gtS (KvApi.isCompound d.flags)) →
      (∀ pk, prev = some pk → ∀ r ∈ recs, KvNode.gtS (KvApi.isCompound d.flags) pk r.1) →
      (keyErrs d blk (prev.map (KvNode.ekey (KvApi.isCompound d.flags))) recs).1 = [] := by
  intro recs
  induction recs with
  | nil => intro prev _ _ _; rfl
  | cons r rest ih =>
    intro prev hwf hs hp
    obtain ⟨k, v⟩ := r
    have hk := ekeyOf_wfs d.flags k (hwf (k, v) List.mem_cons_self)
    simp only [List.map_cons, List.pairwise_cons] at hs
    have hrest := ih (some k) (fun r hr => hwf r (List.mem_cons_of_mem _ hr)) hs.2
      (fun pk hpk r hr => by
        simp only [Option.some.injEq] at hpk
        rw [← hpk]; exact hs.1 r.1 (List.mem_map.2 ⟨r, hr, rfl⟩))
    simp only [keyErrs, hk]
    simp only [Option.map_some] at hrest
    rw [hrest, List.append_nil]
    cases prev with
    | none => rfl
    | some pk =>
      have hg := hp pk rfl (k, v) List.mem_cons_self
      have : KvApi.gtE d.flags (KvNode.ekey (KvApi.isCompound d.flags) pk) (KvNode.ekey (KvApi.isCompound d.flags) k) = true := by
        simp only [KvApi.gtE, hm, decide_eq_true_eq]
        exact (KvNode.cmpS_flip _ pk k).1.1 hg
      simp [this]

/-- **From the node writer's invariant to the audit.** The image of a node satisfying `NodeInv` — its record fields as the model
predicts them, its data block the model block — placed in a valid page slot passes the whole node part of the audit `checkDb` runs
(`nodeErrs`): not empty, page slot, slot geometry (`checkSlots`, through `blkinv_checkSlots` of the block writer), cached key = prefix
of the first key, full-key flag, all keys well-formed and strictly descending. With `nodeinv_history`: after every operation of every
one-node history. -/
theorem nodeinv_audit (compound : Bool) (n : KvNode.Node) (h : KvNode.NodeInv compound n) (d : DbImg)
    (hd : KvApi.isCompound d.flags = compound) (hm : KvApi.modeOf d.flags = .plain) (blk kblk bpos : Nat)
    (hb : 1 ≤ bpos ∧ bpos ≤ Gen.SBLK_PAGE_SBLK_NUM_V2) : nodeErrs d none [nodeImg n blk kblk bpos] = [] := by
  subst hd
  have hpi : (nodeImg n blk kblk bpos).pi = n.pi := by
    show (n.pi ++ List.replicate (Gen.KVBLK_IDXNUM - n.pnum) 0).take n.pnum = n.pi
    rw [h.pnum, List.take_left']
    rfl
  have hcs : checkSlots (nodeImg n blk kblk bpos) = none :=
    blkinv_checkSlots n.blk h.blk _ rfl rfl rfl (by rw [hpi]; exact h.nodup) (usedSlots_length _ n h.toCore _ rfl)
  have hne : n.pi ≠ [] := by
    intro e0
    have := h.pnum; have := h.pos
    rw [e0] at *; simp at *; omega
  have hkeys : (nodeImg n blk kblk bpos).recs.map (·.1) = KvNode.keys n := by
    show (n.pi.map fun i => (KvNode.slotKey n.blk i, KvNode.slotVal n.blk i)).map (·.1) = n.pi.map (KvNode.slotKey n.blk)
    rw [List.map_map]; rfl
  have hself : nodeSelfErrs d (nodeImg n blk kblk bpos) = [] := by
    have hpn : ¬ (nodeImg n blk kblk bpos).pnum = 0 := by show ¬ n.pnum = 0; have := h.pos; omega
    have hbp : ¬ ((nodeImg n blk kblk bpos).bpos = 0 ∨ (nodeImg n blk kblk bpos).bpos > Gen.SBLK_PAGE_SBLK_NUM_V2) := by
      show ¬ (bpos = 0 ∨ bpos > Gen.SBLK_PAGE_SBLK_NUM_V2); omega
    obtain ⟨c1, c2, c3⟩ := h.cache _ (KvNode.head?_keys n hne)
    have hhead : (nodeImg n blk kblk bpos).recs.head? = some (KvNode.keyAt n 0, KvNode.slotVal n.blk (KvNode.piAt n 0)) := by
      show (n.pi.map fun i => (KvNode.slotKey n.blk i, KvNode.slotVal n.blk i)).head? = _
      cases hq : n.pi with
      | nil => exact absurd hq hne
      | cons x xs => simp [KvNode.keyAt, KvNode.piAt, hq]
    have hlk : (nodeImg n blk kblk bpos).lk = (KvNode.keyAt n 0).take Gen.PREFIX_KEY_LEN_V2 := c2
    have hfl : ((nodeImg n blk kblk bpos).flags % 2 = 1) = ((KvNode.keyAt n 0).length ≤ Gen.PREFIX_KEY_LEN_V2) := by
      apply propext
      show KvNode.flagsByte n % 2 = 1 ↔ _
      rw [← c3]
      cases hq : n.full <;> simp [KvNode.flagsByte, Gen.SBLK_FULL_LKEY, hq]
    simp only [nodeSelfErrs, hpn, hbp, hcs, hhead, if_false, List.append_nil, List.nil_append]
    simp [hlk, hfl]
  have hord := keyErrs_clean d hm blk (nodeImg n blk kblk bpos).recs none
    (fun r hr => h.wf r.1 (by rw [← hkeys]; exact List.mem_map.2 ⟨r, hr, rfl⟩))
    (by rw [hkeys]; exact h.sorted) (fun pk hpk => absurd hpk (by simp))
  simp only [Option.map_none] at hord
  simp only [nodeErrs, hself, List.nil_append, List.append_nil]
  exact hord

/-- **After every one-node history the node in the file image passes the node part of the audit** (the model node of
`nodeinv_history`, compared field by field with the real file after every operation by `drv kvnode`). -/
theorem history_node_audit (compound : Bool) (ops : List KvNode.Op) (hops : ∀ op ∈ ops, op.ok) (n : KvNode.Node)
    (hn : KvNode.run compound none ops = some n) (d : DbImg) (hd : KvApi.isCompound d.flags = compound)
    (hm : KvApi.modeOf d.flags = .plain) (blk kblk bpos : Nat) (hb : 1 ≤ bpos ∧ bpos ≤ Gen.SBLK_PAGE_SBLK_NUM_V2) :
    nodeErrs d none [nodeImg n blk kblk bpos] = [] :=
  nodeinv_audit compound n (nodeinv_history compound ops hops n hn) d hd hm blk kblk bpos hb

/-- non-vacuity: a concrete one-node history on the model (plain keys). Three puts (the second in front of the first key, the third in
the middle), overwrite of the first key, delete of the first key: slot order, `pnum`, `lkl`, cached bytes, flag and key order as the C
code leaves them. -/
example : (KvNode.run false none [.put [5] 0 [1], .put [9] 0 [2], .put [7] 0 [3], .cset [9] 0 [4, 4], .del [9] 0]).map
      (fun n => (n.pi, n.pnum, n.lkl, KvNode.lkLive n, n.full)) = some ([2, 0], 2, 1, [7], true) ∧
    (KvNode.run false none [.put [5] 0 [1], .put [9] 0 [2], .put [7] 0 [3], .cset [9] 0 [4, 4], .del [9] 0]).map KvNode.keys =
      some [[7], [5]] := by decide

set_option maxRecDepth 100000 in
/-- non-vacuity, the case of seeded change S4-C19: the first key (short) goes and the next key is longer than the cache (120 bytes):
`lkl` becomes 115 and `SBLK_FULL_LKEY` is cleared. -/
example : (KvNode.run false none [.put (List.replicate 120 5) 0 [1], .put [9] 0 [2], .del [9] 0]).map
      (fun n => (n.pi, n.pnum, n.lkl, n.full, (KvNode.lkLive n).length)) = some ([0], 1, 115, false, 115) := by decide

/-- non-vacuity: the preconditions of `nodeinv_history` hold for a history with compound keys (same body, different compound parts) -/
example : KvNode.DbInv true (KvNode.run true none [.put [5] 300 [1], .put [5] 200 [2], .del [5] 300]) :=
  nodeinv_history true _ (by
    intro op hop
    simp only [List.mem_cons, List.not_mem_nil, or_false] at hop
    rcases hop with e | e | e <;> subst e <;> simp [KvNode.Op.ok])

/-! ### the node clause by induction, any number of nodes: the chain writer `IwModel.KvChain` (split of a full node, removal of an
emptied node) -/

/-- the empty chain satisfies the chain invariant -/
theorem chaininv_empty (compound : Bool) : KvChain.ChainInv compound [] := KvChain.chainInv_nil compound

/-- **`_lx_split_addkv` (middle branch) keeps the node invariant on BOTH halves**: a full node satisfying `NodeInv`, a new key that
`_sblk_find_pi_mm` places at position `idx` inside it — after the records `pi[17..32)` were moved into a new node (`_sblk_addkv2` with
raw keys, block sized by `sz`, no sync in between), their slots reset (`zidx = pi[17]`, `maxoff` recomputed, `pnum` reduced) and the new
record added to the upper (`idx > 17`) or lower half, both nodes satisfy `NodeInv` (sorted, duplicate-free slot order = used slots,
cache of the FIRST key of each half incl. `SBLK_FULL_LKEY`, block geometry incl. room for the index), they hold only keys of the old
node and the new key, and every key of the lower half sorts before every key of the new node. -/
theorem split_keeps_nodeinv (compound : Bool) (n : KvNode.Node) (h : KvNode.NodeInv compound n) (hfull : n.pnum = Gen.KVBLK_IDXNUM)
    (idx : Nat) (k : Bytes) (c : Nat) (hk : k ≠ []) (hc : c < 2 ^ 63) (val : Bytes)
    (hf : KvNode.Found (fun i => KvNode.cmpOf compound k c (KvNode.keyAt n i)) n.pnum (false, idx)) (o nb : KvNode.Node)
    (e : KvChain.splitMid n idx (KvNode.cmpOf compound k c) (KvNode.preOf compound c) k val = some (o, nb)) :
    KvNode.NodeInv compound o ∧ KvNode.NodeInv compound nb ∧
    (∀ x ∈ KvNode.keys o, x ∈ KvNode.keys n ∨ x = KvChain.skOf compound k c) ∧
    (∀ x ∈ KvNode.keys nb, x ∈ KvNode.keys n ∨ x = KvChain.skOf compound k c) ∧
    (∀ x ∈ KvNode.keys o, ∀ y ∈ KvNode.keys nb, KvNode.gtS compound x y) :=
  KvChain.splitMid_spec h hfull idx k c hk hc val hf o nb e

/-- **`iwkv_put` keeps the chain invariant**, whatever branch of `_lx_addkv` / `_lx_split_addkv` it takes: overwrite, add to the node
found, add to its upper neighbour, a new node in front of / behind a full node, split of a full node at any position. -/
theorem chaininv_put (compound : Bool) (ch : KvChain.Chain) (h : KvChain.ChainInv compound ch) (k : Bytes) (c : Nat) (val : Bytes)
    (hk : k ≠ []) (hc : c < 2 ^ 63) (ch' : KvChain.Chain) (e : KvChain.put compound ch k c val = .ok ch') :
    KvChain.ChainInv compound ch' := KvChain.chainInv_put h k c val hk hc ch' e

/-- **`iwkv_del` keeps the chain invariant**, including the delete of the last record of a node at the head, in the middle or at the
tail of the chain (`_lx_del_sblk_lw`: the node leaves the chain). -/
theorem chaininv_del (compound : Bool) (ch : KvChain.Chain) (h : KvChain.ChainInv compound ch) (k : Bytes) (c : Nat)
    (ch' : KvChain.Chain) (e : KvChain.del compound ch k c = some ch') : KvChain.ChainInv compound ch' :=
  KvChain.chainInv_del h k c ch' e

/-- **Every history keeps the chain invariant**: any sequence of puts, deletes, cursor sets and cursor deletes (by key), any number of
keys, from the empty database. -/
theorem chaininv_history (compound : Bool) (ops : List KvNode.Op) (hops : ∀ op ∈ ops, op.ok) :
    KvChain.ChainInv compound (KvChain.run compound [] ops) := KvChain.chainInv_run (KvChain.chainInv_nil compound) ops hops

/-- **(1) After every history every node of the chain satisfies the single-node invariant `NodeInv`** (hence everything
`nodeinv_spec` says about it). -/
theorem chain_history_nodeinv (compound : Bool) (ops : List KvNode.Op) (hops : ∀ op ∈ ops, op.ok) :
    ∀ n ∈ KvChain.run compound [] ops, KvNode.NodeInv compound n := (chaininv_history compound ops hops).nodes

/-- **(2) Chain order.** After every history: no node is empty, no node holds more than `KVBLK_IDXNUM` records, for nodes `a` before `b`
in the chain every key of `a` sorts before every key of `b` (descending key order across nodes), and the keys of all nodes in chain
order form one strictly sorted, hence duplicate-free, sequence. -/
theorem chain_history_order (compound : Bool) (ops : List KvNode.Op) (hops : ∀ op ∈ ops, op.ok) :
    (∀ n ∈ KvChain.run compound [] ops, 0 < n.pnum ∧ n.pnum ≤ Gen.KVBLK_IDXNUM ∧ n.pnum = (KvNode.keys n).length) ∧
    (KvChain.run compound [] ops).Pairwise (fun a b => ∀ x ∈ KvNode.keys a, ∀ y ∈ KvNode.keys b, KvNode.gtS compound x y) ∧
    ((KvChain.run compound [] ops).flatMap KvNode.keys).Pairwise (KvNode.gtS compound) := by
  have h := chaininv_history compound ops hops
  refine ⟨fun n hn => ⟨(h.nodes n hn).pos, (h.nodes n hn).le32, by rw [(h.nodes n hn).pnum]; simp [KvNode.keys]⟩, h.order, ?_⟩
  rw [List.pairwise_flatMap]
  exact ⟨fun n hn => (h.nodes n hn).sorted, h.order⟩

/-- **(4) After every history every node of the chain passes the node part of the audit**: the image of each model node (fields as the
model has them, its block the model block) in a valid page slot has no `nodeErrs` complaint — not empty, page slot, slot geometry,
cached key = prefix of the first key, full-key flag, keys well-formed and descending (`nodeinv_audit` on each node of the chain; the
model chain is compared node by node with the real file after every operation by `drv kvchain`). -/
theorem chain_history_audit (compound : Bool) (ops : List KvNode.Op) (hops : ∀ op ∈ ops, op.ok) (d : DbImg)
    (hd : KvApi.isCompound d.flags = compound) (hm : KvApi.modeOf d.flags = .plain) :
    ∀ n ∈ KvChain.run compound [] ops, ∀ blk kblk bpos, 1 ≤ bpos ∧ bpos ≤ Gen.SBLK_PAGE_SBLK_NUM_V2 →
      nodeErrs d none [nodeImg n blk kblk bpos] = [] :=
  fun n hn blk kblk bpos hb => nodeinv_audit compound n (chain_history_nodeinv compound ops hops n hn) d hd hm blk kblk bpos hb

/-- the pivot of the split and the side conditions the split lemmas use are those of the generated constants -/
example : KvChain.pivot = 17 ∧ Gen.KVBLK_IDXNUM = 32 ∧ Gen.KVBLK_MAX_NKV_SZ = Gen.KVBLK_HDRSZ + Gen.KVBLK_MAX_IDX_SZ ∧
    Gen.KVBLK_MAX_IDX_SZ = 13 * Gen.KVBLK_IDXNUM ∧ Gen.IWKV_MAX_KVSZ < 2 ^ 28 := by decide

/-- non-vacuity: the preconditions of `chaininv_history` hold for any history of puts with non-empty keys -/
example (ks : List Bytes) (hks : ∀ k ∈ ks, k ≠ []) :
    KvChain.ChainInv false (KvChain.run false [] (ks.map fun k => KvNode.Op.put k 0 [1])) :=
  chaininv_history false _ (by
    intro op hop
    obtain ⟨k, hk, e⟩ := List.mem_map.1 hop
    subst e
    exact ⟨hks k hk, by decide⟩)

set_option maxRecDepth 1000000 in
/-- non-vacuity: a concrete history on the chain model. 33 ascending keys: every key goes in front of the first key until the node is full,
the 33rd makes a new node in front of it (`uside` of the database block); key 20 then falls at position 22 of the full node: middle split,
the records 17..31 move into a new node (slots 0..14 in order), the new record joins them; `pnum`, slot order and cached first keys of the
three nodes as the C code leaves them. -/
example : (KvChain.run false [] (((List.range 33).map fun i => KvNode.Op.put [i * 2 + 1] 0 [i]) ++ [KvNode.Op.put [20] 0 [7]])).map
    (fun n => (n.pnum, n.pi.take 3, n.lkl, KvNode.lkLive n)) =
    [(1, [0], 1, [65]), (17, [31, 30, 29], 1, [63]), (16, [0, 1, 2], 1, [29])] := by decide

end IwModel.C06
