import IwModel.Model.Format
/-! # C06 — on-disk structure well-formed, every block accounted for (theorems follow) -/
namespace IwModel.C06
end IwModel.C06
