import IwModel.Lemmas.JsonPatchExt
import IwModel.Lemmas.BinnPatch
/-! # C15 — JSON Patch gives the RFC 6902 result and a failed patch changes nothing

`Patch.*` is the model of `src/json/iwjson.c` with the `fix:` commits of design_notes/C15.md (tied to the code by
`./vcheck C15`); `Rfc.step` / `Rfc.run` are RFC 6902 sections 3–4 over plain JSON values (`Model/JsonRfc.lean`).
`erase` forgets the cached array indexes of a tree, `WF` says every cached index equals the element's position. -/
namespace IwModel.C15
open IwModel IwModel.Patch

/-! ## The invariant the look-ups rely on -/

/-- Trees produced by the parsers / `jbn_add_item` are well-formed. -/
theorem parsed_wf (v : JVal) : WF (ofJ v) := wf_ofJ v

/-- **klidx invariant, one operation.** Whatever a single operation does — any of the nine kinds (the six of RFC 6902,
    `increment`, `add_create`, `swap`), applicable or not, failing half-way or not — afterwards every array child's
    cached index again equals its position. (The code before fix 5966b62 did not have this property; `_jbl_node_find`
    looks elements up by the cached index.) -/
theorem klidx_inv (t : Node) (o : POp) (h : WF t) (hv : ∀ v, o.value = some v → WF v) : WF (applyOp t o).1 :=
  wf_applyOp t o h hv

/-- … hence after every prefix of every operation sequence, whether or not the sequence fails somewhere -/
theorem klidx_inv_run (t : Node) (ops : List POp) (h : WF t) (hv : ∀ o ∈ ops, ∀ v, o.value = some v → WF v) :
    WF (runOps t ops).1 := wf_runOps t ops h hv

/-- … and for the tree entry points `jbn_patch` / `jbn_patch_auto` on *any* patch document, malformed ones included -/
theorem klidx_inv_patch (root patch : Node) (h : WF root) (hp : WF patch) : WF (patchTree root patch).1 :=
  wf_patchTree root patch h hp

/-- the `kl=` flag compared by the correspondence check is exactly this invariant -/
theorem klidx_check (n : Node) : klOk n = true ↔ WF n := klOk_iff n

/-! ## Agreement with RFC 6902 -/

/-- **RFC result.** For every well-formed tree whose objects have distinct member names and every sequence of add /
    remove / replace / move / copy / **test** operations — any length, any nesting, several operations on the same
    array, `-`, paths created by earlier operations, from/path overlapping, root operations — if RFC 6902 defines the
    sequence as applicable with result `d'`, then `_jbl_patch_node` succeeds and the patched tree denotes exactly `d'`
    (member order included), is well-formed and has distinct member names again.
    `_partial`: the pointer `/` is excluded (open finding C15-slash-root) and index tokens must be read alike by code and
    RFC (`idx_agree_small`: true for every token of at most nine bytes; longer ones the code rejects). -/
theorem apply_rfc_partial (t : Node) (ops : List Rfc.Op) (d' : JVal) (h : WF t) (hu : UK t)
    (hok : ∀ o ∈ ops, OpOk o ∧ opValueUK o) (hr : Rfc.run (erase t) ops = some d') :
    ∃ t', runOps t (ops.map toPOp) = (t', .ok) ∧ erase t' = d' ∧ WF t' ∧ UK t' :=
  runOps_of_run_full t ops d' h hu hok hr

/-- the same for the five structural operations alone, without any assumption on member names (duplicates allowed:
    code and RFC text both act on the first member with a name) -/
theorem apply_rfc_structural_partial (t : Node) (ops : List Rfc.Op) (d' : JVal) (h : WF t)
    (hok : ∀ o ∈ ops, OpOk o ∧ isTest o = false) (hr : Rfc.run (erase t) ops = some d') :
    ∃ t', runOps t (ops.map toPOp) = (t', .ok) ∧ erase t' = d' ∧ WF t' :=
  runOps_of_run t ops d' h hok hr

/-- **`test`.** `_jbl_compare_nodes` sorts the members of both objects by (key length, key bytes) and compares them
    pairwise; on documents with distinct member names that is exactly JSON equality of RFC 6902 4.6 (member order
    irrelevant, arrays position by position) — so a `test` succeeds iff the RFC says it does. -/
theorem test_equality (a b : Node) (ha : UK a) (hb : UK b) : nodeEq a b = Rfc.jsonEq (erase a) (erase b) :=
  nodeEq_eq a b ha hb

/-- documents from the parsers satisfy the member-name hypothesis when their JSON value does -/
theorem parsed_uk (v : JVal) (h : UKJ v) : UK (ofJ v) := uk_ofJ v h

/-- the side condition on index tokens is no restriction in practice -/
theorem idx_agree_small (seg : Bytes) (h : seg.length ≤ 9) : IdxAgree seg := idxAgree_small seg h

/-- **Binary form.** `_jbl_patch` decodes the document, patches the tree and re-encodes: for a document `doc` and an
    applicable sequence whose RFC result `d'` is an object or array (the only documents the binary form holds), the
    holder ends up with exactly `d'` and the call reports success. -/
theorem binary_rfc_partial (doc : JVal) (ops : List Rfc.Op) (d' : JVal) (hu : UKJ doc)
    (hok : ∀ o ∈ ops, OpOk o ∧ opValueUK o) (hr : Rfc.run doc ops = some d') (hc : isContainer d' = true) :
    finishBinary doc (runOps (ofJ doc) (ops.map toPOp)) = (some d', .ok) := by
  obtain ⟨t', h1, h2, _⟩ := runOps_of_run_full (ofJ doc) ops d' (wf_ofJ doc) (uk_ofJ doc hu) hok
    (by rw [erase_ofJ]; exact hr)
  rw [h1, finishBinary_ok doc t' (by rw [h2]; exact hc), h2]

/-! ## A failed patch changes nothing (binary form) -/

/-- **Atomicity.** Whatever the patch document is — well-formed or not, applicable or not — if `jbl_patch` /
    `jbl_patch_from_json` report an error, the binary document is exactly what it was (the tree is patched on a decoded
    copy and swapped in only at the end). -/
theorem binn_atomic (doc : JVal) (patch : Node) :
    ((patchBinary doc patch).2 ≠ .ok → (patchBinary doc patch).1 = some doc) ∧
    ((patchFromJson doc patch).2 ≠ .ok → (patchFromJson doc patch).1 = some doc) := by
  have key : (patchBinary doc patch).2 ≠ .ok → (patchBinary doc patch).1 = some doc := by
    intro h
    simp only [patchBinary] at h ⊢
    split
    · rfl
    · rename_i ops hd
      simp only [hd, applyBinary] at h ⊢
      split
      · rfl
      · rename_i hne
        simp only [hne, Bool.false_eq_true, ↓reduceIte, finishBinary_snd] at h
        rw [finishBinary_err doc _ h]
  refine ⟨key, ?_⟩
  intro h
  cases patch <;> first | rfl | (simp only [patchFromJson] at h ⊢; exact key h)

/-- … and an error of the tree patch is the error the binary call reports (nothing is swallowed) -/
theorem binary_error_reported (doc : JVal) (ops : List RawOp) (hne : ops.isEmpty = false) :
    (applyBinary doc ops).2 = (patchNode (ofJ doc) ops).2 := by
  simp [applyBinary, hne, finishBinary_snd]

/-! ## What RFC 6902 rejects is reported as an error -/

/-- **Failing patches fail.** For every well-formed tree with distinct member names and every sequence of the six RFC
    operations: if RFC 6902 rejects the sequence — a `test` that does not hold, a remove / replace / test / from
    location that does not exist, an index past the end, a parent that is missing or not a container, a move into an
    own child — at whatever position in the sequence, then `_jbl_patch_node` reports an error.
    `_partial`: besides the side conditions of `apply_rfc_partial`, the token `-` may only stand where RFC 6901 lets
    it denote something, i.e. last in the path of add / move / copy (elsewhere the code takes it as the last element:
    open finding C15-dash-last), and no operation removes the whole document (RFC 6902 leaves the result open). -/
theorem apply_rfc_err_partial (t : Node) (ops : List Rfc.Op) (h : WF t) (hu : UK t)
    (hok : ∀ o ∈ ops, OpOk o ∧ opValueUK o ∧ OpStrict o) (hr : Rfc.run (erase t) ops = none) :
    (runOps t (ops.map toPOp)).2 ≠ .ok :=
  runOps_err_of_run t ops h hu hok hr

/-- … and through the binary entry point the document then is exactly what it was, with that error reported
    (property C15, second sentence) -/
theorem binary_err_partial (doc : JVal) (ops : List Rfc.Op) (hu : UKJ doc)
    (hok : ∀ o ∈ ops, OpOk o ∧ opValueUK o ∧ OpStrict o) (hr : Rfc.run doc ops = none) :
    (finishBinary doc (runOps (ofJ doc) (ops.map toPOp))).1 = some doc ∧
    (finishBinary doc (runOps (ofJ doc) (ops.map toPOp))).2 ≠ .ok := by
  have := runOps_err_of_run (ofJ doc) ops (wf_ofJ doc) (uk_ofJ doc hu) hok (by rw [erase_ofJ]; exact hr)
  rw [finishBinary_err doc _ this]
  exact ⟨rfl, this⟩

/-! ## From the patch *document* to the operations (`_jbl_create_patch`, `_jbl_ptr_pool`) -/

/-- `_jbl_ptr_pool` reads RFC 6901 pointer texts: the text of a pointer (`/`-prefixed tokens, `~` → `~0`, `/` → `~1`)
    is parsed back to its tokens; the one exception is a text ending in `/` after another token (rejected by the code;
    pointer syntax is property C14's domain) -/
theorem pointer_text_roundtrip (p : Ptr) (h : PtrOk p) : parsePtr (ptrText p) = .ok p := parsePtr_ptrText p h

/-- `_jbl_create_patch` + the pointer loop of `_jbl_patch_node` decode the RFC 6902 patch document (array of
    `{"op":…,"path":…[,"from":…][,"value":…]}` objects) to exactly the operations the theorems above speak about, so
    `jbn_patch_auto` on the document is the operation loop on them. -/
theorem patch_document_decoded (t : Node) (ops : List Rfc.Op) (hp : ∀ o ∈ ops, PtrOk (opPath o) ∧ PtrOk (opFrom o)) :
    patchTree t (renderPatch ops) = runOps t (ops.map toPOp) := patchTree_render t ops hp

/-- **End to end, binary form** (`jbl_patch_from_json` on the patch document): RFC 6902 accepts with a container result
    ⇒ the holder ends up with exactly that result and success is reported; RFC 6902 rejects ⇒ an error is reported
    and the holder is exactly what it was. -/
theorem jbl_patch_rfc_partial (doc : JVal) (ops : List Rfc.Op) (hne : ops ≠ []) (hu : UKJ doc)
    (hok : ∀ o ∈ ops, OpOk o ∧ opValueUK o) (hp : ∀ o ∈ ops, PtrOk (opPath o) ∧ PtrOk (opFrom o)) :
    (∀ d', Rfc.run doc ops = some d' → isContainer d' = true → patchBinary doc (renderPatch ops) = (some d', .ok)) ∧
    (Rfc.run doc ops = none → (∀ o ∈ ops, OpStrict o) →
      (patchBinary doc (renderPatch ops)).1 = some doc ∧ (patchBinary doc (renderPatch ops)).2 ≠ .ok) := by
  rw [patchBinary_render doc ops hne hp]
  constructor
  · intro d' hr hc; exact binary_rfc_partial doc ops d' hu hok hr hc
  · intro hr hst
    exact binary_err_partial doc ops hu (fun o ho => ⟨(hok o ho).1, (hok o ho).2, hst o ho⟩) hr

/-! ## The binary entry points on the binn BYTES: decode – patch – encode – swap

`BinnPatch.jblPatch` / `jblPatchFromJson` are `jbl_patch` / `jbl_patch_from_json` as literal compositions of the C14
reader (`Binn.toNode` = `_jbl_node_from_binn`), the tree patch above and the C14 writer (`Binn.fromNode` =
`_jbl_from_node_impl` + `binn_save_header`), on holders `Binn.BVal` (`.cont bytes`).  `Holds h v`: the bytes of `h` decode
to `v` and `v` satisfies the decidable `Binn.wf` of the C14 round-trip theorems.  Hypotheses on results, and why:
`leafOk` (integers are int64, strings/keys are NUL free: what C's types give anyway — derived from the inputs in
`jbl_bytes_rfc_partial`), `small` (encoding < 2^31 − 9 bytes: binn size fields are 31 bits).  "Keys ≤ 255 bytes and
unique ignoring ASCII case" is *not* a hypothesis: it is the case split `wf d'` — when it fails the writer refuses and
the bytes stay. -/
section Bytes
open IwModel.Binn IwModel.BinnPatch

/-- every well-formed document (object or array, `small`) has bytes — the writer's — over which `jbl_from_buf_keep`
    builds a holder that `Holds` it: the hypothesis `Holds h v` of the theorems below is met by every such document -/
theorem bytes_holder (v : JVal) (hw : wf v = true) (hs : small v) (hc : isContainer v = true) :
    ∃ bs, enc v = some bs ∧ ofBuf bs = some (.cont bs) ∧ Holds (.cont bs) v := by
  obtain ⟨bs, he⟩ := enc_isSome v hw
  refine ⟨bs, he, ofBuf_enc v bs hc he (hs bs he), ?_⟩
  have hv : viewOf v = .cont bs := by
    cases v <;> first | (simp [isContainer] at hc; done) | simp [viewOf, he]
  rw [← hv]
  exact holds_view v hw hs

/-- **(b) a failed call leaves the bytes as they were** — for every holder whatsoever (well-formed or not, decodable
    or not) and every patch document whatsoever: any error of `jbl_patch` / `jbl_patch_from_json` (bad patch, bad
    pointer, failed operation, undecodable holder, result the binary form cannot hold) ⇒ the holder is unchanged. -/
theorem jbl_bytes_atomic (h : BVal) (patch : Node) :
    ((jblPatch h patch).2 ≠ .ok → (jblPatch h patch).1 = h) ∧
    ((jblPatchFromJson h patch).2 ≠ .ok → (jblPatchFromJson h patch).1 = h) :=
  ⟨jblPatch_atomic h patch, jblPatchFromJson_atomic h patch⟩

/-- **composition.** On a holder whose bytes decode to `v`, the byte-level call returns what the value-level model
    `patchBinary v` (the subject of the theorems above) returns, passed through the writer: a result document is
    encoded (`swapIn`: refused with `JBL_ERROR_CREATION` if it does not fit), a removed root zeroes the holder, an
    error keeps the holder.  The one exception is the call with no operations, which returns before decoding. -/
theorem jbl_bytes_compose (h : BVal) (v : JVal) (patch : Node) (hd : decodeHolder h = some v) :
    jblPatch h patch = wrapRes h (patchBinary v patch) ∨
    (jblPatch h patch = (h, .ok) ∧ patchBinary v patch = (some v, .ok)) :=
  jblPatch_eq h v patch hd

/-- **(a) + (c) against the value-level model**, for every holder of a well-formed document and every patch document:
    if the value-level call succeeds with `d'`, then — when the binary form can hold `d'` — the byte-level call
    succeeds and the new bytes decode to exactly `d'` and are well-formed again (`Holds h' d'`); when it cannot
    (`wf d' = false`: a key over 255 bytes or two keys equal ignoring case) the call reports `JBL_ERROR_CREATION` and the
    bytes are unchanged.  If the value-level call fails with `e`, the byte-level call fails with `e`, bytes unchanged. -/
theorem jbl_bytes_patch (h : BVal) (v : JVal) (patch : Node) (hh : Holds h v) :
    (∀ d', patchBinary v patch = (some d', .ok) → leafOk d' = true →
      (wf d' = true → small d' → ∃ h', jblPatch h patch = (h', .ok) ∧ Holds h' d') ∧
      (wf d' = false → jblPatch h patch = (h, .creation))) ∧
    ((patchBinary v patch).2 ≠ .ok → jblPatch h patch = (h, (patchBinary v patch).2)) :=
  ⟨fun d' hr hl => jblPatch_ok h v patch d' hh hr hl, jblPatch_err h v patch hh.1⟩

/-- the RFC 6902 result of `leafOk` inputs is `leafOk`: nothing but the document, the values of the operations and the
    tokens of the paths (as new member names) ever gets into the result -/
theorem rfc_result_leafOk (doc : JVal) (ops : List Rfc.Op) (d' : JVal) (hd : leafOk doc = true)
    (ho : ∀ o ∈ ops, OpLeaf o) (h : Rfc.run doc ops = some d') : leafOk d' = true :=
  run_leafOk doc ops d' hd ho h

/-- **End to end on the bytes** (`jbl_patch_from_json` / `jbl_patch` with the RFC 6902 patch document `renderPatch ops`),
    for every holder `h` of a well-formed document `v` and every non-empty program of the six RFC operations:
    * (a) RFC 6902 accepts with a document `d'` the binary form can hold ⇒ the call succeeds and
      `decode(new bytes) = d'` = the RFC result applied to `decode(old bytes)`; (c) the new bytes are well-formed again;
    * RFC 6902 accepts but `d'` cannot be held (key > 255 bytes / keys equal ignoring case) ⇒ `JBL_ERROR_CREATION`, bytes
      unchanged;
    * (b) RFC 6902 rejects ⇒ an error is reported, bytes unchanged.
    Hypotheses: those of `jbl_patch_rfc_partial` (`_partial`: the two open dialect findings), `OpLeaf` (path tokens NUL
    free, values `leafOk`), the result is an object or array and `small`. -/
theorem jbl_bytes_rfc_partial (h : BVal) (v : JVal) (ops : List Rfc.Op) (hh : Holds h v) (hne : ops ≠ [])
    (hok : ∀ o ∈ ops, OpOk o ∧ opValueUK o) (hp : ∀ o ∈ ops, PtrOk (opPath o) ∧ PtrOk (opFrom o))
    (hleaf : ∀ o ∈ ops, OpLeaf o) :
    (∀ d', Rfc.run v ops = some d' → isContainer d' = true →
      (wf d' = true → small d' → ∃ h', jblPatch h (renderPatch ops) = (h', .ok) ∧ Holds h' d') ∧
      (wf d' = false → jblPatch h (renderPatch ops) = (h, .creation))) ∧
    (Rfc.run v ops = none → (∀ o ∈ ops, OpStrict o) →
      (jblPatch h (renderPatch ops)).1 = h ∧ (jblPatch h (renderPatch ops)).2 ≠ .ok) := by
  obtain ⟨h1, h2⟩ := jbl_patch_rfc_partial v ops hne (ukj_of_wf v hh.2) hok hp
  constructor
  · intro d' hr hc
    exact jblPatch_ok h v (renderPatch ops) d' hh (h1 d' hr hc)
      (run_leafOk v ops d' (leafOk_of_wf v hh.2) hleaf hr)
  · intro hr hst
    obtain ⟨_, he⟩ := h2 hr hst
    rw [jblPatch_err h v (renderPatch ops) hh.1 he]
    exact ⟨rfl, he⟩

/-- `jbl_patch_from_json` on an RFC 6902 patch document (a JSON array) is `jbl_patch` on it, so
    `jbl_bytes_rfc_partial` speaks about both entry points -/
theorem jbl_bytes_from_json (h : BVal) (ops : List Rfc.Op) :
    jblPatchFromJson h (renderPatch ops) = jblPatch h (renderPatch ops) := rfl

/-- **Iteration over a list of patch documents** applied to the same holder one after the other (a failed call changes
    nothing, the caller goes on): with `SeqOk` (every program satisfies the hypotheses of `jbl_bytes_rfc_partial` and
    `OpStrict`; every RFC result is an object/array and `small`), the final bytes decode to the fold of RFC 6902 over the
    list (`rfcSeq`: rejected programs and results the binary form cannot hold are skipped), are well-formed, and the
    calls that report success are exactly those the specification accepts. -/
theorem jbl_bytes_rfc_seq_partial (progs : List (List Rfc.Op)) : ∀ (h : BVal) (v : JVal), Holds h v → SeqOk v progs →
    Holds (patchSeq h (progs.map renderPatch)).1 (rfcSeq v progs) ∧
    (patchSeq h (progs.map renderPatch)).2.map (· == .ok) = rfcSeqAcc v progs := by
  induction progs with
  | nil => intro h v hh _; exact ⟨hh, rfl⟩
  | cons p r ih =>
    intro h v hh hs
    obtain ⟨hp, hm⟩ := hs
    obtain ⟨h1, h2⟩ := jbl_bytes_rfc_partial h v p hh hp.nonempty hp.ok hp.ptr hp.leaf
    simp only [List.map_cons, patchSeq, rfcSeq, rfcSeqAcc]
    cases hrun : Rfc.run v p with
    | none =>
      simp only [hrun] at hm ⊢
      obtain ⟨e1, e2⟩ := h2 hrun hp.strict
      rw [e1]
      obtain ⟨i1, i2⟩ := ih h v hh hm
      refine ⟨i1, ?_⟩
      simp only [i2, List.cons.injEq, and_true]
      cases he : (jblPatch h (renderPatch p)).2 <;> first | exact absurd he e2 | rfl
    | some d' =>
      simp only [hrun] at hm ⊢
      obtain ⟨hc, hsm, hrest⟩ := hm
      obtain ⟨a1, a2⟩ := h1 d' hrun hc
      by_cases hw : wf d' = true
      · obtain ⟨h', e, hh'⟩ := a1 hw hsm
        simp only [hw, ↓reduceIte] at hrest ⊢
        rw [e]
        obtain ⟨i1, i2⟩ := ih h' d' hh' hrest
        exact ⟨i1, by simp only [i2]; rfl⟩
      · simp only [Bool.not_eq_true] at hw
        simp only [hw, Bool.false_eq_true, ↓reduceIte] at hrest ⊢
        rw [a2 hw]
        obtain ⟨i1, i2⟩ := ih h v hh hrest
        exact ⟨i1, by simp only [i2]; rfl⟩

/-- the hypotheses are satisfiable — document `{"a":-5,"b":["hi",null]}` in its binary form (18 bytes), program
    `[test /a -5, add /c 3]`: the call succeeds and the new bytes decode to `{"a":-5,"b":["hi",null],"c":3}` -/
def bytesB : Bytes := [226, 18, 2, 1, 97, 33, 251, 1, 98, 224, 9, 2, 160, 2, 104, 105, 0, 0]
def docBB : JVal := .obj [([97], .int (-5)), ([98], .arr [.str [104, 105], .null])]
def progBB : List Rfc.Op := [.test [[97]] (.int (-5)), .add [[99]] (.int 3)]

theorem holds_bytesB : Holds (.cont bytesB) docBB := ⟨by rfl, by decide⟩

theorem progBB_ok : ProgOk progBB where
  nonempty := by simp [progBB]
  ok := by
    intro o ho
    simp only [progBB, List.mem_cons, List.not_mem_nil, or_false] at ho
    rcases ho with rfl | rfl <;>
      exact ⟨⟨fun s hs => idxAgree_small s (by simp [opPath] at hs; subst hs; decide),
              fun s hs => by simp [opFrom] at hs, by simp [opPath]⟩, UKJ.int _⟩
  ptr := by
    intro o ho
    simp only [progBB, List.mem_cons, List.not_mem_nil, or_false] at ho
    rcases ho with rfl | rfl <;> simp [PtrOk, opPath, opFrom]
  leaf := by
    intro o ho
    simp only [progBB, List.mem_cons, List.not_mem_nil, or_false] at ho
    rcases ho with rfl | rfl <;> simp [OpLeaf, opPath, opFrom, leafOk]
  strict := by
    intro o ho
    simp only [progBB, List.mem_cons, List.not_mem_nil, or_false] at ho
    rcases ho with rfl | rfl
    · exact ⟨by simp [opFrom], by simp [opPath], by intro _; simp [opPath, dash], rfl⟩
    · exact ⟨by simp [opFrom], by simp [opPath], by simp, rfl⟩

example : ∃ h', jblPatch (.cont bytesB) (renderPatch progBB) = (h', .ok) ∧
    Holds h' (.obj [([97], .int (-5)), ([98], .arr [.str [104, 105], .null]), ([99], .int 3)]) := by
  have hrun : Rfc.run docBB progBB = some (.obj [([97], .int (-5)), ([98], .arr [.str [104, 105], .null]), ([99], .int 3)]) := by
    simp [Rfc.run, Rfc.step, docBB, progBB, Rfc.getAt, Rfc.jsonEq, Rfc.jsonEqF, Rfc.add, Rfc.updAt,
      Rfc.addChild, Rfc.put, List.lookup]
  have h1 := (jbl_bytes_rfc_partial (.cont bytesB) docBB progBB holds_bytesB progBB_ok.nonempty progBB_ok.ok
    progBB_ok.ptr progBB_ok.leaf).1 _ hrun rfl
  exact h1.1 (by decide) (small_of_enc _ [226, 22, 3, 1, 97, 33, 251, 1, 98, 224, 9, 2, 160, 2, 104, 105, 0, 0, 1, 99, 32, 3]
    (by decide) (by decide))

/-- … and a result the binary form cannot hold: adding the member `A` next to `a` is accepted by RFC 6902 but the
    writer refuses keys that are equal ignoring ASCII case — `JBL_ERROR_CREATION`, bytes unchanged -/
example : jblPatch (.cont bytesB) (renderPatch [.add [[65]] (.int 1)]) = (.cont bytesB, .creation) := by
  have hok : ∀ o ∈ [Rfc.Op.add [[65]] (.int 1)], OpOk o ∧ opValueUK o := by
    intro o ho
    simp only [List.mem_cons, List.not_mem_nil, or_false] at ho
    subst ho
    exact ⟨⟨fun s hs => idxAgree_small s (by simp [opPath] at hs; subst hs; decide),
            fun s hs => by simp [opFrom] at hs, by simp [opPath]⟩, UKJ.int _⟩
  have h1 := (jbl_bytes_rfc_partial (.cont bytesB) docBB [.add [[65]] (.int 1)] holds_bytesB (by simp) hok
    (by intro o ho; simp at ho; subst ho; simp [PtrOk, opPath, opFrom])
    (by intro o ho; simp at ho; subst ho; simp [OpLeaf, opPath, opFrom, leafOk])).1
    (.obj [([97], .int (-5)), ([98], .arr [.str [104, 105], .null]), ([65], .int 1)])
    (by simp [Rfc.run, Rfc.step, docBB, Rfc.add, Rfc.updAt, Rfc.addChild, Rfc.put]) rfl
  exact h1.2 (by decide)

end Bytes

/-! ## The documented extensions do what their descriptions say -/

/-- **increment** ("Value increment"): for a location below the root that exists (object member or array element) the
    number there — and nothing else in the document — is replaced by target + value (`numAdd`: int+int, double+double,
    mixed kinds keep the kind of the target); if it does not hold a number or the value is not a number, the error of
    `_jbl_increment_node_data` is reported and nothing changes. -/
theorem ext_increment (t : Node) (p : Ptr) (v : Node) (cp : List Nat) (c : Node) (hp : p ≠ []) (hs : p ≠ [[]])
    (hl : locate t p = some cp) (hc : getP t cp = some c) :
    applyOp t { op := .increment, path := p, frm := none, value := some v } =
      (match numAdd v c with
       | some c' => (setP t cp c', .ok)
       | none => (t, (increment c v).2)) :=
  increment_spec t p v cp c hp hs hl hc

/-- **add_create**, parent exists: exactly `add` -/
theorem ext_add_create_existing (t : Node) (p : Ptr) (v : Node) (h : (locate t p.dropLast).isSome) :
    place t .addCreate p v = place t .add p v := add_create_existing t p v h

/-- **add_create** ("Create intermediate object nodes for missing path segments"): if the path leads through
    existing objects down to an object that lacks the next segment `k`, that object gets the new member
    `k : {r1: {r2: … {last: value}}}` (nested one-member objects, the value innermost) and nothing else changes. -/
theorem ext_add_create (t : Node) (pre : List Bytes) (k : Bytes) (r : List Bytes) (last : Bytes) (v : Node)
    (pp : List Nat) (ms : List (Bytes × Node)) (ho : ObjPath t pre) (hl : locate t pre = some pp)
    (hg : getP t pp = some (.obj ms)) (hk : ms.findIdx? (fun q => q.1 == k) = none) :
    ∃ nest, applyOp t { op := .addCreate, path := pre ++ k :: r ++ [last], frm := none, value := some v } =
        (setP t pp (.obj (ms ++ [(k, nest)])), .ok) ∧
      erase nest = Merge.wrap (r ++ [last]) (some (erase v)) :=
  add_create_spec t pre k r last v pp ms ho hl hg hk

/-- **swap** ("Swap values of two nodes"): when both locations exist, neither lies inside the other and the path does
    not end in `-`, the two values change places and nothing else changes. -/
theorem ext_swap (t : Node) (fromP path : Ptr) (fp cp : List Nat) (vf vc : Node) (h : WF t)
    (hp : path ≠ []) (hs : path ≠ [[]]) (hfe : fromP ≠ [])
    (hlf : locate t fromP = some fp) (hlc : locate t path = some cp)
    (hvf : getP t fp = some vf) (hvc : getP t cp = some vc)
    (hd1 : isPrefix fp cp = false) (hd2 : isPrefix cp fp = false) (hnd : path.getLast? ≠ some dash) :
    applyOp t { op := .swap, path := path, frm := some fromP, value := none } = (setP (setP t fp vc) cp vf, .ok) :=
  swap_spec t fromP path fp cp vf vc h hp hs hfe hlf hlc hvf hvc hd1 hd2 hnd

/-! ## Missing targets are errors (the part of "fails ⇒ error" that needs no RFC model) -/

/-- `remove` / `replace` of a location that `_jbl_node_find` cannot reach report `JBL_ERROR_PATH_NOTFOUND` and leave
    the tree untouched (before fix 82b0c6e: success). -/
theorem missing_target_reported (t : Node) (p : Ptr) (v : Option Node) (hp : p ≠ []) (hs : p ≠ [[]])
    (hm : detach t p = none) :
    applyOp t { op := .remove, path := p, frm := none, value := none } = (t, .pathNotfound) ∧
    applyOp t { op := .replace, path := p, frm := none, value := v } = (t, .pathNotfound) := by
  have hr := oproot_false p hp hs
  constructor <;> simp [applyOp, OpK.beq_eq, hm, hp, hs]

/-! ## Non-vacuity and witnesses of the open findings on the model -/

/-- the hypotheses of `apply_rfc_structural_partial` are satisfiable: `{"a":[1,2,3]}` with
    `[remove /a/0, replace /a/0 9]` (the witness of F11) gives `{"a":[9,3]}` -/
example : ∃ t', runOps (ofJ (.obj [([97], .arr [.int 1, .int 2, .int 3])]))
      ([Rfc.Op.remove [[97], [48]], Rfc.Op.replace [[97], [48]] (.int 9)].map toPOp) = (t', .ok) ∧
    erase t' = .obj [([97], .arr [.int 9, .int 3])] := by
  have hok : ∀ o ∈ [Rfc.Op.remove [[97], [48]], Rfc.Op.replace [[97], [48]] (.int 9)], OpOk o ∧ isTest o = false := by
    intro o ho
    simp only [List.mem_cons, List.not_mem_nil, or_false] at ho
    rcases ho with rfl | rfl <;>
      exact ⟨⟨fun s hs => idxAgree_small s (by simp [opPath] at hs; rcases hs with rfl | rfl <;> decide),
              fun s hs => by simp [opFrom] at hs, by simp [opPath]⟩, rfl⟩
  obtain ⟨t', h1, h2, _⟩ := apply_rfc_structural_partial (ofJ (.obj [([97], .arr [.int 1, .int 2, .int 3])])) _
    (.obj [([97], .arr [.int 9, .int 3])]) (wf_ofJ _) hok (by rw [erase_ofJ]; rfl)
  exact ⟨t', h1, h2⟩

def docB : JVal := .obj [([98], .obj [([120], .int 1), ([121], .int 2)])]
def opsB : List Rfc.Op := [.test [[98]] (.obj [([121], .int 2), ([120], .int 1)]), .add [[99]] (.int 3)]

theorem docB_uk : UKJ docB :=
  UKJ.obj _ (by simp) (by
    intro p hp; simp at hp; subst hp
    exact UKJ.obj _ (by simp) (by intro q hq; simp at hq; rcases hq with rfl | rfl <;> exact UKJ.int _))

theorem runB : Rfc.run docB opsB = some (.obj [([98], .obj [([120], .int 1), ([121], .int 2)]), ([99], .int 3)]) := by
  simp [Rfc.run, Rfc.step, docB, opsB, Rfc.getAt, Rfc.jsonEq, Rfc.jdepth, Rfc.jsonEqF, Rfc.add, Rfc.updAt, Rfc.addChild, Rfc.put, List.lookup]

/-- non-vacuity of `apply_rfc_partial` with a `test` whose value lists the members in another order: on the document
    `{"b":{"x":1,"y":2}}` the program `[test /b {"y":2,"x":1}, add /c 3]` is an instance and yields the RFC result -/
example : ∃ t', runOps (ofJ docB) (opsB.map toPOp) = (t', .ok) ∧
    erase t' = .obj [([98], .obj [([120], .int 1), ([121], .int 2)]), ([99], .int 3)] := by
  have hok : ∀ o ∈ opsB, OpOk o ∧ opValueUK o := by
    intro o ho
    simp only [opsB, List.mem_cons, List.not_mem_nil, or_false] at ho
    rcases ho with rfl | rfl
    · exact ⟨⟨fun s hs => idxAgree_small s (by simp [opPath] at hs; subst hs; decide),
              fun s hs => by simp [opFrom] at hs, by simp [opPath]⟩,
            UKJ.obj _ (by simp) (by intro q hq; simp at hq; rcases hq with rfl | rfl <;> exact UKJ.int _)⟩
    · exact ⟨⟨fun s hs => idxAgree_small s (by simp [opPath] at hs; subst hs; decide),
              fun s hs => by simp [opFrom] at hs, by simp [opPath]⟩, UKJ.int _⟩
  obtain ⟨t', h1, h2, _⟩ := apply_rfc_partial (ofJ docB) opsB _ (wf_ofJ _) (uk_ofJ _ docB_uk) hok
    (by rw [erase_ofJ]; exact runB)
  exact ⟨t', h1, h2⟩

/-- non-vacuity of `apply_rfc_err_partial`: on `{"b":{"x":1,"y":2}}` the program `[add /c 3, test /b {"x":1}]` is an
    instance (the test fails: a member is missing), so the call reports an error -/
example : (runOps (ofJ docB) ([Rfc.Op.add [[99]] (.int 3), Rfc.Op.test [[98]] (.obj [([120], .int 1)])].map toPOp)).2 ≠ .ok := by
  apply apply_rfc_err_partial (ofJ docB) _ (wf_ofJ _) (uk_ofJ _ docB_uk)
  · intro o ho
    simp only [List.mem_cons, List.not_mem_nil, or_false] at ho
    rcases ho with rfl | rfl
    · exact ⟨⟨fun s hs => idxAgree_small s (by simp [opPath] at hs; subst hs; decide),
              fun s hs => by simp [opFrom] at hs, by simp [opPath]⟩, UKJ.int _,
            ⟨by simp [opFrom], by simp [opPath], by simp, rfl⟩⟩
    · exact ⟨⟨fun s hs => idxAgree_small s (by simp [opPath] at hs; subst hs; decide),
              fun s hs => by simp [opFrom] at hs, by simp [opPath]⟩,
            UKJ.obj _ (by simp) (by intro q hq; simp at hq; subst hq; exact UKJ.int _),
            ⟨by simp [opFrom], by simp [opPath], by intro _; simp [opPath, dash], rfl⟩⟩
  · rw [erase_ofJ]
    simp [Rfc.run, Rfc.step, docB, Rfc.getAt, Rfc.jsonEq, Rfc.jdepth, Rfc.jsonEqF, Rfc.add, Rfc.updAt, Rfc.addChild,
      Rfc.put, List.lookup]

/-- witness of finding C15-slash-root on the model: removing the pointer `/` from `{"":0,"a":1}` empties the document, RFC 6902 removes the member `""` -/
theorem slash_root_witness :
    (applyOp (.obj [([], .int 0), ([97], .int 1)]) { op := .remove, path := [[]], frm := none, value := none }).1 = .none ∧
    Rfc.step (.obj [([], .int 0), ([97], .int 1)]) (.remove [[]]) = some (.obj [([97], .int 1)]) := by
  constructor
  · simp [applyOp, OpK.beq_eq]
  · rfl

/-- witness of finding C15-dash-last: removing `-` of the array `a` of `{"a":[1,2]}` removes the last element, RFC 6902 rejects it -/
theorem dash_last_witness :
    applyOp (.obj [([97], .arr [(0, .int 1), (1, .int 2)])]) { op := .remove, path := [[97], [45]], frm := none, value := none }
      = (.obj [([97], .arr [(0, .int 1)])], .ok) ∧
    Rfc.step (.obj [([97], .arr [.int 1, .int 2])]) (.remove [[97], [45]]) = none := by
  constructor
  · simp [applyOp, OpK.beq_eq, detach, locate, childIdx, child?, getP, modP, removeChild, dash, List.findIdx?_cons]
  · rfl
end IwModel.C15
