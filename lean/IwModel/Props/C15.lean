import IwModel.Model.JsonPatch
/-! # C15 — JSON Patch gives the RFC 6902 result and a failed patch changes nothing -/
namespace IwModel.C15
open IwModel IwModel.Patch

end IwModel.C15
