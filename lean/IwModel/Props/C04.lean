import IwModel.Lemmas.WalIdem
import IwModel.Props.C05
/-! # C04 — with WAL, a kill at any instant loses no synced work and tears no operation

Theorems over the executable model `IwModel.Wal` of `src/kv/iwal.c`.  A checkpoint and the recovery at open
are the same loop (`_rollforward_exl` = `Wal.replay`); a process that dies between the application of two log
records leaves the main file with a prefix of the log's records applied and the log itself untouched (it is
truncated only after the last record).  The theorems say that the next roll-forward is not disturbed by that. -/
namespace IwModel.C04
open IwModel IwModel.Wal IwModel.Gen.Wal

/-- the log holds absolute-address records only (what the data listener of `iwal.c` writes for a file of
fixed size: `WBSET`, `WBWRITE`, separators and marks; no `WBCOPY`, no `WBRESIZE`) -/
def AbsoluteOnly (w : Bytes) : Prop :=
  ∀ p r, (p, r) ∈ walk w → (∀ a b c, r ≠ Rec.copy a b c) ∧ (∀ a b, r ≠ Rec.resize a b)

/-- **Roll-forward is idempotent over every partially applied image.**  Let the roll-forward of log `w` over
main file `m` (up to the stop position `stop`; `0` = the whole log, as a checkpoint does) succeed.  Kill it
after it has applied any number `j` of records — `replayAux … j …` is the loop with fuel for exactly `j`
records — and run the complete roll-forward again over what the killed run left: the result is the result of
the undisturbed run.  Hence death during a checkpoint, or during recovery itself, any number of times, is harmless. -/
theorem replay_idempotent (cfg : Cfg) (stop : Nat) (w m : Bytes) (j : Nat) (habs : AbsoluteOnly w)
    (hok : (replay cfg stop w m).rc = .ok) :
    replay cfg stop w (replayAux cfg stop j w 0 true m).main = replay cfg stop w m := by
  unfold replay at hok ⊢
  obtain ⟨l, hl⟩ := recsAux_of_ok cfg stop w.length w 0 true m hok
  have hrun := replayAux_eq_run cfg stop w.length w 0 true l hl (Nat.le_refl _)
  have ⟨hlen, hsub⟩ := recsAux_sub_walk stop w.length w 0 true l hl
  have hfull : ∀ x : Bytes, replayAux cfg stop w.length w 0 true x = runRecs cfg l x := by
    intro x; rw [hrun w.length x, List.take_of_length_le hlen]
  have hn : ∀ x ∈ l, (∀ a b c, x.1 ≠ Rec.copy a b c) ∧ (∀ a b, x.1 ≠ Rec.resize a b) := by
    intro x hx; obtain ⟨p, hp⟩ := hsub x hx; exact habs p x.1 hp
  rw [hfull m] at hok
  have hgood := runRecs_ok_good cfg m.length l m rfl hn hok
  have hgood' : ∀ x ∈ l.take j, Good cfg m.length x := fun x hx => hgood x (List.mem_of_mem_take hx)
  have hA : replayAux cfg stop j w 0 true m = ⟨.ok, runEff (l.take j) m⟩ := by
    rw [hrun j m]; exact runRecs_good cfg m.length _ m hgood' rfl
  have hAlen : (runEff (l.take j) m).length = m.length :=
    (runEff_outside m.length (l.take j) m (fun x hx => (hgood' x hx).1) rfl).1
  rw [hA, hfull, hfull, runRecs_good cfg m.length l _ hgood hAlen, runRecs_good cfg m.length l m hgood rfl]
  rw [runEff_idem m.length l j m (fun x hx => (hgood x hx).1) rfl]

/-- the same for the image a *second* killed roll-forward leaves, and so on: any number of interrupted attempts -/
theorem replay_idempotent_twice (cfg : Cfg) (stop : Nat) (w m : Bytes) (j k : Nat) (habs : AbsoluteOnly w)
    (hok : (replay cfg stop w m).rc = .ok) :
    replay cfg stop w (replayAux cfg stop k w 0 true (replayAux cfg stop j w 0 true m).main).main = replay cfg stop w m := by
  have h1 := replay_idempotent cfg stop w m j habs hok
  have hok1 : (replay cfg stop w (replayAux cfg stop j w 0 true m).main).rc = .ok := by rw [h1]; exact hok
  rw [replay_idempotent cfg stop w _ k habs hok1, h1]

/-- **A kill during a regular checkpoint is repaired by the next open.**  A regular checkpoint (`_checkpoint_exl`
with a savepoint) rolls forward a log `w` that ends with that savepoint record (position `f`).  Kill it after any
number `j` of applied records: the log is still complete, the main file is `replayAux … j …`.  The recovery at the
next open then leaves exactly the main file the undisturbed checkpoint would have written. -/
theorem checkpoint_kill_recovers (cfg : Cfg) (w m : Bytes) (f j : Nat)
    (hsep : w.headD 0 = WOP_SEP) (hclosed : C05.SegClosed w) (hnoreset : ∀ p, (p, Rec.reset) ∉ walk w)
    (hlast : (f, Rec.savepoint) ∈ walk w) (hend : f + 12 = w.length)
    (habs : AbsoluteOnly w) (hok : (replay cfg 0 w m).rc = .ok) :
    recover cfg 1 w (replayAux cfg 0 j w 0 true m).main = (.ok, (replay cfg 0 w m).main, []) := by
  have hf0 : f ≠ 0 := fun h => C05.no_savepoint_at_zero w hsep (h ▸ hlast)
  have hns : ∀ q, (q, Rec.savepoint) ∈ walk w → q ≠ 0 := fun q hq h => C05.no_savepoint_at_zero w hsep (h ▸ hq)
  -- the pre-scan of the complete log finds the final savepoint
  have hcs := C05.prescan_cut_savepoint w w.length (Nat.le_refl _)
  rw [List.take_length] at hcs
  have hge := hcs.2 hsep hclosed f hlast (by omega)
  have hfnd := hcs.1 (by omega)
  have hf : (prescan w).1 = f := by omega
  have hrp : (prescan w).2 = 0 := by
    have := prescanAux_cut_noreset w.length w w.length 0 true 0 0 hnoreset
    rw [List.take_length] at this; exact this
  have hpair : prescan w = (f, 0) := Prod.ext hf hrp
  have hne : w.isEmpty = false := by
    cases w with
    | nil => simp at hend
    | cons a t => rfl
  have hlastEq : ∀ x, replay cfg f w x = replay cfg 0 w x := fun x =>
    replayAux_stop_last cfg f 0 w.length w 0 true x hlast (by omega) hns
  have hidem := replay_idempotent cfg 0 w m j habs hok
  unfold recover rollforward
  simp only [hne, Bool.false_eq_true, if_false, hpair, hf0]
  have h10 : (1:Nat) ≠ 0 := by decide
  have hnb : ¬ ((0:Nat) > 0 ∧ (1:Nat) = 1) := by omega
  simp only [h10, ne_eq, not_false_eq_true, if_true]
  rw [hlastEq, hidem]
  simp [hok]

/-- non-vacuity of `replay_idempotent` and `checkpoint_kill_recovers` on the same log -/
example : replay C05.exCfg 0 C05.exLog (replayAux C05.exCfg 0 2 C05.exLog 0 true C05.exMain).main = replay C05.exCfg 0 C05.exLog C05.exMain :=
  replay_idempotent C05.exCfg 0 C05.exLog C05.exMain 2
    (by intro p r h; rw [C05.exLog_walk] at h; simp at h; rcases h with ⟨_, rfl⟩ | ⟨_, rfl⟩ | ⟨_, rfl⟩ <;> simp)
    (by decide)

example : recover C05.exCfg 1 C05.exLog (replayAux C05.exCfg 0 2 C05.exLog 0 true C05.exMain).main
    = (.ok, (replay C05.exCfg 0 C05.exLog C05.exMain).main, []) :=
  checkpoint_kill_recovers C05.exCfg C05.exLog C05.exMain 36 2 (by decide) (C05.segClosedB_sound _ (by decide))
    (by intro p h; rw [C05.exLog_walk] at h; simp at h)
    (by rw [C05.exLog_walk]; simp) (by decide)
    (by intro p r h; rw [C05.exLog_walk] at h; simp at h; rcases h with ⟨_, rfl⟩ | ⟨_, rfl⟩ | ⟨_, rfl⟩ <;> simp)
    (by decide)

end IwModel.C04
