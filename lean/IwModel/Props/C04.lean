import IwModel.Model.Wal
/-! # C04 — with WAL, a kill at any instant loses no synced work and tears no operation -/
namespace IwModel.C04
open IwModel

end IwModel.C04
