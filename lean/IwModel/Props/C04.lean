import IwModel.Lemmas.WalIdem
import IwModel.Props.C05
import IwModel.Lemmas.WalWriter
/-! # C04 — with WAL, a kill at any instant loses no synced work and tears no operation

Theorems over the executable model `IwModel.Wal` of `src/kv/iwal.c`.  A checkpoint and the recovery at open
are the same loop (`_rollforward_exl` = `Wal.replay`); a process that dies between the application of two log
records leaves the main file with a prefix of the log's records applied and the log itself untouched (it is
truncated only after the last record).  The theorems say that the next roll-forward is not disturbed by that. -/
namespace IwModel.C04
open IwModel IwModel.Wal IwModel.Gen.Wal

/-- the log holds absolute-address records only (what the data listener of `iwal.c` writes for a file of
fixed size: `WBSET`, `WBWRITE`, separators and marks; no `WBCOPY`, no `WBRESIZE`) -/
def AbsoluteOnly (w : Bytes) : Prop :=
  ∀ p r, (p, r) ∈ walk w → (∀ a b c, r ≠ Rec.copy a b c) ∧ (∀ a b, r ≠ Rec.resize a b)

/-- **Roll-forward is idempotent over every partially applied image.**  Let the roll-forward of log `w` over
main file `m` (up to the stop position `stop`; `0` = the whole log, as a checkpoint does) succeed.  Kill it
after it has applied any number `j` of records — `replayAux … j …` is the loop with fuel for exactly `j`
records — and run the complete roll-forward again over what the killed run left: the result is the result of
the undisturbed run.  Hence death during a checkpoint, or during recovery itself, any number of times, is harmless. -/
theorem replay_idempotent (cfg : Cfg) (stop : Nat) (w m : Bytes) (j : Nat) (habs : AbsoluteOnly w)
    (hok : (replay cfg stop w m).rc = .ok) :
    replay cfg stop w (replayAux cfg stop j w 0 true m).main = replay cfg stop w m := by
  unfold replay at hok ⊢
  obtain ⟨l, hl⟩ := recsAux_of_ok cfg stop w.length w 0 true m hok
  have hrun := replayAux_eq_run cfg stop w.length w 0 true l hl (Nat.le_refl _)
  have ⟨hlen, hsub⟩ := recsAux_sub_walk stop w.length w 0 true l hl
  have hfull : ∀ x : Bytes, replayAux cfg stop w.length w 0 true x = runRecs cfg l x := by
    intro x; rw [hrun w.length x, List.take_of_length_le hlen]
  have hn : ∀ x ∈ l, (∀ a b c, x.1 ≠ Rec.copy a b c) ∧ (∀ a b, x.1 ≠ Rec.resize a b) := by
    intro x hx; obtain ⟨p, hp⟩ := hsub x hx; exact habs p x.1 hp
  rw [hfull m] at hok
  have hgood := runRecs_ok_good cfg m.length l m rfl hn hok
  have hgood' : ∀ x ∈ l.take j, Good cfg m.length x := fun x hx => hgood x (List.mem_of_mem_take hx)
  have hA : replayAux cfg stop j w 0 true m = ⟨.ok, runEff (l.take j) m⟩ := by
    rw [hrun j m]; exact runRecs_good cfg m.length _ m hgood' rfl
  have hAlen : (runEff (l.take j) m).length = m.length :=
    (runEff_outside m.length (l.take j) m (fun x hx => (hgood' x hx).1) rfl).1
  rw [hA, hfull, hfull, runRecs_good cfg m.length l _ hgood hAlen, runRecs_good cfg m.length l m hgood rfl]
  rw [runEff_idem m.length l j m (fun x hx => (hgood x hx).1) rfl]

/-- the same for the image a *second* killed roll-forward leaves, and so on: any number of interrupted attempts -/
theorem replay_idempotent_twice (cfg : Cfg) (stop : Nat) (w m : Bytes) (j k : Nat) (habs : AbsoluteOnly w)
    (hok : (replay cfg stop w m).rc = .ok) :
    replay cfg stop w (replayAux cfg stop k w 0 true (replayAux cfg stop j w 0 true m).main).main = replay cfg stop w m := by
  have h1 := replay_idempotent cfg stop w m j habs hok
  have hok1 : (replay cfg stop w (replayAux cfg stop j w 0 true m).main).rc = .ok := by rw [h1]; exact hok
  rw [replay_idempotent cfg stop w _ k habs hok1, h1]

/-- **A kill during a regular checkpoint is repaired by the next open.**  A regular checkpoint (`_checkpoint_exl`
with a savepoint) rolls forward a log `w` that ends with that savepoint record (position `f`).  Kill it after any
number `j` of applied records: the log is still complete, the main file is `replayAux … j …`.  The recovery at the
next open then leaves exactly the main file the undisturbed checkpoint would have written. -/
theorem checkpoint_kill_recovers (cfg : Cfg) (w m : Bytes) (f j : Nat)
    (hsep : w.headD 0 = WOP_SEP) (hclosed : C05.SegClosed w) (hnoreset : ∀ p, (p, Rec.reset) ∉ walk w)
    (hlast : (f, Rec.savepoint) ∈ walk w) (hend : f + 12 = w.length)
    (habs : AbsoluteOnly w) (hok : (replay cfg 0 w m).rc = .ok) :
    recover cfg 1 w (replayAux cfg 0 j w 0 true m).main = (.ok, (replay cfg 0 w m).main, []) := by
  have hf0 : f ≠ 0 := fun h => C05.no_savepoint_at_zero w hsep (h ▸ hlast)
  have hns : ∀ q, (q, Rec.savepoint) ∈ walk w → q ≠ 0 := fun q hq h => C05.no_savepoint_at_zero w hsep (h ▸ hq)
  -- the pre-scan of the complete log finds the final savepoint
  have hcs := C05.prescan_cut_savepoint w w.length (Nat.le_refl _)
  rw [List.take_length] at hcs
  have hge := hcs.2 hsep hclosed f hlast (by omega)
  have hfnd := hcs.1 (by omega)
  have hf : (prescan w).1 = f := by omega
  have hrp : (prescan w).2 = 0 := by
    have := prescanAux_cut_noreset w.length w w.length 0 true 0 0 hnoreset
    rw [List.take_length] at this; exact this
  have hpair : prescan w = (f, 0) := Prod.ext hf hrp
  have hne : w.isEmpty = false := by
    cases w with
    | nil => simp at hend
    | cons a t => rfl
  have hlastEq : ∀ x, replay cfg f w x = replay cfg 0 w x := fun x =>
    replayAux_stop_last cfg f 0 w.length w 0 true x hlast (by omega) hns
  have hidem := replay_idempotent cfg 0 w m j habs hok
  unfold recover rollforward
  simp only [hne, Bool.false_eq_true, if_false, hpair, hf0]
  have h10 : (1:Nat) ≠ 0 := by decide
  have hnb : ¬ ((0:Nat) > 0 ∧ (1:Nat) = 1) := by omega
  simp only [h10, ne_eq, not_false_eq_true, if_true]
  rw [hlastEq, hidem]
  simp [hok]

/-- non-vacuity of `replay_idempotent` and `checkpoint_kill_recovers` on the same log -/
example : replay C05.exCfg 0 C05.exLog (replayAux C05.exCfg 0 2 C05.exLog 0 true C05.exMain).main = replay C05.exCfg 0 C05.exLog C05.exMain :=
  replay_idempotent C05.exCfg 0 C05.exLog C05.exMain 2
    (by intro p r h; rw [C05.exLog_walk] at h; simp at h; rcases h with ⟨_, rfl⟩ | ⟨_, rfl⟩ | ⟨_, rfl⟩ <;> simp)
    (by decide)

example : recover C05.exCfg 1 C05.exLog (replayAux C05.exCfg 0 2 C05.exLog 0 true C05.exMain).main
    = (.ok, (replay C05.exCfg 0 C05.exLog C05.exMain).main, []) :=
  checkpoint_kill_recovers C05.exCfg C05.exLog C05.exMain 36 2 (by decide) (C05.segClosedB_sound _ (by decide))
    (by intro p h; rw [C05.exLog_walk] at h; simp at h)
    (by rw [C05.exLog_walk]; simp) (by decide)
    (by intro p r h; rw [C05.exLog_walk] at h; simp at h; rcases h with ⟨_, rfl⟩ | ⟨_, rfl⟩ | ⟨_, rfl⟩ <;> simp)
    (by decide)

/-! ## traces of the writer (`Model/WalWriter.lean`): what a kill at any point leaves, and what the next open makes of it -/

open IwModel.WalWriter in
/-- **A completed checkpoint leaves the main file equal to the replay of the log, and an empty log.**  For every state
`s` a valid trace reaches, and for both kinds of checkpoint (`noFix = false`: `_checkpoint_exl` proper; `noFix = true`:
the one `_onresize` forces): `p` is the state in which `_rollforward_exl` starts (savepoint record appended unless
`noFix`, buffer flushed, log synced).  The roll-forward of the whole log over the main file succeeds and yields exactly
the image the process was seeing; afterwards the main file is that image, log and buffer are empty. -/
theorem checkpoint_preserves (c : WCfg) (hc : c.Ok) (m : Bytes) (tr : List Step) (hv : ValidTrace c (WalWriter.init m) tr)
    (noFix : Bool) (ts : Nat) :
    let s := run c (WalWriter.init m) tr
    let p := ckptPrepare c s noFix ts
    rollforward c.rd 0 0 p.log p.main = ⟨.ok, s.view⟩ ∧ p.main = s.main ∧
    (checkpoint c s noFix ts).main = s.view ∧ (checkpoint c s noFix ts).view = s.view ∧
    (checkpoint c s noFix ts).log = [] ∧ (checkpoint c s noFix ts).buf = [] := by
  intro s p
  obtain ⟨g, hi⟩ : ∃ g, Inv c s g := run_inv c hc tr _ _ (Inv_init c m) hv
  cases noFix with
  | true =>
    obtain ⟨h1, _⟩ := flush_inv c hc s g hi
    have r := flush_rest c s
    have hb : (gflush c s.buf g).Lb = [] := gflush_Lb c s.buf g (fun hbuf => by have hd : Dec s.buf g.Lb := hi.w.bdec; rw [hbuf] at hd; exact Dec_nil hd)
    obtain ⟨_, f1, f2, f3, f4, _, _, f7⟩ := ckptFinish_spec c _ _ (fsyncLog_inv c _ _ h1) hb
    have hv' : (fsyncLog (flush c s)).view = s.view := r.2.1
    have hbuf : (fsyncLog (flush c s)).buf = [] := flush_buf c s
    have hm' : (fsyncLog (flush c s)).main = s.main := r.1
    exact ⟨hv' ▸ f7, hm', hv' ▸ f1, hv' ▸ f3, f2, hbuf ▸ f4⟩
  | false =>
    have hi0 : Inv c { s with forceCp := false, forceSp := false } g := Inv_congr c s _ g hi rfl rfl rfl rfl rfl
    obtain ⟨h1, ebuf, emain, eview, _, _, _⟩ := putSavepoint_spec c hc _ g ts hi0
    obtain ⟨_, f1, f2, f3, f4, _, _, f7⟩ := ckptFinish_spec c _ _ (fsyncLog_inv c _ _ h1) rfl
    have hv' : (fsyncLog (putSavepoint c { s with forceCp := false, forceSp := false } ts)).view = s.view := eview
    have hbuf : (fsyncLog (putSavepoint c { s with forceCp := false, forceSp := false } ts)).buf = [] := ebuf
    have hm' : (fsyncLog (putSavepoint c { s with forceCp := false, forceSp := false } ts)).main = s.main := emain
    exact ⟨hv' ▸ f7, hm', hv' ▸ f1, hv' ▸ f3, f2, hbuf ▸ f4⟩

open IwModel.WalWriter in
/-- what recovery makes of the main file and a cut of the log, from the invariants -/
theorem kill_core (c : WCfg) (s : St) (g : G) (base : Nat) (marks : List (Nat × Nat)) (hi : Inv c s g) (hm : InvM c s g base marks)
    (n : Nat) (h1 : s.fsynced ≤ n) (h2 : n ≤ s.log.length) :
    ∃ k img, s.dur ≤ k ∧ s.hist[k]? = some img ∧ WalWriter.recover c (killCut s n) = (.ok, img, []) ∧
      (n = s.log.length → k = s.hist.length - 1) := by
  obtain ⟨hw, hhead, hnoreset, _, hok⟩ := wf_facts hi
  have hb := base_lt hm
  have hklt : ∀ p k, (p, k) ∈ marks → k < s.hist.length := by
    intro p k hp
    obtain ⟨_, _, img, hi', _⟩ := hm.mark p k hp
    by_cases hh : k < s.hist.length
    · exact hh
    · rw [List.getElem?_eq_none (by omega)] at hi'; simp at hi'
  have hinside : ∀ p k, (p, k) ∈ marks → p + 12 ≤ s.log.length := by
    intro p k hp
    have := (mem_withPos_bounds _ _ _ _ (hm.mark p k hp).1).2
    have := Inv_loglen hi
    simp only [advOf] at *; omega
  have hnosp0 : ∀ k, (0, k) ∉ marks := fun k hk => WfLog_no_sp0 hi.w.wf (hm.mark 0 k hk).1
  rcases hhead with hnil | hsep
  · -- empty log: nothing to recover, the main file is the base image
    have hL : g.L = [] := by have hd : Dec s.log g.L := hi.w.wf.dec; rw [hnil] at hd; exact Dec_nil hd
    have hnomark : ∀ p k, (p, k) ∉ marks := by
      intro p k hp; have := (hm.mark p k hp).1; rw [hL] at this; simp [withPos] at this
    refine ⟨base, s.main, ?_, hm.hbase, ?_, ?_⟩
    · rcases hm.dur with hd | ⟨p, hp, _⟩
      · omega
      · exact absurd hp (hnomark _ _)
    · simp [WalWriter.recover, killCut, hnil, Wal.recover, rollforward]
    · intro _
      by_cases hk : base < s.hist.length - 1
      · obtain ⟨p, hp⟩ := hm.cover _ hk (by omega); exact absurd hp (hnomark _ _)
      · omega
  · have hclosed : C05.SegClosed s.log := by
      intro p cr l sp hp hs hlt; rw [hw] at hp hs; exact hi.w.wf.closed p cr l sp hp hs hlt
    obtain ⟨f, hf, hge, hrec⟩ := C05.recover_cut c.rd s.log s.main n h2 hsep hclosed hnoreset hok
    by_cases hf0 : f = 0
    · subst hf0
      -- no savepoint record survived completely: no mark is durable, the image is the base image
      have hnone : ∀ p k, (p, k) ∈ marks → p + 12 ≤ n → False := by
        intro p k hp hle
        have := hge p (by rw [hw]; exact (hm.mark p k hp).1) hle
        have : p = 0 := by omega
        subst this; exact hnosp0 k hp
      refine ⟨base, s.main, ?_, hm.hbase, ?_, ?_⟩
      · rcases hm.dur with hd | ⟨p, hp, hle⟩
        · omega
        · exact (hnone p _ hp (by omega)).elim
      · simpa [WalWriter.recover, killCut, C05.stateAt] using hrec
      · intro hn
        by_cases hk : base < s.hist.length - 1
        · obtain ⟨p, hp⟩ := hm.cover _ hk (by omega)
          exact (hnone p _ hp (by have := hinside p _ hp; omega)).elim
        · omega
    · have hfm : (f, Rec.savepoint) ∈ walk s.log ∧ f + 12 ≤ n := by
        rcases hf with h | h
        · exact absurd h hf0
        · exact h
      obtain ⟨k, hk⟩ := hm.all f (by rw [← hw]; exact hfm.1)
      obtain ⟨_, hbk, img, himg, hrun⟩ := hm.mark f k hk
      have hge' : ∀ p k', (p, k') ∈ marks → p + 12 ≤ n → k' ≤ k := by
        intro p k' hp hle
        exact hm.mono p k' f k hp hk (hge p (by rw [hw]; exact (hm.mark p k' hp).1) hle)
      refine ⟨k, img, ?_, himg, ?_, ?_⟩
      · rcases hm.dur with hd | ⟨p, hp, hle⟩
        · omega
        · exact hge' p _ hp (by omega)
      · have hst : C05.stateAt c.rd s.log s.main f = img := by
          simp only [C05.stateAt, hf0, if_false]
          rw [replay_of_Dec c.rd f g.L s.log s.main hi.w.wf.dec (Or.inr hsep), hrun]
        simpa [WalWriter.recover, killCut, hst] using hrec
      · intro hn
        have hkl := hklt f k hk
        by_cases hk' : base < s.hist.length - 1
        · obtain ⟨p, hp⟩ := hm.cover _ hk' (by omega)
          have := hge' p _ hp (by have := hinside p _ hp; omega)
          omega
        · omega


open IwModel.WalWriter in
/-- a kill while a regular checkpoint is storing the log's records: the next open completes it -/
theorem applying_core (c : WCfg) (hc : c.Ok) (s : St) (g : G) (hi : Inv c s g) (ha : AllAbs g) (ts j : Nat) :
    WalWriter.recover c (killApplying c (ckptPrepare c s false ts) j) = (.ok, s.view, []) := by
  have hi0 : Inv c { s with forceCp := false, forceSp := false } g := Inv_congr c s _ g hi rfl rfl rfl rfl rfl
  obtain ⟨h1, _, emain, eview, _, _, _⟩ := putSavepoint_spec c hc _ g ts hi0
  have hp : ckptPrepare c s false ts = fsyncLog (putSavepoint c { s with forceCp := false, forceSp := false } ts) := rfl
  have hip : Inv c (ckptPrepare c s false ts) (gsave c s.buf g ts) := by rw [hp]; exact fsyncLog_inv c _ _ h1
  have hview : (ckptPrepare c s false ts).view = s.view := by rw [hp]; exact eview
  obtain ⟨hw, hhead, hnoreset, _, hok⟩ := wf_facts hip
  have hlen := Inv_loglen hip
  rw [gsave_L, size_append] at hlen
  simp only [size, advOf] at hlen
  have hsep : (ckptPrepare c s false ts).log.headD 0 = WOP_SEP := by
    rcases hhead with h | h
    · rw [h] at hlen; simp at hlen
    · exact h
  have hclosed : C05.SegClosed (ckptPrepare c s false ts).log := by
    intro p cr l sp hp' hs hlt; rw [hw] at hp' hs; exact hip.w.wf.closed p cr l sp hp' hs hlt
  have hlast : (size (gsaveA c s.buf g ts), Rec.savepoint) ∈ walk (ckptPrepare c s false ts).log := by
    rw [hw, gsave_L, withPos_append]; simp [withPos]
  have habs : AbsoluteOnly (ckptPrepare c s false ts).log := by
    intro p r hpr
    rw [hw] at hpr
    obtain ⟨y, hy, e⟩ := mem_withPos_item _ _ _ _ hpr
    have := gsave_abs c s.buf g ts ha y (List.mem_append.mpr (Or.inl hy))
    rw [e] at this; exact this
  have key := checkpoint_kill_recovers c.rd _ (ckptPrepare c s false ts).main (size (gsaveA c s.buf g ts)) j hsep hclosed hnoreset hlast
    (by omega) habs hok
  have hrep : (replay c.rd 0 (ckptPrepare c s false ts).log (ckptPrepare c s false ts).main).main = s.view := by
    rw [replay0_of_wf c.rd hip.w.wf]
    have := hip.sem
    rw [gsave_Lb, List.append_nil] at this
    rw [this, hview]
  rw [hrep] at key
  exact key

open IwModel.WalWriter in
/-- **Trace-level crash theorem (partial: traces without `_onresize`).**

Full-strength statement (does **not** hold, finding F26): *for every valid trace of writer steps and every kill point,
the next open yields the main-file image as of some savepoint of the trace, not an earlier one than the last savepoint
whose `fsync` of the log had completed.*  A resize step (`_onresize`: the `WBRESIZE` record, then
`_checkpoint_exl(no_fixpoint = true)`) applies and truncates a log that holds records written after the last savepoint;
what recovery then yields is the image *with* those records (`forced_checkpoint_exposes_unsaved` below), which is the
image of no savepoint.  The theorem therefore carries the hypothesis `noForcedCheckpointInsideOp`.

Proved.  Take any main file `m`, any valid trace `tr` without resize steps, `s` the state it reaches (every prefix of
a valid trace is one, so this is *every* point between two steps), `hist` the images at the savepoints of the trace
(initial image first), `dur` the index of the newest one whose record was in the file at an `fsync` of the log:

1. the process dies, or power is lost, and the log file keeps any length `n` between what was `fsync`ed and what was
   written (this covers a death *inside* a step: between the two `write`s of `_write_wl`, inside a `write`): the next
   open succeeds, truncates the log and yields `hist[k]` for some `k ≥ dur`;
2. pure process death (`n` = everything written): it yields the image of the **last** savepoint of the trace;
3. the process dies while a regular checkpoint is storing records (after any number `j` of them): the next open yields
   the image of that checkpoint's savepoint — for traces without `_oncopy` events (a `WBCOPY` record is not idempotent). -/
theorem writer_recover_savepoint_partial (c : WCfg) (hc : c.Ok) (m : Bytes) (tr : List Step)
    (hv : ValidTrace c (WalWriter.init m) tr) (hF26 : noForcedCheckpointInsideOp tr) :
    let s := run c (WalWriter.init m) tr
    (∀ n, s.fsynced ≤ n → n ≤ s.log.length →
      ∃ k img, s.dur ≤ k ∧ s.hist[k]? = some img ∧ WalWriter.recover c (killCut s n) = (.ok, img, [])) ∧
    (∃ img, s.hist[s.hist.length - 1]? = some img ∧ WalWriter.recover c (kill s) = (.ok, img, [])) ∧
    (noCopy tr → ∀ ts j, WalWriter.recover c (killApplying c (ckptPrepare c s false ts) j) = (.ok, s.view, [])) := by
  intro s
  obtain ⟨g, base, marks, hi, hm, ha⟩ : ∃ g base marks, Inv c s g ∧ InvM c s g base marks ∧ (noCopy tr → AllAbs g) :=
    run_inv3 c hc (noCopy tr) tr _ hv hF26 id
      ⟨⟨[], []⟩, 0, [], Inv_init c m, InvM_init c m, fun _ => by intro y hy; simp at hy⟩
  refine ⟨?_, ?_, ?_⟩
  · intro n h1 h2
    obtain ⟨k, img, a, b, d, _⟩ := kill_core c s g base marks hi hm n h1 h2
    exact ⟨k, img, a, b, d⟩
  · obtain ⟨k, img, _, b, d, e⟩ := kill_core c s g base marks hi hm s.log.length hi.fs (Nat.le_refl _)
    refine ⟨img, by rw [← e rfl]; exact b, ?_⟩
    have : killCut s s.log.length = kill s := by simp [killCut, kill]
    rw [← this]; exact d
  · intro hnc ts j
    exact applying_core c hc s g hi (ha hnc) ts j

open IwModel.WalWriter in
/-- **What the forced checkpoint does (F26 on the model).**  In any state a valid trace reaches, a resize step leaves an
empty log and a main file equal to the image the process sees — every record logged since the last savepoint
included — while no savepoint was taken (`hist` unchanged).  A kill right after it recovers to that image. -/
theorem forced_checkpoint_exposes_unsaved (c : WCfg) (hc : c.Ok) (m : Bytes) (tr : List Step) (hv : ValidTrace c (WalWriter.init m) tr)
    (o n : Nat) (hr : Valid c (run c (WalWriter.init m) tr) (.resize o n)) :
    let s := run c (WalWriter.init m) tr
    let s' := step c s (.resize o n)
    s'.log = [] ∧ s'.main = s'.view ∧ s'.view = (resize c.maxoff s.view n).getD s.view ∧ s'.hist = s.hist ∧
    WalWriter.recover c (kill s') = (.ok, s'.view, []) := by
  intro s s'
  obtain ⟨g, hi⟩ : ∃ g, Inv c s g := run_inv c hc tr _ _ (Inv_init c m) hv
  have h1 := (logResize_inv c hc s g o n hi hr).1
  have h2 := (flush_inv c hc _ _ h1).1
  have h3 := fsyncLog_inv c _ _ h2
  have hb : (gflush c (logResize c s o n).buf (gwrite c s.buf g (Rec.resize o n, []) (encResize o n) [])).Lb = [] := by
    apply gflush_Lb; intro hbuf; have hd := h1.w.bdec; rw [hbuf] at hd; exact Dec_nil hd
  obtain ⟨_, f1, f2, f3, _, f5, _, _⟩ := ckptFinish_spec c _ _ h3 hb
  have hs' : s' = ckptFinish c (fsyncLog (flush c (logResize c s o n))) := rfl
  have r := flush_rest c (logResize c s o n)
  have hview : (fsyncLog (flush c (logResize c s o n))).view = (resize c.maxoff s.view n).getD s.view := r.2.1
  have hhist : (fsyncLog (flush c (logResize c s o n))).hist = s.hist := by
    show (flush c (logResize c s o n)).hist = s.hist
    rw [r.2.2.1]; exact (writeWl_rest c s (encResize o n) []).2.2.1
  refine ⟨hs' ▸ f2, ?_, ?_, ?_, ?_⟩
  · rw [hs', f1, f3]
  · rw [hs', f3, hview]
  · rw [hs', f5, hhist]
  · have e1 : s'.log = [] := hs' ▸ f2
    have e2 : s'.main = s'.view := by rw [hs', f1, f3]
    simp [WalWriter.recover, kill, e1, e2, Wal.recover, rollforward]

/-- **F26 on the model, a witness.** An 8-byte file, one store after the (initial) savepoint, then a growth of the file: a
kill right after the forced checkpoint recovers to an image that starts with the unsaved bytes `1 2`, while the only
savepoint image of the trace is the initial one. -/
theorem forced_checkpoint_witness :
    let s' := WalWriter.run C05.exW (WalWriter.init C05.exMain) [.write 0 [1, 2], .resize 8 4096]
    s'.hist = [C05.exMain] ∧ ((WalWriter.recover C05.exW (WalWriter.kill s')).2.1.take 3 = [1, 2, 9]) ∧
    (WalWriter.recover C05.exW (WalWriter.kill s')).1 = .ok ∧
    WalWriter.ValidTrace C05.exW (WalWriter.init C05.exMain) [.write 0 [1, 2], .resize 8 4096] := by
  refine ⟨by decide, by decide, by decide, by decide, by decide, trivial⟩

/-- non-vacuity of the trace theorems: a valid trace without resize and copy steps (`C05.exW`: 60-byte buffer) -/
def exTrace : List WalWriter.Step := [.set 2 7 3, .savepoint 1 true, .write 0 [1, 2], .flush]

theorem exTrace_valid : WalWriter.ValidTrace C05.exW (WalWriter.init C05.exMain) exTrace :=
  ⟨by decide, trivial, by decide, trivial, trivial⟩

example : WalWriter.recover C05.exW (WalWriter.kill (WalWriter.run C05.exW (WalWriter.init C05.exMain) exTrace)) = (.ok, [9, 9, 7, 7, 7, 9, 9, 9], []) := by
  decide

example := writer_recover_savepoint_partial C05.exW C05.exW_ok C05.exMain exTrace exTrace_valid
  (by intro e he o n; simp [exTrace] at he; rcases he with rfl | rfl | rfl | rfl <;> simp)

example := checkpoint_preserves C05.exW C05.exW_ok C05.exMain exTrace exTrace_valid false 5

end IwModel.C04
