import IwModel.Lemmas.WalIdem
/-! # C04 — with WAL, a kill at any instant loses no synced work and tears no operation

Theorems over the executable model `IwModel.Wal` of `src/kv/iwal.c`.  A checkpoint and the recovery at open
are the same loop (`_rollforward_exl` = `Wal.replay`); a process that dies between the application of two log
records leaves the main file with a prefix of the log's records applied and the log itself untouched (it is
truncated only after the last record).  The theorems say that the next roll-forward is not disturbed by that. -/
namespace IwModel.C04
open IwModel IwModel.Wal IwModel.Gen.Wal

/-- the log holds absolute-address records only (what the data listener of `iwal.c` writes for a file of
fixed size: `WBSET`, `WBWRITE`, separators and marks; no `WBCOPY`, no `WBRESIZE`) -/
def AbsoluteOnly (w : Bytes) : Prop :=
  ∀ p r, (p, r) ∈ walk w → (∀ a b c, r ≠ Rec.copy a b c) ∧ (∀ a b, r ≠ Rec.resize a b)

/-- **Roll-forward is idempotent over every partially applied image.**  Let the roll-forward of log `w` over
main file `m` (up to the stop position `stop`; `0` = the whole log, as a checkpoint does) succeed.  Kill it
after it has applied any number `j` of records — `replayAux … j …` is the loop with fuel for exactly `j`
records — and run the complete roll-forward again over what the killed run left: the result is the result of
the undisturbed run.  Hence death during a checkpoint, or during recovery itself, any number of times, is harmless. -/
theorem replay_idempotent (cfg : Cfg) (stop : Nat) (w m : Bytes) (j : Nat) (habs : AbsoluteOnly w)
    (hok : (replay cfg stop w m).rc = .ok) :
    replay cfg stop w (replayAux cfg stop j w 0 true m).main = replay cfg stop w m := by
  unfold replay at hok ⊢
  obtain ⟨l, hl⟩ := recsAux_of_ok cfg stop w.length w 0 true m hok
  have hrun := replayAux_eq_run cfg stop w.length w 0 true l hl (Nat.le_refl _)
  have ⟨hlen, hsub⟩ := recsAux_sub_walk stop w.length w 0 true l hl
  have hfull : ∀ x : Bytes, replayAux cfg stop w.length w 0 true x = runRecs cfg l x := by
    intro x; rw [hrun w.length x, List.take_of_length_le hlen]
  have hn : ∀ x ∈ l, (∀ a b c, x.1 ≠ Rec.copy a b c) ∧ (∀ a b, x.1 ≠ Rec.resize a b) := by
    intro x hx; obtain ⟨p, hp⟩ := hsub x hx; exact habs p x.1 hp
  rw [hfull m] at hok
  have hgood := runRecs_ok_good cfg m.length l m rfl hn hok
  have hgood' : ∀ x ∈ l.take j, Good cfg m.length x := fun x hx => hgood x (List.mem_of_mem_take hx)
  have hA : replayAux cfg stop j w 0 true m = ⟨.ok, runEff (l.take j) m⟩ := by
    rw [hrun j m]; exact runRecs_good cfg m.length _ m hgood' rfl
  have hAlen : (runEff (l.take j) m).length = m.length :=
    (runEff_outside m.length (l.take j) m (fun x hx => (hgood' x hx).1) rfl).1
  rw [hA, hfull, hfull, runRecs_good cfg m.length l _ hgood hAlen, runRecs_good cfg m.length l m hgood rfl]
  rw [runEff_idem m.length l j m (fun x hx => (hgood x hx).1) rfl]

/-- the same for the image a *second* killed roll-forward leaves, and so on: any number of interrupted attempts -/
theorem replay_idempotent_twice (cfg : Cfg) (stop : Nat) (w m : Bytes) (j k : Nat) (habs : AbsoluteOnly w)
    (hok : (replay cfg stop w m).rc = .ok) :
    replay cfg stop w (replayAux cfg stop k w 0 true (replayAux cfg stop j w 0 true m).main).main = replay cfg stop w m := by
  have h1 := replay_idempotent cfg stop w m j habs hok
  have hok1 : (replay cfg stop w (replayAux cfg stop j w 0 true m).main).rc = .ok := by rw [h1]; exact hok
  rw [replay_idempotent cfg stop w _ k habs hok1, h1]

end IwModel.C04
