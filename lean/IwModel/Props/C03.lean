import IwModel.Model.Format
import IwModel.Lemmas.FormatEnc
import IwModel.Lemmas.Format
/-! # C03 — a cleanly closed store reopens with identical contents

Reopen = reading the closed file. The writer side of the format (Model/FormatEnc.lean, tied byte for
byte to real files by `drv fmt reenc`) and the reader (Model/Format.lean, the code that audits real
files) are inverse to each other: record by record (`*_roundtrip`), for a whole node
(`node_contents_roundtrip`) and for a whole database laid out in a file (`reopen_contents`). -/
namespace IwModel.C03
open IwModel IwModel.FormatEnc IwModel.Format

/-- **Node record round trip.** Whatever `_sblk_sync_mm` writes for a well-formed node over *any* previous content
of the 256-byte record (stale `n[]`/`lk` tails included), `_sblk_at2` reads back exactly. -/
theorem sblk_roundtrip_over (old : Bytes) (s : SblkRec) (hold : old.length = Gen.SBLK_SZ) (h : WfSblk s) :
    decSblk (encSblkOver old s) = some s := by
  have hw := sblkWrites_wf s h
  rw [← hold] at hw
  have hlen : (encSblkOver old s).length = Gen.SBLK_SZ := by
    rw [encSblkOver, length_pokes _ _ hw.1, hold]
  exact decSblk_of_reads _ s hlen h (peek_pokes_mem old _ hw)

/-- **Data block header + index round trip** (`_kvblk_sync_mm` / `_kvblk_at_mm`), whatever follows the index. -/
theorem kvindex_roundtrip (k : KvIndex) (rest : Bytes) (h : WfKvIndex k) :
    decKvIndex (encKvIndex k ++ rest) = some k := by
  simp [decKvIndex, decKvIndexE_enc k rest h, Except.toOption]

/-- **Record round trip**: `[klen:vn,key,value]` written by `_kvblk_addkv`, read with the slot length, whatever
follows the record. -/
theorem kv_roundtrip (k v rest : Bytes) (hk : k.length < 2 ^ 63) :
    decKv (encKv k v ++ rest) (encKv k v).length = some (k, v) := by
  simp [decKv, decKvE_enc k v rest hk, Except.toOption]

/-- **Database header round trip** (`_db_save` + database branch of `_sblk_sync_mm` / `_db_at`). -/
theorem dbhdr_roundtrip_over (old : Bytes) (d : DbHdr) (hold : old.length = Gen.DOFF_END) (h : WfDbHdr d) :
    decDbHdr (encDbHdrOver old d) = some d := dbhdr_dec_enc_over old d hold h

/-- the field widths of the allocator header add up to the generated header size -/
theorem fsm_layout_total : FOFF_END = Gen.IWFSM_CUSTOM_HDR_DATA_OFFSET := FormatEnc.fsm_layout_total

/-- **Allocator header round trip** (`_fsm_write_meta_lw` / `_fsm_read_meta_lr`). -/
theorem fsmhdr_roundtrip (f : FsmHdr) (h : WfFsmHdr f) : decFsmHdr (encFsmHdr f) = some f := by
  have hz : (zeros Gen.IWFSM_CUSTOM_HDR_DATA_OFFSET).length = Gen.IWFSM_CUSTOM_HDR_DATA_OFFSET := by simp [zeros]
  have hw := fsmHdrWrites_wf f
  rw [← hz] at hw
  have hlen : (encFsmHdr f).length = Gen.IWFSM_CUSTOM_HDR_DATA_OFFSET := by
    rw [encFsmHdr, length_pokes _ _ hw.1, hz]
  have rd : ∀ w ∈ fsmHdrWrites f, peek (encFsmHdr f) w.1 w.2.length = w.2 := peek_pokes_mem _ _ hw
  have f0 := rd (FOFF_MAGIC, leEnc 4 Gen.IWFSM_MAGICK) (by simp [fsmHdrWrites])
  have f1 := rd (FOFF_BPOW, [f.bpow]) (by simp [fsmHdrWrites])
  have f2 := rd (FOFF_BMOFF, leEnc 8 f.bmoff) (by simp [fsmHdrWrites])
  have f3 := rd (FOFF_BMLEN, leEnc 8 f.bmlen) (by simp [fsmHdrWrites])
  have f4 := rd (FOFF_CRZSUM, leEnc 8 f.crzsum) (by simp [fsmHdrWrites])
  have f5 := rd (FOFF_CRZNUM, leEnc 4 f.crznum) (by simp [fsmHdrWrites])
  have f6 := rd (FOFF_CRZVAR, leEnc 8 f.crzvar) (by simp [fsmHdrWrites])
  have f7 := rd (FOFF_HDRLEN, leEnc 4 f.hdrlen) (by simp [fsmHdrWrites])
  simp only [List.length_cons, List.length_nil, Nat.zero_add, length_leEnc] at f0 f1 f2 f3 f4 f5 f6 f7
  have hm : leDec (leEnc 4 Gen.IWFSM_MAGICK) = Gen.IWFSM_MAGICK := leDec_leEnc4 _ (by decide)
  simp only [decFsmHdr, byte, hlen, f0, f1, f2, f3, f4, f5, f6, f7, leDec_single, Nat.lt_irrefl, if_false,
    leDec_leEnc8 _ h.bmoff, leDec_leEnc8 _ h.bmlen, leDec_leEnc8 _ h.crzsum, leDec_leEnc4 _ h.crznum,
    leDec_leEnc8 _ h.crzvar, leDec_leEnc4 _ h.hdrlen, hm, ne_eq, not_true_eq_false]

/-- node record in a fresh (zeroed) page slot -/
theorem sblk_roundtrip (s : SblkRec) (h : WfSblk s) : decSblk (encSblk s) = some s :=
  sblk_roundtrip_over _ s (by simp [zeros]) h

theorem dbhdr_roundtrip (d : DbHdr) (h : WfDbHdr d) : decDbHdr (encDbHdr d) = some d :=
  dbhdr_roundtrip_over _ d (by simp [zeros]) h

/-- the encodings are byte strings of the right size -/
theorem sblk_enc_bytes (s : SblkRec) (h : WfSblk s) : (encSblk s).length = Gen.SBLK_SZ ∧ Bytes.wf (encSblk s) := by
  have hw := sblkWrites_wf s h
  have hz : (zeros Gen.SBLK_SZ).length = Gen.SBLK_SZ := by simp [zeros]
  refine ⟨by rw [encSblk, encSblkOver, length_pokes _ _ (by rw [hz]; exact hw.1), hz], ?_⟩
  apply wf_pokes _ _ (wf_zeros _)
  intro w hw'
  simp only [sblkWrites, List.mem_cons, List.not_mem_nil, or_false] at hw'
  rcases hw' with rfl | rfl | rfl | rfl | rfl | rfl | rfl | rfl | rfl | rfl
  · exact wf_single _ h.flags
  · exact wf_single _ (by have := h.lvl; simp [Gen.SLEVELS] at this; omega)
  · exact wf_single _ (by have := h.lkl; simp [Gen.PREFIX_KEY_LEN_V2] at this; omega)
  · exact wf_single _ (by have := h.pnum; simp [Gen.KVBLK_IDXNUM] at this; omega)
  · exact leEnc_wf _ _
  · exact leEnc_wf _ _
  · exact h.pi
  · exact encU4s_wf _
  · exact wf_single _ h.bpos
  · exact h.lk

/-- every store of a well-formed write list is in the memory afterwards -/
theorem holds_after_writes (old : Bytes) (ws : List (Nat × Bytes)) (h : WfWrites old.length ws) :
    (pokes old ws).length = old.length ∧ ∀ w ∈ ws, Holds (pokes old ws) w := by
  have hl := length_pokes old ws h.1
  exact ⟨hl, fun w hw => ⟨by rw [hl]; exact h.1 w hw, peek_pokes_mem old ws h w hw⟩⟩

/-- **A node is read back, whatever its slot assignment**: any node image with a readable geometry
(`WfNode`), stored with non-overlapping stores over arbitrary old content, is returned by the reader. -/
theorem node_roundtrip (old : Bytes) (s : Sblk) (h : WfNode old.length s) (hw : WfWrites old.length (nodeWrites s)) :
    parseSblk (Mem.ofBytes (pokes old (nodeWrites s))) s.blk = .ok s := by
  obtain ⟨hl, hh⟩ := holds_after_writes old (nodeWrites s) hw
  exact parseSblk_ok _ s (by rw [hl]; exact h) hh

/-- **Node contents round trip.** Records appended to a fresh data block the way `_kvblk_addkv` does it (record `j`
into slot `j`, right below record `j-1`, offsets counted from the block end; `mkNode`, `layoutSlots`), the index
synced by `_kvblk_sync_mm` and the node record by `_sblk_sync_mm`, are read back by the reader as the same
record list in `pi` order, provided they fit the block (`NodeFits`: the test `_kvblk_addkv` makes before it
grows the block) and node record and data block lie apart inside the file. -/
theorem node_contents_roundtrip (old : Bytes) (p : NodePlace) (lvl : Nat) (n : List Nat) (p0 : Nat)
    (recs : List (Bytes × Bytes)) (h : NodeFits old.length p lvl n p0 recs) :
    (parseSblk (Mem.ofBytes (pokes old (nodeWrites (mkNode p lvl n p0 recs)))) p.blk).map (fun s => (s.pi, s.recs)) =
      .ok (List.range recs.length, recs) := by
  have := node_roundtrip old (mkNode p lvl n p0 recs) (mkNode_wf _ p lvl n p0 recs h) (mkNode_writes _ p lvl n p0 recs h)
  have hb : (mkNode p lvl n p0 recs).blk = p.blk := rfl
  rw [hb] at this
  rw [this]
  simp only [Except.map, mkNode_pi]
  rfl

/-- non-vacuity: a two-record node of level 1 at block 40 with a 512-byte data block at block 48 of an 8 KB file -/
example : NodeFits 8192 ⟨40, 48, 9, 1⟩ 1 [0, 52] 30 [([3, 4], [5]), ([2], [9, 9, 200])] := by
  refine ⟨by decide, by decide, by decide, by decide, by decide, by decide, by decide, by decide, ?_, ?_, by decide, ?_,
    by decide, by decide, by decide⟩
  · intro r hr; simp at hr; rcases hr with rfl | rfl <;> (intro b hb; simp at hb; omega)
  · intro r hr; simp at hr; rcases hr with rfl | rfl <;> simp [encKv, enc_small, Gen.IWKV_MAX_KVSZ]
  · simp [layoutSlots, layoutOffs, encKv, enc_small, encSlots, total_cons, total_nil, Gen.KVBLK_IDXNUM, Gen.KVBLK_HDRSZ,
      List.replicate]

/-- **Reopen reads back what close left in the file.** Take any database image `d` the C code can have
written (`WfDbImg`: field ranges of the C types, level-0 links threading the nodes, every slot naming a
record of its length, and the *layout*: all stores inside the file and pairwise disjoint), write it over
arbitrary old file content with the stores of the C writers (`dbWrites`: database block, metadata, node
records, data-block indexes, records at `block_end - off`), and run the reader that audits real files
(`Format.parseDb`) on the result: it returns exactly `d` — same id, flags, links, counters, nodes, and the
records of every node in `pi` order — and the metadata bytes. -/
theorem reopen_contents (old : Bytes) (d : DbImg) (mdata : Bytes) (h : WfDbImg old.length d mdata) :
    parseDb (Mem.ofBytes (writeDb old d mdata)) d.blk = .ok d ∧
    metaOf (Mem.ofBytes (writeDb old d mdata)) d mdata.length = mdata := by
  obtain ⟨hl, hh⟩ := holds_after_writes old (dbWrites d mdata) h.writes
  exact parseDb_ok (writeDb old d mdata) d mdata (by rw [writeDb, hl]; exact h) hh

/-- … in particular the flattened record list, the id and the flags -/
theorem reopen_records (old : Bytes) (d : DbImg) (mdata : Bytes) (h : WfDbImg old.length d mdata) :
    (parseDb (Mem.ofBytes (writeDb old d mdata)) d.blk).map (fun r => (r.id, r.flags, r.nodes.flatMap (·.recs))) =
      .ok (d.id, d.flags, d.nodes.flatMap (·.recs)) := by
  rw [(reopen_contents old d mdata h).1]; rfl

/-- **Reopen of a key-value database.** Take a database as the key-value model has it — a list of nodes, each
with its skip-list level and its records (stored key, value) in key order (`Kv.Node`) — its id, flags and metadata,
and a layout (`DbPlace`, `NodePlace` per node: block of the node record, block and size of its data block, page
slot) such that everything fits and the regions are inside the file and pairwise disjoint (`DbFits`). Write it
the way the C code does (`mkDb` threads the links, `writeDb` performs the stores) over arbitrary old file
content. The reader that audits real files then returns the same id and flags, the same node list (levels and
records, hence the same `Kv.flatten`-ed record list) and the same metadata. -/
theorem reopen_db (old : Bytes) (dp : DbPlace) (flags id next : Nat) (mdata : Bytes) (ns : List PNode)
    (h : DbFits old.length dp flags id next mdata ns) :
    (parseDb (Mem.ofBytes (writeDb old (mkDb dp flags id next ns) mdata)) dp.blk).map
        (fun r => (r.id, r.flags, r.nodes.map fun s => (⟨s.lvl, s.recs⟩ : Kv.Node Bytes Bytes))) =
      .ok (id, flags, ns.map PNode.node) ∧
    (parseDb (Mem.ofBytes (writeDb old (mkDb dp flags id next ns) mdata)) dp.blk).map
        (fun r => r.nodes.flatMap (·.recs)) = .ok (Kv.flatten (ns.map PNode.node)) ∧
    metaOf (Mem.ofBytes (writeDb old (mkDb dp flags id next ns) mdata)) (mkDb dp flags id next ns) mdata.length = mdata := by
  have hr := reopen_contents old (mkDb dp flags id next ns) mdata (mkDb_wf _ dp flags id next mdata ns h)
  have hb : (mkDb dp flags id next ns).blk = dp.blk := rfl
  rw [hb] at hr
  refine ⟨?_, ?_, hr.2⟩
  · rw [hr.1]
    simp only [Except.map]
    have : (mkDb dp flags id next ns).nodes = mkNodes dp.blk ns := rfl
    rw [this, mkNodes_nodes]
    rfl
  · rw [hr.1]
    simp only [Except.map]
    have : (mkDb dp flags id next ns).nodes = mkNodes dp.blk ns := rfl
    rw [this, mkNodes_recs]
    simp [Kv.flatten, PNode.node, List.flatMap_map]

def exA : PNode := ⟨⟨8, 16, 9, 1⟩, 1, [([9, 9], [1]), ([8], [2, 2])]⟩
def exB : PNode := ⟨⟨10, 24, 9, 2⟩, 0, [([5], []), ([1, 2, 3], [7])]⟩

theorem exA_fits : PNodeFits exA := by
  refine ⟨by decide, by decide, by decide, by decide, by decide, by decide, ?_, ?_, by decide, ?_⟩
  · intro r hr; simp [exA] at hr; rcases hr with rfl | rfl <;> (intro b hb; simp at hb; omega)
  · intro r hr; simp [exA] at hr; rcases hr with rfl | rfl <;> simp [encKv, enc_small, Gen.IWKV_MAX_KVSZ]
  · simp [exA, layoutSlots, layoutOffs, encKv, enc_small, encSlots, total_cons, total_nil, Gen.KVBLK_IDXNUM, Gen.KVBLK_HDRSZ,
      List.replicate]

theorem exB_fits : PNodeFits exB := by
  refine ⟨by decide, by decide, by decide, by decide, by decide, by decide, ?_, ?_, by decide, ?_⟩
  · intro r hr; simp [exB] at hr; rcases hr with rfl | rfl <;> (intro b hb; simp at hb; omega)
  · intro r hr; simp [exB] at hr; rcases hr with rfl | rfl <;> simp [encKv, enc_small, Gen.IWKV_MAX_KVSZ]
  · simp [exB, layoutSlots, layoutOffs, encKv, enc_small, encSlots, total_cons, total_nil, Gen.KVBLK_IDXNUM, Gen.KVBLK_HDRSZ,
      List.replicate]

/-- non-vacuity of `reopen_db`: two nodes (levels 1 and 0, two records each) in an 8 KB file -/
example : DbFits 8192 ⟨2, 6, 1⟩ 64 7 0 [1, 2, 3, 4, 5] [exA, exB] := by
  refine ⟨by decide, by decide, by decide, by decide, by decide, by decide, by decide, by decide, ?_, ?_, ?_⟩
  · intro x hx; simp at hx; rcases hx with rfl | rfl
    · exact exA_fits
    · exact exB_fits
  · simp [dbRegions, nodeRegions, exA, exB, bs, Gen.IWKV_FSM_BPOW, Gen.DOFF_END, Gen.SBLK_SZ]
  · simp [dbRegions, nodeRegions, exA, exB, bs, disj, Gen.IWKV_FSM_BPOW, Gen.DOFF_END, Gen.SBLK_SZ]

example : WfSblk { flags := 1, lvl := 2, lkl := 3, pnum := 2, p0 := 70000, kblk := 12345678,
                   piAll := 5 :: 0 :: List.replicate 30 7, n := [9, 0, 4000000000], bpos := 16, lk := [1, 255, 0] } := by
  constructor <;> first | decide | (intro x hx; simp at hx; omega)

example : WfKvIndex (KvIndex.ofSlots 9 ((300, 200) :: (100, 100) :: List.replicate 30 (0, 0))) := by
  apply wfKvIndex_ofSlots _ _ (by decide) (by decide)
  intro p hp
  simp only [List.mem_cons, List.mem_replicate] at hp
  rcases hp with rfl | rfl | ⟨_, rfl⟩ <;> decide

example : WfDbHdr { flags := 96, id := 7, next := 0, p0 := 44, n := 44 :: List.replicate 23 0, c := 1 :: List.replicate 23 0,
                    metaBlk := 90, metaBlkn := 3 } := by
  constructor <;> first | decide | (intro x hx; simp at hx; omega)

example : WfFsmHdr { bpow := 7, bmoff := 4096, bmlen := 8192, crzsum := 100000, crznum := 77, crzvar := 1 <<< 40, hdrlen := 255 } := by
  constructor <;> decide

end IwModel.C03
