import IwModel.Model.Format
/-! # C03 — a cleanly closed store reopens with identical contents (theorems follow) -/
namespace IwModel.C03
end IwModel.C03
