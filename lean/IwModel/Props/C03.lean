import IwModel.Model.Format
import IwModel.Lemmas.FormatEnc
/-! # C03 — a cleanly closed store reopens with identical contents

Reopen = reading the closed file. The writer side of the format (Model/FormatEnc.lean, tied byte for
byte to real files by `drv fmt reenc`) and the reader (Model/Format.lean, the code that audits real
files) are inverse to each other: record by record (`*_roundtrip`), for a whole node
(`node_contents_roundtrip`) and for a whole database laid out in a file (`reopen_contents`). -/
namespace IwModel.C03
open IwModel IwModel.FormatEnc

/-- **Node record round trip.** Whatever `_sblk_sync_mm` writes for a well-formed node over *any* previous content
of the 256-byte record (stale `n[]`/`lk` tails included), `_sblk_at2` reads back exactly. -/
theorem sblk_roundtrip_over (old : Bytes) (s : SblkRec) (hold : old.length = Gen.SBLK_SZ) (h : WfSblk s) :
    decSblk (encSblkOver old s) = some s := by
  have hw := sblkWrites_wf s h
  rw [← hold] at hw
  have hlen : (encSblkOver old s).length = Gen.SBLK_SZ := by
    rw [encSblkOver, length_pokes _ _ hw.1, hold]
  have rd : ∀ w ∈ sblkWrites s, peek (encSblkOver old s) w.1 w.2.length = w.2 := peek_pokes_mem old _ hw
  have f0 := rd (Gen.SOFF_FLAGS_U1, [s.flags]) (by simp [sblkWrites])
  have f1 := rd (Gen.SOFF_LVL_U1, [s.lvl]) (by simp [sblkWrites])
  have f2 := rd (Gen.SOFF_LKL_U1, [s.lkl]) (by simp [sblkWrites])
  have f3 := rd (Gen.SOFF_PNUM_U1, [s.pnum]) (by simp [sblkWrites])
  have f4 := rd (Gen.SOFF_P0_U4, leEnc 4 s.p0) (by simp [sblkWrites])
  have f5 := rd (Gen.SOFF_KBLK_U4, leEnc 4 s.kblk) (by simp [sblkWrites])
  have f6 := rd (Gen.SOFF_PI0_U1, s.piAll) (by simp [sblkWrites])
  have f7 := rd (Gen.SOFF_N0_U4, encU4s s.n) (by simp [sblkWrites])
  have f8 := rd (Gen.SOFF_BPOS_U1_V2, [s.bpos]) (by simp [sblkWrites])
  have f9 := rd (Gen.SOFF_LK_V2, s.lk) (by simp [sblkWrites])
  simp only [List.length_cons, List.length_nil, Nat.zero_add, length_leEnc, h.pi_len, h.lk_len, length_encU4s, h.n_len] at f0 f1 f2 f3 f4 f5 f6 f7 f8 f9
  have hl := h.lvl; have hk := h.lkl; have hp := h.pnum
  have hn := decU4s_encU4s s.n [] h.n
  rw [List.append_nil, h.n_len] at hn
  simp only [decSblk, byte, hlen, f0, f1, f2, f3, f4, f5, f6, f7, f8, f9, leDec_single, Nat.lt_irrefl, if_false,
    leDec_leEnc4 _ h.p0, leDec_leEnc4 _ h.kblk, hn]
  rw [if_neg (by omega)]

/-- **Data block header + index round trip** (`_kvblk_sync_mm` / `_kvblk_at_mm`), whatever follows the index. -/
theorem kvindex_roundtrip (k : KvIndex) (rest : Bytes) (h : WfKvIndex k) :
    decKvIndex (encKvIndex k ++ rest) = some k := by
  have hd := decSlotsE_enc k.slots h.slots (encKvIndex k ++ rest) ([k.szpow] ++ leEnc 2 k.idxsz) rest []
    (by simp [encKvIndex, List.append_assoc])
  rw [h.slots_len] at hd
  have hpre : ([k.szpow] ++ leEnc 2 k.idxsz).length = Gen.KVBLK_HDRSZ := by simp [Gen.KVBLK_HDRSZ]
  rw [hpre] at hd
  have h0 : peek (encKvIndex k ++ rest) KOFF_SZPOW 1 = [k.szpow] := by simp [peek, encKvIndex, KOFF_SZPOW]
  have h1 : peek (encKvIndex k ++ rest) KOFF_IDXSZ 2 = leEnc 2 k.idxsz := by
    simp only [peek, encKvIndex, KOFF_IDXSZ, List.append_assoc, List.cons_append, List.nil_append, List.drop_succ_cons, List.drop_zero]
    rw [List.take_append_of_le_length (by simp), List.take_of_length_le (by simp)]
  simp only [decKvIndex, decKvIndexE, byte, h0, h1, hd, leDec_single, leDec_leEnc2 _ h.idxsz_lt]
  rw [if_neg (by have := h.idxsz; simp; omega)]
  simp [Except.toOption]

/-- **Record round trip**: `[klen:vn,key,value]` written by `_kvblk_addkv`, read with the slot length, whatever
follows the record. -/
theorem kv_roundtrip (k v rest : Bytes) (hk : k.length < 2 ^ 63) :
    decKv (encKv k v ++ rest) (encKv k v).length = some (k, v) := by
  have h1 := vnumAt_enc (encKv k v ++ rest) [] (k ++ v ++ rest) k.length (by simp [encKv, List.append_assoc])
    (enc_length_le_buf _ hk)
  simp only [List.length_nil] at h1
  simp only [decKv, decKvE, h1]
  have hl : (encKv k v).length = (Vnum.enc k.length).length + k.length + v.length := by simp [encKv]; omega
  rw [if_neg (by omega)]
  have e1 : peek (encKv k v ++ rest) (Vnum.enc k.length).length k.length = k := by
    simp only [peek, encKv, List.append_assoc]
    rw [List.drop_left', List.take_left'] <;> rfl
  have e2 : peek (encKv k v ++ rest) ((Vnum.enc k.length).length + k.length)
      ((encKv k v).length - (Vnum.enc k.length).length - k.length) = v := by
    have : (encKv k v).length - (Vnum.enc k.length).length - k.length = v.length := by omega
    rw [this]
    simp only [peek, encKv, List.append_assoc]
    rw [← List.length_append, ← List.append_assoc, List.drop_left', List.take_left'] <;> rfl
  simp [Except.toOption, e1, e2]

/-- **Database header round trip** (`_db_save` + database branch of `_sblk_sync_mm` / `_db_at`). -/
theorem dbhdr_roundtrip_over (old : Bytes) (d : DbHdr) (hold : old.length = Gen.DOFF_END) (h : WfDbHdr d) :
    decDbHdr (encDbHdrOver old d) = some d := by
  have hw := dbHdrWrites_wf d h
  rw [← hold] at hw
  have hlen : (encDbHdrOver old d).length = Gen.DOFF_END := by
    rw [encDbHdrOver, length_pokes _ _ hw.1, hold]
  have rd : ∀ w ∈ dbHdrWrites d, peek (encDbHdrOver old d) w.1 w.2.length = w.2 := peek_pokes_mem old _ hw
  have f0 := rd (Gen.DOFF_MAGIC_U4, leEnc 4 Gen.IWDB_MAGIC) (by simp [dbHdrWrites])
  have f1 := rd (Gen.DOFF_DBFLG_U1, [d.flags]) (by simp [dbHdrWrites])
  have f2 := rd (Gen.DOFF_DBID_U4, leEnc 4 d.id) (by simp [dbHdrWrites])
  have f3 := rd (Gen.DOFF_NEXTDB_U4, leEnc 4 d.next) (by simp [dbHdrWrites])
  have f4 := rd (Gen.DOFF_P0_U4, leEnc 4 d.p0) (by simp [dbHdrWrites])
  have f5 := rd (Gen.DOFF_N0_U4, encU4s d.n) (by simp [dbHdrWrites])
  have f6 := rd (Gen.DOFF_C0_U4, encU4s d.c) (by simp [dbHdrWrites])
  have f7 := rd (Gen.DOFF_METABLK_U4, leEnc 4 d.metaBlk) (by simp [dbHdrWrites])
  have f8 := rd (Gen.DOFF_METABLKN_U4, leEnc 4 d.metaBlkn) (by simp [dbHdrWrites])
  simp only [List.length_cons, List.length_nil, Nat.zero_add, length_leEnc, length_encU4s, h.n_len, h.c_len] at f0 f1 f2 f3 f4 f5 f6 f7 f8
  have hn := decU4s_encU4s d.n [] h.n
  have hc := decU4s_encU4s d.c [] h.c
  rw [List.append_nil, h.n_len] at hn
  rw [List.append_nil, h.c_len] at hc
  have hm : leDec (leEnc 4 Gen.IWDB_MAGIC) = Gen.IWDB_MAGIC := leDec_leEnc4 _ (by decide)
  simp only [decDbHdr, byte, hlen, f0, f1, f2, f3, f4, f5, f6, f7, f8, leDec_single, Nat.lt_irrefl, if_false,
    leDec_leEnc4 _ h.id, leDec_leEnc4 _ h.next, leDec_leEnc4 _ h.p0, leDec_leEnc4 _ h.metaBlk, leDec_leEnc4 _ h.metaBlkn,
    hn, hc, hm, ne_eq, not_true_eq_false]

/-- the field widths of the allocator header add up to the generated header size -/
theorem fsm_layout_total : FOFF_END = Gen.IWFSM_CUSTOM_HDR_DATA_OFFSET := by decide

/-- **Allocator header round trip** (`_fsm_write_meta_lw` / `_fsm_read_meta_lr`). -/
theorem fsmhdr_roundtrip (f : FsmHdr) (h : WfFsmHdr f) : decFsmHdr (encFsmHdr f) = some f := by
  have hz : (zeros Gen.IWFSM_CUSTOM_HDR_DATA_OFFSET).length = Gen.IWFSM_CUSTOM_HDR_DATA_OFFSET := by simp [zeros]
  have hw := fsmHdrWrites_wf f
  rw [← hz] at hw
  have hlen : (encFsmHdr f).length = Gen.IWFSM_CUSTOM_HDR_DATA_OFFSET := by
    rw [encFsmHdr, length_pokes _ _ hw.1, hz]
  have rd : ∀ w ∈ fsmHdrWrites f, peek (encFsmHdr f) w.1 w.2.length = w.2 := peek_pokes_mem _ _ hw
  have f0 := rd (FOFF_MAGIC, leEnc 4 Gen.IWFSM_MAGICK) (by simp [fsmHdrWrites])
  have f1 := rd (FOFF_BPOW, [f.bpow]) (by simp [fsmHdrWrites])
  have f2 := rd (FOFF_BMOFF, leEnc 8 f.bmoff) (by simp [fsmHdrWrites])
  have f3 := rd (FOFF_BMLEN, leEnc 8 f.bmlen) (by simp [fsmHdrWrites])
  have f4 := rd (FOFF_CRZSUM, leEnc 8 f.crzsum) (by simp [fsmHdrWrites])
  have f5 := rd (FOFF_CRZNUM, leEnc 4 f.crznum) (by simp [fsmHdrWrites])
  have f6 := rd (FOFF_CRZVAR, leEnc 8 f.crzvar) (by simp [fsmHdrWrites])
  have f7 := rd (FOFF_HDRLEN, leEnc 4 f.hdrlen) (by simp [fsmHdrWrites])
  simp only [List.length_cons, List.length_nil, Nat.zero_add, length_leEnc] at f0 f1 f2 f3 f4 f5 f6 f7
  have hm : leDec (leEnc 4 Gen.IWFSM_MAGICK) = Gen.IWFSM_MAGICK := leDec_leEnc4 _ (by decide)
  simp only [decFsmHdr, byte, hlen, f0, f1, f2, f3, f4, f5, f6, f7, leDec_single, Nat.lt_irrefl, if_false,
    leDec_leEnc8 _ h.bmoff, leDec_leEnc8 _ h.bmlen, leDec_leEnc8 _ h.crzsum, leDec_leEnc4 _ h.crznum,
    leDec_leEnc8 _ h.crzvar, leDec_leEnc4 _ h.hdrlen, hm, ne_eq, not_true_eq_false]

/-- node record in a fresh (zeroed) page slot -/
theorem sblk_roundtrip (s : SblkRec) (h : WfSblk s) : decSblk (encSblk s) = some s :=
  sblk_roundtrip_over _ s (by simp [zeros]) h

theorem dbhdr_roundtrip (d : DbHdr) (h : WfDbHdr d) : decDbHdr (encDbHdr d) = some d :=
  dbhdr_roundtrip_over _ d (by simp [zeros]) h

/-- the encodings are byte strings of the right size -/
theorem sblk_enc_bytes (s : SblkRec) (h : WfSblk s) : (encSblk s).length = Gen.SBLK_SZ ∧ Bytes.wf (encSblk s) := by
  have hw := sblkWrites_wf s h
  have hz : (zeros Gen.SBLK_SZ).length = Gen.SBLK_SZ := by simp [zeros]
  refine ⟨by rw [encSblk, encSblkOver, length_pokes _ _ (by rw [hz]; exact hw.1), hz], ?_⟩
  apply wf_pokes _ _ (wf_zeros _)
  intro w hw'
  simp only [sblkWrites, List.mem_cons, List.not_mem_nil, or_false] at hw'
  rcases hw' with rfl | rfl | rfl | rfl | rfl | rfl | rfl | rfl | rfl | rfl
  · exact wf_single _ h.flags
  · exact wf_single _ (by have := h.lvl; simp [Gen.SLEVELS] at this; omega)
  · exact wf_single _ (by have := h.lkl; simp [Gen.PREFIX_KEY_LEN_V2] at this; omega)
  · exact wf_single _ (by have := h.pnum; simp [Gen.KVBLK_IDXNUM] at this; omega)
  · exact leEnc_wf _ _
  · exact leEnc_wf _ _
  · exact h.pi
  · exact encU4s_wf _
  · exact wf_single _ h.bpos
  · exact h.lk

example : WfSblk { flags := 1, lvl := 2, lkl := 3, pnum := 2, p0 := 70000, kblk := 12345678,
                   piAll := 5 :: 0 :: List.replicate 30 7, n := [9, 0, 4000000000], bpos := 16, lk := [1, 255, 0] } := by
  constructor <;> first | decide | (intro x hx; simp at hx; omega)

example : WfKvIndex (KvIndex.ofSlots 9 ((300, 200) :: (100, 100) :: List.replicate 30 (0, 0))) := by
  apply wfKvIndex_ofSlots _ _ (by decide) (by decide)
  intro p hp
  simp only [List.mem_cons, List.mem_replicate] at hp
  rcases hp with rfl | rfl | ⟨_, rfl⟩ <;> decide

example : WfDbHdr { flags := 96, id := 7, next := 0, p0 := 44, n := 44 :: List.replicate 23 0, c := 1 :: List.replicate 23 0,
                    metaBlk := 90, metaBlkn := 3 } := by
  constructor <;> first | decide | (intro x hx; simp at hx; omega)

example : WfFsmHdr { bpow := 7, bmoff := 4096, bmlen := 8192, crzsum := 100000, crznum := 77, crzvar := 1 <<< 40, hdrlen := 255 } := by
  constructor <;> decide

end IwModel.C03
