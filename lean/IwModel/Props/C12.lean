import IwModel.Lemmas.Exf
/-! # C12 — reads through the extensible file return the bytes last written

Property theorems only; definitions of the model are in `IwModel/Model/Exf.lean` (mirrors
src/fs/iwexfile.c), helper lemmas and the flat reference machine in `IwModel/Lemmas/Exf.lean`. -/
namespace IwModel.C12
open IwModel IwModel.Exf

/-- **Request splitting.** For every window list (sorted or not, overlapping or not, mapped or not), every
    offset and every length, the pieces produced by the loop of `_exfile_read`/`_exfile_write` are
    non-empty, contiguous, in order, and cover `[off, off+n)` exactly once; and every piece that goes
    through a window names an existing window and lies inside the mapped part of that window. -/
theorem segments_partition (slots : List Slot) (off n : Nat) :
    Chain off (segs slots 0 off n) n ∧ SlotPiecesOk slots (segs slots 0 off n) :=
  ⟨segs_chain slots 0 off n, segs_slotPiecesOk slots off n⟩

/-- **Shared windows refine one flat byte array.** Starting from any state whose windows are all shared,
    every history of write / read / copy / truncate / ensure_size / add (shared) / remove window / store
    through a mapping / remap_all gives exactly the results (return codes, bytes read) and the final state
    of the flat reference machine, in which `read` is one `pread` clipped at the logical size, `write` is
    `ensure_size` followed by one `pwrite`, and nothing is split. -/
theorem shared_refines_flat (st : St) (ops : List Op) (hs : AllShared st.slots) (hops : ∀ op ∈ ops, op.shared) :
    run st ops = flatRun st ops :=
  run_eq_flatRun ops st hs hops

/-- **Sizes.** Whatever the history (shared or private windows, failed calls included), the logical size
    stays a multiple of the page size and, when a maximum offset is configured, never exceeds it. -/
theorem size_inv (st : St) (ops : List Op) (h : SizeInv st) : SizeInv (run st ops).1 :=
  run_sizeInv ops st h

/-- non-vacuity: a freshly opened file satisfies the size invariant and has only shared windows -/
example : SizeInv ({ psize := 4096, cbuf := 4096 } : St) ∧ AllShared ({ psize := 4096, cbuf := 4096 } : St).slots :=
  ⟨⟨by decide, by decide, by simp⟩, by simp [AllShared]⟩

end IwModel.C12
