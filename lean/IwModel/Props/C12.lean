import IwModel.Lemmas.ExfDiverge
import IwModel.Lemmas.ExfLsn
/-! # C12 — reads through the extensible file return the bytes last written

Property theorems only; definitions of the model are in `IwModel/Model/Exf.lean` (mirrors
src/fs/iwexfile.c), helper lemmas and the flat reference machine in `IwModel/Lemmas/Exf.lean`. -/
namespace IwModel.C12
open IwModel IwModel.Exf

/-- **Request splitting.** For every window list (sorted or not, overlapping or not, mapped or not), every
    offset and every length, the pieces produced by the loop of `_exfile_read`/`_exfile_write` are
    non-empty, contiguous, in order, and cover `[off, off+n)` exactly once; and every piece that goes
    through a window names an existing window and lies inside the mapped part of that window. -/
theorem segments_partition (slots : List Slot) (off n : Nat) :
    Chain off (segs slots 0 off n) n ∧ SlotPiecesOk slots (segs slots 0 off n) :=
  ⟨segs_chain slots 0 off n, segs_slotPiecesOk slots off n⟩

/-- **Pieces go where they belong, along every history.** Start from a state whose window list is ascending
    with disjoint address ranges and mapped as far as the file reaches (true of a freshly opened file) and run any
    history (private windows, failed calls, growth, shrinking, adding and removing windows included): the window list
    keeps that shape, and for every request the pieces sent through the *file* never touch the mapped part of any
    window — so a read through the file can never miss bytes that live only in a (private) mapping, and a write
    through the file can never be shadowed by one. Together with `segments_partition` (window pieces lie inside
    their window) every byte of a request takes the one path that is right for it. -/
theorem file_pieces_avoid_windows (st : St) (ops : List Op) (h : WInv st.slots st.fsize) (off n : Nat) :
    WInv (run st ops).1.slots (run st ops).1.fsize ∧
    ∀ g ∈ segs (run st ops).1.slots 0 off n, g.slot = none → ∀ s ∈ (run st ops).1.slots, Avoids g s :=
  ⟨run_WInv ops st h, segs_file_avoids _ _ 0 off n (run_WInv ops st h)⟩

/-- non-vacuity: the empty window list of a freshly opened file satisfies `WInv` -/
example : WInv ({ psize := 4096, cbuf := 4096 } : St).slots 0 := ⟨List.Pairwise.nil, by simp⟩

/-- **Shared windows refine one flat byte array.** Starting from any state whose windows are all shared,
    every history of write / read / copy / truncate / ensure_size / add (shared) / remove window / store
    through a mapping / remap_all gives exactly the results (return codes, bytes read) and the final state
    of the flat reference machine, in which `read` is one `pread` clipped at the logical size, `write` is
    `ensure_size` followed by one `pwrite`, and nothing is split. -/
theorem shared_refines_flat (st : St) (ops : List Op) (hs : AllShared st.slots) (hops : ∀ op ∈ ops, op.shared) :
    run st ops = flatRun st ops :=
  run_eq_flatRun ops st hs hops

/-- **Sizes.** Whatever the history (shared or private windows, failed calls included), the logical size
    stays a multiple of the page size and, when a maximum offset is configured, never exceeds it. -/
theorem size_inv (st : St) (ops : List Op) (h : SizeInv st) : SizeInv (run st ops).1 :=
  run_sizeInv ops st h

/-- **Read after write (shared windows).** A successful write of `d` at `off` — whichever pieces went through
    windows or through the file, whether or not the file had to grow — is read back exactly by a read of
    the same range. -/
theorem read_after_write (st st' : St) (off : Int) (d : Bytes) (sp : Nat) (hs : AllShared st.slots) (hp : 0 < st.psize)
    (hw : write st off d = (.ok, sp, st')) : read st' off d.length = (.ok, d) := by
  rw [write_eq_flat _ _ _ hs] at hw
  have hs' : AllShared st'.slots := by
    have := flatExec_allShared st (.write off d) hs trivial
    simpa only [flatExec, hw] using this
  rw [read_eq_flat _ _ _ hs']
  exact flatRead_after_flatWrite st st' off d sp hp hw

/-- **Other bytes keep their value.** After a successful write, any range below the old logical size that
    does not meet the written range reads exactly as before (the most recent bytes written there). -/
theorem read_unaffected_by_write (st st' : St) (off : Int) (d : Bytes) (sp : Nat) (hs : AllShared st.slots)
    (hp : 0 < st.psize) (hi : Inv st) (hw : write st off d = (.ok, sp, st')) (o n : Nat) (hin : o + n ≤ st.fsize)
    (hdis : o + n ≤ off.toNat ∨ off.toNat + d.length ≤ o) : read st' o n = read st o n := by
  rw [write_eq_flat _ _ _ hs] at hw
  have hs' : AllShared st'.slots := by
    have := flatExec_allShared st (.write off d) hs trivial
    simpa only [flatExec, hw] using this
  rw [read_eq_flat _ _ _ hs', read_eq_flat _ _ _ hs]
  exact flatRead_other_after_flatWrite st st' off d sp hp hi hw o n hin hdis

/-- **Zero where nothing was written.** Bytes that a growing write exposes between the old size and the new
    one, outside the written range, read as zero. -/
theorem read_fresh_is_zero (st st' : St) (off : Int) (d : Bytes) (sp : Nat) (hs : AllShared st.slots)
    (hp : 0 < st.psize) (hi : Inv st) (hw : write st off d = (.ok, sp, st')) (o n : Nat) (hlo : st.fsize ≤ o)
    (hhi : o + n ≤ st'.fsize) (hb : (o : Int) + n ≤ offTMax) (hdis : o + n ≤ off.toNat ∨ off.toNat + d.length ≤ o) :
    read st' o n = (.ok, zeros n) := by
  rw [write_eq_flat _ _ _ hs] at hw
  have hs' : AllShared st'.slots := by
    have := flatExec_allShared st (.write off d) hs trivial
    simpa only [flatExec, hw] using this
  rw [read_eq_flat _ _ _ hs']
  exact flatRead_fresh_after_flatWrite st st' off d sp hp hi hw o n hlo hhi hb hdis

/-- **Copy is memmove on the flat array.** With shared windows, a copy whose source lies inside the logical size
    either moves the bytes exactly as `memmove` would on one flat array (whichever branch is taken: the mapped
    first window, or the 4096-byte chunk loop through the file, also for a destination that overlaps the source
    from below), or — only when the destination starts inside the source and the file path is taken — is
    refused with `overflow` and changes nothing. -/
theorem copy_is_memmove (st : St) (off siz noff : Nat) (hs : AllShared st.slots) (hi : Inv st) (hc : 0 < st.cbuf)
    (hsrc : off + siz ≤ st.fsize) :
    copy st off siz noff = (.ok, { st with file := writeAt st.file noff (readAt st.file off siz) }) ∨
    (copy st off siz noff = (.overflow, st) ∧ off < noff ∧ noff < off + siz) := by
  rw [copy_eq_flat _ _ _ _ hs]
  have hfile : fileCopy st.cbuf st.file off siz noff = (.ok, writeAt st.file noff (readAt st.file off siz)) ∨
      (fileCopy st.cbuf st.file off siz noff = (.overflow, st.file) ∧ off < noff ∧ noff < off + siz) := by
    by_cases h : noff ≤ off ∨ off + siz ≤ noff
    · left; exact fileCopy_eq_memmove _ hc _ _ _ _ (by rw [hi.1]; exact hsrc) h
    · right; exact ⟨fileCopy_forward _ _ _ _ _ (by omega) (by omega), by omega, by omega⟩
  unfold flatCopy
  split
  · split
    · left; rfl
    · rcases hfile with e | ⟨e, h1, h2⟩
      · left; rw [e]
      · right; rw [e]; exact ⟨rfl, h1, h2⟩
  · rcases hfile with e | ⟨e, h1, h2⟩
    · left; rw [e]
    · right; rw [e]; exact ⟨rfl, h1, h2⟩

/-- **The resize policy is followed.** When `ensure_size` (also the growth step of a write) succeeds on a
    file that is too small, the new logical size is exactly what the configured policy function proposed
    (`policy`: default = round up; Fibonacci = round up `max (current + previous) needed`; multiplier =
    round up `needed / d * n`), cut down to `maxoff` when that is configured and smaller; it holds the
    requested size, and the Fibonacci context now remembers the old size. -/
theorem ensure_follows_policy (st st' : St) (sz : Nat) (hp : 0 < st.psize) (hmo : st.maxoff % st.psize = 0)
    (hlt : st.fsize < sz) (h : ensureSize st sz = (.ok, st')) :
    st'.fsize = (if st.maxoff ≠ 0 ∧ (policy st.psize st.pol st.prev sz st.fsize).1 > st.maxoff then st.maxoff
                 else (policy st.psize st.pol st.prev sz st.fsize).1) ∧
    sz ≤ st'.fsize ∧ st'.prev = (policy st.psize st.pol st.prev sz st.fsize).2 := by
  have hge := ensureSize_ok_ge st sz hp (by rw [h])
  rw [h] at hge
  refine ⟨?_, hge, ?_⟩
  · rcases ensureSize_cases st sz with ⟨h0, _⟩ | ⟨_, e | e | ⟨T, hT, e, hTeq, hal⟩⟩
    · omega
    · rw [e] at h; cases h
    · rw [e] at h; cases h
    · have hTal : T % st.psize = 0 := by rw [hTeq]; split <;> assumption
      rw [e] at h
      rcases truncate_cases { st with prev := (policy st.psize st.pol st.prev sz st.fsize).2 } T with
        ⟨e2, he⟩ | ⟨e2, _⟩ | ⟨e2, _⟩
      · exfalso
        have := roundUp_ge T st.psize hp
        simp only [] at he
        omega
      · rw [e2] at h; cases h
      · rw [e2] at h; simp only [Prod.mk.injEq, true_and] at h; subst h
        simp only []
        rw [roundUp_of_mod T st.psize hp hTal, hTeq]
  · rcases ensureSize_cases st sz with ⟨h0, _⟩ | ⟨_, e | e | ⟨T, hT, e, _, _⟩⟩
    · omega
    · rw [e] at h; cases h
    · rw [e] at h; cases h
    · rw [e] at h
      rcases truncate_cases { st with prev := (policy st.psize st.pol st.prev sz st.fsize).2 } T with
        ⟨e2, _⟩ | ⟨e2, _⟩ | ⟨e2, _⟩ <;> rw [e2] at h
      · simp only [Prod.mk.injEq, true_and] at h; subst h; rfl
      · cases h
      · simp only [Prod.mk.injEq, true_and] at h; subst h; rfl

/-- **The size on disk is the logical size, and the next open sees it.** Along every history with shared
    windows whose copies end inside the logical size, the file on disk is exactly `fsize` bytes long and every
    window is mapped as far as the file reaches; closing and opening again (no initial size) then reports the
    same size and the same bytes. The hypothesis on copies is necessary: see finding C12-COPYEXT. -/
theorem reopen_size_partial (st : St) (ops : List Op) (pol : Policy) (maxoff : Nat) (hz : SizeInv st)
    (hs : AllShared st.slots) (hops : ∀ op ∈ ops, op.shared) (hi : Inv st) (hc : CopiesInside st ops) :
    Inv (run st ops).1 ∧
    (openFile (close (run st ops).1) pol maxoff 0 false).1 = .ok ∧
    (openFile (close (run st ops).1) pol maxoff 0 false).2.fsize = (run st ops).1.fsize ∧
    (openFile (close (run st ops).1) pol maxoff 0 false).2.file = (run st ops).1.file := by
  have hinv : Inv (run st ops).1 := by
    rw [run_eq_flatRun ops st hs hops]; exact flatRun_inv ops st hz.1 hs hops hi hc
  have hsz := run_sizeInv ops st hz
  generalize (run st ops).1 = s at hinv hsz
  refine ⟨hinv, ?_⟩
  unfold openFile close
  simp only [Bool.false_eq_true, if_false, Nat.not_lt_zero]
  rw [hinv.1]
  simp [hsz.2.1]

/-! ### The size the next open sees, at full strength (no hypothesis on copies) -/

/-- **The size on disk after one call, exactly** (shared windows, any call). When the logical size changed, the
    disk has exactly the new logical size; otherwise the length on disk is unchanged, with one exception — finding
    C12-COPYEXT, characterised by `copyDisk`: a non-empty copy whose source *starts* inside the file on disk and whose
    destination lies behind the whole source range leaves the disk `max (old length) (noff + siz)` bytes long (the chunk
    loop of `iwp_copy_bytes` reads short at the old end once and then reads the bytes it appended itself), which
    is beyond `fsize` whenever `noff + siz > fsize`. The disk is never shorter than the logical size. -/
theorem disk_size_step (st : St) (op : Op) (hp : 0 < st.psize) (hs : AllShared st.slots) (hi : DInv st) :
    DInv (exec st op).1 ∧ (exec st op).1.file.length = stepDisk st op (exec st op).1.fsize := by
  rw [exec_eq_flat st op hs]
  exact flatExec_disk st op hp hi

/-- the exception spelled out: the copy of finding C12-COPYEXT makes the disk longer than the logical size exactly when
    it is non-empty, starts inside the disk file, goes behind its source, and ends beyond the old length -/
theorem copy_extends_disk_iff (st : St) (off siz noff : Nat) (hp : 0 < st.psize) (hs : AllShared st.slots) (hi : DInv st) :
    (exec st (.copy off siz noff)).1.file.length > st.file.length ↔
      0 < st.cbuf ∧ 0 < siz ∧ off < st.file.length ∧ off + siz ≤ noff ∧ st.file.length < noff + siz := by
  have h := (disk_size_step st (.copy off siz noff) hp hs hi).2
  have hf : (exec st (.copy off siz noff)).1.fsize = st.fsize := by
    have := copy_core st off siz noff
    simp only [core, Prod.mk.injEq] at this
    exact this.2.1
  rw [h, hf]
  simp only [stepDisk, if_true, copyDisk]
  split
  · rename_i hc; constructor
    · intro hgt; exact ⟨hc.1, hc.2.1, hc.2.2.1, hc.2.2.2, by omega⟩
    · intro hx; omega
  · rename_i hc; constructor
    · intro hgt; omega
    · intro hx; exact absurd ⟨hx.1, hx.2.1, hx.2.2.1, hx.2.2.2.1⟩ hc

/-- **What the next open sees (full strength).** Along *every* history with shared windows — copies that end beyond
    the logical size included — the disk is at least `fsize` long and the windows are mapped as far as `fsize` reaches; closing
    and opening again (any policy, any `maxoff`, no initial size) makes the length on disk, rounded up to a page, the
    new logical size, keeps the bytes and zero-fills the rest of the last page; the open fails (`maxoff`) exactly when that
    rounding is needed and passes the new `maxoff`. The reopened file has disk size = logical size again. -/
theorem reopen_size (st : St) (ops : List Op) (pol : Policy) (maxoff : Nat) (hz : SizeInv st)
    (hs : AllShared st.slots) (hops : ∀ op ∈ ops, op.shared) (hi : DInv st) :
    let s := (run st ops).1
    let L := roundUp s.file.length s.psize
    let r := openFile (close s) pol maxoff 0 false
    DInv s ∧
    r.1 = (if s.file.length % s.psize ≠ 0 ∧ openMaxoff s.psize maxoff ≠ 0 ∧ L > openMaxoff s.psize maxoff
           then .maxoff else .ok) ∧
    (r.1 = .ok → r.2.fsize = L ∧ r.2.file = resize s.file L ∧ Inv r.2) := by
  simp only []
  have hd : DInv (run st ops).1 := by
    rw [run_eq_flatRun ops st hs hops]; exact flatRun_dinv ops st hz.1 hs hops hi
  have hsz := run_sizeInv ops st hz
  generalize (run st ops).1 = s at hd hsz
  have ho := openFile_size s pol maxoff hsz.1
  simp only [] at ho
  refine ⟨hd, ho.1, ?_⟩
  intro hok
  obtain ⟨h1, h2, _, h4⟩ := ho.2 hok
  refine ⟨h1, h2, ?_, ?_⟩
  · rw [h2, h1, length_resize]
  · intro x hx; rw [h4] at hx; simp at hx

/-- the next open reports the size the file had exactly when the disk was not longer than the logical size -/
theorem reopen_same_size_iff (s : St) (hz : SizeInv s) (hd : DInv s) :
    roundUp s.file.length s.psize = s.fsize ↔ s.file.length = s.fsize := by
  constructor
  · intro h
    have := roundUp_ge s.file.length s.psize hz.1
    have := hd.1
    omega
  · intro h; rw [h]; exact roundUp_of_mod _ _ hz.1 hz.2.1

/-! ### Resize policies -/

/-- **`ensure_size` reaches every request `maxoff` admits.** On a state with aligned sizes, a request that is not beyond a
    configured `maxoff` and for which the policy's proposal *fits* (holds the request, page aligned — `policy_fits` says when)
    succeeds, and afterwards the file holds the request, is still aligned and within `maxoff`, and has not shrunk. In
    particular a proposal beyond `maxoff` is cut down to `maxoff`, not refused (the clamp a seeded change broke). -/
theorem ensure_reaches_request (st : St) (sz : Nat) (hz : SizeInv st) (hmo : st.maxoff % st.psize = 0)
    (hmax : st.maxoff = 0 ∨ sz ≤ st.maxoff) (hf : Fits st sz) :
    (ensureSize st sz).1 = .ok ∧ sz ≤ (ensureSize st sz).2.fsize ∧ st.fsize ≤ (ensureSize st sz).2.fsize ∧
    SizeInv (ensureSize st sz).2 ∧
    (st.fsize < sz → (ensureSize st sz).2.fsize = target st sz) := by
  have h := ensureSize_reaches st sz hz hmo hmax hf
  refine ⟨h.1, h.2, ensureSize_fsize_mono st sz hz.1, ensureSize_sizeInv st sz hz, ?_⟩
  intro hlt
  rw [ensureSize_grow st sz hz.1 hmo hlt hmax hf]

/-- and a request beyond a configured `maxoff` is refused without changing the size -/
theorem ensure_beyond_maxoff_fails (st : St) (sz : Nat) (hz : SizeInv st) (hm : st.maxoff ≠ 0) (hgt : st.maxoff < sz) :
    (ensureSize st sz).1 ≠ .ok ∧ (ensureSize st sz).2.fsize = st.fsize := by
  have hlt : st.fsize < sz := by have := hz.2.2 hm; omega
  have hne : (ensureSize st sz).1 ≠ .ok := by
    intro hok
    have h1 := ensureSize_ok_ge st sz hz.1 hok
    have h2 := (ensureSize_sizeInv st sz hz).2.2
    rw [(ensureSize_psize st sz).2.1] at h2
    have := h2 hm
    omega
  refine ⟨hne, ?_⟩
  rcases ensureSize_cases st sz with ⟨h0, _⟩ | ⟨_, e | e | ⟨T, hT, e, hTeq, _⟩⟩
  · omega
  · rw [e]
  · rw [e]
  · exfalso
    rw [e] at hne
    rcases truncate_cases { st with prev := (policy st.psize st.pol st.prev sz st.fsize).2 } T with
      ⟨e2, he⟩ | ⟨e2, _⟩ | ⟨e2, _, hg⟩
    · rw [e2] at hne; exact hne rfl
    · have hT' : T ≤ st.maxoff := by rw [hTeq]; split <;> omega
      omega
    · rw [e2] at hne; exact hne rfl

/-- **When the policies fit.** The default policy always does; the Fibonacci policy whenever its sum is representable (and
    then proposes at least current + previous size); the multiplier policy `n/d` (`d > 0`, `n ≥ d`) exactly when
    `request / d * n`, rounded up to a page, still holds the request — it multiplies the request with truncating division
    first, so e.g. `n = d` with a request that `d` does not divide, or a request smaller than `d`, is refused with `policy`
    unless page rounding rescues it; multiples of `d` always fit. -/
theorem policy_fits (st : St) (sz : Nat) (hp : 0 < st.psize) :
    (st.pol = .dflt → Fits st sz) ∧
    (st.pol = .fibo → roundUp (max (st.fsize + st.prev) sz) st.psize ≤ offTMax →
      Fits st sz ∧ st.fsize + st.prev ≤ proposal st sz) ∧
    (∀ n d, st.pol = .mul n d → 0 < d → d ≤ n → roundUp (sz / d * n) st.psize ≤ offTMax →
      (Fits st sz ↔ sz ≤ roundUp (sz / d * n) st.psize) ∧ (sz % d = 0 → Fits st sz)) :=
  ⟨fits_dflt st sz hp, fits_fibo st sz hp,
   fun n d hpol hd hn hb => ⟨fits_mul_iff st sz n d hpol hd hn hb, fits_mul_of_dvd st sz n d hp hpol hd hn hb⟩⟩

/-- **Growth sequences.** For every policy and every sequence of `ensure_size` requests (failed ones included) the sizes
    never decrease, stay page aligned and never exceed a configured `maxoff`. -/
theorem resize_sequence (st : St) (rs : List Nat) (hz : SizeInv st) :
    Ascending st.fsize (ensureSeq st rs) ∧
    ∀ x ∈ ensureSeq st rs, x.2 % st.psize = 0 ∧ (st.maxoff ≠ 0 → x.2 ≤ st.maxoff) :=
  ensureSeq_inv rs st hz

/-- **The Fibonacci sequence reaches every request up to `maxoff`.** With a configured `maxoff` that leaves head-room below
    `OFF_T_MAX` (`2·maxoff + page ≤ 2^63-1`), every request `≤ maxoff` of a sequence succeeds and is held by the size
    afterwards; each growing step takes `min maxoff (round_up (max (current + previous) request))`. -/
theorem fibo_sequence_reaches (st : St) (rs : List Nat) (hz : SizeInv st) (hpol : st.pol = .fibo) (hr : FiboRoom st)
    (hreq : ∀ r ∈ rs, r ≤ st.maxoff) :
    AllReached rs (ensureSeq st rs) ∧
    ∀ sz, sz ≤ st.maxoff → st.fsize < sz →
      (ensureSize st sz).2.fsize = min st.maxoff (roundUp (max (st.fsize + st.prev) sz) st.psize) :=
  ⟨ensureSeq_fibo rs st hz hpol hr hreq, fun sz h1 h2 => (ensureSize_fibo_step st sz hz hpol hr h1).2.2.2 h2⟩

/-- non-vacuity: a Fibonacci file of 2 pages (previous size 1 page) under `maxoff` = 8 pages; the request for 5 pages is cut
    to … 3 pages would not hold it, so the policy takes 5; the next request for 8 pages gets `maxoff` -/
example :
    let st : St := { psize := 4, cbuf := 4, isOpen := true, fsize := 8, file := zeros 8, maxoff := 32, pol := .fibo, prev := 4 }
    SizeInv st ∧ FiboRoom st ∧ ensureSeq st [20, 32] = [(.ok, 20), (.ok, 32)] := by
  refine ⟨⟨by decide, by decide, by decide⟩, ⟨by decide, by decide, by decide, by decide⟩, by decide⟩

/-- non-vacuity of `ensure_reaches_request`: multiplier 3/2, request 10 → `10 / 2 * 3 = 15` → 16, within `maxoff` 32 -/
example :
    let st : St := { psize := 4, cbuf := 4, isOpen := true, fsize := 8, file := zeros 8, maxoff := 32, pol := .mul 3 2 }
    SizeInv st ∧ Fits st 10 ∧ (ensureSize st 10).2.fsize = 16 := by
  refine ⟨⟨by decide, by decide, by decide⟩, ⟨by decide, by decide⟩, by decide⟩

/-! ### Private (copy-on-write) windows, any number of them: the two-layer reference

Reference (`Lemmas/ExfPriv.lean`, `ExfLay.lean`): the state has two layers — the file array and, per private window, the pages
copied on write (`cow`, `ovl`). `view` is the byte a reader sees: the overlay byte of the private window that holds it, else the
file byte. `layRead` reads byte by byte through the view; `layWrite` grows the file as `_exfile_write` does and then gives each
private window the part of the request that lies in its mapped range (`clip`, copy-on-write of the touched pages) and writes
every other byte into the file (`layFile`); nothing is split into pieces. All other calls act on one layer or one window
already: sizes and window management, the store through one mapping, the copy inside the first window, and the copy through
the file, which moves *file* bytes only. -/

/-- what every history keeps, private windows included: sizes aligned and within `maxoff`; windows ascending, disjoint,
    non-empty, mapped as far as the file reaches; window offsets and lengths page aligned; the disk at least `fsize` long -/
theorem private_inv (st : St) (ops : List Op) (h : PInv st) : PInv (run st ops).1 := run_PInv ops st h

/-- **Histories with private windows refine the two-layer reference**: every history (write / read / copy / truncate /
    ensure_size / add private or shared window / remove window / store through a mapping / remap_all, failed calls included)
    gives exactly the results and the final state of the two-layer machine `layRun`, which does no request splitting. -/
theorem private_refines_two_layer (st : St) (ops : List Op) (h : PInv st) : run st ops = layRun st ops :=
  run_eq_layRun ops st h

/-- a read is the view, byte by byte, clipped at the logical size -/
theorem read_is_view (st : St) (off : Int) (n : Nat) (h : PInv st) :
    read st off n =
      if off < 0 ∨ off + n > offTMax then (.oob, [])
      else (.ok, (List.range (min n (st.fsize - off.toNat))).map fun k => view st.psize st.file st.slots (off.toNat + k)) :=
  read_eq_lay st off n h.win h.disk

/-- **Read after write, at full strength** (replaces `private_read_after_write_partial`): with any number of private and shared
    windows, any range (straddling windows or not), with or without growth, a successful write is read back exactly. -/
theorem private_read_after_write (st : St) (off : Int) (d : Bytes) (h : PInv st) (hok : (write st off d).1 = .ok) :
    read (write st off d).2.2 off d.length = (.ok, d) :=
  read_after_write_priv st off d h hok

/-- **When a read differs from the flat array — exactly** (finding C12-PRIV). Let `v` be the bytes readers see before a call and
    `expect st op v` the flat-array meaning of the call (write / store put their bytes, copy moves what readers saw, everything
    else leaves the array alone). For every call on a state reachable with private windows and every byte `i` below the new
    logical size (for a copy: source inside the file), a one-byte read after the call returns the two-layer view, and it differs from
    the flat expectation **iff** `diverges st op i`:
    * write / truncate / ensure_size: `i` was held in the overlay of a private window whose length this size change alters (so
      the window is mapped anew and its overlay dropped), `i` is not overwritten by this very write, and the dropped overlay
      byte differed from the file byte beneath it;
    * remove_mmap: the same for the overlay of the removed window;
    * copy that goes through the file (not the mapped branch of `_exfile_copy`): a destination byte held in an overlay keeps its
      overlay value although readers saw something else at the source; any other destination byte receives the *file* byte of
      the source although readers saw an overlay byte there;
    * read, add_mmap, store through a mapping, mapped copy, remap_all: never. -/
theorem private_diverges_iff (st : St) (op : Op) (i : Nat) (h : PInv st) (hc : 0 < st.cbuf)
    (hsrc : ∀ off siz noff, op = .copy off siz noff → off + siz ≤ st.fsize)
    (hi' : i < (exec st op).1.fsize) (hb : (i : Int) + 1 ≤ offTMax) :
    read (exec st op).1 i 1 = (.ok, [view (exec st op).1.psize (exec st op).1.file (exec st op).1.slots i]) ∧
    (view (exec st op).1.psize (exec st op).1.file (exec st op).1.slots i ≠
        expect st op (view st.psize st.file st.slots) i ↔ diverges st op i) := by
  have hP := exec_PInv st op h
  exact ⟨read_one _ i hP.win hP.disk hi' hb, view_diverges_iff st op i h hc hsrc hi'⟩

/-- with shared windows only nothing diverges (consistent with `shared_refines_flat`), and the view is the file -/
theorem shared_never_diverges (st : St) (op : Op) (i : Nat) (hs : AllShared st.slots) :
    ¬ diverges st op i ∧ view st.psize st.file st.slots i = st.file.getD i 0 :=
  ⟨shared_not_diverges st op i hs, view_shared _ _ _ _ hs⟩

/-- **Private windows, the part that holds.** A write that lies inside the mapped part of the first window
    (the layout iwkv uses: one window from offset 0) and needs no growth is read back exactly by a read of the
    same range — for a private window (page-granular copy-on-write overlay) as well as for a shared one,
    whatever other windows follow. "Partial": it covers the first window and the same range only, and — as
    the next theorems show cannot be avoided — only while nothing re-maps the window in between. -/
theorem private_read_after_write_partial (st : St) (s : Slot) (rest : List Slot) (off : Nat) (d : Bytes)
    (hsl : st.slots = s :: rest) (hd : d ≠ []) (hb : (off : Int) + d.length ≤ offTMax)
    (h1 : s.off ≤ off) (h2 : off + d.length ≤ s.off + s.len) (hfs : off + d.length ≤ st.fsize)
    (hmax : st.maxoff = 0 ∨ off + d.length ≤ st.maxoff) :
    (write st off d).1 = .ok ∧ (write st off d).2.1 = d.length ∧
      read (write st off d).2.2 off d.length = (.ok, d) :=
  write_read_first_window st s rest off d hsl hd hb h1 h2 hfs hmax

/-! ### The stated exceptions, exhibited on the model (page size 4 to keep the witnesses small)

These are the model-level images of the open findings C12-PRIV and C12-COPYEXT; the check replays the same
shapes on the implementation. -/

def witness : St :=
  { psize := 4, cbuf := 4, isOpen := true, fsize := 4, file := [1, 2, 3, 4],
    slots := [{ off := 0, maxlen := 8, len := 4, priv := true }] }

/-- a write through a private window is visible until growth re-maps the window; then the old file bytes are back -/
theorem private_remap_loses_write :
    (run witness [.write 0 [9], .read 0 1, .ensure 5, .read 0 1]).2 =
      [(.ok, []), (.ok, [9]), (.ok, []), (.ok, [1])] := by decide

/-- removing the private window drops what was written through it -/
theorem private_remove_loses_write :
    (run witness [.write 0 [9], .removeMmap 0, .read 0 1]).2 = [(.ok, []), (.ok, []), (.ok, [1])] := by decide

def witness2 : St :=
  { psize := 4, cbuf := 4, isOpen := true, fsize := 8, file := [1, 2, 3, 4, 5, 6, 7, 8],
    slots := [{ off := 4, maxlen := 4, len := 4, priv := true }] }
/-- a copy that goes through the file does not see bytes held in a private window -/
theorem private_copy_bypasses_window :
    (run witness2 [.write 4 [9], .read 4 1, .copy 4 1 0, .read 0 1]).2 =
      [(.ok, []), (.ok, [9]), (.ok, []), (.ok, [5])] := by decide

def witness3 : St := { psize := 4, cbuf := 4, isOpen := true, fsize := 4, file := [1, 2, 3, 4] }
/-- a copy that ends beyond the logical size makes the file on disk longer than `fsize` -/
theorem copy_beyond_grows_disk :
    ((run witness3 [.copy 0 3 3]).1.fsize, (run witness3 [.copy 0 3 3]).1.file.length) = (4, 6) := by decide

/-- non-vacuity of `private_read_after_write_partial`: the witness state satisfies its hypotheses -/
example : (write witness 0 [9]).1 = .ok ∧ read (write witness 0 [9]).2.2 0 1 = (.ok, [9]) := by
  have := private_read_after_write_partial witness _ _ 0 [9] rfl (by simp) (by decide) (by decide) (by decide)
    (by decide) (by decide)
  exact ⟨this.1, this.2.2⟩

/-- non-vacuity: a freshly opened file satisfies the size invariant and has only shared windows -/
example : SizeInv ({ psize := 4096, cbuf := 4096 } : St) ∧ AllShared ({ psize := 4096, cbuf := 4096 } : St).slots :=
  ⟨⟨by decide, by decide, by simp⟩, by simp [AllShared]⟩

/-- non-vacuity of `reopen_size_partial` / `read_unaffected_by_write`: the empty file satisfies `Inv`, and a
    history with a copy inside the file satisfies `CopiesInside` -/
example : Inv ({ psize := 4, cbuf := 4 } : St) ∧
    CopiesInside ({ psize := 4, cbuf := 4 } : St) [.write 0 [1, 2, 3, 4, 5], .copy 0 2 4, .truncate 4] :=
  ⟨⟨rfl, by simp⟩, by simp [CopiesInside]; decide⟩

/-- non-vacuity of the private-window theorems: the witness states satisfy `PInv` -/
example : PInv witness ∧ PInv witness2 := by
  refine ⟨⟨⟨by decide, by decide, by decide⟩, ⟨by simp [witness], by simp [witness]; decide⟩, by simp [witness, AInv], by decide⟩,
          ⟨⟨by decide, by decide, by decide⟩, ⟨by simp [witness2], by simp [witness2]; decide⟩, by simp [witness2, AInv], by decide⟩⟩

/-- `diverges` holds on the three shapes of finding C12-PRIV (growth re-maps the window, the window is removed, a copy goes
    through the file), at the byte written through the private window -/
example :
    diverges (run witness [.write 0 [9]]).1 (.ensure 5) 0 ∧
    diverges (run witness [.write 0 [9]]).1 (.removeMmap 0) 0 ∧
    diverges (run witness2 [.write 4 [9]]).1 (.copy 4 1 0) 0 := by
  refine ⟨?_, ?_, ?_⟩
  · simp only [diverges]; decide
  · simp only [diverges]; decide
  · simp only [diverges]; decide

/-! ### The data listener (`IWDLSNR`): what the file layer reports is enough to rebuild the file

`Model/ExfLsn.lean` repeats the calls of the model with the listener calls of `iwexfile.c` / `iwfile.c` woven in (`execL`,
`runL`: `onresize` in `_exfile_truncate_lw`, one `onwrite` per piece of `_exfile_write`, `onwrite` of the source bytes in the
mapped branch of `_exfile_copy`, `oncopy` after a successful `iwp_copy_bytes`). `replay` applies events to a copy of the
file the way the WAL's roll-forward does (payload `memmove`, `memmove` inside the file, truncate with zero fill). -/

/-- **the model with a listener is the model**: forgetting the listener calls, every history gives the final state and the
    results of `run` (so every theorem above speaks about the file the listener watches) -/
theorem listener_model_agrees (m : Lsn) (st : St) (ops : List LOp) :
    ((runL m st ops).1, (runL m st ops).2.1) = run st (ops.map LOp.base) :=
  runL_base m ops st

/-- **Listener completeness (shared windows).** Take any state with shared windows and any history of write / read / copy /
    truncate / ensure_size / add or remove window / remap_all / store through a mapping *that its caller reports* (`mmapWriteR`),
    failed calls included, with either kind of listener (passive, or resizing itself as the WAL does), where the source of every
    copy lies inside the file on disk. Replaying everything the listener was told, in order, on a copy of the old file gives
    exactly the new file — every byte and the length — and the size it was told last is the logical size. No hypothesis on
    window layouts, sizes or the destination of copies (a copy that ends beyond the size extends the listener's copy exactly as it
    extends the disk, finding C12-COPYEXT). Not covered, necessarily: a store through `acquire_mmap` that nobody reports
    (`unreported_store_invisible`). -/
theorem listener_complete (m : Lsn) (st : St) (ops : List LOp) (hs : AllShared st.slots) (hc : 0 < st.cbuf)
    (hcov : RunCovered m st ops) :
    replay ⟨st.file, st.fsize⟩ (runL m st ops).2.2 = ⟨(runL m st ops).1.file, (runL m st ops).1.fsize⟩ :=
  runL_replay m ops st hs hc hcov

/-- one call (the step of `listener_complete`) -/
theorem listener_complete_step (m : Lsn) (st : St) (op : LOp) (hs : AllShared st.slots) (hc : 0 < st.cbuf)
    (hcov : op.Covered st) :
    replay ⟨st.file, st.fsize⟩ (execL m st op).2.2.2 = ⟨(execL m st op).1.file, (execL m st op).1.fsize⟩ :=
  execL_replay m st op hs hc hcov

/-- **Every event fits the file the listener knows.** From a state whose disk size is the logical size (a freshly opened file)
    and along every history whose copies stay inside the logical size, each event can be applied to a mapping of exactly the size
    the listener was told (which is what the WAL does): the range of every `onwrite` / `oncopy` lies inside that size at the
    moment it is reported (the growth is reported first), every `onresize` names the size the listener knows as its old size, and
    the checked replay ends in the new file. -/
theorem listener_events_fit (m : Lsn) (st : St) (ops : List LOp) (hs : AllShared st.slots) (hp : 0 < st.psize)
    (hc : 0 < st.cbuf) (hi : Inv st) (hin : RunInside m st ops) :
    replayChecked ⟨st.file, st.fsize⟩ (runL m st ops).2.2 = some ⟨(runL m st ops).1.file, (runL m st ops).1.fsize⟩ :=
  runL_checked m ops st hs hp hc hi hin

/-- **What the file layer does not report.** A store through the pointer of `acquire_mmap` produces no event: the listener's
    copy stays what it was while the file takes the bytes. The caller has to report it (`mmapWriteR`; iwkv and iwfsmfile call
    `onwrite` / `onset` themselves after every store into the mapping). -/
theorem unreported_store_invisible (m : Lsn) (st : St) (so rel : Nat) (d : Bytes) (hs : AllShared st.slots) :
    (execL m st (.op (.mmapWrite so rel d))).2.2.2 = [] ∧
    ((execL m st (.op (.mmapWrite so rel d))).2.1 = .ok →
      (execL m st (.op (.mmapWrite so rel d))).1.file = writeAt st.file (so + rel) d) :=
  mmapWrite_unreported m st so rel d hs

/-- **With private windows the listener holds the flat array** (the layout of iwkv with a WAL: one private window, the log is
    the truth). If the listener's copy `V` shows what readers see before a reported call (source of a copy inside the file), then
    after replaying the call's events it holds, at every byte below the new size, the plain meaning of the call (`expect`: the
    bytes written, the bytes moved, everything else as before) — also when the private window itself loses them
    (`private_diverges_iff`). -/
theorem listener_holds_flat_array (m : Lsn) (st : St) (op : LOp) (V : Bytes) (sz i : Nat) (h : PInv st) (hrep : op.Reported)
    (hsrc : ∀ off siz noff, op.base = .copy off siz noff → off + siz ≤ st.fsize)
    (hV : ∀ j, j < st.fsize → V.getD j 0 = view st.psize st.file st.slots j) (hVlen : st.fsize ≤ V.length)
    (hi' : i < (execL m st op).1.fsize) :
    (replay ⟨V, sz⟩ (execL m st op).2.2.2).bytes.getD i 0 = expect st op.base (fun j => V.getD j 0) i :=
  execL_expect m st op V sz i h hrep hsrc hV hVlen hi'

/-- hence: after the call the listener's copy and a read agree at byte `i` (below the old and the new size) **iff** the call
    does not diverge there — the listener is right exactly where finding C12-PRIV makes the private window wrong -/
theorem listener_vs_read (m : Lsn) (st : St) (op : LOp) (V : Bytes) (sz i : Nat) (h : PInv st) (hc : 0 < st.cbuf)
    (hrep : op.Reported) (hsrc : ∀ off siz noff, op.base = .copy off siz noff → off + siz ≤ st.fsize)
    (hV : ∀ j, j < st.fsize → V.getD j 0 = view st.psize st.file st.slots j) (hVlen : st.fsize ≤ V.length)
    (hi : i < st.fsize) (hi' : i < (execL m st op).1.fsize) :
    (replay ⟨V, sz⟩ (execL m st op).2.2.2).bytes.getD i 0 =
        view (execL m st op).1.psize (execL m st op).1.file (execL m st op).1.slots i ↔ ¬ diverges st op.base i := by
  rw [execL_expect m st op V sz i h hrep hsrc hV hVlen hi']
  have hst := execL_state m st op
  rw [hst] at hi' ⊢
  have hd := view_diverges_iff st op.base i h hc hsrc hi'
  have he : expect st op.base (fun j => V.getD j 0) i = expect st op.base (view st.psize st.file st.slots) i := by
    cases hop : op.base with
    | write off d => simp only [expect]; rw [hV i hi]
    | copy off siz noff =>
      simp only [expect]
      split
      · rename_i hcnd; exact hV _ (by have := hsrc off siz noff hop; omega)
      · exact hV i hi
    | mmapWrite so rel d => simp only [expect]; rw [hV i hi]
    | read off n => exact hV i hi
    | truncate size => exact hV i hi
    | ensure size => exact hV i hi
    | addMmap off maxlen priv => exact hV i hi
    | removeMmap off => exact hV i hi
    | remapAll => exact hV i hi
  rw [he]
  constructor
  · intro heq hdv; exact (hd.mpr hdv) heq.symm
  · intro hnd
    by_cases heq : view (exec st op.base).1.psize (exec st op.base).1.file (exec st op.base).1.slots i =
        expect st op.base (view st.psize st.file st.slots) i
    · exact heq.symm
    · exact absurd (hd.mp heq) hnd

/-- non-vacuity and a picture (page size 4): a write that grows the file and straddles a window is reported as the resize and
    one `onwrite` per piece, at file offsets; a listener that resizes itself sees its own resize come back -/
example :
    (execL .handling { witness3 with slots := [{ off := 4, maxlen := 4, len := 0, priv := false }] }
      (.op (.write 2 [7, 8, 9, 10]))).2.2.2 =
      [.resize 4 8 false, .resize 4 8 true, .write 2 [7, 8], .write 4 [9, 10]] := by decide

/-- non-vacuity of `listener_complete` / `listener_events_fit`: a history with growth, a straddling write, a copy through the
    file, a reported store and a shrink satisfies the hypotheses; the replay is the final file -/
example :
    let st : St := { witness3 with slots := [{ off := 4, maxlen := 4, len := 0, priv := false }] }
    let ops : List LOp := [.op (.write 2 [7, 8, 9, 10]), .op (.copy 0 3 5), .mmapWriteR 4 1 [5], .op (.truncate 4)]
    RunCovered .passive st ops ∧ RunInside .passive st ops ∧ Inv st ∧ AllShared st.slots ∧
    (runL .passive st ops).1.file = [1, 2, 7, 8] ∧
    replay ⟨st.file, st.fsize⟩ (runL .passive st ops).2.2 = ⟨[1, 2, 7, 8], 4⟩ := by
  refine ⟨by simp only [RunCovered, LOp.Covered]; decide, by simp only [RunInside, LOp.Inside]; decide, ⟨rfl, by decide⟩,
    by simp [AllShared], by decide, by decide⟩

end IwModel.C12
