import IwModel.Model.Exf
/-! # C12 — reads through the extensible file return the bytes last written -/
namespace IwModel.C12
open IwModel IwModel.Exf

end IwModel.C12
