import IwModel.Lemmas.Vnum
import IwModel.Lemmas.Conv
import IwModel.Lemmas.Cmp
/-! # C19 — number codecs round-trip and key comparators are total orders

Property theorems only; helper lemmas live in `IwModel/Lemmas`. -/
namespace IwModel.C19
open IwModel

/-- Decoding what `IW_SETVNUMBUF64` wrote yields the number and the number of bytes written,
    whatever follows in the buffer — for every natural number, hence for all of `[0, 2^63)`. -/
theorem vnum_dec_enc (n : Nat) (rest : Bytes) :
    Vnum.dec (Vnum.enc n ++ rest) = some (n, (Vnum.enc n).length) := by
  simp [Vnum.dec, Vnum.decAux_enc]

/-- every encoded byte is a byte -/
theorem vnum_enc_wf (n : Nat) : Bytes.wf (Vnum.enc n) := Vnum.enc_wf n

/-- side condition on the regenerated threshold chain of `IW_VNUMSIZE` -/
theorem vnum_thresholds_ok :
    Gen.vnumThresholds = (List.range 9).map (fun k => 128 ^ (k + 1)) ∧
    Gen.vnumSizes = (List.range 10).map (· + 1) := by decide

/-- `IW_VNUMSIZE n` is the length of the encoding, for every value the encoder accepts;
    values `≥ 2^63` (negative as `int64_t`) are rejected by the encoder. -/
theorem vnum_size (n : Nat) (h : n < 2 ^ 64) :
    (n < 2 ^ 63 → Vnum.enc64 n = some (Vnum.enc n) ∧ (Vnum.enc n).length = Vnum.size n) ∧
    (2 ^ 63 ≤ n → Vnum.enc64 n = none) := by
  constructor
  · intro h63
    refine ⟨by simp [Vnum.enc64, h63], ?_⟩
    have hle := fun k => Vnum.enc_length_le k n
    have hge := fun k => Vnum.enc_length_ge k n
    simp only [Vnum.size, Gen.vnumThresholds, Gen.vnumSizes, Vnum.sizeAux]
    have h1 := hle 0; have h2 := hle 1; have h3 := hle 2; have h4 := hle 3; have h5 := hle 4
    have h6 := hle 5; have h7 := hle 6; have h8 := hle 7; have h9 := hle 8
    have g1 := hge 1; have g2 := hge 2; have g3 := hge 3; have g4 := hge 4; have g5 := hge 5
    have g6 := hge 6; have g7 := hge 7; have g8 := hge 8; have g9 := hge 9
    have g0 := Vnum.enc_length_pos n
    simp only [Nat.reducePow, Nat.reduceAdd] at h1 h2 h3 h4 h5 h6 h7 h8 h9 g1 g2 g3 g4 g5 g6 g7 g8 g9 h63
    repeat' split
    all_goals omega
  · intro h63
    simp only [Vnum.enc64]; rw [if_neg (by omega)]

/-- non-vacuity: a three-byte value -/
example : Vnum.dec (Vnum.enc 20000 ++ [7]) = some (20000, (Vnum.enc 20000).length) ∧ Vnum.size 20000 = 3 :=
  ⟨vnum_dec_enc 20000 [7], by decide⟩

/-! ## decimal text -/

/-- Reading back (with `iwatoi`, computed in ℤ) the decimal text of any integer yields that integer.
    Holds for every `v : Int`, in particular on all 64-bit values. -/
theorem atoi_itoaSpec (v : Int) : Conv.atoi (Conv.itoaSpec v) = v := by
  unfold Conv.itoaSpec
  split
  · rw [Conv.atoi_neg_digits]; omega
  · rw [Conv.atoi_digits]; omega

/-- On the `int64_t` range the two's-complement wrap-around of `iwatoi`'s accumulator is the identity,
    so the ℤ-valued `Conv.atoi` is what the C function returns there. -/
theorem wrap64_id (v : Int) (lo : -2 ^ 63 ≤ v) (hi : v < 2 ^ 63) : Conv.wrap64 v = v := by
  unfold Conv.wrap64; omega

/-- text → integer ∘ integer → text is the identity on all 64-bit values, including the wrap. -/
theorem atoi_itoaSpec_wrap (v : Int) (lo : -2 ^ 63 ≤ v) (hi : v < 2 ^ 63) :
    Conv.wrap64 (Conv.atoi (Conv.itoaSpec v)) = v := by
  rw [atoi_itoaSpec, wrap64_id v lo hi]

/-- non-vacuity: INT64_MIN is in range and reads back -/
example : Conv.wrap64 (Conv.atoi (Conv.itoaSpec (-2 ^ 63))) = -2 ^ 63 :=
  atoi_itoaSpec_wrap _ (by decide) (by decide)

/-- `iwitoa(v, buf, max)` never stores outside `buf[0 .. max)`: on the guarded-buffer model every
    guard cell before and after the caller's buffer still holds the fill pattern after the call and the
    memory keeps its size. Holds for EVERY `max` (including 0 and 1, where nothing but possibly the NUL
    fits) and every `v` (the model mirrors the C code for `-2^63 ≤ v < 2^63`), on the truncating paths
    (`memmove` of the digit window) as well as on the `snprintf` path for `INT64_MIN`. -/
theorem itoa_bounds (v : Int) (max : Nat) :
    Conv.oobWrites (Conv.itoa v max).2 max = [] ∧ (Conv.itoa v max).2.length = max + 2 * Conv.pad :=
  ⟨Conv.oobWrites_of_guard (Conv.guard_itoa v max), (Conv.guard_itoa v max).1⟩

/-- the form asked for by the property text: 64-bit values -/
theorem itoa_bounds64 (v : Int) (max : Nat) (_lo : -2 ^ 63 ≤ v) (_hi : v < 2 ^ 63) :
    Conv.oobWrites (Conv.itoa v max).2 max = [] := (itoa_bounds v max).1

/-- non-vacuity: a truncating call (5 digits and a sign into 3 bytes) and the degenerate sizes -/
example : Conv.oobWrites (Conv.itoa (-12345) 3).2 3 = [] ∧ Conv.oobWrites (Conv.itoa 7 0).2 0 = [] ∧
    Conv.oobWrites (Conv.itoa (-7) 1).2 1 = [] :=
  ⟨(itoa_bounds _ _).1, (itoa_bounds _ _).1, (itoa_bounds _ _).1⟩

/-- non-vacuity of the observer: a store one past a 2-byte buffer IS reported by `oobWrites` -/
example : Conv.oobWrites ((Conv.Mem.init 2).set (Conv.pad + 2) 0) 2 = [Conv.pad + 2] := by decide

/-- Mechanism = specification: when the decimal text of `v` plus its NUL fits (`length < max`), the
    buffer left by `iwitoa` (digit loop least-significant-first, in-place reversal, NUL; `snprintf`
    for `INT64_MIN`) holds exactly the decimal text of `v` and the return value is its length —
    for every `v ≥ INT64_MIN` (the model mirrors the C code up to `INT64_MAX`). -/
theorem itoa_refines_spec (v : Int) (max : Nat) (lo : -2 ^ 63 ≤ v)
    (hlen : (Conv.itoaSpec v).length < max) :
    Conv.cstr (Conv.itoa v max).2 = Conv.itoaSpec v ∧ (Conv.itoa v max).1 = (Conv.itoaSpec v).length :=
  Conv.itoa_spec v max lo hlen

/-- Round trip through the mechanism: `iwatoi` applied to the buffer that `iwitoa` filled returns `v`,
    for EVERY 64-bit `v` (including `INT64_MIN` and `INT64_MAX`) and every buffer in which the text fits. -/
theorem atoi_itoa (v : Int) (max : Nat) (lo : -2 ^ 63 ≤ v) (hi : v < 2 ^ 63)
    (hlen : (Conv.itoaSpec v).length < max) :
    Conv.wrap64 (Conv.atoi (Conv.cstr (Conv.itoa v max).2)) = v := by
  rw [(itoa_refines_spec v max lo hlen).1]
  exact atoi_itoaSpec_wrap v lo hi

/-- a 21-byte buffer is enough for every 64-bit value (at most 19 digits and a sign) -/
theorem itoaSpec_length_le (v : Int) (lo : -2 ^ 63 ≤ v) (hi : v < 2 ^ 63) : (Conv.itoaSpec v).length < 21 :=
  Conv.itoaSpec_length_lt v lo hi

/-- headline form: with a buffer of at least 21 bytes (`IWNUMBUF_SIZE` is 32) `iwatoi ∘ iwitoa` is the
    identity on all 64-bit values -/
theorem atoi_itoa64 (v : Int) (max : Nat) (lo : -2 ^ 63 ≤ v) (hi : v < 2 ^ 63) (hmax : 21 ≤ max) :
    Conv.wrap64 (Conv.atoi (Conv.cstr (Conv.itoa v max).2)) = v :=
  atoi_itoa v max lo hi (by have := itoaSpec_length_le v lo hi; omega)

/-- non-vacuity: `INT64_MIN` into `IWNUMBUF_SIZE` bytes -/
example : Conv.wrap64 (Conv.atoi (Conv.cstr (Conv.itoa (-2 ^ 63) Gen.IWNUMBUF_SIZE).2)) = -2 ^ 63 :=
  atoi_itoa64 _ _ (by decide) (by decide) (by decide)

/-- non-vacuity: "-12345" needs 7 bytes -/
example : Conv.cstr (Conv.itoa (-12345) 7).2 = [45, 49, 50, 51, 52, 53] ∧ (Conv.itoa (-12345) 7).1 = 6 := by
  have h : Conv.itoaSpec (-12345) = [45, 49, 50, 51, 52, 53] := by
    simp [Conv.itoaSpec, Conv.digits]
  have := itoa_refines_spec (-12345) 7 (by decide) (by rw [h]; decide)
  rw [h] at this; exact this

/-! ## hex -/

/-- side condition on the regenerated table `ascii2hex` of iwconv.c: it inverts the 16 lower-case
    hex digit characters that `iwbin2hex` emits -/
theorem ascii2hex_ok : ∀ h < 16, Conv.tbl (Conv.hexchar h) = h := Conv.tbl_hexchar

/-- `iwhex2bin(iwbin2hex(bs))` = `bs` for every byte string that fits the output buffer. -/
theorem hex_roundtrip (bs : Bytes) (max : Nat) (hwf : Bytes.wf bs) (hlen : bs.length ≤ max)
    (_hmax : 0 < max) : Conv.hex2bin (Conv.bin2hex bs) max = bs :=
  Conv.hex2bin_bin2hex bs max hwf hlen

/-- non-vacuity -/
example : Conv.hex2bin (Conv.bin2hex [0, 255, 0x1f, 0xa0]) 4 = [0, 255, 0x1f, 0xa0] :=
  hex_roundtrip _ 4 (by intro b hb; simp at hb; omega) (by decide) (by decide)

/-! ## key comparators — byte-string keys

`Cmp.cmpK compound a b` runs `_cmp_keys` in plain mode on the effective key `a = (body, compound part)`
as stored in a node (`vnum(compound) ++ body` in compound mode) against the lookup key `b`. -/

/-- antisymmetry, both layouts: swapping stored and lookup key flips the sign -/
theorem plain_antisymm (c : Bool) (a b : Bytes × Nat) :
    sgn (Cmp.cmpK c a b) = - sgn (Cmp.cmpK c b a) := Cmp.cmpK_antisymm c a b

/-- non-compound byte keys compare equal only when identical (the compound part is not part of
    the key in this layout). No bound on length or byte values is needed. -/
theorem plain_eq_iff (a b : Bytes × Nat) : Cmp.cmpK false a b = 0 ↔ a.1 = b.1 := by
  rw [Cmp.cmpK_false]
  exact ⟨fun h => (Cmp.tieBreak_eq_zero h).symm, fun h => by rw [h]; exact Cmp.tieBreak_self _⟩

/-- compound byte keys compare equal only when body AND compound part are identical; the compound
    part is read back from its vnum encoding (`Vnum.decAux_enc`), for every natural number, hence
    for all of `[0, 2^63)`. -/
theorem plain_compound_eq_iff (a b : Bytes × Nat) : Cmp.cmpK true a b = 0 ↔ a = b :=
  Cmp.cmpK_true_eq_zero a b

/-- transitivity, both layouts -/
theorem plain_trans (c : Bool) (a b d : Bytes × Nat) (h1 : Cmp.cmpK c a b > 0) (h2 : Cmp.cmpK c b d > 0) :
    Cmp.cmpK c a d > 0 := Cmp.cmpK_trans c a b d h1 h2

/-- what the order is: bytewise lexicographic with the length as tie-break (`Cmp.tieBreak` =
    `memcmp` on the common prefix, then length difference), then — compound layout only — the
    compound part in numeric order. -/
theorem plain_order (a b : Bytes × Nat) :
    Cmp.cmpK false a b = Cmp.tieBreak b.1 a.1 ∧
    Cmp.cmpK true a b = (if Cmp.tieBreak b.1 a.1 = 0 then
        (if b.2 > a.2 then 1 else if b.2 < a.2 then -1 else 0) else Cmp.tieBreak b.1 a.1) := by
  refine ⟨Cmp.cmpK_false a b, ?_⟩
  rw [Cmp.cmpK_true, Cmp.cmp3_nat]

/-- non-vacuity: the hypotheses of `plain_trans` are satisfiable in both layouts; in the compound
    layout a tie on the body is broken by the compound part -/
example : Cmp.cmpK false ([1, 2], 0) ([1, 2, 0], 0) > 0 ∧ Cmp.cmpK false ([1, 2, 0], 0) ([1, 3], 0) > 0 ∧
    Cmp.cmpK true ([7], 200) ([7], 300) > 0 ∧ Cmp.cmpK true ([7], 300) ([8], 0) > 0 := by
  simp [Cmp.cmpK_false, Cmp.cmpK_true, Cmp.tieBreak_cons_cons, Cmp.cmp3]

/-! ## key comparators — integer keys (`IWDB_VNUM64_KEYS`) -/

/-- Integer keys, plain layout: the comparator on the vnum encodings of two numbers of the
    `int64_t` non-negative range has the sign of the numeric order (`> 0` iff the lookup key `b` is
    the larger) — through the decoded values when both encodings have the same length and through
    the length short-cut otherwise (encoded length is monotone in the value). -/
theorem vnum_numeric (a b c2 : Nat) (ha : a < 2 ^ 63) (hb : b < 2 ^ 63) :
    sgn (Cmp.cmpKeys .vnum false (Vnum.enc a) (Vnum.enc b) c2)
      = if b > a then 1 else if b < a then -1 else 0 := Cmp.cmpKeys_vnum_nc c2 ha hb

/-- Integer keys, compound layout: numeric order on the number, ties broken by the numeric order of
    the compound part (for every compound part, no bound needed). -/
theorem vnum_compound_numeric (a b c1 c2 : Nat) (ha : a < 2 ^ 63) (hb : b < 2 ^ 63) :
    sgn (Cmp.cmpKeys .vnum true (Cmp.stored true (Vnum.enc a) c1) (Vnum.enc b) c2)
      = if b > a then 1 else if b < a then -1 else if c2 > c1 then 1 else if c2 < c1 then -1 else 0 :=
  Cmp.cmpKeys_vnum_c c1 c2 ha hb

/-- Hence the integer-key comparator is a strict total order on effective keys `(number, compound)`
    in both layouts: antisymmetric, transitive, and zero exactly on identical keys (in the plain layout
    the compound part is not part of the key). -/
theorem vnum_total (c : Bool) (x y z : Nat × Nat) (hx : x.1 < 2 ^ 63) (hy : y.1 < 2 ^ 63) (hz : z.1 < 2 ^ 63) :
    sgn (Cmp.cmpV c x y) = - sgn (Cmp.cmpV c y x) ∧
    (Cmp.cmpV c x y = 0 ↔ x.1 = y.1 ∧ (c = true → x.2 = y.2)) ∧
    (Cmp.cmpV c x y > 0 → Cmp.cmpV c y z > 0 → Cmp.cmpV c x z > 0) := by
  cases c with
  | false =>
    have e : ∀ u v : Nat × Nat, Cmp.cmpV false u v = Cmp.cmpKeys .vnum false (Vnum.enc u.1) (Vnum.enc v.1) v.2 :=
      fun u v => by simp [Cmp.cmpV, Cmp.stored]
    have hxy := vnum_numeric x.1 y.1 y.2 hx hy
    have hyx := vnum_numeric y.1 x.1 x.2 hy hx
    have hyz := vnum_numeric y.1 z.1 z.2 hy hz
    have hxz := vnum_numeric x.1 z.1 z.2 hx hz
    rw [← e] at hxy hyx hyz hxz
    refine ⟨?_, ?_, ?_⟩
    · rw [hxy, hyx]; repeat' split
      all_goals omega
    · rw [← Cmp.sgn_zero, hxy]; repeat' split
      all_goals simp <;> omega
    · rw [← Cmp.sgn_pos, ← Cmp.sgn_pos, ← Cmp.sgn_pos, hxy, hyz, hxz]; repeat' split
      all_goals omega
  | true =>
    have hxy := vnum_compound_numeric x.1 y.1 x.2 y.2 hx hy
    have hyx := vnum_compound_numeric y.1 x.1 y.2 x.2 hy hx
    have hyz := vnum_compound_numeric y.1 z.1 y.2 z.2 hy hz
    have hxz := vnum_compound_numeric x.1 z.1 x.2 z.2 hx hz
    refine ⟨?_, ?_, ?_⟩
    · show sgn (Cmp.cmpKeys _ _ _ _ _) = - sgn (Cmp.cmpKeys _ _ _ _ _)
      rw [hxy, hyx]; repeat' split
      all_goals omega
    · show Cmp.cmpKeys _ _ _ _ _ = 0 ↔ _
      rw [← Cmp.sgn_zero, hxy]; repeat' split
      all_goals simp <;> omega
    · show Cmp.cmpKeys _ _ _ _ _ > 0 → Cmp.cmpKeys _ _ _ _ _ > 0 → Cmp.cmpKeys _ _ _ _ _ > 0
      rw [← Cmp.sgn_pos, ← Cmp.sgn_pos, ← Cmp.sgn_pos, hxy, hyz, hxz]; repeat' split
      all_goals omega

/-- non-vacuity: 127 (1 byte) vs 128 (2 bytes) takes the length short-cut, 300 vs 200 the decoded
    branch; both bounds are satisfiable -/
example : sgn (Cmp.cmpKeys .vnum false (Vnum.enc 127) (Vnum.enc 128) 0) = 1 ∧
    sgn (Cmp.cmpKeys .vnum false (Vnum.enc 300) (Vnum.enc 200) 0) = -1 ∧
    sgn (Cmp.cmpKeys .vnum true (Cmp.stored true (Vnum.enc 5) 9) (Vnum.enc 5) 10) = 1 :=
  ⟨vnum_numeric 127 128 0 (by decide) (by decide), vnum_numeric 300 200 0 (by decide) (by decide),
   vnum_compound_numeric 5 5 9 10 (by decide) (by decide)⟩

/-! ## key comparators — real-number keys (`IWDB_REALNUM_KEYS`, `iwafcmp`) -/

/-- `iwafcmp` is a strict total order on byte strings for EVERY way of turning the fraction digits
    into a value (`frac`, e.g. the long-double accumulation of the C code with whatever rounding) as
    long as `lt` on those values is a strict weak order: it is antisymmetric, zero only on identical
    byte strings, and transitive. It is the lexicographic product of the signed integer part, the
    fraction value and the bytes (`Cmp.afcmpWith_eq`). -/
theorem real_total {α : Type} (lt : α → α → Bool) (zero : α) (frac : Int → List Nat → α)
    (h : Cmp.StrictWeak lt) (a b c : Bytes) :
    sgn (Cmp.afcmpWith lt zero frac a b) = - sgn (Cmp.afcmpWith lt zero frac b a) ∧
    (Cmp.afcmpWith lt zero frac a b = 0 ↔ a = b) ∧
    (Cmp.afcmpWith lt zero frac a b < 0 → Cmp.afcmpWith lt zero frac b c < 0 →
      Cmp.afcmpWith lt zero frac a c < 0) :=
  ⟨Cmp.afcmpWith_antisymm lt zero frac h a b, Cmp.afcmpWith_eq_zero lt zero frac h a b,
   Cmp.afcmpWith_trans lt zero frac h a b c⟩

/-- the same for a strict linear order on the fraction values: irreflexive, transitive, trichotomous -/
theorem real_total_linear {α : Type} (lt : α → α → Bool) (zero : α) (frac : Int → List Nat → α)
    (irrefl : ∀ x, lt x x = false) (trans : ∀ x y z, lt x y = true → lt y z = true → lt x z = true)
    (tri : ∀ x y, lt x y = true ∨ x = y ∨ lt y x = true) (a b c : Bytes) :
    sgn (Cmp.afcmpWith lt zero frac a b) = - sgn (Cmp.afcmpWith lt zero frac b a) ∧
    (Cmp.afcmpWith lt zero frac a b = 0 ↔ a = b) ∧
    (Cmp.afcmpWith lt zero frac a b < 0 → Cmp.afcmpWith lt zero frac b c < 0 →
      Cmp.afcmpWith lt zero frac a c < 0) :=
  real_total lt zero frac (Cmp.StrictWeak.of_linear lt irrefl trans tri) a b c

/-- instance: the executable comparator of the model (exact fractions) and with it `_cmp_keys` in
    real-number mode, plain layout (`> 0` iff the lookup key `k` sorts after the stored key `v1`) -/
theorem real_keys_total (a b c : Bytes) (c2 : Nat) :
    Cmp.cmpKeys .real false a b c2 = Cmp.afcmp b a ∧
    sgn (Cmp.afcmp a b) = - sgn (Cmp.afcmp b a) ∧ (Cmp.afcmp a b = 0 ↔ a = b) ∧
    (Cmp.afcmp a b < 0 → Cmp.afcmp b c < 0 → Cmp.afcmp a c < 0) := by
  refine ⟨by simp [Cmp.cmpKeys, Cmp.cmpPrefix], ?_⟩
  exact real_total_linear _ _ _ (by simp) (by simp only [decide_eq_true_eq]; omega)
    (by simp only [decide_eq_true_eq]; omega) a b c

/-- non-vacuity: "1.5" < "1.50" < "2" — fraction tie broken by the bytes; integer part decides -/
example : Cmp.afcmp [49, 46, 53] [49, 46, 53, 48] < 0 ∧ Cmp.afcmp [49, 46, 53, 48] [50] < 0 := by decide

/-- Real-number keys through `_cmp_keys`, both layouts (`Cmp.cmpR c x y`: `x = (text, compound part)` as
    stored, `y` the lookup key): antisymmetric, zero exactly on identical keys (in the plain layout the
    compound part is not part of the key), transitive. Stored keys are non-empty (`iwkv_put` rejects
    `key->size == 0`); for an empty stored text the compound branch of `_cmp_keys_prefix` returns the
    length of the lookup key without looking at the compound parts. -/
theorem real_keys_total_both (c : Bool) (x y z : Bytes × Nat) (hx : x.1 ≠ []) (hy : y.1 ≠ []) :
    sgn (Cmp.cmpR c x y) = - sgn (Cmp.cmpR c y x) ∧
    (Cmp.cmpR c x y = 0 ↔ x.1 = y.1 ∧ (c = true → x.2 = y.2)) ∧
    (Cmp.cmpR c x y > 0 → Cmp.cmpR c y z > 0 → Cmp.cmpR c x z > 0) := Cmp.cmpR_total c x y z hx hy

/-- non-vacuity: same text "1.5", compound parts 3 < 4 -/
example : Cmp.cmpR true ([49, 46, 53], 3) ([49, 46, 53], 4) > 0 := by
  rw [Cmp.cmpR_true _ _ (by simp)]; decide

/-! ## comparison through the cached key prefix (`_lx_sblk_cmp_key`) -/

/-- Byte keys, plain layout: comparing the lookup key with a node through the cached prefix of the
    node's lowest key (`Gen.PREFIX_KEY_LEN_V2` = 115 bytes, `SBLK_FULL_LKEY`, the `ksize < lkl`
    short-cut, the fall-back to the full key on a prefix tie) has the same sign as comparing with the
    full key — for EVERY stored key, lookup key and (kept abstract) cache length. -/
theorem prefix_agrees_plain (full k : Bytes) (c2 : Nat) :
    sgn (Cmp.lxCmp .plain false full k c2) = sgn (Cmp.cmpKeys .plain false full k c2) :=
  Cmp.lxCmp_plain_nc full k c2

/-- Byte keys, compound layout (code after fix 1a3b861, finding F39): the comparison through the cached
    prefix has the same sign as the comparison with the full stored key `vnum(c1) ++ body`, for EVERY
    body, lookup key and pair of compound parts; `hL`: the compound vnum fits the cache. -/
theorem prefix_agrees_compound (body k : Bytes) (c1 c2 : Nat)
    (hL : (Vnum.enc c1).length < Gen.PREFIX_KEY_LEN_V2) :
    sgn (Cmp.lxCmp .plain true (Cmp.stored true body c1) k c2)
      = sgn (Cmp.cmpKeys .plain true (Cmp.stored true body c1) k c2) :=
  Cmp.lxCmp_plain_c body c1 k c2 hL

/-- `prefix_agrees_compound` for every compound part the encoder accepts (`[0, 2^63)`, at most
    `IW_VNUMBUFSZ` = 10 bytes < 115), with the side condition on the generated constants discharged -/
theorem prefix_agrees_compound64 (body k : Bytes) (c1 c2 : Nat) (h1 : c1 < 2 ^ 63) :
    sgn (Cmp.lxCmp .plain true (Cmp.stored true body c1) k c2)
      = sgn (Cmp.cmpKeys .plain true (Cmp.stored true body c1) k c2) := by
  have l1 := Cmp.enc_length_le10 h1
  have hP : Gen.IW_VNUMBUFSZ < Gen.PREFIX_KEY_LEN_V2 := by decide
  exact prefix_agrees_compound body k c1 c2 (by omega)

/-- numeric and real-number modes never use the prefix short-cut with a truncated key: their keys
    (≤ 10 bytes, resp. compared as a whole) — the code calls `_cmp_keys` on the cached bytes, which
    are the whole stored key whenever it fits the cache -/
theorem prefix_agrees_short (mode : Cmp.Mode) (compound : Bool) (full k : Bytes) (c2 : Nat)
    (h : full.length ≤ Gen.PREFIX_KEY_LEN_V2) :
    Cmp.lxCmp mode compound full k c2 = Cmp.cmpKeys mode compound full k c2 := by
  simp [Cmp.lxCmp, h, List.take_of_length_le h]

set_option maxRecDepth 100000 in
/-- The DEFECT fixed by 1a3b861 (finding F39), stated on the model of the OLD rule `Cmp.lxCmpOld`
    (`ksize += IW_VNUMSIZE(key->compound)`): stored key = 120 × 0x05 with compound part 20000 (3-byte
    vnum), lookup key = 112 × 0x05 ++ 0x04 with compound part 0 (1-byte vnum). The full comparison
    says the lookup key is smaller (first difference at byte 112), the old cached-prefix path said it
    is greater: `ksize = 113 + 1 < 115` took the short-cut although the cached body has only
    115 - 3 = 112 bytes. The fixed rule agrees (`prefix_agrees_compound`). -/
theorem prefix_old_rule_disagrees_witness :
    Cmp.lxCmpOld .plain true (Cmp.stored true (List.replicate 120 5) 20000) (List.replicate 112 5 ++ [4]) 0 = 1 ∧
    Cmp.cmpKeys .plain true (Cmp.stored true (List.replicate 120 5) 20000) (List.replicate 112 5 ++ [4]) 0 = -1 ∧
    Cmp.lxCmp .plain true (Cmp.stored true (List.replicate 120 5) 20000) (List.replicate 112 5 ++ [4]) 0 = -1 := by
  have e : Vnum.enc 20000 = [223, 227, 1] := by
    rw [Vnum.enc, dif_neg (by decide), Vnum.enc, dif_neg (by decide), Vnum.enc, dif_pos (by decide)]
  simp only [Cmp.stored, e, if_true]
  decide

/-- non-vacuity: a stored key longer than the cache, a lookup key that ties on the cached prefix -/
example : sgn (Cmp.lxCmp .plain false (List.replicate 120 5 ++ [9]) (List.replicate 120 5 ++ [7]) 0) = -1 := by
  rw [prefix_agrees_plain]; decide

example : sgn (Cmp.lxCmp .plain true (Cmp.stored true (List.replicate 120 5) 300) (List.replicate 119 5 ++ [7]) 200)
    = sgn (Cmp.cmpKeys .plain true (Cmp.stored true (List.replicate 120 5) 300) (List.replicate 119 5 ++ [7]) 200) :=
  prefix_agrees_compound64 _ _ 300 200 (by decide)

end IwModel.C19
