import IwModel.Model.Wal
/-! # C05 — a damaged or cut-off log tail never yields a state that is not a synced prefix -/
namespace IwModel.C05
open IwModel

end IwModel.C05
